(** A flat, one-level specification of what [Lexer::lex] tokenises, and the proof that the
    nested loops of the model ([lex_match] inside the main loop of [lex], with the buffer and
    offset bookkeeping) refine it. At every position of the input:
      - the first native/legacy matcher that yields elements wins, else the combined regex
        ([lex_step] = one iteration of ['main] in [lex_match]);
      - where neither matches, the last-resort pattern takes [n >= 1] bytes and they are kept
        as ONE element of the last-resort matcher's kind (Unlexable) -- never dropped;
      - lexing always continues after it, to the end of the input.
    The loop as it was before the repair does not refine it ([Proofs.lex_legacy_refuted]). *)
From Sq Require Import Lexer.Model Lexer.Tables Lexer.Proofs.
From Coq Require Import Lia.
Arguments N.add : simpl never.
Arguments N.sub : simpl never.
Arguments N.leb : simpl never.

Section Spec.
  Variable o_match : N -> N -> str -> option N.
  Variable o_search : N -> N -> str -> option (N * N).
  Variable o_rx : N -> str -> option (N * N * N).
  Variable matchers : list matcher.
  Variable syntax_map : list N.
  Variable resort : matcher.
  Notation lex_step := (lex_step o_match o_search o_rx matchers syntax_map).
  Notation lex_match := (lex_match o_match o_search o_rx matchers syntax_map).
  Notation lex_main := (lex_main o_match o_search o_rx matchers syntax_map resort).

  Inductive lex_spec : N -> str -> list elem -> Prop :=
  | LS_nil off : lex_spec off [] []
  | LS_tok off s els n tail :
      s <> [] -> lex_step off s = Some (Some (els, n)) ->
      lex_spec (off + n) (drop n s) tail ->
      lex_spec off s (els ++ tail)
  | LS_unlex off s n tail :
      s <> [] -> lex_step off s = Some None ->
      o_match (p_id (m_pat resort)) off s = Some n -> 1 <= n -> n <= len s ->
      lex_spec (off + n) (drop n s) tail ->
      lex_spec off s (mk (m_pat resort) (take n s) :: tail).

  Lemma lex_match_spec fuel : forall off s acc acc' off' rest,
    lex_match fuel off s acc = Some (acc', off', rest) ->
    exists added, acc' = acc ++ added /\
      forall tail, lex_spec off' rest tail -> lex_spec off s (added ++ tail).
  Proof.
    induction fuel as [|f IH]; intros off s acc acc' off' rest H; [discriminate|].
    cbn [Model.lex_match] in H.
    destruct s as [|c s0].
    - injection H as <- <- <-. exists []. split; [symmetry; apply app_nil_r | intros tail Ht; exact Ht].
    - remember (c :: s0) as s eqn:Es.
      destruct (lex_step off s) as [[[els n]|]|] eqn:El; [| |discriminate].
      + apply IH in H. destruct H as (added & -> & Hsp).
        exists (els ++ added). split; [rewrite app_assoc; reflexivity|].
        intros tail Ht. rewrite <- app_assoc.
        eapply LS_tok; [subst s; discriminate | exact El | apply Hsp; exact Ht].
      + injection H as <- <- <-. exists []. split; [symmetry; apply app_nil_r | intros tail Ht; exact Ht].
  Qed.

  Hypothesis Hres : H_resort o_match o_search o_rx matchers syntax_map resort.
  Hypothesis Hplain : T_resort_plain resort.

  Lemma lex_main_spec fuel : forall off s acc els,
    lex_main fuel off s acc = Some els ->
    exists added, els = acc ++ added /\ lex_spec off s added.
  Proof.
    induction fuel as [|f IH]; intros off s acc els H; [discriminate|].
    cbn [Model.lex_main] in H.
    destruct (lex_match (S (length s)) off s []) as [[[e off'] rest]|] eqn:Em; [|discriminate].
    destruct (lex_match_shape _ _ _ _ _ _ _ _ _ _ _ _ Em) as [_ Hshape].
    apply lex_match_spec in Em. destruct Em as (added & Ee & Hsp). cbn [app] in Ee. subst e.
    destruct rest as [|c r0].
    - injection H as <-. exists added. split; [reflexivity|].
      rewrite <- (app_nil_r added). apply Hsp. constructor.
    - remember (c :: r0) as rest eqn:Er.
      destruct Hshape as [Hnil|Hstuck]; [subst rest; discriminate|].
      unfold Model.matcher_matches, Model.subdivide in H. rewrite Hplain in H.
      destruct (Hres off' rest) as (n & Hn & Hn1); [subst rest; discriminate | exact Hstuck |].
      rewrite Hn in H.
      destruct (n <=? len rest) eqn:Eb; cbn [negb] in H; [|discriminate].
      apply N.leb_le in Eb.
      apply IH in H. destruct H as (added' & -> & Hsp').
      exists (added ++ mk (m_pat resort) (take n rest) :: added').
      split; [rewrite <- !app_assoc; reflexivity|].
      apply Hsp. eapply LS_unlex; try eassumption. subst rest; discriminate.
  Qed.

  (** in a specification run the element texts concatenate to the input (nothing is dropped) *)
  Lemma lex_spec_lossless off s els :
    H_rx_anchored o_rx -> H_trim_greedy o_search -> Forall sub_trim_ok matchers ->
    lex_spec off s els -> texts els = s.
  Proof.
    intros Ha Hg Hf H. induction H as [off|off s els n tail Hne Hst _ IH|off s n tail Hne Hst Hm H1 Hn _ IH].
    - reflexivity.
    - destruct (lex_step_texts o_match o_search o_rx matchers syntax_map Hg Ha _ _ _ _ Hf Hst) as (_ & B & _).
      rewrite texts_app, B, IH. apply take_drop.
    - rewrite texts_cons. cbn [mk e_text]. rewrite IH. apply take_drop.
  Qed.
End Spec.

Theorem lex_refines_spec om os orx tb ku :
  oracle_ok om os orx tb -> tables_ok ku tb = true ->
  forall s ts, lex_of om os orx tb s = Some ts ->
  exists els,
    lex_spec om os orx (tb_matchers tb) (tb_syntax tb) (tb_resort tb) 0 s els /\
    p_kind (m_pat (tb_resort tb)) = ku /\
    to_tokens (tb_eof tb) s els = Some ts.
Proof.
  intros (H1 & H2 & H3 & H4 & H5 & H6) Htb s ts H.
  destruct (tables_ok_sound _ _ Htb) as (_ & T2 & T3 & _).
  unfold lex_of, lex, lex_elements in H.
  destruct (lex_main om os orx (tb_matchers tb) (tb_syntax tb) (tb_resort tb) (S (length s)) 0 s []) as [els|] eqn:E; [|discriminate].
  apply lex_main_spec in E; [|exact H5 | exact T2].
  destruct E as (added & -> & Hsp). cbn [app] in H.
  exists added. auto.
Qed.

(** the specification is inhabited beyond the trivial case: "a@@a.\n" for the example lexer *)
Example ex_spec :
  lex_spec ex_match ex_search ex_rx [] [1; 2; 3; 4] (tb_resort ex_tables) 0 [97; 64; 64; 97; 46; 10]
    [ {| e_kind := 4; e_text := [97] |}; {| e_kind := 7; e_text := [64; 64; 97] |};
      {| e_kind := 3; e_text := [46] |}; {| e_kind := 2; e_text := [10] |} ].
Proof.
  apply (LS_tok _ _ _ _ _ _ 0 [97; 64; 64; 97; 46; 10] [{| e_kind := 4; e_text := [97] |}] 1); [discriminate | vm_compute; reflexivity |].
  change (drop 1 [97; 64; 64; 97; 46; 10]) with [64; 64; 97; 46; 10].
  change {| e_kind := 7; e_text := [64; 64; 97] |} with (mk (m_pat (tb_resort ex_tables)) (take 3 [64; 64; 97; 46; 10])).
  apply LS_unlex; [discriminate | vm_compute; reflexivity | vm_compute; reflexivity | lia | vm_compute; discriminate |].
  change (drop 3 [64; 64; 97; 46; 10]) with [46; 10].
  apply (LS_tok _ _ _ _ _ _ (0 + 1 + 3) [46; 10] [{| e_kind := 3; e_text := [46] |}] 1); [discriminate | vm_compute; reflexivity |].
  change (drop 1 [46; 10]) with [10].
  apply (LS_tok _ _ _ _ _ _ (0 + 1 + 3 + 1) [10] [{| e_kind := 2; e_text := [10] |}] 1 []); [discriminate | vm_compute; reflexivity |].
  apply LS_nil.
Qed.
