From Sq Require Import Lexer.Model Lexer.Tables.
Lemma placeholder : True. Proof. exact I. Qed.
