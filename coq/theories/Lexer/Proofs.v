(** Proofs about the model of [Lexer::lex] (Lexer/Model.v). *)
From Sq Require Import Lexer.Model Lexer.Tables.
From Coq Require Import Lia PeanoNat Arith.
Arguments N.add : simpl never.
Arguments N.sub : simpl never.
Arguments N.mul : simpl never.
Arguments N.eqb : simpl never.
Arguments N.ltb : simpl never.
Arguments N.leb : simpl never.

(** ------------------------------------------------------------------ byte strings *)
Lemma skipn_skipn' {A} (a b : nat) : forall l : list A, skipn b (skipn a l) = skipn (a + b) l.
Proof.
  induction a as [|a IH]; intros l; [reflexivity|].
  destruct l as [|x l]; [simpl; apply skipn_nil | simpl; apply IH].
Qed.
Lemma firstn_add' {A} (a b : nat) : forall l : list A, firstn (a + b) l = firstn a l ++ firstn b (skipn a l).
Proof.
  induction a as [|a IH]; intros l; [reflexivity|].
  destruct l as [|x l]; [simpl; rewrite firstn_nil; reflexivity | simpl; rewrite IH; reflexivity].
Qed.
Lemma len_nil : len [] = 0. Proof. reflexivity. Qed.
Lemma len_app a b : len (a ++ b) = len a + len b.
Proof. unfold len. rewrite app_length. lia. Qed.
Lemma len_0 s : len s = 0 -> s = [].
Proof. unfold len. destruct s; simpl; [reflexivity | lia]. Qed.
Lemma take_drop n s : take n s ++ drop n s = s.
Proof. apply firstn_skipn. Qed.
Lemma len_take n s : n <= len s -> len (take n s) = n.
Proof. unfold len, take. intros H. rewrite firstn_length. lia. Qed.
Lemma length_drop n s : length (drop n s) = (length s - N.to_nat n)%nat.
Proof. apply skipn_length. Qed.
Lemma len_drop n s : len (drop n s) = len s - n.
Proof. unfold len. rewrite length_drop. lia. Qed.
Lemma drop_0 s : drop 0 s = s. Proof. reflexivity. Qed.
Lemma take_0 s : take 0 s = []. Proof. reflexivity. Qed.
Lemma slice_0 n s : slice 0 n s = take n s.
Proof. unfold slice. rewrite drop_0. f_equal. lia. Qed.
Lemma drop_drop a b s : drop b (drop a s) = drop (a + b) s.
Proof. unfold drop. rewrite skipn_skipn'. f_equal. lia. Qed.
Lemma take_take_drop a b s : a <= b -> take a s ++ slice a b s = take b s.
Proof.
  intros H. unfold slice, take, drop.
  replace (N.to_nat b) with (N.to_nat a + N.to_nat (b - a))%nat by lia.
  rewrite firstn_add'. reflexivity.
Qed.
Lemma split3 st en s : st <= en -> take st s ++ slice st en s ++ drop en s = s.
Proof. intros H. rewrite app_assoc, take_take_drop by exact H. apply take_drop. Qed.
Lemma take_all s : take (len s) s = s.
Proof. unfold take, len. rewrite Nat2N.id. apply firstn_all. Qed.
Lemma take_app_exact a b : take (len a) (a ++ b) = a.
Proof.
  unfold take, len. rewrite Nat2N.id.
  rewrite firstn_app, Nat.sub_diag, firstn_all. simpl. apply app_nil_r.
Qed.
Lemma drop_app_exact a b : drop (len a) (a ++ b) = b.
Proof.
  unfold drop, len. rewrite Nat2N.id.
  rewrite skipn_app, Nat.sub_diag, skipn_all. reflexivity.
Qed.
Lemma str_eqb_refl s : str_eqb s s = true.
Proof. induction s as [|x s IH]; simpl; [reflexivity|]. rewrite N.eqb_refl. exact IH. Qed.

Lemma texts_app a b : texts (a ++ b) = texts a ++ texts b.
Proof. unfold texts. rewrite map_app, concat_app. reflexivity. Qed.
Lemma texts_cons e r : texts (e :: r) = e_text e ++ texts r.
Proof. reflexivity. Qed.
Lemma texts_nil : texts [] = []. Proof. reflexivity. Qed.

Lemma is_empty_true {A} (l : list A) : is_empty l = true -> l = [].
Proof. destruct l; [reflexivity | discriminate]. Qed.

(** contiguous tiling of [a, b) by a list of half-open ranges *)
Fixpoint tiles (a b : N) (l : list (N * N)) : Prop :=
  match l with
  | [] => a = b
  | (x, y) :: r => x = a /\ a <= y /\ tiles y b r
  end.
Lemma tiles_le a b l : tiles a b l -> a <= b.
Proof.
  revert a. induction l as [|[x y] r IH]; simpl; intros a H; [lia|].
  destruct H as (_ & H1 & H2). apply IH in H2. lia.
Qed.
Lemma tiles_last a b l : tiles a b l -> l <> [] -> snd (last l (0, 0)) = b.
Proof.
  revert a. induction l as [|[x y] r IH]; intros a H Hne; [congruence|].
  destruct H as (_ & _ & H2). destruct r as [|p r'].
  - simpl in *. exact H2.
  - change (last ((x, y) :: p :: r') (0, 0)) with (last (p :: r') (0, 0)).
    apply (IH y H2). discriminate.
Qed.

Definition sub_trim_ok (m : matcher) : Prop := m_sub m <> None -> m_trim m <> None.

(** ------------------------------------------------------------------ the loops *)
Section Proofs.
  Variable o_match : N -> N -> str -> option N.
  Variable o_search : N -> N -> str -> option (N * N).
  Variable o_rx : N -> str -> option (N * N * N).
  Variable matchers : list matcher.
  Variable syntax_map : list N.
  Variable resort : matcher.

  Notation trim_loop := (trim_loop o_search).
  Notation trim_match := (trim_match o_search).
  Notation sub_loop := (sub_loop o_search).
  Notation subdivide := (subdivide o_search).
  Notation matcher_matches := (matcher_matches o_match o_search).
  Notation try_matchers := (try_matchers o_match o_search).
  Notation lex_step := (lex_step o_match o_search o_rx matchers syntax_map).
  Notation lex_match := (lex_match o_match o_search o_rx matchers syntax_map).
  Notation lex_main := (lex_main o_match o_search o_rx matchers syntax_map resort).
  Notation lex_elements := (lex_elements o_match o_search o_rx matchers syntax_map resort).

  (** *** Contracts of the oracles and obligations on the tables *)

  (** a trim hit strictly inside the string (its text goes to the content buffer) is never
      followed by a hit at the very start of the remainder: otherwise [trim_match] would emit
      that later element before the buffered content. True of greedy [c+] patterns. *)
  Definition H_trim_greedy : Prop :=
    forall p off sb st en, o_search p off sb = Some (st, en) -> 0 < st -> en < len sb ->
      forall st' en', o_search p (off + en) (drop en sb) = Some (st', en') -> 0 < st'.
  (** the combined regex is searched anchored *)
  Definition H_rx_anchored : Prop :=
    forall off s pid st en, o_rx off s = Some (pid, st, en) -> st = 0.
  Definition T_sub_trim : Prop := Forall sub_trim_ok matchers /\ sub_trim_ok resort.

  Definition H_match_bounds : Prop := forall p off s n, o_match p off s = Some n -> n <= len s.
  Definition H_match_progress : Prop :=
    forall m off s n, In m matchers -> o_match (p_id (m_pat m)) off s = Some n -> 1 <= n.
  Definition H_search : Prop := forall p off s st en, o_search p off s = Some (st, en) -> st < en /\ en <= len s.
  Definition H_rx : Prop :=
    forall off s pid st en, o_rx off s = Some (pid, st, en) ->
      st = 0 /\ 1 <= en /\ en <= len s /\ (N.to_nat pid < length syntax_map)%nat.
  (** where [lex_match] stops on a non-empty string, the last-resort pattern takes at least one byte *)
  Definition H_resort : Prop :=
    forall off s, s <> [] -> lex_step off s = Some None ->
      exists n, o_match (p_id (m_pat resort)) off s = Some n /\ 1 <= n.
  Definition T_resort_plain : Prop := m_sub resort = None.

  (** *** Losslessness of every loop *)
  Section Lossless.
    Hypothesis Hgreedy : H_trim_greedy.
    Hypothesis Hanch : H_rx_anchored.

    Lemma trim_loop_texts fuel tp : forall off sb content acc acc' content' sb',
      (content = [] \/ forall st en, o_search (p_id tp) off sb = Some (st, en) -> 0 < st) ->
      trim_loop fuel tp off sb content acc = Some (acc', content', sb') ->
      texts acc' ++ content' ++ sb' = texts acc ++ content ++ sb.
    Proof.
      induction fuel as [|f IH]; intros off sb content acc acc' content' sb' Hpre H; [discriminate|].
      cbn [Model.trim_loop] in H.
      destruct sb as [|c sb0]; [injection H as <- <- <-; reflexivity|].
      remember (c :: sb0) as sb eqn:Esb.
      destruct (o_search (p_id tp) off sb) as [[st en]|] eqn:Es;
        [|injection H as <- <- <-; reflexivity].
      destruct ((st <=? en) && (en <=? len sb)) eqn:Eb; cbn [negb] in H; [|discriminate].
      apply andb_true_iff in Eb. destruct Eb as [Eb1 Eb2].
      apply N.leb_le in Eb1. apply N.leb_le in Eb2.
      destruct (st =? 0) eqn:E0.
      - apply N.eqb_eq in E0. subst st.
        assert (content = []) as ->.
        { destruct Hpre as [Hc|Hc]; [exact Hc|]. specialize (Hc _ _ eq_refl). lia. }
        apply IH in H; [|left; reflexivity].
        rewrite H, texts_app. cbn [texts map concat mk e_text]. rewrite app_nil_r.
        cbn [app]. rewrite <- app_assoc. rewrite take_drop. reflexivity.
      - apply N.eqb_neq in E0.
        destruct (en =? len sb) eqn:E1.
        + apply N.eqb_eq in E1. injection H as <- <- <-.
          rewrite texts_app. cbn [texts map concat mk e_text]. rewrite !app_nil_r.
          rewrite <- !app_assoc. f_equal. f_equal.
          rewrite take_take_drop by exact Eb1. rewrite E1. apply take_all.
        + apply N.eqb_neq in E1.
          apply IH in H.
          * rewrite H. rewrite <- !app_assoc. rewrite take_drop. reflexivity.
          * right. intros st' en' Hs'. eapply Hgreedy; [exact Es| lia | lia | exact Hs'].
    Qed.

    Lemma trim_match_texts m off s els :
      m_trim m <> None -> trim_match m off s = Some els -> texts els = s.
    Proof.
      unfold Model.trim_match. intros Ht H.
      destruct (m_trim m) as [tp|]; [|congruence].
      destruct (trim_loop (S (length s)) tp off s [] []) as [[[acc content] sb]|] eqn:E; [|discriminate].
      apply trim_loop_texts in E; [|left; reflexivity].
      cbn [texts map concat app] in E.
      destruct (negb (is_empty content) || negb (is_empty sb)) eqn:Ee; injection H as <-.
      - rewrite texts_app. cbn [texts map concat mk e_text]. rewrite app_nil_r. exact E.
      - apply orb_false_iff in Ee. destruct Ee as [E1 E2].
        apply negb_false_iff in E1. apply negb_false_iff in E2.
        apply is_empty_true in E1. apply is_empty_true in E2. subst content sb.
        rewrite !app_nil_r in E. exact E.
    Qed.

    Lemma sub_loop_texts fuel m sp : forall off sb acc els,
      m_trim m <> None -> sub_loop fuel m sp off sb acc = Some els -> texts els = texts acc ++ sb.
    Proof.
      induction fuel as [|f IH]; intros off sb acc els Ht H; [discriminate|].
      cbn [Model.sub_loop] in H.
      destruct sb as [|c sb0]; [injection H as <-; rewrite app_nil_r; reflexivity|].
      remember (c :: sb0) as sb eqn:Esb.
      destruct (o_search (p_id sp) off sb) as [[st en]|] eqn:Es.
      - destruct ((st <=? en) && (en <=? len sb)) eqn:Eb; cbn [negb] in H; [|discriminate].
        apply andb_true_iff in Eb. destruct Eb as [Eb1 Eb2].
        apply N.leb_le in Eb1. apply N.leb_le in Eb2.
        destruct (trim_match m off (take st sb)) as [t|] eqn:Et; [|discriminate].
        apply trim_match_texts in Et; [|exact Ht].
        apply IH in H; [|exact Ht].
        rewrite H, !texts_app, Et. cbn [texts map concat mk e_text]. rewrite app_nil_r.
        rewrite <- !app_assoc. f_equal. apply split3. exact Eb1.
      - destruct (trim_match m off sb) as [t|] eqn:Et; [|discriminate].
        injection H as <-. apply trim_match_texts in Et; [|exact Ht].
        rewrite texts_app, Et. reflexivity.
    Qed.

    Lemma subdivide_texts m off x els :
      sub_trim_ok m -> subdivide m off x = Some els -> texts els = x.
    Proof.
      unfold Model.subdivide, sub_trim_ok. intros Hm H.
      destruct (m_sub m) as [sp|].
      - apply sub_loop_texts in H; [exact H | apply Hm; discriminate].
      - injection H as <-. cbn [texts map concat mk e_text]. apply app_nil_r.
    Qed.

    Lemma matcher_matches_texts m off s els n :
      sub_trim_ok m -> matcher_matches m off s = Some (els, n) -> n <= len s /\ texts els = take n s.
    Proof.
      unfold Model.matcher_matches. intros Hm H.
      destruct (o_match (p_id (m_pat m)) off s) as [k|].
      - destruct (k <=? len s) eqn:Ek; cbn [negb] in H; [|discriminate].
        apply N.leb_le in Ek.
        destruct (subdivide m off (take k s)) as [e|] eqn:Esub; [|discriminate].
        injection H as <- <-. split; [exact Ek|].
        eapply subdivide_texts; eassumption.
      - injection H as <- <-. split; [lia | reflexivity].
    Qed.

    Lemma try_matchers_texts ms off s els n :
      Forall sub_trim_ok ms -> try_matchers ms off s = Some (Some (els, n)) ->
      n <= len s /\ texts els = take n s /\ els <> [] /\
      exists m, In m ms /\ matcher_matches m off s = Some (els, n).
    Proof.
      induction ms as [|m ms IH]; intros Hf H; [discriminate|].
      cbn [Model.try_matchers] in H. inversion Hf as [|? ? Hm Hms]; subst.
      destruct (matcher_matches m off s) as [[e k]|] eqn:Em; [|discriminate].
      destruct e as [|e0 e'].
      - destruct (IH Hms H) as (A & B & C & m' & D & E).
        repeat split; try assumption. exists m'. split; [right; exact D | exact E].
      - injection H as <- <-.
        destruct (matcher_matches_texts _ _ _ _ _ Hm Em) as [A B].
        repeat split; try assumption; [discriminate|].
        exists m. split; [left; reflexivity | exact Em].
    Qed.

    Lemma lex_step_texts off s els n :
      Forall sub_trim_ok matchers -> lex_step off s = Some (Some (els, n)) ->
      n <= len s /\ texts els = take n s /\ els <> [].
    Proof.
      unfold Model.lex_step. intros Hf H.
      destruct (try_matchers matchers off s) as [[r|]|] eqn:Et; [| |discriminate].
      - injection H as ->. apply try_matchers_texts in Et; [|exact Hf].
        destruct Et as (A & B & C & _). auto.
      - destruct (o_rx off s) as [[[pid st] en]|] eqn:Er; [|discriminate].
        destruct (nth_error syntax_map (N.to_nat pid)) as [k|]; [|discriminate].
        destruct ((st <=? en) && (en <=? len s)) eqn:Eb; cbn [negb] in H; [|discriminate].
        apply andb_true_iff in Eb. destruct Eb as [_ Eb2]. apply N.leb_le in Eb2.
        injection H as <- <-. apply Hanch in Er. subst st.
        repeat split; [exact Eb2 | | discriminate].
        cbn [texts map concat e_text]. rewrite app_nil_r. apply slice_0.
    Qed.

    Lemma lex_match_texts fuel : forall off s acc acc' off' rest,
      Forall sub_trim_ok matchers -> lex_match fuel off s acc = Some (acc', off', rest) ->
      texts acc' ++ rest = texts acc ++ s /\ (length rest <= length s)%nat /\
      (rest = [] \/ lex_step off' rest = Some None).
    Proof.
      induction fuel as [|f IH]; intros off s acc acc' off' rest Hf H; [discriminate|].
      cbn [Model.lex_match] in H.
      destruct s as [|c s0]; [injection H as <- <- <-; auto|].
      remember (c :: s0) as s eqn:Es.
      destruct (lex_step off s) as [[[els n]|]|] eqn:El; [| |discriminate].
      - destruct (lex_step_texts _ _ _ _ Hf El) as (A & B & _).
        apply IH in H; [|exact Hf]. destruct H as (H1 & H2 & H3).
        split; [|split; [|exact H3]].
        + rewrite H1, texts_app, B, <- app_assoc, take_drop. reflexivity.
        + rewrite length_drop in H2. lia.
      - injection H as <- <- <-. auto.
    Qed.

    Lemma lex_main_texts fuel : forall off s acc els,
      T_sub_trim -> lex_main fuel off s acc = Some els -> texts els = texts acc ++ s.
    Proof.
      induction fuel as [|f IH]; intros off s acc els [Hf Hr] H; [discriminate|].
      cbn [Model.lex_main] in H.
      destruct (lex_match (S (length s)) off s []) as [[[e off'] rest]|] eqn:Em; [|discriminate].
      apply lex_match_texts in Em; [|exact Hf]. destruct Em as (Em & _ & _).
      cbn [texts map concat app] in Em.
      destruct rest as [|c r0].
      - injection H as <-. rewrite texts_app. rewrite app_nil_r in Em. rewrite Em. reflexivity.
      - remember (c :: r0) as rest eqn:Er.
        destruct (matcher_matches resort off' rest) as [[re n]|] eqn:Emm; [|discriminate].
        destruct (matcher_matches_texts _ _ _ _ _ Hr Emm) as [A B].
        destruct re as [|re0 re']; [discriminate|].
        apply IH in H; [|split; assumption].
        rewrite H, !texts_app, B, <- Em, <- !app_assoc, take_drop. reflexivity.
    Qed.

    Theorem lex_elements_lossless s els :
      T_sub_trim -> lex_elements s = Some els -> texts els = s.
    Proof. unfold Model.lex_elements. intros Ht H. apply lex_main_texts in H; assumption. Qed.
  End Lossless.

  (** *** Totality: no panic, no error, and the fuel [len + 1] suffices *)
  Section Total.
    Hypothesis Hmb : H_match_bounds.
    Hypothesis Hmp : H_match_progress.
    Hypothesis Hs : H_search.
    Hypothesis Hrx : H_rx.
    Hypothesis Hres : H_resort.
    Hypothesis Hplain : T_resort_plain.

    Lemma trim_loop_total fuel tp : forall off sb content acc,
      (length sb < fuel)%nat -> exists r, trim_loop fuel tp off sb content acc = Some r.
    Proof.
      induction fuel as [|f IH]; intros off sb content acc Hl; [lia|].
      cbn [Model.trim_loop].
      destruct sb as [|c sb0]; [eexists; reflexivity|].
      remember (c :: sb0) as sb eqn:Esb.
      destruct (o_search (p_id tp) off sb) as [[st en]|] eqn:Es; [|eexists; reflexivity].
      destruct (Hs _ _ _ _ _ Es) as [A B].
      replace ((st <=? en) && (en <=? len sb)) with true
        by (symmetry; apply andb_true_iff; split; apply N.leb_le; lia).
      cbn [negb].
      assert (Hd : (length (drop en sb) < f)%nat) by (rewrite length_drop; unfold len in B; lia).
      destruct (st =? 0); [apply IH; exact Hd|].
      destruct (en =? len sb); [eexists; reflexivity|].
      apply IH; exact Hd.
    Qed.

    Lemma trim_match_total m off s : exists els, trim_match m off s = Some els.
    Proof.
      unfold Model.trim_match. destruct (m_trim m) as [tp|]; [|eexists; reflexivity].
      destruct (trim_loop_total (S (length s)) tp off s [] []) as [[[acc content] sb] ->]; [lia|].
      destruct (negb (is_empty content) || negb (is_empty sb)); eexists; reflexivity.
    Qed.

    Lemma sub_loop_total fuel m sp : forall off sb acc,
      (length sb < fuel)%nat -> exists r, sub_loop fuel m sp off sb acc = Some r.
    Proof.
      induction fuel as [|f IH]; intros off sb acc Hl; [lia|].
      cbn [Model.sub_loop].
      destruct sb as [|c sb0]; [eexists; reflexivity|].
      remember (c :: sb0) as sb eqn:Esb.
      destruct (o_search (p_id sp) off sb) as [[st en]|] eqn:Es.
      - destruct (Hs _ _ _ _ _ Es) as [A B].
        replace ((st <=? en) && (en <=? len sb)) with true
          by (symmetry; apply andb_true_iff; split; apply N.leb_le; lia).
        cbn [negb].
        destruct (trim_match_total m off (take st sb)) as [t ->].
        apply IH. rewrite length_drop. unfold len in B. lia.
      - destruct (trim_match_total m off sb) as [t ->]. eexists; reflexivity.
    Qed.

    Lemma subdivide_total m off x : exists els, subdivide m off x = Some els.
    Proof.
      unfold Model.subdivide. destruct (m_sub m) as [sp|]; [|eexists; reflexivity].
      apply sub_loop_total. lia.
    Qed.

    Lemma matcher_matches_total m off s : exists r, matcher_matches m off s = Some r.
    Proof.
      unfold Model.matcher_matches.
      destruct (o_match (p_id (m_pat m)) off s) as [k|] eqn:Ek; [|eexists; reflexivity].
      apply Hmb in Ek. replace (k <=? len s) with true by (symmetry; apply N.leb_le; exact Ek).
      cbn [negb]. destruct (subdivide_total m off (take k s)) as [els ->]. eexists; reflexivity.
    Qed.

    Lemma matcher_matches_progress m off s e els n :
      In m matchers -> matcher_matches m off s = Some (e :: els, n) -> 1 <= n.
    Proof.
      unfold Model.matcher_matches. intros Hin H.
      destruct (o_match (p_id (m_pat m)) off s) as [k|] eqn:Ek; [|discriminate].
      destruct (negb (k <=? len s)); [discriminate|].
      destruct (subdivide m off (take k s)); [|discriminate].
      injection H as _ <-. eapply Hmp; eassumption.
    Qed.

    Lemma try_matchers_total ms off s :
      (forall m, In m ms -> In m matchers) ->
      exists r, try_matchers ms off s = Some r /\
                (forall els n, r = Some (els, n) -> 1 <= n).
    Proof.
      induction ms as [|m ms IH]; intros Hin.
      - exists None. split; [reflexivity | discriminate].
      - cbn [Model.try_matchers].
        destruct (matcher_matches_total m off s) as [[e k] Em]. rewrite Em.
        destruct e as [|e0 e'].
        + apply IH. intros m' Hm'. apply Hin. right. exact Hm'.
        + eexists. split; [reflexivity|].
          intros els n Hr. injection Hr as <- <-.
          eapply matcher_matches_progress; [|exact Em]. apply Hin. left. reflexivity.
    Qed.

    Lemma lex_step_total off s :
      exists r, lex_step off s = Some r /\ (forall els n, r = Some (els, n) -> 1 <= n).
    Proof.
      unfold Model.lex_step.
      destruct (try_matchers_total matchers off s (fun m H => H)) as [r [-> Hr]].
      destruct r as [r|]; [eexists; split; [reflexivity|]; exact Hr|].
      destruct (o_rx off s) as [[[pid st] en]|] eqn:Er; [|exists None; split; [reflexivity|discriminate]].
      destruct (Hrx _ _ _ _ _ Er) as (A & B & C & D).
      apply nth_error_Some in D.
      destruct (nth_error syntax_map (N.to_nat pid)) as [k|]; [|congruence].
      replace ((st <=? en) && (en <=? len s)) with true
        by (symmetry; apply andb_true_iff; split; apply N.leb_le; lia).
      cbn [negb]. eexists. split; [reflexivity|].
      intros els n Hr'. injection Hr' as _ <-. exact B.
    Qed.

    Lemma lex_match_total fuel : forall off s acc,
      (length s < fuel)%nat -> exists r, lex_match fuel off s acc = Some r.
    Proof.
      induction fuel as [|f IH]; intros off s acc Hl; [lia|].
      cbn [Model.lex_match].
      destruct s as [|c s0]; [eexists; reflexivity|].
      remember (c :: s0) as s eqn:Es.
      destruct (lex_step_total off s) as [r [-> Hr]].
      destruct r as [[els n]|]; [|eexists; reflexivity].
      apply IH. rewrite length_drop. specialize (Hr _ _ eq_refl).
      assert (0 < length s)%nat by (subst s; simpl; lia). lia.
    Qed.

    Lemma lex_match_shape fuel : forall off s acc acc' off' rest,
      lex_match fuel off s acc = Some (acc', off', rest) ->
      (length rest <= length s)%nat /\ (rest = [] \/ lex_step off' rest = Some None).
    Proof.
      induction fuel as [|f IH]; intros off s acc acc' off' rest H; [discriminate|].
      cbn [Model.lex_match] in H.
      destruct s as [|c s0]; [injection H as _ _ <-; auto|].
      remember (c :: s0) as s eqn:Es.
      destruct (lex_step off s) as [[[els n]|]|] eqn:El; [| |discriminate].
      - apply IH in H. destruct H as [A B]. split; [|exact B].
        rewrite length_drop in A. lia.
      - injection H as _ <- <-. auto.
    Qed.

    Lemma lex_main_total fuel : forall off s acc,
      Forall sub_trim_ok matchers ->
      (length s < fuel)%nat -> exists els, lex_main fuel off s acc = Some els.
    Proof.
      induction fuel as [|f IH]; intros off s acc Hf Hl; [lia|].
      cbn [Model.lex_main].
      destruct (lex_match_total (S (length s)) off s []) as [[[e off'] rest] Em]; [lia|].
      rewrite Em.
      destruct rest as [|c r0]; [eexists; reflexivity|].
      remember (c :: r0) as rest eqn:Er.
      destruct (lex_match_shape _ _ _ _ _ _ _ Em) as [Hlen [Hnil|Hstuck]]; [subst rest; discriminate|].
      destruct (Hres off' rest) as (n & Hn & Hn1); [subst rest; discriminate | exact Hstuck |].
      unfold Model.matcher_matches. rewrite Hn.
      pose proof (Hmb _ _ _ _ Hn) as Hb.
      replace (n <=? len rest) with true by (symmetry; apply N.leb_le; exact Hb).
      cbn [negb]. unfold Model.subdivide. rewrite Hplain.
      apply IH; [exact Hf|]. rewrite length_drop.
      assert (0 < length rest)%nat by (subst rest; simpl; lia). lia.
    Qed.

    Theorem lex_elements_total s :
      Forall sub_trim_ok matchers -> exists els, lex_elements s = Some els.
    Proof. intros Hf. unfold Model.lex_elements. apply lex_main_total; [exact Hf | lia]. Qed.
  End Total.
End Proofs.

(** ------------------------------------------------------------------ elements -> tokens *)
Definition tok_wf (s : str) (t : token) : Prop :=
  t_src t = t_tpl t /\ t_text t = slice (fst (t_tpl t)) (snd (t_tpl t)) s /\
  fst (t_tpl t) <= snd (t_tpl t) /\ snd (t_tpl t) <= len s.

Lemma map_template_slices_ok s : forall els idx tl,
  drop idx s = texts els ++ tl -> idx <= len s ->
  exists tes, map_template_slices s idx els = Some tes /\
    map te_text tes = map e_text els /\ map te_kind tes = map e_kind els /\
    tiles idx (idx + len (texts els)) (map te_tpl tes) /\
    Forall (fun te => te_text te = slice (fst (te_tpl te)) (snd (te_tpl te)) s /\
                      len (te_text te) = snd (te_tpl te) - fst (te_tpl te)) tes.
Proof.
  induction els as [|e r IH]; intros idx tl Hd Hi.
  - exists []. split; [reflexivity|]. split; [reflexivity|]. split; [reflexivity|]. split; [|constructor].
    cbn [map tiles]. change (texts []) with (@nil N). rewrite len_nil. lia.
  - cbn [map_template_slices]. rewrite texts_cons, <- app_assoc in Hd.
    set (n := len (e_text e)).
    assert (Hlen : idx + n <= len s).
    { assert (len (drop idx s) = len s - idx) by apply len_drop.
      rewrite Hd, len_app in H. fold n in H. lia. }
    replace (idx + n <=? len s) with true by (symmetry; apply N.leb_le; exact Hlen).
    cbn [negb].
    assert (Hsl : slice idx (idx + n) s = e_text e).
    { unfold slice. rewrite Hd. replace (idx + n - idx) with n by lia. apply take_app_exact. }
    rewrite Hsl, str_eqb_refl. cbn [negb].
    destruct (IH (idx + n) tl) as (tes & -> & A & B & C & D).
    { rewrite <- drop_drop, Hd. apply drop_app_exact. }
    { exact Hlen. }
    eexists. split; [reflexivity|].
    cbn [map te_text te_kind te_tpl tiles]. rewrite A, B.
    repeat split; try reflexivity.
    + lia.
    + rewrite texts_cons, len_app. fold n. rewrite N.add_assoc. exact C.
    + constructor; [|exact D]. cbn [te_text te_tpl fst snd]. split; [symmetry; exact Hsl | fold n; lia].
Qed.

Lemma iter_segments_single s : forall tes i a b,
  (i = 0%nat \/ (i = 1%nat /\ a = len s)) ->
  tiles a b (map te_tpl tes) -> b <= len s ->
  Forall (fun te => te_text te = slice (fst (te_tpl te)) (snd (te_tpl te)) s /\
                    len (te_text te) = snd (te_tpl te) - fst (te_tpl te)) tes ->
  exists toks, iter_segments (string_slices s) i tes = Some toks /\
    concat (map t_text toks) = concat (map te_text tes) /\
    tiles a b (map t_tpl toks) /\ Forall (tok_wf s) toks /\
    (forall k, In k (map t_kind toks) -> In k (map te_kind tes)) /\
    (Forall (fun te => te_text te <> []) tes -> map t_kind toks = map te_kind tes).
Proof.
  induction tes as [|te r IH]; intros i a b Hi Ht Hb Hf.
  - exists []. cbn. repeat split; auto.
  - destruct (te_tpl te) as [x y] eqn:Etpl.
    cbn [map tiles] in Ht. rewrite Etpl in Ht. destruct Ht as (-> & Hay & Ht).
    pose proof (tiles_le _ _ _ Ht) as Hyb.
    inversion Hf as [|? ? [Hte1 Hte2] Hf']; subst. rewrite Etpl in Hte1, Hte2. cbn [fst snd] in Hte1, Hte2.
    cbn [iter_segments].
    destruct Hi as [-> | [-> Ha]].
    + (* tfs_idx = 0 *)
      cbn [skipn string_slices seg_inner tf_tpl tf_src fst snd].
      destruct (0 =? len s) eqn:Ez.
      * (* empty input: the only slice is a zero slice, nothing is pushed *)
        apply N.eqb_eq in Ez.
        assert (a = 0 /\ y = 0) as [-> ->] by lia.
        destruct (IH 0%nat 0 b) as (toks & -> & A & B & C & D & E); auto.
        assert (te_text te = []) as Hemp by (apply len_0; lia).
        exists toks. repeat split; auto.
        -- cbn [map concat]. rewrite Hemp. exact A.
        -- intros k Hk. right. apply D. exact Hk.
        -- intros Hne. inversion Hne; subst. congruence.
      * replace (0 <? 0) with false by reflexivity.
        rewrite Etpl. cbn [fst snd].
        replace (y <=? len s) with true by (symmetry; apply N.leb_le; lia).
        replace (0 - 0) with 0 by reflexivity. rewrite !N.add_0_r.
        destruct (IH (if y =? len s then 1%nat else 0%nat) y b) as (toks & -> & A & B & C & D & E); auto.
        { destruct (y =? len s) eqn:Ey; [right; split; [reflexivity | apply N.eqb_eq; exact Ey] | left; reflexivity]. }
        eexists. split; [reflexivity|].
        cbn [map concat t_text t_tpl t_kind tiles].
        repeat split; auto.
        -- rewrite A. reflexivity.
        -- constructor; [|exact C]. unfold tok_wf. cbn [t_src t_tpl t_text fst snd].
           repeat split; auto. lia.
        -- intros k [Hk|Hk]; [left; exact Hk | right; apply D; exact Hk].
        -- intros Hne. inversion Hne; subst. rewrite E by assumption. reflexivity.
    + (* tfs_idx = 1: every later element is empty and sits at the end *)
      cbn [skipn string_slices seg_inner].
      assert (y = len s) as -> by lia.
      destruct (IH 1%nat (len s) b) as (toks & -> & A & B & C & D & E); auto.
      assert (te_text te = []) as Hemp by (apply len_0; lia).
      exists toks. repeat split; auto.
      * cbn [map concat]. rewrite Hemp. exact A.
      * rewrite Ha. exact B.
      * intros k Hk. right. apply D. exact Hk.
      * intros Hne. inversion Hne; subst. congruence.
Qed.

Lemma last_map_some {A} (l : list A) d :
  last (map Some l) None = match l with [] => None | _ => Some (last l d) end.
Proof.
  induction l as [|x l IH]; [reflexivity|].
  destruct l as [|y l']; [reflexivity|].
  change (last (map Some (x :: y :: l')) None) with (last (map Some (y :: l')) None).
  rewrite IH. reflexivity.
Qed.

Lemma last_map {A B} (f : A -> B) (l : list A) d : l <> [] -> last (map f l) (f d) = f (last l d).
Proof.
  induction l as [|x l IH]; [congruence|]. intros _.
  destruct l as [|y l']; [reflexivity|].
  change (last (map f (x :: y :: l')) (f d)) with (last (map f (y :: l')) (f d)).
  change (last (x :: y :: l') d) with (last (y :: l') d).
  apply IH. discriminate.
Qed.

Lemma last_In {A} (l : list A) d : l <> [] -> In (last l d) l.
Proof.
  induction l as [|x l IH]; [congruence|]. intros _.
  destruct l as [|y l']; [left; reflexivity|].
  right. change (last (x :: y :: l') d) with (last (y :: l') d). apply IH. discriminate.
Qed.

Definition is_eof_at (k_eof n : N) (t : token) : Prop :=
  t_kind t = k_eof /\ t_text t = [] /\ t_src t = (n, n) /\ t_tpl t = (n, n).

(** everything [to_tokens] guarantees once the element texts concatenate to the input *)
Lemma to_tokens_ok k_eof s els :
  texts els = s ->
  exists toks, to_tokens k_eof s els = Some (toks ++ [eof_token k_eof toks]) /\
    concat (map t_text toks) = s /\
    tiles 0 (len s) (map t_tpl toks) /\ Forall (tok_wf s) toks /\
    is_eof_at k_eof (len s) (eof_token k_eof toks) /\
    (forall k, In k (map t_kind toks) -> In k (map e_kind els)) /\
    (Forall (fun e => e_text e <> []) els -> map t_kind toks = map e_kind els).
Proof.
  intros Hs. unfold to_tokens.
  destruct (map_template_slices_ok s els 0 []) as (tes & -> & A & B & C & D).
  { rewrite drop_0, app_nil_r. symmetry. exact Hs. }
  { lia. }
  rewrite Hs in C. replace (0 + len s) with (len s) in C by lia.
  destruct (iter_segments_single s tes 0%nat 0 (len s)) as (toks & -> & E & F & G & H & I); auto; [lia|].
  exists toks. split; [reflexivity|].
  repeat split; auto.
  - rewrite E, A. exact Hs.
  - unfold eof_token. rewrite (last_map_some toks {| t_kind := 0; t_text := []; t_src := (0,0); t_tpl := (0,0) |}).
    destruct toks; reflexivity.
  - unfold eof_token. rewrite (last_map_some toks {| t_kind := 0; t_text := []; t_src := (0,0); t_tpl := (0,0) |}).
    destruct toks; reflexivity.
  - (* source position of the marker *)
    unfold eof_token.
    set (d := {| t_kind := 0; t_text := []; t_src := (0,0); t_tpl := (0,0) |}).
    rewrite (last_map_some toks d).
    destruct toks as [|t0 toks'] eqn:Et.
    + cbn [t_src]. cbn [map tiles] in F. rewrite <- F. reflexivity.
    + rewrite <- Et in *. cbn [t_src].
      assert (Hne : toks <> []) by (rewrite Et; discriminate).
      assert (Hin : In (last toks d) toks) by (apply last_In; exact Hne).
      rewrite Forall_forall in G. destruct (G _ Hin) as (G1 & _).
      rewrite G1.
      pose proof (tiles_last _ _ _ F) as HL.
      change (0, 0) with (t_tpl d) in HL. rewrite last_map in HL by exact Hne.
      rewrite HL; [reflexivity|]. rewrite Et. discriminate.
  - unfold eof_token.
    set (d := {| t_kind := 0; t_text := []; t_src := (0,0); t_tpl := (0,0) |}).
    rewrite (last_map_some toks d).
    destruct toks as [|t0 toks'] eqn:Et.
    + cbn [t_tpl]. cbn [map tiles] in F. rewrite <- F. reflexivity.
    + rewrite <- Et in *. cbn [t_tpl].
      assert (Hne : toks <> []) by (rewrite Et; discriminate).
      pose proof (tiles_last _ _ _ F) as HL.
      change (0, 0) with (t_tpl d) in HL. rewrite last_map in HL by exact Hne.
      rewrite HL; [reflexivity|]. rewrite Et. discriminate.
  - intros k Hk. rewrite <- B. apply H. exact Hk.
  - intros Hne. rewrite <- B. apply I.
    rewrite Forall_forall in *. intros te Hte.
    assert (Hin : In (te_text te) (map te_text tes)) by (apply in_map; exact Hte).
    rewrite A in Hin. apply in_map_iff in Hin. destruct Hin as (e & He1 & He2).
    rewrite <- He1. apply Hne. exact He2.
Qed.

(** ------------------------------------------------------------------ kinds of the elements *)
Section Kinds.
  Variable o_match : N -> N -> str -> option N.
  Variable o_search : N -> N -> str -> option (N * N).
  Variable o_rx : N -> str -> option (N * N * N).
  Variable matchers : list matcher.
  Variable syntax_map : list N.
  Variable resort : matcher.
  Variable P : N -> Prop.
  Let Pk (e : elem) : Prop := P (e_kind e).
  Definition matcher_P (m : matcher) : Prop := Forall P (matcher_kinds m).

  Lemma matcher_P_pat m : matcher_P m -> P (p_kind (m_pat m)).
  Proof. unfold matcher_P, matcher_kinds. intros H. inversion H; assumption. Qed.
  Lemma matcher_P_sub m sp : matcher_P m -> m_sub m = Some sp -> P (p_kind sp).
  Proof.
    unfold matcher_P, matcher_kinds. intros H E. rewrite E in H.
    inversion H as [|? ? _ H']; subst. inversion H'; assumption.
  Qed.
  Lemma matcher_P_trim m tp : matcher_P m -> m_trim m = Some tp -> P (p_kind tp).
  Proof.
    unfold matcher_P, matcher_kinds. intros H E. rewrite E in H.
    inversion H as [|? ? _ H']; subst. apply Forall_app in H'. destruct H' as [_ H'].
    inversion H'; assumption.
  Qed.

  Lemma Forall_snoc {A} (Q : A -> Prop) l x : Forall Q l -> Q x -> Forall Q (l ++ [x]).
  Proof. intros. apply Forall_app. split; [assumption | constructor; [assumption | constructor]]. Qed.

  Lemma trim_loop_kinds fuel tp : forall off sb content acc r,
    P (p_kind tp) -> Forall Pk acc -> trim_loop o_search fuel tp off sb content acc = Some r ->
    Forall Pk (fst (fst r)).
  Proof.
    induction fuel as [|f IH]; intros off sb content acc r Hp Ha H; [discriminate|].
    cbn [trim_loop] in H.
    destruct sb as [|c sb0]; [injection H as <-; exact Ha|].
    remember (c :: sb0) as sb eqn:Esb.
    destruct (o_search (p_id tp) off sb) as [[st en]|]; [|injection H as <-; exact Ha].
    destruct (negb ((st <=? en) && (en <=? len sb))); [discriminate|].
    destruct (st =? 0).
    - eapply IH; [exact Hp | | exact H]. apply Forall_snoc; [exact Ha | exact Hp].
    - destruct (en =? len sb).
      + injection H as <-. cbn [fst]. apply Forall_app. split; [exact Ha|].
        constructor; [exact Hp | constructor; [exact Hp | constructor]].
      + eapply IH; [exact Hp | exact Ha | exact H].
  Qed.

  Lemma trim_match_kinds m off s els :
    matcher_P m -> trim_match o_search m off s = Some els -> Forall Pk els.
  Proof.
    unfold trim_match. intros Hm H.
    destruct (m_trim m) as [tp|] eqn:Et; [|injection H as <-; constructor].
    destruct (trim_loop o_search (S (length s)) tp off s [] []) as [[[acc content] sb]|] eqn:E; [|discriminate].
    apply trim_loop_kinds in E; [|eapply matcher_P_trim; eassumption | constructor].
    cbn [fst] in E.
    destruct (negb (is_empty content) || negb (is_empty sb)); injection H as <-; [|exact E].
    apply Forall_snoc; [exact E | apply matcher_P_pat; exact Hm].
  Qed.

  Lemma sub_loop_kinds fuel m sp : forall off sb acc els,
    matcher_P m -> P (p_kind sp) -> Forall Pk acc ->
    sub_loop o_search fuel m sp off sb acc = Some els -> Forall Pk els.
  Proof.
    induction fuel as [|f IH]; intros off sb acc els Hm Hp Ha H; [discriminate|].
    cbn [sub_loop] in H.
    destruct sb as [|c sb0]; [injection H as <-; exact Ha|].
    remember (c :: sb0) as sb eqn:Esb.
    destruct (o_search (p_id sp) off sb) as [[st en]|].
    - destruct (negb ((st <=? en) && (en <=? len sb))); [discriminate|].
      destruct (trim_match o_search m off (take st sb)) as [t|] eqn:Et; [|discriminate].
      apply trim_match_kinds in Et; [|exact Hm].
      eapply IH; [exact Hm | exact Hp | | exact H].
      apply Forall_app. split; [exact Ha|]. apply Forall_snoc; [exact Et | exact Hp].
    - destruct (trim_match o_search m off sb) as [t|] eqn:Et; [|discriminate].
      injection H as <-. apply trim_match_kinds in Et; [|exact Hm].
      apply Forall_app. split; assumption.
  Qed.

  Lemma matcher_matches_kinds m off s els n :
    matcher_P m -> matcher_matches o_match o_search m off s = Some (els, n) -> Forall Pk els.
  Proof.
    unfold matcher_matches, subdivide. intros Hm H.
    destruct (o_match (p_id (m_pat m)) off s) as [k|]; [|injection H as <- _; constructor].
    destruct (negb (k <=? len s)); [discriminate|].
    destruct (m_sub m) as [sp|] eqn:Es.
    - destruct (sub_loop o_search (S (length (take k s))) m sp off (take k s) []) as [e|] eqn:E; [|discriminate].
      injection H as <- _. eapply sub_loop_kinds; [exact Hm | eapply matcher_P_sub; eassumption | constructor | exact E].
    - injection H as <- _. constructor; [apply matcher_P_pat; exact Hm | constructor].
  Qed.

  Lemma try_matchers_kinds ms off s els n :
    Forall matcher_P ms -> try_matchers o_match o_search ms off s = Some (Some (els, n)) -> Forall Pk els.
  Proof.
    induction ms as [|m ms IH]; intros Hf H; [discriminate|].
    cbn [try_matchers] in H. inversion Hf as [|? ? Hm Hms]; subst.
    destruct (matcher_matches o_match o_search m off s) as [[e k]|] eqn:Em; [|discriminate].
    destruct e as [|e0 e']; [apply IH; assumption|].
    injection H as <- _. eapply matcher_matches_kinds; eassumption.
  Qed.

  Lemma lex_step_kinds off s els n :
    Forall matcher_P matchers -> Forall P syntax_map ->
    lex_step o_match o_search o_rx matchers syntax_map off s = Some (Some (els, n)) -> Forall Pk els.
  Proof.
    unfold lex_step. intros Hf Hs H.
    destruct (try_matchers o_match o_search matchers off s) as [[r|]|] eqn:Et; [| |discriminate].
    - injection H as ->. eapply try_matchers_kinds; eassumption.
    - destruct (o_rx off s) as [[[pid st] en]|]; [|discriminate].
      destruct (nth_error syntax_map (N.to_nat pid)) as [k|] eqn:Ek; [|discriminate].
      destruct (negb ((st <=? en) && (en <=? len s))); [discriminate|].
      injection H as <- _. constructor; [|constructor].
      unfold Pk. cbn [e_kind]. rewrite Forall_forall in Hs. apply Hs. eapply nth_error_In; eassumption.
  Qed.

  Lemma lex_match_kinds fuel : forall off s acc r,
    Forall matcher_P matchers -> Forall P syntax_map -> Forall Pk acc ->
    lex_match o_match o_search o_rx matchers syntax_map fuel off s acc = Some r -> Forall Pk (fst (fst r)).
  Proof.
    induction fuel as [|f IH]; intros off s acc r Hf Hs Ha H; [discriminate|].
    cbn [lex_match] in H.
    destruct s as [|c s0]; [injection H as <-; exact Ha|].
    remember (c :: s0) as s eqn:Es.
    destruct (lex_step o_match o_search o_rx matchers syntax_map off s) as [[[els n]|]|] eqn:El; [| |discriminate].
    - eapply IH; [exact Hf | exact Hs | | exact H].
      apply Forall_app. split; [exact Ha|]. eapply lex_step_kinds; eassumption.
    - injection H as <-. exact Ha.
  Qed.

  Lemma lex_main_kinds fuel : forall off s acc els,
    Forall matcher_P matchers -> Forall P syntax_map -> matcher_P resort -> Forall Pk acc ->
    lex_main o_match o_search o_rx matchers syntax_map resort fuel off s acc = Some els -> Forall Pk els.
  Proof.
    induction fuel as [|f IH]; intros off s acc els Hf Hs Hr Ha H; [discriminate|].
    cbn [lex_main] in H.
    destruct (lex_match o_match o_search o_rx matchers syntax_map (S (length s)) off s []) as [[[e off'] rest]|] eqn:Em; [|discriminate].
    apply lex_match_kinds in Em; [|assumption|assumption|constructor]. cbn [fst] in Em.
    destruct rest as [|c r0]; [injection H as <-; apply Forall_app; split; assumption|].
    remember (c :: r0) as rest eqn:Er.
    destruct (matcher_matches o_match o_search resort off' rest) as [[re n]|] eqn:Emm; [|discriminate].
    destruct re as [|re0 re']; [discriminate|].
    eapply IH; [exact Hf | exact Hs | exact Hr | | exact H].
    apply Forall_app. split; [apply Forall_app; split; assumption|].
    eapply matcher_matches_kinds; eassumption.
  Qed.
End Kinds.

(** ------------------------------------------------------------------ the theorems about [lex] *)
Definition lex_of om os orx (tb : tables) : str -> option (list token) :=
  lex om os orx (tb_matchers tb) (tb_syntax tb) (tb_resort tb) (tb_eof tb).
Definition lex_legacy_of om os orx (tb : tables) : str -> option (list token) :=
  lex_legacy om os orx (tb_matchers tb) (tb_syntax tb) (tb_resort tb) (tb_eof tb).

(** the contracts of the pattern engines (each one has a runtime monitor in harness/src/c01.rs) *)
Definition oracle_ok om os orx (tb : tables) : Prop :=
  H_match_bounds om /\ H_match_progress om (tb_matchers tb) /\ H_search os /\ H_rx orx (tb_syntax tb) /\
  H_resort om os orx (tb_matchers tb) (tb_syntax tb) (tb_resort tb) /\ H_trim_greedy os.

Lemma tables_ok_sound ku tb : tables_ok ku tb = true ->
  T_sub_trim (tb_matchers tb) (tb_resort tb) /\ T_resort_plain (tb_resort tb) /\
  p_kind (m_pat (tb_resort tb)) = ku /\ Forall (fun k => k <> tb_eof tb) (table_kinds tb).
Proof.
  unfold tables_ok. intros H.
  apply andb_true_iff in H. destruct H as [H H4].
  apply andb_true_iff in H. destruct H as [H H3].
  apply andb_true_iff in H. destruct H as [H1 H2].
  assert (Hst : forall m, sub_has_trim m = true -> sub_trim_ok m).
  { unfold sub_has_trim, sub_trim_ok. intros m Hm Hs.
    destruct (m_sub m); [|congruence]. destruct (m_trim m); [discriminate | discriminate]. }
  assert (Hplain : m_sub (tb_resort tb) = None).
  { destruct (m_sub (tb_resort tb)); [discriminate | reflexivity]. }
  repeat split.
  - rewrite forallb_forall in H1. apply Forall_forall. intros m Hm. apply Hst. apply H1. exact Hm.
  - unfold sub_trim_ok. rewrite Hplain. congruence.
  - exact Hplain.
  - apply N.eqb_eq. exact H3.
  - rewrite forallb_forall in H4. apply Forall_forall. intros k Hk. specialize (H4 k Hk).
    apply negb_true_iff in H4. apply N.eqb_neq. exact H4.
Qed.

Lemma table_kinds_P (Q : N -> Prop) tb : Forall Q (table_kinds tb) ->
  Forall (matcher_P Q) (tb_matchers tb) /\ Forall Q (tb_syntax tb) /\ matcher_P Q (tb_resort tb).
Proof.
  unfold table_kinds. intros H. apply Forall_app in H. destruct H as [H1 H]. apply Forall_app in H. destruct H as [H2 H3].
  repeat split; try assumption.
  apply Forall_forall. intros m Hm. unfold matcher_P. apply Forall_forall. intros k Hk.
  rewrite Forall_forall in H1. apply H1. apply in_flat_map. exists m. split; assumption.
Qed.

Section LexTheorems.
  Variable om : N -> N -> str -> option N.
  Variable os : N -> N -> str -> option (N * N).
  Variable orx : N -> str -> option (N * N * N).
  Variable tb : tables.
  Variable ku : N.
  Hypothesis Hor : oracle_ok om os orx tb.
  Hypothesis Htb : tables_ok ku tb = true.

  Lemma rx_anchored : H_rx_anchored orx.
  Proof.
    destruct Hor as (_ & _ & _ & Hrx & _). intros off s pid st en H.
    destruct (Hrx _ _ _ _ _ H) as (A & _). exact A.
  Qed.

  Theorem lex_total : forall s, exists ts, lex_of om os orx tb s = Some ts.
  Proof.
    intros s. unfold lex_of, lex.
    destruct Hor as (H1 & H2 & H3 & H4 & H5 & H6).
    destruct (tables_ok_sound _ _ Htb) as ([T1 T1'] & T2 & _ & _).
    destruct (lex_elements_total om os orx (tb_matchers tb) (tb_syntax tb) (tb_resort tb) H1 H2 H3 H4 H5 T2 s T1) as [els E].
    rewrite E.
    pose proof (lex_elements_lossless om os orx _ _ _ H6 rx_anchored s els (conj T1 T1') E) as Hl.
    destruct (to_tokens_ok (tb_eof tb) s els Hl) as (toks & -> & _). eexists; reflexivity.
  Qed.

  (** everything at once; the pinned theorems are its projections *)
  Lemma lex_props s ts : lex_of om os orx tb s = Some ts ->
    exists toks eof, ts = toks ++ [eof] /\
      concat (map t_text toks) = s /\ t_text eof = [] /\
      tiles 0 (len s) (map t_tpl toks) /\ Forall (tok_wf s) toks /\
      is_eof_at (tb_eof tb) (len s) eof /\
      Forall (fun t => t_kind t <> tb_eof tb) toks.
  Proof.
    unfold lex_of, lex. intros H.
    destruct Hor as (H1 & H2 & H3 & H4 & H5 & H6).
    destruct (tables_ok_sound _ _ Htb) as ([T1 T1'] & T2 & _ & T4).
    destruct (lex_elements om os orx (tb_matchers tb) (tb_syntax tb) (tb_resort tb) s) as [els|] eqn:E; [|discriminate].
    pose proof (lex_elements_lossless om os orx _ _ _ H6 rx_anchored s els (conj T1 T1') E) as Hl.
    destruct (to_tokens_ok (tb_eof tb) s els Hl) as (toks & Ht & A & B & C & D & F & _).
    rewrite Ht in H. injection H as <-.
    exists toks, (eof_token (tb_eof tb) toks).
    destruct D as (D1 & D2 & D3 & D4).
    repeat split; try assumption.
    destruct (table_kinds_P _ _ T4) as (K1 & K2 & K3).
    unfold lex_elements in E.
    apply (lex_main_kinds om os orx _ _ _ (fun k => k <> tb_eof tb)) in E; try assumption; [|constructor].
    apply Forall_forall. intros t Hin.
    assert (Hk : In (t_kind t) (map e_kind els)) by (apply F; apply in_map; exact Hin).
    apply in_map_iff in Hk. destruct Hk as (e & He & Hin').
    rewrite Forall_forall in E. rewrite <- He. apply (E e Hin').
  Qed.

  Theorem lex_lossless s ts : lex_of om os orx tb s = Some ts -> concat (map t_text ts) = s.
  Proof.
    intros H. destruct (lex_props _ _ H) as (toks & eof & -> & A & B & _).
    rewrite map_app, concat_app. cbn [map concat]. rewrite B, !app_nil_r. exact A.
  Qed.

  Theorem lex_tiling s ts : lex_of om os orx tb s = Some ts ->
    exists toks eof, ts = toks ++ [eof] /\ tiles 0 (len s) (map t_tpl toks) /\ Forall (tok_wf s) toks.
  Proof.
    intros H. destruct (lex_props _ _ H) as (toks & eof & -> & _ & _ & C & D & _).
    exists toks, eof. auto.
  Qed.

  Theorem lex_one_eof s ts : lex_of om os orx tb s = Some ts ->
    exists toks eof, ts = toks ++ [eof] /\ is_eof_at (tb_eof tb) (len s) eof /\
                     Forall (fun t => t_kind t <> tb_eof tb) toks.
  Proof.
    intros H. destruct (lex_props _ _ H) as (toks & eof & -> & _ & _ & _ & _ & E & F).
    exists toks, eof. auto.
  Qed.
End LexTheorems.

(** ------------------------------------------------------------------ non-vacuity and the legacy loop *)
(** A small concrete lexer: the combined regex knows tab, newline, dot and the letter a (one
    byte each, kinds 1..4); no native matcher; the last resort is [^\t\n.]* (kind 7). *)
Definition ex_special (b : N) : bool := (b =? 9) || (b =? 10) || (b =? 46).
Fixpoint ex_run (s : str) : N :=
  match s with [] => 0 | b :: r => if ex_special b then 0 else 1 + ex_run r end.
Definition ex_match (p off : N) (s : str) : option N := if p =? 9 then Some (ex_run s) else None.
Definition ex_search (p off : N) (s : str) : option (N * N) := None.
Definition ex_rx (off : N) (s : str) : option (N * N * N) :=
  match s with
  | [] => None
  | b :: _ => if b =? 9 then Some (0, 0, 1) else if b =? 10 then Some (1, 0, 1)
              else if b =? 46 then Some (2, 0, 1) else if b =? 97 then Some (3, 0, 1) else None
  end.
Definition ex_tables : tables :=
  {| tb_matchers := []; tb_syntax := [1; 2; 3; 4];
     tb_resort := {| m_pat := {| p_id := 9; p_kind := 7 |}; m_sub := None; m_trim := None |}; tb_eof := 0 |}.

Lemma ex_run_le s : ex_run s <= len s.
Proof.
  induction s as [|b r IH]; [reflexivity|]. cbn [ex_run].
  change (len (b :: r)) with (N.of_nat (S (length r))). unfold len in IH.
  destruct (ex_special b); lia.
Qed.

Lemma ex_step_stuck off s :
  lex_step ex_match ex_search ex_rx [] [1; 2; 3; 4] off s = Some None -> ex_rx off s = None.
Proof.
  unfold lex_step. cbn [try_matchers].
  destruct (ex_rx off s) as [[[pid st] en]|]; [|reflexivity].
  destruct (nth_error [1; 2; 3; 4] (N.to_nat pid)); [|discriminate].
  destruct (negb ((st <=? en) && (en <=? len s))); discriminate.
Qed.

Lemma ex_oracle_ok : oracle_ok ex_match ex_search ex_rx ex_tables.
Proof.
  unfold oracle_ok. split; [|split; [|split; [|split; [|split]]]].
  - intros p off s n H. unfold ex_match in H. destruct (p =? 9); [|discriminate].
    injection H as <-. apply ex_run_le.
  - intros m off s n [].
  - intros p off s st en H. discriminate.
  - intros off s pid st en H. unfold ex_rx in H. destruct s as [|b r]; [discriminate|].
    change (len (b :: r)) with (N.of_nat (S (length r))). cbn [ex_tables tb_syntax length].
    destruct (b =? 9); [injection H as <- <- <-; repeat split; cbn; lia|].
    destruct (b =? 10); [injection H as <- <- <-; repeat split; cbn; lia|].
    destruct (b =? 46); [injection H as <- <- <-; repeat split; cbn; lia|].
    destruct (b =? 97); [injection H as <- <- <-; repeat split; cbn; lia|discriminate].
  - intros off s Hne H. destruct s as [|b r]; [congruence|].
    cbn [ex_tables tb_matchers tb_syntax] in H. apply ex_step_stuck in H.
    unfold ex_rx in H. cbn [ex_tables tb_resort m_pat p_id]. unfold ex_match.
    change (9 =? 9) with true. cbn iota.
    exists (ex_run (b :: r)). split; [reflexivity|]. cbn [ex_run]. unfold ex_special.
    destruct (b =? 9); [discriminate|].
    destruct (b =? 10); [discriminate|].
    destruct (b =? 46); [discriminate|]. cbn [orb]. lia.
  - intros p off sb st en H. discriminate.
Qed.

Lemma ex_tables_ok : tables_ok 7 ex_tables = true.
Proof. reflexivity. Qed.

(** "a@a.\n" : the unlexable @ is kept and lexing goes on after it *)
Example ex_lex :
  option_map (map (fun t => (t_kind t, t_text t, t_tpl t))) (lex_of ex_match ex_search ex_rx ex_tables [97; 64; 64; 97; 46; 10])
  = Some [(4, [97], (0, 1)); (7, [64; 64; 97], (1, 4)); (3, [46], (4, 5)); (2, [10], (5, 6)); (0, [], (6, 6))].
Proof. vm_compute. reflexivity. Qed.

(** The loop as it was before the repair loses everything after the first unlexable byte,
    for an oracle and tables that satisfy every contract. *)
Lemma lex_legacy_refuted :
  exists om os orx tb ku s ts,
    oracle_ok om os orx tb /\ tables_ok ku tb = true /\
    lex_legacy_of om os orx tb s = Some ts /\ concat (map t_text ts) <> s.
Proof.
  exists ex_match, ex_search, ex_rx, ex_tables, 7, [97; 64; 97].
  eexists. split; [exact ex_oracle_ok|]. split; [exact ex_tables_ok|].
  split; [vm_compute; reflexivity|]. vm_compute. discriminate.
Qed.

(** a matcher with a subdivider and a trim pattern (the block comment of every dialect):
    "/*a \n b*/" with newline as divider and runs of spaces as trim pattern *)
Definition ex2_search (p off : N) (s : str) : option (N * N) :=
  let fix find (c : N) (i : N) (s : str) : option N :=
    match s with [] => None | b :: r => if b =? c then Some i else find c (i + 1) r end in
  let fix run (c : N) (s : str) : N :=
    match s with [] => 0 | b :: r => if b =? c then 1 + run c r else 0 end in
  if p =? 1 then match find 10 0 s with Some i => Some (i, i + 1) | None => None end
  else match find 32 0 s with Some i => Some (i, i + run 32 (drop i s)) | None => None end.
Definition ex2_tables : tables :=
  {| tb_matchers := [{| m_pat := {| p_id := 0; p_kind := 5 |}; m_sub := Some {| p_id := 1; p_kind := 2 |};
                        m_trim := Some {| p_id := 2; p_kind := 6 |} |}];
     tb_syntax := []; tb_resort := {| m_pat := {| p_id := 9; p_kind := 7 |}; m_sub := None; m_trim := None |}; tb_eof := 0 |}.
Example ex2_lex :
  option_map (map (fun t => (t_kind t, t_text t)))
    (lex_of (fun p _ s => if p =? 0 then Some (len s) else None) ex2_search (fun _ _ => None) ex2_tables
            [47; 42; 97; 32; 10; 32; 32; 98; 42; 47])
  = Some [(6, [47; 42; 97]); (6, [32]); (2, [10]); (6, [32; 32]); (5, [98; 42; 47]); (0, [])].
Proof. vm_compute. reflexivity. Qed.
