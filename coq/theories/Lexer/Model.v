(** Executable model of [Lexer::lex] for string input
    (crates/lib-core/src/parser/lexer.rs): [Matcher::{matches, subdivide, trim_match}],
    [Lexer::lex_match], the main loop of [Lexer::lex] with the last-resort matcher
    (repaired loop [lex_main]; the loop as it was before the repair is [lex_main_legacy]),
    [map_template_slices], [iter_segments] restricted to literal slices (what
    [StringOrTemplate::String] exercises: one literal slice [0..len]/[0..len]), and the
    end-of-file marker of [elements_to_segments].

    The regex engines / native cursor functions are oracles:
      [o_match p off s]  = [Pattern::matches] of pattern [p] on [s]  (length of the matched prefix)
      [o_search p off s] = [Pattern::search]  of pattern [p] on [s]  (start, end)
      [o_rx off s]       = anchored find of the combined multi-regex  (pattern index, start, end)
    [off] is the absolute byte offset of [s] in the lexed text. The real engines ignore it
    (they only see the [&str]); it is there so that answers recorded by the harness can be
    supplied as a table keyed by (pattern, offset, length). Every theorem quantifies over
    all oracle functions, so it covers in particular those that ignore [off].

    Conventions: slicing out of bounds, indexing out of bounds and explicit [panic!]s are
    [None]; so is running out of fuel (a loop that does not terminate).
    Definitions only; proofs are in Proofs.v. *)
From Sq Require Export Base.Bytes.

Definition len (s : str) : N := N.of_nat (length s).
Definition take (n : N) (s : str) : str := firstn (N.to_nat n) s.
Definition drop (n : N) (s : str) : str := skipn (N.to_nat n) s.
(** [&s[a..b]] when [a <= b <= len s] (callers check the bounds first) *)
Definition slice (a b : N) (s : str) : str := take (b - a) (drop a s).

(** [Pattern]: identity (for the oracles) and the syntax kind it assigns. *)
Record pat := { p_id : N; p_kind : N }.
(** [Matcher]: pattern, optional subdivider, optional trim_post_subdivide. *)
Record matcher := { m_pat : pat; m_sub : option pat; m_trim : option pat }.
(** [Element] (the name is not observable in the result for string input) *)
Record elem := { e_kind : N; e_text : str }.
Definition mk (p : pat) (t : str) : elem := {| e_kind := p_kind p; e_text := t |}.
Definition texts (els : list elem) : str := concat (map e_text els).

Section Lexer.
  Variable o_match : N -> N -> str -> option N.
  Variable o_search : N -> N -> str -> option (N * N).
  Variable o_rx : N -> str -> option (N * N * N).
  (** [Lexer.matchers] (native and legacy matchers, in order), [Lexer.syntax_map] (kinds of
      the patterns of the combined regex, by pattern index), [Lexer.last_resort_lexer]. *)
  Variable matchers : list matcher.
  Variable syntax_map : list N.
  Variable resort : matcher.

  (** [Matcher::trim_match], the [while !str_buff.is_empty()] loop. State: [sb] = str_buff
      (at absolute offset [off]), [content] = content_buff, [acc] = elem_buff. *)
  Fixpoint trim_loop (fuel : nat) (tp : pat) (off : N) (sb content : str) (acc : list elem)
    : option (list elem * str * str) :=
    match fuel with
    | O => None
    | S f =>
        match sb with
        | [] => Some (acc, content, sb)
        | _ =>
            match o_search (p_id tp) off sb with
            | None => Some (acc, content, sb)                       (* break *)
            | Some (st, en) =>
                if negb ((st <=? en) && (en <=? len sb)) then None  (* slice out of range *)
                else if st =? 0 then
                  trim_loop f tp (off + en) (drop en sb) content (acc ++ [mk tp (take en sb)])
                else if en =? len sb then
                  (* NB the buffered content gets the trim pattern's name and kind here, as in the code *)
                  Some (acc ++ [mk tp (content ++ take st sb); mk tp (slice st en sb)], [], [])
                else
                  trim_loop f tp (off + en) (drop en sb) (content ++ take en sb) acc
            end
        end
    end.

  Definition trim_match (m : matcher) (off : N) (s : str) : option (list elem) :=
    match m_trim m with
    | None => Some []                                               (* `return Vec::new()` *)
    | Some tp =>
        match trim_loop (S (length s)) tp off s [] [] with
        | None => None
        | Some (acc, content, sb) =>
            if negb (is_empty content) || negb (is_empty sb)
            then Some (acc ++ [mk (m_pat m) (content ++ sb)])
            else Some acc
        end
    end.

  (** [Matcher::subdivide], the loop of the [Some(subdivider)] arm. *)
  Fixpoint sub_loop (fuel : nat) (m : matcher) (sp : pat) (off : N) (sb : str) (acc : list elem)
    : option (list elem) :=
    match fuel with
    | O => None
    | S f =>
        match sb with
        | [] => Some acc
        | _ =>
            match o_search (p_id sp) off sb with
            | None =>
                match trim_match m off sb with
                | None => None
                | Some t => Some (acc ++ t)
                end
            | Some (st, en) =>
                if negb ((st <=? en) && (en <=? len sb)) then None
                else
                  match trim_match m off (take st sb) with
                  | None => None
                  | Some t => sub_loop f m sp (off + en) (drop en sb) (acc ++ t ++ [mk sp (slice st en sb)])
                  end
            end
        end
    end.

  Definition subdivide (m : matcher) (off : N) (matched : str) : option (list elem) :=
    match m_sub m with
    | None => Some [mk (m_pat m) matched]
    | Some sp => sub_loop (S (length matched)) m sp off matched []
    end.

  (** [Matcher::matches]: elements and the number of bytes consumed
      ([forward_string = &forward_string[matched.len()..]]). *)
  Definition matcher_matches (m : matcher) (off : N) (s : str) : option (list elem * N) :=
    match o_match (p_id (m_pat m)) off s with
    | None => Some ([], 0)
    | Some n =>
        if negb (n <=? len s) then None
        else match subdivide m off (take n s) with
             | None => None
             | Some els => Some (els, n)
             end
    end.

  (** the [for matcher in &self.matchers] loop of [lex_match]: first matcher whose
      elements are not empty *)
  Fixpoint try_matchers (ms : list matcher) (off : N) (s : str) : option (option (list elem * N)) :=
    match ms with
    | [] => Some None
    | m :: ms' =>
        match matcher_matches m off s with
        | None => None
        | Some ([], _) => try_matchers ms' off s
        | Some (els, n) => Some (Some (els, n))
        end
    end.

  (** one iteration of ['main] in [lex_match] on a non-empty string: [Some None] = nothing
      matches here (the loop returns), [Some (Some (els, n))] = elements and bytes consumed *)
  Definition lex_step (off : N) (s : str) : option (option (list elem * N)) :=
    match try_matchers matchers off s with
    | None => None
    | Some (Some r) => Some (Some r)
    | Some None =>
        match o_rx off s with
        | None => Some None
        | Some (pid, st, en) =>
            match nth_error syntax_map (N.to_nat pid) with
            | None => None                                          (* syntax_map[..] out of range *)
            | Some k =>
                if negb ((st <=? en) && (en <=? len s)) then None
                else Some (Some ([{| e_kind := k; e_text := slice st en s |}], en))
            end
        end
    end.

  (** [Lexer::lex_match]: elements, offset reached, unmatched remainder *)
  Fixpoint lex_match (fuel : nat) (off : N) (s : str) (acc : list elem) : option (list elem * N * str) :=
    match fuel with
    | O => None
    | S f =>
        match s with
        | [] => Some (acc, off, s)
        | _ =>
            match lex_step off s with
            | None => None
            | Some None => Some (acc, off, s)
            | Some (Some (els, n)) => lex_match f (off + n) (drop n s) (acc ++ els)
            end
        end
    end.

  (** The main loop of [Lexer::lex] after the repair (fix: f37a434): the last-resort matcher is
      applied to the unmatched remainder, its elements are kept and the loop goes on; an error
      is returned when it yields no element. *)
  Fixpoint lex_main (fuel : nat) (off : N) (s : str) (acc : list elem) : option (list elem) :=
    match fuel with
    | O => None
    | S f =>
        match lex_match (S (length s)) off s [] with
        | None => None
        | Some (els, off', rest) =>
            let acc := acc ++ els in
            match rest with
            | [] => Some acc
            | _ =>
                match matcher_matches resort off' rest with
                | None => None
                | Some ([], _) => None                              (* `return Err(..)` *)
                | Some (r_els, n) => lex_main f (off' + n) (drop n rest) (acc ++ r_els)
                end
            end
        end
    end.

  (** The loop as it was: the last-resort matcher is applied to [str_buff] (the start of the
      buffer, not the remainder) and the loop is left when it DOES yield elements. *)
  Fixpoint lex_main_legacy (fuel : nat) (off : N) (s : str) (acc : list elem) : option (list elem) :=
    match fuel with
    | O => None
    | S f =>
        match lex_match (S (length s)) off s [] with
        | None => None
        | Some (els, _, rest) =>
            let acc := acc ++ els in
            match rest with
            | [] => Some acc
            | _ =>
                match matcher_matches resort off s with
                | None => None
                | Some ([], n) => lex_main_legacy f (off + n) (drop n s) acc
                | Some (_ :: _, _) => Some acc                      (* `break` *)
                end
            end
        end
    end.

  Definition lex_elements (s : str) : option (list elem) := lex_main (S (length s)) 0 s [].
  Definition lex_elements_legacy (s : str) : option (list elem) := lex_main_legacy (S (length s)) 0 s [].
End Lexer.

(** ------------------------------------------------------------------ elements -> segments *)

(** [TemplateElement]: element + template_slice *)
Record telem := { te_kind : N; te_text : str; te_tpl : N * N }.
(** a token as observable on the result: kind, raw, source_slice and templated_slice of its position marker *)
Record token := { t_kind : N; t_text : str; t_src : N * N; t_tpl : N * N }.
(** [TemplatedFileSlice] of type "literal" *)
Record tfs := { tf_src : N * N; tf_tpl : N * N }.

(** [Lexer::map_template_slices] against the templated string [s] (running offset, consistency panic) *)
Fixpoint map_template_slices (s : str) (idx : N) (els : list elem) : option (list telem) :=
  match els with
  | [] => Some []
  | e :: r =>
      let n := len (e_text e) in
      if negb (idx + n <=? len s) then None                          (* slice out of range *)
      else if negb (str_eqb (slice idx (idx + n) s) (e_text e)) then None   (* "Template and lexed elements do not match" *)
      else match map_template_slices s (idx + n) r with
           | None => None
           | Some tes => Some ({| te_kind := e_kind e; te_text := e_text e; te_tpl := (idx, idx + n) |} :: tes)
           end
  end.

(** inner [for (idx, tfs) in templated_file_slices.iter().skip(tfs_idx)] loop of [iter_segments]
    for literal slices. [Some None]: the loop ran out of slices (nothing is pushed for this
    element, no panic). [Some (Some (tok, adv))]: segment pushed, [adv] = [tfs_idx += 1].
    [None]: panic, or a branch outside the modelled fragment (an element spanning several
    slices: whitespace splitting / stashing -- never reached with one literal slice, see
    [Proofs.iter_segments_single]). *)
Fixpoint seg_inner (rem : list tfs) (te : telem) : option (option (token * bool)) :=
  match rem with
  | [] => Some None
  | t :: rem' =>
      if fst (tf_tpl t) =? snd (tf_tpl t) then seg_inner rem' te           (* is_zero_slice: continue *)
      else if fst (tf_src t) <? fst (tf_tpl t) then None                    (* tfs_offset underflows *)
      else
        let tfs_offset := fst (tf_src t) - fst (tf_tpl t) in
        if snd (te_tpl te) <=? snd (tf_tpl t) then
          Some (Some ({| t_kind := te_kind te; t_text := te_text te;
                         t_src := (fst (te_tpl te) + tfs_offset, snd (te_tpl te) + tfs_offset);
                         t_tpl := te_tpl te |},
                      snd (te_tpl te) =? snd (tf_tpl t)))
        else if fst (te_tpl te) =? snd (tf_tpl t) then seg_inner rem' te    (* "Missed Skip": continue *)
        else None                                                           (* spanning element: not modelled *)
  end.

Fixpoint iter_segments (slices : list tfs) (tfs_idx : nat) (tes : list telem) : option (list token) :=
  match tes with
  | [] => Some []
  | te :: r =>
      match seg_inner (skipn tfs_idx slices) te with
      | None => None
      | Some None => iter_segments slices tfs_idx r
      | Some (Some (tok, adv)) =>
          match iter_segments slices (if adv then S tfs_idx else tfs_idx) r with
          | None => None
          | Some toks => Some (tok :: toks)
          end
      end
  end.

(** [elements_to_segments]: the end-of-file marker sits at the end point of the last segment, or at (0,0) *)
Definition eof_token (k_eof : N) (toks : list token) : token :=
  match last (map Some toks) None with
  | Some t => {| t_kind := k_eof; t_text := []; t_src := (snd (t_src t), snd (t_src t)); t_tpl := (snd (t_tpl t), snd (t_tpl t)) |}
  | None => {| t_kind := k_eof; t_text := []; t_src := (0, 0); t_tpl := (0, 0) |}
  end.

(** [TemplatedFile::from(&str)]: one literal slice over the whole string *)
Definition string_slices (s : str) : list tfs := [{| tf_src := (0, len s); tf_tpl := (0, len s) |}].

Definition to_tokens (k_eof : N) (s : str) (els : list elem) : option (list token) :=
  match map_template_slices s 0 els with
  | None => None
  | Some tes =>
      match iter_segments (string_slices s) 0 tes with
      | None => None
      | Some toks => Some (toks ++ [eof_token k_eof toks])
      end
  end.

Section Lex.
  Variable o_match : N -> N -> str -> option N.
  Variable o_search : N -> N -> str -> option (N * N).
  Variable o_rx : N -> str -> option (N * N * N).
  Variable matchers : list matcher.
  Variable syntax_map : list N.
  Variable resort : matcher.
  Variable k_eof : N.

  (** [Lexer::lex(tables, StringOrTemplate::String(s))] *)
  Definition lex (s : str) : option (list token) :=
    match lex_elements o_match o_search o_rx matchers syntax_map resort s with
    | None => None
    | Some els => to_tokens k_eof s els
    end.

  Definition lex_legacy (s : str) : option (list token) :=
    match lex_elements_legacy o_match o_search o_rx matchers syntax_map resort s with
    | None => None
    | Some els => to_tokens k_eof s els
    end.
End Lex.
