(** The matcher tables of one dialect's [Lexer] as dumped by the translator
    (`sqv c01 --tables` -> coq/gen/LexTables.v) and the boolean table-level obligations
    re-checked on them with [vm_compute]. Definitions only. *)
From Sq Require Export Lexer.Model.

Record tables := {
  tb_matchers : list matcher;   (* Lexer.matchers: native and legacy matchers, in order *)
  tb_syntax : list N;           (* Lexer.syntax_map: kinds of the combined regex's patterns *)
  tb_resort : matcher;          (* Lexer.last_resort_lexer *)
  tb_eof : N                    (* SyntaxKind::EndOfFile *)
}.

Definition is_some {A} (o : option A) : bool := match o with Some _ => true | None => false end.

(** kinds a matcher can give to an element *)
Definition matcher_kinds (m : matcher) : list N :=
  p_kind (m_pat m)
  :: (match m_sub m with Some p => [p_kind p] | None => [] end)
  ++ (match m_trim m with Some p => [p_kind p] | None => [] end).

Definition table_kinds (t : tables) : list N :=
  flat_map matcher_kinds (tb_matchers t) ++ tb_syntax t ++ matcher_kinds (tb_resort t).

(** a subdivider without trim_post_subdivide would drop the text between dividers
    ([trim_match] returns no element then) *)
Definition sub_has_trim (m : matcher) : bool := implb (is_some (m_sub m)) (is_some (m_trim m)).

Definition tables_ok (k_unlexable : N) (t : tables) : bool :=
  forallb sub_has_trim (tb_matchers t)
  && negb (is_some (m_sub (tb_resort t)))
  && (p_kind (m_pat (tb_resort t)) =? k_unlexable)
  && forallb (fun k => negb (k =? tb_eof t)) (table_kinds t).
