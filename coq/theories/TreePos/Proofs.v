(** Proofs about the position kernels (C12). *)
From Sq Require Import Base.Bytes TreePos.Model.

Arguments N.add : simpl never.
Arguments N.sub : simpl never.
Arguments N.eqb : simpl never.
Arguments N.ltb : simpl never.
Arguments N.leb : simpl never.
Arguments N.of_nat : simpl never.
Arguments N.min : simpl never.
Arguments N.max : simpl never.

(** ** infer_next_position = line/column of the concatenation *)
Lemma split_aux_spec :
  forall s cur l c0,
    let ps := split_byte_aux NL s cur in
    (1 <= length ps)%nat /\
    (length ps = 1%nat -> ps = [rev cur ++ s]) /\
    fold_left advance s (l, c0 + N.of_nat (length cur)) =
      (l + (N.of_nat (length ps) - 1),
       if N.of_nat (length ps) =? 1 then c0 + N.of_nat (length cur) + N.of_nat (length s)
       else N.of_nat (length (last ps [])) + 1).
Proof.
  induction s as [|b s IH]; intros cur l c0; cbn [split_byte_aux].
  - cbn. repeat split; auto.
    + now rewrite app_nil_r.
    + change (N.of_nat 1) with 1. change (N.of_nat 0) with 0. rewrite N.eqb_refl. f_equal; lia.
  - destruct (N.eqb_spec b NL) as [->|Hb].
    + specialize (IH [] (l + 1) 1). cbv zeta in IH. destruct IH as (Hlen & Hone & Hfold).
      set (ps' := split_byte_aux NL s []) in *.
      cbn [length fold_left]. unfold advance at 2. cbn [fst snd]. rewrite N.eqb_refl.
      repeat split; try lia.
      cbn [length N.of_nat] in Hfold. replace (1 + N.of_nat 0) with 1 in Hfold by lia.
      rewrite Hfold.
      destruct (N.eqb_spec (N.of_nat (S (length ps'))) 1); [lia|].
      clearbody ps'. destruct ps' as [|q ps'']; [cbn in Hlen; lia|].
      change (last (rev cur :: q :: ps'') []) with (last (q :: ps'') []).
      set (ps' := q :: ps'') in *.
      destruct (N.eqb_spec (N.of_nat (length ps')) 1) as [H1|H1].
      * assert (length ps' = 1%nat) by lia. rewrite (Hone H). cbn [last rev app length].
        f_equal; lia.
      * f_equal; lia.
    + specialize (IH (b :: cur) l c0). cbv zeta in IH. destruct IH as (Hlen & Hone & Hfold).
      cbn [fold_left]. unfold advance at 2. cbn [fst snd].
      destruct (N.eqb_spec b NL); [contradiction|].
      cbn [length] in Hfold.
      replace (c0 + N.of_nat (length cur) + 1) with (c0 + N.of_nat (S (length cur))) by lia.
      rewrite Hfold. repeat split; auto.
      * intros H1. rewrite (Hone H1). cbn [rev]. now rewrite <- app_assoc.
      * f_equal. destruct (N.of_nat (length (split_byte_aux NL s (b :: cur))) =? 1); [|reflexivity].
        cbn [length]. lia.
Qed.

Theorem infer_next_spec raw l c : infer_next raw l c = linecol_from (l, c) raw.
Proof.
  unfold infer_next, linecol_from. destruct raw as [|b raw]; [reflexivity|]. cbn [is_empty].
  pose proof (split_aux_spec (b :: raw) [] l c) as H. cbv zeta in H. destruct H as (_ & _ & H).
  cbn [length N.of_nat] in H. replace (c + N.of_nat 0) with c in H by lia.
  unfold split_byte. rewrite H. reflexivity.
Qed.

Theorem infer_next_app a b l c :
  infer_next (a ++ b) l c = infer_next b (fst (infer_next a l c)) (snd (infer_next a l c)).
Proof.
  rewrite !infer_next_spec. unfold linecol_from. rewrite fold_left_app.
  now destruct (fold_left advance a (l, c)).
Qed.

Lemma linecol_from_app lc a b : linecol_from lc (a ++ b) = linecol_from (linecol_from lc a) b.
Proof. unfold linecol_from. apply fold_left_app. Qed.

(** ** get_line_pos_of_char_pos = line/column of the prefix *)
Lemma nl_offsets_from_app off a b :
  nl_offsets_from off (a ++ b) = nl_offsets_from off a ++ nl_offsets_from (off + N.of_nat (length a)) b.
Proof.
  revert off; induction a as [|x a IH]; intros off; cbn [app nl_offsets_from length].
  - f_equal. lia.
  - rewrite IH. replace (off + 1 + N.of_nat (length a)) with (off + N.of_nat (S (length a))) by lia.
    now destruct (x =? NL).
Qed.

Lemma nl_offsets_from_range off t x :
  In x (nl_offsets_from off t) -> off <= x /\ x < off + N.of_nat (length t).
Proof.
  revert off; induction t as [|b t IH]; intros off; cbn [nl_offsets_from length]; [intros []|].
  destruct (b =? NL).
  - intros [<-|H]; [lia|]. apply IH in H. lia.
  - intros H. apply IH in H. lia.
Qed.

Lemma filter_lt_app p xs ys :
  (forall x, In x xs -> x < p) -> (forall y, In y ys -> p <= y) ->
  filter (fun x => x <? p) (xs ++ ys) = xs.
Proof.
  intros Hx Hy. rewrite filter_app.
  replace (filter (fun x => x <? p) ys) with (@nil N).
  - rewrite app_nil_r. induction xs as [|x xs IH]; [reflexivity|]. cbn [filter].
    destruct (N.ltb_spec x p); [|specialize (Hx x (or_introl eq_refl)); lia].
    f_equal. apply IH. intros y Hy'. apply Hx. now right.
  - induction ys as [|y ys IH]; [reflexivity|]. cbn [filter].
    destruct (N.ltb_spec y p); [specialize (Hy y (or_introl eq_refl)); lia|].
    apply IH. intros z Hz. apply Hy. now right.
Qed.

(** the answer depends only on the newlines before [p] *)
Definition lp_pre (pre : str) : N * N :=
  match length (nl_offsets pre) with
  | O => (1, N.of_nat (length pre) + 1)
  | S k' => (N.of_nat (S k') + 1, N.of_nat (length pre) - nth k' (nl_offsets pre) 0)
  end.

Lemma line_pos_of_prefix pre suf :
  line_pos_of (nl_offsets (pre ++ suf)) (N.of_nat (length pre)) = lp_pre pre.
Proof.
  unfold line_pos_of, lp_pre, count_lt, nl_offsets. rewrite nl_offsets_from_app.
  rewrite filter_lt_app.
  - destruct (length (nl_offsets_from 0 pre)) as [|k'] eqn:E; [reflexivity|].
    rewrite app_nth1 by lia. reflexivity.
  - intros x Hx. apply nl_offsets_from_range in Hx. lia.
  - intros y Hy. apply nl_offsets_from_range in Hy. lia.
Qed.

Lemma lp_pre_spec pre : lp_pre pre = linecol_from (1, 1) pre.
Proof.
  induction pre as [|b q IH] using rev_ind; [reflexivity|].
  unfold linecol_from. rewrite fold_left_app. cbn [fold_left]. fold (linecol_from (1, 1) q). rewrite <- IH.
  unfold lp_pre, nl_offsets. rewrite nl_offsets_from_app, app_length. cbn [nl_offsets_from length].
  fold (nl_offsets q). unfold advance.
  destruct (N.eqb_spec b NL) as [->|Hb].
  - rewrite app_length. cbn [length].
    replace (length (nl_offsets q) + 1)%nat with (S (length (nl_offsets q))) by lia.
    rewrite app_nth2 by lia. replace (length (nl_offsets q) - length (nl_offsets q))%nat with O by lia. cbn [nth].
    destruct (length (nl_offsets q)) as [|k']; cbn [fst snd]; f_equal; lia.
  - rewrite app_nil_r. cbn [length].
    replace (length (nl_offsets q) + 0)%nat with (length (nl_offsets q)) by lia.
    rewrite app_length. cbn [length].
    destruct (length (nl_offsets q)) as [|k'] eqn:E; cbn [fst snd]; f_equal; try lia.
    assert (Hin : In (nth k' (nl_offsets q) 0) (nl_offsets q)) by (apply nth_In; lia).
    unfold nl_offsets in Hin. apply nl_offsets_from_range in Hin. unfold nl_offsets. lia.
Qed.

(** [get_line_pos_of_char_pos] over the newline offsets of a text is the line/column reached by
    walking over the first [p] bytes of that text from (1, 1) *)
Theorem line_pos_of_spec text p :
  p <= N.of_nat (length text) ->
  line_pos_of (nl_offsets text) p = linecol_from (1, 1) (firstn (N.to_nat p) text).
Proof.
  intros Hp. rewrite <- lp_pre_spec.
  set (pre := firstn (N.to_nat p) text). set (suf := skipn (N.to_nat p) text).
  assert (Ht : text = pre ++ suf) by (symmetry; apply firstn_skipn).
  assert (Hlen : p = N.of_nat (length pre)) by (unfold pre; rewrite firstn_length; lia).
  rewrite Ht, Hlen. apply line_pos_of_prefix.
Qed.

(** ** the hull *)
Lemma fold_min_le xs a : fold_left N.min xs a <= a /\ (forall x, In x xs -> fold_left N.min xs a <= x).
Proof.
  revert a; induction xs as [|y xs IH]; intros a; cbn [fold_left].
  - split; [lia | intros ? []].
  - destruct (IH (N.min a y)) as [H1 H2]. split; [lia|].
    intros x [<-|Hx]; [lia | now apply H2].
Qed.
Lemma fold_max_ge xs a : a <= fold_left N.max xs a /\ (forall x, In x xs -> x <= fold_left N.max xs a).
Proof.
  revert a; induction xs as [|y xs IH]; intros a; cbn [fold_left].
  - split; [lia | intros ? []].
  - destruct (IH (N.max a y)) as [H1 H2]. split; [lia|].
    intros x [<-|Hx]; [lia | now apply H2].
Qed.
Lemma fold_min_in xs a : fold_left N.min xs a = a \/ In (fold_left N.min xs a) xs.
Proof.
  revert a; induction xs as [|y xs IH]; intros a; cbn [fold_left]; [now left|].
  destruct (IH (N.min a y)) as [H|H]; [|right; now right].
  rewrite H. destruct (N.min_spec a y) as [[_ ->]|[_ ->]]; [now left | right; now left].
Qed.
Lemma fold_max_in xs a : fold_left N.max xs a = a \/ In (fold_left N.max xs a) xs.
Proof.
  revert a; induction xs as [|y xs IH]; intros a; cbn [fold_left]; [now left|].
  destruct (IH (N.max a y)) as [H|H]; [|right; now right].
  rewrite H. destruct (N.max_spec a y) as [[_ ->]|[_ ->]]; [right; now left | now left].
Qed.

(** the hull contains every child span and is the smallest such span (its bounds are attained) *)
Theorem hull_spec nls ms h :
  hull nls ms = Some h ->
  (forall m, In m ms -> m_ss h <= m_ss m /\ m_se m <= m_se h /\ m_ts h <= m_ts m /\ m_te m <= m_te h) /\
  (exists m, In m ms /\ m_ss h = m_ss m) /\ (exists m, In m ms /\ m_se h = m_se m) /\
  (exists m, In m ms /\ m_ts h = m_ts m) /\ (exists m, In m ms /\ m_te h = m_te m) /\
  (m_wl h, m_wp h) = line_pos_of nls (m_ts h).
Proof.
  destruct ms as [|m0 r]; [discriminate|]. cbn [hull]. intros [= <-]. cbn [m_ss m_se m_ts m_te m_wl m_wp].
  split; [|split; [|split; [|split; [|split]]]].
  - intros m [<-|Hm].
    + pose proof (fold_min_le (map m_ss r) (m_ss m0)). pose proof (fold_max_ge (map m_se r) (m_se m0)).
      pose proof (fold_min_le (map m_ts r) (m_ts m0)). pose proof (fold_max_ge (map m_te r) (m_te m0)). tauto.
    + repeat split.
      * apply (fold_min_le (map m_ss r)). now apply in_map.
      * apply (fold_max_ge (map m_se r)). now apply in_map.
      * apply (fold_min_le (map m_ts r)). now apply in_map.
      * apply (fold_max_ge (map m_te r)). now apply in_map.
  - destruct (fold_min_in (map m_ss r) (m_ss m0)) as [H|H].
    + exists m0. split; [now left | exact H].
    + apply in_map_iff in H as (m & Hm & Hin). exists m. split; [now right | now symmetry].
  - destruct (fold_max_in (map m_se r) (m_se m0)) as [H|H].
    + exists m0. split; [now left | exact H].
    + apply in_map_iff in H as (m & Hm & Hin). exists m. split; [now right | now symmetry].
  - destruct (fold_min_in (map m_ts r) (m_ts m0)) as [H|H].
    + exists m0. split; [now left | exact H].
    + apply in_map_iff in H as (m & Hm & Hin). exists m. split; [now right | now symmetry].
  - destruct (fold_max_in (map m_te r) (m_te m0)) as [H|H].
    + exists m0. split; [now left | exact H].
    + apply in_map_iff in H as (m & Hm & Hin). exists m. split; [now right | now symmetry].
  - now destruct (line_pos_of nls _).
Qed.

(** children that tile (each starts where the previous one ends) have as hull the span from the
    start of the first to the end of the last *)
Fixpoint tiles (get_s get_e : marker -> N) (ms : list marker) : Prop :=
  match ms with
  | [] => True
  | m :: r => get_s m <= get_e m /\
              match r with [] => True | m' :: _ => get_e m = get_s m' end /\ tiles get_s get_e r
  end.

Lemma last_cons_default {A} (r : list A) : forall x d, last (x :: r) d = last r x.
Proof.
  induction r as [|y r IH]; intros x d; [reflexivity|].
  change (last (x :: y :: r) d) with (last (y :: r) d). now rewrite !IH.
Qed.

Lemma tiles_fold get_s get_e r : forall m0,
  tiles get_s get_e (m0 :: r) ->
  fold_left N.min (map get_s r) (get_s m0) = get_s m0 /\
  fold_left N.max (map get_e r) (get_e m0) = get_e (last r m0) /\
  get_s m0 <= get_e (last r m0).
Proof.
  induction r as [|m1 r IH]; intros m0 Ht.
  - cbn in *. repeat split; lia.
  - cbn [tiles] in Ht. destruct Ht as (H0 & H01 & Ht).
    destruct (IH m1 Ht) as (Hmin & Hmax & Hle).
    pose proof Ht as Ht'. cbn [tiles] in Ht'. destruct Ht' as (H1 & _ & _).
    cbn [map fold_left].
    assert (Hlast : last (m1 :: r) m0 = last r m1) by apply last_cons_default.
    rewrite Hlast. repeat split.
    + replace (N.min (get_s m0) (get_s m1)) with (get_s m0) by lia.
      (* min over the rest cannot go below get_s m0 since all starts >= get_s m1 >= get_s m0 *)
      destruct (fold_min_in (map get_s r) (get_s m0)) as [H|H]; [exact H|].
      pose proof (fold_min_le (map get_s r) (get_s m0)) as [Hle0 _].
      pose proof (fold_min_le (map get_s r) (get_s m1)) as [_ Hall].
      rewrite Hmin in Hall. specialize (Hall _ H). lia.
    + replace (N.max (get_e m0) (get_e m1)) with (get_e m1) by lia. exact Hmax.
    + lia.
Qed.

Theorem contiguous_hull nls m0 r h :
  hull nls (m0 :: r) = Some h ->
  tiles m_ss m_se (m0 :: r) -> tiles m_ts m_te (m0 :: r) ->
  m_ss h = m_ss m0 /\ m_se h = m_se (last r m0) /\ m_ts h = m_ts m0 /\ m_te h = m_te (last r m0).
Proof.
  cbn [hull]. intros [= <-] Hs Ht. cbn [m_ss m_se m_ts m_te].
  destruct (tiles_fold m_ss m_se r m0 Hs) as (A & B & _).
  destruct (tiles_fold m_ts m_te r m0 Ht) as (C & D & _). auto.
Qed.

(** ** position_segments *)
Fixpoint ptree_ind' (P : ptree -> Prop)
  (Hl : forall i r p, P (PLeaf i r p))
  (Hn : forall i p ch, Forall P ch -> P (PNode i p ch)) (t : ptree) : P t :=
  match t with
  | PLeaf i r p => Hl i r p
  | PNode i p ch =>
      Hn i p ch
        ((fix go (l : list ptree) : Forall P l :=
            match l with
            | [] => Forall_nil P
            | c :: l' => Forall_cons c (ptree_ind' P Hl Hn c) (go l')
            end) ch)
  end.

Lemma wpos_is_true p l c : wpos_is p l c = true <-> exists m, p = Some m /\ m_wl m = l /\ m_wp m = c.
Proof.
  unfold wpos_is. destruct p as [m|].
  - rewrite andb_true_iff, !N.eqb_eq. split; [intros [? ?]; eauto | intros (m' & [= <-] & ? & ?); auto].
  - split; [discriminate | intros (m & H & _); discriminate].
Qed.

Lemma wokb_pos t l c : wokb t l c = true -> wpos_is (pos_of t) l c = true.
Proof. destruct t; cbn [wokb pos_of]; [auto|]. rewrite andb_true_iff. tauto. Qed.

(** a consistent segment is a valid input, and so are the children of a consistent node *)
Lemma wokb_preb t l c : wokb t l c = true -> preb t = true.
Proof.
  intros H. destruct t as [i r p|i p ch]; [reflexivity|].
  pose proof (wokb_pos _ _ _ H) as Hp. cbn [pos_of] in Hp.
  apply wpos_is_true in Hp as (m & -> & <- & <-). exact H.
Qed.

Lemma chainb_preb ch : forall l c, chainb wokb ch l c = true -> forallb preb ch = true.
Proof.
  induction ch as [|x ch IH]; intros l c; cbn [chainb forallb]; [reflexivity|].
  rewrite !andb_true_iff. intros [Hx Hr]. split; [now apply wokb_preb in Hx | now apply IH in Hr].
Qed.

Lemma preb_children t : preb t = true -> forallb preb (children t) = true.
Proof.
  destruct t as [i r p|i [p|] ch]; cbn [preb children]; [reflexivity| |auto].
  cbn [wokb]. rewrite andb_true_iff. intros [_ H]. now apply chainb_preb in H.
Qed.

Section PS.
  Variable nls : list N.

  Definition tree_ok (t : ptree) : Prop :=
    forall np t', preb t = true -> ps_tree nls t np = Some t' ->
      wokb t' (m_wl np) (m_wp np) = true /\ raw_of t' = raw_of t.

  Lemma loop_ok parent : forall segs line pos prev out,
    Forall tree_ok segs -> forallb preb segs = true ->
    ps_loop nls (ps_tree nls) parent segs line pos prev = Some out ->
    chainb wokb out line pos = true /\ map raw_of out = map raw_of segs.
  Proof.
    induction segs as [|seg rest IH]; intros line pos prev out Hok Hpre; cbn [ps_loop].
    - intros [= <-]. split; reflexivity.
    - inversion Hok as [|? ? Hseg Hrest]; subst.
      cbn [forallb] in Hpre. apply andb_true_iff in Hpre as [Hp1 Hp2].
      destruct (match pos_of seg with Some p => Some p | None => new_pos_for nls prev parent rest end) as [np0|]; [|discriminate].
      destruct (ps_tree nls seg (with_working np0 line pos)) as [seg'|] eqn:Et; [|discriminate].
      destruct (ps_loop nls (ps_tree nls) parent rest
                  (fst (infer_next (raw_of seg) line pos)) (snd (infer_next (raw_of seg) line pos))
                  (Some (with_working np0 line pos))) as [out'|] eqn:El; [|discriminate].
      intros [= <-].
      destruct (Hseg _ _ Hp1 Et) as [Hw Hraw]. cbn [with_working m_wl m_wp] in Hw.
      destruct (IH _ _ _ _ Hrest Hp2 El) as [Hc Hmap].
      cbn [chainb map]. rewrite Hw, Hraw, Hc, Hmap. split; reflexivity.
  Qed.

  Lemma flat_map_ext_map {A B} (f : A -> list B) l l' : map f l = map f l' -> flat_map f l = flat_map f l'.
  Proof. rewrite !flat_map_concat_map. now intros ->. Qed.

  Lemma tree_ok_all t : tree_ok t.
  Proof.
    induction t as [i r p|i old ch IH] using ptree_ind'; intros np t' Hpre; cbn [ps_tree].
    - intros [= <-]. cbn [wokb wpos_is m_wl m_wp raw_of]. rewrite !N.eqb_refl. split; reflexivity.
    - destruct (is_empty ch || opt_marker_eqb old np) eqn:Eshort.
      + (* the shortcut: children are kept as they are *)
        intros [= <-]. cbn [wokb wpos_is raw_of]. rewrite !N.eqb_refl. cbn [andb]. split; [|reflexivity].
        apply orb_true_iff in Eshort as [He|He].
        * destruct ch; [reflexivity | discriminate].
        * destruct old as [p|]; [|discriminate]. cbn [opt_marker_eqb] in He. unfold marker_eqb in He.
          apply andb_true_iff in He as [H1 H2]. apply N.eqb_eq in H1, H2.
          cbn [preb wokb] in Hpre. apply andb_true_iff in Hpre as [_ Hch]. now rewrite <- H1, <- H2.
      + destruct (ps_loop nls (ps_tree nls) np ch (m_wl np) (m_wp np) None) as [ch'|] eqn:El; [|discriminate].
        intros [= <-].
        assert (Hpc : forallb preb ch = true) by (exact (preb_children _ Hpre)).
        destruct (loop_ok np ch _ _ _ _ IH Hpc El) as [Hc Hmap].
        cbn [wokb wpos_is raw_of]. rewrite !N.eqb_refl, Hc. split; [reflexivity|].
        now apply flat_map_ext_map.
  Qed.

  (** [position_segments]: whatever was edited among [segs], if every segment that still carries
      a marker is consistent below it, the result is consistent from the parent's working
      position on (and no text changes). *)
  Theorem position_segments_working segs parent out :
    forallb preb segs = true ->
    position_segments nls segs parent = Some out ->
    chainb wokb out (m_wl parent) (m_wp parent) = true /\ map raw_of out = map raw_of segs.
  Proof.
    intros Hpre Hps. unfold position_segments in Hps.
    eapply loop_ok; [|exact Hpre|exact Hps].
    apply Forall_forall. intros t _. apply tree_ok_all.
  Qed.
End PS.

(** ** from the invariant to the leaves *)
Lemma leaves_ok_app a b lc :
  leaves_ok (a ++ b) lc = leaves_ok a lc && leaves_ok b (linecol_from lc (flat_map fst a)).
Proof.
  revert lc; induction a as [|[r p] a IH]; intros lc; cbn [app leaves_ok flat_map fst]; [reflexivity|].
  rewrite IH, linecol_from_app, andb_assoc. reflexivity.
Qed.

Lemma pleaves_raw t : flat_map fst (pleaves t) = raw_of t.
Proof.
  induction t as [i r p|i p ch IH] using ptree_ind'; [cbn; apply app_nil_r|].
  destruct ch as [|x ch]; [reflexivity|].
  change (pleaves (PNode i p (x :: ch))) with (flat_map pleaves (x :: ch)).
  cbn [raw_of]. induction (x :: ch) as [|y l IHl]; [reflexivity|].
  inversion IH as [|? ? Hy Hl]; subst.
  change (flat_map pleaves (y :: l)) with (pleaves y ++ flat_map pleaves l).
  change (flat_map raw_of (y :: l)) with (raw_of y ++ flat_map raw_of l).
  rewrite flat_map_app. f_equal; [exact Hy | exact (IHl Hl)].
Qed.

Lemma wokb_leaves t : forall l c, wokb t l c = true -> leaves_ok (pleaves t) (l, c) = true.
Proof.
  induction t as [i r p|i p ch IH] using ptree_ind'; intros l c; cbn [wokb].
  - intros H. cbn [pleaves leaves_ok fst snd]. now rewrite H.
  - rewrite andb_true_iff. intros [Hp Hch]. destruct ch as [|x ch].
    + cbn [pleaves leaves_ok fst snd]. now rewrite Hp.
    + change (pleaves (PNode i p (x :: ch))) with (flat_map pleaves (x :: ch)).
      clear Hp. revert l c Hch. induction (x :: ch) as [|y ys IHl]; intros l c Hch; [reflexivity|].
      inversion IH as [|? ? Hy Hys]; subst.
      cbn [chainb] in Hch. apply andb_true_iff in Hch as [Hyc Hrest].
      cbn [flat_map]. rewrite leaves_ok_app, (Hy _ _ Hyc), pleaves_raw. cbn [andb].
      rewrite <- infer_next_spec. destruct (infer_next (raw_of y) l c) as [l' c'] eqn:E.
      cbn [fst snd] in Hrest. now apply IHl.
Qed.

Lemma chainb_leaves ts : forall l c,
  chainb wokb ts l c = true -> leaves_ok (flat_map pleaves ts) (l, c) = true.
Proof.
  induction ts as [|y ys IH]; intros l c Hch; [reflexivity|].
  cbn [chainb] in Hch. apply andb_true_iff in Hch as [Hyc Hrest].
  cbn [flat_map]. rewrite leaves_ok_app, (wokb_leaves _ _ _ Hyc), pleaves_raw. cbn [andb].
  rewrite <- infer_next_spec. destruct (infer_next (raw_of y) l c) as [l' c'] eqn:E.
  cbn [fst snd] in Hrest. now apply IH.
Qed.

(** every leaf below the repositioned segments carries the working line/column computed from
    the text before it *)
Theorem position_segments_leaves nls segs parent out :
  forallb preb segs = true ->
  position_segments nls segs parent = Some out ->
  leaves_ok (flat_map pleaves out) (m_wl parent, m_wp parent) = true.
Proof.
  intros Hpre Hps. apply chainb_leaves. now apply (position_segments_working nls segs parent out).
Qed.

(** ** non-vacuity *)
(* parent at (3,5); children: a consistent node [ab|\n] at its old place (shortcut taken), a new
   position-less leaf "xy", a node that has to move (its marker says line 3 but it now starts
   on line 4) and therefore is descended into *)
Definition ex_parent : marker := mkM 20 40 20 40 3 5.
Definition ex_segs : list ptree :=
  [PNode 1 (Some (mkM 20 23 20 23 3 5))
     [PLeaf 2 [97; 98] (Some (mkM 20 22 20 22 3 5)); PLeaf 3 [10] (Some (mkM 22 23 22 23 3 7))];
   PLeaf 4 [120; 121] None;
   PNode 5 (Some (mkM 23 26 23 26 4 1))
     [PLeaf 6 [99] (Some (mkM 23 24 23 24 4 1)); PLeaf 7 [100; 101] (Some (mkM 24 26 24 26 4 2))]].

Example ex_pre : forallb preb ex_segs = true.
Proof. vm_compute. reflexivity. Qed.

Example ex_ps :
  position_segments [22] ex_segs ex_parent =
  Some [PNode 1 (Some (mkM 20 23 20 23 3 5))
          [PLeaf 2 [97; 98] (Some (mkM 20 22 20 22 3 5)); PLeaf 3 [10] (Some (mkM 22 23 22 23 3 7))];
        PLeaf 4 [120; 121] (Some (mkM 23 23 23 23 4 1));
        PNode 5 (Some (mkM 23 26 23 26 4 3))
          [PLeaf 6 [99] (Some (mkM 23 24 23 24 4 3)); PLeaf 7 [100; 101] (Some (mkM 24 26 24 26 4 4))]].
Proof. vm_compute. reflexivity. Qed.

(* the input precondition matters: a node whose marker did not move but whose children are
   stale is left stale by the shortcut *)
Example ex_shortcut_needs_pre :
  let stale := [PNode 1 (Some (mkM 0 2 0 2 1 1)) [PLeaf 2 [97] (Some (mkM 0 1 0 1 1 1)); PLeaf 3 [98] (Some (mkM 1 2 1 2 9 9))]] in
  forallb preb stale = false /\
  exists out, position_segments [] stale (mkM 0 2 0 2 1 1) = Some out /\
              leaves_ok (flat_map pleaves out) (1, 1) = false.
Proof. split; [reflexivity|]. eexists. split; vm_compute; reflexivity. Qed.

Example ex_infer : infer_next [97; 10; 10; 98; 99] 3 7 = (5, 3) /\ infer_next [97; 98] 3 7 = (3, 9) /\ infer_next [] 3 7 = (3, 7).
Proof. vm_compute. auto. Qed.

Example ex_hull :
  hull [4] [mkM 2 5 2 5 1 3; mkM 5 5 5 5 2 1; mkM 5 9 5 9 2 1] = Some (mkM 2 9 2 9 1 3) /\
  tiles m_ts m_te [mkM 2 5 2 5 1 3; mkM 5 5 5 5 2 1; mkM 5 9 5 9 2 1].
Proof. split; [vm_compute; reflexivity | cbn; lia]. Qed.

(** ** apply_fixes keeps the working-position invariant *)
Lemma scb_preb t : scb t = true -> preb t = true.
Proof. unfold scb. destruct (pos_of t); [apply wokb_preb | discriminate]. Qed.

Lemma wokb_scb t l c : wokb t l c = true -> scb t = true.
Proof.
  intros H. pose proof (wokb_pos _ _ _ H) as Hp. apply wpos_is_true in Hp as (m & Hm & <- & <-).
  unfold scb. now rewrite Hm.
Qed.

Lemma chainb_scb ch : forall l c, chainb wokb ch l c = true -> forallb scb ch = true.
Proof.
  induction ch as [|x ch IH]; intros l c; cbn [chainb forallb]; [reflexivity|].
  rewrite !andb_true_iff. intros [Hx Hr]. split; [now apply wokb_scb in Hx | now apply IH in Hr].
Qed.

Lemma all_some_map {A B} (f : A -> option B) l l' :
  all_some (map f l) = Some l' -> Forall2 (fun x y => f x = Some y) l l'.
Proof.
  revert l'; induction l as [|x l IH]; intros l'; cbn [map all_some].
  - intros [= <-]. constructor.
  - destruct (f x) as [y|] eqn:Ef; [|discriminate].
    destruct (all_some (map f l)) as [r|]; cbn [option_map]; [|discriminate].
    intros [= <-]. constructor; [exact Ef | now apply IH].
Qed.

Section AF.
  Variable nls : list N.
  Variable no_fixes_left : N -> bool.
  Variable edit : N -> list ptree -> option (list ptree).
  (** what the fix batch may put into a child list: segments that still carry a marker are the
      untouched, consistent originals; everything new carries no marker (monitored on every
      recorded [position_segments] call) *)
  Hypothesis edit_pre : forall i ch buf,
    forallb preb ch = true -> edit i ch = Some buf -> forallb preb buf = true.

  Theorem apply_fixes_sc : forall fuel t t',
    scb t = true -> apply_fixes nls no_fixes_left edit fuel t = Some t' ->
    scb t' = true /\ pos_of t' = pos_of t.
  Proof.
    induction fuel as [|f IH]; intros t t' Hsc; cbn [apply_fixes]; [discriminate|].
    destruct t as [i r p|i p ch]; [intros [= <-]; auto|].
    destruct (is_empty ch || no_fixes_left i); [intros [= <-]; auto|].
    destruct p as [pm|]; [|discriminate].
    unfold scb in Hsc. cbn [pos_of wokb] in Hsc. apply andb_true_iff in Hsc as [_ Hch].
    assert (Hb1 : forall b1,
               match edit i ch with Some buf => position_segments nls buf pm | None => Some ch end = Some b1 ->
               forallb scb b1 = true).
    { intros b1. destruct (edit i ch) as [buf|] eqn:Ee.
      - intros Hps. apply (position_segments_working nls buf pm b1) in Hps as [Hc _].
        + now apply chainb_scb in Hc.
        + apply (edit_pre i ch buf); [now apply chainb_preb in Hch | exact Ee].
      - intros [= <-]. now apply chainb_scb in Hch. }
    destruct (match edit i ch with Some buf => position_segments nls buf pm | None => Some ch end) as [b1|]; [|discriminate].
    specialize (Hb1 b1 eq_refl).
    destruct (all_some (map (apply_fixes nls no_fixes_left edit f) b1)) as [b2|] eqn:Em; [|discriminate].
    apply all_some_map in Em.
    assert (Hb2 : forallb preb b2 = true).
    { clear -Em Hb1 IH. induction Em as [|x y l l' Hxy _ IHl]; [reflexivity|].
      cbn [forallb] in *. apply andb_true_iff in Hb1 as [Hx Hl]. apply andb_true_iff. split; [|now apply IHl].
      apply scb_preb. now apply (IH x y Hx Hxy). }
    destruct (position_segments nls b2 pm) as [b3|] eqn:Ep; [|discriminate].
    intros [= <-]. apply (position_segments_working nls b2 pm b3 Hb2) in Ep as [Hc _].
    split; [|reflexivity]. unfold scb. cbn [pos_of wokb wpos_is]. now rewrite !N.eqb_refl, Hc.
  Qed.

  (** the post-fix clause of C12: if the tree handed to [apply_fixes] is consistent (as the parse
      tree is, and as every tree produced by this theorem is), then in the rewritten tree every
      leaf's working line/column is the one computed from the rewritten text before it *)
  Theorem apply_fixes_leaves : forall fuel t t' m,
    pos_of t = Some m -> scb t = true ->
    apply_fixes nls no_fixes_left edit fuel t = Some t' ->
    leaves_ok (pleaves t') (m_wl m, m_wp m) = true.
  Proof.
    intros fuel t t' m Hm Hsc Haf. destruct (apply_fixes_sc fuel t t' Hsc Haf) as [Hsc' Hpos].
    unfold scb in Hsc'. rewrite Hpos, Hm in Hsc'. now apply wokb_leaves.
  Qed.
End AF.

(* non-vacuity: an edit that inserts a new leaf and deletes one, on a consistent two-level tree *)
Definition ex_tree : ptree :=
  PNode 1 (Some (mkM 0 6 0 6 1 1))
    [PNode 2 (Some (mkM 0 3 0 3 1 1))
       [PLeaf 3 [97] (Some (mkM 0 1 0 1 1 1)); PLeaf 4 [10] (Some (mkM 1 2 1 2 1 2)); PLeaf 5 [98] (Some (mkM 2 3 2 3 2 1))];
     PLeaf 6 [99; 100; 101] (Some (mkM 3 6 3 6 2 2))].
Definition ex_edit (i : N) (ch : list ptree) : option (list ptree) :=
  if i =? 2 then Some (PLeaf 9 [120; 10; 121] None :: tl ch) else None.

Example ex_af_pre : scb ex_tree = true /\ forallb preb (PLeaf 9 [120; 10; 121] None :: tl (children (hd ex_tree (children ex_tree)))) = true.
Proof. vm_compute. auto. Qed.

Example ex_af :
  exists t', apply_fixes [1] (fun _ => false) ex_edit 5 ex_tree = Some t' /\
             pleaves t' = [([120; 10; 121], Some (mkM 0 1 0 1 1 1)); ([10], Some (mkM 1 2 1 2 2 2));
                           ([98], Some (mkM 2 3 2 3 3 1)); ([99; 100; 101], Some (mkM 3 6 3 6 3 2))] /\
             leaves_ok (pleaves t') (1, 1) = true.
Proof. eexists. split; [vm_compute; reflexivity|]. split; vm_compute; reflexivity. Qed.

(** ** position_segments does not panic on valid input *)
Lemma wokb_first_leaf t : forall l c, wokb t l c = true -> exists m, first_leaf_pos t = Some m.
Proof.
  induction t as [i r p|i p ch IH] using ptree_ind'; intros l c; cbn [wokb first_leaf_pos].
  - intros H. apply wpos_is_true in H as (m & -> & _). eauto.
  - rewrite andb_true_iff. intros [Hp Hch]. destruct ch as [|x ch].
    + apply wpos_is_true in Hp as (m & -> & _). eauto.
    + cbn [chainb] in Hch. apply andb_true_iff in Hch as [Hx _].
      inversion IH as [|? ? IHx _]; subst. eapply IHx; eauto.
Qed.

Lemma preb_fwd_end_point segs : forallb preb segs = true -> exists r, fwd_end_point segs = Some r.
Proof.
  induction segs as [|s segs IH]; cbn [forallb fwd_end_point]; [eauto|].
  rewrite andb_true_iff. intros [Hs Hr]. destruct (pos_of s) as [m|] eqn:Ep; [|now apply IH].
  assert (Hw : wokb s (m_wl m) (m_wp m) = true).
  { destruct s as [i r p|i p ch]; cbn [pos_of] in Ep; subst.
    - cbn [wokb wpos_is]. now rewrite !N.eqb_refl.
    - exact Hs. }
  destruct (wokb_first_leaf _ _ _ Hw) as (m' & ->). eauto.
Qed.

Section PSTotal.
  Variable nls : list N.

  Definition tree_total (t : ptree) : Prop :=
    forall np, preb t = true -> exists t', ps_tree nls t np = Some t'.

  Lemma loop_total parent : forall segs line pos prev,
    Forall tree_total segs -> forallb preb segs = true ->
    exists out, ps_loop nls (ps_tree nls) parent segs line pos prev = Some out.
  Proof.
    induction segs as [|seg rest IH]; intros line pos prev Htot Hpre; cbn [ps_loop]; [eauto|].
    apply Forall_cons_iff in Htot as [Hseg Hrest].
    cbn [forallb] in Hpre. apply andb_true_iff in Hpre as [Hp1 Hp2].
    assert (Hnp : exists np0, (match pos_of seg with Some p => Some p | None => new_pos_for nls prev parent rest end) = Some np0).
    { destruct (pos_of seg); [eauto|]. unfold new_pos_for.
      destruct (preb_fwd_end_point rest Hp2) as ([ep|] & ->); eauto. }
    destruct Hnp as (np0 & ->).
    destruct (Hseg (with_working np0 line pos) Hp1) as (seg' & ->).
    destruct (IH (fst (infer_next (raw_of seg) line pos)) (snd (infer_next (raw_of seg) line pos))
                 (Some (with_working np0 line pos)) Hrest Hp2) as (out & ->). eauto.
  Qed.

  Lemma tree_total_all t : tree_total t.
  Proof.
    induction t as [i r p|i old ch IH] using ptree_ind'; intros np Hpre; cbn [ps_tree]; [eauto|].
    destruct (is_empty ch || opt_marker_eqb old np); [eauto|].
    destruct (loop_total np ch (m_wl np) (m_wp np) None IH (preb_children _ Hpre)) as (ch' & ->). eauto.
  Qed.

  Theorem position_segments_total segs parent :
    forallb preb segs = true -> exists out, position_segments nls segs parent = Some out.
  Proof.
    intros Hpre. unfold position_segments. apply loop_total; [|exact Hpre].
    apply Forall_forall. intros t _. apply tree_total_all.
  Qed.
End PSTotal.
