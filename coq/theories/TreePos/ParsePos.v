(** Positions of the leaves of a parse tree (first clause of C12), from
    - C01: the lexer's tokens tile the text (hypothesis [tiles] below),
    - C02/[apply_il]: the leaves of the tree are the tokens in order, metas at token boundaries,
    - [get_point_pos_at_idx]: the marker a meta gets.
    Conclusion: the markers of all leaves, metas included, are contiguous from the start of the
    first token to the end of the last one. *)
From Sq Require Import Base.Bytes Apply.Model Apply.Proofs Apply.Interleave TreePos.Model TreePos.Proofs.

Arguments N.add : simpl never.
Arguments N.sub : simpl never.
Arguments N.eqb : simpl never.
Arguments N.ltb : simpl never.
Arguments N.leb : simpl never.
Arguments N.of_nat : simpl never.
Arguments N.to_nat : simpl never.

Definition tokm : Type := (tok * marker)%type.

Definition lookup (tm : list tokm) (id : N) : option marker :=
  option_map snd (find (fun x => t_id (fst x) =? id) tm).

Definition item_marker (nls : list N) (tm : list tokm) (it : item) : option marker :=
  match it with
  | ITok id => lookup tm id
  | IMeta _ p => point_pos_at nls (map snd tm) p
  end.

(** markers contiguous in the templated file from [cur]; returns where they end *)
Fixpoint contig (cur : N) (ms : list marker) : option N :=
  match ms with
  | [] => Some cur
  | mk :: r => if m_ts mk =? cur then contig (m_te mk) r else None
  end.

(** the templated offset of the boundary before token [i] (after the last token for [i = len]) *)
Definition bound (mks : list marker) (i : nat) : N :=
  match nth_error mks i with
  | Some mk => m_ts mk
  | None => match mks with [] => 0 | m0 :: r => m_te (last r m0) end
  end.

Lemma tiles_next mks : tiles m_ts m_te mks ->
  forall i x y, nth_error mks i = Some x -> nth_error mks (S i) = Some y -> m_te x = m_ts y.
Proof.
  induction mks as [|m0 r IH]; intros Ht i x y Hx Hy; [destruct i; discriminate|].
  cbn [tiles] in Ht. destruct Ht as (_ & Hnext & Hr).
  destruct i as [|i].
  - cbn in Hx. injection Hx as <-. cbn in Hy. destruct r as [|m1 r']; [discriminate|].
    cbn in Hy. injection Hy as <-. exact Hnext.
  - cbn [nth_error] in Hx, Hy. eapply IH; eauto.
Qed.

Lemma nth_error_last {A} (r : list A) (m0 : A) : nth_error (m0 :: r) (length r) = Some (last r m0).
Proof.
  revert m0; induction r as [|x r IH]; intros m0; [reflexivity|].
  cbn [length nth_error]. rewrite IH. now rewrite last_cons_default.
Qed.

Lemma bound_next mks i x :
  tiles m_ts m_te mks -> nth_error mks i = Some x -> bound mks (S i) = m_te x.
Proof.
  intros Ht Hx. unfold bound. destruct (nth_error mks (S i)) as [y|] eqn:Ey.
  - symmetry. eapply tiles_next; eauto.
  - destruct mks as [|m0 r]; [destruct i; discriminate|].
    apply nth_error_None in Ey. cbn [length] in Ey.
    assert (i = length r).
    { assert (i < length (m0 :: r))%nat by (apply nth_error_Some; congruence). cbn [length] in H. lia. }
    subst i. rewrite nth_error_last in Hx. now injection Hx as <-.
Qed.

Lemma lookup_nth tm i t mk :
  NoDup (map (fun x => t_id (fst x)) tm) -> nth_error tm i = Some (t, mk) -> lookup tm (t_id t) = Some mk.
Proof.
  unfold lookup. revert i; induction tm as [|[t0 mk0] tm IH]; intros i Hnd Hn; [destruct i; discriminate|].
  cbn [map fst] in Hnd. apply NoDup_cons_iff in Hnd as [Hnotin Hnd].
  destruct i as [|i].
  - cbn in Hn. injection Hn as -> ->. cbn [find fst]. now rewrite N.eqb_refl.
  - cbn [nth_error] in Hn. cbn [find fst].
    destruct (N.eqb_spec (t_id t0) (t_id t)) as [Heq|_].
    + exfalso. apply Hnotin. rewrite Heq.
      apply nth_error_In in Hn. apply (in_map (fun x => t_id (fst x))) in Hn. exact Hn.
    + eapply IH; eauto.
Qed.

Theorem il_contig nls tm :
  tm <> [] ->
  NoDup (map (fun x => t_id (fst x)) tm) ->
  tiles m_ts m_te (map snd tm) ->
  forall a b l,
    IL (map fst tm) a b l -> b <= N.of_nat (length tm) ->
    exists ms, all_some (map (item_marker nls tm) l) = Some ms /\
               contig (bound (map snd tm) (N.to_nat a)) ms = Some (bound (map snd tm) (N.to_nat b)).
Proof.
  intros Hne Hnd Ht a b l Hil. induction Hil as [a|a b k l Hil IH|a b t l Hn Hil IH]; intros Hb.
  - exists []. split; reflexivity.
  - destruct (IH Hb) as (ms & Hms & Hc).
    pose proof (IL_le _ _ _ _ Hil) as Hab.
    assert (Hp : exists mk, point_pos_at nls (map snd tm) a = Some mk /\
                            m_ts mk = bound (map snd tm) (N.to_nat a) /\ m_te mk = m_ts mk).
    { unfold point_pos_at, bound. rewrite map_length.
      destruct (N.ltb_spec a (N.of_nat (length tm))).
      - destruct (nth_error (map snd tm) (N.to_nat a)) as [mk|] eqn:En.
        + exists (start_point mk). repeat split; reflexivity.
        + apply nth_error_None in En. rewrite map_length in En. lia.
      - assert (a = N.of_nat (length tm)) by lia.
        destruct tm as [|[t0 m0] r] eqn:Etm; [congruence|]. rewrite <- Etm in *.
        destruct (N.leb_spec 1 a); [|rewrite Etm in H0; cbn [length] in H0; lia].
        assert (Hlast : nth_error (map snd tm) (N.to_nat (a - 1)) = Some (last (map snd r) m0)).
        { rewrite Etm. cbn [map snd]. replace (N.to_nat (a - 1)) with (length (map snd r)).
          - apply nth_error_last.
          - rewrite map_length. subst a. rewrite Etm. cbn [length]. lia. }
        rewrite Hlast. cbn [option_map]. eexists. split; [reflexivity|].
        assert (Hnone : nth_error (map snd tm) (N.to_nat a) = None).
        { apply nth_error_None. rewrite map_length. lia. }
        rewrite Hnone, Etm. cbn [map snd end_point m_ts m_te]. split; reflexivity. }
    destruct Hp as (mk & Hpk & Hts & Hte).
    exists (mk :: ms). cbn [map all_some item_marker]. rewrite Hpk. cbn [map all_some] in *.
    rewrite Hms. cbn [option_map]. split; [reflexivity|].
    cbn [contig]. rewrite Hts, N.eqb_refl, Hte, Hts. exact Hc.
  - pose proof (IL_le _ _ _ _ Hil) as Hab.
    destruct (IH Hb) as (ms & Hms & Hc).
    rewrite nth_error_map in Hn. destruct (nth_error tm (N.to_nat a)) as [[t' mk]|] eqn:En; [|discriminate].
    cbn in Hn. injection Hn as ->.
    exists (mk :: ms). cbn [map all_some item_marker]. rewrite (lookup_nth tm _ t mk Hnd En).
    rewrite Hms. cbn [option_map]. split; [reflexivity|].
    assert (Hmk : nth_error (map snd tm) (N.to_nat a) = Some mk) by (rewrite nth_error_map, En; reflexivity).
    cbn [contig]. unfold bound at 1. rewrite Hmk, N.eqb_refl.
    rewrite <- (bound_next (map snd tm) (N.to_nat a) mk Ht Hmk).
    replace (S (N.to_nat a)) with (N.to_nat (a + 1)) by lia. exact Hc.
Qed.

(** The leaves of every parse tree, metas included, carry contiguous templated slices covering
    the text from the first token's start to the last token's end. *)
Theorem parse_leaves_contiguous nls tm m ch :
  tm <> [] ->
  NoDup (map (fun x => t_id (fst x)) tm) ->
  tiles m_ts m_te (map snd tm) ->
  wf_root (map fst tm) m = true ->
  root_parse (map fst tm) (GOk m) = Some (POk (Node K_File ch)) ->
  exists ms, all_some (map (item_marker nls tm) (obs_l ch)) = Some ms /\
             contig (bound (map snd tm) 0) ms = Some (bound (map snd tm) (length tm)).
Proof.
  intros Hne Hnd Ht Hwf Hrp.
  assert (Hne' : map fst tm <> []) by (destruct tm; [congruence | discriminate]).
  pose proof (root_parse_il (map fst tm) m ch Hne' Hwf Hrp) as Hil. rewrite map_length in Hil.
  destruct (il_contig nls tm Hne Hnd Ht _ _ _ Hil) as (ms & Hms & Hc); [lia|].
  exists ms. split; [exact Hms|]. rewrite Nat2N.id in Hc. exact Hc.
Qed.

(* non-vacuity: the example of Apply.Proofs with markers; the two metas sit at token boundaries *)
Definition ex_tm : list tokm :=
  combine ex_toks
    [mkM 0 2 0 2 1 1; mkM 2 8 2 8 1 3; mkM 8 9 8 9 1 9; mkM 9 10 9 10 2 1; mkM 10 11 10 11 2 2;
     mkM 11 14 11 14 2 3; mkM 14 15 14 15 2 6; mkM 15 15 15 15 3 1].

Example ex_parse_contig :
  map fst ex_tm = ex_toks /\ NoDup (map (fun x => t_id (fst x)) ex_tm) /\ tiles m_ts m_te (map snd ex_tm) /\
  exists ch ms,
    root_parse (map fst ex_tm) (GOk ex_mr) = Some (POk (Node K_File ch)) /\
    all_some (map (item_marker [8; 14] ex_tm) (obs_l ch)) = Some ms /\
    length ms = 10%nat /\ contig 0 ms = Some 15.
Proof.
  split; [reflexivity|]. split.
  - cbn. repeat constructor; cbn; intuition discriminate.
  - split; [cbn; lia|]. eexists. eexists. split; [vm_compute; reflexivity|].
    split; [vm_compute; reflexivity|]. split; reflexivity.
Qed.
