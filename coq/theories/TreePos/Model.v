(** Model of the position kernels behind C12:
    [PositionMarker::{infer_next_position, from_child_markers, start_point_marker,
    end_point_marker, from_points}] (crates/lib-core/src/parser/markers.rs),
    [TemplatedFile::get_line_pos_of_char_pos] (templaters/base.rs) and
    [position_segments] (parser/segments/base.rs).  Executable definitions only.
    All offsets and columns are byte based, as in the code. *)
From Sq Require Export Base.Bytes.

(** [PositionMarkerData]: source slice, templated slice, working line / position.  The templated
    file is represented by the list of its newline offsets ([templated_newlines]). *)
Record marker := mkM { m_ss : N; m_se : N; m_ts : N; m_te : N; m_wl : N; m_wp : N }.

Definition NL : N := 10.

(** --- infer_next_position (markers.rs 168-183) *)
Definition infer_next (raw : str) (line pos : N) : N * N :=
  if is_empty raw then (line, pos)
  else
    let parts := split_byte NL raw in            (* raw.split('\n') *)
    let k := N.of_nat (length parts) in
    (line + (k - 1),
     if k =? 1 then pos + N.of_nat (length raw) else N.of_nat (length (last parts [])) + 1).

(** the specification: walk over the bytes *)
Definition advance (lc : N * N) (b : N) : N * N :=
  if b =? NL then (fst lc + 1, 1) else (fst lc, snd lc + 1).
Definition linecol_from (lc : N * N) (text : str) : N * N := fold_left advance text lc.

(** --- get_line_pos_of_char_pos (templaters/base.rs 254-271): [binary_search] on the sorted,
    duplicate-free newline offsets returns, found or not, the number of offsets [< char_pos] *)
Definition count_lt (nls : list N) (p : N) : nat := length (filter (fun x => x <? p) nls).
Definition line_pos_of (nls : list N) (p : N) : N * N :=
  match count_lt nls p with
  | O => (1, p + 1)
  | S k' => (N.of_nat (S k') + 1, p - nth k' nls 0)
  end.
(** newline offsets of a text ([match_indices('\n')]) *)
Fixpoint nl_offsets_from (off : N) (text : str) : list N :=
  match text with
  | [] => []
  | b :: t => if b =? NL then off :: nl_offsets_from (off + 1) t else nl_offsets_from (off + 1) t
  end.
Definition nl_offsets (text : str) : list N := nl_offsets_from 0 text.

(** --- point markers *)
Definition start_point (m : marker) : marker := mkM (m_ss m) (m_ss m) (m_ts m) (m_ts m) (m_wl m) (m_wp m).
Definition end_point (nls : list N) (m : marker) : marker :=
  let lp := line_pos_of nls (m_te m) in mkM (m_se m) (m_se m) (m_te m) (m_te m) (fst lp) (snd lp).
Definition from_points (s e : marker) : marker := mkM (m_ss s) (m_se e) (m_ts s) (m_te e) (m_wl s) (m_wp s).
Definition with_working (m : marker) (l p : N) : marker := mkM (m_ss m) (m_se m) (m_ts m) (m_te m) l p.
(** [PartialEq for PositionMarker] compares the working location only *)
Definition marker_eqb (a b : marker) : bool := (m_wl a =? m_wl b) && (m_wp a =? m_wp b).

(** --- from_child_markers (markers.rs 120-150): the hull; panics on an empty iterator.
    (The code folds [min] from [usize::MAX]; offsets are below 2^64.) *)
Definition hull (nls : list N) (ms : list marker) : option marker :=
  match ms with
  | [] => None
  | m :: r =>
      let ss := fold_left N.min (map m_ss r) (m_ss m) in
      let se := fold_left N.max (map m_se r) (m_se m) in
      let ts := fold_left N.min (map m_ts r) (m_ts m) in
      let te := fold_left N.max (map m_te r) (m_te m) in
      let lp := line_pos_of nls ts in
      Some (mkM ss se ts te (fst lp) (snd lp))
  end.

(** --- get_point_pos_at_idx (match_result.rs 11-25) over the token markers: the start point of
    token [p], or past the end the end point of the last token; [None] = index panic *)
Definition point_pos_at (nls : list N) (ms : list marker) (p : N) : option marker :=
  if p <? N.of_nat (length ms) then option_map start_point (nth_error ms (N.to_nat p))
  else if 1 <=? p then option_map (end_point nls) (nth_error ms (N.to_nat (p - 1)))
  else None.

(** --- segments with positions *)
Inductive ptree :=
| PLeaf (id : N) (raw : str) (pos : option marker)
| PNode (id : N) (pos : option marker) (ch : list ptree).

Definition pos_of (t : ptree) : option marker :=
  match t with PLeaf _ _ p => p | PNode _ p _ => p end.
Definition children (t : ptree) : list ptree :=
  match t with PLeaf _ _ _ => [] | PNode _ _ ch => ch end.
Fixpoint raw_of (t : ptree) : str :=
  match t with PLeaf _ r _ => r | PNode _ _ ch => flat_map raw_of ch end.

(** [seg.get_raw_segments()[0].get_position_marker()] *)
Fixpoint first_leaf_pos (t : ptree) : option marker :=
  match t with
  | PLeaf _ _ p => p
  | PNode _ p [] => p
  | PNode _ _ (x :: _) => first_leaf_pos x
  end.

(** the end point for a position-less segment: the first following sibling that has a
    position; [None] = panic ([unwrap] of a missing marker), [Some None] = no such sibling *)
Fixpoint fwd_end_point (fwd : list ptree) : option (option marker) :=
  match fwd with
  | [] => Some None
  | s :: fwd' =>
      match pos_of s with
      | Some _ => match first_leaf_pos s with Some m => Some (Some (start_point m)) | None => None end
      | None => fwd_end_point fwd'
      end
  end.

Section PositionSegments.
  Variable nls : list N.

  (** position of a segment that has none (base.rs 914-948) *)
  Definition new_pos_for (prev : option marker) (parent : marker) (fwd : list ptree) : option marker :=
    let sp := match prev with Some pm => end_point nls pm | None => start_point parent end in
    match fwd_end_point fwd with
    | None => None
    | Some None => Some sp
    | Some (Some ep) => Some (if marker_eqb sp ep then sp else from_points sp ep)
    end.

  Definition ps_loop (rec : ptree -> marker -> option ptree) (parent : marker) :=
    fix loop (segs : list ptree) (line pos : N) (prev : option marker) : option (list ptree) :=
      match segs with
      | [] => Some []
      | seg :: rest =>
          match (match pos_of seg with Some p => Some p | None => new_pos_for prev parent rest end) with
          | None => None
          | Some np0 =>
              let np := with_working np0 line pos in
              let lp := infer_next (raw_of seg) line pos in
              match rec seg np with
              | None => None
              | Some seg' =>
                  match loop rest (fst lp) (snd lp) (Some np) with
                  | None => None
                  | Some out => Some (seg' :: out)
                  end
              end
          end
      end.

  Definition opt_marker_eqb (o : option marker) (m : marker) : bool :=
    match o with Some p => marker_eqb p m | None => false end.

  (** one segment given its new marker: recurse into the children only if the segment has
      children and its marker moved (base.rs 953-958) *)
  Fixpoint ps_tree (t : ptree) (np : marker) : option ptree :=
    match t with
    | PLeaf i r _ => Some (PLeaf i r (Some np))
    | PNode i old ch =>
        if is_empty ch || opt_marker_eqb old np then Some (PNode i (Some np) ch)
        else
          match ps_loop ps_tree np ch (m_wl np) (m_wp np) None with
          | None => None
          | Some ch' => Some (PNode i (Some np) ch')
          end
    end.

  Definition position_segments (segs : list ptree) (parent : marker) : option (list ptree) :=
    ps_loop ps_tree parent segs (m_wl parent) (m_wp parent) None.
End PositionSegments.

(** --- working-position invariant *)
Definition wpos_is (p : option marker) (l c : N) : bool :=
  match p with Some m => (m_wl m =? l) && (m_wp m =? c) | None => false end.

Definition chainb (f : ptree -> N -> N -> bool) :=
  fix go (xs : list ptree) (l c : N) : bool :=
    match xs with
    | [] => true
    | x :: xs' => f x l c && (let lp := infer_next (raw_of x) l c in go xs' (fst lp) (snd lp))
    end.

(** [wokb t l c]: [t] sits at working position (l, c) and, recursively, every child sits where
    the text before it ends *)
Fixpoint wokb (t : ptree) (l c : N) : bool :=
  match t with
  | PLeaf _ _ p => wpos_is p l c
  | PNode _ p ch => wpos_is p l c && chainb wokb ch l c
  end.

(** what [position_segments] needs from its input: a segment that has a marker is consistent
    below that marker; a segment without one is new and its children are inputs in turn *)
Fixpoint preb (t : ptree) : bool :=
  match t with
  | PLeaf _ _ _ => true
  | PNode i (Some p) ch => wokb (PNode i (Some p) ch) (m_wl p) (m_wp p)
  | PNode _ None ch => forallb preb ch
  end.

(** leaves (segments without children), left to right: (raw, marker) *)
Fixpoint pleaves (t : ptree) : list (str * option marker) :=
  match t with
  | PLeaf _ r p => [(r, p)]
  | PNode _ p [] => [([], p)]
  | PNode _ _ ch => flat_map pleaves ch
  end.

(** the property on leaves: each leaf's working location is the one computed from the text
    before it *)
Fixpoint leaves_ok (ls : list (str * option marker)) (lc : N * N) : bool :=
  match ls with
  | [] => true
  | (r, p) :: ls' => wpos_is p (fst lc) (snd lc) && leaves_ok ls' (linecol_from lc r)
  end.

(** --- the position bookkeeping of [ErasedSegment::apply_fixes] (base.rs 707-810).  Which
    segments a batch of fixes deletes, replaces or creates is the rules' business: it is an
    oracle [edit] (None = no child of this node is anchored).  What is modelled is the
    sandwich around it: edit the child list, [position_segments] if something was edited, recurse
    into every child, [position_segments] again, rebuild the node with its own marker. *)
Fixpoint all_some {A} (l : list (option A)) : option (list A) :=
  match l with
  | [] => Some []
  | None :: _ => None
  | Some x :: l' => option_map (cons x) (all_some l')
  end.

Section ApplyFixes.
  Variable nls : list N.
  Variable no_fixes_left : N -> bool.                         (* [fixes.is_empty()] on entry *)
  Variable edit : N -> list ptree -> option (list ptree).

  Fixpoint apply_fixes (fuel : nat) (t : ptree) : option ptree :=
    match fuel with
    | O => None
    | S f =>
        match t with
        | PLeaf _ _ _ => Some t
        | PNode i p ch =>
            if is_empty ch || no_fixes_left i then Some t
            else
              match p with
              | None => None                                   (* get_position_marker().unwrap() *)
              | Some pm =>
                  match (match edit i ch with
                         | Some buf => position_segments nls buf pm
                         | None => Some ch
                         end) with
                  | None => None
                  | Some b1 =>
                      match all_some (map (apply_fixes f) b1) with
                      | None => None
                      | Some b2 =>
                          match position_segments nls b2 pm with
                          | None => None
                          | Some b3 => Some (PNode i (Some pm) b3)
                          end
                      end
                  end
              end
        end
    end.
End ApplyFixes.

(** a segment that is consistent at its own marker *)
Definition scb (t : ptree) : bool :=
  match pos_of t with Some m => wokb t (m_wl m) (m_wp m) | None => false end.
