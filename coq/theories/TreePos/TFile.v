(** Model of the part of [TemplatedFileInner::new] (templaters/base.rs 117-245) the positions of
    C12 depend on: a templated file keeps two precomputed newline tables, one for the *source*
    text and one for the *templated* text (they differ as soon as a templater changes the text),
    and [get_line_pos_of_char_pos(char_pos, source)] searches the one selected by [source].
    [PositionMarker::new] (markers.rs 70-107) takes the working line / position of a marker from
    the *templated* table at the templated start; [source_position] / [templated_position] look
    the respective start up in the respective table. *)
From Sq Require Export Base.Bytes TreePos.Model.

Record tfile := mkTF { tf_source_nls : list N; tf_templated_nls : list N }.

(** [iter_indices_of_newlines(source_str)], [iter_indices_of_newlines(templated_str)] *)
Definition tf_new (source templated : str) : tfile := mkTF (nl_offsets source) (nl_offsets templated).

Definition tf_line_pos (tf : tfile) (p : N) (source : bool) : N * N :=
  line_pos_of (if source then tf_source_nls tf else tf_templated_nls tf) p.

(** [PositionMarker::new(source_slice, templated_slice, file, None, None)] *)
Definition marker_new (tf : tfile) (ss se ts te : N) : marker :=
  let lp := tf_line_pos tf ts false in mkM ss se ts te (fst lp) (snd lp).
Definition source_position (tf : tfile) (m : marker) : N * N := tf_line_pos tf (m_ss m) true.
Definition templated_position (tf : tfile) (m : marker) : N * N := tf_line_pos tf (m_ts m) false.

