(** Proofs about the templated-file model (TreePos/TFile.v). *)
From Sq Require Import Base.Bytes TreePos.Model TreePos.Proofs.
From Sq Require Export TreePos.TFile.

(** The line/column looked up in a templated file is the one computed from the text the flag
    selects: the templated text for [source = false], whatever the source text is. *)
Theorem tf_line_pos_spec source templated p (src : bool) :
  p <= N.of_nat (length (if src then source else templated)) ->
  tf_line_pos (tf_new source templated) p src
  = linecol_from (1, 1) (firstn (N.to_nat p) (if src then source else templated)).
Proof.
  intros Hp. unfold tf_line_pos, tf_new; cbn [tf_source_nls tf_templated_nls].
  destruct src; now apply line_pos_of_spec.
Qed.

(** A fresh marker sits at the line/column of its templated start in the templated text, and its
    source / templated positions are those of its starts in the respective texts. *)
Theorem marker_new_spec source templated ss se ts te :
  ss <= N.of_nat (length source) -> ts <= N.of_nat (length templated) ->
  let m := marker_new (tf_new source templated) ss se ts te in
  (m_wl m, m_wp m) = linecol_from (1, 1) (firstn (N.to_nat ts) templated) /\
  templated_position (tf_new source templated) m = linecol_from (1, 1) (firstn (N.to_nat ts) templated) /\
  source_position (tf_new source templated) m = linecol_from (1, 1) (firstn (N.to_nat ss) source).
Proof.
  intros Hs Ht m. unfold m, marker_new, templated_position, source_position; cbn [m_wl m_wp m_ss m_ts].
  rewrite <- surjective_pairing.
  repeat split.
  - now apply (tf_line_pos_spec source templated ts false).
  - now apply (tf_line_pos_spec source templated ts false).
  - now apply (tf_line_pos_spec source templated ss true).
Qed.

(** non-vacuity: source "a :x\nb" (newline at 4), templated "a 1\n2\nb" (newlines at 3 and 5):
    byte 6 ('b') of the templated text is (3, 1); the same offset in the source table would be (2, 2). *)
Example ex_tf :
  let tf := tf_new [97; 32; 58; 120; 10; 98] [97; 32; 49; 10; 50; 10; 98] in
  tf_line_pos tf 6 false = (3, 1) /\ tf_line_pos tf 6 true = (2, 2) /\
  marker_new tf 5 6 6 7 = mkM 5 6 6 7 3 1 /\ source_position tf (marker_new tf 5 6 6 7) = (2, 1).
Proof. vm_compute. repeat split. Qed.
