(** C17 with C04: a tree on which no rule has a fix is written back byte-identical. *)
From Sq Require Import Patch.Model Patch.Proofs Fix.Model Fix.Proofs.

Lemma clean_bytes : forall (K R F : Type) (key : seg -> K) (key_eqb : K -> K -> bool)
    (crawl : R -> seg -> option F) (apply : seg -> F -> seg) (rule_phase : R -> phase)
    (fix_compat : R -> bool) (rules : list R) (tf : tfile) (t0 : seg),
  (forall r, In r rules -> crawl r t0 = None) ->
  unchanged tf t0 = true -> root_sfx t0 = [] ->
  fixed_text tf (final seg K R F key key_eqb crawl apply rule_phase fix_compat rules t0) = src tf.
Proof.
  intros K R F key key_eqb crawl apply rule_phase fix_compat rules tf t0 H U S.
  destruct (clean_is_untouched seg K R F key key_eqb crawl apply rule_phase fix_compat rules t0 H) as [E _].
  rewrite E. apply fixed_text_unchanged; assumption.
Qed.
