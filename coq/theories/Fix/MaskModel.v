(** The mask step of the fix loop of [Linter::lint_fix_parsed] (crates/lib/src/core/linter/core.rs):
    every result of [Rule::crawl] goes through the file's [IgnoreMask] (the noqa directives, computed once from
    the initial tree) *before* anything is done with it; what survives is what the first pass reports
    ([initial_linting_errors], i.e. what lint shows) and it is also the only source of the fixes the loop applies.
    This refines the [crawl] oracle of Model.v: [crawl r t] = the fixes of the unmasked results of rule [r] on [t].
    Rule bodies ([crawl_raw]) and [IgnoreMask::is_masked] ([masked]) stay oracles. Definitions only. *)
From Sq Require Import Fix.Model.

Section Mask.
  Variables T R E X : Type.
  (** [Rule::crawl]: the results (SQLLintError) of rule [r] on tree [t] *)
  Variable crawl_raw : R -> T -> list E.
  (** [ignore_mask.is_masked(error)] *)
  Variable masked : E -> bool.
  (** [error.fixes] *)
  Variable fixes_of : E -> list X.
  Variable rules : list R.

  (** [linting_errors.into_iter().filter(|e| !ignore_mask.is_masked(e))] *)
  Definition kept (r : R) (t : T) : list E := filter (fun e => negb (masked e)) (crawl_raw r t).

  (** [fixes = linting_errors.flat_map(|e| e.fixes)]; the loop acts only [if !fixes.is_empty()] *)
  Definition batch_of (es : list E) : option (list X) :=
    match flat_map fixes_of es with [] => None | l => Some l end.

  (** the [crawl] oracle of the loop model, as the code computes it *)
  Definition crawl_m (r : R) (t : T) : option (list X) := batch_of (kept r t).

  (** what the first pass reports ([initial_linting_errors.extend(linting_errors)] for every rule, all rules running
      in the first pass): the violations lint shows for the file *)
  Definition report (t : T) : list (R * E) := flat_map (fun r => map (fun e => (r, e)) (kept r t)) rules.

  (** the rule whose batch is the first one of a fix run *)
  Definition has_batch (r : R) (t : T) : bool := match crawl_m r t with Some _ => true | None => false end.
  Definition first_fixing (t : T) : option R := find (fun r => has_batch r t) rules.

  (** the variant in which the mask only filters what is reported while the fixes are collected from all results
      (refuted below: a file lint reports nothing on is rewritten) *)
  Definition crawl_unmasked (r : R) (t : T) : option (list X) := batch_of (crawl_raw r t).
End Mask.
