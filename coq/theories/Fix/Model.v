(** Executable model of the fix loop of [Linter::lint_fix_parsed] with [fix = true]
    (crates/lib/src/core/linter/core.rs): phases Main then Post, at most 10 / 2 passes, the rule set
    of a pass, the skip of rules that are not fix compatible after the first pass, the
    [previous_versions] guard, the [changed] flag and the exit of a phase.
    Rule crawls (with the noqa mask already applied) and [apply_fixes] are oracles: parameters of
    the model. Definitions only; proofs are in Proofs.v. *)
From Coq Require Export List NArith Bool Lia.
Export ListNotations.
Open Scope N_scope.

Inductive phase := Main | Post.
Definition phase_eqb (a b : phase) : bool :=
  match a, b with Main, Main | Post, Post => true | _, _ => false end.
Inductive exit_reason := NoChange | Limit.

Section Loop.
  Variables T K R F : Type.
  (** the loop-check tuple (raw, source fixes) of a tree and its equality *)
  Variable key : T -> K.
  Variable key_eqb : K -> K -> bool.
  (** [crawl r t] = the non-empty list of fixes of rule [r]'s unmasked results on [t], if any *)
  Variable crawl : R -> T -> option F.
  (** [compute_anchor_edit_info] + [apply_fixes] *)
  Variable apply : T -> F -> T.
  Variable rule_phase : R -> phase.
  Variable fix_compat : R -> bool.
  Variable rules : list R.

  Inductive event :=
  | Batch (ph : phase) (pass : N) (r : R) (accepted : bool)
  | PassEnd (ph : phase) (pass : N) (changed : bool).

  Record st := mkSt { tree : T; seen : list K; changed : bool; log : list event }.

  Fixpoint mem_key (k : K) (l : list K) : bool :=
    match l with [] => false | x :: l' => key_eqb k x || mem_key k l' end.

  (** one rule of one pass *)
  Definition rule_step (first : bool) (ph : phase) (pass : N) (s : st) (r : R) : st :=
    if negb first && negb (fix_compat r) then s
    else match crawl r (tree s) with
         | None => s
         | Some f =>
             let nt := apply (tree s) f in
             if mem_key (key nt) (seen s)
             then mkSt (tree s) (seen s) (changed s) (log s ++ [Batch ph pass r false])
             else mkSt nt (key nt :: seen s) true (log s ++ [Batch ph pass r true])
         end.

  (** the rules of a pass: the first pass of Main switches to ALL rules and the assignment
      persists for the rest of the Main phase; Post runs the Post rules only *)
  Definition rules_of (ph : phase) : list R :=
    match ph with
    | Main => rules
    | Post => filter (fun r => phase_eqb (rule_phase r) Post) rules
    end.

  Definition is_first (ph : phase) (pass : N) : bool := phase_eqb ph Main && (pass =? 0).

  Definition run_pass (ph : phase) (pass : N) (s : st) : st :=
    let s1 := fold_left (rule_step (is_first ph pass) ph pass) (rules_of ph)
                        (mkSt (tree s) (seen s) false (log s)) in
    mkSt (tree s1) (seen s1) (changed s1) (log s1 ++ [PassEnd ph pass (changed s1)]).

  (** [for loop_ in 0..limit { ...; if !changed { break } }] *)
  Fixpoint phase_loop (ph : phase) (fuel : nat) (pass : N) (s : st) : st * exit_reason :=
    match fuel with
    | O => (s, Limit)
    | S fuel' =>
        let s1 := run_pass ph pass s in
        if changed s1 then phase_loop ph fuel' (pass + 1) s1 else (s1, NoChange)
    end.

  Definition init (t0 : T) : st := mkSt t0 [key t0] false [].

  Definition run (t0 : T) : st * exit_reason * exit_reason :=
    let '(s1, e1) := phase_loop Main 10 0 (init t0) in
    let '(s2, e2) := phase_loop Post 2 0 s1 in
    (s2, e1, e2).

  Definition final (t0 : T) : T := tree (fst (fst (run t0))).
End Loop.
