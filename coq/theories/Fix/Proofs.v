(** Proofs about the fix loop model (Model.v). *)
From Sq Require Import Fix.Model.

Section LoopProofs.
  Variables T K R F : Type.
  Variable key : T -> K.
  Variable key_eqb : K -> K -> bool.
  Variable crawl : R -> T -> option F.
  Variable apply : T -> F -> T.
  Variable rule_phase : R -> phase.
  Variable fix_compat : R -> bool.
  Variable rules : list R.

  Notation st := (st T K R).
  Notation rule_step := (rule_step T K R F key key_eqb crawl apply fix_compat).
  Notation rules_of := (rules_of R rule_phase rules).
  Notation run_pass := (run_pass T K R F key key_eqb crawl apply rule_phase fix_compat rules).
  Notation phase_loop := (phase_loop T K R F key key_eqb crawl apply rule_phase fix_compat rules).
  Notation run := (run T K R F key key_eqb crawl apply rule_phase fix_compat rules).
  Notation final := (final T K R F key key_eqb crawl apply rule_phase fix_compat rules).
  Notation mem_key := (mem_key K key_eqb).

  Lemma rules_of_incl : forall ph r, In r (rules_of ph) -> In r rules.
  Proof. intros [|] r H; cbn [Model.rules_of] in H; [exact H | apply filter_In in H; apply H]. Qed.

  (** * Clean input: no rule has a fix on the initial tree *)
  Lemma rule_step_nofix : forall first ph pass (s : st) r,
    crawl r (tree _ _ _ s) = None -> rule_step first ph pass s r = s.
  Proof.
    intros first ph pass s r H. unfold Model.rule_step.
    destruct (negb first && negb (fix_compat r)); [reflexivity|]. rewrite H. reflexivity.
  Qed.

  Lemma fold_nofix : forall first ph pass rs (s : st),
    (forall r, In r rs -> crawl r (tree _ _ _ s) = None) ->
    fold_left (rule_step first ph pass) rs s = s.
  Proof.
    intros first ph pass. induction rs as [|r rs IH]; intros s H; cbn [fold_left]; [reflexivity|].
    rewrite rule_step_nofix by (apply H; left; reflexivity).
    apply IH. intros r' Hr'. apply H. right. exact Hr'.
  Qed.

  Lemma run_pass_clean : forall ph pass (s : st),
    (forall r, In r rules -> crawl r (tree _ _ _ s) = None) ->
    tree _ _ _ (run_pass ph pass s) = tree _ _ _ s /\
    seen _ _ _ (run_pass ph pass s) = seen _ _ _ s /\
    changed _ _ _ (run_pass ph pass s) = false.
  Proof.
    intros ph pass s H. unfold Model.run_pass. rewrite fold_nofix.
    - cbn. auto.
    - cbn [tree]. intros r Hr. apply H. apply (rules_of_incl ph). exact Hr.
  Qed.

  Lemma phase_loop_clean : forall ph n pass (s : st),
    (forall r, In r rules -> crawl r (tree _ _ _ s) = None) ->
    phase_loop ph (S n) pass s = (run_pass ph pass s, NoChange).
  Proof.
    intros ph n pass s H. cbn [Model.phase_loop].
    destruct (run_pass_clean ph pass s H) as [_ [_ Hc]]. rewrite Hc. reflexivity.
  Qed.

  Theorem clean_is_untouched : forall t0,
    (forall r, In r rules -> crawl r t0 = None) ->
    final t0 = t0 /\ snd (fst (run t0)) = NoChange /\ snd (run t0) = NoChange.
  Proof.
    intros t0 H. unfold Model.final, Model.run.
    rewrite phase_loop_clean by exact H.
    destruct (run_pass_clean Main 0 (init T K R key t0) H) as [Ht [_ _]].
    assert (H1 : forall r, In r rules -> crawl r (tree _ _ _ (run_pass Main 0 (init T K R key t0))) = None).
    { rewrite Ht. exact H. }
    rewrite phase_loop_clean by exact H1.
    destruct (run_pass_clean Post 0 _ H1) as [Ht2 _].
    cbn [fst snd]. rewrite Ht2, Ht. cbn. auto.
  Qed.

  (** * A phase that ends because a pass changed nothing ends on a fixed point *)
  Definition eligible (first : bool) (r : R) : bool := first || fix_compat r.
  (** rule [r] has nothing left to do on [t]: no fix, or a fix whose result was already seen *)
  Definition settled (t : T) (sn : list K) (r : R) : Prop :=
    crawl r t = None \/ exists f, crawl r t = Some f /\ mem_key (key (apply t f)) sn = true.

  Lemma rule_step_changed_mono : forall first ph pass (s : st) r,
    changed _ _ _ s = true -> changed _ _ _ (rule_step first ph pass s r) = true.
  Proof.
    intros first ph pass s r H. unfold Model.rule_step.
    destruct (negb first && negb (fix_compat r)); [exact H|].
    destruct (crawl r (tree _ _ _ s)); [|exact H].
    destruct (mem_key _ _); cbn; [exact H | reflexivity].
  Qed.
  Lemma fold_changed_mono : forall first ph pass rs (s : st),
    changed _ _ _ s = true -> changed _ _ _ (fold_left (rule_step first ph pass) rs s) = true.
  Proof.
    intros first ph pass. induction rs as [|r rs IH]; intros s H; cbn [fold_left]; [exact H|].
    apply IH. apply rule_step_changed_mono. exact H.
  Qed.

  Lemma rule_step_unchanged : forall first ph pass (s : st) r,
    changed _ _ _ (rule_step first ph pass s r) = false ->
    tree _ _ _ (rule_step first ph pass s r) = tree _ _ _ s /\
    seen _ _ _ (rule_step first ph pass s r) = seen _ _ _ s /\
    (eligible first r = true -> settled (tree _ _ _ s) (seen _ _ _ s) r).
  Proof.
    intros first ph pass s r. unfold Model.rule_step.
    destruct (negb first && negb (fix_compat r)) eqn:El.
    - intros _. split; [reflexivity|]. split; [reflexivity|]. intro He. unfold eligible in He.
      apply andb_true_iff in El. destruct El as [E1 E2]. apply negb_true_iff in E1, E2.
      rewrite E1, E2 in He. discriminate.
    - destruct (crawl r (tree _ _ _ s)) as [f|] eqn:Ec.
      + destruct (mem_key (key (apply (tree _ _ _ s) f)) (seen _ _ _ s)) eqn:Em; cbn [tree seen changed].
        * intros _. split; [reflexivity|]. split; [reflexivity|]. intros _. right. exists f. split; assumption.
        * discriminate.
      + intros _. split; [reflexivity|]. split; [reflexivity|]. intros _. left. exact Ec.
  Qed.

  Lemma fold_unchanged : forall first ph pass rs (s : st),
    changed _ _ _ (fold_left (rule_step first ph pass) rs s) = false ->
    tree _ _ _ (fold_left (rule_step first ph pass) rs s) = tree _ _ _ s /\
    seen _ _ _ (fold_left (rule_step first ph pass) rs s) = seen _ _ _ s /\
    forall r, In r rs -> eligible first r = true -> settled (tree _ _ _ s) (seen _ _ _ s) r.
  Proof.
    intros first ph pass. induction rs as [|r rs IH]; intros s H; cbn [fold_left] in *.
    - split; [reflexivity|]. split; [reflexivity|]. intros ? [].
    - destruct (IH _ H) as [Ht [Hs Hall]].
      assert (Hc : changed _ _ _ (rule_step first ph pass s r) = false).
      { destruct (changed _ _ _ (rule_step first ph pass s r)) eqn:E; [|reflexivity].
        rewrite (fold_changed_mono first ph pass rs _ E) in H. discriminate. }
      destruct (rule_step_unchanged first ph pass s r Hc) as [Ht1 [Hs1 Hr1]].
      rewrite Ht1 in Ht, Hall. rewrite Hs1 in Hs, Hall.
      split; [exact Ht|]. split; [exact Hs|].
      intros r' [Hr'|Hr'] He; [subst r'; apply Hr1; exact He | apply Hall; assumption].
  Qed.

  Theorem exit_nochange_is_fixpoint : forall ph fuel pass (s s' : st),
    phase_loop ph fuel pass s = (s', NoChange) ->
    exists pass', forall r, In r (rules_of ph) -> eligible (is_first ph pass') r = true ->
      settled (tree _ _ _ s') (seen _ _ _ s') r.
  Proof.
    intros ph. induction fuel as [|fuel IH]; intros pass s s' H; cbn [Model.phase_loop] in H; [discriminate|].
    destruct (changed _ _ _ (run_pass ph pass s)) eqn:Ec.
    - apply (IH _ _ _ H).
    - inversion H; subst s'. exists pass. unfold Model.run_pass in *. cbn [tree seen changed] in *.
      destruct (fold_unchanged _ _ _ _ _ Ec) as [Ht [Hs Hall]]. cbn [tree seen] in *.
      rewrite Ht, Hs. exact Hall.
  Qed.

  (** When both phases end by NoChange without any guard rejection and the Post phase left the tree
      of the Main phase alone, no fix-compatible rule has a fix left on the final tree (H_converged
      of the idempotence theorem, for fix-compatible rules). *)
  Lemma converged_from_exits : forall fm pm (sm sm' : st) fp pp (sp' : st),
    phase_loop Main fm pm sm = (sm', NoChange) ->
    phase_loop Post fp pp sm' = (sp', NoChange) ->
    tree _ _ _ sp' = tree _ _ _ sm' ->
    (forall r f, crawl r (tree _ _ _ sm') = Some f -> mem_key (key (apply (tree _ _ _ sm') f)) (seen _ _ _ sm') = false) ->
    forall r, In r rules -> fix_compat r = true -> crawl r (tree _ _ _ sp') = None.
  Proof.
    intros fm pm sm sm' fp pp sp' Hm Hp Ht Hguard r Hr Hf.
    destruct (exit_nochange_is_fixpoint Main fm pm sm sm' Hm) as [pass' H].
    rewrite Ht. destruct (H r Hr) as [Hn|[f [Hc Hk]]].
    - unfold eligible. rewrite Hf. apply orb_true_r.
    - exact Hn.
    - rewrite (Hguard r f Hc) in Hk. discriminate.
  Qed.

  (** * Idempotence of fix from three explicit hypotheses *)
  Section Idem.
    Variable text : Type.
    Variable parse : text -> T.
    Variable raw : T -> text.
    Definition fix_text (x : text) : text := raw (final (parse x)).

    Theorem idempotent_decomposition : forall x,
      let t := final (parse x) in
      (* H_reparse (with H_det): the rules see on the re-parsed fixed text what they saw on the final tree *)
      (forall r, In r rules -> crawl r (parse (raw t)) = crawl r t) ->
      (* H_converged: no rule has a fix left on the final tree *)
      (forall r, In r rules -> crawl r t = None) ->
      (* lossless parse of the fixed text (C01/C02) *)
      raw (parse (raw t)) = raw t ->
      fix_text (fix_text x) = fix_text x.
    Proof.
      intros x t Hre Hconv Hlossless. unfold fix_text. fold t.
      destruct (clean_is_untouched (parse (raw t))) as [Hf _].
      - intros r Hr. rewrite Hre by exact Hr. apply Hconv. exact Hr.
      - rewrite Hf. exact Hlossless.
    Qed.
  End Idem.
End LoopProofs.

(** * Non-vacuity: a concrete instance (trees are numbers; rule 0 (Main) increments up to 3,
    rule 1 (Post, fix compatible) turns 3 into 10, rule 2 reports without fixes) *)
Definition ex_crawl (r t : N) : option N :=
  if r =? 0 then (if t <? 3 then Some (t + 1) else None)
  else if r =? 1 then (if t =? 3 then Some 10 else None) else None.
Definition ex_phase (r : N) : phase := if r =? 1 then Post else Main.
Definition ex_run := run N N N N (fun t => t) N.eqb ex_crawl (fun _ f => f) ex_phase (fun r => negb (r =? 2)) [0; 1; 2].
Example ex_loop_runs :
  tree _ _ _ (fst (fst (ex_run 0))) = 10 /\ snd (fst (ex_run 0)) = NoChange /\ snd (ex_run 0) = NoChange.
Proof. vm_compute. auto. Qed.
Example ex_clean : (forall r, In r [0; 1; 2] -> ex_crawl r 5 = None) /\
  final N N N N (fun t => t) N.eqb ex_crawl (fun _ f => f) ex_phase (fun r => negb (r =? 2)) [0; 1; 2] 5 = 5.
Proof.
  split; [|reflexivity]. intros r Hr. cbn in Hr.
  repeat (destruct Hr as [Hr|Hr]; [subst r; reflexivity|]). destruct Hr.
Qed.
(* the previous_versions guard: a rule that flips 0 <-> 1 is stopped when it would return to 0 *)
Example ex_guard :
  let r := run N N N N (fun t => t) N.eqb (fun _ t => Some (1 - t)) (fun _ f => f) (fun _ => Main) (fun _ => true) [0] 0 in
  tree _ _ _ (fst (fst r)) = 1 /\ snd (fst r) = NoChange.
Proof. vm_compute. auto. Qed.
