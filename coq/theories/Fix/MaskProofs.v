(** Proofs about the mask step (MaskModel.v) composed with the loop (Model.v). *)
From Sq Require Import Fix.Model Fix.Proofs Fix.MaskModel.

Section MaskProofs.
  Variables T K R E X : Type.
  Variable key : T -> K.
  Variable key_eqb : K -> K -> bool.
  Variable crawl_raw : R -> T -> list E.
  Variable masked : E -> bool.
  Variable fixes_of : E -> list X.
  Variable apply : T -> list X -> T.
  Variable rule_phase : R -> phase.
  Variable fix_compat : R -> bool.
  Variable rules : list R.

  Notation kept := (kept T R E crawl_raw masked).
  Notation crawl_m := (crawl_m T R E X crawl_raw masked fixes_of).
  Notation report := (report T R E crawl_raw masked rules).
  Notation has_batch := (has_batch T R E X crawl_raw masked fixes_of).
  Notation first_fixing := (first_fixing T R E X crawl_raw masked fixes_of rules).
  Notation st := (st T K R).
  Notation rule_step := (rule_step T K R (list X) key key_eqb crawl_m apply fix_compat).
  Notation run_pass := (run_pass T K R (list X) key key_eqb crawl_m apply rule_phase fix_compat rules).
  Notation phase_loop := (phase_loop T K R (list X) key key_eqb crawl_m apply rule_phase fix_compat rules).
  Notation run := (run T K R (list X) key key_eqb crawl_m apply rule_phase fix_compat rules).
  Notation final := (final T K R (list X) key key_eqb crawl_m apply rule_phase fix_compat rules).

  Lemma report_nil_kept : forall t r, report t = [] -> In r rules -> kept r t = [].
  Proof.
    intros t r. unfold MaskModel.report. induction rules as [|r0 rs IH]; cbn [flat_map In]; [tauto|].
    intros H [->|Hr].
    - apply app_eq_nil in H. destruct H as [H _]. destruct (kept r t); [reflexivity | discriminate H].
    - apply app_eq_nil in H. destruct H as [_ H]. exact (IH H Hr).
  Qed.

  Lemma report_nil_no_batch : forall t r, report t = [] -> In r rules -> crawl_m r t = None.
  Proof.
    intros t r H Hr. unfold MaskModel.crawl_m. rewrite (report_nil_kept t r H Hr). reflexivity.
  Qed.

  (** Clause 1 of C17 on the loop with the mask inside: lint reports nothing on the file (whatever the reason:
      no rule has a result, or every result is silenced by a noqa directive) => fix returns the initial tree. *)
  Theorem lint_clean_is_untouched : forall t0,
    report t0 = [] ->
    final t0 = t0 /\ snd (fst (run t0)) = NoChange /\ snd (run t0) = NoChange.
  Proof.
    intros t0 H. apply clean_is_untouched. intros r Hr. exact (report_nil_no_batch t0 r H Hr).
  Qed.

  (** a batch comes from a reported violation that carries a fix *)
  Lemma batch_is_reported : forall t r f, In r rules -> crawl_m r t = Some f ->
    exists e, In (r, e) (report t) /\ fixes_of e <> [].
  Proof.
    intros t r f Hr Hc. unfold MaskModel.crawl_m, MaskModel.batch_of in Hc.
    assert (Hex : exists e, In e (kept r t) /\ fixes_of e <> []).
    { induction (kept r t) as [|e es IH]; cbn [flat_map] in Hc; [discriminate Hc|].
      destruct (fixes_of e) eqn:He.
      - cbn [app] in Hc. destruct (IH Hc) as [e' [Hin Hne]]. exists e'. split; [right; exact Hin | exact Hne].
      - exists e. split; [left; reflexivity | rewrite He; discriminate]. }
    destruct Hex as [e [Hin Hne]]. exists e. split; [|exact Hne].
    unfold MaskModel.report. apply in_flat_map. exists r. split; [exact Hr|].
    apply in_map_iff. exists e. split; [reflexivity | exact Hin].
  Qed.

  (** * The first event of a fix run *)
  Lemma rule_step_log : forall first ph pass (s : st) r,
    exists l, log _ _ _ (rule_step first ph pass s r) = log _ _ _ s ++ l.
  Proof.
    intros first ph pass s r. unfold Model.rule_step.
    destruct (negb first && negb (fix_compat r)); [exists []; rewrite app_nil_r; reflexivity|].
    destruct (crawl_m r (tree _ _ _ s)); [|exists []; rewrite app_nil_r; reflexivity].
    destruct (mem_key K key_eqb _ _); cbn [log]; eexists; reflexivity.
  Qed.

  Lemma fold_log : forall first ph pass rs (s : st),
    exists l, log _ _ _ (fold_left (rule_step first ph pass) rs s) = log _ _ _ s ++ l.
  Proof.
    intros first ph pass. induction rs as [|r rs IH]; intros s; cbn [fold_left].
    - exists []. rewrite app_nil_r. reflexivity.
    - destruct (IH (rule_step first ph pass s r)) as [l Hl]. destruct (rule_step_log first ph pass s r) as [l0 Hl0].
      exists (l0 ++ l). rewrite Hl, Hl0, app_assoc. reflexivity.
  Qed.

  Lemma run_pass_log : forall ph pass (s : st),
    exists l, log _ _ _ (run_pass ph pass s) = log _ _ _ s ++ l.
  Proof.
    intros ph pass s. unfold Model.run_pass.
    destruct (fold_log (is_first ph pass) ph pass (rules_of R rule_phase rules ph)
                (mkSt T K R (tree _ _ _ s) (seen _ _ _ s) false (log _ _ _ s))) as [l Hl].
    cbn [log] in *. rewrite Hl. eexists. rewrite <- app_assoc. reflexivity.
  Qed.

  Lemma phase_loop_log : forall ph fuel pass (s : st),
    exists l, log _ _ _ (fst (phase_loop ph fuel pass s)) = log _ _ _ s ++ l.
  Proof.
    intros ph. induction fuel as [|n IH]; intros pass s; cbn [Model.phase_loop].
    - exists []. cbn [fst]. rewrite app_nil_r. reflexivity.
    - destruct (run_pass_log ph pass s) as [l1 H1].
      destruct (changed _ _ _ (run_pass ph pass s)).
      + destruct (IH (pass + 1) (run_pass ph pass s)) as [l2 H2]. exists (l1 ++ l2). rewrite H2, H1, app_assoc. reflexivity.
      + exists l1. cbn [fst]. exact H1.
  Qed.

  Lemma phase_loop_first : forall ph n pass (s : st),
    exists l, log _ _ _ (fst (phase_loop ph (S n) pass s)) = log _ _ _ (run_pass ph pass s) ++ l.
  Proof.
    intros ph n pass s. cbn [Model.phase_loop].
    destruct (changed _ _ _ (run_pass ph pass s)).
    - exact (phase_loop_log ph n (pass + 1) (run_pass ph pass s)).
    - exists []. cbn [fst]. rewrite app_nil_r. reflexivity.
  Qed.

  (** the first pass over a prefix of rules without a batch leaves the initial state alone; the first rule with a
      batch writes the first event *)
  Lemma fold_first_event : forall rs (s : st),
    log _ _ _ s = [] ->
    match find (fun r => has_batch r (tree _ _ _ s)) rs with
    | None => fold_left (rule_step true Main 0) rs s = s
    | Some r => exists acc l, log _ _ _ (fold_left (rule_step true Main 0) rs s) = Batch R Main 0 r acc :: l
    end.
  Proof.
    induction rs as [|r rs IH]; intros s Hs; cbn [find fold_left]; [reflexivity|].
    unfold MaskModel.has_batch at 1. destruct (crawl_m r (tree _ _ _ s)) as [f|] eqn:Hc.
    - assert (Hstep : exists acc, log _ _ _ (rule_step true Main 0 s r) = [Batch R Main 0 r acc]).
      { unfold Model.rule_step. cbn [negb andb]. rewrite Hc.
        destruct (mem_key K key_eqb _ _); cbn [log]; rewrite Hs; eexists; reflexivity. }
      destruct Hstep as [acc Hacc].
      destruct (fold_log true Main 0 rs (rule_step true Main 0 s r)) as [l Hl]. rewrite Hacc in Hl.
      exists acc, l. exact Hl.
    - assert (Hstep : rule_step true Main 0 s r = s).
      { unfold Model.rule_step. cbn [negb andb]. rewrite Hc. reflexivity. }
      rewrite Hstep. exact (IH s Hs).
  Qed.

  Definition first_event (t0 : T) : option (event R) := hd_error (log _ _ _ (fst (fst (run t0)))).

  (** The first event of a fix run is a batch of rule [r] exactly when [r] is the first rule (registry order) with an
      unmasked result that carries a fix on the initial tree. *)
  Theorem first_batch_rule : forall t0,
    match first_fixing t0 with
    | Some r => exists acc, first_event t0 = Some (Batch R Main 0 r acc)
    | None => first_event t0 = Some (PassEnd R Main 0 false)
    end.
  Proof.
    intros t0. unfold first_event, Model.run, MaskModel.first_fixing.
    destruct (phase_loop_first Main 9 0 (init T K R key t0)) as [l1 Hl1].
    destruct (phase_loop Main 10 0 (init T K R key t0)) as [s1 e1].
    destruct (phase_loop_log Post 2 0 s1) as [l2 Hl2].
    destruct (phase_loop Post 2 0 s1) as [s2 e2]. cbn [fst] in *. rewrite Hl2, Hl1.
    pose proof (fold_first_event (rules_of R rule_phase rules Main)
                  (mkSt T K R t0 [key t0] false []) eq_refl) as Hf.
    cbn [Model.rules_of tree] in Hf.
    unfold Model.run_pass, Model.init. cbn [Model.rules_of tree seen log is_first phase_eqb andb N.eqb].
    destruct (find (fun r => has_batch r t0) rules) as [r|].
    - destruct Hf as [acc [l Hl]]. exists acc. cbn [log]. rewrite Hl. reflexivity.
    - rewrite Hf. reflexivity.
  Qed.

  (** ... hence the rule of the first batch has a violation that lint reports *)
  Corollary first_batch_is_reported : forall t0 r acc,
    first_event t0 = Some (Batch R Main 0 r acc) ->
    exists e, In (r, e) (report t0) /\ fixes_of e <> [].
  Proof.
    intros t0 r acc H. pose proof (first_batch_rule t0) as Hf.
    destruct (first_fixing t0) as [r'|] eqn:Hff.
    - destruct Hf as [acc' Hf]. rewrite Hf in H. inversion H; subst.
      unfold MaskModel.first_fixing in Hff. apply find_some in Hff. destruct Hff as [Hin Hb].
      unfold MaskModel.has_batch in Hb. destruct (crawl_m r t0) as [f|] eqn:Hc; [|discriminate Hb].
      exact (batch_is_reported t0 r f Hin Hc).
    - rewrite Hf in H. discriminate H.
  Qed.
End MaskProofs.

(** The premise is satisfiable non-trivially: rule 0 has one result on tree 5, silenced by the mask and carrying a fix;
    lint reports nothing; the loop leaves tree 5 alone ... *)
Definition ex_raw (r t : N) : list (bool * N) := if (r =? 0) && (t =? 5) then [(true, 7)] else [].
Definition ex_fixes (e : bool * N) : list N := [snd e].
Definition ex_apply (t : N) (f : list N) : N := t + N.of_nat (length f).
Definition ex_final (crawl : N -> N -> option (list N)) : N -> N :=
  final N N N (list N) (fun t => t) N.eqb crawl ex_apply (fun _ => Main) (fun _ => true) [0; 1].
Example ex_masked_clean :
  report N N (bool * N) ex_raw fst [0; 1] 5 = [] /\
  ex_final (crawl_m N N (bool * N) N ex_raw fst ex_fixes) 5 = 5.
Proof. vm_compute. auto. Qed.

(** ... whereas the variant that takes the fixes from all results rewrites a file lint reports nothing on:
    the mask is needed on the fix side of the loop, not only on the reporting side. *)
Example unmasked_fixes_refuted :
  exists t0, report N N (bool * N) ex_raw fst [0; 1] t0 = [] /\
             ex_final (crawl_unmasked N N (bool * N) N ex_raw ex_fixes) t0 <> t0.
Proof. exists 5. split; [reflexivity | vm_compute; intro H; discriminate H]. Qed.

(** a run whose first event is a batch *)
Example ex_first_batch :
  first_fixing N N (bool * N) N (fun r t => if r =? 1 then [(false, 3)] else ex_raw r t) fst ex_fixes [0; 1] 5 = Some 1.
Proof. reflexivity. Qed.
