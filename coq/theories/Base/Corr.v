(** Scaffolding of the correspondence check: a generated [Cases_*.v] defines a list of
    [(id, args, expected)] and evaluates [mismatches check cases] with [vm_compute]. *)
From Sq Require Export Base.Bytes.

Definition mismatches {A B} (check : A -> B -> bool) (cases : list (N * A * B)) : list N :=
  map (fun c => fst (fst c)) (filter (fun c => negb (check (snd (fst c)) (snd c))) cases).
