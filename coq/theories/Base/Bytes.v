(** Byte strings as [list N] and the handful of [str] operations of Rust's
    standard library that the modelled kernels use, restricted to ASCII
    whitespace (the harness excludes non-ASCII inputs where that matters). *)
From Coq Require Export List NArith Bool Lia.
Export ListNotations.
Open Scope N_scope.

Definition str := list N.

Fixpoint str_eqb (a b : str) : bool :=
  match a, b with
  | [], [] => true
  | x :: a', y :: b' => (x =? y) && str_eqb a' b'
  | _, _ => false
  end.

Fixpoint list_eqb {A} (eqb : A -> A -> bool) (a b : list A) : bool :=
  match a, b with
  | [], [] => true
  | x :: a', y :: b' => eqb x y && list_eqb eqb a' b'
  | _, _ => false
  end.

Definition opt_eqb {A} (eqb : A -> A -> bool) (a b : option A) : bool :=
  match a, b with
  | None, None => true
  | Some x, Some y => eqb x y
  | _, _ => false
  end.

Definition pair_eqb {A B} (ea : A -> A -> bool) (eb : B -> B -> bool) (a b : A * B) : bool :=
  ea (fst a) (fst b) && eb (snd a) (snd b).

Fixpoint mem (c : str) (l : list str) : bool :=
  match l with [] => false | x :: l' => str_eqb c x || mem c l' end.

(** [char::is_whitespace] restricted to ASCII: U+0009..U+000D and U+0020. *)
Definition is_ws (b : N) : bool := ((9 <=? b) && (b <=? 13)) || (b =? 32).

Fixpoint trim_start (s : str) : str :=
  match s with
  | [] => []
  | b :: s' => if is_ws b then trim_start s' else s
  end.
Definition trim_end (s : str) : str := rev (trim_start (rev s)).
Definition trim (s : str) : str := trim_end (trim_start s).

Fixpoint strip_prefix (p s : str) : option str :=
  match p, s with
  | [], _ => Some s
  | x :: p', y :: s' => if x =? y then strip_prefix p' s' else None
  | _ :: _, [] => None
  end.
Definition starts_with (p s : str) : bool :=
  match strip_prefix p s with Some _ => true | None => false end.
Definition ends_with (p s : str) : bool := starts_with (rev p) (rev s).

(** [s.split(sep_byte)] : always at least one piece. *)
Fixpoint split_byte_aux (c : N) (s : str) (cur : str) : list str :=
  match s with
  | [] => [rev cur]
  | b :: s' => if b =? c then rev cur :: split_byte_aux c s' [] else split_byte_aux c s' (b :: cur)
  end.
Definition split_byte (c : N) (s : str) : list str := split_byte_aux c s [].

(** [s.split("--").last()] : the text after the last non-overlapping,
    left-to-right occurrence of "--" (the whole string if there is none). *)
Fixpoint after_last_dd_aux (s cur : str) : str :=
  match s with
  | [] => rev cur
  | b :: s' =>
      match s' with
      | b2 :: s'' =>
          if (b =? 45) && (b2 =? 45) then after_last_dd_aux s'' []
          else after_last_dd_aux s' (b :: cur)
      | [] => rev (b :: cur)
      end
  end.
Definition after_last_dd (s : str) : str := after_last_dd_aux s [].

Definition is_empty {A} (l : list A) : bool := match l with [] => true | _ => false end.

(** remove the last [n] elements *)
Definition drop_last {A} (n : nat) (l : list A) : list A := rev (skipn n (rev l)).
