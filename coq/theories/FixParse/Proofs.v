(** FixParse — C05 for layout and capitalisation selections follows from C06, C16 and C11. *)
From Sq Require Import Base.Bytes FixParse.Model.

Section Decomposition.
  Variable text : Type.
  Variable lex : text -> list (N * str).
  Variable fold : str -> str.
  Variable rule : Type.
  Variable step : rule -> text -> text.
  Variable parse_ok : text -> bool.
  Variable is_layout is_caps : rule -> bool.
  (** "the gaps the grammar is sensitive to are where they were" — C11's perturbation class *)
  Variable gaps_ok : text -> text -> Prop.

  Hypothesis gaps_refl : forall x, gaps_ok x x.
  Hypothesis gaps_trans : forall x y z, gaps_ok x y -> gaps_ok y z -> gaps_ok x z.

  (** C11: the parse verdict depends only on the case-folded code tokens and the gaps *)
  Hypothesis H_C11 : forall x y,
    skeleton text lex fold x = skeleton text lex fold y -> gaps_ok x y -> parse_ok x = true -> parse_ok y = true.
  (** C06, text level: a layout batch leaves the code tokens alone (and stays within C11's gaps) *)
  Hypothesis H_C06 : forall r x, is_layout r = true ->
    code_raws text lex (step r x) = code_raws text lex x /\ gaps_ok x (step r x).
  (** C16: a capitalisation batch changes code tokens at most in letter case, and no gap *)
  Hypothesis H_C16 : forall r x, is_caps r = true ->
    skeleton text lex fold (step r x) = skeleton text lex fold x /\ gaps_ok x (step r x).

  Lemma steps_invariant : forall rs x,
    Forall (fun r => is_layout r = true \/ is_caps r = true) rs ->
    skeleton text lex fold (run_steps text rule step rs x) = skeleton text lex fold x
    /\ gaps_ok x (run_steps text rule step rs x).
  Proof.
    induction rs as [|r rs IH]; intros x Hall; cbn.
    - split; [reflexivity | apply gaps_refl].
    - inversion Hall as [|? ? Hr Hrs]; subst.
      destruct (IH (step r x) Hrs) as [Es Eg].
      assert (skeleton text lex fold (step r x) = skeleton text lex fold x /\ gaps_ok x (step r x)) as [E1 G1].
      { destruct Hr as [Hl|Hc].
        - destruct (H_C06 r x Hl) as [Ec G]. split; [unfold skeleton; rewrite Ec; reflexivity | exact G].
        - exact (H_C16 r x Hc). }
      unfold run_steps in *. cbn in *.
      split; [congruence | eapply gaps_trans; eassumption].
  Qed.

  Theorem decomposition : forall rs x,
    Forall (fun r => is_layout r = true \/ is_caps r = true) rs ->
    parse_ok x = true -> parse_ok (run_steps text rule step rs x) = true.
  Proof.
    intros rs x Hall Hp. destruct (steps_invariant rs x Hall) as [Es Eg].
    apply (H_C11 x); [symmetry; exact Es | exact Eg | exact Hp].
  Qed.
End Decomposition.

(** Non-vacuity: an instance where every hypothesis holds and a step really changes the text.
    texts = token lists; lexing = identity; fold = upper-casing ASCII letters; the layout
    step rewrites every whitespace token to one space, the caps step upper-cases code;
    a text "parses" iff its folded code tokens are SELECT, A. *)
Definition up (b : N) : N := if (97 <=? b) && (b <=? 122) then b - 32 else b.
Definition ex_fold (s : str) : str := map up s.
Definition ex_text := list (N * str).
Definition ex_lex (x : ex_text) : list (N * str) := x.
Inductive ex_rule := RLayout | RCaps.
Definition ex_step (r : ex_rule) (x : ex_text) : ex_text :=
  match r with
  | RLayout => map (fun t => if N.eqb (fst t) 0 then t else (fst t, [32])) x
  | RCaps => map (fun t => if N.eqb (fst t) 0 then (fst t, ex_fold (snd t)) else t) x
  end.
Definition ex_gaps (x y : ex_text) : Prop := gap_pattern x false false = gap_pattern y false false.
Definition ex_parse_ok (x : ex_text) : bool :=
  list_eqb str_eqb (skeleton ex_text ex_lex ex_fold x) [[83;69;76;69;67;84]; [65]].
Definition ex_src : ex_text := [(0, [115;101;108;101;99;116]); (2, [32;32;10]); (0, [97])].

Lemma ex_up_idem : forall b, up (up b) = up b.
Proof.
  intro b. unfold up. destruct ((97 <=? b) && (b <=? 122)) eqn:E.
  - apply andb_true_iff in E. destruct E as [E1 E2]. apply N.leb_le in E1. apply N.leb_le in E2.
    assert ((97 <=? b - 32) = false) as F by (apply N.leb_gt; lia). rewrite F. reflexivity.
  - rewrite E. reflexivity.
Qed.

Lemma ex_layout_ok : forall x,
  code_raws ex_text ex_lex (ex_step RLayout x) = code_raws ex_text ex_lex x /\ ex_gaps x (ex_step RLayout x).
Proof.
  intro x. unfold code_raws, ex_lex, ex_gaps, ex_step. split.
  - induction x as [|[c r] x IH]; cbn; [reflexivity|].
    destruct (N.eqb c 0) eqn:E; cbn; rewrite E; cbn; [f_equal|]; exact IH.
  - generalize false at 1 3. generalize false.
    induction x as [|[c r] x IH]; intros p s; cbn; [reflexivity|].
    destruct (N.eqb c 0) eqn:E; cbn; rewrite E; [f_equal|]; apply IH.
Qed.

Lemma ex_caps_ok : forall x,
  skeleton ex_text ex_lex ex_fold (ex_step RCaps x) = skeleton ex_text ex_lex ex_fold x /\ ex_gaps x (ex_step RCaps x).
Proof.
  intro x. unfold skeleton, code_raws, ex_lex, ex_gaps, ex_step. split.
  - induction x as [|[c r] x IH]; cbn; [reflexivity|].
    destruct (N.eqb c 0) eqn:E; cbn; rewrite E; cbn; [|exact IH].
    f_equal; [|exact IH]. unfold ex_fold. rewrite map_map. apply map_ext. apply ex_up_idem.
  - generalize false at 1 3. generalize false.
    induction x as [|[c r] x IH]; intros p s; cbn; [reflexivity|].
    destruct (N.eqb c 0) eqn:E; cbn; rewrite E; [f_equal|]; apply IH.
Qed.

(** the theorem applied to the instance (every hypothesis discharged), on a run that changes the text *)
Example decomposition_instance :
  ex_parse_ok (run_steps ex_text ex_rule ex_step [RLayout; RCaps; RLayout] ex_src) = true
  /\ run_steps ex_text ex_rule ex_step [RLayout; RCaps; RLayout] ex_src <> ex_src.
Proof.
  split.
  - apply (decomposition ex_text ex_lex ex_fold ex_rule ex_step ex_parse_ok
             (fun r => match r with RLayout => true | RCaps => false end)
             (fun r => match r with RCaps => true | RLayout => false end) ex_gaps).
    + intro x. reflexivity.
    + intros x y z H1 H2. unfold ex_gaps in *. congruence.
    + intros x y Hs _ Hp. unfold ex_parse_ok in *. rewrite <- Hs. exact Hp.
    + intros r x Hr. destruct r; [apply ex_layout_ok | discriminate].
    + intros r x Hr. destruct r; [discriminate | apply ex_caps_ok].
    + constructor; [left; reflexivity|]. constructor; [right; reflexivity|].
      constructor; [left; reflexivity|]. constructor.
    + vm_compute. reflexivity.
  - vm_compute. discriminate.
Qed.
