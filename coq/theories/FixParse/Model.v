(** FixParse — the abstract setting of C05: texts, a lexer, a parser verdict, and a fix
    run as a sequence of text-level steps, one per applied batch of one rule.
    Definitions only. Nothing here models sqruff code: C05 has no enforcing mechanism in
    the code (the re-parse guard of the fix loop is [if false]); what can be stated is how
    it decomposes into other properties. *)
From Sq Require Import Base.Bytes.

Section Setting.
  Variable text : Type.
  (** lexer tokens: (class, raw), class 0 = code *)
  Variable lex : text -> list (N * str).
  (** case folding of a code token (keywords and unquoted identifiers compare case-insensitively) *)
  Variable fold : str -> str.
  (** one applied batch of rule [r] on a text *)
  Variable rule : Type.
  Variable step : rule -> text -> text.

  Definition code_raws (x : text) : list str :=
    map snd (filter (fun t => N.eqb (fst t) 0) (lex x)).
  (** the skeleton the parser sees: case-folded code tokens *)
  Definition skeleton (x : text) : list str := map fold (code_raws x).

  (** the text after the batches of rules [rs], in order *)
  Definition run_steps (rs : list rule) (x : text) : text := fold_left (fun t r => step r t) rs x.
End Setting.

(** A concrete gap relation for the non-vacuity example: which adjacent code tokens are
    separated by at least one non-code token. *)
Fixpoint gap_pattern (ts : list (N * str)) (seen_code pending : bool) : list bool :=
  match ts with
  | [] => []
  | (c, _) :: ts' =>
      if N.eqb c 0 then (if seen_code then [pending] else []) ++ gap_pattern ts' true false
      else gap_pattern ts' seen_code true
  end.
