(** Pruning transparency, part 3: the pruned interpreter agrees with the reference twin.

    [ext x y]: whenever the reference run [x] answers [ROk a], the pruned run [y] answers [ROk a].
    One congruence lemma per engine algorithm (style of [Pem.FuelMono]): the two runs differ in the
    token array ([strip toks] vs [toks]: equal except [p_fnw], which only [first_nonws] reads), in the
    recursive matcher, and at the two prune sites ([longest_match], [trim_to_terminator]) where the
    pruned run evaluates a sub-list of the options: the dropped ones are no-matches in the reference
    run by [Pem.PruneSound] ([longest_loop_filter]: including the interplay with the "last option"
    break and the terminator probe; [first_term_matches_filter]).  The invariant carried through the
    context is [allok terms]: every context terminator is a node of the graph and, when it has a hint,
    is in scope. *)
From Coq Require Import FMapPositive MSets.MSetPositive Lia.
From Sq Require Import Base.Bytes Apply.Model Pem.Model Pem.Bounds Pem.FuelMono Pem.PruneDef Pem.PruneSound.

Local Open Scope N_scope.

Definition ext {A} (x y : res A) : Prop := forall a, x = ROk a -> y = ROk a.

Lemma ext_refl {A} (x : res A) : ext x x.
Proof. intros a H. exact H. Qed.
Lemma ext_err {A} (y : res A) : ext RErr y.
Proof. intros a H. discriminate. Qed.
Lemma ext_fuel {A} (y : res A) : ext RFuel y.
Proof. intros a H. discriminate. Qed.
Lemma ext_panic {A} p (y : res A) : ext (RPanic p) y.
Proof. intros a H. discriminate. Qed.
Lemma ext_bind {A C} (x y : res A) (f f' : A -> res C) :
  ext x y -> (forall a, ext (f a) (f' a)) -> ext (bind x f) (bind y f').
Proof.
  intros Hx Hf c H. apply bind_ok in H as (a & Ha & H). rewrite (Hx _ Ha). cbn [bind]. apply Hf. exact H.
Qed.

(* ------------------------------------------------------------------ the stripped token array *)
Section Strip.
  Variable g : grammar.
  Variable toks : PositiveMap.t ptok.

  Lemma get_strip i : get (strip toks) i = option_map strip_tok (get toks i).
  Proof. unfold get, strip, PositiveMap.map. apply PositiveMap.gmapi. Qed.

  Lemma tok_strip len i : tok (strip toks) len i = (t <- tok toks len i ;; ROk (strip_tok t)).
  Proof. unfold tok. rewrite get_strip. destruct (i <? len); [|reflexivity]. destruct (get toks i); reflexivity. Qed.

  Lemma ext_tok {C} len i (K K' : ptok -> res C) :
    (forall t, ext (K (strip_tok t)) (K' t)) ->
    ext (bind (tok (strip toks) len i) K) (bind (tok toks len i) K').
  Proof.
    intro H. rewrite tok_strip. destruct (tok toks len i) as [t| | |]; cbn [bind];
      [apply H|apply ext_err|apply ext_panic|apply ext_fuel].
  Qed.

  Lemma skip_fwd_aux_strip n : forall len idx mx, skip_fwd_aux (strip toks) n len idx mx = skip_fwd_aux toks n len idx mx.
  Proof.
    induction n as [|n IH]; intros; cbn [skip_fwd_aux]; [reflexivity|]. destruct (idx <? mx); [|reflexivity].
    rewrite tok_strip. destruct (tok toks len idx) as [t| | |]; cbn [bind strip_tok p_code]; try reflexivity.
    destruct (p_code t); [reflexivity|apply IH].
  Qed.
  Lemma skip_fwd_strip len idx mx : skip_fwd (strip toks) len idx mx = skip_fwd toks len idx mx.
  Proof. apply skip_fwd_aux_strip. Qed.
  Lemma skip_back_aux_strip n : forall len idx mn, skip_back_aux (strip toks) n len idx mn = skip_back_aux toks n len idx mn.
  Proof.
    induction n as [|n IH]; intros; cbn [skip_back_aux]; [reflexivity|]. destruct (mn <? idx); [|reflexivity].
    rewrite tok_strip. destruct (tok toks len (idx - 1)) as [t| | |]; cbn [bind strip_tok p_code]; try reflexivity.
    destruct (p_code t); [reflexivity|apply IH].
  Qed.
  Lemma skip_back_strip len idx mn : skip_back (strip toks) len idx mn = skip_back toks len idx mn.
  Proof. apply skip_back_aux_strip. Qed.
  Lemma all_noncode_aux_strip n : forall len a b, all_noncode_aux (strip toks) n len a b = all_noncode_aux toks n len a b.
  Proof.
    induction n as [|n IH]; intros; cbn [all_noncode_aux]; [reflexivity|]. destruct (a <? b); [|reflexivity].
    rewrite tok_strip. destruct (tok toks len a) as [t| | |]; cbn [bind strip_tok p_code]; try reflexivity.
    destruct (p_code t); [reflexivity|apply IH].
  Qed.
  Lemma all_noncode_strip len a b : all_noncode (strip toks) len a b = all_noncode toks len a b.
  Proof. unfold all_noncode. rewrite all_noncode_aux_strip. reflexivity. Qed.
  Lemma noncode_scan_strip n : forall len i, noncode_scan (strip toks) n len i = noncode_scan toks n len i.
  Proof.
    induction n as [|n IH]; intros; cbn [noncode_scan]; [reflexivity|]. destruct (i <? len); [|reflexivity].
    rewrite tok_strip. destruct (tok toks len i) as [t| | |]; cbn [bind strip_tok p_code]; try reflexivity.
    destruct (p_code t); [reflexivity|apply IH].
  Qed.
  Lemma allowable_scan_strip n : forall len i d, allowable_scan g (strip toks) n len i d = allowable_scan g toks n len i d.
  Proof.
    induction n as [|n IH]; intros; cbn [allowable_scan]; [reflexivity|]. destruct (i =? 0); [reflexivity|].
    rewrite tok_strip. destruct (tok toks len (i - 1)) as [t| | |]; cbn [bind strip_tok p_meta p_kind]; try reflexivity.
    destruct (p_meta t); [apply IH|reflexivity].
  Qed.
  Lemma parse_mode_result_strip len cur mx mode :
    parse_mode_result g (strip toks) len cur mx mode = parse_mode_result g toks len cur mx mode.
  Proof. unfold parse_mode_result. rewrite all_noncode_strip, skip_fwd_strip. reflexivity. Qed.
  Lemma nm_candidates_strip ms t : nm_candidates g ms (strip_tok t) = nm_candidates g ms t.
  Proof. induction ms as [|m ms IH]; cbn [nm_candidates strip_tok p_ftr p_types]; [reflexivity|]. rewrite IH. reflexivity. Qed.

  (** the unpruned twin really is "prune replaced by the identity" *)
  Lemma first_nonws_strip len i : first_nonws (strip toks) len i = None.
  Proof.
    unfold first_nonws. rewrite get_strip. destruct (i <? len); [|reflexivity].
    destruct (get toks i) as [t|]; cbn [option_map strip_tok p_code p_fnw]; [|reflexivity]. destruct (p_code t); reflexivity.
  Qed.
  Lemma prune_strip opts len idx : prune g (strip toks) opts len idx = ROk opts.
  Proof. unfold prune. rewrite first_nonws_strip. reflexivity. Qed.
End Strip.

Ltac strip_rw :=
  rewrite ?skip_fwd_strip, ?skip_back_strip, ?all_noncode_strip, ?noncode_scan_strip, ?allowable_scan_strip,
          ?parse_mode_result_strip, ?prune_strip.

Ltac ext1 :=
  match goal with
  | |- ext ?x ?x => apply ext_refl
  | |- ext _ _ => progress strip_rw
  | |- ext RFuel _ => apply ext_fuel
  | |- ext RErr _ => apply ext_err
  | |- ext (RPanic _) _ => apply ext_panic
  | |- ext (bind (tok (strip _) _ _) _) (bind (tok _ _ _) _) =>
      apply ext_tok; intro; cbn [strip_tok p_code p_meta p_kind p_types p_upper p_ftr]
  | H : _ |- ext _ _ => solve [apply H; auto]
  | |- ext (bind _ _) (bind _ _) => apply ext_bind; [|intros]
  | |- ext (if ?c then _ else _) (if ?c then _ else _) => destruct c
  | |- ext (match ?x with _ => _ end) (match ?x with _ => _ end) => destruct x
  | |- ext (let '(_, _) := ?x in _) (let '(_, _) := ?x in _) => destruct x
  end.
Ltac extt := repeat ext1.

Section Transp.
  Variable g : grammar.
  Variable sc : PSet.t.
  Hypothesis Hok : hints_ok_b g sc = true.
  Variable toks : PositiveMap.t ptok.
  Hypothesis Htoks : forall i t, get toks i = Some t -> tok_ok_b g sc t = true.
  Variable rx : list (N * N).

  Notation tks := (strip toks).

  (** every member is a node of the graph and, when it has a hint, in scope *)
  Definition allok (l : list N) : Prop := forallb (optok g sc) l = true.

  Lemma allok_nil : allok [].
  Proof. reflexivity. Qed.
  Lemma allok_app a b : allok a -> allok b -> allok (a ++ b).
  Proof. unfold allok. intros Ha Hb. rewrite forallb_app, Ha, Hb. reflexivity. Qed.
  Lemma allok_app_l a b : allok (a ++ b) -> allok a.
  Proof. unfold allok. rewrite forallb_app. intro H. apply andb_true_iff in H. tauto. Qed.
  Lemma allok_app_r a b : allok (a ++ b) -> allok b.
  Proof. unfold allok. rewrite forallb_app. intro H. apply andb_true_iff in H. tauto. Qed.
  Lemma allok_cons x l : allok (x :: l) -> allok [x] /\ allok l.
  Proof. unfold allok. cbn [forallb]. intro H. apply andb_true_iff in H as [H1 H2]. rewrite H1, H2. auto. Qed.
  Lemma allok_in l x : allok l -> In x l -> optok g sc x = true.
  Proof. unfold allok. rewrite forallb_forall. auto. Qed.
  Lemma allok_filter f l : allok l -> allok (filter f l).
  Proof.
    unfold allok. rewrite !forallb_forall. intros H x Hx. apply filter_In in Hx as [Hx _]. auto.
  Qed.
  Lemma allok_incl a b : incl a b -> allok b -> allok a.
  Proof. unfold allok. rewrite !forallb_forall. intros Hi H x Hx. auto. Qed.

  Lemma push_dedupe_ok push : forall terms, allok terms -> allok push -> allok (push_dedupe g terms push).
  Proof.
    induction push as [|t push IH]; intros terms Ht Hp; cbn [push_dedupe]; [exact Ht|].
    apply allok_cons in Hp as [H1 H2]. destruct (mcontains g terms t); apply IH; auto.
    apply allok_app; assumption.
  Qed.
  Lemma deeper_ok c push terms : allok push -> allok terms -> allok (deeper g c push terms).
  Proof. intros Hp Ht. unfold deeper. destruct (c && negb (is_empty terms)); [exact Hp|apply push_dedupe_ok; assumption]. Qed.

  Lemma node_lists_ok n i : get (g_nodes g) n = Some i -> allok (node_lists g i).
  Proof.
    intro H. pose proof (node_ok_of g sc Hok n i H) as J. unfold node_ok in J. apply andb_true_iff in J as [J _]. exact J.
  Qed.

  (* ---------------------------------------------------------------- what pruning keeps *)
  Definition keepb (r : N) (tys : list N) (o : N) : bool :=
    match get (g_nodes g) o with
    | Some i => match n_simple i with
                | None => true
                | Some (raws, tys', _) => memN r raws || intersects tys tys'
                end
    | None => true
    end.

  Lemma prune_aux_filter r tys ms : allok ms -> prune_aux g r tys ms = ROk (filter (keepb r tys) ms).
  Proof.
    induction ms as [|o ms IH]; intro H; cbn [prune_aux filter]; [reflexivity|].
    apply allok_cons in H as [Ho Hms]. rewrite (IH Hms).
    unfold allok in Ho. cbn [forallb] in Ho. rewrite andb_true_r in Ho. unfold optok in Ho.
    unfold simple_of, info, keepb. destruct (get (g_nodes g) o) as [i|]; [|discriminate]. cbn [bind].
    destruct (n_simple i) as [[[raws tys'] al]|]; [|reflexivity].
    destruct (memN r raws || intersects tys tys'); reflexivity.
  Qed.

  (** a hinted option that pruning drops at [idx]: the code token there is outside its hint, as the
      matchers see it (here the token premise [tok_ok_b] is used) *)
  Lemma dropped_out len idx r tys o :
    first_nonws toks len idx = Some (r, tys) -> optok g sc o = true -> keepb r tys o = false ->
    exists h, Hinted g sc o h /\ Out g sc tks h idx len.
  Proof.
    unfold first_nonws. destruct (idx <? len) eqn:El; [|discriminate].
    destruct (get toks idx) as [t|] eqn:Et; [|discriminate].
    destruct (p_code t) eqn:Ec; [|discriminate]. destruct (p_fnw t) as [r'|] eqn:Ef; [|discriminate].
    intro H. inversion H; subst r' tys. clear H.
    unfold optok, keepb. destruct (get (g_nodes g) o) as [i|] eqn:Ei; [|discriminate].
    unfold hint_of. destruct (n_simple i) as [[[raws tys'] al]|] eqn:Es; [|discriminate].
    intros Hs Hk. apply orb_false_iff in Hk as [Hk1 Hk2].
    exists (raws, tys'). split.
    - exists i. unfold hint_of. rewrite Es. auto.
    - pose proof (Htoks _ _ Et) as Hto. unfold tok_ok_b, tok_ok_with in Hto. rewrite Ec in Hto. cbn [negb orb] in Hto.
      apply andb_true_iff in Hto as [Hto T3]. apply andb_true_iff in Hto as [T1 T2].
      exists (strip_tok t). b2p. split; [exact El|]. split; [rewrite get_strip, Et; reflexivity|].
      cbn [strip_tok p_kind p_types]. split; [|split; [exact T2|apply negb_true_iff; exact T3]].
      unfold outside. cbn [strip_tok p_code p_upper p_types fst snd]. rewrite Ec, Hk2. cbn [andb negb].
      rewrite andb_true_r. apply negb_true_iff.
      destruct (memN (p_upper t) (templates g)) eqn:Etm; [|apply andb_false_r].
      cbn [negb orb] in T1. rewrite Ef in T1. cbn [opt_eqb] in T1. b2p. subst r. rewrite Hk1. reflexivity.
  Qed.

  (* ================================================================ with the recursive matchers *)
  Section WithRec.
    Variables recx recy : N -> N -> N -> list N -> res mr.
    Hypothesis Hrec : forall n i l t, allok t -> ext (recx n i l t) (recy n i l t).
    Hypothesis Hnoerr : forall n i l t, recx n i l t <> RErr.
    Hypothesis Hnm : forall n h idx len terms, Hinted g sc n h -> Out g sc tks h idx len -> NM (recx n idx len terms).

    Lemma any_matches_ext ts i len terms : allok terms ->
      ext (any_matches recx ts i len terms) (any_matches recy ts i len terms).
    Proof. intro Ht. induction ts as [|t ts IH]; cbn [any_matches]; extt. Qed.
    Lemma first_term_matches_ext ts i len terms : allok terms ->
      ext (first_term_matches recx ts i len terms) (first_term_matches recy ts i len terms).
    Proof. intro Ht. induction ts as [|t ts IH]; cbn [first_term_matches]; extt. Qed.
    Lemma first_matching_ext cs i len terms : allok terms ->
      ext (first_matching recx cs i len terms) (first_matching recy cs i len terms).
    Proof. intro Ht. induction cs as [|c cs IH]; cbn [first_matching]; extt. Qed.

    (* -------------------------------------------------------------- longest_match *)
    Lemma longest_loop_ext opts : forall idx len terms best bm, allok terms ->
      ext (longest_loop g tks recx opts idx len terms best bm) (longest_loop g toks recy opts idx len terms best bm).
    Proof.
      induction opts as [|o opts IH]; intros idx len terms best bm Ht; cbn [longest_loop]; strip_rw;
        pose proof (fun ts i => any_matches_ext ts i len terms Ht); extt.
    Qed.

    (** the reference run evaluates all options, the pruned run those that [keep] selects; the others
        are no-matches in the reference run *)
    Lemma longest_loop_filter keep idx len terms : allok terms ->
      forall opts, (forall o, In o opts -> keep o = false -> NM (recx o idx len terms)) ->
      forall best bm,
        ext (longest_loop g tks recx opts idx len terms best bm)
            (longest_loop g toks recy (filter keep opts) idx len terms best bm).
    Proof.
      intros Ht. induction opts as [|o opts IH]; intros Hd best bm; cbn [filter]; [apply ext_refl|].
      assert (Hd' : forall o', In o' opts -> keep o' = false -> NM (recx o' idx len terms))
        by (intros; apply Hd; [right|]; assumption).
      destruct (keep o) eqn:Ek.
      - cbn [longest_loop]. apply ext_bind; [apply ext_refl|intros _k].
        apply ext_bind; [apply Hrec; exact Ht|intros r].
        destruct (has_match r && (mr_end r =? len)); [apply ext_refl|].
        destruct (mlen best <? mlen r); [|apply IH; exact Hd'].
        destruct (is_empty (filter keep opts)) eqn:Ef.
        + (* the pruned run breaks at its last option; the reference run goes on over dropped options only *)
          assert (Hall : forall o', In o' opts -> NM (recx o' idx len terms)).
          { intros o' Ho'. apply Hd'; [exact Ho'|].
            destruct (keep o') eqn:Ek'; [|reflexivity]. exfalso.
            assert (In o' (filter keep opts)) by (apply filter_In; auto).
            destruct (filter keep opts); [contradiction|discriminate]. }
          assert (Hrest : forall v, longest_loop g tks recx opts idx len terms r (Some o) = ROk v -> v = (r, Some o))
            by (intros v Hv; eapply longest_loop_nm; eassumption).
          intros v Hx. destruct (is_empty opts); [exact Hx|].
          destruct (negb (is_empty terms)).
          * inv_bind Hx. destruct (a =? len); [exact Hx|]. inv_bind Hx.
            destruct a0; [exact Hx|]. rewrite (Hrest _ Hx). reflexivity.
          * rewrite (Hrest _ Hx). reflexivity.
        + assert (Eo : is_empty opts = false) by (destruct opts; [discriminate|reflexivity]). rewrite Eo.
          strip_rw. pose proof (fun ts i => any_matches_ext ts i len terms Ht).
          pose proof (fun b m => IH Hd' b m). extt.
      - intros v Hx. cbn [longest_loop] in Hx. inv_bind Hx. inv_bind Hx. rename a0 into r.
        pose proof (Hd o (or_introl eq_refl) Ek r Ha0) as Hr.
        rewrite Hr in Hx. cbn [andb] in Hx. unfold mlen at 2 in Hx. rewrite (has_match_false_len _ Hr) in Hx.
        assert (E : (mlen best <? 0) = false) by (apply N.ltb_ge; lia). rewrite E in Hx.
        exact (IH Hd' best bm v Hx).
    Qed.

    Lemma dropped_nm len idx r tys terms l :
      first_nonws toks len idx = Some (r, tys) -> allok l ->
      forall o, In o l -> keepb r tys o = false -> NM (recx o idx len terms).
    Proof.
      intros Hf Hl o Ho Hk. destruct (dropped_out _ _ _ _ _ Hf (allok_in _ _ Hl Ho) Hk) as (h & Hh & HO).
      eapply Hnm; eassumption.
    Qed.

    Lemma longest_match_ext len ms idx terms : allok ms -> allok terms ->
      ext (longest_match g tks recx len ms idx terms) (longest_match g toks recy len ms idx terms).
    Proof.
      intros Hms Ht. unfold longest_match. destruct (is_empty ms || (idx =? len)); [apply ext_refl|].
      rewrite prune_strip. cbn [bind]. unfold prune.
      destruct (first_nonws toks len idx) as [[r tys]|] eqn:Ef.
      2:{ cbn [bind]. destruct (is_empty ms); [apply ext_refl|].
          apply ext_tok. intros t. apply longest_loop_ext. exact Ht. }
      rewrite (prune_aux_filter r tys ms Hms). cbn [bind].
      pose proof (dropped_nm len idx r tys terms ms Ef Hms) as Hd.
      destruct (is_empty ms) eqn:Em; [destruct ms; [apply ext_refl|discriminate]|].
      destruct (is_empty (filter (keepb r tys) ms)) eqn:Efl.
      - intros v Hx. inv_bind Hx.
        eapply longest_loop_nm in Hx; [rewrite Hx; reflexivity|].
        intros o Ho. apply Hd; [exact Ho|].
        destruct (keepb r tys o) eqn:Ek; [|reflexivity]. exfalso.
        assert (In o (filter (keepb r tys) ms)) by (apply filter_In; auto).
        destruct (filter (keepb r tys) ms); [contradiction|discriminate].
      - apply ext_tok. intros t. apply longest_loop_filter; assumption.
    Qed.

    (* -------------------------------------------------------------- next_match, brackets, greedy_match *)
    Lemma next_match_scan_ext n : forall i len ms terms, allok terms ->
      ext (next_match_scan g tks recx n i len ms terms) (next_match_scan g toks recy n i len ms terms).
    Proof.
      induction n as [|n IH]; intros i len ms terms Ht; cbn [next_match_scan]; [apply ext_refl|].
      destruct (i <? len); [|apply ext_refl]. apply ext_tok. intros t. rewrite nm_candidates_strip.
      pose proof (fun cs => first_matching_ext cs i len terms Ht). extt.
    Qed.
    Lemma next_match_ext len idx ms terms : allok terms ->
      ext (next_match g tks recx len idx ms terms) (next_match g toks recy len idx ms terms).
    Proof. intro Ht. unfold next_match. pose proof (fun n i => next_match_scan_ext n i len ms terms Ht). extt. Qed.

    Lemma rb_loop_ext fl : forall len opening ti starts ends pers terms nested mi ch, allok terms ->
      ext (rb_loop g tks recx fl len opening ti starts ends pers terms nested mi ch)
          (rb_loop g toks recy fl len opening ti starts ends pers terms nested mi ch).
    Proof.
      induction fl as [|fl IH]; intros len opening ti starts ends pers terms nested mi ch Ht; cbn [rb_loop]; [apply ext_fuel|].
      pose proof (fun idx ms => next_match_ext len idx ms terms Ht).
      pose proof (fun opening ti nested mi ch => IH len opening ti starts ends pers terms nested mi ch Ht). extt.
    Qed.
    Lemma resolve_bracket_ext fl len opening opener starts ends pers terms nested : allok terms ->
      ext (resolve_bracket g tks recx fl len opening opener starts ends pers terms nested)
          (resolve_bracket g toks recy fl len opening opener starts ends pers terms nested).
    Proof. intro Ht. unfold resolve_bracket. pose proof (fun ti mi ch => rb_loop_ext fl len opening ti starts ends pers terms nested mi ch Ht). extt. Qed.

    Lemma neb_loop_ext k : forall fl len idx ms starts ends pers terms mi ch, allok terms ->
      ext (neb_loop g tks recx k fl len idx ms starts ends pers terms mi ch)
          (neb_loop g toks recy k fl len idx ms starts ends pers terms mi ch).
    Proof.
      induction k as [|k IH]; intros fl len idx ms starts ends pers terms mi ch Ht; cbn [neb_loop]; [apply ext_fuel|].
      pose proof (fun idx ms => next_match_ext len idx ms terms Ht).
      pose proof (fun opening opener nested => resolve_bracket_ext fl len opening opener starts ends pers terms nested Ht).
      pose proof (fun mi ch => IH fl len idx ms starts ends pers terms mi ch Ht). extt.
    Qed.
    Lemma next_ex_bracket_match_ext fl len idx ms terms : allok terms ->
      ext (next_ex_bracket_match g tks recx fl len idx ms terms) (next_ex_bracket_match g toks recy fl len idx ms terms).
    Proof.
      intro Ht. unfold next_ex_bracket_match.
      pose proof (fun starts ends pers mi ch => neb_loop_ext fl fl len idx ms starts ends pers terms mi ch Ht). extt.
    Qed.

    Lemma greedy_loop_ext k : forall fl len idx ms terms it nested w ch, allok terms ->
      ext (greedy_loop g tks recx k fl len idx ms terms it nested w ch)
          (greedy_loop g toks recy k fl len idx ms terms it nested w ch).
    Proof.
      induction k as [|k IH]; intros fl len idx ms terms it nested w ch Ht; cbn [greedy_loop]; [apply ext_fuel|].
      strip_rw.
      pose proof (fun w => next_ex_bracket_match_ext fl len w ms terms Ht).
      pose proof (fun w ch => IH fl len idx ms terms it nested w ch Ht). extt.
    Qed.
    Lemma greedy_match_ext fl len idx ms terms it nested : allok terms ->
      ext (greedy_match g tks recx fl len idx ms terms it nested) (greedy_match g toks recy fl len idx ms terms it nested).
    Proof. intro Ht. unfold greedy_match. apply greedy_loop_ext. exact Ht. Qed.

    (* -------------------------------------------------------------- trim_to_terminator *)
    Lemma first_term_matches_filter keep idx len terms : allok terms ->
      forall ts, (forall t, In t ts -> keep t = false -> NM (recx t idx len terms)) ->
      ext (first_term_matches recx ts idx len terms) (first_term_matches recy (filter keep ts) idx len terms).
    Proof.
      intros Ht. induction ts as [|t ts IH]; intros Hd; cbn [filter]; [apply ext_refl|].
      assert (Hd' : forall t', In t' ts -> keep t' = false -> NM (recx t' idx len terms))
        by (intros; apply Hd; [right|]; assumption).
      destruct (keep t) eqn:Ek.
      - cbn [first_term_matches]. apply ext_bind; [apply Hrec; exact Ht|intros m].
        destruct (has_match m); [apply ext_refl|apply IH; exact Hd'].
      - intros v Hx. cbn [first_term_matches] in Hx. inv_bind Hx.
        rewrite (Hd t (or_introl eq_refl) Ek a Ha) in Hx. exact (IH Hd' v Hx).
    Qed.

    Lemma trim_to_terminator_ext fl len idx ts terms : allok ts -> allok terms ->
      ext (trim_to_terminator g tks recx fl len idx ts terms) (trim_to_terminator g toks recy fl len idx ts terms).
    Proof.
      intros Hts Ht. unfold trim_to_terminator. destruct (len <=? idx); [apply ext_refl|].
      rewrite prune_strip. cbn [bind]. strip_rw.
      pose proof (greedy_match_ext fl len idx ts terms false false Ht) as Hg.
      unfold prune. destruct (first_nonws toks len idx) as [[r tys]|] eqn:Ef.
      - rewrite (prune_aux_filter r tys ts Hts). cbn [bind].
        apply ext_bind; [apply first_term_matches_filter; [exact Ht|eapply dropped_nm; eassumption]|intros hit].
        extt.
      - cbn [bind]. pose proof (first_term_matches_ext ts idx len terms Ht). extt.
    Qed.

    (* -------------------------------------------------------------- Sequence, Bracketed *)
    Lemma seq_elem_ext fl d len si terms st e : allok (sq_terms d) -> allok terms ->
      ext (seq_elem g tks recx fl d len si terms st e) (seq_elem g toks recy fl d len si terms st e).
    Proof.
      intros Hd Ht. unfold seq_elem. strip_rw.
      pose proof (fun idx => trim_to_terminator_ext fl len idx (sq_terms d ++ terms) terms (allok_app _ _ Hd Ht) Ht).
      pose proof (fun n i l => Hrec n i l terms Ht).
      apply ext_bind; [apply ext_refl|intros ie]. destruct (n_node ie); extt.
    Qed.
    Lemma seq_loop_ext fl d len si terms es : allok (sq_terms d) -> allok terms -> forall st,
      ext (seq_loop g tks recx fl d len si terms st es) (seq_loop g toks recy fl d len si terms st es).
    Proof.
      intros Hd Ht. induction es as [|e es IH]; intros st; cbn [seq_loop]; [apply ext_refl|].
      pose proof (fun st e => seq_elem_ext fl d len si terms st e Hd Ht). extt.
    Qed.
    Lemma match_sequence_ext fl d len idx terms : allok (sq_terms d) -> allok terms ->
      ext (match_sequence g tks recx fl d len idx terms) (match_sequence g toks recy fl d len idx terms).
    Proof.
      intros Hd Ht. unfold match_sequence. strip_rw.
      pose proof (trim_to_terminator_ext fl len idx (sq_terms d ++ terms) terms (allok_app _ _ Hd Ht) Ht).
      pose proof (fun es st => seq_loop_ext fl d len idx terms es Hd Ht st). extt.
    Qed.

    Lemma match_bracketed_ext fl self found bs be pers gaps d len idx terms :
      allok (opt_list be ++ sq_terms d) -> allok terms ->
      ext (match_bracketed g tks recx fl self found bs be pers gaps d len idx terms)
          (match_bracketed g toks recy fl self found bs be pers gaps d len idx terms).
    Proof.
      intros Hd Ht. unfold match_bracketed. destruct (negb found); [apply ext_refl|].
      destruct bs as [sb|]; [|apply ext_refl]. destruct be as [eb|]; [|apply ext_refl].
      cbn [opt_list app] in Hd. apply allok_cons in Hd as [Heb Hd].
      strip_rw.
      pose proof (fun n i l => Hrec n i l terms Ht).
      pose proof (fun opening opener starts ends pers nested => resolve_bracket_ext fl len opening opener starts ends pers terms nested Ht).
      pose proof (fun len idx => match_sequence_ext fl d len idx (deeper g true [eb] terms) Hd (deeper_ok true [eb] terms Heb Ht)).
      extt.
    Qed.

    (* -------------------------------------------------------------- AnyNumberOf, Delimited *)
    Lemma any_loop_ext k : forall d len idx mx terms nm cs mi wi m,
      allok (an_elems d) -> allok (an_terms d) -> allok terms ->
      ext (any_loop g tks recx k d len idx mx terms nm cs mi wi m) (any_loop g toks recy k d len idx mx terms nm cs mi wi m).
    Proof.
      induction k as [|k IH]; intros d len idx mx terms nm cs mi wi m He Hd Ht; cbn [any_loop]; [apply ext_fuel|].
      strip_rw.
      pose proof (fun len idx => longest_match_ext len (an_elems d) idx (deeper g (an_reset d) (an_terms d) terms) He
                                   (deeper_ok (an_reset d) (an_terms d) terms Hd Ht)).
      pose proof (fun nm cs mi wi m => IH d len idx mx terms nm cs mi wi m He Hd Ht). extt.
    Qed.
    Lemma match_anynumberof_ext fl d len idx terms : allok (an_elems d ++ an_terms d) -> allok terms ->
      ext (match_anynumberof g tks recx fl d len idx terms) (match_anynumberof g toks recy fl d len idx terms).
    Proof.
      intros Hd Ht. pose proof (allok_app_l _ _ Hd) as He. pose proof (allok_app_r _ _ Hd) as Hat.
      unfold match_anynumberof.
      pose proof (fun n i l => Hrec n i l terms Ht).
      assert (Htr : allok (if an_reset d then an_terms d else an_terms d ++ terms))
        by (destruct (an_reset d); [exact Hat|apply allok_app; assumption]).
      pose proof (trim_to_terminator_ext fl len idx _ terms Htr Ht).
      pose proof (fun mx nm cs mi wi m => any_loop_ext fl d len idx mx terms nm cs mi wi m He Hat Ht). extt.
    Qed.

    Lemma delim_loop_ext k : forall d delim tr mn len idx terms tms dl sk w wm dm,
      allok [delim] -> allok (an_elems d) -> allok tms -> allok terms ->
      ext (delim_loop g tks recx k d delim tr mn len idx terms tms dl sk w wm dm)
          (delim_loop g toks recy k d delim tr mn len idx terms tms dl sk w wm dm).
    Proof.
      induction k as [|k IH]; intros d delim tr mn len idx terms tms dl sk w wm dm Hdl He Htm Ht; cbn [delim_loop]; [apply ext_fuel|].
      strip_rw.
      pose proof (fun w => longest_match_ext len tms w terms Htm Ht).
      pose proof (fun w => longest_match_ext len [delim] w (deeper g false [] terms) Hdl (deeper_ok false [] terms allok_nil Ht)).
      pose proof (fun w => longest_match_ext len (an_elems d) w (deeper g false [delim] terms) He (deeper_ok false [delim] terms Hdl Ht)).
      pose proof (fun dl sk w wm dm => IH d delim tr mn len idx terms tms dl sk w wm dm Hdl He Htm Ht).
      apply ext_bind; [apply ext_refl|intros w']. destruct (len <=? w'); [apply ext_refl|].
      apply ext_bind; [auto|intros [tm tmo]]. destruct (has_match tm); [apply ext_refl|].
      destruct sk; extt.
    Qed.
    Lemma match_delimited_ext fl d delim tr mn len idx terms :
      allok (delim :: g_noncode g :: an_elems d ++ an_terms d) -> allok terms ->
      ext (match_delimited g tks recx fl d delim tr mn len idx terms) (match_delimited g toks recy fl d delim tr mn len idx terms).
    Proof.
      intros Hd Ht. apply allok_cons in Hd as [Hdl Hd]. apply allok_cons in Hd as [Hnc Hd].
      unfold match_delimited. apply delim_loop_ext; auto.
      - eapply allok_app_l; exact Hd.
      - apply allok_app; [eapply allok_app_r; exact Hd|]. apply allok_app; [apply allok_filter; exact Ht|].
        destruct (an_gaps d); [apply allok_nil|exact Hnc].
    Qed.

    (* -------------------------------------------------------------- one node *)
    Lemma match_node_body_ext fl n idx len terms : allok terms ->
      ext (match_node_body g tks rx recx fl n idx len terms) (match_node_body g toks rx recy fl n idx len terms).
    Proof.
      intro Ht. unfold match_node_body. unfold info.
      destruct (get (g_nodes g) n) as [i|] eqn:Ei; [|apply ext_panic]. cbn [bind].
      pose proof (node_lists_ok n i Ei) as Hl. unfold node_lists in Hl.
      strip_rw.
      destruct (n_node i) eqn:En.
      - (* Ref *)
        destruct target as [t|]; [|apply ext_panic].
        pose proof (deeper_ok reset terms0 terms Hl Ht) as Ht'.
        apply ext_bind; [|intros ex; destruct ex; [apply ext_refl|apply Hrec; exact Ht']].
        destruct exclude as [e|]; [|apply ext_refl].
        pose proof (Hrec e idx len _ Ht') as He. pose proof (Hnoerr e idx len (deeper g reset terms0 terms)) as Hne.
        destruct (recx e idx len (deeper g reset terms0 terms)) as [m| |p|]; [|contradiction|apply ext_panic|apply ext_fuel].
        rewrite (He m eq_refl). apply ext_refl.
      - apply match_sequence_ext; assumption.
      - apply match_bracketed_ext; assumption.
      - apply match_anynumberof_ext; assumption.
      - apply match_delimited_ext; assumption.
      - pose proof (fun n i l => Hrec n i l terms Ht). extt.
      - extt.
      - extt.
      - extt.
      - extt.
      - extt.
      - extt.
      - pose proof (fun ms => greedy_match_ext fl len idx ms terms false true Ht). extt.
      - extt.
      - extt.
      - extt.
    Qed.
  End WithRec.

  (* ================================================================ the knot *)
  Lemma hide_err_noerr r : hide_err r <> RErr.
  Proof. destruct r; cbn; discriminate. Qed.
  Lemma hide_err_ok r m : hide_err r = ROk m -> r = ROk m.
  Proof. destruct r; cbn; intro H; try discriminate; exact H. Qed.

  (** hint soundness on the reference twin: a node in scope whose hint excludes the code token at
      [idx] never answers with a match *)
  Theorem ref_hint_sound fuel : forall n h idx len terms,
    Hinted g sc n h -> Out g sc tks h idx len -> NM (match_node_ref g toks rx fuel n idx len terms).
  Proof.
    induction fuel as [|f IH]; intros n h idx len terms Hh HO m H; [discriminate|].
    cbn [match_node_ref] in H.
    eapply (body_nm g sc Hok tks rx (fun n' i l t => hide_err (match_node_ref g toks rx f n' i l t))); try eassumption.
    intros n' h' i l t Hh' HO' m' Hm'. apply hide_err_ok in Hm'. eapply IH; eassumption.
  Qed.

  Theorem match_node_transparent fuel : forall n idx len terms, allok terms ->
    ext (match_node_ref g toks rx fuel n idx len terms) (match_node g toks rx fuel n idx len terms).
  Proof.
    induction fuel as [|f IH]; intros n idx len terms Ht; [apply ext_fuel|].
    cbn [match_node_ref match_node]. apply match_node_body_ext; [| | |exact Ht].
    - intros n' i l t Ht' m Hm. apply hide_err_ok in Hm. exact (IH n' i l t Ht' m Hm).
    - intros. apply hide_err_noerr.
    - intros n' h i l t Hh HO m Hm. apply hide_err_ok in Hm. eapply ref_hint_sound; eassumption.
  Qed.
End Transp.

(* ------------------------------------------------------------------ the reference twin refines the unpruned twin *)
Lemma hide_err_lef r : lef (hide_err r) r.
Proof. destruct r; cbn; [right|left|right|right]; reflexivity. Qed.

Lemma ref_le_np g toks rx fuel : forall n idx len terms,
  lef (match_node_ref g toks rx fuel n idx len terms) (match_node_np g toks rx fuel n idx len terms).
Proof.
  unfold match_node_np. induction fuel as [|f IH]; intros n idx len terms; [apply lef_fuel|].
  cbn [match_node_ref match_node]. apply match_node_body_mono; [|lia].
  intros n' i l t. destruct (hide_err_lef (match_node_ref g toks rx f n' i l t)) as [E|E]; [left; exact E|].
  rewrite E. apply IH.
Qed.

(* ------------------------------------------------------------------ theorems *)
(** Pruning is transparent: on a graph whose hints are justified ([hints_sound_b]) and tokens that
    satisfy [toks_ok], for every regex oracle, fuel and span - whenever the reference run (pruning off,
    no [SQLParseError] swallowed on the way) yields a match result, the pruned interpreter yields the same. *)
Theorem prune_transparent g : hints_sound_b g = true ->
  forall toks rx fuel s e m, toks_ok g toks ->
    parse_root_ref g toks rx fuel s e = ROk m -> parse_root g toks rx fuel s e = ROk m.
Proof.
  intros Hok toks rx fuel s e m Htoks H. unfold parse_root_ref in H. unfold parse_root.
  destruct (g_root g) as [r|]; [|discriminate].
  exact (match_node_transparent g (scope g) Hok toks Htoks rx fuel r s e [] eq_refl m H).
Qed.

(** ... for every larger fuel too ([Pem.FuelMono]) *)
Theorem prune_transparent_fuel g : hints_sound_b g = true ->
  forall toks rx fuel fuel' s e m, toks_ok g toks -> (fuel <= fuel')%nat ->
    parse_root_ref g toks rx fuel s e = ROk m -> parse_root g toks rx fuel' s e = ROk m.
Proof.
  intros Hok toks rx fuel fuel' s e m Htoks Hle H.
  eapply parse_root_fuel_mono; [exact Hle|exact (prune_transparent g Hok toks rx fuel s e m Htoks H)|discriminate].
Qed.

(** ... and so does the interpreter with pruning switched off *)
Theorem ref_refines_np g toks rx fuel s e m :
  parse_root_ref g toks rx fuel s e = ROk m -> parse_root_np g toks rx fuel s e = ROk m.
Proof.
  unfold parse_root_ref, parse_root_np, parse_root. destruct (g_root g) as [r|]; [|discriminate].
  intro H. destruct (ref_le_np g toks rx fuel r s e []) as [E|E]; [rewrite E in H; discriminate|].
  unfold match_node_np in E. rewrite <- E. exact H.
Qed.

(** the semantic lemma behind it: a hinted node in scope does not match at a code token outside its hint *)
Theorem hint_sound g : hints_sound_b g = true ->
  forall toks rx fuel n h idx len terms,
    Hinted g (scope g) n h -> Out g (scope g) (strip toks) h idx len ->
    forall m, match_node_ref g toks rx fuel n idx len terms = ROk m -> has_match m = false.
Proof. intros Hok toks rx fuel n h idx len terms Hh HO. exact (ref_hint_sound g (scope g) Hok toks rx fuel n h idx len terms Hh HO). Qed.
