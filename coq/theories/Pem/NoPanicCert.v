(** The decidable side condition [panic_safe_b] of the panic-freedom theorem of the parser-engine
    interpreter ([Pem.NoPanic]).  Executable definitions only.

    The engine unwraps first-token hints ([next_match]: [simple().unwrap()] of every terminator
    and bracket), cache keys ([longest_match]: of every option; [Delimited] puts the *context*
    terminators among its options) and [is_optional()] (every [Sequence] element), and the context
    terminators are pushed by [Ref]/[AnyNumberOf]/[Bracketed]/[Delimited] far above the node that
    uses them.  So "which terminators can be in the context when node [n] runs" is a data-flow fact
    of the graph.  A certificate [cx] maps every node that can be invoked to a set that contains
    every context terminator it can be invoked with; [cert_ok_b] checks (one pass, local) that the
    certificate is closed under the engine's call edges ([edges]) and that at every node the
    matchers the engine will unwrap have what it unwraps ([local_ok]).  [compute_cx] is the least
    such certificate (work-list iteration); [panic_safe_b g = cert_ok_b g (compute_cx g)]. *)
From Coq Require Import FMapPositive MSets.MSetPositive.
From Sq Require Import Base.Bytes Apply.Model Pem.Model Pem.Proofs Pem.WfSafe.

Module PS := PositiveSet.
Definition tset := PS.t.
Definition cert := PositiveMap.t tset.

Section Cert.
  Variable g : grammar.

  Definition has_simple_b (c : N) : bool :=
    match get (g_nodes g) c with Some i => is_some (n_simple i) | None => false end.
  Definition has_ckey_b (c : N) : bool :=
    match get (g_nodes g) c with Some i => is_some (n_ckey i) | None => false end.
  (** the hint for which [greedy_match] runs its keyword-terminator guard *)
  Definition kwlike_b (c : N) : bool :=
    match get (g_nodes g) c with
    | Some i => match n_simple i with Some (_, tys, alpha) => is_empty tys && alpha | None => false end
    | None => false
    end.

  Definition adds (l : list N) (T : tset) : tset := fold_left (fun s t => PS.add (key t) s) l T.
  Definition members (T : tset) : list N := map Pos.pred_N (PS.elements T).
  Definition opt_list (o : option N) : list N := match o with Some x => [x] | None => [] end.
  (** all start and end matchers of the dialect's "bracket_pairs" set *)
  Definition brk : list N :=
    flat_map (fun b => opt_list (fst (fst b)) ++ opt_list (snd (fst b))) (g_brackets g).

  (** a [Sequence] element that is matched (metas and conditionals are only buffered) *)
  Definition elem_called (e : N) : bool :=
    match get (g_nodes g) e with
    | Some i => match n_node i with GMeta _ | GCond _ _ => false | _ => true end
    | None => true
    end.
  Definition elem_ok (e : N) : bool :=
    match get (g_nodes g) e with
    | Some i => match n_node i with GMeta _ | GCond _ _ => true | _ => is_some (n_opt i) end
    | None => false
    end.

  (** matchers run by [trim_to_terminator]/[greedy_match] on [ms ++ terms] in a context within [T] *)
  Definition greedy_ms (ms : list N) (useT : bool) (T : tset) : list N :=
    ms ++ (if useT then members T else []).
  Definition greedy_edges (ms : list N) (useT : bool) (T : tset) : list (N * tset) :=
    map (fun t => (t, T)) (greedy_ms ms useT T ++ brk).

  Definition seq_edges (d : seq_d) (T : tset) : list (N * tset) :=
    map (fun e => (e, T)) (filter elem_called (sq_elems d))
    ++ (if pmode_eqb (sq_mode d) Strict then [] else greedy_edges (sq_terms d) true T).
  Definition seq_local (d : seq_d) (T : tset) : bool :=
    forallb elem_ok (sq_elems d)
    && (pmode_eqb (sq_mode d) Strict || forallb has_simple_b (greedy_ms (sq_terms d) true T)).

  Definition any_T2 (d : any_d) (T : tset) : tset := adds (an_terms d) (if an_reset d then PS.empty else T).

  (** the calls node [i] makes when it runs in a context within [T]: (callee, bound of the callee's context) *)
  Definition edges (i : ninfo) (T : tset) : list (N * tset) :=
    match n_node i with
    | GRef (Some t) ex rterms reset =>
        let T2 := adds rterms (if reset then PS.empty else T) in
        (t, T2) :: map (fun e => (e, T2)) (opt_list ex)
    | GSeq d => seq_edges d T
    | GBracketed true (Some sb) (Some eb) _ _ d =>
        (sb, T) :: (eb, T) :: seq_edges d (PS.singleton (key eb))
    | GAny d =>
        map (fun e => (e, T)) (opt_list (an_exclude d))
        ++ (if pmode_eqb (an_mode d) Greedy then greedy_edges (an_terms d) (negb (an_reset d)) T else [])
        ++ (let T2 := any_T2 d T in map (fun e => (e, T2)) (an_elems d ++ members T2))
    | GDelim d delim _ _ =>
        map (fun e => (e, T)) (an_terms d ++ (if an_gaps d then [] else [g_noncode g]) ++ members T)
        ++ (let T2 := PS.add (key delim) T in map (fun e => (e, T2)) (delim :: an_elems d ++ members T2))
    | GNodeM _ gr => [(gr, T)]
    | GAnything aterms =>
        if is_empty aterms && PS.is_empty T then [] else greedy_edges aterms true T
    | _ => []
    end.

  (** what the engine unwraps at node [i] in a context within [T] *)
  Definition local_ok (i : ninfo) (T : tset) : bool :=
    match n_node i with
    | GSeq d => seq_local d T
    | GBracketed found bs be _ gaps d =>
        found && gaps &&
        match bs, be with
        | Some sb, Some eb =>
            has_simple_b sb && has_simple_b eb && closers_safe_b g [sb] [eb] && seq_local d (PS.singleton (key eb))
        | _, _ => true      (* aborts with the recorded "Grammar refers to ..." *)
        end
    | GAny d =>
        forallb has_ckey_b (an_elems d)
        && (negb (pmode_eqb (an_mode d) Greedy) || forallb has_simple_b (greedy_ms (an_terms d) (negb (an_reset d)) T))
    | GDelim d delim _ _ =>
        forallb has_ckey_b (an_terms d ++ (if an_gaps d then [] else [g_noncode g]) ++ members T ++ delim :: an_elems d)
    | GAnything aterms =>
        (is_empty aterms && PS.is_empty T)
        || (forallb has_simple_b (greedy_ms aterms true T) && forallb (fun t => negb (kwlike_b t)) (greedy_ms aterms true T))
    | GMeta _ => false      (* MetaSegment::match_segments is unimplemented!() *)
    | _ => true
    end.

  (** [n] can be invoked at the end of the slice ([idx = len]) without indexing past it *)
  Fixpoint eof_safe_b (d : nat) (n : N) : bool :=
    match d with
    | O => false
    | S d' =>
        match get (g_nodes g) n with
        | Some i =>
            match n_node i with
            | GRef (Some t) ex _ _ => eof_safe_b d' t && match ex with Some e => eof_safe_b d' e | None => true end
            | GRef None _ _ _ => true
            | GBracketed _ (Some sb) (Some _) _ _ _ => eof_safe_b d' sb
            | GBracketed _ _ _ _ _ _ => true
            | GAny a => match an_exclude a with Some e => eof_safe_b d' e | None => true end
            | GSeq _ | GDelim _ _ _ _ | GNodeM _ _ | GCond _ _ | GAnything _ | GNothing | GNonCode => true
            | GString _ _ | GMulti _ _ | GTyped _ _ | GRegex _ _ | GMeta _ | GBracketSeg => false
            end
        | None => false
        end
    end.

  Section Check.
    Variable cx : cert.

    Definition flows_b (e : N * tset) : bool :=
      match PositiveMap.find (key (fst e)) cx with Some Tc => PS.subset (snd e) Tc | None => false end.

    Definition entry_ok_b (p : positive * tset) : bool :=
      match PositiveMap.find (fst p) (g_nodes g) with
      | Some i => local_ok i (snd p) && forallb flows_b (edges i (snd p))
      | None => false
      end.

    Definition cert_ok_b : bool :=
      brackets_closed_b g
      && forallb (fun b => has_simple_b b && negb (kwlike_b b)) brk
      && match g_root g with Some r => flows_b (r, PS.empty) && eof_safe_b ref_depth r | None => false end
      && forallb entry_ok_b (PositiveMap.elements cx).
  End Check.

  (* ---------------------------------------------------------------- the least certificate *)
  Definition flow1 (st : cert * list N) (e : N * tset) : cert * list N :=
    let c := fst e in let Sx := snd e in
    match get (g_nodes g) c with
    | None => st
    | Some _ =>
        match PositiveMap.find (key c) (fst st) with
        | None => (PositiveMap.add (key c) Sx (fst st), c :: snd st)
        | Some Tc => if PS.subset Sx Tc then st else (PositiveMap.add (key c) (PS.union Tc Sx) (fst st), c :: snd st)
        end
    end.

  Definition step (st : cert * list N) : cert * list N :=
    match snd st with
    | [] => st
    | n :: w =>
        match get (g_nodes g) n, PositiveMap.find (key n) (fst st) with
        | Some i, Some T => fold_left flow1 (edges i T) (fst st, w)
        | _, _ => (fst st, w)
        end
    end.

  Definition compute_cx (steps : positive) : cert :=
    match g_root g with
    | Some r => fst (Pos.iter step (flow1 (PositiveMap.empty tset, []) (r, PS.empty)) steps)
    | None => PositiveMap.empty tset
    end.

  Definition default_steps : positive := 4000000.

  Definition panic_safe_b : bool := cert_ok_b (compute_cx default_steps).
End Cert.
