(** The decidable side condition [term_safe_b] of the termination theorem of the parser-engine
    interpreter ([Pem.Term]).  Executable definitions only.

    The engine's loops guard themselves against zero-width iterations where they can:
    [longest_match] only ever returns a match that ends behind the index it was started at (a
    candidate replaces the best one only if it is strictly longer, and a complete match ends at
    [len > idx]), so every iteration of [AnyNumberOf] and [Delimited] advances.  What the engine
    does *not* guard is
      - the bracket scans [resolve_bracket] / [next_ex_bracket_match]: they continue behind the
        match of an opening bracket,
      - the keyword guard of [greedy_match]: it continues behind a refused keyword terminator,
      - the node recursion itself: a node may call other nodes at its own start index.
    So the side condition consists of
      (1) [tc]: a set of *token-consuming* nodes (every successful match of the node ends behind
          its start index), closed under a local rule ([tc_local]); the opening brackets and the
          keyword-like terminators of every trimming node must be in it;
      (2) [rk]: a rank for every invocable node such that every node it may call *at its own
          start index* ([si]: target / exclude of a [Ref], the options of [AnyNumberOf] /
          [Delimited], the elements of a [Sequence] up to the first non-optional token-consuming
          one, an opening bracket, and every terminator - own, context (from the certificate
          [cx] of [Pem.NoPanicCert]) and bracket set - tried by a trimming node) has a smaller
          rank;
      (3) [cx] closed under the call edges of the engine ([edges] of [Pem.NoPanicCert]).
    [compute_tc] (least fixpoint by rounds), [compute_rank] (memoised depth-first search) and
    [compute_cx] produce the certificate; [term_ok_b] is the one-pass local checker, and the
    theorem holds for any accepted certificate. *)
From Coq Require Import FMapPositive MSets.MSetPositive.
From Sq Require Import Base.Bytes Apply.Model Pem.Model Pem.NoPanicCert.

Local Open Scope N_scope.

Definition rmap := PositiveMap.t N.
Definition rank_of (rk : rmap) (n : N) : N :=
  match PositiveMap.find (key n) rk with Some r => r | None => 0 end.

Section TermCert.
  Variable g : grammar.

  (* ---------------------------------------------------------------- token-consuming nodes *)
  Definition tc_in (tc : tset) (n : N) : bool := PS.mem (key n) tc.

  (** [is_optional()] answers [false] *)
  Definition nonopt_b (e : N) : bool :=
    match get (g_nodes g) e with
    | Some i => match n_opt i with Some false => true | _ => false end
    | None => false
    end.

  Definition tc_local (tc : tset) (i : ninfo) : bool :=
    match n_node i with
    | GRef (Some t) _ _ _ => tc_in tc t
    | GRef None _ _ _ => true                                  (* aborts *)
    | GSeq d => existsb (fun e => elem_called g e && nonopt_b e && tc_in tc e) (sq_elems d)
    | GBracketed _ (Some sb) _ _ _ _ => tc_in tc sb
    | GBracketed _ None _ _ _ _ => true                        (* aborts *)
    | GAny _ | GDelim _ _ _ _ => true                          (* [longest_match] guards them *)
    | GNodeM _ gr => tc_in tc gr
    | GString _ _ | GMulti _ _ | GTyped _ _ | GRegex _ _ | GBracketSeg | GNonCode | GNothing => true
    | GMeta _ | GCond _ _ | GAnything _ => false
    end.

  Definition tc_round (tc : tset) : tset :=
    PositiveMap.fold (fun k i acc => if tc_local acc i then PS.add k acc else acc) (g_nodes g) tc.
  Definition compute_tc (rounds : nat) : tset := Nat.iter rounds tc_round PS.empty.
  Definition default_rounds : nat := 24.

  Definition tc_ok_b (tc : tset) : bool :=
    PS.for_all (fun k => match PositiveMap.find k (g_nodes g) with Some i => tc_local tc i | None => true end) tc.

  (* ---------------------------------------------------------------- calls at the own start index *)
  (** the elements of a [Sequence] that can be matched at the start index of the sequence *)
  Fixpoint seq_prefix (tc : tset) (es : list N) : list N :=
    match es with
    | [] => []
    | e :: es' =>
        if elem_called g e then e :: (if nonopt_b e && tc_in tc e then [] else seq_prefix tc es')
        else seq_prefix tc es'
    end.

  (** the matchers [trim_to_terminator] / [greedy_match] try: terminators and the bracket set *)
  Definition trim_ms (ms : list N) (useT : bool) (T : tset) : list N := greedy_ms ms useT T ++ brk g.

  Definition seq_si (tc : tset) (d : seq_d) (T : tset) : list N :=
    (if pmode_eqb (sq_mode d) Strict then [] else trim_ms (sq_terms d) true T) ++ seq_prefix tc (sq_elems d).

  Definition si (tc : tset) (i : ninfo) (T : tset) : list N :=
    match n_node i with
    | GRef (Some t) ex _ _ => t :: opt_list ex
    | GSeq d => seq_si tc d T
    | GBracketed _ (Some sb) _ _ _ _ => [sb]
    | GAny d =>
        opt_list (an_exclude d)
        ++ (if pmode_eqb (an_mode d) Greedy then trim_ms (an_terms d) (negb (an_reset d)) T else [])
        ++ an_elems d
    | GDelim d _ _ _ =>
        an_terms d ++ members T ++ (if an_gaps d then [] else [g_noncode g]) ++ an_elems d
    | GNodeM _ gr => [gr]
    | GAnything aterms => if is_empty aterms && PS.is_empty T then [] else trim_ms aterms true T
    | _ => []
    end.

  (** a keyword-like terminator that [greedy_match] may refuse must consume what it matched *)
  Definition kw_tc (tc : tset) (c : N) : bool := negb (kwlike_b g c) || tc_in tc c.

  Definition static_ok (tc : tset) (i : ninfo) (T : tset) : bool :=
    match n_node i with
    | GSeq d => pmode_eqb (sq_mode d) Strict || forallb (kw_tc tc) (trim_ms (sq_terms d) true T)
    | GBracketed _ (Some sb) (Some eb) _ _ d =>
        tc_in tc sb
        && (pmode_eqb (sq_mode d) Strict || forallb (kw_tc tc) (trim_ms (sq_terms d) true (PS.singleton (key eb))))
    | GAny d =>
        negb (pmode_eqb (an_mode d) Greedy) || forallb (kw_tc tc) (trim_ms (an_terms d) (negb (an_reset d)) T)
    | GAnything aterms =>
        (is_empty aterms && PS.is_empty T) || forallb (kw_tc tc) (trim_ms aterms true T)
    | _ => true
    end.

  (** number of ranks: every rank is below it *)
  Definition rank_bound : N := N.succ (N.of_nat (PositiveMap.cardinal (g_nodes g))).

  Section Check.
    Variable cx : cert.
    Variable tc : tset.
    Variable rk : rmap.

    Definition tentry_ok_b (p : positive * tset) : bool :=
      let n := Pos.pred_N (fst p) in
      match PositiveMap.find (fst p) (g_nodes g) with
      | Some i =>
          (rank_of rk n <? rank_bound)
          && forallb (fun c => rank_of rk c <? rank_of rk n) (si tc i (snd p))
          && static_ok tc i (snd p)
          && forallb (flows_b cx) (edges g i (snd p))
      | None => false
      end.

    Definition term_ok_b : bool :=
      tc_ok_b tc
      && forallb (tc_in tc) (brk g)
      && match g_root g with Some r => flows_b cx (r, PS.empty) | None => true end
      && forallb tentry_ok_b (PositiveMap.elements cx).
  End Check.

  (* ---------------------------------------------------------------- computing the ranks *)
  Fixpoint rank_visit (fuel : nat) (cx : cert) (tc : tset) (n : N) (rk : rmap) : rmap :=
    match fuel with
    | O => rk
    | S f =>
        match PositiveMap.find (key n) rk with
        | Some _ => rk
        | None =>
            match get (g_nodes g) n, PositiveMap.find (key n) cx with
            | Some i, Some T =>
                let cs := si tc i T in
                (* 0 marks a node in progress: a cycle yields ranks the checker rejects *)
                let rk1 := fold_left (fun r c => rank_visit f cx tc c r) cs (PositiveMap.add (key n) 0 rk) in
                PositiveMap.add (key n) (fold_left (fun m c => N.max m (N.succ (rank_of rk1 c))) cs 0) rk1
            | _, _ => PositiveMap.add (key n) 0 rk
            end
        end
    end.

  Definition compute_rank (cx : cert) (tc : tset) : rmap :=
    let fuel := S (PositiveMap.cardinal (g_nodes g)) in
    fold_left (fun r p => rank_visit fuel cx tc (Pos.pred_N (fst p)) r) (PositiveMap.elements cx)
              (PositiveMap.empty N).

  Definition term_safe_b : bool :=
    let cx := compute_cx g default_steps in
    let tc := compute_tc default_rounds in
    term_ok_b cx tc (compute_rank cx tc).
End TermCert.
