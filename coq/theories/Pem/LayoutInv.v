(** Layout non-interference of the parser-engine interpreter, part 4: the theorem on token lists.

    Two token lists are *aligned* by a list of blocks: a token kept as it is (any token; code and
    meta tokens can only be kept), or a non-empty run of *free* gap tokens (whitespace, newline,
    comment tokens that are invisible to the graph: [gap_ok_b]) replaced by another non-empty run of
    free gap tokens whose *last* token is whitespace/newline iff the original's last token is (that
    is all the keyword-terminator guard of [greedy_match] can see of a gap).  Then, for every graph that passes the
    decidable side condition [gap_safe_b], every fuel and regex oracles that agree on the kept
    tokens and never match a gap token, [parse_root] gives the same outcome on both lists and,
    on success, match results that agree node for node ([mr_sim]): same node kinds, same
    children, span ends and insert positions at corresponding block boundaries - hence the same
    code view [cview]. *)
From Coq Require Import FMapPositive Lia PeanoNat.
From Sq Require Import Base.Bytes Apply.Model Pem.Model Pem.Bounds Pem.LayoutRel Pem.LayoutSim Pem.LayoutAnch.

Local Open Scope N_scope.

Definition lenN {A} (l : list A) : N := N.of_nat (length l).
Lemma lenN_app {A} (a b : list A) : lenN (a ++ b) = lenN a + lenN b.
Proof. unfold lenN. rewrite app_length. lia. Qed.

Inductive blk := BSig (t : ptok) | BGap (w : list ptok) (x : ptok) (w' : list ptok) (x' : ptok).
Definition bleft (b : blk) : list ptok := match b with BSig t => [t] | BGap w x _ _ => w ++ [x] end.
Definition bright (b : blk) : list ptok := match b with BSig t => [t] | BGap _ _ w' x' => w' ++ [x'] end.
Definition lleft (bs : list blk) : list ptok := flat_map bleft bs.
Definition lright (bs : list blk) : list ptok := flat_map bright bs.

Definition blk_ok (g : grammar) (b : blk) : Prop :=
  match b with
  | BSig t => True
  | BGap w x w' x' => Forall (okgap g) (w ++ [x]) /\ Forall (okgap g) (w' ++ [x']) /\ wsn g x = wsn g x'
  end.

(** corresponding positions: the block boundaries *)
Definition Rb (bs : list blk) (p p' : N) : Prop :=
  exists b1 b2, bs = b1 ++ b2 /\ p = lenN (lleft b1) /\ p' = lenN (lright b1).

Lemma lleft_app a b : lleft (a ++ b) = lleft a ++ lleft b.
Proof. apply flat_map_app. Qed.
Lemma lright_app a b : lright (a ++ b) = lright a ++ lright b.
Proof. apply flat_map_app. Qed.

Lemma bleft_pos b : 0 < lenN (bleft b).
Proof. destruct b; cbn; unfold lenN; [cbn; lia|rewrite app_length; cbn; lia]. Qed.
Lemma bright_pos b : 0 < lenN (bright b).
Proof. destruct b; cbn; unfold lenN; [cbn; lia|rewrite app_length; cbn; lia]. Qed.
Lemma lleft_pos c : c <> [] -> 0 < lenN (lleft c).
Proof. destruct c as [|b c]; [congruence|]. intros _. cbn. rewrite lenN_app. pose proof (bleft_pos b). lia. Qed.
Lemma lright_pos c : c <> [] -> 0 < lenN (lright c).
Proof. destruct c as [|b c]; [congruence|]. intros _. cbn. rewrite lenN_app. pose proof (bright_pos b). lia. Qed.

Lemma rev_case {A} (l : list A) : l = [] \/ exists l0 x, l = l0 ++ [x].
Proof. destruct l as [|y l] using rev_ind; [left; reflexivity|right; eauto]. Qed.

Lemma nth_error_mid {A} (a b c : list A) (j : nat) :
  (j < length b)%nat -> nth_error (a ++ b ++ c) (length a + j) = nth_error b j.
Proof.
  intro H. rewrite nth_error_app2 by lia. replace (length a + j - length a)%nat with j by lia.
  apply nth_error_app1. exact H.
Qed.

Section Blocks.
  Variable g : grammar.
  Variable bs : list blk.
  Hypothesis Hok : Forall (blk_ok g) bs.

  Let toks := toks_of_list (lleft bs).
  Let toks' := toks_of_list (lright bs).
  Notation R := (Rb bs).

  Lemma tkl i : get toks i = nth_error (lleft bs) (N.to_nat i).
  Proof. apply get_toks_of_list. Qed.
  Lemma tkr i : get toks' i = nth_error (lright bs) (N.to_nat i).
  Proof. apply get_toks_of_list. Qed.

  (** two splits of the same block list are comparable *)
  Lemma split_cmp (a1 a2 b1 b2 : list blk) : a1 ++ a2 = b1 ++ b2 ->
    (exists c, b1 = a1 ++ c /\ a2 = c ++ b2) \/ (exists c, c <> [] /\ a1 = b1 ++ c /\ b2 = c ++ a2).
  Proof.
    revert b1. induction a1 as [|x a1 IH]; intros b1 H; cbn in H.
    - left. exists b1. split; [reflexivity|exact H].
    - destruct b1 as [|y b1]; cbn in H.
      + right. exists (x :: a1). split; [discriminate|]. split; [reflexivity|]. symmetry. exact H.
      + inversion H; subst. destruct (IH _ H2) as [(c & -> & ->)|(c & Hc & -> & ->)].
        * left. exists c. split; reflexivity.
        * right. exists c. split; [exact Hc|]. split; reflexivity.
  Qed.

  Lemma R_mono a a' b b' : R a a' -> R b b' -> (a < b <-> a' < b').
  Proof.
    intros (a1 & a2 & Ea & -> & ->) (b1 & b2 & Eb & -> & ->).
    rewrite Ea in Eb. destruct (split_cmp _ _ _ _ Eb) as [(c & -> & _)|(c & Hc & -> & _)].
    - rewrite lleft_app, lright_app, !lenN_app.
      destruct c as [|x c].
      + change (lenN (lleft [])) with 0. change (lenN (lright [])) with 0. lia.
      + pose proof (lleft_pos (x :: c) ltac:(discriminate)). pose proof (lright_pos (x :: c) ltac:(discriminate)). lia.
    - pose proof (lleft_pos c Hc). pose proof (lright_pos c Hc). rewrite lleft_app, lright_app, !lenN_app. lia.
  Qed.

  Lemma R_between b1 b b2 x x' : bs = b1 ++ b :: b2 -> R x x' ->
    ~ (lenN (lleft b1) < x < lenN (lleft (b1 ++ [b]))) /\ ~ (lenN (lright b1) < x' < lenN (lright (b1 ++ [b]))).
  Proof.
    intros E (c1 & c2 & Ec & -> & ->). rewrite E in Ec.
    destruct (split_cmp _ _ _ _ Ec) as [(c & -> & Hc)|(c & Hc & -> & _)].
    - destruct c as [|y c].
      + rewrite app_nil_r. lia.
      + cbn in Hc. inversion Hc; subst y.
        replace (b1 ++ b :: c) with ((b1 ++ [b]) ++ c) by (rewrite <- app_assoc; reflexivity).
        rewrite lleft_app, lright_app, !lenN_app. lia.
    - rewrite lleft_app, lright_app, !lenN_app. lia.
  Qed.

  Lemma blk_in b1 b b2 : bs = b1 ++ b :: b2 -> blk_ok g b.
  Proof. intro E. rewrite Forall_forall in Hok. apply Hok. rewrite E. apply in_elt. Qed.

  (** the tokens of one block *)
  Lemma tok_in_left b1 b b2 j : bs = b1 ++ b :: b2 -> (j < length (bleft b))%nat ->
    get toks (lenN (lleft b1) + N.of_nat j) = nth_error (bleft b) j.
  Proof.
    intros E Hj. rewrite tkl, E. rewrite lleft_app. cbn [lleft flat_map]. fold (lleft b2).
    replace (N.to_nat (lenN (lleft b1) + N.of_nat j)) with (length (lleft b1) + j)%nat by (unfold lenN; lia).
    apply nth_error_mid. exact Hj.
  Qed.
  Lemma tok_in_right b1 b b2 j : bs = b1 ++ b :: b2 -> (j < length (bright b))%nat ->
    get toks' (lenN (lright b1) + N.of_nat j) = nth_error (bright b) j.
  Proof.
    intros E Hj. rewrite tkr, E. rewrite lright_app. cbn [lright flat_map]. fold (lright b2).
    replace (N.to_nat (lenN (lright b1) + N.of_nat j)) with (length (lright b1) + j)%nat by (unfold lenN; lia).
    apply nth_error_mid. exact Hj.
  Qed.

  Lemma grun_of_forall (tks : PositiveMap.t ptok) (l : list ptok) (p : N) :
    l <> [] -> Forall (okgap g) l ->
    (forall j, (j < length l)%nat -> get tks (p + N.of_nat j) = nth_error l j) ->
    grun g tks p (p + lenN l).
  Proof.
    intros Hne Hall Hget. split.
    - destruct l; [congruence|]. unfold lenN. cbn. lia.
    - intros i Hi. assert (Hj : (N.to_nat (i - p) < length l)%nat) by (unfold lenN in Hi; lia).
      specialize (Hget _ Hj). replace (p + N.of_nat (N.to_nat (i - p))) with i in Hget by lia.
      destruct (nth_error l (N.to_nat (i - p))) as [t|] eqn:E; [|apply nth_error_None in E; lia].
      exists t. split; [exact Hget|]. rewrite Forall_forall in Hall. apply Hall. eapply nth_error_In; exact E.
  Qed.

  Lemma R_fwd p p' : R p p' -> fstep g toks toks' R p p'.
  Proof.
    intros (b1 & b2 & E & -> & ->). destruct b2 as [|b b2].
    - rewrite app_nil_r in E. subst b1. apply fs_end.
      + rewrite tkl. apply nth_error_None. unfold lenN. lia.
      + rewrite tkr. apply nth_error_None. unfold lenN. lia.
    - assert (Hnext : R (lenN (lleft (b1 ++ [b]))) (lenN (lright (b1 ++ [b])))).
      { exists (b1 ++ [b]), b2. rewrite <- app_assoc. auto. }
      pose proof (blk_in _ _ _ E) as Hb.
      destruct b as [t|w x w' x'].
      + apply (fs_sig _ _ _ _ _ _ t).
        * pose proof (tok_in_left b1 (BSig t) b2 0 E) as H. cbn in H. rewrite N.add_0_r in H. apply H. lia.
        * pose proof (tok_in_right b1 (BSig t) b2 0 E) as H. cbn in H. rewrite N.add_0_r in H. apply H. lia.
        * rewrite lleft_app, lright_app, !lenN_app in Hnext. exact Hnext.
      + destruct Hb as (H1 & H2 & H3).
        rewrite lleft_app, lright_app, !lenN_app in Hnext. cbn [lleft lright flat_map bleft bright] in Hnext.
        rewrite !app_nil_r in Hnext.
        eapply fs_gap with (q := lenN (lleft b1) + lenN (w ++ [x])) (q' := lenN (lright b1) + lenN (w' ++ [x'])).
        * apply grun_of_forall; [destruct w; discriminate|exact H1|].
          intros j Hj. apply (tok_in_left b1 (BGap w x w' x') b2 j E Hj).
        * apply grun_of_forall; [destruct w'; discriminate|exact H2|].
          intros j Hj. apply (tok_in_right b1 (BGap w x w' x') b2 j E Hj).
        * exact Hnext.
        * intros y y' Hy. pose proof (proj1 (R_between _ _ _ _ _ E Hy)) as Hn.
          rewrite lleft_app, lenN_app in Hn. cbn [lleft flat_map bleft] in Hn. rewrite app_nil_r in Hn. exact Hn.
        * intros y y' Hy. pose proof (proj2 (R_between _ _ _ _ _ E Hy)) as Hn.
          rewrite lright_app, lenN_app in Hn. cbn [lright flat_map bright] in Hn. rewrite app_nil_r in Hn. exact Hn.
  Qed.

  Lemma R_bwd p p' : R p p' -> bstep g toks toks' R p p'.
  Proof.
    intros (b1 & b2 & E & -> & ->). destruct (rev_case b1) as [->|(b0 & b & ->)].
    - apply bs_zero; reflexivity.
    - rewrite <- app_assoc in E. cbn in E.
      assert (Hprev : R (lenN (lleft b0)) (lenN (lright b0))) by (exists b0, (b :: b2); auto).
      pose proof (blk_in _ _ _ E) as Hb.
      rewrite lleft_app, lright_app, !lenN_app. cbn [lleft lright flat_map]. rewrite !app_nil_r.
      destruct b as [t|w x w' x'].
      + cbn [bleft bright]. unfold lenN at 2 4. cbn [length N.of_nat]. cbn.
        apply (bs_sig _ _ _ _ _ _ t); try lia.
        * replace (lenN (lleft b0) + 1 - 1) with (lenN (lleft b0) + N.of_nat 0) by lia.
          apply (tok_in_left b0 (BSig t) b2 0 E). cbn. lia.
        * replace (lenN (lright b0) + 1 - 1) with (lenN (lright b0) + N.of_nat 0) by lia.
          apply (tok_in_right b0 (BSig t) b2 0 E). cbn. lia.
        * replace (lenN (lleft b0) + 1 - 1) with (lenN (lleft b0)) by lia.
          replace (lenN (lright b0) + 1 - 1) with (lenN (lright b0)) by lia. exact Hprev.
      + destruct Hb as (H1 & H2 & H3). cbn [bleft bright].
        eapply bs_gap with (q := lenN (lleft b0)) (q' := lenN (lright b0)) (b := wsn g x).
        * apply grun_of_forall; [destruct w; discriminate|exact H1|].
          intros j Hj. apply (tok_in_left b0 (BGap w x w' x') b2 j E Hj).
        * apply grun_of_forall; [destruct w'; discriminate|exact H2|].
          intros j Hj. apply (tok_in_right b0 (BGap w x w' x') b2 j E Hj).
        * exact Hprev.
        * intros y y' Hy. pose proof (proj1 (R_between _ _ _ _ _ E Hy)) as Hn.
          rewrite lleft_app, lenN_app in Hn. cbn [lleft flat_map bleft] in Hn. rewrite app_nil_r in Hn. exact Hn.
        * intros y y' Hy. pose proof (proj2 (R_between _ _ _ _ _ E Hy)) as Hn.
          rewrite lright_app, lenN_app in Hn. cbn [lright flat_map bright] in Hn. rewrite app_nil_r in Hn. exact Hn.
        * exists x. split; [|reflexivity].
          pose proof (tok_in_left b0 (BGap w x w' x') b2 (length w) E) as H. cbn [bleft] in H.
          rewrite app_length in H. cbn in H. rewrite nth_error_app2 in H by lia. rewrite Nat.sub_diag in H. cbn in H.
          rewrite <- H by lia. f_equal. unfold lenN. rewrite app_length. cbn. lia.
        * exists x'. split; [|symmetry; exact H3].
          pose proof (tok_in_right b0 (BGap w x w' x') b2 (length w') E) as H. cbn [bright] in H.
          rewrite app_length in H. cbn in H. rewrite nth_error_app2 in H by lia. rewrite Nat.sub_diag in H. cbn in H.
          rewrite <- H by lia. f_equal. unfold lenN. rewrite app_length. cbn. lia.
  Qed.
End Blocks.

(* ------------------------------------------------------------------ the simulation theorem *)
(** the regex oracles agree on kept tokens and never match a free gap token *)
Definition rx_compat (g : grammar) (bs : list blk) (rx rx' : list (N * N)) : Prop :=
  (forall rid p p' t, Rb bs p p' -> nth_error (lleft bs) (N.to_nat p) = Some t ->
                      nth_error (lright bs) (N.to_nat p') = Some t -> rxhit rid p rx = rxhit rid p' rx')
  /\ (forall rid p t, nth_error (lleft bs) (N.to_nat p) = Some t -> okgap g t -> rxhit rid p rx = false)
  /\ (forall rid p t, nth_error (lright bs) (N.to_nat p) = Some t -> okgap g t -> rxhit rid p rx' = false).

Section Main.
  Variable g : grammar.
  Variable U : list N.
  Variable bs : list blk.
  Variables rx rx' : list (N * N).
  Hypothesis Hstatic : static_ok_b g U = true.
  Hypothesis Hok : Forall (blk_ok g) bs.
  Hypothesis Hrx : rx_compat g bs rx rx'.

  Let toks := toks_of_list (lleft bs).
  Let toks' := toks_of_list (lright bs).
  Notation R := (Rb bs).

  Lemma Hrx_sig : forall rid p p' t, R p p' -> get toks p = Some t -> get toks' p' = Some t ->
    rxhit rid p rx = rxhit rid p' rx'.
  Proof. intros rid p p' t Hp E E'. unfold toks, toks' in *. rewrite get_toks_of_list in E, E'. apply (proj1 Hrx _ _ _ t); assumption. Qed.
  Lemma Hrx_gap : forall rid p t, get toks p = Some t -> okgap g t -> rxhit rid p rx = false.
  Proof. intros rid p t E. unfold toks in E. rewrite get_toks_of_list in E. intro Hk. apply (proj1 (proj2 Hrx) _ _ t); assumption. Qed.
  Lemma Hrx_gap' : forall rid p t, get toks' p = Some t -> okgap g t -> rxhit rid p rx' = false.
  Proof. intros rid p t E. unfold toks' in E. rewrite get_toks_of_list in E. intro Hk. apply (proj2 (proj2 Hrx) _ _ t); assumption. Qed.
  Theorem match_node_layout_sim fuel : forall n p p' len len' terms,
    R p p' -> R len len' -> TA U terms ->
    res_sim (mr_sim R) (match_node g toks rx fuel n p len terms) (match_node g toks' rx' fuel n p' len' terms).
  Proof.
    induction fuel as [|f IH]; intros n p p' len len' terms Hp Hl Ht; cbn [match_node]; [exact I|].
    eapply match_node_body_sim; try eassumption.
    - apply R_mono.
    - intros. apply R_fwd; assumption.
    - intros. apply R_bwd; assumption.
    - exact Hrx_sig.
    - exact Hrx_gap.
    - exact Hrx_gap'.
    - intros. eapply match_node_anch; eassumption.
    - intros. eapply match_node_onetok; try eassumption. exact Hrx_gap.
  Qed.

  Theorem parse_root_layout_sim fuel s s' e e' : R s s' -> R e e' ->
    res_sim (mr_sim R) (parse_root g toks rx fuel s e) (parse_root g toks' rx' fuel s' e').
  Proof.
    intros Hs He. unfold parse_root. destruct (g_root g); [|reflexivity].
    apply match_node_layout_sim; try assumption. reflexivity.
  Qed.
End Main.

(* ------------------------------------------------------------------ code view *)
(** number of code tokens before position [p] *)
Definition crank (l : list ptok) (p : N) : N := lenN (filter p_code (firstn (N.to_nat p) l)).

(** node types over code tokens: the match tree with every span end replaced by its code rank
    (inserted metas dropped) *)
Inductive cv := CV (m : option matched) (s e : N) (ch : list cv).
Fixpoint cview (l : list ptok) (x : mr) : cv :=
  match x with MR s e m _ ch => CV m (crank l s) (crank l e) (map (cview l) ch) end.

(** no unparsable section anywhere in the match tree *)
Fixpoint clean_b (g : grammar) (x : mr) : bool :=
  match x with
  | MR _ _ m _ ch =>
      negb (match m with Some (MKind k) => k =? k_unparsable g | _ => false end) && forallb (clean_b g) ch
  end.

Lemma filter_code_block g b : blk_ok g b -> filter p_code (bleft b) = filter p_code (bright b).
Proof.
  destruct b as [t|w x w' x']; [reflexivity|]. intros (H1 & H2 & _). cbn [bleft bright].
  assert (Hn : forall l, Forall (okgap g) l -> filter p_code l = []).
  { induction 1 as [|t l Ht _ IH]; [reflexivity|]. cbn. rewrite (okgap_code g t Ht). exact IH. }
  rewrite (Hn _ H1), (Hn _ H2). reflexivity.
Qed.
Lemma filter_code_blocks g b1 : Forall (blk_ok g) b1 -> filter p_code (lleft b1) = filter p_code (lright b1).
Proof.
  induction 1 as [|b b1 Hb _ IH]; [reflexivity|].
  cbn [lleft lright flat_map]. rewrite !filter_app. fold (lleft b1) (lright b1).
  rewrite IH, (filter_code_block g b Hb). reflexivity.
Qed.

Lemma crank_sim g bs p p' : Forall (blk_ok g) bs -> Rb bs p p' -> crank (lleft bs) p = crank (lright bs) p'.
Proof.
  intros Hok (b1 & b2 & -> & -> & ->). unfold crank.
  rewrite lleft_app, lright_app.
  replace (N.to_nat (lenN (lleft b1))) with (length (lleft b1)) by (unfold lenN; lia).
  replace (N.to_nat (lenN (lright b1))) with (length (lright b1)) by (unfold lenN; lia).
  rewrite !firstn_app, !Nat.sub_diag, !firstn_all. cbn [firstn]. rewrite !app_nil_r.
  apply Forall_app in Hok as [Hok1 _]. rewrite (filter_code_blocks g b1 Hok1). reflexivity.
Qed.

Lemma cview_sim g bs : Forall (blk_ok g) bs ->
  forall m m', mr_sim (Rb bs) m m' -> cview (lright bs) m' = cview (lleft bs) m.
Proof.
  intro Hok. fix IH 3. intros m m' H. destruct H as [s s' e e' mt i i' c c' Hs He Hi Hc]. cbn [cview].
  rewrite (crank_sim g bs _ _ Hok Hs), (crank_sim g bs _ _ Hok He). f_equal.
  induction Hc as [|x y c c' Hxy Hc IHc]; [reflexivity|]. cbn [map]. rewrite (IH _ _ Hxy), IHc. reflexivity.
Qed.

Lemma clean_sim g R : forall m m', mr_sim R m m' -> clean_b g m' = clean_b g m.
Proof.
  fix IH 3. intros m m' H. destruct H as [s s' e e' mt i i' c c' Hs He Hi Hc]. cbn [clean_b]. f_equal.
  induction Hc as [|x y c c' Hxy Hc IHc]; [reflexivity|]. cbn [forallb]. rewrite (IH _ _ Hxy), IHc. reflexivity.
Qed.

(* ------------------------------------------------------------------ the code span of a token list *)
(** [FileSegment::root_parse] hands the grammar the span from the first to the last code token *)
Definition cstart (l : list ptok) : N := match position p_code l with Some i => i | None => 0 end.
Definition cend (l : list ptok) : N := match rposition_succ p_code l with Some i => i | None => cstart l end.

Lemma position_app {A} (f : A -> bool) (a b : list A) : (forall x, In x a -> f x = false) ->
  position f (a ++ b) = option_map (fun i => lenN a + i) (position f b).
Proof.
  induction a as [|x a IH]; intro H; cbn [app position].
  - destruct (position f b); cbn [option_map]; [f_equal; unfold lenN; cbn [length]; lia|reflexivity].
  - rewrite (H x (or_introl eq_refl)). rewrite IH by (intros; apply H; right; assumption).
    destruct (position f b); cbn [option_map]; [f_equal; unfold lenN; cbn [length]; lia|reflexivity].
Qed.
Lemma rposition_app_none {A} (f : A -> bool) (a b : list A) : (forall x, In x b -> f x = false) ->
  rposition_succ f (a ++ b) = rposition_succ f a.
Proof.
  intro Hb. assert (Hn : rposition_succ f b = None).
  { induction b as [|x b IH]; [reflexivity|]. cbn. rewrite IH by (intros; apply Hb; right; assumption).
    rewrite (Hb x (or_introl eq_refl)). reflexivity. }
  induction a as [|x a IH]; cbn [app rposition_succ]; [exact Hn|]. rewrite IH. reflexivity.
Qed.
Lemma rposition_app_some {A} (f : A -> bool) (a b : list A) i : rposition_succ f b = Some i ->
  rposition_succ f (a ++ b) = Some (lenN a + i).
Proof.
  intro Hb. induction a as [|x a IH]; cbn [app rposition_succ].
  - rewrite Hb. reflexivity.
  - rewrite IH. f_equal. unfold lenN. cbn [length]. lia.
Qed.

Lemma noncode_block g b : blk_ok g b -> (forall t, b <> BSig t \/ p_code t = false) ->
  (forall x, In x (bleft b) -> p_code x = false) /\ (forall x, In x (bright b) -> p_code x = false).
Proof.
  destruct b as [t|w x w' x']; intros Hb Hc.
  - destruct (Hc t) as [H|H]; [congruence|]. split; intros y [<-|[]]; exact H.
  - destruct Hb as (H1 & H2 & _). rewrite Forall_forall in H1, H2.
    split; intros y Hy; [exact (okgap_code g y (H1 y Hy))|exact (okgap_code g y (H2 y Hy))].
Qed.

Lemma cstart_sim g bs : Forall (blk_ok g) bs -> Rb bs (cstart (lleft bs)) (cstart (lright bs)).
Proof.
  intro Hok. unfold cstart.
  assert (H : forall b1 b2, bs = b1 ++ b2 ->
            match position p_code (lleft b2), position p_code (lright b2) with
            | Some i, Some i' => Rb bs (lenN (lleft b1) + i) (lenN (lright b1) + i')
            | None, None => True
            | _, _ => False
            end).
  { intros b1 b2. revert b1. induction b2 as [|b b2 IH]; intros b1 E; [exact I|].
    assert (Hb : blk_ok g b) by (rewrite Forall_forall in Hok; apply Hok; rewrite E; apply in_elt).
    cbn [lleft lright flat_map]. fold (lleft b2) (lright b2).
    destruct b as [t|w x w' x'] eqn:Eb.
    - cbn [bleft bright app position]. destruct (p_code t) eqn:Ec.
      + rewrite !N.add_0_r. exists b1, (BSig t :: b2). auto.
      + specialize (IH (b1 ++ [BSig t])). rewrite <- app_assoc in IH. specialize (IH E).
        rewrite lleft_app, lright_app, !lenN_app in IH. cbn in IH.
        destruct (position p_code (lleft b2)), (position p_code (lright b2)); cbn; try exact IH.
        replace (lenN (lleft b1) + N.succ n) with (lenN (lleft b1) + lenN [t] + n) by (unfold lenN; cbn; lia).
        replace (lenN (lright b1) + N.succ n0) with (lenN (lright b1) + lenN [t] + n0) by (unfold lenN; cbn; lia).
        exact IH.
    - destruct (noncode_block g (BGap w x w' x') Hb) as [Hl Hr]; [intro; left; discriminate|].
      cbn [bleft bright] in *. rewrite (position_app _ _ _ Hl), (position_app _ _ _ Hr).
      specialize (IH (b1 ++ [BGap w x w' x'])). rewrite <- app_assoc in IH. specialize (IH E).
      rewrite lleft_app, lright_app, !lenN_app in IH. cbn [lleft lright flat_map bleft bright] in IH.
      rewrite !app_nil_r in IH.
      destruct (position p_code (lleft b2)), (position p_code (lright b2)); cbn; try exact IH.
      rewrite !N.add_assoc. exact IH. }
  specialize (H [] bs eq_refl). cbn in H.
  destruct (position p_code (lleft bs)), (position p_code (lright bs)); try contradiction; [exact H|].
  exists [], bs. auto.
Qed.

Lemma cend_sim g bs : Forall (blk_ok g) bs -> Rb bs (cend (lleft bs)) (cend (lright bs)).
Proof.
  intro Hok. unfold cend.
  assert (H : forall b1 b2, bs = b1 ++ b2 ->
            match rposition_succ p_code (lleft b1), rposition_succ p_code (lright b1) with
            | Some i, Some i' => Rb bs i i'
            | None, None => True
            | _, _ => False
            end).
  { intros b1. induction b1 as [|b b1 IH] using rev_ind; intros b2 E; [exact I|].
    rewrite <- app_assoc in E. cbn in E.
    assert (Hb : blk_ok g b) by (rewrite Forall_forall in Hok; apply Hok; rewrite E; apply in_elt).
    specialize (IH _ E). rewrite lleft_app, lright_app. cbn [lleft lright flat_map]. rewrite !app_nil_r.
    destruct b as [t|w x w' x'] eqn:Eb.
    - cbn [bleft bright]. destruct (p_code t) eqn:Ec.
      + rewrite (rposition_app_some p_code (lleft b1) [t] 1), (rposition_app_some p_code (lright b1) [t] 1)
          by (cbn; rewrite Ec; reflexivity).
        exists (b1 ++ [BSig t]), b2. rewrite <- app_assoc. split; [exact E|].
        rewrite lleft_app, lright_app, !lenN_app. split; reflexivity.
      + rewrite !rposition_app_none by (intros y [<-|[]]; exact Ec). exact IH.
    - destruct (noncode_block g (BGap w x w' x') Hb) as [Hl Hr]; [intro; left; discriminate|].
      cbn [bleft bright] in *. rewrite !rposition_app_none by assumption. exact IH. }
  specialize (H bs [] (eq_sym (app_nil_r bs))).
  destruct (rposition_succ p_code (lleft bs)), (rposition_succ p_code (lright bs)); try contradiction; [exact H|].
  apply (cstart_sim g bs Hok).
Qed.

Lemma code_span_sim g bs : Forall (blk_ok g) bs ->
  Rb bs (cstart (lleft bs)) (cstart (lright bs)) /\ Rb bs (cend (lleft bs)) (cend (lright bs)).
Proof. intro H. split; [exact (cstart_sim g bs H)|exact (cend_sim g bs H)]. Qed.

(* ------------------------------------------------------------------ the property-level statement *)
(** Layout clause of C11 on the interpreter: if the root grammar matches the code span of the first
    list without unparsable sections, it matches the code span of the second list, again without
    unparsable sections, and the two match trees have the same code view. *)
Theorem pem_layout_invariant g bs rx rx' fuel m :
  gap_safe_b g = true -> Forall (blk_ok g) bs -> rx_compat g bs rx rx' ->
  parse_root g (toks_of_list (lleft bs)) rx fuel (cstart (lleft bs)) (cend (lleft bs)) = ROk m ->
  clean_b g m = true ->
  exists m', parse_root g (toks_of_list (lright bs)) rx' fuel (cstart (lright bs)) (cend (lright bs)) = ROk m'
             /\ clean_b g m' = true /\ cview (lright bs) m' = cview (lleft bs) m.
Proof.
  intros Hs Hok Hrx H Hc.
  pose proof (parse_root_layout_sim g (compute_U g) bs rx rx' Hs Hok Hrx fuel _ _ _ _
                (cstart_sim g bs Hok) (cend_sim g bs Hok)) as Hsim.
  rewrite H in Hsim.
  destruct (parse_root g (toks_of_list (lright bs)) rx' fuel (cstart (lright bs)) (cend (lright bs))) as [m'| | |];
    cbn in Hsim; try contradiction.
  exists m'. split; [reflexivity|]. split.
  - rewrite (clean_sim g _ _ _ Hsim). exact Hc.
  - apply (cview_sim g bs Hok). exact Hsim.
Qed.

(** and whatever the outcome: the same class of result (parse error, the same abort, out of fuel) *)
Theorem pem_layout_same_outcome g bs rx rx' fuel s s' e e' :
  gap_safe_b g = true -> Forall (blk_ok g) bs -> rx_compat g bs rx rx' -> Rb bs s s' -> Rb bs e e' ->
  match parse_root g (toks_of_list (lleft bs)) rx fuel s e, parse_root g (toks_of_list (lright bs)) rx' fuel s' e' with
  | ROk m, ROk m' => clean_b g m' = clean_b g m /\ cview (lright bs) m' = cview (lleft bs) m
  | RErr, RErr => True
  | RPanic p, RPanic p' => p = p'
  | RFuel, RFuel => True
  | _, _ => False
  end.
Proof.
  intros Hs Hok Hrx Hss Hee.
  pose proof (parse_root_layout_sim g (compute_U g) bs rx rx' Hs Hok Hrx fuel _ _ _ _ Hss Hee) as Hsim.
  destruct (parse_root g (toks_of_list (lleft bs)) rx fuel s e),
           (parse_root g (toks_of_list (lright bs)) rx' fuel s' e'); cbn in Hsim; try contradiction; auto.
  split; [apply (clean_sim g _ _ _ Hsim)|apply (cview_sim g bs Hok); exact Hsim].
Qed.

(* ------------------------------------------------------------------ deciding the alignment of two lists *)
Definition ptok_eqb (a b : ptok) : bool :=
  Bool.eqb (p_code a) (p_code b) && Bool.eqb (p_meta a) (p_meta b) && (p_kind a =? p_kind b)
  && list_eqb N.eqb (p_types a) (p_types b) && (p_upper a =? p_upper b) && (p_ftr a =? p_ftr b)
  && opt_eqb N.eqb (p_fnw a) (p_fnw b).

Lemma list_eqb_N_eq (a b : list N) : list_eqb N.eqb a b = true -> a = b.
Proof.
  revert b. induction a as [|x a IH]; destruct b as [|y b]; cbn; intro H; try discriminate; [reflexivity|].
  apply andb_true_iff in H as [H1 H2]. apply N.eqb_eq in H1. rewrite (IH _ H2), H1. reflexivity.
Qed.
Lemma ptok_eqb_eq a b : ptok_eqb a b = true -> a = b.
Proof.
  unfold ptok_eqb. intro H. repeat (apply andb_true_iff in H as [H ?]).
  destruct a as [c1 m1 k1 ty1 u1 f1 w1], b as [c2 m2 k2 ty2 u2 f2 w2]; cbn in *.
  repeat match goal with
         | H : Bool.eqb _ _ = true |- _ => apply Bool.eqb_prop in H
         | H : (_ =? _) = true |- _ => apply N.eqb_eq in H
         | H : list_eqb _ _ _ = true |- _ => apply list_eqb_N_eq in H
         end.
  subst. f_equal. destruct w1, w2; cbn in *; try discriminate; [|reflexivity].
  match goal with H : (_ =? _) = true |- _ => apply N.eqb_eq in H; subst end. reflexivity.
Qed.

(** the maximal run of free gap tokens at the head *)
Definition freeb (g : grammar) (t : ptok) : bool := gapb t && gap_ok_b g t.
Fixpoint span_free (g : grammar) (l : list ptok) : list ptok * list ptok :=
  match l with
  | t :: r => if freeb g t then let (w, r') := span_free g r in (t :: w, r') else ([], l)
  | [] => ([], [])
  end.
Lemma span_free_app g l : fst (span_free g l) ++ snd (span_free g l) = l.
Proof.
  induction l as [|t l IH]; [reflexivity|]. cbn. destruct (freeb g t); [|reflexivity].
  destruct (span_free g l) as [w r]. cbn in *. rewrite IH. reflexivity.
Qed.

(** blocks from the two lists: tokens that are not free must be equal and pair up, maximal runs of
    free gap tokens pair up *)
Fixpoint blocks_of (g : grammar) (fuel : nat) (l l' : list ptok) : option (list blk) :=
  match fuel with
  | O => None
  | S f =>
      match l, l' with
      | [], [] => Some []
      | t :: r, t' :: r' =>
          if negb (freeb g t) then
            if ptok_eqb t t' then option_map (cons (BSig t)) (blocks_of g f r r') else None
          else if negb (freeb g t') then None
          else
            let (w, rest) := span_free g l in
            let (w', rest') := span_free g l' in
            match rev w, rev w' with
            | x :: wr, x' :: wr' => option_map (cons (BGap (rev wr) x (rev wr') x')) (blocks_of g f rest rest')
            | _, _ => None
            end
      | _, _ => None
      end
  end.

Lemma blocks_of_sound g f : forall l l' bs, blocks_of g f l l' = Some bs -> lleft bs = l /\ lright bs = l'.
Proof.
  induction f as [|f IH]; intros l l' bs H; cbn [blocks_of] in H; [discriminate|].
  destruct l as [|t r], l' as [|t' r']; try discriminate.
  - inversion H; subst. split; reflexivity.
  - destruct (negb (freeb g t)).
    + destruct (ptok_eqb t t') eqn:E; [|discriminate]. apply ptok_eqb_eq in E. subst t'.
      destruct (blocks_of g f r r') as [bs0|] eqn:E0; [|discriminate]. inversion H; subst.
      destruct (IH _ _ _ E0) as [<- <-]. split; reflexivity.
    + destruct (negb (freeb g t')); [discriminate|].
      pose proof (span_free_app g (t :: r)) as S1. pose proof (span_free_app g (t' :: r')) as S2.
      destruct (span_free g (t :: r)) as [w rest]. destruct (span_free g (t' :: r')) as [w' rest'].
      cbn [fst snd] in S1, S2.
      destruct (rev w) as [|x wr] eqn:Ew; [discriminate|]. destruct (rev w') as [|x' wr'] eqn:Ew'; [discriminate|].
      destruct (blocks_of g f rest rest') as [bs0|] eqn:E0; [|discriminate]. inversion H; subst bs.
      destruct (IH _ _ _ E0) as [H1 H2].
      assert (Hw : w = rev wr ++ [x]) by (rewrite <- (rev_involutive w), Ew; reflexivity).
      assert (Hw' : w' = rev wr' ++ [x']) by (rewrite <- (rev_involutive w'), Ew'; reflexivity).
      cbn [lleft lright flat_map bleft bright]. fold (lleft bs0) (lright bs0).
      rewrite H1, H2, <- Hw, <- Hw', S1, S2. split; reflexivity.
Qed.

Definition blk_ok_b (g : grammar) (b : blk) : bool :=
  match b with
  | BSig t => true
  | BGap w x w' x' =>
      forallb (fun t => gapb t && gap_ok_b g t) (w ++ [x]) && forallb (fun t => gapb t && gap_ok_b g t) (w' ++ [x'])
      && Bool.eqb (wsn g x) (wsn g x')
  end.
Lemma blk_ok_b_ok g b : blk_ok_b g b = true -> blk_ok g b.
Proof.
  destruct b as [t|w x w' x']; cbn; [auto|]. intro H.
  apply andb_true_iff in H as [H H3]. apply andb_true_iff in H as [H1 H2].
  assert (Hf : forall l, forallb (fun t => gapb t && gap_ok_b g t) l = true -> Forall (okgap g) l).
  { intros l Hl. rewrite forallb_forall in Hl. apply Forall_forall. intros t Ht.
    specialize (Hl t Ht). apply andb_true_iff in Hl. exact Hl. }
  split; [apply Hf; exact H1|]. split; [apply Hf; exact H2|]. apply Bool.eqb_prop. exact H3.
Qed.

(** [l'] is a layout variant of [l] the graph [g] cannot tell apart *)
Definition layout_blocks (g : grammar) (l l' : list ptok) : option (list blk) :=
  match blocks_of g (S (length l + length l')) l l' with
  | Some bs => if forallb (blk_ok_b g) bs then Some bs else None
  | None => None
  end.
Definition layout_related_b (g : grammar) (l l' : list ptok) : bool := is_some (layout_blocks g l l').

Lemma layout_blocks_sound g l l' bs : layout_blocks g l l' = Some bs ->
  lleft bs = l /\ lright bs = l' /\ Forall (blk_ok g) bs.
Proof.
  unfold layout_blocks. destruct (blocks_of g _ l l') as [bs0|] eqn:E; [|discriminate].
  destruct (forallb (blk_ok_b g) bs0) eqn:Ef; [|discriminate]. intro H. inversion H; subst bs0.
  destruct (blocks_of_sound _ _ _ _ _ E) as [H1 H2]. split; [exact H1|]. split; [exact H2|].
  rewrite forallb_forall in Ef. apply Forall_forall. intros b Hb. apply blk_ok_b_ok. apply Ef. exact Hb.
Qed.

(* ------------------------------------------------------------------ regex oracles *)
(** a regex parser sees one token: an oracle is a function of the regex and the token.  Tables that
    record such an oracle on the two lists are compatible as soon as the oracle rejects gap tokens. *)
Definition rx_records (orx : N -> ptok -> bool) (l : list ptok) (rx : list (N * N)) : Prop :=
  forall rid i t, nth_error l (N.to_nat i) = Some t -> rxhit rid i rx = orx rid t.

Lemma rx_compat_of_oracle g orx bs rx rx' :
  rx_records orx (lleft bs) rx -> rx_records orx (lright bs) rx' ->
  (forall rid t, okgap g t -> In t (lleft bs) \/ In t (lright bs) -> orx rid t = false) ->
  rx_compat g bs rx rx'.
Proof.
  intros H1 H2 Hg. split; [|split].
  - intros rid p p' t _ E E'. rewrite (H1 _ _ _ E), (H2 _ _ _ E'). reflexivity.
  - intros rid p t E Hgap. rewrite (H1 _ _ _ E). apply Hg; [exact Hgap|left; eapply nth_error_In; exact E].
  - intros rid p t E Hgap. rewrite (H2 _ _ _ E). apply Hg; [exact Hgap|right; eapply nth_error_In; exact E].
Qed.

(** the statement on plain token lists *)
Theorem pem_layout_invariant_lists g l l' orx rx rx' fuel m :
  gap_safe_b g = true -> layout_related_b g l l' = true ->
  rx_records orx l rx -> rx_records orx l' rx' ->
  (forall rid t, okgap g t -> In t l \/ In t l' -> orx rid t = false) ->
  parse_root g (toks_of_list l) rx fuel (cstart l) (cend l) = ROk m -> clean_b g m = true ->
  exists m', parse_root g (toks_of_list l') rx' fuel (cstart l') (cend l') = ROk m'
             /\ clean_b g m' = true /\ cview l' m' = cview l m.
Proof.
  intros Hs Hr H1 H2 Hg. unfold layout_related_b in Hr.
  destruct (layout_blocks g l l') as [bs|] eqn:E; [|discriminate].
  destruct (layout_blocks_sound _ _ _ _ E) as (<- & <- & Hok).
  apply pem_layout_invariant; try assumption.
  eapply rx_compat_of_oracle; eassumption.
Qed.

(* ------------------------------------------------------------------ the property's perturbations as alignments *)
Lemma lleft_keep l : lleft (map BSig l) = l.
Proof. unfold lleft. induction l as [|t l IH]; [reflexivity|]. cbn. rewrite IH. reflexivity. Qed.
Lemma lright_keep l : lright (map BSig l) = l.
Proof. unfold lright. induction l as [|t l IH]; [reflexivity|]. cbn. rewrite IH. reflexivity. Qed.

(** one site: a run of free gap tokens (whitespace, newlines, comments the graph cannot see) is replaced by
    another one whose last token has the same class - "replace a whitespace run by other whitespace or
    newlines", "double a blank line", "insert a comment inside whitespace", "insert an inline comment before a
    newline".  Several sites at once are a block list with several [BGap]s. *)
Lemma layout_one_site g pre post w x w' x' :
  Forall (okgap g) (w ++ [x]) -> Forall (okgap g) (w' ++ [x']) -> wsn g x = wsn g x' ->
  exists bs, Forall (blk_ok g) bs /\ lleft bs = pre ++ (w ++ [x]) ++ post /\ lright bs = pre ++ (w' ++ [x']) ++ post.
Proof.
  intros H1 H2 H3. exists (map BSig pre ++ BGap w x w' x' :: map BSig post). split; [|split].
  - apply Forall_app. split; [apply Forall_forall; intros b Hb; apply in_map_iff in Hb as (t & <- & _); exact I|].
    constructor; [cbn; auto|]. apply Forall_forall. intros b Hb. apply in_map_iff in Hb as (t & <- & _). exact I.
  - rewrite lleft_app. cbn [lleft flat_map bleft]. fold (lleft (map BSig post)). rewrite !lleft_keep. reflexivity.
  - rewrite lright_app. cbn [lright flat_map bright]. fold (lright (map BSig post)). rewrite !lright_keep. reflexivity.
Qed.
