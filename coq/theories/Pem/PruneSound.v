(** Pruning transparency, part 2: soundness of the first-token hints with respect to the engine.

    [hint_sound] (end of file): on a graph that passes [hints_ok_b g sc], a node in scope whose dumped
    hint [h] excludes the code token standing at [idx] never answers with a match - whatever the slice,
    the context terminators, the regex oracle, the fuel and the behaviour of the nodes outside the scope.
    One lemma per engine algorithm ([longest_loop], [longest_match], [Sequence], [AnyNumberOf],
    [Delimited], [Bracketed], the leaves), for any open-recursion argument that is itself sound
    ([Hrec]); the knot is tied by induction on the fuel in [Pem.PruneProofs]. *)
From Coq Require Import FMapPositive MSets.MSetPositive Lia.
From Sq Require Import Base.Bytes Apply.Model Pem.Model Pem.Bounds Pem.PruneDef.

Local Open Scope N_scope.

(* ------------------------------------------------------------------ lists *)
Lemma memN_In x l : memN x l = true <-> In x l.
Proof.
  unfold memN. rewrite existsb_exists. split.
  - intros (y & Hy & E). apply N.eqb_eq in E. subst. exact Hy.
  - intro H. exists x. split; [exact H|apply N.eqb_refl].
Qed.
Lemma subl_mem a b x : subl a b = true -> memN x a = true -> memN x b = true.
Proof.
  unfold subl. rewrite forallb_forall. intros H Hx. apply memN_In in Hx. exact (H _ Hx).
Qed.
Lemma intersects_sub a b c : subl b c = true -> intersects a b = true -> intersects a c = true.
Proof.
  unfold intersects. rewrite !existsb_exists. intros H (x & Hx & Hm). exists x. split; [exact Hx|].
  eapply subl_mem; eassumption.
Qed.
Lemma intersects_mem a b x : memN x a = true -> memN x b = true -> intersects a b = true.
Proof. unfold intersects. rewrite existsb_exists. intros Ha Hb. exists x. split; [apply memN_In; exact Ha|exact Hb]. Qed.

Lemma has_match_false_len m : has_match m = false -> mr_end m - mr_start m = 0.
Proof.
  unfold has_match. intro H. apply orb_false_iff in H as [H _]. apply negb_false_iff in H. b2p. lia.
Qed.
Lemma has_match_empty i : has_match (empty_at i) = false.
Proof. unfold has_match, empty_at. cbn. rewrite N.eqb_refl. reflexivity. Qed.

Section Sound.
  Variable g : grammar.
  Variable sc : PSet.t.
  Hypothesis Hok : hints_ok_b g sc = true.
  Variable tk : PositiveMap.t ptok.     (* the tokens the interpreter runs on *)
  Variable rx : list (N * N).

  (** node [n] is in scope and its dumped hint is [h] *)
  Definition Hinted (n : N) (h : hint) : Prop :=
    exists i, get (g_nodes g) n = Some i /\ hint_of i = Some h /\ in_sc sc n = true.
  (** a code token that hint [h] excludes stands at [idx] *)
  Definition Out (h : hint) (idx len : N) : Prop :=
    exists t, idx < len /\ get tk idx = Some t /\ outside g h t = true
              /\ memN (p_kind t) (p_types t) = true /\ memN (p_kind t) (risky_kinds g sc) = false.
  (** never a match *)
  Definition NM (r : res mr) : Prop := forall m, r = ROk m -> has_match m = false.

  Lemma node_ok_of n i : get (g_nodes g) n = Some i -> node_ok g sc (key n, i) = true.
  Proof.
    intro H. unfold hints_ok_b in Hok. rewrite forallb_forall in Hok. apply Hok.
    unfold gnodes. apply PositiveMap.elements_correct. exact H.
  Qed.
  Lemma just_of n h i : get (g_nodes g) n = Some i -> hint_of i = Some h -> in_sc sc n = true -> just g sc i h = true.
  Proof.
    intros H Hh Hs. pose proof (node_ok_of _ _ H) as J. unfold node_ok in J. apply andb_true_iff in J as [_ J].
    cbn [fst snd] in J. unfold in_sc in Hs. rewrite Hs, Hh in J. exact J.
  Qed.

  Lemma child_hinted h c : child_ok g sc h c = true -> exists hc, Hinted c hc /\ hsub hc h = true.
  Proof.
    unfold child_ok. destruct (get (g_nodes g) c) as [ic|] eqn:E; [|discriminate].
    destruct (hint_of ic) as [hc|] eqn:Eh; [|discriminate]. intro H. apply andb_true_iff in H as [H1 H2].
    exists hc. split; [exists ic; auto|exact H1].
  Qed.
  Lemma Out_sub hc h idx len : hsub hc h = true -> Out h idx len -> Out hc idx len.
  Proof.
    intros Hs (t & H1 & H2 & H3 & H4 & H5). exists t. repeat split; auto.
    unfold hsub in Hs. apply andb_true_iff in Hs as [Hr Ht].
    unfold outside in *. apply andb_true_iff in H3 as [H3 Hty]. apply andb_true_iff in H3 as [Hc Hraw].
    rewrite Hc. cbn [andb]. apply andb_true_iff. split.
    - apply negb_true_iff. apply negb_true_iff in Hraw. apply andb_false_iff in Hraw as [Hraw|Hraw].
      + destruct (memN (p_upper t) (fst hc)) eqn:E; [|reflexivity].
        rewrite (subl_mem _ _ _ Hr E) in Hraw. discriminate.
      + rewrite Hraw. apply andb_false_r.
    - apply negb_true_iff. apply negb_true_iff in Hty.
      destruct (intersects (p_types t) (snd hc)) eqn:E; [|reflexivity].
      rewrite (intersects_sub _ _ _ Ht E) in Hty. discriminate.
  Qed.

  (** templates and risky kinds really list the nodes of the graph *)
  Lemma in_templates n i x :
    get (g_nodes g) n = Some i ->
    match n_node i with GString up _ => x = up | GMulti ups _ => In x ups | _ => False end ->
    memN x (templates g) = true.
  Proof.
    intros H Hx. apply memN_In. unfold templates. apply in_flat_map. exists (key n, i). split.
    - unfold gnodes. apply PositiveMap.elements_correct. exact H.
    - cbn [snd]. destruct (n_node i); try contradiction; [left; auto|exact Hx].
  Qed.
  Lemma in_risky n i k gr h :
    get (g_nodes g) n = Some i -> n_node i = GNodeM k gr -> hint_of i = Some h -> in_sc sc n = true ->
    memN k (snd h) = false -> memN k (risky_kinds g sc) = true.
  Proof.
    intros H En Hh Hs Hk. apply memN_In. unfold risky_kinds. apply in_flat_map. exists (key n, i). split.
    - unfold gnodes. apply PositiveMap.elements_correct. exact H.
    - cbn [fst snd]. rewrite En, Hh. unfold in_sc in Hs. rewrite Hs, Hk. left. reflexivity.
  Qed.

  (* ---------------------------------------------------------------- token loops at a code token *)
  Lemma tok_at len i t : i < len -> get tk i = Some t -> tok tk len i = ROk t.
  Proof. intros H1 H2. unfold tok. apply N.ltb_lt in H1. rewrite H1, H2. reflexivity. Qed.
  Lemma skip_fwd_code len i t : i < len -> get tk i = Some t -> p_code t = true -> skip_fwd tk len i len = ROk i.
  Proof.
    intros H1 H2 H3. unfold skip_fwd. cbn [skip_fwd_aux]. rewrite (tok_at _ _ _ H1 H2).
    apply N.ltb_lt in H1. rewrite H1. cbn [bind]. rewrite H3. reflexivity.
  Qed.
  Lemma out_code h idx len : Out h idx len -> exists t, idx < len /\ get tk idx = Some t /\ p_code t = true.
  Proof.
    intros (t & H1 & H2 & H3 & _). exists t. repeat split; auto.
    unfold outside in H3. apply andb_true_iff in H3 as [H3 _]. apply andb_true_iff in H3 as [H3 _]. exact H3.
  Qed.

  Lemma prune_aux_sub r tys opts : forall a, prune_aux g r tys opts = ROk a -> incl a opts.
  Proof.
    induction opts as [|o opts IH]; intros a H; cbn [prune_aux] in H; [inversion H; intros x []|].
    inv_bind H. inv_bind H. specialize (IH _ Ha0).
    destruct a0 as [[[raws tys'] al]|].
    - destruct (memN r raws || intersects tys tys'); inversion H; subst.
      + intros x [Hx|Hx]; [left; exact Hx|right; apply IH; exact Hx].
      + intros x Hx. right. apply IH. exact Hx.
    - inversion H; subst. intros x [Hx|Hx]; [left; exact Hx|right; apply IH; exact Hx].
  Qed.
  Lemma prune_sub opts len idx a : prune g tk opts len idx = ROk a -> incl a opts.
  Proof.
    unfold prune. destruct (first_nonws tk len idx) as [[r tys]|].
    - apply prune_aux_sub.
    - intro H. inversion H. intros x Hx. exact Hx.
  Qed.

  (* ================================================================ with the recursive matcher *)
  Section WithRec.
    Variable rec : N -> N -> N -> list N -> res mr.
    Hypothesis Hrec : forall n h idx len terms, Hinted n h -> Out h idx len -> NM (rec n idx len terms).

    Lemma rec_child h c idx len terms : child_ok g sc h c = true -> Out h idx len -> NM (rec c idx len terms).
    Proof.
      intros Hc HO. destruct (child_hinted _ _ Hc) as (hc & Hh & Hs).
      eapply Hrec; [exact Hh|]. eapply Out_sub; eassumption.
    Qed.

    (* -------------------------------------------------------------- longest_match over options that never match *)
    Lemma longest_loop_nm opts idx len terms :
      (forall o, In o opts -> NM (rec o idx len terms)) ->
      forall best bm v, longest_loop g tk rec opts idx len terms best bm = ROk v -> v = (best, bm).
    Proof.
      induction opts as [|o opts IH]; intros Hall best bm v H; cbn [longest_loop] in H.
      - inversion H. reflexivity.
      - inv_bind H. inv_bind H. rename a0 into r.
        pose proof (Hall o (or_introl eq_refl) r Ha0) as Hr.
        rewrite Hr in H. cbn [andb] in H.
        unfold mlen at 2 in H. rewrite (has_match_false_len _ Hr) in H.
        assert (E : (mlen best <? 0) = false) by (apply N.ltb_ge; lia). rewrite E in H.
        apply IH in H; [exact H|]. intros o' Ho'. apply Hall. right. exact Ho'.
    Qed.

    Lemma longest_match_nm len ms idx terms :
      (forall o, In o ms -> NM (rec o idx len terms)) ->
      forall m mo, longest_match g tk rec len ms idx terms = ROk (m, mo) -> m = empty_at idx.
    Proof.
      intros Hall m mo H. unfold longest_match in H.
      destruct (is_empty ms || (idx =? len)); [inversion H; reflexivity|].
      inv_bind H. rename a into avail. destruct (is_empty avail); [inversion H; reflexivity|].
      inv_bind H. apply longest_loop_nm in H; [inversion H; reflexivity|].
      intros o Ho. apply Hall. eapply prune_sub; eassumption.
    Qed.

    (* -------------------------------------------------------------- Sequence *)
    Definition st0 (idx len : N) : sstate := mkS idx len [] [] true [].

    Lemma opt_of_flag e b : opt_of g e = ROk b -> opt_flag g e = Some b.
    Proof.
      unfold opt_of, opt_flag, info. destruct (get (g_nodes g) e) as [i|]; cbn [bind]; [|discriminate].
      destruct (n_opt i); intro H; inversion H. reflexivity.
    Qed.

    Lemma seq_elem_nm fl d h idx len terms e r :
      pmode_eqb (sq_mode d) Greedy = false -> Out h idx len ->
      child_ok g sc h e = true -> is_meta_node g e = false ->
      seq_elem g tk rec fl d len idx terms (st0 idx len) e = ROk r ->
      (r = Cont (st0 idx len) /\ opt_flag g e = Some true)
      \/ (exists m, r = Ret m /\ has_match m = false /\ opt_flag g e <> Some true).
    Proof.
      intros Hmode HO Hc Hmeta H.
      pose proof (rec_child h e idx len terms Hc HO) as Hnm.
      destruct (out_code _ _ _ HO) as (t & Hlt & Ht & Hcode).
      unfold seq_elem in H. unfold is_meta_node in Hmeta. unfold info in H.
      destruct (get (g_nodes g) e) as [ie|] eqn:Ee; [|discriminate]. cbn [bind] in H.
      assert (Hgen :
        (idx' <- (if sq_gaps d then skip_fwd tk len (s_matched (st0 idx len)) (s_max (st0 idx len)) else ROk (s_matched (st0 idx len))) ;;
         if s_max (st0 idx len) <=? idx' then
           o <- opt_of g e ;;
           if o then ROk (Cont (st0 idx len))
           else if pmode_eqb (sq_mode d) Strict || (s_matched (st0 idx len) =? idx) then ROk (Ret (empty_at idx))
           else ROk (Ret (MR idx (s_matched (st0 idx len)) (Some (MKind (k_unparsable g)))
                             (s_ins (st0 idx len) ++ map (fun k => (s_matched (st0 idx len), k)) (s_buf (st0 idx len))) (s_ch (st0 idx len))))
         else
           (if len <? s_max (st0 idx len) then RPanic PIndex else ROk tt) ;;;
           em <- rec e idx' (s_max (st0 idx len)) terms ;;
           if negb (has_match em) then
             o <- opt_of g e ;;
             if o then ROk (Cont (st0 idx len))
             else if pmode_eqb (sq_mode d) Strict then ROk (Ret (empty_at idx))
             else if pmode_eqb (sq_mode d) GreedyOnceStarted && (s_matched (st0 idx len) =? idx) then ROk (Ret (empty_at idx))
             else if s_matched (st0 idx len) =? idx then ROk (Ret (unparsable g idx (s_max (st0 idx len))))
             else
               u <- skip_fwd tk len (s_matched (st0 idx len)) (s_max (st0 idx len)) ;;
               ROk (Ret (MR idx (s_max (st0 idx len)) None (s_ins (st0 idx len)) (s_ch (st0 idx len) ++ [unparsable g u (s_max (st0 idx len))])))
           else
             let ins := s_ins (st0 idx len) ++ flush_metas g (s_matched (st0 idx len)) idx' (s_buf (st0 idx len)) in
             let matched_idx' := mr_end em in
             newmax <- (if s_first (st0 idx len) && pmode_eqb (sq_mode d) GreedyOnceStarted
                        then trim_to_terminator g tk rec fl len matched_idx' (sq_terms d ++ terms) terms
                        else ROk (s_max (st0 idx len))) ;;
             let first' := if pmode_eqb (sq_mode d) GreedyOnceStarted then false else s_first (st0 idx len) in
             if is_some (mr_matched em)
             then ROk (Cont (mkS matched_idx' newmax ins (s_ch (st0 idx len) ++ [em]) first' []))
             else ROk (Cont (mkS matched_idx' newmax (ins ++ mr_ins em) (s_ch (st0 idx len) ++ mr_ch em) first' []))) = ROk r).
      { destruct (n_node ie); try discriminate; exact H. }
      clear H. cbn [st0 s_matched s_max s_ins s_ch s_first s_buf] in Hgen.
      assert (Hidx : (if sq_gaps d then skip_fwd tk len idx len else ROk idx) = ROk idx)
        by (destruct (sq_gaps d); [eapply skip_fwd_code; eassumption|reflexivity]).
      rewrite Hidx in Hgen. cbn [bind] in Hgen.
      assert (E1 : (len <=? idx) = false) by (apply N.leb_gt; exact Hlt). rewrite E1 in Hgen.
      assert (E2 : (len <? len) = false) by (apply N.ltb_ge; lia). rewrite E2 in Hgen. cbn [bind] in Hgen.
      inv_bind Hgen. rename a into em. rewrite (Hnm em Ha) in Hgen. cbn [negb] in Hgen.
      inv_bind Hgen. rename a into o. apply opt_of_flag in Ha0. destruct o.
      - inversion Hgen; subst. left. auto.
      - right. rewrite N.eqb_refl, andb_true_r in Hgen.
        destruct (sq_mode d); cbn [pmode_eqb] in *; try discriminate;
          (inversion Hgen; subst; eexists; split; [reflexivity|split; [apply has_match_empty|rewrite Ha0; discriminate]]).
    Qed.

    Lemma seq_loop_nm fl d h idx len terms : pmode_eqb (sq_mode d) Greedy = false -> Out h idx len ->
      forall es r,
        forallb (fun e => child_ok g sc h e && negb (is_meta_node g e)) (seq_prefix g es) = true ->
        seq_loop g tk rec fl d len idx terms (st0 idx len) es = ROk r ->
        (r = Cont (st0 idx len) /\ seq_closed g es = false) \/ (exists m, r = Ret m /\ has_match m = false).
    Proof.
      intros Hmode HO. induction es as [|e es IH]; intros r Hp H; cbn [seq_loop] in H.
      - inversion H. left. auto.
      - cbn [seq_prefix forallb] in Hp. apply andb_true_iff in Hp as [He Hp].
        apply andb_true_iff in He as [Hc Hm]. apply negb_true_iff in Hm.
        inv_bind H. destruct (seq_elem_nm _ _ _ _ _ _ _ _ Hmode HO Hc Hm Ha) as [[-> Ho]|(m & -> & Hm' & Ho)].
        + rewrite Ho in Hp. cbn [seq_closed]. rewrite Ho. apply IH; assumption.
        + inversion H; subst. right. eauto.
    Qed.

    Lemma match_sequence_nm fl d h idx len terms :
      negb (pmode_eqb (sq_mode d) Greedy) && (pmode_eqb (sq_mode d) Strict || seq_closed g (sq_elems d))
      && forallb (fun e => child_ok g sc h e && negb (is_meta_node g e)) (seq_prefix g (sq_elems d)) = true ->
      Out h idx len -> NM (match_sequence g tk rec fl d len idx terms).
    Proof.
      intros J HO m H. apply andb_true_iff in J as [J Jp]. apply andb_true_iff in J as [Jg Jc].
      apply negb_true_iff in Jg. unfold match_sequence in H. rewrite Jg in H. cbn [bind] in H.
      inv_bind H. fold (st0 idx len) in Ha.
      destruct (seq_loop_nm _ _ _ _ _ _ Jg HO _ _ Jp Ha) as [[-> Hcl]|(m' & -> & Hm')].
      - rewrite Hcl, orb_false_r in Jc. rewrite Jc in H. cbn [negb andb st0 s_matched s_max s_ins s_buf s_ch map app] in H.
        inversion H. unfold has_match. cbn. rewrite N.eqb_refl. reflexivity.
      - inversion H; subst. exact Hm'.
    Qed.

    (* -------------------------------------------------------------- AnyNumberOf *)
    Lemma match_anynumberof_nm fl d h idx len terms :
      pmode_eqb (an_mode d) Strict && forallb (child_ok g sc h) (an_elems d) = true ->
      Out h idx len -> NM (match_anynumberof g tk rec fl d len idx terms).
    Proof.
      intros J HO m H. apply andb_true_iff in J as [Jm Je]. rewrite forallb_forall in Je.
      destruct (out_code _ _ _ HO) as (t & Hlt & Ht & Hcode).
      unfold match_anynumberof in H. inv_bind H. destruct a; [inversion H; apply has_match_empty|].
      inv_bind H. rename a into counters.
      assert (Eg : pmode_eqb (an_mode d) Greedy = false) by (destruct (an_mode d); cbn in *; congruence).
      rewrite Eg in H. cbn [bind] in H.
      assert (E2 : (len <? len) = false) by (apply N.ltb_ge; lia). rewrite E2 in H. cbn [bind] in H.
      destruct fl as [|fl]; cbn [any_loop] in H; [discriminate|].
      assert (Epm : forall cur mx, parse_mode_result g tk len cur mx (an_mode d) = ROk cur)
        by (intros; unfold parse_mode_result; rewrite Jm; reflexivity).
      assert (E1 : (len <=? idx) = false) by (apply N.leb_gt; exact Hlt). rewrite E1, andb_false_r in H. cbn [orb] in H.
      destruct (opt_le (an_max d) 0); [rewrite Epm in H; inversion H; apply has_match_empty|].
      inv_bind H. destruct a as [m1 mo].
      apply longest_match_nm in Ha1.
      2:{ intros o Ho. eapply rec_child; [apply Je; exact Ho|exact HO]. }
      subst m1. rewrite has_match_empty in H. cbn [negb] in H. rewrite Epm in H.
      destruct (0 <? an_min d); inversion H; apply has_match_empty.
    Qed.

    (* -------------------------------------------------------------- Delimited *)
    Lemma delim_finish_empty tr mn idx dl v :
      delim_finish tr mn idx false None dl (empty_at idx) = ROk v -> has_match v = false.
    Proof. unfold delim_finish. destruct (dl <? mn); intro H; inversion H; apply has_match_empty. Qed.

    Lemma match_delimited_nm fl d delim tr mn h idx len terms :
      forallb (child_ok g sc h) (an_elems d) = true ->
      Out h idx len -> NM (match_delimited g tk rec fl d delim tr mn len idx terms).
    Proof.
      intros Je HO m H. rewrite forallb_forall in Je.
      destruct (out_code _ _ _ HO) as (t & Hlt & Ht & Hcode).
      unfold match_delimited in H. destruct fl as [|fl]; cbn [delim_loop] in H; [discriminate|].
      assert (E0 : (idx <? idx) = false) by (apply N.ltb_ge; lia). rewrite E0, andb_false_r in H. cbn [bind] in H.
      assert (E1 : (len <=? idx) = false) by (apply N.leb_gt; exact Hlt). rewrite E1 in H.
      inv_bind H. destruct a as [tm tmo]. destruct (has_match tm); [eapply delim_finish_empty; exact H|].
      inv_bind H. destruct a as [m1 mo].
      apply longest_match_nm in Ha0.
      2:{ intros o Ho. eapply rec_child; [apply Je; exact Ho|exact HO]. }
      subst m1. rewrite has_match_empty in H. cbn [negb] in H. eapply delim_finish_empty; exact H.
    Qed.

    (* -------------------------------------------------------------- one node *)
    Lemma wrap_nomatch m k : has_match m = false -> wrap m k = m.
    Proof. intro H. unfold wrap, mr_is_empty. rewrite H. reflexivity. Qed.

    Lemma body_nm fl n h idx len terms :
      Hinted n h -> Out h idx len -> NM (match_node_body g tk rx rec fl n idx len terms).
    Proof.
      intros (i & Hi & Hh & Hs) HO m H.
      pose proof (just_of _ _ _ Hi Hh Hs) as J.
      pose proof HO as HO'. destruct HO' as (t & Hlt & Ht & Hout & Hkt & Hrisk).
      unfold match_node_body in H. unfold info in H. rewrite Hi in H. cbn [bind] in H.
      unfold just in J. unfold outside in Hout.
      apply andb_true_iff in Hout as [Hout Hty]. apply andb_true_iff in Hout as [Hcode Hraw].
      apply negb_true_iff in Hraw, Hty.
      destruct (n_node i) eqn:En; try discriminate.
      - (* Ref *)
        destruct target as [t'|]; [|discriminate].
        inv_bind H. destruct a; [inversion H; apply has_match_empty|].
        eapply rec_child; eassumption.
      - (* Sequence *) eapply match_sequence_nm; eassumption.
      - (* Bracketed *)
        unfold match_bracketed in H. destruct found; [|discriminate]. cbn [negb] in H.
        destruct bstart as [sb|]; [|destruct bend; discriminate]. destruct bend as [eb|]; [|discriminate].
        inv_bind H. rename a into sm.
        rewrite (rec_child h sb idx len terms J HO sm Ha) in H. cbn [negb] in H.
        inversion H. apply has_match_empty.
      - (* AnyNumberOf *) eapply match_anynumberof_nm; eassumption.
      - (* Delimited *) eapply match_delimited_nm; eassumption.
      - (* NodeMatcher *)
        assert (E1 : (len <=? idx) = false) by (apply N.leb_gt; exact Hlt). rewrite E1 in H.
        rewrite (tok_at _ _ _ Hlt Ht) in H. cbn [bind] in H.
        destruct (p_kind t =? kind) eqn:Ek.
        + exfalso. b2p. subst kind.
          destruct (memN (p_kind t) (snd h)) eqn:Em.
          * rewrite (intersects_mem _ _ _ Hkt Em) in Hty. discriminate.
          * rewrite (in_risky _ _ _ _ _ Hi En Hh Hs Em) in Hrisk. discriminate.
        + inv_bind H. inversion H; subst.
          pose proof (rec_child h grammar idx len terms J HO a Ha) as Hm. rewrite (wrap_nomatch _ _ Hm). exact Hm.
      - (* String *)
        rewrite (tok_at _ _ _ Hlt Ht) in H. cbn [bind] in H.
        destruct (p_code t && (p_upper t =? upper)) eqn:E; [|inversion H; apply has_match_empty].
        exfalso. apply andb_true_iff in E as [_ E]. b2p. subst upper.
        rewrite J in Hraw. rewrite (in_templates n i (p_upper t) Hi) in Hraw; [discriminate|rewrite En; reflexivity].
      - (* MultiString *)
        rewrite (tok_at _ _ _ Hlt Ht) in H. cbn [bind] in H.
        destruct (p_code t && memN (p_upper t) uppers) eqn:E; [|inversion H; apply has_match_empty].
        exfalso. apply andb_true_iff in E as [_ E].
        rewrite (subl_mem _ _ _ J E) in Hraw. rewrite (in_templates n i (p_upper t) Hi) in Hraw; [discriminate|].
        rewrite En. apply memN_In. exact E.
      - (* Typed *)
        rewrite (tok_at _ _ _ Hlt Ht) in H. cbn [bind] in H.
        destruct (p_kind t =? template) eqn:E; [|inversion H; apply has_match_empty].
        exfalso. b2p. subst template. rewrite (intersects_mem _ _ _ Hkt J) in Hty. discriminate.
    Qed.
  End WithRec.
End Sound.
