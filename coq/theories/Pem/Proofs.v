(** Theorems about the parser-engine interpreter.

    [pem_dangling_sound]: whatever the tokens, regex answers, fuel, start node and context, the
    interpreter can only abort with "Grammar refers to ... which was not found" at a grammar node
    whose reference really is missing from the dumped dialect ([dangling_b]) — or, for the
    bracket-set / FileSegment references, when [brackets_closed_b] is false.  Hence for a closed
    graph ([pem_closed_b g = true], decided by [vm_compute] on the generated grammar file) no
    input can make the parser abort that way: the third sentence of property C14, as a theorem
    about the interpreter that is validated against the real parser. *)
From Coq Require Import FMapPositive.
From Sq Require Import Base.Bytes Apply.Model Pem.Model.

Section Dangling.
  Variable g : grammar.

  Definition node_dangling (i : ninfo) : bool :=
    match n_node i with
    | GRef None _ _ _ => true
    | GBracketed true None _ _ _ _ => true
    | GBracketed true (Some _) None _ _ _ => true
    | _ => false
    end.
  Definition dangling_b (r : N) : bool :=
    match get (g_nodes g) r with Some i => node_dangling i | None => false end.
  Definition brackets_closed_b : bool :=
    forallb (fun b => is_some (fst (fst b)) && is_some (snd (fst b))) (g_brackets g) && is_some (g_root g).

  (** a result is acceptable if a dangling-reference abort is justified by the graph *)
  Definition OKP {A} (x : res A) : Prop :=
    (forall r, x = RPanic (PDangling r) -> dangling_b r = true)
    /\ (x = RPanic PDanglingBracket -> brackets_closed_b = false).

  Definition is_dang (p : panic) : bool :=
    match p with PDangling _ | PDanglingBracket => true | _ => false end.

  Lemma okp_ok {A} (a : A) : OKP (ROk a).
  Proof. split; intros; discriminate. Qed.
  Lemma okp_err {A} : OKP (@RErr A).
  Proof. split; intros; discriminate. Qed.
  Lemma okp_fuel {A} : OKP (@RFuel A).
  Proof. split; intros; discriminate. Qed.
  Lemma okp_other {A} p : is_dang p = false -> OKP (@RPanic A p).
  Proof. intro H. split; intros; match goal with E : RPanic _ = RPanic _ |- _ => inversion E; subst end; discriminate. Qed.
  Lemma okp_bind {A B} (x : res A) (f : A -> res B) : OKP x -> (forall a, OKP (f a)) -> OKP (bind x f).
  Proof.
    intros [H1 H2] Hf. destruct x as [a| |p|]; cbn.
    - apply Hf.
    - apply okp_err.
    - split.
      + intros r E. apply H1. inversion E. reflexivity.
      + intros E. apply H2. inversion E. reflexivity.
    - apply okp_fuel.
  Qed.

  Lemma okp_retype {A B} p : OKP (@RPanic A p) -> OKP (@RPanic B p).
  Proof.
    intros [H1 H2]. split.
    - intros r E. apply H1. inversion E. reflexivity.
    - intros E. apply H2. inversion E. reflexivity.
  Qed.

  (** one step of the generic proof search *)
  Ltac okp1 :=
    match goal with
    | |- OKP (ROk _) => apply okp_ok
    | |- OKP RErr => apply okp_err
    | |- OKP RFuel => apply okp_fuel
    | |- OKP (RPanic PIndex) => apply okp_other; reflexivity
    | |- OKP (RPanic PUnwrap) => apply okp_other; reflexivity
    | |- OKP (RPanic PUnimpl) => apply okp_other; reflexivity
    | |- OKP (RPanic PDump) => apply okp_other; reflexivity
    | H : _ |- OKP _ => solve [apply H]
    | |- OKP (bind _ _) => apply okp_bind; [ | intros ]
    | |- OKP (if ?b then _ else _) => destruct b
    | |- OKP (match ?x with _ => _ end) => destruct x
    | |- OKP (let '(_, _) := ?x in _) => destruct x
    end.
  Ltac okp := repeat okp1.

  Section WithData.
    Variable toks : PositiveMap.t ptok.
    Variable rx : list (N * N).

    Lemma info_okp n : OKP (info g n).
    Proof. unfold info. okp. Qed.
    Lemma tok_okp len i : OKP (tok toks len i).
    Proof. unfold tok. okp. Qed.
    Lemma simple_of_okp n : OKP (simple_of g n).
    Proof. unfold simple_of. pose proof (info_okp n). okp. Qed.
    Lemma opt_of_okp n : OKP (opt_of g n).
    Proof. unfold opt_of. pose proof (info_okp n). okp. Qed.
    Lemma ckey_of_okp n : OKP (ckey_of g n).
    Proof. unfold ckey_of. pose proof (info_okp n). okp. Qed.

    Lemma skip_fwd_aux_okp n : forall len idx max, OKP (skip_fwd_aux toks n len idx max).
    Proof. induction n as [|n IH]; intros; cbn [skip_fwd_aux]; pose proof tok_okp; okp. Qed.
    Lemma skip_fwd_okp len idx max : OKP (skip_fwd toks len idx max).
    Proof. apply skip_fwd_aux_okp. Qed.
    Lemma skip_back_aux_okp n : forall len idx mn, OKP (skip_back_aux toks n len idx mn).
    Proof. induction n as [|n IH]; intros; cbn [skip_back_aux]; pose proof tok_okp; okp. Qed.
    Lemma skip_back_okp len idx mn : OKP (skip_back toks len idx mn).
    Proof. apply skip_back_aux_okp. Qed.
    Lemma all_noncode_aux_okp n : forall len a b, OKP (all_noncode_aux toks n len a b).
    Proof. induction n as [|n IH]; intros; cbn [all_noncode_aux]; pose proof tok_okp; okp. Qed.
    Lemma all_noncode_okp len a b : OKP (all_noncode toks len a b).
    Proof. unfold all_noncode. pose proof all_noncode_aux_okp. okp. Qed.

    Lemma prune_aux_okp r tys opts : OKP (prune_aux g r tys opts).
    Proof. induction opts as [|o opts IH]; cbn [prune_aux]; pose proof simple_of_okp; okp. Qed.
    Lemma prune_okp opts len idx : OKP (prune g toks opts len idx).
    Proof. unfold prune. pose proof prune_aux_okp. okp. Qed.

    Lemma noncode_scan_okp n : forall len i, OKP (noncode_scan toks n len i).
    Proof. induction n as [|n IH]; intros; cbn [noncode_scan]; pose proof tok_okp; okp. Qed.
    Lemma allowable_scan_okp n : forall len i d, OKP (allowable_scan g toks n len i d).
    Proof. induction n as [|n IH]; intros; cbn [allowable_scan]; pose proof tok_okp; okp. Qed.
    Lemma init_counters_okp es : OKP (init_counters g es).
    Proof. induction es as [|e es IH]; cbn [init_counters]; pose proof ckey_of_okp; okp. Qed.
    Lemma nm_candidates_okp ms t : OKP (nm_candidates g ms t).
    Proof. induction ms as [|m ms IH]; cbn [nm_candidates]; pose proof simple_of_okp; okp. Qed.
    Lemma nm_check_simple_okp ms : OKP (nm_check_simple g ms).
    Proof. induction ms as [|m ms IH]; cbn [nm_check_simple]; pose proof simple_of_okp; okp. Qed.

    Lemma resolve_refs_okp l : brackets_closed_b = true -> forallb (fun o : option N => is_some o) l = true ->
      OKP (resolve_refs l).
    Proof.
      intros _. induction l as [|[x|] l IH]; cbn; intro H; okp.
      - apply IH. exact H.
      - discriminate.
    Qed.
    (** without the closure premise: a bracket abort is justified by [brackets_closed_b = false] *)
    Lemma resolve_refs_okp' (f : option N * option N * bool -> option N) :
      (forall b, f b = fst (fst b)) \/ (forall b, f b = snd (fst b)) ->
      OKP (resolve_refs (map f (g_brackets g))).
    Proof.
      intro Hf.
      assert (Hgen : forall l, (forall b, In b l -> In b (g_brackets g)) -> OKP (resolve_refs (map f l))).
      { induction l as [|b l IH]; intro Hin; cbn; [okp|].
        destruct (f b) as [x|] eqn:E.
        - apply okp_bind; [apply IH; intros; apply Hin; right; assumption|intros; okp].
        - split; [intros; discriminate|]. intros _.
          unfold brackets_closed_b. apply andb_false_iff. left.
          apply not_true_is_false. intro Hall. rewrite forallb_forall in Hall.
          specialize (Hall b (Hin b (or_introl eq_refl))).
          apply andb_true_iff in Hall as [Ha Hb].
          destruct Hf as [Hf|Hf]; rewrite Hf in E; [rewrite E in Ha|rewrite E in Hb]; discriminate. }
      apply Hgen. auto.
    Qed.

    (* ------------------------------------------------------------ with the recursive matcher *)
    Section WithRec.
      Variable rec : N -> N -> N -> list N -> res mr.
      Hypothesis Hrec : forall n i l t, OKP (rec n i l t).

      Lemma any_matches_okp ts i len terms : OKP (any_matches rec ts i len terms).
      Proof. induction ts as [|t ts IH]; cbn [any_matches]; okp. Qed.
      Lemma first_term_matches_okp ts i len terms : OKP (first_term_matches rec ts i len terms).
      Proof. induction ts as [|t ts IH]; cbn [first_term_matches]; okp. Qed.
      Lemma first_matching_okp cs i len terms : OKP (first_matching rec cs i len terms).
      Proof. induction cs as [|c cs IH]; cbn [first_matching]; okp. Qed.

      Lemma longest_loop_okp opts : forall idx len terms best bm,
        OKP (longest_loop g toks rec opts idx len terms best bm).
      Proof.
        induction opts as [|o opts IH]; intros; cbn [longest_loop];
          pose proof ckey_of_okp; pose proof skip_fwd_okp; pose proof any_matches_okp; okp.
      Qed.
      Lemma longest_match_okp len ms idx terms : OKP (longest_match g toks rec len ms idx terms).
      Proof. unfold longest_match. pose proof prune_okp. pose proof tok_okp. pose proof longest_loop_okp. okp. Qed.

      Lemma next_match_scan_okp n : forall i len ms terms, OKP (next_match_scan g toks rec n i len ms terms).
      Proof.
        induction n as [|n IH]; intros; cbn [next_match_scan];
          pose proof tok_okp; pose proof nm_candidates_okp; pose proof first_matching_okp; okp.
      Qed.
      Lemma next_match_okp len idx ms terms : OKP (next_match g toks rec len idx ms terms).
      Proof. unfold next_match. pose proof nm_check_simple_okp. pose proof next_match_scan_okp. okp. Qed.

      Lemma rb_loop_okp fl : forall len opening ti starts ends pers terms nested mi ch,
        OKP (rb_loop g toks rec fl len opening ti starts ends pers terms nested mi ch).
      Proof.
        induction fl as [|fl IH]; intros; cbn [rb_loop]; pose proof next_match_okp; okp.
      Qed.
      Lemma resolve_bracket_okp fl len opening opener starts ends pers terms nested :
        OKP (resolve_bracket g toks rec fl len opening opener starts ends pers terms nested).
      Proof. unfold resolve_bracket. pose proof rb_loop_okp. okp. Qed.

      Lemma neb_loop_okp k : forall fl len idx ms starts ends pers terms mi ch,
        OKP (neb_loop g toks rec k fl len idx ms starts ends pers terms mi ch).
      Proof.
        induction k as [|k IH]; intros; cbn [neb_loop];
          pose proof next_match_okp; pose proof resolve_bracket_okp; okp.
      Qed.
      Lemma next_ex_bracket_match_okp fl len idx ms terms :
        OKP (next_ex_bracket_match g toks rec fl len idx ms terms).
      Proof.
        unfold next_ex_bracket_match. pose proof neb_loop_okp.
        destruct (len <=? idx); [okp|].
        apply okp_bind; [apply resolve_refs_okp'; left; reflexivity|intros].
        apply okp_bind; [apply resolve_refs_okp'; right; reflexivity|intros]. okp.
      Qed.

      Lemma greedy_loop_okp k : forall fl len idx ms terms it nested w ch,
        OKP (greedy_loop g toks rec k fl len idx ms terms it nested w ch).
      Proof.
        induction k as [|k IH]; intros; cbn [greedy_loop];
          pose proof next_ex_bracket_match_okp; pose proof simple_of_okp; pose proof allowable_scan_okp;
          pose proof skip_back_okp; okp.
      Qed.
      Lemma greedy_match_okp fl len idx ms terms it nested :
        OKP (greedy_match g toks rec fl len idx ms terms it nested).
      Proof. apply greedy_loop_okp. Qed.

      Lemma trim_to_terminator_okp fl len idx ts terms : OKP (trim_to_terminator g toks rec fl len idx ts terms).
      Proof.
        unfold trim_to_terminator. pose proof prune_okp. pose proof first_term_matches_okp.
        pose proof greedy_match_okp. pose proof skip_back_okp. okp.
      Qed.

      Lemma seq_elem_okp fl d len si terms st e : OKP (seq_elem g toks rec fl d len si terms st e).
      Proof.
        unfold seq_elem. pose proof info_okp. pose proof skip_fwd_okp. pose proof opt_of_okp.
        pose proof trim_to_terminator_okp.
        apply okp_bind; [apply info_okp|intros ie].
        destruct (n_node ie); okp.
      Qed.
      Lemma seq_loop_okp fl d len si terms es : forall st, OKP (seq_loop g toks rec fl d len si terms st es).
      Proof. induction es as [|e es IH]; intros; cbn [seq_loop]; pose proof seq_elem_okp; okp. Qed.
      Lemma match_sequence_okp fl d len idx terms : OKP (match_sequence g toks rec fl d len idx terms).
      Proof.
        unfold match_sequence. pose proof trim_to_terminator_okp. pose proof seq_loop_okp.
        pose proof skip_fwd_okp. pose proof skip_back_okp. okp.
      Qed.

      Lemma parse_mode_result_okp len cur mx mode : OKP (parse_mode_result g toks len cur mx mode).
      Proof. unfold parse_mode_result. pose proof all_noncode_okp. pose proof skip_fwd_okp. okp. Qed.

      Lemma any_loop_okp k : forall d len idx mx terms nm cs mi wi m,
        OKP (any_loop g toks rec k d len idx mx terms nm cs mi wi m).
      Proof.
        induction k as [|k IH]; intros; cbn [any_loop];
          pose proof parse_mode_result_okp; pose proof longest_match_okp; pose proof ckey_of_okp;
          pose proof skip_fwd_okp; okp.
      Qed.
      Lemma match_anynumberof_okp fl d len idx terms : OKP (match_anynumberof g toks rec fl d len idx terms).
      Proof.
        unfold match_anynumberof. pose proof init_counters_okp. pose proof trim_to_terminator_okp.
        pose proof any_loop_okp. okp.
      Qed.

      Lemma delim_finish_okp tr mn idx sk dm dl wm : OKP (delim_finish tr mn idx sk dm dl wm).
      Proof. unfold delim_finish. okp. Qed.
      Lemma delim_loop_okp k : forall d delim tr mn len idx terms tms dl sk w wm dm,
        OKP (delim_loop g toks rec k d delim tr mn len idx terms tms dl sk w wm dm).
      Proof.
        induction k as [|k IH]; intros; cbn [delim_loop];
          pose proof skip_fwd_okp; pose proof longest_match_okp; pose proof delim_finish_okp; okp.
      Qed.
      Lemma match_delimited_okp fl d delim tr mn len idx terms :
        OKP (match_delimited g toks rec fl d delim tr mn len idx terms).
      Proof. unfold match_delimited. apply delim_loop_okp. Qed.

      Lemma match_bracketed_okp fl self found bs be pers gaps d len idx terms :
        get (g_nodes g) self = Some (mkInfo (GBracketed found bs be pers gaps d)
                                           (n_opt (mkInfo (GBracketed found bs be pers gaps d) None None None)) None None)
        \/ True ->
        (found = true -> (bs = None \/ be = None) -> dangling_b self = true) ->
        OKP (match_bracketed g toks rec fl self found bs be pers gaps d len idx terms).
      Proof.
        intros _ Hd. unfold match_bracketed.
        pose proof resolve_bracket_okp. pose proof skip_fwd_okp. pose proof skip_back_okp.
        pose proof match_sequence_okp.
        destruct found; cbn [negb]; [|okp].
        destruct bs as [sb|]; [destruct be as [eb|]|].
        - okp.
        - split; [|intros; discriminate]. intros r E. inversion E; subst. apply Hd; auto.
        - split; [|intros; discriminate]. intros r E. inversion E; subst. apply Hd; auto.
      Qed.

      Lemma match_node_body_okp fl n idx len terms : OKP (match_node_body g toks rx rec fl n idx len terms).
      Proof.
        unfold match_node_body.
        pose proof tok_okp. pose proof match_sequence_okp. pose proof match_anynumberof_okp.
        pose proof match_delimited_okp. pose proof greedy_match_okp. pose proof noncode_scan_okp.
        unfold info. destruct (get (g_nodes g) n) as [i|] eqn:Ei; cbn [bind]; [|okp].
        destruct i as [nd o sm ck]. cbn [n_node].
        destruct nd.
        - (* GRef *)
          destruct target as [t|].
          + apply okp_bind; [|intros; okp].
            destruct exclude as [e|]; [|okp].
            pose proof (Hrec e idx len (deeper g reset terms0 terms)) as He.
            destruct (rec e idx len (deeper g reset terms0 terms)); okp.
            apply (okp_retype (A := mr)). exact He.
          + split; [|intros; discriminate]. intros r E. inversion E; subst.
            unfold dangling_b. rewrite Ei. reflexivity.
        - okp.
        - apply match_bracketed_okp; [right; exact I|].
          intros -> Hn. unfold dangling_b. rewrite Ei. cbn.
          destruct bstart; [destruct bend; [destruct Hn; discriminate|reflexivity]|reflexivity].
        - okp.
        - okp.
        - okp.
        - okp.
        - okp.
        - okp.
        - okp.
        - okp.
        - okp.
        - okp.
        - okp.
        - okp.
        - okp.
      Qed.
    End WithRec.

    Theorem match_node_okp fuel : forall n idx len terms, OKP (match_node g toks rx fuel n idx len terms).
    Proof.
      induction fuel as [|f IH]; intros; cbn [match_node]; [apply okp_fuel|].
      apply match_node_body_okp. exact IH.
    Qed.

    Theorem parse_root_okp fuel s e : OKP (parse_root g toks rx fuel s e).
    Proof.
      unfold parse_root. destruct (g_root g) eqn:E; [apply match_node_okp|].
      split; [intros; discriminate|]. intros _. unfold brackets_closed_b. rewrite E.
      apply andb_false_r.
    Qed.
  End WithData.

  (** decidable closure of a dumped graph *)
  Definition pem_closed_b : bool :=
    forallb (fun p => negb (node_dangling (snd p))) (PositiveMap.elements (g_nodes g)) && brackets_closed_b.

  Lemma pem_closed_no_dangling : pem_closed_b = true -> forall r, dangling_b r = false.
  Proof.
    unfold pem_closed_b. intro H. apply andb_true_iff in H as [H _]. intro r.
    unfold dangling_b, get. destruct (PositiveMap.find (key r) (g_nodes g)) as [i|] eqn:E; [|reflexivity].
    apply PositiveMap.elements_correct in E.
    rewrite forallb_forall in H. specialize (H _ E). cbn in H. apply negb_true_iff in H. exact H.
  Qed.

  (** C14, third sentence: on a closed graph no input makes the parser abort with
      "Grammar refers to ... which was not found". *)
  Theorem pem_closed_never_dangling :
    pem_closed_b = true ->
    forall toks rx fuel s e p, parse_root g toks rx fuel s e = RPanic p -> is_dang p = false.
  Proof.
    intros Hc toks rx fuel s e p E.
    destruct (parse_root_okp toks rx fuel s e) as [H1 H2].
    destruct p; try reflexivity.
    - specialize (H1 _ E). rewrite (pem_closed_no_dangling Hc) in H1. discriminate.
    - specialize (H2 E). unfold pem_closed_b in Hc. apply andb_true_iff in Hc as [_ Hc]. congruence.
  Qed.

  (** and in general: an abort of that kind names a node whose reference is missing *)
  Theorem pem_dangling_sound :
    forall toks rx fuel s e r, parse_root g toks rx fuel s e = RPanic (PDangling r) -> dangling_b r = true.
  Proof. intros toks rx fuel s e r E. exact (proj1 (parse_root_okp toks rx fuel s e) r E). Qed.
End Dangling.
