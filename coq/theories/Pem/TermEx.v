(** Witnesses for [Pem.Term]:
    - graphs that satisfy [term_safe_b] and to which the theorem applies (non-vacuity), and
    - why the side condition is there: for each clause a small graph that violates only it and on
      which the interpreter - the validated model of the real engine - does not answer: a
      left-recursive reference (for every fuel, by induction), a zero-width opening bracket and a
      zero-width keyword terminator ([vm_compute] with growing fuel). *)
From Coq Require Import FMapPositive Lia.
From Sq Require Import Base.Bytes Apply.Model Pem.Model Pem.WfExamples Pem.NoPanicCert Pem.NoPanic Pem.NoPanicEx
  Pem.TermCert Pem.Term.

Local Open Scope N_scope.

(* ------------------------------------------------------------------ non-vacuity *)
(** the Greedy Sequence [a a*] terminated by the keyword [c], with a bracket set ([Pem.NoPanicEx]) *)
Example ex_kw_term_safe : term_safe_b g_kw = true.
Proof. vm_compute. reflexivity. Qed.

(** the theorem applied: whatever the tokens, the regex table and the span, the parse answers within the bound *)
Example ex_kw_terminates : forall l rx s e, s <= e ->
  parse_root g_kw (toks_of_list l) rx (fuel_bound g_kw (e - s)) s e <> RFuel.
Proof. intros l rx s e Hse. apply (parse_terminates_bound g_kw ex_kw_term_safe); [exact Hse|lia]. Qed.

Example ex_kw_bound : fuel_bound g_kw 5 = 68%nat.
Proof. vm_compute. reflexivity. Qed.
Example ex_kw_parse_at_bound :
  parse_root g_kw (toks_of_list [pt 12; ws; pt 12; ws; pt 15]) [] (fuel_bound g_kw 5) 0 5
  = ROk (MR 0 3 None [] [MR 0 1 (Some (MNewtype 102)) [] []; MR 2 3 (Some (MNewtype 102)) [] []]).
Proof. vm_compute. reflexivity. Qed.

(** the graph of [Pem.WfExamples] (GreedyOnceStarted Sequence, Bracketed with a Greedy content, Delimited, a meta) *)
Example ex_ok_term_safe : term_safe_b g_ok = true.
Proof. vm_compute. reflexivity. Qed.

(** a [Sequence] of a conditional meta only matches with an empty span: as an option of an unbounded
    [AnyNumberOf] it is harmless ([longest_match] never returns it) - no static condition on the
    options is needed *)
Definition g_nullable_option : grammar := mkg [
  (0, inf GNonCode []);
  (1, inf (GAny (mkAny [2; 3] None [] false None 0 None true Strict)) [12]);
  (2, mkInfo (GSeq (mkSeq [4] Strict true [])) (Some false) None (Some 1));
  (3, inf (GString 12 102) [12]);
  (4, mkInfo (GCond 204 true) (Some false) None (Some 2))] [] 1.
Example ex_nullable_option_safe : term_safe_b g_nullable_option = true.
Proof. vm_compute. reflexivity. Qed.
Example ex_nullable_option_parse :
  parse_root g_nullable_option (toks_of_list [pt 12; pt 12; pt 14]) [] (fuel_bound g_nullable_option 3) 0 3
  = ROk (MR 0 2 None [] [MR 0 1 (Some (MNewtype 102)) [] []; MR 1 2 (Some (MNewtype 102)) [] []]).
Proof. vm_compute. reflexivity. Qed.

(* ------------------------------------------------------------------ why the side condition *)
(** 1. ranks: a segment whose grammar reaches the segment again at the same index (left recursion)
    never answers, whatever the fuel *)
Definition g_leftrec : grammar := mkg [
  (0, inf GNonCode []);
  (1, inf (GRef (Some 2) None [] false) [12]);
  (2, inf (GNodeM 300 1) [12])] [] 1.

Lemma leftrec_loops : forall rx fuel,
  match_node g_leftrec (toks_of_list [pt 12]) rx fuel 1 0 1 [] = RFuel
  /\ match_node g_leftrec (toks_of_list [pt 12]) rx fuel 2 0 1 [] = RFuel.
Proof.
  intros rx. induction fuel as [|f [IH1 IH2]]; [split; reflexivity|].
  split.
  - cbn [match_node]. unfold match_node_body. cbn. exact IH2.
  - cbn [match_node]. unfold match_node_body. cbv - [match_node].
    match goal with |- context [match_node ?a ?b ?c f ?n1 ?i ?l ?t] =>
      replace (match_node a b c f n1 i l t) with (@RFuel mr) by (symmetry; exact IH1) end.
    reflexivity.
Qed.

Lemma rank_needed :
  term_safe_b g_leftrec = false
  /\ forall rx fuel, parse_root g_leftrec (toks_of_list [pt 12]) rx fuel 0 1 = RFuel.
Proof. split; [vm_compute; reflexivity|]. intros rx fuel. exact (proj1 (leftrec_loops rx fuel)). Qed.

(** 2. opening brackets must consume: a zero-width opening bracket (a conditional meta with a
    first-token hint) makes [resolve_bracket] open a bracket at the same token again and again *)
Definition g_zero_bracket : grammar := mkg [
  (0, inf GNonCode []);
  (1, inf (GSeq (mkSeq [2] Greedy true [4])) [12]);
  (2, inf (GString 12 102) [12]);
  (4, inf (GString 15 105) [15]);
  (5, mkInfo (GCond 204 true) (Some false) (Some ([14], [], false)) (Some 1));
  (6, inf (GString 11 101) [11])] [(Some 5, Some 6, false)] 1.
Lemma bracket_tc_needed :
  term_safe_b g_zero_bracket = false
  /\ parse_root g_zero_bracket (toks_of_list [pt 12; pt 14; pt 15]) [] 20 0 3 = RFuel
  /\ parse_root g_zero_bracket (toks_of_list [pt 12; pt 14; pt 15]) [] 200 0 3 = RFuel
  /\ parse_root g_zero_bracket (toks_of_list [pt 12; pt 14; pt 15]) [] 2000 0 3 = RFuel.
Proof. vm_compute. auto. Qed.

(** 3. a keyword-like terminator that [greedy_match] refuses (it is not preceded by white space) must
    consume: behind a zero-width one the scan resumes at the same token *)
Definition g_zero_kw : grammar := mkg [
  (0, inf GNonCode []);
  (1, inf (GSeq (mkSeq [2] Greedy true [4])) [12]);
  (2, inf (GString 12 102) [12]);
  (4, kwinf (GCond 204 true) [15])] [] 1.
Lemma keyword_tc_needed :
  term_safe_b g_zero_kw = false
  /\ parse_root g_zero_kw (toks_of_list [pt 12; pt 15]) [] 20 0 2 = RFuel
  /\ parse_root g_zero_kw (toks_of_list [pt 12; pt 15]) [] 200 0 2 = RFuel
  /\ parse_root g_zero_kw (toks_of_list [pt 12; pt 15]) [] 2000 0 2 = RFuel.
Proof. vm_compute. auto. Qed.

(** the side condition cannot be dropped *)
Theorem term_safe_needed :
  exists g toks, term_safe_b g = false /\ forall rx fuel, parse_root g toks rx fuel 0 1 = RFuel.
Proof. exists g_leftrec, (toks_of_list [pt 12]). exact rank_needed. Qed.
