(** Indent/dedent balance, part 3: from the match result to the parse tree.

    [MatchResult::apply] ([Apply.Model.apply]) creates exactly one meta segment per entry of every
    [insert_segments] list of a well-formed match tree: the sum of [indent_val] over the metas of the
    trees it returns is [isum].  [root_parse] adds tokens and an unparsable node of tokens around them.
    Hence, composed with [Pem.MetaBalProofs] and [Pem.WfRoot]: for a balanced and safe graph the File tree
    built from a root match without unparsable section has Indent/Implicit/Dedent metas that sum to zero. *)
From Coq Require Import FMapPositive ZArith Lia Sorted.
From Sq Require Import Base.Bytes Apply.Model Apply.Proofs Pem.Model Pem.WfSafe Pem.WfRoot Pem.LayoutInv Pem.MetaBal Pem.MetaBalProofs.

Local Open Scope N_scope.

Section Tree.
  Variable g : grammar.

  (** sum of [indent_val] over the meta leaves of a tree *)
  Fixpoint tsum (t : tree) : Z :=
    match t with
    | Tok _ _ => 0%Z
    | Meta k _ => ival g k
    | Node _ ch => fold_right (fun c a => (tsum c + a)%Z) 0%Z ch
    end.
  Definition tsum_l (l : list tree) : Z := fold_right (fun c a => (tsum c + a)%Z) 0%Z l.

  Lemma tsum_l_app a b : tsum_l (a ++ b) = (tsum_l a + tsum_l b)%Z.
  Proof. induction a as [|x a IH]; cbn; [reflexivity|]. fold (tsum_l (a ++ b)) (tsum_l a). rewrite IH. lia. Qed.
  Lemma tsum_l_toks l : tsum_l (map tok_tree l) = 0%Z.
  Proof. induction l as [|x l IH]; cbn; [reflexivity|]. fold (tsum_l (map tok_tree l)). rewrite IH. reflexivity. Qed.
  Lemma tsum_l_metas p l : tsum_l (map (fun i : N * N => Meta (snd i) p) l) = inssum g l.
  Proof.
    induction l as [|x l IH]; [reflexivity|]. cbn [map tsum_l fold_right tsum].
    fold (tsum_l (map (fun i : N * N => Meta (snd i) p) l)). rewrite IH. reflexivity.
  Qed.
  Lemma tsum_node k ch : tsum (Node k ch) = tsum_l ch.
  Proof. reflexivity. Qed.

  (** what a child contributes *)
  Definition val (r : child_r) : Z := match snd r with Some l => tsum_l l | None => 0%Z end.
  Definition vsum (rs : list child_r) : Z := fold_right (fun r a => (val r + a)%Z) 0%Z rs.

  Lemma run_children_tsum : forall ds cur out cur' out',
    run_children ds cur out = Some (cur', out') -> tsum_l out' = (tsum_l out + vsum ds)%Z.
  Proof.
    induction ds as [|[[cs ce] r] ds IH]; intros cur out cur' out' H; cbn [run_children] in H.
    - inversion H; subst. cbn. lia.
    - destruct r as [l|]; [|discriminate]. apply IH in H. rewrite H, tsum_l_app.
      cbn [vsum fold_right]. fold (vsum ds). unfold val. cbn [snd]. lia.
  Qed.

  Section Node.
    Variable ts : list Apply.Model.tok.
    Variable ins : list (N * N).
    Variable rs : list child_r.

    Definition at_ins (p : N) : Z := inssum g (filter (fun i => fst i =? p) ins).
    Definition at_rs (p : N) : Z := vsum (filter (fun r : N * N * option (list tree) => fst (fst r) =? p) rs).

    Lemma step_tsum st p st' :
      step ts ins rs st p = Some st' -> tsum_l (snd st') = (tsum_l (snd st) + at_ins p + at_rs p)%Z.
    Proof.
      destruct st as [cur out], st' as [cur' out']. unfold step. cbn [snd].
      destruct (p <? cur); [discriminate|].
      destruct (if cur <? p then slice ts cur p else Some []) as [gap|]; [|discriminate].
      unfold metas_at.
      destruct (is_empty (filter (fun i => fst i =? p) ins)) eqn:Ee.
      - intro H. apply run_children_tsum in H. rewrite H, !tsum_l_app, tsum_l_toks. unfold at_ins, at_rs.
        apply is_empty_true in Ee. rewrite Ee. cbn. lia.
      - destruct (point_ok (N.of_nat (length ts)) p); [|discriminate].
        intro H. apply run_children_tsum in H. rewrite H, !tsum_l_app, tsum_l_toks, tsum_l_metas. unfold at_ins, at_rs. lia.
    Qed.

    Lemma fold_tsum : forall keys st st',
      fold_opt (step ts ins rs) keys st = Some st' ->
      tsum_l (snd st') = (tsum_l (snd st) + fold_right (fun p a => (at_ins p + at_rs p + a)%Z) 0%Z keys)%Z.
    Proof.
      induction keys as [|p keys IH]; intros st st' H; cbn [fold_opt] in H.
      - inversion H; subst. cbn. lia.
      - destruct (step ts ins rs st p) as [st1|] eqn:E; [|discriminate].
        apply step_tsum in E. apply IH in H. rewrite H, E. cbn [fold_right]. lia.
    Qed.
  End Node.

  Lemma inssum_fold l : inssum g l = fold_right (fun i b => (ival g (snd i) + b)%Z) 0%Z l.
  Proof. unfold inssum, ksum. induction l as [|x l IH]; [reflexivity|]. cbn. rewrite IH. reflexivity. Qed.

  (** a list split by distinct keys that cover it *)
  Lemma pick_one (k : N) (v : Z) : forall keys, NoDup keys -> In k keys ->
    fold_right (fun p a => ((if (k =? p)%N then v else 0) + a)%Z) 0%Z keys = v.
  Proof.
    induction keys as [|p keys IH]; intros Hn Hin; [destruct Hin|]. inversion Hn as [|? ? Hp Hn']; subst.
    cbn [fold_right]. destruct Hin as [->|Hin].
    - rewrite N.eqb_refl.
      assert (H0 : fold_right (fun p a => ((if (k =? p)%N then v else 0) + a)%Z) 0%Z keys = 0%Z).
      { clear IH Hn Hn'. induction keys as [|q keys IHk]; [reflexivity|]. cbn [fold_right].
        destruct (k =? q) eqn:E; [apply N.eqb_eq in E; subst; exfalso; apply Hp; now left|].
        rewrite IHk; [reflexivity|]. intro Hq. apply Hp. now right. }
      rewrite H0. lia.
    - destruct (k =? p) eqn:E; [apply N.eqb_eq in E; subst; contradiction|]. rewrite (IH Hn' Hin). lia.
  Qed.

  Lemma split_by_keys {A} (key : A -> N) (w : A -> Z) (keys : list N) : NoDup keys ->
    forall l, (forall a, In a l -> In (key a) keys) ->
    fold_right (fun p acc => (fold_right (fun a b => (w a + b)%Z) 0%Z (filter (fun a => (key a =? p)%N) l) + acc)%Z) 0%Z keys
    = fold_right (fun a b => (w a + b)%Z) 0%Z l.
  Proof.
    intros Hn. induction l as [|a l IH]; intro Hin.
    - clear. cbn. induction keys as [|p keys IHk]; [reflexivity|]. cbn. rewrite IHk. reflexivity.
    - cbn [fold_right]. rewrite <- IH by (intros b Hb; apply Hin; now right).
      rewrite <- (pick_one (key a) (w a) keys Hn (Hin a (or_introl eq_refl))).
      clear. induction keys as [|p keys IHk]; [reflexivity|].
      cbn [fold_right]. rewrite IHk. cbn [filter]. destruct (key a =? p); cbn [fold_right]; lia.
  Qed.

  Lemma sorted_nodup l : StronglySorted N.lt l -> NoDup l.
  Proof.
    induction 1 as [|x l Hs IH Hall]; constructor; [|exact IH].
    intro Hin. rewrite Forall_forall in Hall. specialize (Hall x Hin). lia.
  Qed.

  Lemma sum_split (f h : N -> Z) keys :
    fold_right (fun p a => (f p + h p + a)%Z) 0%Z keys
    = (fold_right (fun p a => (f p + a)%Z) 0%Z keys + fold_right (fun p a => (h p + a)%Z) 0%Z keys)%Z.
  Proof. induction keys as [|p keys IH]; cbn; [reflexivity|]. rewrite IH. lia. Qed.

  Lemma assemble_tsum ts s e m ins rs res :
    (forall k, m <> Some (MNewtype k)) ->
    assemble ts s e m ins rs = Some res -> tsum_l res = (inssum g ins + vsum rs)%Z.
  Proof.
    unfold assemble. intros Hm H.
    match type of H with match ?X with _ => _ end = _ => destruct X as [[cur out]|] eqn:Ef; [|discriminate] end.
    match type of Ef with fold_opt _ ?K _ = _ => set (keys := K) in * end.
    apply fold_tsum in Ef. cbn [snd] in Ef.
    assert (Hnd : NoDup keys) by (apply sorted_nodup, sort_keys_sorted).
    rewrite sum_split in Ef.
    unfold at_ins in Ef.
    assert (E1 : fold_right (fun p a => (MetaBal.inssum g (filter (fun i => (fst i =? p)%N) ins) + a)%Z) 0%Z keys = inssum g ins).
    { assert (Hcover : forall a : N * N, In a ins -> In (fst a) keys)
        by (intros a Ha; apply sort_keys_in; apply in_or_app; left; now apply in_map).
      rewrite (inssum_fold ins), <- (split_by_keys (fun i : N * N => fst i) (fun i => ival g (snd i)) keys Hnd ins Hcover).
      clear. induction keys as [|p keys IH]; [reflexivity|]. cbn [fold_right]. rewrite IH, inssum_fold. reflexivity. }
    assert (E2 : fold_right (fun p a => (at_rs rs p + a)%Z) 0%Z keys = vsum rs).
    { unfold at_rs, vsum.
      apply (split_by_keys (fun r : child_r => fst (fst r)) val keys Hnd rs).
      intros a Ha. apply sort_keys_in. apply in_or_app. right. now apply (in_map (fun r : child_r => fst (fst r))). }
    destruct (if cur <? e then slice ts cur e else Some []) as [tail|]; [|discriminate].
    assert (Eo : tsum_l (out ++ map tok_tree tail) = (inssum g ins + vsum rs)%Z).
    { rewrite tsum_l_app, tsum_l_toks, Ef. cbn [tsum_l fold_right]. unfold at_ins in *. rewrite <- E1, <- E2. lia. }
    destruct m as [[k|k]|].
    - destruct (is_empty (out ++ map tok_tree tail)); [discriminate|]. inversion H; subst.
      cbn [tsum_l fold_right]. rewrite tsum_node. fold (tsum_l (out ++ map tok_tree tail)). rewrite Eo. lia.
    - exfalso. exact (Hm k eq_refl).
    - inversion H; subst. exact Eo.
  Qed.

  (** [apply] on a well-formed match: the metas of the trees are the inserts of the match *)
  Theorem apply_tsum ts : forall x out,
    wf (N.of_nat (length ts)) x = true -> apply ts x = Some out -> tsum_l out = isum g x.
  Proof.
    intro x. induction x as [s e m ins ch IH] using mr_ind'. intros out Hwf H.
    apply wf_unfold in Hwf as [Hch Hnode]. cbn [mr_ch mr_start mr_end mr_matched mr_ins] in *.
    cbn [apply] in H.
    assert (Hv : vsum (map (fun c => (mr_start c, mr_end c, apply ts c)) ch) = chsum g ch).
    { clear H Hnode. induction ch as [|c ch IHc]; [reflexivity|]. inversion IH as [|? ? Hc IH']; subst.
      cbn [map vsum fold_right]. fold (vsum (map (fun c => (mr_start c, mr_end c, apply ts c)) ch)).
      rewrite IHc by (auto; intros; apply Hch; now right).
      destruct (apply_leaves ts c (Hch c (or_introl eq_refl))) as (r & Hr & _).
      unfold val. cbn [snd]. rewrite Hr. rewrite (Hc r (Hch c (or_introl eq_refl)) Hr). reflexivity. }
    destruct m as [[k|k]|].
    - apply assemble_tsum in H; [|discriminate]. rewrite H, Hv. reflexivity.
    - (* Newtype: one token, no inserts, no children *)
      destruct (wn_matched _ _ _ _ _ _ _ Hnode) as (_ & -> & Hsp).
      destruct ch; [|discriminate]. cbn [map] in H. unfold assemble in H. cbn [map app sort_keys fold_right fold_opt] in H.
      destruct (if s <? e then slice ts s e else Some []) as [tail|]; [|discriminate]. cbn [app] in H.
      destruct (last_opt (map tok_tree tail)) as [t0|] eqn:El; [|discriminate]. inversion H; subst.
      unfold last_opt in El. destruct (rev (map tok_tree tail)) as [|y l] eqn:Er; [discriminate|]. inversion El; subst y.
      assert (Hin : In t0 (map tok_tree tail)) by (apply in_rev; rewrite Er; now left).
      apply in_map_iff in Hin as (tk & <- & _). reflexivity.
    - apply assemble_tsum in H; [|discriminate]. rewrite H, Hv. reflexivity.
  Qed.

  (** [root_parse] adds no metas *)
  Lemma root_parse_tsum ts m t matched :
    root_parse ts (GOk m) = Some (POk t) -> apply ts m = Some matched ->
    tsum t = tsum_l matched \/ tsum t = 0%Z.
  Proof.
    unfold root_parse, root_parse_gen. intros H Ha.
    destruct (start_idx ts =? end_idx ts).
    - right. unfold node_of in H. destruct (is_empty (map tok_tree ts)); [discriminate|]. inversion H; subst.
      rewrite tsum_node. apply tsum_l_toks.
    - rewrite Ha in H.
      destruct (slice ts (mr_end m) (end_idx ts)) as [unmatched|]; [|discriminate].
      destruct (slice ts (start_idx ts) (end_idx ts)) as [code|]; [|discriminate].
      destruct (slice ts 0 (start_idx ts)) as [pre|]; [|discriminate].
      destruct (slice ts (end_idx ts) (N.of_nat (length ts))) as [post|]; [|discriminate].
      assert (Hfile : forall c, option_map POk (node_of K_File (map tok_tree pre ++ c ++ map tok_tree post)) = Some (POk t) ->
                                tsum t = tsum_l c).
      { intros c Hc. unfold node_of in Hc. destruct (is_empty (map tok_tree pre ++ c ++ map tok_tree post)); [discriminate|]. inversion Hc; subst.
        rewrite tsum_node, !tsum_l_app, !tsum_l_toks. lia. }
      destruct (negb (has_match m)).
      + right. unfold node_of in H at 1. destruct (is_empty (map tok_tree code)); [discriminate|]. cbn [option_map] in H.
        rewrite (Hfile _ H). cbn [tsum_l fold_right]. rewrite tsum_node. fold (tsum_l (map tok_tree code)). rewrite tsum_l_toks. reflexivity.
      + destruct (negb (is_empty unmatched)).
        * left. unfold node_of in H at 1.
          destruct (is_empty (map tok_tree (skipn _ unmatched))); [discriminate|]. cbn [option_map] in H.
          rewrite (Hfile _ H), !tsum_l_app, tsum_l_toks. cbn [tsum_l fold_right]. rewrite tsum_node.
          rewrite ?tsum_l_toks. lia.
        * left. exact (Hfile _ H).
  Qed.
End Tree.

(** End to end on the interpreter: balanced and safe graph, plain tokens, a root match without unparsable
    section: the File tree [root_parse] builds has metas that sum to zero. *)
Theorem parse_tree_meta_balanced g ptoks rx ts fuel m t :
  meta_balanced_b g = true -> wf_safe_b g = true -> plain_tokens_b g ptoks = true ->
  map p_code ptoks = map t_code ts ->
  parse_root g (toks_of_list ptoks) rx fuel (start_idx ts) (end_idx ts) = ROk m -> clean_b g m = true ->
  root_parse ts (GOk m) = Some (POk t) -> tsum g t = 0%Z.
Proof.
  intros Hb Hs Hp Hc H C Hr.
  destruct (N.eq_dec (start_idx ts) (end_idx ts)) as [E|E].
  - unfold root_parse, root_parse_gen in Hr. rewrite E, N.eqb_refl in Hr.
    unfold node_of in Hr. destruct (is_empty (map tok_tree ts)); [discriminate|]. inversion Hr; subst.
    rewrite tsum_node. apply tsum_l_toks.
  - destruct (parse_root_wf g ptoks rx ts Hs Hc fuel m E H) as (Hwf & _).
    destruct (apply_leaves ts m Hwf) as (matched & Ha & _).
    destruct (root_parse_tsum g ts m t matched Hr Ha) as [Et|Et]; [|exact Et].
    rewrite Et, (apply_tsum g ts m matched Hwf Ha).
    exact (parse_root_meta_balanced g ptoks rx fuel _ _ m Hb Hp H C).
Qed.
