(** Layout non-interference of the parser-engine interpreter, part 3: one-run invariants.

    [match_node_anch]: on a graph that passes [static_ok_b g U], a node outside [U] only returns
    matches that start at the index it was asked at (so [longest_match] compares lengths of
    matches with a common start, which the simulation needs).
    [match_node_onetok]: a single-token matcher ([onetok]) consumes one significant token. *)
From Coq Require Import FMapPositive Lia.
From Sq Require Import Base.Bytes Apply.Model Pem.Model Pem.Bounds Pem.LayoutRel Pem.LayoutSim.

Local Open Scope N_scope.

Lemma has_match_empty_at i : has_match (MR i i None [] []) = false.
Proof. unfold has_match. cbn. rewrite N.eqb_refl. reflexivity. Qed.
Lemma is_empty_empty_at i : mr_is_empty (empty_at i) = true.
Proof. unfold mr_is_empty, empty_at. rewrite has_match_empty_at. reflexivity. Qed.
Lemma anchored_start idx m : mr_start m = idx -> anchored idx m.
Proof. intros H _. exact H. Qed.
Lemma anchored_nomatch idx m : has_match m = false -> anchored idx m.
Proof. intros H H'. congruence. Qed.
Lemma anchored_empty_at idx j : anchored idx (empty_at j).
Proof. apply anchored_nomatch. apply has_match_empty_at. Qed.

Lemma append_empty_l a b : mr_is_empty a = true -> append a b = b.
Proof. unfold append. intros ->. reflexivity. Qed.
Lemma append_start a b : mr_is_empty a = false -> mr_start (append a b) = mr_start a.
Proof. unfold append. intros ->. destruct (mr_is_empty b); reflexivity. Qed.
Lemma append_nonempty_end a b : mr_is_empty a = false -> mr_is_empty b = false ->
  mr_end (append a b) = mr_end b /\ mr_start (append a b) = mr_start a.
Proof. unfold append. intros -> ->. split; reflexivity. Qed.
Lemma empty_span m : mr_is_empty m = true -> mr_start m = mr_end m.
Proof.
  unfold mr_is_empty, has_match. intro H. apply negb_true_iff, orb_false_iff in H as [H _].
  apply negb_false_iff in H. b2p. exact H.
Qed.
Lemma anchored_append idx a b : anchored idx a -> (mr_is_empty a = true -> anchored idx b) -> anchored idx (append a b).
Proof.
  intros Ha Hb. destruct (mr_is_empty a) eqn:E.
  - rewrite (append_empty_l _ _ E). auto.
  - apply anchored_start. rewrite (append_start _ _ E). apply Ha.
    unfold mr_is_empty in E. apply negb_false_iff in E. exact E.
Qed.

Ltac crush H :=
  repeat match type of H with
         | bind ?x _ = ROk _ =>
             let a := fresh "a" in let Ha := fresh "Ha" in apply bind_ok in H; destruct H as (a & Ha & H)
         | (if ?b then _ else _) = ROk _ => destruct b eqn:?
         | (match ?x with _ => _ end) = ROk _ => destruct x eqn:?
         | (let '(_, _) := ?x in _) = ROk _ => destruct x eqn:?
         end.

Section Anch.
  Variable g : grammar.
  Variable toks : PositiveMap.t ptok.
  Variable rx : list (N * N).
  Variable U : list N.
  Hypothesis Hstatic : static_ok_b g U = true.

  Section WithRec.
    Variable rec : N -> N -> N -> list N -> res mr.
    Hypothesis HB : forall n i l t m, i <= l -> rec n i l t = ROk m -> B i l m.
    Hypothesis HA : forall n i l t m, anch U n = true -> i <= l -> rec n i l t = ROk m -> anchored i m.

    Lemma longest_loop_anch opts : forall idx len terms best bm m o,
      all_anch U opts = true -> idx <= len -> anchored idx best ->
      longest_loop g toks rec opts idx len terms best bm = ROk (m, o) -> anchored idx m.
    Proof.
      induction opts as [|op opts IH]; intros idx len terms best bm m o Ha Hil Hb H; cbn [longest_loop] in H.
      - inversion H; subst. exact Hb.
      - cbn in Ha. apply andb_true_iff in Ha as [Hao Ha].
        inv_bind H. inv_bind H. rename a0 into r.
        assert (Hr : anchored idx r) by (eapply HA; eassumption).
        destruct (has_match r && (mr_end r =? len)); [inversion H; subst; exact Hr|].
        destruct (mlen best <? mlen r).
        + destruct (is_empty opts); [inversion H; subst; exact Hr|].
          destruct (negb (is_empty terms)).
          * inv_bind H. destruct (a0 =? len); [inversion H; subst; exact Hr|].
            inv_bind H. destruct a1; [inversion H; subst; exact Hr|].
            eapply IH in H; [exact H|exact Ha|exact Hil|exact Hr].
          * eapply IH in H; [exact H|exact Ha|exact Hil|exact Hr].
        + eapply IH in H; [exact H|exact Ha|exact Hil|exact Hb].
    Qed.

    Lemma longest_match_anch len ms idx terms m o :
      all_anch U ms = true -> longest_match g toks rec len ms idx terms = ROk (m, o) -> anchored idx m.
    Proof.
      unfold longest_match. intros Ha H.
      destruct (is_empty ms || (idx =? len)); [inversion H; subst; apply anchored_empty_at|].
      inv_bind H. destruct (is_empty a); [inversion H; subst; apply anchored_empty_at|].
      inv_bind H. apply (tok_lt toks) in Ha1.
      eapply longest_loop_anch in H; [exact H| |lia|apply anchored_empty_at].
      eapply prune_sub; eassumption.
    Qed.

    (* ---------------------------------------------------------- brackets, sequence *)
    Lemma rb_loop_start fl : forall len opening ti starts ends pers terms nested mi ch r,
      rb_loop g toks rec fl len opening ti starts ends pers terms nested mi ch = ROk r ->
      mr_start r = mr_start opening.
    Proof.
      induction fl as [|fl IH]; intros len opening ti starts ends pers terms nested mi ch r H;
        cbn [rb_loop] in H; [discriminate|].
      inv_bind H. destruct a as [m mt].
      destruct (negb (has_match m)); [discriminate|].
      destruct mt as [mt|]; [|discriminate].
      destruct (mcontains g ends mt).
      - destruct (mposition g ends mt) as [ci|]; [|discriminate].
        destruct (ci =? ti); [|discriminate].
        destruct (nth_bool pers ti) as [pe|]; [|discriminate].
        destruct pe; inversion H; subst.
        + destruct (wrap_span (MR (mr_start opening) (mr_end m) None
                                  [(mr_end opening, k_indent g); (mr_start m, k_dedent g)] (ch ++ [m]))
                              (MKind (k_bracketed g))) as [-> _]. reflexivity.
        + reflexivity.
      - destruct (mposition g starts mt) as [ti2|]; [|discriminate].
        inv_bind H. eapply IH in H. exact H.
    Qed.

    Lemma seq_elem_ret fl d len si terms st e m :
      seq_elem g toks rec fl d len si terms st e = ROk (Ret m) -> mr_start m = si.
    Proof.
      rewrite seq_elem_unfold. intro H. inv_bind H.
      destruct (n_node a); try discriminate; unfold seq_elem_dflt in H; crush H;
        try discriminate; inversion H; subst; reflexivity.
    Qed.
    Lemma seq_loop_ret fl d len si terms es : forall st m,
      seq_loop g toks rec fl d len si terms st es = ROk (Ret m) -> mr_start m = si.
    Proof.
      induction es as [|e es IH]; intros st m H; cbn [seq_loop] in H; [discriminate|].
      inv_bind H. destruct a as [st'|m'].
      - eapply IH; exact H.
      - inversion H; subst. eapply seq_elem_ret; exact Ha.
    Qed.
    Lemma match_sequence_start fl d len idx terms m :
      match_sequence g toks rec fl d len idx terms = ROk m -> mr_start m = idx.
    Proof.
      unfold match_sequence. intro H. inv_bind H. inv_bind H.
      destruct a0 as [st|m'].
      - crush H; inversion H; subst; reflexivity.
      - inversion H; subst. eapply seq_loop_ret; exact Ha0.
    Qed.

    Lemma match_bracketed_anch fl self found bs be pers gaps d len idx terms m :
      (forall sb, bs = Some sb -> anch U sb = true) -> idx <= len ->
      match_bracketed g toks rec fl self found bs be pers gaps d len idx terms = ROk m -> anchored idx m.
    Proof.
      unfold match_bracketed. intros Hs Hil H.
      destruct (negb found); [discriminate|].
      destruct bs as [sb|]; [|discriminate]. destruct be as [eb|]; [|discriminate].
      inv_bind H. rename a into sm.
      destruct (negb (has_match sm)) eqn:Esm; [inversion H; subst; apply anchored_empty_at|].
      apply negb_false_iff in Esm.
      inv_bind H. rename a into bm.
      unfold resolve_bracket in Ha0. destruct (mposition g [sb] sb); [|discriminate].
      apply rb_loop_start in Ha0.
      crush H; try discriminate; inversion H; subst.
      - apply anchored_empty_at.
      - apply anchored_start. cbn. rewrite Ha0. exact (HA _ _ _ _ _ (Hs sb eq_refl) Hil Ha Esm).
    Qed.

    (* ---------------------------------------------------------- AnyNumberOf (Strict) *)
    Definition skipx (d : any_d) (len e : N) : res N := if an_gaps d then skip_fwd toks len e len else ROk e.

    Lemma any_loop_anch k : forall d len idx mx terms nm cs mi wi matched r,
      pmode_eqb (an_mode d) Strict = true -> all_anch U (an_elems d) = true ->
      idx <= mx -> mx <= len -> B idx mx matched -> mi = mr_end matched -> mi <= wi ->
      ((matched = empty_at idx /\ wi = idx) \/
       (anchored idx matched /\ skipx d len (mr_end matched) = ROk wi /\ (mr_is_empty matched = true -> wi = idx))) ->
      any_loop g toks rec k d len idx mx terms nm cs mi wi matched = ROk r -> anchored idx r.
    Proof.
      induction k as [|k IH]; intros d len idx mx terms nm cs mi wi matched r Hst Hae Hi Hmx Hm Hmi Hwi Hinv H;
        cbn [any_loop] in H; [discriminate|].
      assert (Am : anchored idx matched).
      { destruct Hinv as [[-> _]|[Am _]]; [apply anchored_empty_at|exact Am]. }
      unfold parse_mode_result in H. rewrite Hst in H.
      destruct (((an_min d <=? nm) && (mx <=? mi)) || opt_le (an_max d) nm); [inversion H; subst; exact Am|].
      destruct (mx <=? mi); [inversion H; subst; apply anchored_empty_at|].
      inv_bind H. destruct a as [m mo].
      destruct (negb (has_match m)) eqn:Ehm.
      - destruct (nm <? an_min d); inversion H; subst; [apply anchored_empty_at|exact Am].
      - apply negb_false_iff in Ehm.
        destruct mo as [o|]; [|discriminate].
        inv_bind H. destruct (bump a cs) as [cs' cnt].
        destruct (match cnt with Some c => opt_lt (an_max_per d) c | None => false end); [inversion H; subst; exact Am|].
        inv_bind H. rename a0 into w'.
        pose proof (longest_match_anch _ _ _ _ _ _ Hae Ha) as Awm.
        apply (longest_match_spec g toks rec HB) in Ha. destruct Ha as [->|[Hw Hbm]];
          [unfold has_match in Ehm; cbn in Ehm; rewrite N.eqb_refl in Ehm; discriminate|].
        assert (Em : mr_is_empty m = false) by (unfold mr_is_empty; rewrite Ehm; reflexivity).
        assert (Hm' : B idx mx (append matched m)).
        { apply B_append; [exact Hm|eapply B_weaken; [|exact Hbm]; destruct Hm; lia|destruct Hbm; lia]. }
        eapply IH in H; [exact H|exact Hst|exact Hae|exact Hi|exact Hmx|exact Hm'|reflexivity| |].
        + destruct (an_gaps d); [apply (skip_fwd_spec toks) in Ha1; lia|inversion Ha1; subst; lia].
        + right. split; [|split].
          * apply anchored_append; [exact Am|]. intro Ee.
            destruct Hinv as [[-> ->]|(_ & _ & Hw0)]; [exact Awm|rewrite (Hw0 Ee) in Awm; exact Awm].
          * unfold skipx. exact Ha1.
          * intro Ee'.
            destruct (mr_is_empty matched) eqn:Ee.
            { rewrite (append_empty_l _ _ Ee) in Ee'. congruence. }
            destruct Hinv as [[-> _]|(_ & Hsk & _)]; [rewrite is_empty_empty_at in Ee; discriminate|].
            destruct (append_nonempty_end _ _ Ee Em) as [He Hs].
            apply empty_span in Ee'. rewrite He, Hs in Ee'.
            assert (Hsm : mr_start matched = idx).
            { apply Am. unfold mr_is_empty in Ee. apply negb_false_iff in Ee. exact Ee. }
            destruct Hm as (M1 & M2 & M3). destruct Hbm as (N1 & N2 & N3).
            assert (wi = idx) by lia. assert (mr_end matched = idx) by lia.
            unfold skipx in Hsk. rewrite He in Ha1. rewrite <- Ee', Hsm in Ha1.
            replace (mr_end matched) with idx in Hsk by lia. rewrite Hsk in Ha1. inversion Ha1; subst. reflexivity.
    Qed.

    Lemma match_anynumberof_anch fl d len idx terms m :
      pmode_eqb (an_mode d) Strict = true -> all_anch U (an_elems d) = true -> idx <= len ->
      match_anynumberof g toks rec fl d len idx terms = ROk m -> anchored idx m.
    Proof.
      unfold match_anynumberof. intros Hst Hae Hi H.
      inv_bind H. destruct a; [inversion H; subst; apply anchored_empty_at|].
      inv_bind H. inv_bind H. rename a0 into mx.
      assert (Hg : pmode_eqb (an_mode d) Greedy = false) by (destruct (an_mode d); try discriminate; reflexivity).
      rewrite Hg in Ha1. inversion Ha1; subst mx.
      inv_bind H.
      eapply any_loop_anch in H; [exact H|exact Hst|exact Hae|exact Hi|lia|apply B_empty; exact Hi|reflexivity|cbn; lia|].
      left. split; reflexivity.
    Qed.

    (* ---------------------------------------------------------- Delimited (Strict) *)
    Definition eff (sk : bool) (wm : mr) (dm : option mr) : mr :=
      if sk then wm else match dm with Some x => append wm x | None => wm end.

    Lemma delim_finish_anch tr mn idx sk dm dl wm r :
      anchored idx wm -> anchored idx (eff sk wm dm) ->
      delim_finish tr mn idx sk dm dl wm = ROk r -> anchored idx r.
    Proof.
      unfold delim_finish, eff. intros Hw He H.
      destruct dm as [x|].
      - destruct (tr && negb sk) eqn:E.
        + apply andb_true_iff in E as [_ E]. apply negb_true_iff in E. subst sk.
          destruct (dl + 1 <? mn); inversion H; subst; [apply anchored_empty_at|exact He].
        + destruct (dl <? mn); inversion H; subst; [apply anchored_empty_at|exact Hw].
      - destruct (dl <? mn); inversion H; subst; [apply anchored_empty_at|exact Hw].
    Qed.

    Lemma delim_loop_anch k : forall d delim tr mn len idx terms tms dl sk w wm dm r,
      all_anch U (an_elems d) = true -> anch U delim = true ->
      idx <= w -> w <= len ->
      anchored idx wm -> anchored idx (eff sk wm dm) -> (mr_is_empty (eff sk wm dm) = true -> w = idx) ->
      delim_loop g toks rec k d delim tr mn len idx terms tms dl sk w wm dm = ROk r -> anchored idx r.
    Proof.
      induction k as [|k IH]; intros d delim tr mn len idx terms tms dl sk w wm dm r Hae Had Hw Hl Awm Aeff Hemp H;
        cbn [delim_loop] in H; [discriminate|].
      assert (Hfin : forall r', delim_finish tr mn idx sk dm dl wm = ROk r' -> anchored idx r')
        by (intros r' Hf; eapply delim_finish_anch in Hf; [exact Hf|exact Awm|exact Aeff]).
      inv_bind H. rename a into w2.
      assert (Hw2 : w <= w2 /\ w2 <= len /\ (mr_is_empty (eff sk wm dm) = true -> w2 = idx)).
      { destruct (an_gaps d && (idx <? w)) eqn:E.
        - apply (skip_fwd_spec toks) in Ha. split; [lia|split; [lia|]].
          intro Ee. specialize (Hemp Ee). apply andb_true_iff in E as [_ E]. b2p. lia.
        - inversion Ha; subst. split; [lia|split; [lia|exact Hemp]]. }
      destruct Hw2 as (Hw21 & Hw22 & Hemp2).
      destruct (len <=? w2); [apply Hfin; exact H|].
      inv_bind H. destruct a as [tm tmo]. destruct (has_match tm); [apply Hfin; exact H|].
      inv_bind H. destruct a as [m mo].
      destruct (negb (has_match m)) eqn:Ehm; [apply Hfin; exact H|].
      apply negb_false_iff in Ehm.
      assert (Em : mr_is_empty m = false) by (unfold mr_is_empty; rewrite Ehm; reflexivity).
      assert (Awm2 : anchored w2 m).
      { eapply longest_match_anch; [|exact Ha1]. destruct sk; [cbn; rewrite Had; reflexivity|exact Hae]. }
      apply (longest_match_spec g toks rec HB) in Ha1. destruct Ha1 as [->|[Hlt Hbm]];
        [unfold has_match in Ehm; cbn in Ehm; rewrite N.eqb_refl in Ehm; discriminate|].
      destruct Hbm as (M1 & M2 & M3).
      (* both branches extend the effective match by [m] and move the cursor to its end *)
      assert (Anew : anchored idx (append (eff sk wm dm) m)).
      { apply anchored_append; [exact Aeff|]. intro Ee. rewrite (Hemp2 Ee) in Awm2. exact Awm2. }
      assert (Hnew : mr_is_empty (append (eff sk wm dm) m) = true -> mr_end m = idx).
      { intro Ee'. destruct (mr_is_empty (eff sk wm dm)) eqn:Ee.
        - rewrite (append_empty_l _ _ Ee) in Ee'. congruence.
        - destruct (append_nonempty_end _ _ Ee Em) as [He Hs].
          apply empty_span in Ee'. rewrite He, Hs in Ee'. rewrite <- Ee'.
          apply Aeff. unfold mr_is_empty in Ee. apply negb_false_iff in Ee. exact Ee. }
      destruct sk.
      - (* a delimiter was matched *)
        eapply IH in H; [exact H|exact Hae|exact Had|lia|lia|exact Awm| |].
        + unfold eff in *. exact Anew.
        + unfold eff in *. exact Hnew.
      - (* an element was matched *)
        unfold eff in Anew, Hnew.
        destruct dm as [x|].
        + eapply IH in H; [exact H|exact Hae|exact Had|lia|lia| | |]; unfold eff; assumption.
        + eapply IH in H; [exact H|exact Hae|exact Had|lia|lia| | |]; unfold eff; assumption.
    Qed.

    Lemma match_delimited_anch fl d delim tr mn len idx terms m :
      all_anch U (an_elems d) = true -> anch U delim = true -> idx <= len ->
      match_delimited g toks rec fl d delim tr mn len idx terms = ROk m -> anchored idx m.
    Proof.
      unfold match_delimited. intros Hae Had Hi H.
      eapply delim_loop_anch in H; [exact H|exact Hae|exact Had|lia|exact Hi| | |].
      - apply anchored_empty_at.
      - unfold eff. apply anchored_empty_at.
      - intros _. reflexivity.
    Qed.

    Lemma greedy_loop_start k : forall fl len idx ms terms it nested w ch m,
      greedy_loop g toks rec k fl len idx ms terms it nested w ch = ROk m -> mr_start m = idx.
    Proof.
      induction k as [|k IH]; intros fl len idx ms terms it nested w ch m H; cbn [greedy_loop] in H; [discriminate|].
      inv_bind H. destruct a as [[matched mt] inner].
      destruct (negb (has_match matched)); [inversion H; subst; reflexivity|].
      destruct mt as [mt|]; [|discriminate].
      inv_bind H. destruct a as [[[raws tys] alpha]|]; [|discriminate].
      inv_bind H. destruct (negb a).
      - eapply IH; exact H.
      - destruct it; [inversion H; subst; reflexivity|].
        inv_bind H. destruct (idx =? a0); inversion H; subst; reflexivity.
    Qed.

    Lemma match_node_body_anch fl n idx len terms m :
      anch U n = true -> idx <= len ->
      match_node_body g toks rx rec fl n idx len terms = ROk m -> anchored idx m.
    Proof.
      unfold match_node_body, info. intros Hn Hi H.
      destruct (get (g_nodes g) n) as [i|] eqn:Ei; [|discriminate]. cbn [bind] in H.
      destruct (static_node g U n i Hstatic Ei) as [Hok Hcl]. unfold node_ok in Hok. unfold node_closed in Hcl.
      rewrite Hn in Hcl. cbn [negb orb] in Hcl.
      destruct (n_node i) eqn:En.
      - destruct target as [t|]; [|discriminate].
        inv_bind H. destruct a; [inversion H; subst; apply anchored_empty_at|].
        eapply HA; eassumption.
      - apply anchored_start. eapply match_sequence_start; exact H.
      - eapply match_bracketed_anch; [|exact Hi|exact H]. intros sb ->. exact Hcl.
      - apply andb_true_iff in Hok as [H1 H2]. eapply match_anynumberof_anch; eassumption.
      - apply andb_true_iff in Hok as [Hok H3]. apply andb_true_iff in Hok as [H1 H2].
        eapply match_delimited_anch; eassumption.
      - destruct (len <=? idx); [inversion H; subst; apply anchored_empty_at|].
        inv_bind H. destruct (p_kind a =? kind); [inversion H; subst; apply anchored_start; reflexivity|].
        inv_bind H. inversion H; subst. intro Hh.
        destruct (wrap_span a0 (MKind kind)) as [-> _].
        apply (HA _ _ _ _ _ Hcl Hi Ha0).
        unfold wrap in Hh. destruct (mr_is_empty a0) eqn:E; [exact Hh|].
        unfold mr_is_empty in E. apply negb_false_iff in E. exact E.
      - crush H; inversion H; subst; apply anchored_start; reflexivity.
      - crush H; inversion H; subst; apply anchored_start; reflexivity.
      - crush H; inversion H; subst; apply anchored_start; reflexivity.
      - crush H; inversion H; subst; apply anchored_start; reflexivity.
      - discriminate.
      - crush H; inversion H; subst; apply anchored_start; reflexivity.
      - destruct (is_empty terms0 && is_empty terms); [inversion H; subst; apply anchored_start; reflexivity|].
        apply anchored_start. eapply greedy_loop_start; exact H.
      - inversion H; subst. apply anchored_start; reflexivity.
      - crush H; inversion H; subst; apply anchored_start; reflexivity.
      - crush H; inversion H; subst; apply anchored_start; reflexivity.
    Qed.
  End WithRec.

  Theorem match_node_anch fuel : forall n idx len terms m,
    anch U n = true -> idx <= len -> match_node g toks rx fuel n idx len terms = ROk m -> anchored idx m.
  Proof.
    induction fuel as [|f IH]; intros n idx len terms m Hn Hi H; cbn [match_node] in H; [discriminate|].
    eapply match_node_body_anch; [| |exact Hn|exact Hi|exact H].
    - intros. eapply match_node_bounds; eassumption.
    - intros n0 i l t m0 Hn0 Hil H0. eapply IH; eassumption.
  Qed.
End Anch.

(* ------------------------------------------------------------------ single-token matchers *)
Section OneTok.
  Variable g : grammar.
  Variable toks : PositiveMap.t ptok.
  Variable rx : list (N * N).
  Hypothesis Hrx : forall rid i t, get toks i = Some t -> okgap g t -> rxhit rid i rx = false.

  Lemma tok_inv len i t : tok toks len i = ROk t -> i < len /\ get toks i = Some t.
  Proof.
    unfold tok. destruct (i <? len) eqn:E; [|discriminate]. b2p.
    destruct (get toks i); [|discriminate]. intro H. inversion H; subst. auto.
  Qed.

  (** a token accepted by a single-token matcher is not one of the replaceable gap tokens *)
  Lemma onetok_sound f : forall n, onetok_b g f n = true ->
    forall fuel idx len terms m, match_node g toks rx fuel n idx len terms = ROk m -> has_match m = true ->
    mr_end m = idx + 1 /\ exists t, get toks idx = Some t /\ ~ okgap g t.
  Proof.
    induction f as [|f IH]; intros n Hn fuel idx len terms m H Hm;
      (destruct fuel as [|fuel]; [discriminate|]); cbn [match_node] in H; unfold match_node_body, info in H;
      cbn [onetok_b] in Hn; destruct (get (g_nodes g) n) as [i|] eqn:Ei; try discriminate; cbn [bind] in H;
      destruct (n_node i) eqn:En; try discriminate.
    all: try (destruct target as [t|]; [|discriminate]; destruct exclude; [discriminate|]; try discriminate).
    all: try (cbn [bind] in H; eapply IH; eassumption).
    all: inv_bind H; apply tok_inv in Ha; destruct Ha as [Hlt Ht].
    all: match type of H with (if ?b then _ else _) = _ => destruct b eqn:Eb end;
      inversion H; subst; try (unfold empty_at in Hm; rewrite has_match_empty_at in Hm; discriminate);
      (split; [reflexivity|]); exists a; (split; [exact Ht|]); intro Hk.
    all: try (apply andb_true_iff in Eb as [Ec _]; rewrite (okgap_code g a Hk) in Ec; discriminate).
    all: try (destruct (okgap_info g a n i Hk Ei) as [_ Hkf]; unfold kind_free_for in Hkf;
              rewrite En in Hkf; rewrite Eb in Hkf; discriminate).
    all: change (existsb (fun p => (fst p =? rid) && (snd p =? idx)) rx) with (rxhit rid idx rx) in Eb;
      rewrite (Hrx rid idx a Ht Hk) in Eb; discriminate.
  Qed.

  Theorem match_node_onetok fuel n idx len terms m :
    onetok g n = true -> match_node g toks rx fuel n idx len terms = ROk m -> has_match m = true ->
    mr_end m = idx + 1 /\ exists t, get toks idx = Some t /\ ~ okgap g t.
  Proof. intro H. exact (onetok_sound 4 n H fuel idx len terms m). Qed.
End OneTok.
