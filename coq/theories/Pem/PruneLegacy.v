(** The first-token rule of [prune_options] before repo commit "fix: first-token pruning looks only at a
    code segment standing at the start index" ([first_nonws_legacy]: the first segment from [idx] on with a
    non-empty raw, a comment or whitespace included) is unsound for every alternative that skips a leading
    gap - finding F1 of notes/C13.md; on the real parser: ansi [SELECT/*c*/ORDER BY a]. *)
From Coq Require Import FMapPositive MSets.MSetPositive.
From Sq Require Import Base.Bytes Apply.Model Pem.Model Pem.WfExamples Pem.PruneDef Pem.PruneEx.

Local Open Scope N_scope.

Definition prune_legacy (g : grammar) (toks : PositiveMap.t ptok) (opts : list N) (len idx : N) : res (list N) :=
  match first_nonws_legacy toks len idx with
  | None => ROk opts
  | Some (r, tys) => prune_aux g r tys opts
  end.

(** root = OneOf(Sequence("a")) with gaps allowed; tokens: /*c*/ a *)
Definition g_gap : grammar := mkg [
  (0, inf GNonCode []);
  (1, inf (GAny (mkAny [2] None [] false (Some 1) 1 None true Strict)) [12]);
  (2, inf (GSeq (mkSeq [3] Strict true [])) [12]);
  (3, inf (GString 12 102) [12])] [] 1.

(** with justified hints and ordinary tokens, the legacy rule drops an alternative that matches; the
    repaired rule keeps it (the comment at [idx] is not compared with the hints) *)
Lemma prune_legacy_refuted :
  exists g toks rx fuel opts o idx len m,
    hints_sound_b g = true /\ toks_ok_b g toks = true /\ In o opts
    /\ prune_legacy g (toks_of_list toks) opts len idx = ROk []
    /\ match_node g (toks_of_list toks) rx fuel o idx len [] = ROk m /\ has_match m = true
    /\ prune g (toks_of_list toks) opts len idx = ROk opts.
Proof.
  exists g_gap, [cm; ct 12], [], 20%nat, [2], 2, 0, 2. eexists.
  split; [vm_compute; reflexivity|]. split; [vm_compute; reflexivity|]. split; [left; reflexivity|].
  split; [vm_compute; reflexivity|]. split; [vm_compute; reflexivity|]. split; vm_compute; reflexivity.
Qed.
