(** Layout non-interference of the parser-engine interpreter, part 2: the simulation.

    Two token maps [toks], [toks'] and a relation [R] between positions of the two streams
    (an abstract interface, instantiated from a block alignment of two token lists in
    [Pem.LayoutInv]).  Under the interface every function of [Pem.Model] gives [res_sim]-related
    results on [R]-related arguments: the same outcome class (success / parse error / the same
    panic / out of fuel) and, on success, match results that agree node for node with
    [R]-related span ends and insert positions. *)
From Coq Require Import FMapPositive Lia Wf_nat.
From Sq Require Import Base.Bytes Apply.Model Pem.Model Pem.Bounds Pem.LayoutRel.

Local Open Scope N_scope.

(* ------------------------------------------------------------------ result relation *)
Definition res_sim {A A'} (P : A -> A' -> Prop) (x : res A) (x' : res A') : Prop :=
  match x, x' with
  | ROk a, ROk a' => P a a'
  | RErr, RErr => True
  | RPanic p, RPanic p' => p = p'
  | RFuel, RFuel => True
  | _, _ => False
  end.

Lemma res_sim_bind {A A' C C'} (P : A -> A' -> Prop) (Q : C -> C' -> Prop) x x' f f' :
  res_sim P x x' -> (forall a a', P a a' -> res_sim Q (f a) (f' a')) -> res_sim Q (bind x f) (bind x' f').
Proof. destruct x, x'; cbn; intros H Hf; try contradiction; auto. Qed.

Lemma res_sim_weaken {A A'} (P Q : A -> A' -> Prop) x x' :
  (forall a a', P a a' -> Q a a') -> res_sim P x x' -> res_sim Q x x'.
Proof. destruct x, x'; cbn; auto. Qed.

Lemma res_sim_eq {A} (x : res A) : res_sim eq x x.
Proof. destruct x; cbn; auto. Qed.

Section Sim.
  Variable g : grammar.
  Variables toks toks' : PositiveMap.t ptok.
  Variables rx rx' : list (N * N).
  Variable R : N -> N -> Prop.

  Notation tk := (get toks).
  Notation tk' := (get toks').

  Definition noin (p q : N) : Prop := forall x x', R x x' -> ~ (p < x < q).
  Definition noin' (p q : N) : Prop := forall x x', R x x' -> ~ (p < x' < q).
  Definition lastw (tkf : N -> option ptok) (q : N) (b : bool) : Prop :=
    exists t, tkf (q - 1) = Some t /\ wsn g t = b.

  Inductive fstep (p p' : N) : Prop :=
  | fs_end : tk p = None -> tk' p' = None -> fstep p p'
  | fs_sig t : tk p = Some t -> tk' p' = Some t -> R (p + 1) (p' + 1) -> fstep p p'
  | fs_gap q q' : grun g toks p q -> grun g toks' p' q' -> R q q' -> noin p q -> noin' p' q' -> fstep p p'.

  Inductive bstep (p p' : N) : Prop :=
  | bs_zero : p = 0 -> p' = 0 -> bstep p p'
  | bs_sig t : 0 < p -> 0 < p' -> tk (p - 1) = Some t -> tk' (p' - 1) = Some t ->
               R (p - 1) (p' - 1) -> bstep p p'
  | bs_gap q q' b : grun g toks q p -> grun g toks' q' p' -> R q q' -> noin q p -> noin' q' p' ->
                    lastw tk p b -> lastw tk' p' b -> bstep p p'.

  Definition rxhit (rid idx : N) (l : list (N * N)) : bool :=
    existsb (fun p => (fst p =? rid) && (snd p =? idx)) l.

  Hypothesis R_mono : forall a a' b b', R a a' -> R b b' -> (a < b <-> a' < b').
  Hypothesis R_fwd : forall p p', R p p' -> fstep p p'.
  Hypothesis R_bwd : forall p p', R p p' -> bstep p p'.
  Hypothesis rx_sig : forall rid p p' t, R p p' -> tk p = Some t -> tk' p' = Some t ->
    rxhit rid p rx = rxhit rid p' rx'.
  Hypothesis rx_gap : forall rid p t, tk p = Some t -> okgap g t -> rxhit rid p rx = false.
  Hypothesis rx_gap' : forall rid p t, tk' p = Some t -> okgap g t -> rxhit rid p rx' = false.

  (* ---------------------------------------------------------------- order facts *)
  Lemma R_fun a a1 a2 : R a a1 -> R a a2 -> a1 = a2.
  Proof.
    intros H1 H2. pose proof (R_mono _ _ _ _ H1 H2). pose proof (R_mono _ _ _ _ H2 H1). lia.
  Qed.
  Lemma R_inj a1 a2 a' : R a1 a' -> R a2 a' -> a1 = a2.
  Proof.
    intros H1 H2. pose proof (R_mono _ _ _ _ H1 H2). pose proof (R_mono _ _ _ _ H2 H1). lia.
  Qed.
  Lemma R_ltb a a' b b' : R a a' -> R b b' -> (a' <? b') = (a <? b).
  Proof.
    intros H1 H2. pose proof (R_mono _ _ _ _ H1 H2).
    destruct (a <? b) eqn:E; destruct (a' <? b') eqn:E'; b2p; try reflexivity; lia.
  Qed.
  Lemma R_leb a a' b b' : R a a' -> R b b' -> (a' <=? b') = (a <=? b).
  Proof.
    intros H1 H2. pose proof (R_mono _ _ _ _ H2 H1).
    destruct (a <=? b) eqn:E; destruct (a' <=? b') eqn:E'; b2p; try reflexivity; lia.
  Qed.
  Lemma R_eqb a a' b b' : R a a' -> R b b' -> (a' =? b') = (a =? b).
  Proof.
    intros H1 H2. pose proof (R_mono _ _ _ _ H1 H2). pose proof (R_mono _ _ _ _ H2 H1).
    destruct (a =? b) eqn:E; destruct (a' =? b') eqn:E'; b2p; try reflexivity; lia.
  Qed.
  Lemma R_le a a' b b' : R a a' -> R b b' -> (a <= b <-> a' <= b').
  Proof. intros H1 H2. pose proof (R_mono _ _ _ _ H2 H1). lia. Qed.

  Lemma R_zero p p' : R p p' -> (p = 0 <-> p' = 0).
  Proof.
    intro H. destruct (R_bwd _ _ H) as [-> ->|t ? ? _ _ _|q q' b [? _] [? _] _ _ _ _ _]; [tauto|lia|lia].
  Qed.
  Lemma R_eqb0 p p' : R p p' -> (p' =? 0) = (p =? 0).
  Proof.
    intro H. pose proof (R_zero _ _ H).
    destruct (p =? 0) eqn:E; destruct (p' =? 0) eqn:E'; b2p; try reflexivity; tauto.
  Qed.

  (** rewrite the comparisons of the primed run into those of the unprimed one *)
  Ltac rcmp :=
    repeat match goal with
           | Ha : R ?a ?a', Hb : R ?b ?b' |- context [?a' <? ?b'] => rewrite (R_ltb a a' b b' Ha Hb)
           | Ha : R ?a ?a', Hb : R ?b ?b' |- context [?a' <=? ?b'] => rewrite (R_leb a a' b b' Ha Hb)
           | Ha : R ?a ?a', Hb : R ?b ?b' |- context [?a' =? ?b'] => rewrite (R_eqb a a' b b' Ha Hb)
           end.

  (* ---------------------------------------------------------------- match results *)
  Definition ins_sim : list (N * N) -> list (N * N) -> Prop :=
    Forall2 (fun a b => R (fst a) (fst b) /\ snd a = snd b).

  Inductive mr_sim : mr -> mr -> Prop :=
  | MS s s' e e' m i i' c c' :
      R s s' -> R e e' -> ins_sim i i' -> Forall2 mr_sim c c' ->
      mr_sim (MR s e m i c) (MR s' e' m i' c').

  Definition ch_sim : list mr -> list mr -> Prop := Forall2 mr_sim.

  Lemma mr_sim_start a b : mr_sim a b -> R (mr_start a) (mr_start b).
  Proof. destruct 1; assumption. Qed.
  Lemma mr_sim_end a b : mr_sim a b -> R (mr_end a) (mr_end b).
  Proof. destruct 1; assumption. Qed.
  Lemma mr_sim_matched a b : mr_sim a b -> mr_matched b = mr_matched a.
  Proof. destruct 1; reflexivity. Qed.
  Lemma mr_sim_ins a b : mr_sim a b -> ins_sim (mr_ins a) (mr_ins b).
  Proof. destruct 1; assumption. Qed.
  Lemma mr_sim_ch a b : mr_sim a b -> ch_sim (mr_ch a) (mr_ch b).
  Proof. destruct 1; assumption. Qed.

  Lemma ins_sim_empty i i' : ins_sim i i' -> is_empty i' = is_empty i.
  Proof. destruct 1; reflexivity. Qed.
  Lemma ins_sim_app a a' b b' : ins_sim a a' -> ins_sim b b' -> ins_sim (a ++ b) (a' ++ b').
  Proof. apply Forall2_app. Qed.
  Lemma ch_sim_app a a' b b' : ch_sim a a' -> ch_sim b b' -> ch_sim (a ++ b) (a' ++ b').
  Proof. apply Forall2_app. Qed.
  Lemma ins_sim_map p p' (l : list N) : R p p' -> ins_sim (map (fun k => (p, k)) l) (map (fun k => (p', k)) l).
  Proof. intro H. induction l; constructor; cbn; auto. Qed.

  Lemma has_match_sim a b : mr_sim a b -> has_match b = has_match a.
  Proof.
    destruct 1 as [s s' e e' m i i' c c' Hs He Hi Hc]. unfold has_match. cbn.
    rewrite (R_eqb _ _ _ _ Hs He), (ins_sim_empty _ _ Hi). reflexivity.
  Qed.
  Lemma mr_is_empty_sim a b : mr_sim a b -> mr_is_empty b = mr_is_empty a.
  Proof. intro H. unfold mr_is_empty. rewrite (has_match_sim _ _ H). reflexivity. Qed.

  Lemma flat_ins_sim a b : mr_sim a b -> ins_sim (flat_ins a) (flat_ins b).
  Proof.
    intro H. unfold flat_ins. rewrite (mr_sim_matched _ _ H).
    destruct (is_some (mr_matched a)); [constructor|apply mr_sim_ins; exact H].
  Qed.
  Lemma flat_ch_sim a b : mr_sim a b -> ch_sim (flat_ch a) (flat_ch b).
  Proof.
    intro H. unfold flat_ch. rewrite (mr_sim_matched _ _ H).
    destruct (is_some (mr_matched a)); [constructor; [exact H|constructor]|apply mr_sim_ch; exact H].
  Qed.

  Lemma append_sim a a' b b' : mr_sim a a' -> mr_sim b b' -> mr_sim (append a b) (append a' b').
  Proof.
    intros Ha Hb. unfold append. rewrite (mr_is_empty_sim _ _ Ha), (mr_is_empty_sim _ _ Hb).
    destruct (mr_is_empty a); [exact Hb|]. destruct (mr_is_empty b); [exact Ha|].
    constructor.
    - apply mr_sim_start; exact Ha.
    - apply mr_sim_end; exact Hb.
    - apply ins_sim_app; apply flat_ins_sim; assumption.
    - apply ch_sim_app; apply flat_ch_sim; assumption.
  Qed.
  Lemma wrap_sim a a' k : mr_sim a a' -> mr_sim (wrap a k) (wrap a' k).
  Proof.
    intros Ha. unfold wrap. rewrite (mr_is_empty_sim _ _ Ha).
    destruct (mr_is_empty a); [exact Ha|].
    constructor; [apply mr_sim_start|apply mr_sim_end|apply flat_ins_sim|apply flat_ch_sim]; exact Ha.
  Qed.
  Lemma empty_at_sim p p' : R p p' -> mr_sim (empty_at p) (empty_at p').
  Proof. intro H. constructor; auto; constructor. Qed.
  Lemma from_span_sim a a' b b' : R a a' -> R b b' -> mr_sim (from_span a b) (from_span a' b').
  Proof. intros. constructor; auto; constructor. Qed.
  Lemma unparsable_sim a a' b b' : R a a' -> R b b' -> mr_sim (unparsable g a b) (unparsable g a' b').
  Proof. intros. constructor; auto; constructor. Qed.
  Lemma one_token_sim p p' k : R p p' -> R (p + 1) (p' + 1) -> mr_sim (one_token p k) (one_token p' k).
  Proof. intros. constructor; auto; constructor. Qed.

  Lemma anchored_sim idx idx' m m' : R idx idx' -> mr_sim m m' -> anchored idx m -> anchored idx' m'.
  Proof.
    intros Hi Hm Ha H. rewrite (has_match_sim _ _ Hm) in H. specialize (Ha H).
    pose proof (mr_sim_start _ _ Hm) as Hs. rewrite Ha in Hs. exact (R_fun _ _ _ Hs Hi).
  Qed.

  Lemma mlen_anchored idx m : anchored idx m ->
    mlen m = if has_match m then mr_end m - idx else 0.
  Proof.
    intro Ha. unfold mlen. destruct (has_match m) eqn:E.
    - rewrite (Ha E). reflexivity.
    - unfold has_match in E. apply orb_false_iff in E as [E _]. apply negb_false_iff in E. b2p. rewrite E. lia.
  Qed.

  Lemma mlen_ltb_sim idx idx' b b' r r' :
    R idx idx' -> mr_sim b b' -> mr_sim r r' -> anchored idx b -> anchored idx r ->
    (mlen b' <? mlen r') = (mlen b <? mlen r).
  Proof.
    intros Hi Hb Hr Ab Ar.
    pose proof (anchored_sim _ _ _ _ Hi Hb Ab) as Ab'. pose proof (anchored_sim _ _ _ _ Hi Hr Ar) as Ar'.
    rewrite (mlen_anchored _ _ Ab), (mlen_anchored _ _ Ar), (mlen_anchored _ _ Ab'), (mlen_anchored _ _ Ar').
    rewrite (has_match_sim _ _ Hb), (has_match_sim _ _ Hr).
    pose proof (mr_sim_end _ _ Hb) as Eb. pose proof (mr_sim_end _ _ Hr) as Er.
    pose proof (R_mono _ _ _ _ Eb Er). pose proof (R_mono _ _ _ _ Hi Er). pose proof (R_mono _ _ _ _ Hi Eb).
    pose proof (R_mono _ _ _ _ Er Hi). pose proof (R_mono _ _ _ _ Eb Hi).
    destruct (has_match b), (has_match r);
      match goal with |- (?x <? ?y) = (?u <? ?v) => destruct (x <? y) eqn:E1; destruct (u <? v) eqn:E2 end;
      b2p; try reflexivity; lia.
  Qed.

  (* ---------------------------------------------------------------- tokens *)
  Lemma tok_sim_sig len len' p p' t :
    R len len' -> R p p' -> tk p = Some t -> tk' p' = Some t ->
    tok toks' len' p' = tok toks len p.
  Proof. intros Hl Hp E E'. unfold tok. rewrite (R_ltb _ _ _ _ Hp Hl), E, E'. reflexivity. Qed.

  (** bounds that are related positions cannot fall inside a gap run *)
  Lemma noin_bound p q x x' : noin p q -> R x x' -> p < x -> q <= x.
  Proof. intros Hn Hx Hp. specialize (Hn _ _ Hx). lia. Qed.
  Lemma noin_bound' p q x x' : noin' p q -> R x x' -> p < x' -> q <= x'.
  Proof. intros Hn Hx Hp. specialize (Hn _ _ Hx). lia. Qed.

  (* ---------------------------------------------------------------- skip_fwd *)
  Lemma skip_fwd_sim len len' mx mx' : R len len' -> R mx mx' ->
    forall k p p', N.to_nat (mx - p) = k -> R p p' ->
    res_sim R (skip_fwd toks len p mx) (skip_fwd toks' len' p' mx').
  Proof.
    intros Hl Hm. induction k as [k IH] using lt_wf_ind. intros p p' Hk Hp.
    destruct (p <? mx) eqn:E.
    2:{ rewrite (skip_fwd_eq toks), (skip_fwd_eq toks'). rcmp. rewrite E. exact Hp. }
    assert (Eb : (p <? mx) = true) by exact E. apply N.ltb_lt in E.
    destruct (R_fwd _ _ Hp) as [En En'|t Et Et' Hn|q q' Hr Hr' Hq Hno Hno'].
    - rewrite (skip_fwd_eq toks), (skip_fwd_eq toks'). rcmp. rewrite Eb.
      rewrite (tok_none toks len p En), (tok_none toks' len' p' En'). reflexivity.
    - rewrite (skip_fwd_eq toks), (skip_fwd_eq toks'). rcmp. rewrite Eb.
      rewrite (tok_sim_sig _ _ _ _ _ Hl Hp Et Et').
      destruct (tok toks len p) as [t0| | |]; cbn; auto.
      destruct (p_code t0); [exact Hp|].
      apply (IH (N.to_nat (mx - (p + 1)))); [lia|reflexivity|exact Hn].
    - (* a gap run: the bounds cannot fall inside it *)
      pose proof (proj1 (R_mono _ _ _ _ Hp Hm) E) as E'.
      pose proof (noin_bound _ _ _ _ Hno Hm E) as Hqm. pose proof (noin_bound' _ _ _ _ Hno' Hm E') as Hqm'.
      destruct (len <=? p) eqn:El; [apply N.leb_le in El|apply N.leb_gt in El].
      + assert (len' <= p') by (apply (R_le _ _ _ _ Hl Hp); exact El).
        rewrite (skip_fwd_eq toks), (skip_fwd_eq toks'). rcmp. rewrite Eb.
        rewrite (tok_oob toks len p El), (tok_oob toks' len' p') by assumption. reflexivity.
      + pose proof (proj1 (R_mono _ _ _ _ Hp Hl) El) as El'.
        pose proof (noin_bound _ _ _ _ Hno Hl El) as Hql. pose proof (noin_bound' _ _ _ _ Hno' Hl El') as Hql'.
        rewrite (skip_fwd_run g toks len mx _ p q eq_refl Hr Hqm Hql).
        rewrite (skip_fwd_run g toks' len' mx' _ p' q' eq_refl Hr' Hqm' Hql').
        destruct Hr as [Hpq _].
        apply (IH (N.to_nat (mx - q))); [lia|reflexivity|exact Hq].
  Qed.

  (* ---------------------------------------------------------------- skip_back *)
  Lemma skip_back_sim len len' mn mn' : R len len' -> R mn mn' ->
    forall k p p', N.to_nat p = k -> R p p' ->
    res_sim R (skip_back toks len p mn) (skip_back toks' len' p' mn').
  Proof.
    intros Hl Hm. induction k as [k IH] using lt_wf_ind. intros p p' Hk Hp.
    destruct (mn <? p) eqn:E.
    2:{ rewrite (skip_back_eq toks), (skip_back_eq toks'). rcmp. rewrite E. exact Hp. }
    assert (Eb : (mn <? p) = true) by exact E. apply N.ltb_lt in E.
    destruct (R_bwd _ _ Hp) as [-> ->|t H0 H0' Et Et' Hn|q q' b Hr Hr' Hq Hno Hno' _ _]; [lia| |].
    - rewrite (skip_back_eq toks), (skip_back_eq toks'). rcmp. rewrite Eb.
      rewrite (tok_sim_sig _ _ _ _ _ Hl Hn Et Et').
      destruct (tok toks len (p - 1)) as [t0| | |]; cbn; auto.
      destruct (p_code t0); [exact Hp|].
      apply (IH (N.to_nat (p - 1))); [lia|reflexivity|exact Hn].
    - pose proof (proj1 (R_mono _ _ _ _ Hm Hp) E) as E'.
      destruct Hr as [Hqp Hall]. destruct Hr' as [Hqp' Hall'].
      assert (Hmq : mn <= q) by (specialize (Hno _ _ Hm); lia).
      assert (Hmq' : mn' <= q') by (specialize (Hno' _ _ Hm); lia).
      destruct (p <=? len) eqn:El; [apply N.leb_le in El|apply N.leb_gt in El].
      + assert (El' : p' <= len') by (apply (R_le _ _ _ _ Hp Hl); exact El).
        rewrite (skip_back_run g toks len mn _ q p eq_refl (conj Hqp Hall) Hmq El).
        rewrite (skip_back_run g toks' len' mn' _ q' p' eq_refl (conj Hqp' Hall') Hmq' El').
        apply (IH (N.to_nat q)); [lia|reflexivity|exact Hq].
      + pose proof (proj1 (R_mono _ _ _ _ Hl Hp) El) as El'.
        rewrite (skip_back_eq toks), (skip_back_eq toks'). rcmp. rewrite Eb.
        rewrite (tok_oob toks len (p - 1)), (tok_oob toks' len' (p' - 1)) by lia. reflexivity.
  Qed.

  (* ---------------------------------------------------------------- all_noncode *)
  Lemma anc_sim len len' b b' : R len len' -> R b b' ->
    forall k p p', N.to_nat (b - p) = k -> R p p' ->
    res_sim eq (anc toks len p b) (anc toks' len' p' b').
  Proof.
    intros Hl Hm. induction k as [k IH] using lt_wf_ind. intros p p' Hk Hp.
    destruct (p <? b) eqn:E.
    2:{ rewrite (anc_eq toks), (anc_eq toks'). rcmp. rewrite E. reflexivity. }
    assert (Eb : (p <? b) = true) by exact E. apply N.ltb_lt in E.
    destruct (R_fwd _ _ Hp) as [En En'|t Et Et' Hn|q q' Hr Hr' Hq Hno Hno'].
    - rewrite (anc_eq toks), (anc_eq toks'). rcmp. rewrite Eb.
      rewrite (tok_none toks len p En), (tok_none toks' len' p' En'). reflexivity.
    - rewrite (anc_eq toks), (anc_eq toks'). rcmp. rewrite Eb.
      rewrite (tok_sim_sig _ _ _ _ _ Hl Hp Et Et').
      destruct (tok toks len p) as [t0| | |]; cbn; auto.
      destruct (p_code t0); [reflexivity|].
      apply (IH (N.to_nat (b - (p + 1)))); [lia|reflexivity|exact Hn].
    - pose proof (proj1 (R_mono _ _ _ _ Hp Hm) E) as E'.
      pose proof (noin_bound _ _ _ _ Hno Hm E) as Hqm. pose proof (noin_bound' _ _ _ _ Hno' Hm E') as Hqm'.
      destruct (len <=? p) eqn:El; [apply N.leb_le in El|apply N.leb_gt in El].
      + assert (len' <= p') by (apply (R_le _ _ _ _ Hl Hp); exact El).
        rewrite (anc_eq toks), (anc_eq toks'). rcmp. rewrite Eb.
        rewrite (tok_oob toks len p El), (tok_oob toks' len' p') by assumption. reflexivity.
      + pose proof (proj1 (R_mono _ _ _ _ Hp Hl) El) as El'.
        pose proof (noin_bound _ _ _ _ Hno Hl El) as Hql. pose proof (noin_bound' _ _ _ _ Hno' Hl El') as Hql'.
        rewrite (anc_run g toks len b _ p q eq_refl Hr Hqm Hql).
        rewrite (anc_run g toks' len' b' _ p' q' eq_refl Hr' Hqm' Hql').
        destruct Hr as [Hpq _].
        apply (IH (N.to_nat (b - q))); [lia|reflexivity|exact Hq].
  Qed.

  Lemma all_noncode_sim len len' a a' b b' : R len len' -> R a a' -> R b b' ->
    res_sim eq (all_noncode toks len a b) (all_noncode toks' len' a' b').
  Proof.
    intros Hl Ha Hb. unfold all_noncode. rcmp.
    destruct ((a <=? b) && (b <=? len)); [|reflexivity].
    apply (anc_sim len len' b b' Hl Hb _ a a' eq_refl Ha).
  Qed.

  (* ---------------------------------------------------------------- noncode_scan *)
  Definition orel {A A'} (P : A -> A' -> Prop) (x : option A) (y : option A') : Prop :=
    match x, y with Some a, Some b => P a b | None, None => True | _, _ => False end.

  Lemma ncs_sim len len' : R len len' ->
    forall k p p', N.to_nat (len - p) = k -> R p p' ->
    res_sim (orel R) (ncs toks len p) (ncs toks' len' p').
  Proof.
    intros Hl. induction k as [k IH] using lt_wf_ind. intros p p' Hk Hp.
    destruct (p <? len) eqn:E.
    2:{ rewrite (ncs_eq toks), (ncs_eq toks'). rcmp. rewrite E. exact I. }
    assert (Eb : (p <? len) = true) by exact E. apply N.ltb_lt in E.
    destruct (R_fwd _ _ Hp) as [En En'|t Et Et' Hn|q q' Hr Hr' Hq Hno Hno'].
    - rewrite (ncs_eq toks), (ncs_eq toks'). rcmp. rewrite Eb.
      rewrite (tok_none toks len p En), (tok_none toks' len' p' En'). reflexivity.
    - rewrite (ncs_eq toks), (ncs_eq toks'). rcmp. rewrite Eb.
      rewrite (tok_sim_sig _ _ _ _ _ Hl Hp Et Et').
      destruct (tok toks len p) as [t0| | |]; cbn; auto.
      destruct (p_code t0); [exact Hp|].
      apply (IH (N.to_nat (len - (p + 1)))); [lia|reflexivity|exact Hn].
    - pose proof (proj1 (R_mono _ _ _ _ Hp Hl) E) as E'.
      pose proof (noin_bound _ _ _ _ Hno Hl E) as Hql. pose proof (noin_bound' _ _ _ _ Hno' Hl E') as Hql'.
      rewrite (ncs_run g toks len _ p q eq_refl Hr Hql).
      rewrite (ncs_run g toks' len' _ p' q' eq_refl Hr' Hql').
      destruct Hr as [Hpq _].
      apply (IH (N.to_nat (len - q))); [lia|reflexivity|exact Hq].
  Qed.

  (* ---------------------------------------------------------------- prune *)
  Lemma prune_sim opts len len' : R len len' ->
    forall k p p', N.to_nat (len - p) = k -> R p p' ->
    prune g toks' opts len' p' = prune g toks opts len p.
  Proof.
    (* since the repair of [first_non_whitespace] pruning looks at a code token standing at the index
       only: related positions hold the same significant token, or a gap token (not code) each *)
    intros Hl k p p' _ Hp.
    unfold prune. rewrite (first_nonws_eq toks), (first_nonws_eq toks'). rcmp.
    destruct (p <? len) eqn:E; [|reflexivity]. apply N.ltb_lt in E.
    destruct (R_fwd _ _ Hp) as [En En'|t Et Et' Hn|q q' Hr Hr' Hq Hno Hno'].
    - rewrite En, En'. reflexivity.
    - rewrite Et, Et'. reflexivity.
    - destruct (grun_first g toks _ _ Hr) as (t & Et & Hok). destruct (grun_first g toks' _ _ Hr') as (t' & Et' & Hok').
      rewrite Et, Et'. rewrite (okgap_code g t Hok), (okgap_code g t' Hok'). reflexivity.
  Qed.

  (* ---------------------------------------------------------------- allowable_scan *)
  Lemma asc_sim len len' w w' d : R len len' -> R w w' ->
    forall k i i', N.to_nat i = k -> R i i' ->
    res_sim eq (asc g toks len i w d) (asc g toks' len' i' w' d).
  Proof.
    intros Hl Hw. induction k as [k IH] using lt_wf_ind. intros i i' Hk Hi.
    rewrite (asc_eq g toks), (asc_eq g toks'). rewrite (R_eqb0 _ _ Hi).
    destruct (i =? 0) eqn:E0; [reflexivity|]. apply N.eqb_neq in E0.
    destruct (R_bwd _ _ Hi) as [-> ->|t H0 H0' Et Et' Hn|q q' b Hr Hr' Hq Hno Hno' Hb Hb']; [lia| |].
    - rewrite (tok_sim_sig _ _ _ _ _ Hl Hn Et Et').
      destruct (tok toks len (i - 1)) as [t0| | |]; cbn; auto.
      destruct (p_meta t0); [|reflexivity]. rcmp.
      destruct (w <? i); [|reflexivity].
      apply (IH (N.to_nat (i - 1))); [lia|reflexivity|exact Hn].
    - destruct Hb as (t & Et & Hwt). destruct Hb' as (t' & Et' & Hwt').
      destruct (grun_last g toks _ _ Hr) as (t1 & Et1 & Hok). rewrite Et in Et1. inversion Et1; subst t1.
      destruct (grun_last g toks' _ _ Hr') as (t1 & Et1' & Hok'). rewrite Et' in Et1'. inversion Et1'; subst t1.
      destruct Hr as [Hqi _]. destruct Hr' as [Hqi' _].
      destruct (i <=? len) eqn:El; [apply N.leb_le in El|apply N.leb_gt in El].
      + assert (El' : i' <= len') by (apply (R_le _ _ _ _ Hi Hl); exact El).
        rewrite (tok_some toks len (i - 1) t), (tok_some toks' len' (i' - 1) t') by (lia || assumption).
        cbn [bind]. rewrite (okgap_meta g t Hok), (okgap_meta g t' Hok').
        unfold wsn in Hwt, Hwt'. rewrite Hwt, Hwt'. reflexivity.
      + pose proof (proj1 (R_mono _ _ _ _ Hl Hi) El) as El'.
        rewrite (tok_oob toks len (i - 1)), (tok_oob toks' len' (i' - 1)) by lia. reflexivity.
  Qed.

  (* ---------------------------------------------------------------- one token *)
  (** what the two runs see at related positions *)
  Definition trel (p p' : N) (t t' : ptok) : Prop :=
    (t' = t /\ R (p + 1) (p' + 1)) \/ (okgap g t /\ okgap g t').

  Lemma tok_sim len len' p p' : R len len' -> R p p' ->
    res_sim (trel p p') (tok toks len p) (tok toks' len' p').
  Proof.
    intros Hl Hp.
    destruct (R_fwd _ _ Hp) as [En En'|t Et Et' Hn|q q' Hr Hr' Hq Hno Hno'].
    - rewrite (tok_none toks len p En), (tok_none toks' len' p' En'). reflexivity.
    - unfold tok. rcmp. rewrite Et, Et'. destruct (p <? len); [|reflexivity]. left. auto.
    - destruct (grun_first g toks _ _ Hr) as (t & Et & Hok). destruct (grun_first g toks' _ _ Hr') as (t' & Et' & Hok').
      unfold tok. rcmp. rewrite Et, Et'. destruct (p <? len); [|reflexivity]. right. auto.
  Qed.

  (* ================================================================ with the recursive matchers *)
  Variable U : list N.
  Hypothesis Hstatic : static_ok_b g U = true.
  Definition TA (terms : list N) : Prop := all_anch U terms = true.

  Lemma all_anch_app a b : all_anch U (a ++ b) = all_anch U a && all_anch U b.
  Proof. unfold all_anch. apply forallb_app. Qed.
  Lemma all_anch_in l x : all_anch U l = true -> In x l -> anch U x = true.
  Proof. unfold all_anch. rewrite forallb_forall. auto. Qed.
  Lemma all_anch_filter f l : all_anch U l = true -> all_anch U (filter f l) = true.
  Proof.
    unfold all_anch. rewrite !forallb_forall. intros H x Hx. apply filter_In in Hx as [Hx _]. auto.
  Qed.
  Lemma push_dedupe_anch push : forall terms, TA push -> TA terms -> TA (push_dedupe g terms push).
  Proof.
    induction push as [|t push IH]; intros terms Hp Ht; cbn [push_dedupe]; [exact Ht|].
    unfold TA in Hp. cbn in Hp. apply andb_true_iff in Hp as [Hp1 Hp2].
    destruct (mcontains g terms t); apply IH; try assumption.
    unfold TA. rewrite all_anch_app. cbn. rewrite Ht, Hp1. reflexivity.
  Qed.
  Lemma deeper_anch clear push terms : TA push -> TA terms -> TA (deeper g clear push terms).
  Proof.
    intros Hp Ht. unfold deeper. destruct (clear && negb (is_empty terms)); [exact Hp|].
    apply push_dedupe_anch; assumption.
  Qed.

  Lemma res_sim_bind_eq {A A' C C'} (P : A -> A' -> Prop) (Q : C -> C' -> Prop) x x' f f' :
    res_sim P x x' -> (forall a a', x = ROk a -> x' = ROk a' -> P a a' -> res_sim Q (f a) (f' a')) ->
    res_sim Q (bind x f) (bind x' f').
  Proof. destruct x, x'; cbn; intros H Hf; try contradiction; auto. Qed.

  Definition prel {B} (x y : mr * B) : Prop := mr_sim (fst x) (fst y) /\ snd x = snd y.
  Definition trel3 (x y : mr * option N * list mr) : Prop :=
    mr_sim (fst (fst x)) (fst (fst y)) /\ snd (fst x) = snd (fst y) /\ ch_sim (snd x) (snd y).

  Lemma prune_aux_sub r tys opts : forall avail, prune_aux g r tys opts = ROk avail ->
    all_anch U opts = true -> all_anch U avail = true.
  Proof.
    unfold all_anch. induction opts as [|o opts IH]; intros avail H Ha; cbn [prune_aux] in H.
    - inversion H; subst. reflexivity.
    - cbn [forallb] in Ha. apply andb_true_iff in Ha as [Ha1 Ha2].
      inv_bind H. inv_bind H. specialize (IH _ Ha0 Ha2).
      destruct a as [[[raws tys0] al]|].
      + destruct (memN r raws || intersects tys tys0); inversion H; subst; [cbn [forallb]; rewrite Ha1, IH; reflexivity|exact IH].
      + inversion H; subst. cbn [forallb]. rewrite Ha1, IH. reflexivity.
  Qed.
  Lemma prune_sub tks opts len idx avail : prune g tks opts len idx = ROk avail ->
    all_anch U opts = true -> all_anch U avail = true.
  Proof.
    unfold prune. destruct (first_nonws tks len idx) as [[r tys]|].
    - apply prune_aux_sub.
    - intros H. inversion H; subst. auto.
  Qed.

  Section WithRec.
    Variables rec rec' : N -> N -> N -> list N -> res mr.
    Hypothesis Hrec : forall n p p' len len' terms, R p p' -> R len len' -> TA terms ->
      res_sim mr_sim (rec n p len terms) (rec' n p' len' terms).
    Hypothesis Hanch : forall n p len terms m, anch U n = true -> p <= len -> rec n p len terms = ROk m -> anchored p m.
    Hypothesis Honetok : forall n p len terms m, onetok g n = true -> rec n p len terms = ROk m ->
      has_match m = true -> mr_end m = p + 1 /\ exists t, tk p = Some t /\ ~ okgap g t.

    Lemma any_matches_sim ts i i' len len' terms : R i i' -> R len len' -> TA terms ->
      res_sim eq (any_matches rec ts i len terms) (any_matches rec' ts i' len' terms).
    Proof.
      intros Hi Hl Ht. induction ts as [|t ts IH]; cbn [any_matches]; [reflexivity|].
      eapply res_sim_bind; [apply Hrec; assumption|]. intros m m' Hm.
      rewrite (has_match_sim _ _ Hm). destruct (has_match m); [reflexivity|exact IH].
    Qed.
    Lemma first_term_matches_sim ts i i' len len' terms : R i i' -> R len len' -> TA terms ->
      res_sim eq (first_term_matches rec ts i len terms) (first_term_matches rec' ts i' len' terms).
    Proof.
      intros Hi Hl Ht. induction ts as [|t ts IH]; cbn [first_term_matches]; [reflexivity|].
      eapply res_sim_bind; [apply Hrec; assumption|]. intros m m' Hm.
      rewrite (has_match_sim _ _ Hm). destruct (has_match m); [reflexivity|exact IH].
    Qed.
    Lemma first_matching_sim cs i i' len len' terms : R i i' -> R len len' -> TA terms ->
      res_sim (orel prel) (first_matching rec cs i len terms) (first_matching rec' cs i' len' terms).
    Proof.
      intros Hi Hl Ht. induction cs as [|c cs IH]; cbn [first_matching]; [exact I|].
      eapply res_sim_bind; [apply Hrec; assumption|]. intros m m' Hm.
      rewrite (has_match_sim _ _ Hm). destruct (has_match m); [split; [exact Hm|reflexivity]|exact IH].
    Qed.

    Lemma nms_sim ms terms len len' : R len len' -> TA terms -> nm_check_simple g ms = ROk tt ->
      forall k p p', N.to_nat (len - p) = k -> R p p' ->
      res_sim (orel prel) (nms g toks rec len p ms terms) (nms g toks' rec' len' p' ms terms).
    Proof.
      intros Hl Ht Hs. induction k as [k IH] using lt_wf_ind. intros p p' Hk Hp.
      destruct (p <? len) eqn:E.
      2:{ rewrite (nms_eq g toks), (nms_eq g toks'). rcmp. rewrite E. exact I. }
      assert (Eb : (p <? len) = true) by exact E. apply N.ltb_lt in E.
      destruct (R_fwd _ _ Hp) as [En En'|t Et Et' Hn|q q' Hr Hr' Hq Hno Hno'].
      - rewrite (nms_eq g toks), (nms_eq g toks'). rcmp. rewrite Eb.
        rewrite (tok_none toks len p En), (tok_none toks' len' p' En'). reflexivity.
      - rewrite (nms_eq g toks), (nms_eq g toks'). rcmp. rewrite Eb.
        rewrite (tok_sim_sig _ _ _ _ _ Hl Hp Et Et').
        destruct (tok toks len p) as [t0| | |]; cbn [bind]; try (cbn; auto; fail).
        destruct (nm_candidates g ms t0) as [cands| | |]; cbn [bind]; try (cbn; auto; fail).
        eapply res_sim_bind; [apply first_matching_sim; assumption|]. intros h h' Hh.
        destruct h as [h|], h' as [h'|]; try contradiction; [exact Hh|].
        apply (IH (N.to_nat (len - (p + 1)))); [lia|reflexivity|exact Hn].
      - pose proof (proj1 (R_mono _ _ _ _ Hp Hl) E) as E'.
        pose proof (noin_bound _ _ _ _ Hno Hl E) as Hql. pose proof (noin_bound' _ _ _ _ Hno' Hl E') as Hql'.
        rewrite (nms_run g toks rec len ms terms Hs _ p q eq_refl Hr Hql).
        rewrite (nms_run g toks' rec' len' ms terms Hs _ p' q' eq_refl Hr' Hql').
        destruct Hr as [Hpq _].
        apply (IH (N.to_nat (len - q))); [lia|reflexivity|exact Hq].
    Qed.

    Lemma next_match_sim len len' idx idx' ms terms : R len len' -> R idx idx' -> TA terms ->
      res_sim prel (next_match g toks rec len idx ms terms) (next_match g toks' rec' len' idx' ms terms).
    Proof.
      intros Hl Hi Ht. unfold next_match. rcmp.
      destruct (len <=? idx); [split; [apply empty_at_sim; exact Hi|reflexivity]|].
      destruct (nm_check_simple g ms) as [[]| | |] eqn:Es; cbn [bind]; try (cbn; auto; fail).
      eapply res_sim_bind; [exact (nms_sim ms terms len len' Hl Ht Es _ idx idx' eq_refl Hi)|].
      intros h h' Hh. destruct h as [[r m]|], h' as [[r' m']|]; try contradiction.
      - destruct Hh as [H1 H2]. cbn in H1, H2. subst. split; [exact H1|reflexivity].
      - split; [apply empty_at_sim; exact Hi|reflexivity].
    Qed.

    Lemma longest_loop_sim idx idx' len len' terms : R idx idx' -> R len len' -> TA terms ->
      idx <= len ->
      forall opts best best' bm, all_anch U opts = true -> mr_sim best best' -> anchored idx best ->
      res_sim prel (longest_loop g toks rec opts idx len terms best bm)
                   (longest_loop g toks' rec' opts idx' len' terms best' bm).
    Proof.
      intros Hi Hl Ht Hil. induction opts as [|o opts IH]; intros best best' bm Ha Hb Ab; cbn [longest_loop].
      - split; [exact Hb|reflexivity].
      - cbn in Ha. apply andb_true_iff in Ha as [Hao Ha].
        destruct (ckey_of g o); cbn [bind]; try (cbn; auto; fail).
        eapply res_sim_bind_eq; [apply Hrec; assumption|]. intros r r' Er Er' Hr.
        pose proof (Hanch _ _ _ _ _ Hao Hil Er) as Ar.
        rewrite (has_match_sim _ _ Hr). pose proof (mr_sim_end _ _ Hr) as He. rcmp.
        destruct (has_match r && (mr_end r =? len)); [split; [exact Hr|reflexivity]|].
        rewrite (mlen_ltb_sim idx idx' best best' r r' Hi Hb Hr Ab Ar).
        destruct (mlen best <? mlen r).
        + destruct (is_empty opts); [split; [exact Hr|reflexivity]|].
          destruct (negb (is_empty terms)).
          * eapply res_sim_bind; [exact (skip_fwd_sim len len' len len' Hl Hl _ _ _ eq_refl He)|].
            intros nc nc' Hnc. rcmp. destruct (nc =? len); [split; [exact Hr|reflexivity]|].
            eapply res_sim_bind; [apply any_matches_sim; assumption|]. intros st st' <-.
            destruct st; [split; [exact Hr|reflexivity]|]. apply IH; assumption.
          * apply IH; assumption.
        + apply IH; assumption.
    Qed.

    Lemma longest_match_sim len len' ms idx idx' terms : R len len' -> R idx idx' -> TA terms ->
      all_anch U ms = true ->
      res_sim prel (longest_match g toks rec len ms idx terms) (longest_match g toks' rec' len' ms idx' terms).
    Proof.
      intros Hl Hi Ht Ha. unfold longest_match. rcmp.
      destruct (is_empty ms || (idx =? len)); [split; [apply empty_at_sim; exact Hi|reflexivity]|].
      rewrite (prune_sim ms len len' Hl _ idx idx' eq_refl Hi).
      destruct (prune g toks ms len idx) as [avail| | |] eqn:Ep; cbn [bind]; try (cbn; auto; fail).
      destruct (is_empty avail); [split; [apply empty_at_sim; exact Hi|reflexivity]|].
      eapply res_sim_bind_eq; [apply (tok_sim len len' idx idx' Hl Hi)|]. intros t0 t0' Et0 _ _.
      apply (tok_lt toks) in Et0.
      apply longest_loop_sim; try assumption; [lia| | |].
      - eapply prune_sub; eassumption.
      - apply empty_at_sim; exact Hi.
      - intro H. reflexivity.
    Qed.

    (* -------------------------------------------------------------- brackets *)
    Lemma rb_loop_sim fl : forall len len' opening opening' ti starts ends pers terms nested mi mi' ch ch',
      R len len' -> mr_sim opening opening' -> R mi mi' -> ch_sim ch ch' -> TA terms ->
      res_sim mr_sim (rb_loop g toks rec fl len opening ti starts ends pers terms nested mi ch)
                     (rb_loop g toks' rec' fl len' opening' ti starts ends pers terms nested mi' ch').
    Proof.
      induction fl as [|fl IH]; intros len len' opening opening' ti starts ends pers terms nested mi mi' ch ch'
        Hl Ho Hmi Hch Ht; cbn [rb_loop]; [exact I|].
      eapply res_sim_bind; [apply next_match_sim; assumption|].
      intros [m mt] [m' mt'] [Hm Hmt]. cbn in Hm, Hmt. subst mt'.
      rewrite (has_match_sim _ _ Hm). destruct (negb (has_match m)); [exact I|].
      destruct mt as [mt|]; [|reflexivity].
      destruct (mcontains g ends mt).
      - destruct (mposition g ends mt) as [ci|]; [|reflexivity].
        destruct (ci =? ti); [|exact I].
        destruct (nth_bool pers ti) as [pe|]; [|reflexivity].
        assert (Hr : mr_sim (MR (mr_start opening) (mr_end m) None
                                [(mr_end opening, k_indent g); (mr_start m, k_dedent g)] (ch ++ [m]))
                            (MR (mr_start opening') (mr_end m') None
                                [(mr_end opening', k_indent g); (mr_start m', k_dedent g)] (ch' ++ [m']))).
        { constructor.
          - apply mr_sim_start; exact Ho.
          - apply mr_sim_end; exact Hm.
          - constructor; [split; [apply mr_sim_end; exact Ho|reflexivity]|].
            constructor; [split; [apply mr_sim_start; exact Hm|reflexivity]|constructor].
          - apply ch_sim_app; [exact Hch|constructor; [exact Hm|constructor]]. }
        destruct pe; [apply wrap_sim; exact Hr|exact Hr].
      - destruct (mposition g starts mt) as [ti2|]; [|reflexivity].
        eapply res_sim_bind.
        + apply IH; try assumption; [apply mr_sim_end; exact Hm|constructor; [exact Hm|constructor]].
        + intros inner inner' Hin. apply IH; try assumption; [apply mr_sim_end; exact Hin|].
          destruct nested; [apply ch_sim_app; [exact Hch|constructor; [exact Hin|constructor]]|exact Hch].
    Qed.

    Lemma resolve_bracket_sim fl len len' opening opening' opener starts ends pers terms nested :
      R len len' -> mr_sim opening opening' -> TA terms ->
      res_sim mr_sim (resolve_bracket g toks rec fl len opening opener starts ends pers terms nested)
                     (resolve_bracket g toks' rec' fl len' opening' opener starts ends pers terms nested).
    Proof.
      intros Hl Ho Ht. unfold resolve_bracket. destruct (mposition g starts opener); [|reflexivity].
      apply rb_loop_sim; try assumption; [apply mr_sim_end; exact Ho|constructor; [exact Ho|constructor]].
    Qed.

    Lemma neb_loop_sim k : forall fl len len' idx idx' ms starts ends pers terms mi mi' ch ch',
      R len len' -> R idx idx' -> R mi mi' -> ch_sim ch ch' -> TA terms ->
      res_sim trel3 (neb_loop g toks rec k fl len idx ms starts ends pers terms mi ch)
                    (neb_loop g toks' rec' k fl len' idx' ms starts ends pers terms mi' ch').
    Proof.
      induction k as [|k IH]; intros fl len len' idx idx' ms starts ends pers terms mi mi' ch ch'
        Hl Hi Hmi Hch Ht; cbn [neb_loop]; [exact I|].
      eapply res_sim_bind; [apply next_match_sim; assumption|].
      intros [m mt] [m' mt'] [Hm Hmt]. cbn in Hm, Hmt. subst mt'.
      rewrite (has_match_sim _ _ Hm). destruct (negb (has_match m)); [split; [|split]; cbn; auto|].
      destruct mt as [mt|]; [|reflexivity].
      destruct (mcontains g ms mt); [split; [|split]; cbn; auto|].
      destruct (mcontains g ends mt); [split; [|split]; cbn; [apply empty_at_sim; exact Hi|reflexivity|constructor]|].
      eapply res_sim_bind; [apply resolve_bracket_sim; assumption|].
      intros b b' Hb. apply IH; try assumption; [apply mr_sim_end; exact Hb|].
      apply ch_sim_app; [exact Hch|constructor; [exact Hb|constructor]].
    Qed.

    Lemma next_ex_bracket_match_sim fl len len' idx idx' ms terms : R len len' -> R idx idx' -> TA terms ->
      res_sim trel3 (next_ex_bracket_match g toks rec fl len idx ms terms)
                    (next_ex_bracket_match g toks' rec' fl len' idx' ms terms).
    Proof.
      intros Hl Hi Ht. unfold next_ex_bracket_match. rcmp.
      destruct (len <=? idx); [split; [|split]; cbn; [apply empty_at_sim; exact Hi|reflexivity|constructor]|].
      destruct (resolve_refs (map (fun b => fst (fst b)) (g_brackets g))); cbn [bind]; try (cbn; auto; fail).
      destruct (resolve_refs (map (fun b => snd (fst b)) (g_brackets g))); cbn [bind]; try (cbn; auto; fail).
      apply neb_loop_sim; try assumption. constructor.
    Qed.

    (* -------------------------------------------------------------- greedy_match *)
    Lemma greedy_loop_sim k : forall fl len len' idx idx' ms terms it nested w w' ch ch',
      R len len' -> R idx idx' -> R w w' -> ch_sim ch ch' -> TA terms ->
      res_sim mr_sim (greedy_loop g toks rec k fl len idx ms terms it nested w ch)
                     (greedy_loop g toks' rec' k fl len' idx' ms terms it nested w' ch').
    Proof.
      induction k as [|k IH]; intros fl len len' idx idx' ms terms it nested w w' ch ch'
        Hl Hi Hw Hch Ht; cbn [greedy_loop]; [exact I|].
      eapply res_sim_bind; [apply next_ex_bracket_match_sim; assumption|].
      intros [[m mt] inner] [[m' mt'] inner'] (Hm & Hmt & Hin). cbn in Hm, Hmt, Hin. subst mt'.
      assert (Hch2 : ch_sim (if nested then ch ++ inner else ch) (if nested then ch' ++ inner' else ch')).
      { destruct nested; [apply ch_sim_app; assumption|exact Hch]. }
      rewrite (has_match_sim _ _ Hm).
      destruct (negb (has_match m)); [constructor; [exact Hi|exact Hl|constructor|exact Hch2]|].
      destruct mt as [mt|]; [|reflexivity].
      destruct (simple_of g mt) as [[[[raws tys] alpha]|]| | |]; cbn [bind]; try (cbn; auto; fail).
      pose proof (mr_sim_start _ _ Hm) as Hs. pose proof (mr_sim_end _ _ Hm) as He.
      eapply (res_sim_bind eq).
      - destruct (is_empty tys && alpha); [|reflexivity]. rcmp.
        destruct (mr_start m <? w); [reflexivity|].
        exact (asc_sim len len' w w' (w =? mr_start m) Hl Hw _ _ _ eq_refl Hs).
      - intros ok ok' <-. destruct (negb ok); [apply IH; assumption|].
        destruct it; [constructor; [exact Hi|exact He|constructor|constructor]|].
        eapply res_sim_bind; [exact (skip_back_sim len len' idx idx' Hl Hi _ _ _ eq_refl Hs)|].
        intros s2 s2' Hs2. rcmp.
        destruct (idx =? s2); constructor; try assumption; constructor.
    Qed.
    Lemma greedy_match_sim fl len len' idx idx' ms terms it nested : R len len' -> R idx idx' -> TA terms ->
      res_sim mr_sim (greedy_match g toks rec fl len idx ms terms it nested)
                     (greedy_match g toks' rec' fl len' idx' ms terms it nested).
    Proof. intros. apply greedy_loop_sim; try assumption. constructor. Qed.

    Lemma trim_to_terminator_sim fl len len' idx idx' ts terms : R len len' -> R idx idx' -> TA terms ->
      res_sim R (trim_to_terminator g toks rec fl len idx ts terms)
                (trim_to_terminator g toks' rec' fl len' idx' ts terms).
    Proof.
      intros Hl Hi Ht. unfold trim_to_terminator. rcmp.
      destruct (len <=? idx); [exact Hl|].
      rewrite (prune_sim ts len len' Hl _ idx idx' eq_refl Hi).
      destruct (prune g toks ts len idx) as [pr| | |]; cbn [bind]; try (cbn; auto; fail).
      eapply res_sim_bind; [apply first_term_matches_sim; assumption|]. intros hit hit' <-.
      destruct hit; [exact Hi|].
      eapply res_sim_bind; [apply greedy_match_sim; assumption|]. intros tm tm' Htm.
      exact (skip_back_sim len len' idx idx' Hl Hi _ _ _ eq_refl (mr_sim_end _ _ Htm)).
    Qed.

    (* -------------------------------------------------------------- Sequence *)
    Definition st_sim (st st' : sstate) : Prop :=
      R (s_matched st) (s_matched st') /\ R (s_max st) (s_max st') /\ ins_sim (s_ins st) (s_ins st') /\
      ch_sim (s_ch st) (s_ch st') /\ s_first st' = s_first st /\ s_buf st' = s_buf st.
    Definition step_sim (r r' : step_r) : Prop :=
      match r, r' with
      | Cont st, Cont st' => st_sim st st'
      | Ret m, Ret m' => mr_sim m m'
      | _, _ => False
      end.

    (** the branch of [seq_elem] for an element that is neither a conditional nor a meta *)
    Definition seq_elem_dflt (tks : PositiveMap.t ptok) (rc : N -> N -> N -> list N -> res mr)
               (fl : nat) (d : seq_d) (len start_idx : N) (terms : list N) (st : sstate) (e : N) : res step_r :=
        let matched_idx := s_matched st in
        let max_idx := s_max st in
        idx <- (if sq_gaps d then skip_fwd tks len matched_idx max_idx else ROk matched_idx) ;;
        if max_idx <=? idx then
          o <- opt_of g e ;;
          if o then ROk (Cont st)
          else if pmode_eqb (sq_mode d) Strict || (matched_idx =? start_idx) then ROk (Ret (empty_at start_idx))
          else ROk (Ret (MR start_idx matched_idx (Some (MKind (k_unparsable g)))
                            (s_ins st ++ map (fun k => (matched_idx, k)) (s_buf st)) (s_ch st)))
        else
          (if len <? max_idx then RPanic PIndex else ROk tt) ;;;
          em <- rc e idx max_idx terms ;;
          if negb (has_match em) then
            o <- opt_of g e ;;
            if o then ROk (Cont st)
            else if pmode_eqb (sq_mode d) Strict then ROk (Ret (empty_at start_idx))
            else if pmode_eqb (sq_mode d) GreedyOnceStarted && (matched_idx =? start_idx) then ROk (Ret (empty_at start_idx))
            else if matched_idx =? start_idx then ROk (Ret (unparsable g start_idx max_idx))
            else
              u <- skip_fwd tks len matched_idx max_idx ;;
              ROk (Ret (MR start_idx max_idx None (s_ins st) (s_ch st ++ [unparsable g u max_idx])))
          else
            let ins := s_ins st ++ flush_metas g matched_idx idx (s_buf st) in
            let matched_idx' := mr_end em in
            newmax <- (if s_first st && pmode_eqb (sq_mode d) GreedyOnceStarted
                       then trim_to_terminator g tks rc fl len matched_idx' (sq_terms d ++ terms) terms
                       else ROk max_idx) ;;
            let first' := if pmode_eqb (sq_mode d) GreedyOnceStarted then false else s_first st in
            if is_some (mr_matched em)
            then ROk (Cont (mkS matched_idx' newmax ins (s_ch st ++ [em]) first' []))
            else ROk (Cont (mkS matched_idx' newmax (ins ++ mr_ins em) (s_ch st ++ mr_ch em) first' [])).

    Lemma seq_elem_unfold tks rc fl d len si terms st e :
      seq_elem g tks rc fl d len si terms st e =
      ie <- info g e ;;
      match n_node ie with
      | GCond k en => ROk (Cont (mkS (s_matched st) (s_max st) (s_ins st) (s_ch st) (s_first st)
                                     (if en then s_buf st ++ [k] else s_buf st)))
      | GMeta k => ROk (Cont (mkS (s_matched st) (s_max st) (s_ins st) (s_ch st) (s_first st) (s_buf st ++ [k])))
      | _ => seq_elem_dflt tks rc fl d len si terms st e
      end.
    Proof. unfold seq_elem. destruct (info g e) as [ie| | |]; [|reflexivity..]. cbn [bind]. destruct (n_node ie); reflexivity. Qed.

    Lemma flush_metas_sim a a' b b' buf : R a a' -> R b b' -> ins_sim (flush_metas g a b buf) (flush_metas g a' b' buf).
    Proof. intros. unfold flush_metas. destruct (existsb (ival_neg g) buf); apply ins_sim_map; assumption. Qed.

    Lemma seq_elem_dflt_sim fl d len len' si si' terms st st' e :
      R len len' -> R si si' -> TA terms -> st_sim st st' ->
      res_sim step_sim (seq_elem_dflt toks rec fl d len si terms st e) (seq_elem_dflt toks' rec' fl d len' si' terms st' e).
    Proof.
      intros Hl Hsi Ht (Hm & Hx & Hins & Hch & Hf & Hb). unfold seq_elem_dflt. rewrite Hf, Hb.
      eapply (res_sim_bind R).
      { destruct (sq_gaps d); [exact (skip_fwd_sim len len' _ _ Hl Hx _ _ _ eq_refl Hm)|exact Hm]. }
      intros idx idx' Hidx. rcmp.
      destruct (s_max st <=? idx).
      - destruct (opt_of g e) as [o| | |]; cbn [bind]; try (cbn; auto; fail).
        destruct o; [repeat (split; try assumption)|].
        destruct (pmode_eqb (sq_mode d) Strict || (s_matched st =? si)); [apply empty_at_sim; exact Hsi|].
        constructor; try assumption. apply ins_sim_app; [exact Hins|apply ins_sim_map; exact Hm].
      - destruct (len <? s_max st); [reflexivity|]. cbn [bind].
        eapply res_sim_bind; [apply Hrec; assumption|]. intros em em' Hem.
        rewrite (has_match_sim _ _ Hem).
        destruct (negb (has_match em)).
        + destruct (opt_of g e) as [o| | |]; cbn [bind]; try (cbn; auto; fail).
          destruct o; [repeat (split; try assumption)|].
          destruct (pmode_eqb (sq_mode d) Strict); [apply empty_at_sim; exact Hsi|].
          destruct (pmode_eqb (sq_mode d) GreedyOnceStarted && (s_matched st =? si)); [apply empty_at_sim; exact Hsi|].
          destruct (s_matched st =? si); [apply unparsable_sim; assumption|].
          eapply res_sim_bind; [exact (skip_fwd_sim len len' _ _ Hl Hx _ _ _ eq_refl Hm)|].
          intros u u' Hu. constructor; try assumption.
          apply ch_sim_app; [exact Hch|constructor; [apply unparsable_sim; assumption|constructor]].
        + pose proof (mr_sim_end _ _ Hem) as He.
          eapply (res_sim_bind R).
          { destruct (s_first st && pmode_eqb (sq_mode d) GreedyOnceStarted);
              [apply trim_to_terminator_sim; assumption|exact Hx]. }
          intros nm nm' Hnm. rewrite (mr_sim_matched _ _ Hem).
          assert (Hins2 : ins_sim (s_ins st ++ flush_metas g (s_matched st) idx (s_buf st))
                                  (s_ins st' ++ flush_metas g (s_matched st') idx' (s_buf st))).
          { apply ins_sim_app; [exact Hins|apply flush_metas_sim; assumption]. }
          destruct (is_some (mr_matched em)); cbn [step_sim res_sim]; unfold st_sim; cbn.
          * repeat (split; try assumption). apply ch_sim_app; [exact Hch|constructor; [exact Hem|constructor]].
          * repeat (split; try assumption).
            -- apply ins_sim_app; [exact Hins2|apply mr_sim_ins; exact Hem].
            -- apply ch_sim_app; [exact Hch|apply mr_sim_ch; exact Hem].
    Qed.

    Lemma seq_elem_sim fl d len len' si si' terms st st' e :
      R len len' -> R si si' -> TA terms -> st_sim st st' ->
      res_sim step_sim (seq_elem g toks rec fl d len si terms st e) (seq_elem g toks' rec' fl d len' si' terms st' e).
    Proof.
      intros Hl Hsi Ht Hst. rewrite !seq_elem_unfold.
      destruct (info g e) as [ie| | |]; cbn [bind]; try (cbn; auto; fail).
      pose proof Hst as (Hm & Hx & Hins & Hch & Hf & Hb).
      destruct (n_node ie); try (apply seq_elem_dflt_sim; assumption);
        cbn [step_sim res_sim]; unfold st_sim; cbn; rewrite Hf, Hb; repeat (split; try assumption).
    Qed.

    Lemma seq_loop_sim fl d len len' si si' terms es : R len len' -> R si si' -> TA terms ->
      forall st st', st_sim st st' ->
      res_sim step_sim (seq_loop g toks rec fl d len si terms st es) (seq_loop g toks' rec' fl d len' si' terms st' es).
    Proof.
      intros Hl Hsi Ht. induction es as [|e es IH]; intros st st' Hst; cbn [seq_loop]; [exact Hst|].
      eapply res_sim_bind; [apply seq_elem_sim; assumption|].
      intros [s1|m1] [s1'|m1'] H1; try contradiction; [apply IH; exact H1|exact H1].
    Qed.

    Lemma match_sequence_sim fl d len len' idx idx' terms : R len len' -> R idx idx' -> TA terms ->
      res_sim mr_sim (match_sequence g toks rec fl d len idx terms) (match_sequence g toks' rec' fl d len' idx' terms).
    Proof.
      intros Hl Hi Ht. unfold match_sequence.
      eapply (res_sim_bind R).
      { destruct (pmode_eqb (sq_mode d) Greedy); [apply trim_to_terminator_sim; assumption|exact Hl]. }
      intros mx mx' Hmx.
      eapply res_sim_bind.
      { apply seq_loop_sim; try assumption. unfold st_sim; cbn. repeat (split; try assumption); constructor. }
      intros [st|m] [st'|m'] Hr; try contradiction; [|exact Hr].
      destruct Hr as (Hm & Hx & Hins & Hch & Hf & Hb). rewrite Hb. rcmp.
      assert (Hins2 : ins_sim (s_ins st ++ map (fun k => (s_matched st, k)) (s_buf st))
                              (s_ins st' ++ map (fun k => (s_matched st', k)) (s_buf st))).
      { apply ins_sim_app; [exact Hins|apply ins_sim_map; exact Hm]. }
      destruct (negb (pmode_eqb (sq_mode d) Strict) && (s_matched st <? s_max st)).
      - eapply res_sim_bind; [exact (skip_fwd_sim len len' _ _ Hl Hx _ _ _ eq_refl Hm)|]. intros i i' Hii.
        eapply res_sim_bind; [exact (skip_back_sim len len' _ _ Hl Hii _ _ _ eq_refl Hx)|]. intros sp sp' Hsp.
        rcmp. destruct (i <? sp); constructor; try assumption.
        apply ch_sim_app; [exact Hch|constructor; [apply unparsable_sim; assumption|constructor]].
      - constructor; assumption.
    Qed.

    (* -------------------------------------------------------------- Bracketed *)
    (** one run: the closing bracket found by [resolve_bracket] is one significant token *)
    Lemma nm_candidates_sub ms t : forall cs, nm_candidates g ms t = ROk cs -> forall c, In c cs -> In c ms.
    Proof.
      induction ms as [|m ms IH]; intros cs H c Hc; cbn [nm_candidates] in H.
      - inversion H; subst. destruct Hc.
      - inv_bind H. inv_bind H. destruct a as [[[raws tys] al]|]; [|discriminate].
        destruct (memN (p_ftr t) raws || intersects (p_types t) tys); inversion H; subst.
        + destruct Hc as [->|Hc]; [left; reflexivity|right; eapply IH; eauto].
        + right; eapply IH; eauto.
    Qed.
    Lemma first_matching_spec2 cs : forall i len terms r c,
      first_matching rec cs i len terms = ROk (Some (r, c)) ->
      In c cs /\ rec c i len terms = ROk r /\ has_match r = true.
    Proof.
      induction cs as [|c0 cs IH]; intros i len terms r c H; cbn [first_matching] in H; [discriminate|].
      inv_bind H. destruct (has_match a) eqn:E.
      - inversion H; subst. split; [left; reflexivity|split; assumption].
      - apply IH in H. destruct H as (H1 & H2). split; [right; exact H1|exact H2].
    Qed.
    Lemma next_match_scan_spec2 n : forall i len ms terms r c,
      next_match_scan g toks rec n i len ms terms = ROk (Some (r, c)) ->
      In c ms /\ exists j, rec c j len terms = ROk r /\ has_match r = true.
    Proof.
      induction n as [|n IH]; intros i len ms terms r c H; cbn [next_match_scan] in H; [discriminate|].
      destruct (i <? len); [|discriminate].
      inv_bind H. inv_bind H. inv_bind H.
      destruct a1 as [[r0 c0]|].
      - inversion H; subst. apply first_matching_spec2 in Ha1. destruct Ha1 as (H1 & H2 & H3).
        split; [eapply nm_candidates_sub; eauto|eauto].
      - eapply IH; eauto.
    Qed.
    Lemma next_match_spec2 len idx ms terms m c :
      next_match g toks rec len idx ms terms = ROk (m, Some c) ->
      In c ms /\ exists j, rec c j len terms = ROk m /\ has_match m = true.
    Proof.
      unfold next_match. intro H. destruct (len <=? idx); [discriminate|].
      inv_bind H. inv_bind H. destruct a0 as [[r0 c0]|]; [|discriminate].
      inversion H; subst. eapply next_match_scan_spec2; eauto.
    Qed.

    Lemma rb_loop_end fl : forall len opening ti starts ends pers terms nested mi ch r,
      (forall c, In c (starts ++ ends) -> onetok g c = true) ->
      rb_loop g toks rec fl len opening ti starts ends pers terms nested mi ch = ROk r ->
      exists i t, mr_end r = i + 1 /\ tk i = Some t /\ ~ okgap g t.
    Proof.
      induction fl as [|fl IH]; intros len opening ti starts ends pers terms nested mi ch r Hone H;
        cbn [rb_loop] in H; [discriminate|].
      inv_bind H. destruct a as [m mt].
      destruct (negb (has_match m)); [discriminate|].
      destruct mt as [mt|]; [|discriminate].
      destruct (mcontains g ends mt).
      - destruct (mposition g ends mt) as [ci|]; [|discriminate].
        destruct (ci =? ti); [|discriminate].
        destruct (nth_bool pers ti) as [pe|]; [|discriminate].
        apply next_match_spec2 in Ha. destruct Ha as (Hin & j & Hj & Hhm).
        destruct (Honetok _ _ _ _ _ (Hone _ Hin) Hj Hhm) as (He & t & Ht & Hs).
        exists j, t. split; [|split; assumption].
        destruct pe; inversion H; subst.
        + destruct (wrap_span (MR (mr_start opening) (mr_end m) None
                                  [(mr_end opening, k_indent g); (mr_start m, k_dedent g)] (ch ++ [m]))
                              (MKind (k_bracketed g))) as [_ ->]. exact He.
        + exact He.
      - destruct (mposition g starts mt) as [ti2|]; [|discriminate].
        inv_bind H. eapply IH; eauto.
    Qed.

    Lemma match_bracketed_sim fl self found bs be pers gaps d len len' idx idx' terms :
      R len len' -> R idx idx' -> TA terms ->
      (forall sb eb, bs = Some sb -> be = Some eb ->
         onetok g sb = true /\ onetok g eb = true /\ anch U eb = true) ->
      res_sim mr_sim (match_bracketed g toks rec fl self found bs be pers gaps d len idx terms)
                     (match_bracketed g toks' rec' fl self found bs be pers gaps d len' idx' terms).
    Proof.
      intros Hl Hi Ht Hst. unfold match_bracketed.
      destruct (negb found); [reflexivity|].
      destruct bs as [sb|]; [|reflexivity]. destruct be as [eb|]; [|reflexivity].
      destruct (Hst sb eb eq_refl eq_refl) as (Hos & Hoe & Hae).
      eapply res_sim_bind; [apply Hrec; assumption|]. intros sm sm' Hsm.
      rewrite (has_match_sim _ _ Hsm). destruct (negb (has_match sm)); [apply empty_at_sim; exact Hi|].
      eapply res_sim_bind_eq; [apply resolve_bracket_sim; assumption|]. intros bm bm' Ebm _ Hbm.
      pose proof (mr_sim_end _ _ Hbm) as Hbe.
      rewrite (R_eqb0 _ _ Hbe). destruct (mr_end bm =? 0); [reflexivity|]. cbn [bind].
      (* the position of the closing bracket *)
      assert (He0 : R (mr_end bm - 1) (mr_end bm' - 1)).
      { unfold resolve_bracket in Ebm. destruct (mposition g [sb] sb); [|discriminate].
        apply rb_loop_end in Ebm.
        2:{ intros c [<-|[<-|[]]]; assumption. }
        destruct Ebm as (i & t & Hei & Hti & Hsi).
        destruct (R_bwd _ _ Hbe) as [H0 _|t0 _ _ _ _ Hn|q q' b Hr _ _ _ _ _ _]; [lia|exact Hn|].
        destruct (grun_last g toks _ _ Hr) as (t1 & Et1 & Hok1).
        replace (mr_end bm - 1) with i in Et1 by lia. rewrite Hti in Et1. inversion Et1; subst t1.
        exfalso. exact (Hsi Hok1). }
      pose proof (mr_sim_end _ _ Hsm) as Hse.
      eapply (res_sim_bind R).
      { destruct gaps; [exact (skip_fwd_sim len len' len len' Hl Hl _ _ _ eq_refl Hse)|exact Hse]. }
      intros i1 i1' Hi1.
      eapply (res_sim_bind R).
      { destruct gaps; [exact (skip_back_sim len len' _ _ Hl Hi1 _ _ _ eq_refl He0)|exact He0]. }
      intros e1 e1' He1. rcmp. destruct (len <? e1); [reflexivity|]. cbn [bind].
      eapply res_sim_bind.
      { apply match_sequence_sim; try assumption. apply deeper_anch; [|exact Ht].
        unfold TA. cbn. rewrite Hae. reflexivity. }
      intros cm cm' Hcm. pose proof (mr_sim_end _ _ Hcm) as Hce. rcmp.
      destruct (negb (mr_end cm =? e1) && pmode_eqb (sq_mode d) Strict); [apply empty_at_sim; exact Hi1|].
      destruct (negb gaps && (mr_end cm =? mr_end bm - 1)); [reflexivity|].
      rewrite (mr_sim_matched _ _ Hbm), (mr_sim_matched _ _ Hcm).
      constructor; [apply mr_sim_start; exact Hbm|exact Hbe|apply mr_sim_ins; exact Hbm|].
      destruct (is_some (mr_matched cm)).
      - apply ch_sim_app; [apply mr_sim_ch; exact Hbm|constructor; [exact Hcm|constructor]].
      - apply ch_sim_app; [apply mr_sim_ch; exact Hbm|apply mr_sim_ch; exact Hcm].
    Qed.

    (* -------------------------------------------------------------- AnyNumberOf *)
    Lemma parse_mode_result_sim len len' cur cur' mx mx' mode : R len len' -> mr_sim cur cur' -> R mx mx' ->
      res_sim mr_sim (parse_mode_result g toks len cur mx mode) (parse_mode_result g toks' len' cur' mx' mode).
    Proof.
      intros Hl Hc Hm. unfold parse_mode_result. destruct (pmode_eqb mode Strict); [exact Hc|].
      pose proof (mr_sim_end _ _ Hc) as He. rcmp.
      destruct (mr_end cur =? mx); [exact Hc|].
      eapply res_sim_bind; [apply all_noncode_sim; assumption|]. intros nc nc' <-.
      destruct nc; [exact Hc|].
      eapply res_sim_bind; [exact (skip_fwd_sim len len' len len' Hl Hl _ _ _ eq_refl He)|]. intros t t' Htt.
      apply append_sim; [exact Hc|apply unparsable_sim; assumption].
    Qed.

    Lemma any_loop_sim k : forall d len len' idx idx' mx mx' terms nm cs mi mi' wi wi' matched matched',
      R len len' -> R idx idx' -> R mx mx' -> TA terms -> R mi mi' -> R wi wi' -> mr_sim matched matched' ->
      all_anch U (an_elems d) = true -> all_anch U (an_terms d) = true ->
      res_sim mr_sim (any_loop g toks rec k d len idx mx terms nm cs mi wi matched)
                     (any_loop g toks' rec' k d len' idx' mx' terms nm cs mi' wi' matched').
    Proof.
      induction k as [|k IH]; intros d len len' idx idx' mx mx' terms nm cs mi mi' wi wi' matched matched'
        Hl Hi Hx Ht Hmi Hwi Hmt Hae Hat; cbn [any_loop]; [exact I|]. rcmp.
      destruct (((an_min d <=? nm) && (mx <=? mi)) || opt_le (an_max d) nm);
        [apply parse_mode_result_sim; assumption|].
      destruct (mx <=? mi); [apply empty_at_sim; exact Hi|].
      eapply res_sim_bind.
      { apply longest_match_sim; try assumption. apply deeper_anch; assumption. }
      intros [m mo] [m' mo'] [Hm Hmo]. cbn in Hm, Hmo. subst mo'.
      rewrite (has_match_sim _ _ Hm). destruct (negb (has_match m)).
      - apply parse_mode_result_sim; try assumption.
        destruct (nm <? an_min d); [apply empty_at_sim; exact Hi|exact Hmt].
      - destruct mo as [o|]; [|reflexivity].
        destruct (ckey_of g o) as [ck| | |]; cbn [bind]; try (cbn; auto; fail).
        destruct (bump ck cs) as [cs2 cnt].
        destruct (match cnt with Some c => opt_lt (an_max_per d) c | None => false end);
          [apply parse_mode_result_sim; assumption|].
        pose proof (append_sim _ _ _ _ Hmt Hm) as Hap. pose proof (mr_sim_end _ _ Hap) as Hape.
        eapply (res_sim_bind R).
        { destruct (an_gaps d); [exact (skip_fwd_sim len len' len len' Hl Hl _ _ _ eq_refl Hape)|exact Hape]. }
        intros w w' Hw. apply IH; assumption.
    Qed.

    Lemma match_anynumberof_sim fl d len len' idx idx' terms : R len len' -> R idx idx' -> TA terms ->
      all_anch U (an_elems d) = true -> all_anch U (an_terms d) = true ->
      res_sim mr_sim (match_anynumberof g toks rec fl d len idx terms) (match_anynumberof g toks' rec' fl d len' idx' terms).
    Proof.
      intros Hl Hi Ht Hae Hat. unfold match_anynumberof.
      eapply (res_sim_bind eq).
      { destruct (an_exclude d) as [ex|]; [|reflexivity].
        eapply res_sim_bind; [apply Hrec; assumption|]. intros m m' Hm. cbn. rewrite (has_match_sim _ _ Hm). reflexivity. }
      intros ex ex' <-. destruct ex; [apply empty_at_sim; exact Hi|].
      destruct (init_counters g (an_elems d)) as [cs| | |]; cbn [bind]; try (cbn; auto; fail).
      eapply (res_sim_bind R).
      { destruct (pmode_eqb (an_mode d) Greedy); [apply trim_to_terminator_sim; assumption|exact Hl]. }
      intros mx mx' Hmx. rcmp. destruct (len <? mx); [reflexivity|]. cbn [bind].
      apply any_loop_sim; try assumption. apply empty_at_sim; exact Hi.
    Qed.

    (* -------------------------------------------------------------- Delimited *)
    Lemma delim_finish_sim tr mn idx idx' sk dm dm' dl wm wm' : R idx idx' -> orel mr_sim dm dm' -> mr_sim wm wm' ->
      res_sim mr_sim (delim_finish tr mn idx sk dm dl wm) (delim_finish tr mn idx' sk dm' dl wm').
    Proof.
      intros Hi Hd Hw. unfold delim_finish.
      destruct dm as [x|], dm' as [x'|]; try contradiction.
      - destruct (tr && negb sk).
        + destruct (dl + 1 <? mn); [apply empty_at_sim; exact Hi|apply append_sim; assumption].
        + destruct (dl <? mn); [apply empty_at_sim; exact Hi|exact Hw].
      - destruct (dl <? mn); [apply empty_at_sim; exact Hi|exact Hw].
    Qed.

    Lemma delim_loop_sim k : forall d delim tr mn len len' idx idx' terms tms dl sk w w' wm wm' dm dm',
      R len len' -> R idx idx' -> TA terms -> R w w' -> mr_sim wm wm' -> orel mr_sim dm dm' ->
      all_anch U tms = true -> all_anch U (an_elems d) = true -> anch U delim = true ->
      res_sim mr_sim (delim_loop g toks rec k d delim tr mn len idx terms tms dl sk w wm dm)
                     (delim_loop g toks' rec' k d delim tr mn len' idx' terms tms dl sk w' wm' dm').
    Proof.
      induction k as [|k IH]; intros d delim tr mn len len' idx idx' terms tms dl sk w w' wm wm' dm dm'
        Hl Hi Ht Hw Hwm Hdm Htm Hae Had; cbn [delim_loop]; [exact I|].
      eapply (res_sim_bind R).
      { rcmp. destruct (an_gaps d && (idx <? w)); [exact (skip_fwd_sim len len' len len' Hl Hl _ _ _ eq_refl Hw)|exact Hw]. }
      intros w2 w2' Hw2. rcmp.
      destruct (len <=? w2); [apply delim_finish_sim; assumption|].
      eapply res_sim_bind; [apply longest_match_sim; assumption|].
      intros [tm tmo] [tm' tmo'] [Htm2 _]. cbn in Htm2.
      rewrite (has_match_sim _ _ Htm2). destruct (has_match tm); [apply delim_finish_sim; assumption|].
      eapply res_sim_bind.
      { apply longest_match_sim; try assumption.
        - apply deeper_anch; [|exact Ht]. destruct sk; unfold TA; cbn; [reflexivity|rewrite Had; reflexivity].
        - destruct sk; [cbn; rewrite Had; reflexivity|exact Hae]. }
      intros [m mo] [m' mo'] [Hm _]. cbn in Hm.
      rewrite (has_match_sim _ _ Hm). destruct (negb (has_match m)); [apply delim_finish_sim; assumption|].
      pose proof (mr_sim_end _ _ Hm) as Hme.
      destruct sk.
      - apply IH; try assumption.
      - destruct dm as [x|], dm' as [x'|]; try contradiction.
        + apply IH; try assumption. apply append_sim; [apply append_sim; assumption|exact Hm].
        + apply IH; try assumption. apply append_sim; assumption.
    Qed.

    Lemma match_delimited_sim fl d delim tr mn len len' idx idx' terms : R len len' -> R idx idx' -> TA terms ->
      all_anch U (an_elems d) = true -> all_anch U (an_terms d) = true -> anch U delim = true ->
      res_sim mr_sim (match_delimited g toks rec fl d delim tr mn len idx terms)
                     (match_delimited g toks' rec' fl d delim tr mn len' idx' terms).
    Proof.
      intros Hl Hi Ht Hae Hat Had. unfold match_delimited.
      apply delim_loop_sim; try assumption; [apply empty_at_sim; exact Hi|exact I|].
      rewrite !all_anch_app. rewrite Hat. rewrite (all_anch_filter _ _ Ht). cbn [andb].
      destruct (an_gaps d); [reflexivity|]. cbn. rewrite (static_noncode g U Hstatic). reflexivity.
    Qed.

    (* -------------------------------------------------------------- one node *)
    Lemma match_node_body_sim fl n idx idx' len len' terms : R idx idx' -> R len len' -> TA terms ->
      res_sim mr_sim (match_node_body g toks rx rec fl n idx len terms)
                     (match_node_body g toks' rx' rec' fl n idx' len' terms).
    Proof.
      intros Hi Hl Ht. unfold match_node_body, info.
      destruct (get (g_nodes g) n) as [i|] eqn:Ei; cbn [bind]; [|reflexivity].
      destruct (static_node g U n i Hstatic Ei) as [Hok _]. unfold node_ok in Hok.
      assert (Hkf : forall t, okgap g t -> kind_free_for t i = true)
        by (intros t Hk; exact (proj2 (okgap_info g t n i Hk Ei))).
      unfold kind_free_for in Hkf.
      destruct (n_node i) eqn:En.
      - (* GRef *)
        destruct target as [t|]; [|reflexivity].
        assert (Ht2 : TA (deeper g reset terms0 terms)) by (apply deeper_anch; assumption).
        eapply (res_sim_bind eq).
        { destruct exclude as [e|]; [|reflexivity].
          pose proof (Hrec e idx idx' len len' _ Hi Hl Ht2) as He.
          destruct (rec e idx len (deeper g reset terms0 terms)), (rec' e idx' len' (deeper g reset terms0 terms));
            cbn in He |- *; try contradiction; auto.
          rewrite (has_match_sim _ _ He). reflexivity. }
        intros ex ex' <-. destruct ex; [apply empty_at_sim; exact Hi|apply Hrec; assumption].
      - apply match_sequence_sim; assumption.
      - apply match_bracketed_sim; try assumption.
        intros sb eb -> ->. apply andb_true_iff in Hok as [Hok H3]. apply andb_true_iff in Hok as [H1 H2]. auto.
      - apply andb_true_iff in Hok as [H1 H2]. apply match_anynumberof_sim; assumption.
      - apply andb_true_iff in Hok as [Hok H3]. apply andb_true_iff in Hok as [H1 H2].
        apply match_delimited_sim; assumption.
      - (* GNodeM *)
        rcmp. destruct (len <=? idx); [apply empty_at_sim; exact Hi|].
        eapply res_sim_bind; [apply (tok_sim len len' idx idx' Hl Hi)|].
        intros t t' [(-> & Hn)|(Hk & Hk')].
        + destruct (p_kind t =? kind); [apply from_span_sim; assumption|].
          eapply res_sim_bind; [apply Hrec; assumption|]. intros m m' Hm. apply wrap_sim; exact Hm.
        + pose proof (Hkf _ Hk) as E1. pose proof (Hkf _ Hk') as E2. apply negb_true_iff in E1, E2. rewrite E1, E2.
          eapply res_sim_bind; [apply Hrec; assumption|]. intros m m' Hm. apply wrap_sim; exact Hm.
      - (* GString *)
        eapply res_sim_bind; [apply (tok_sim len len' idx idx' Hl Hi)|].
        intros t t' [(-> & Hn)|(Hk & Hk')].
        + destruct (p_code t && (p_upper t =? upper)); [apply one_token_sim; assumption|apply empty_at_sim; exact Hi].
        + rewrite (okgap_code g t Hk), (okgap_code g t' Hk'). apply empty_at_sim; exact Hi.
      - (* GMulti *)
        eapply res_sim_bind; [apply (tok_sim len len' idx idx' Hl Hi)|].
        intros t t' [(-> & Hn)|(Hk & Hk')].
        + destruct (p_code t && memN (p_upper t) uppers); [apply one_token_sim; assumption|apply empty_at_sim; exact Hi].
        + rewrite (okgap_code g t Hk), (okgap_code g t' Hk'). apply empty_at_sim; exact Hi.
      - (* GTyped *)
        eapply res_sim_bind; [apply (tok_sim len len' idx idx' Hl Hi)|].
        intros t t' [(-> & Hn)|(Hk & Hk')].
        + destruct (p_kind t =? template); [apply one_token_sim; assumption|apply empty_at_sim; exact Hi].
        + pose proof (Hkf _ Hk) as E1. pose proof (Hkf _ Hk') as E2. apply negb_true_iff in E1, E2. rewrite E1, E2.
          apply empty_at_sim; exact Hi.
      - (* GRegex *)
        change (existsb (fun p => (fst p =? rid) && (snd p =? idx)) rx) with (rxhit rid idx rx).
        change (existsb (fun p => (fst p =? rid) && (snd p =? idx')) rx') with (rxhit rid idx' rx').
        destruct (R_fwd _ _ Hi) as [En0 En0'|t Et Et' Hn|q q' Hr Hr' Hq Hno Hno'].
        + rewrite (tok_none toks len idx En0), (tok_none toks' len' idx' En0'). reflexivity.
        + unfold tok. rcmp. rewrite Et, Et'. destruct (idx <? len); [|reflexivity]. cbn [bind].
          rewrite <- (rx_sig rid idx idx' t Hi Et Et').
          destruct (rxhit rid idx rx); [apply one_token_sim; assumption|apply empty_at_sim; exact Hi].
        + destruct (grun_first g toks _ _ Hr) as (t & Et & Hk). destruct (grun_first g toks' _ _ Hr') as (t' & Et' & Hk').
          unfold tok. rcmp. rewrite Et, Et'. destruct (idx <? len); [|reflexivity]. cbn [bind].
          rewrite (rx_gap rid idx t Et Hk), (rx_gap' rid idx' t' Et' Hk').
          apply empty_at_sim; exact Hi.
      - reflexivity.
      - destruct enabled; [|apply empty_at_sim; exact Hi].
        constructor; try assumption; [|constructor]. constructor; [split; [exact Hi|reflexivity]|constructor].
      - (* GAnything *)
        destruct (is_empty terms0 && is_empty terms); [apply from_span_sim; assumption|].
        apply greedy_match_sim; assumption.
      - apply empty_at_sim; exact Hi.
      - (* GNonCode *)
        eapply res_sim_bind; [exact (ncs_sim len len' Hl _ idx idx' eq_refl Hi)|].
        intros [j|] [j'|] Hj; try contradiction; [|apply empty_at_sim; exact Hi].
        cbn in Hj. rcmp. destruct (idx <? j); [apply from_span_sim; assumption|apply empty_at_sim; exact Hi].
      - (* GBracketSeg *)
        eapply res_sim_bind; [apply (tok_sim len len' idx idx' Hl Hi)|].
        intros t t' [(-> & Hn)|(Hk & Hk')].
        + destruct (p_kind t =? k_bracketed g); [apply from_span_sim; assumption|apply empty_at_sim; exact Hi].
        + rewrite (okgap_bracketed g t Hk), (okgap_bracketed g t' Hk'). apply empty_at_sim; exact Hi.
    Qed.
  End WithRec.
End Sim.
