(** Pruning transparency, part 4: non-vacuity and the witnesses that each premise is needed. *)
From Coq Require Import FMapPositive MSets.MSetPositive.
From Sq Require Import Base.Bytes Apply.Model Pem.Model Pem.WfExamples Pem.PruneDef Pem.PruneSound Pem.PruneProofs.

Local Open Scope N_scope.

(** a code token of kind 50 with (interned, upper-cased) text [u]; a block comment *)
Definition ct (u : N) : ptok := mkPtok true false 50 [50] u u (Some u).
Definition cm : ptok := mkPtok false false 51 [51] 2 2 (Some 2).
(* texts: "(" = 10, ")" = 11, "a" = 12, "," = 13, "b" = 14, "c" = 15 *)

(* ------------------------------------------------------------------ 1. the theorem applies and pruning is active *)
(** root = OneOf(Sequence("a", "c"), Sequence("b")) *)
Definition g_ex : grammar := mkg [
  (0, inf GNonCode []);
  (1, inf (GAny (mkAny [2; 3] None [] false (Some 1) 1 None true Strict)) [12; 14]);
  (2, inf (GSeq (mkSeq [4; 5] Strict true [])) [12]);
  (3, inf (GSeq (mkSeq [6] Strict true [])) [14]);
  (4, inf (GString 12 102) [12]);
  (5, inf (GString 15 105) [15]);
  (6, inf (GString 14 104) [14])] [] 1.

Example ex_transparent :
  hints_sound_b g_ex = true
  /\ toks_ok_b g_ex [cm; ct 14] = true
  (* at the token "b" pruning drops the first alternative ... *)
  /\ prune g_ex (toks_of_list [ct 14]) [2; 3] 1 0 = ROk [3]
  (* ... the reference twin evaluates it (no pruning: the stripped tokens) ... *)
  /\ prune g_ex (strip (toks_of_list [ct 14])) [2; 3] 1 0 = ROk [2; 3]
  (* ... and both find the second one *)
  /\ parse_root_ref g_ex (toks_of_list [ct 14]) [] 20 0 1 = ROk (MR 0 1 None [] [MR 0 1 (Some (MNewtype 104)) [] []])
  /\ parse_root g_ex (toks_of_list [ct 14]) [] 20 0 1 = ROk (MR 0 1 None [] [MR 0 1 (Some (MNewtype 104)) [] []]).
Proof. vm_compute. repeat split; reflexivity. Qed.

(** the semantic lemma on it: alternative 2 (hint {"a"}) is in scope and "b" is outside its hint *)
Example ex_hint_sound :
  Hinted g_ex (scope g_ex) 2 ([12], [])
  /\ Out g_ex (scope g_ex) (strip (toks_of_list [ct 14])) ([12], []) 0 1.
Proof.
  split.
  - eexists. split; [vm_compute; reflexivity|]. split; vm_compute; reflexivity.
  - exists (strip_tok (ct 14)). split; [reflexivity|]. repeat split; vm_compute; reflexivity.
Qed.

(* ------------------------------------------------------------------ 2. the side condition is needed *)
(** the first alternative starts with "a" or "b" but its dumped hint says {"a"} only: at "b" the pruned
    run drops it and finds nothing, the reference run matches it *)
Definition g_small : grammar := mkg [
  (0, inf GNonCode []);
  (1, inf (GAny (mkAny [2; 3] None [] false (Some 1) 1 None true Strict)) [12; 15]);
  (2, inf (GSeq (mkSeq [4] Strict true [])) [12]);
  (3, inf (GString 15 105) [15]);
  (4, inf (GMulti [12; 14] 102) [12; 14])] [] 1.

Lemma hints_sound_needed_refuted :
  exists g toks rx fuel s e m,
    hints_sound_b g = false /\ toks_ok_b g toks = true
    /\ parse_root_ref g (toks_of_list toks) rx fuel s e = ROk m /\ has_match m = true
    /\ parse_root g (toks_of_list toks) rx fuel s e = ROk (empty_at s).
Proof.
  exists g_small, [ct 14], [], 20%nat, 0, 1. eexists.
  split; [vm_compute; reflexivity|]. split; [vm_compute; reflexivity|].
  split; [vm_compute; reflexivity|]. split; vm_compute; reflexivity.
Qed.

(* ------------------------------------------------------------------ 3. the token premise (T3) is needed *)
(** [NodeMatcher::match_segments] accepts a token that already carries the node's kind, whatever the
    hint of its grammar says (ANSI: QualifiedNumericLiteralSegment = NodeMatcher(numeric_literal,
    Sequence(sign, number)), hint {+,-}, on the token [1]): here a node of kind 50 over "a", token "b" of kind 50 *)
Definition g_kind : grammar := mkg [
  (0, inf GNonCode []);
  (1, inf (GAny (mkAny [2] None [] false (Some 1) 1 None true Strict)) [12]);
  (2, mkInfo (GNodeM 50 3) (Some false) (Some ([12], [], false)) (Some 2));
  (3, inf (GString 12 102) [12])] [] 1.

Lemma token_kind_premise_needed_refuted :
  exists g toks rx fuel s e m,
    hints_sound_b g = true /\ toks_ok_b g toks = false /\ risky_kinds g (scope g) = [50]
    /\ parse_root_ref g (toks_of_list toks) rx fuel s e = ROk m /\ has_match m = true
    /\ parse_root g (toks_of_list toks) rx fuel s e = ROk (empty_at s).
Proof.
  exists g_kind, [ct 14], [], 20%nat, 0, 1. eexists.
  split; [vm_compute; reflexivity|]. split; [vm_compute; reflexivity|]. split; [vm_compute; reflexivity|].
  split; [vm_compute; reflexivity|]. split; vm_compute; reflexivity.
Qed.

(* ------------------------------------------------------------------ 4. why the reference twin hides errors *)
(** Equality of the pruned and the unpruned interpreter on *all* outcomes is false even with justified
    hints: a [Delimited] first asks the context terminators, and one of them can raise [SQLParseError]
    (here [Bracketed] on an unclosed "(") - pruning drops the [Delimited] (hint {"a"}) and never sees it.
    root = Ref(OneOf(Delimited("a" , ","), "("), terminators = [Bracketed("(" .. ")")]); tokens: ( *)
Definition g_err : grammar := mkg [
  (0, mkInfo GNonCode (Some false) None (Some 0));
  (1, inf (GRef (Some 2) None [7] false) [12; 10]);
  (2, inf (GAny (mkAny [3; 4] None [] false (Some 1) 1 None true Strict)) [12; 10]);
  (3, inf (GDelim (mkAny [5] None [] false None 1 None true Strict) 6 false 0) [12]);
  (4, inf (GString 10 100) [10]);
  (5, inf (GString 12 102) [12]);
  (6, inf (GString 13 103) [13]);
  (7, inf (GBracketed true (Some 8) (Some 9) true true (mkSeq [5] Strict true [])) [10]);
  (8, inf (GString 10 100) [10]);
  (9, inf (GString 11 101) [11])] [] 1.

Lemma error_outcomes_differ_refuted :
  exists g toks rx fuel s e m,
    hints_sound_b g = true /\ toks_ok_b g toks = true
    /\ parse_root_np g (toks_of_list toks) rx fuel s e = RErr
    /\ parse_root_ref g (toks_of_list toks) rx fuel s e = RFuel
    /\ parse_root g (toks_of_list toks) rx fuel s e = ROk m /\ has_match m = true.
Proof.
  exists g_err, [ct 10], [], 20%nat, 0, 1. eexists.
  split; [vm_compute; reflexivity|]. split; [vm_compute; reflexivity|]. split; [vm_compute; reflexivity|].
  split; [vm_compute; reflexivity|]. split; vm_compute; reflexivity.
Qed.
