(** Span soundness of the parser-engine interpreter: whatever the grammar, tokens, regex answers,
    fuel and context, a successful match started at [idx] on a slice of length [len] has a span
    [idx <= start <= end <= len].  (The first clause of the well-formedness [wf] that
    [Apply.Proofs.apply_leaves] needs of a match result.) *)
From Coq Require Import FMapPositive Lia.
From Sq Require Import Base.Bytes Apply.Model Pem.Model.

Local Open Scope N_scope.

Definition B (idx len : N) (m : mr) : Prop :=
  idx <= mr_start m /\ mr_start m <= mr_end m /\ mr_end m <= len.

Lemma bind_ok {A C} (x : res A) (f : A -> res C) c :
  bind x f = ROk c -> exists a, x = ROk a /\ f a = ROk c.
Proof. destruct x; cbn; intro H; try discriminate. eauto. Qed.

Ltac inv_bind H :=
  let a := fresh "a" in let Ha := fresh "Ha" in
  apply bind_ok in H; destruct H as (a & Ha & H).

Ltac b2p :=
  repeat match goal with
         | H : (_ <? _) = true |- _ => apply N.ltb_lt in H
         | H : (_ <? _) = false |- _ => apply N.ltb_ge in H
         | H : (_ <=? _) = true |- _ => apply N.leb_le in H
         | H : (_ <=? _) = false |- _ => apply N.leb_gt in H
         | H : (_ =? _) = true |- _ => apply N.eqb_eq in H
         | H : (_ =? _) = false |- _ => apply N.eqb_neq in H
         end.

Lemma B_weaken i j len m : i <= j -> B j len m -> B i len m.
Proof. unfold B. lia. Qed.
Lemma B_len i l1 l2 m : l1 <= l2 -> B i l1 m -> B i l2 m.
Proof. unfold B. lia. Qed.
Lemma B_empty i len : i <= len -> B i len (MR i i None [] []).
Proof. unfold B. cbn. lia. Qed.

Lemma wrap_span x k : mr_start (wrap x k) = mr_start x /\ mr_end (wrap x k) = mr_end x.
Proof. unfold wrap. destruct (mr_is_empty x); cbn; auto. Qed.
Lemma B_wrap i len x k : B i len x -> B i len (wrap x k).
Proof. unfold B. destruct (wrap_span x k) as [-> ->]. auto. Qed.

Lemma has_match_nonempty_span_or_ins x :
  has_match x = true -> mr_start x <> mr_end x \/ mr_ins x <> [].
Proof.
  unfold has_match. intro H. apply orb_true_iff in H as [H|H].
  - left. apply negb_true_iff in H. b2p. exact H.
  - right. destruct (mr_ins x); [discriminate|congruence].
Qed.

(** [append a b] keeps the outer ends when [a] ends before [b] starts *)
Lemma B_append i len a b :
  B i len a -> B i len b -> mr_end a <= mr_start b -> B i len (append a b).
Proof.
  unfold append, B. intros Ha Hb Hab.
  destruct (mr_is_empty a); [exact Hb|]. destruct (mr_is_empty b); [exact Ha|]. cbn. lia.
Qed.
Lemma append_end a b : mr_end a <= mr_end b -> mr_end a <= mr_end (append a b).
Proof.
  unfold append. intro H. destruct (mr_is_empty a); [exact H|]. destruct (mr_is_empty b); [lia|]. cbn. exact H.
Qed.
Lemma append_end_le a b e : mr_end a <= e -> mr_end b <= e -> mr_end (append a b) <= e.
Proof. unfold append. intros. destruct (mr_is_empty a); [assumption|]. destruct (mr_is_empty b); [assumption|]. cbn. assumption. Qed.

Section Bounds.
  Variable g : grammar.
  Variable toks : PositiveMap.t ptok.
  Variable rx : list (N * N).

  Lemma tok_lt len i t : tok toks len i = ROk t -> i < len.
  Proof. unfold tok. destruct (i <? len) eqn:E; [|discriminate]. intros _. b2p. exact E. Qed.

  Lemma skip_fwd_aux_spec n : forall len idx mx j,
    skip_fwd_aux toks n len idx mx = ROk j -> idx <= j /\ (idx <= mx -> j <= mx).
  Proof.
    induction n as [|n IH]; intros len idx mx j H; cbn [skip_fwd_aux] in H.
    - inversion H; subst. lia.
    - destruct (idx <? mx) eqn:E; [|inversion H; subst; lia].
      inv_bind H. destruct (p_code a); [inversion H; subst; b2p; lia|].
      apply IH in H. b2p. lia.
  Qed.
  Lemma skip_fwd_spec len idx mx j : skip_fwd toks len idx mx = ROk j -> idx <= j /\ (idx <= mx -> j <= mx).
  Proof. apply skip_fwd_aux_spec. Qed.

  Lemma skip_back_aux_spec n : forall len idx mn j,
    skip_back_aux toks n len idx mn = ROk j -> j <= idx /\ (mn <= idx -> mn <= j).
  Proof.
    induction n as [|n IH]; intros len idx mn j H; cbn [skip_back_aux] in H.
    - inversion H; subst. lia.
    - destruct (mn <? idx) eqn:E; [|inversion H; subst; lia].
      inv_bind H. destruct (p_code a); [inversion H; subst; b2p; lia|].
      apply IH in H. b2p. lia.
  Qed.
  Lemma skip_back_spec len idx mn j : skip_back toks len idx mn = ROk j -> j <= idx /\ (mn <= idx -> mn <= j).
  Proof. apply skip_back_aux_spec. Qed.

  (** if some token of [a, b) is code, skipping forward from [a] stops before [b] *)
  Lemma noncode_false_skip n : forall len a b,
    all_noncode_aux toks n len a b = ROk false ->
    forall n2 mx t, b <= mx -> skip_fwd_aux toks n2 len a mx = ROk t -> t < b.
  Proof.
    induction n as [|n IH]; intros len a b H; cbn [all_noncode_aux] in H; [discriminate|].
    destruct (a <? b) eqn:E; [|discriminate]. b2p.
    inv_bind H. intros n2 mx t Hmx Hs.
    destruct n2 as [|n2]; cbn [skip_fwd_aux] in Hs; [inversion Hs; subst; lia|].
    assert (Hlt : (a <? mx) = true) by (apply N.ltb_lt; lia). rewrite Hlt in Hs.
    rewrite Ha in Hs. cbn [bind] in Hs.
    destruct (p_code a0).
    - inversion Hs; subst. lia.
    - eapply IH; eassumption.
  Qed.

  (* ------------------------------------------------------------ with the recursive matcher *)
  Section WithRec.
    Variable rec : N -> N -> N -> list N -> res mr.
    Hypothesis Hrec : forall n i l t m, i <= l -> rec n i l t = ROk m -> B i l m.

    Lemma longest_loop_spec opts : forall idx len terms best bm m o,
      idx < len -> B idx len best ->
      longest_loop g toks rec opts idx len terms best bm = ROk (m, o) -> B idx len m.
    Proof.
      induction opts as [|op opts IH]; intros idx len terms best bm m o Hi Hb H; cbn [longest_loop] in H.
      - inversion H; subst. exact Hb.
      - inv_bind H. inv_bind H. rename a0 into r.
        assert (Hr : B idx len r) by (eapply Hrec; [lia|eassumption]).
        destruct (has_match r && (mr_end r =? len)); [inversion H; subst; exact Hr|].
        destruct (mlen best <? mlen r).
        + destruct (is_empty opts); [inversion H; subst; exact Hr|].
          destruct (negb (is_empty terms)).
          * inv_bind H. destruct (a0 =? len); [inversion H; subst; exact Hr|].
            inv_bind H. destruct a1; [inversion H; subst; exact Hr|].
            eapply IH in H; [exact H|exact Hi|exact Hr].
          * eapply IH in H; [exact H|exact Hi|exact Hr].
        + eapply IH in H; [exact H|exact Hi|exact Hb].
    Qed.

    (** a match returned by [longest_match] that has a match lies within [idx, len] *)
    Lemma longest_match_spec len ms idx terms m o :
      longest_match g toks rec len ms idx terms = ROk (m, o) ->
      (m = MR idx idx None [] []) \/ (idx < len /\ B idx len m).
    Proof.
      unfold longest_match. intro H.
      destruct (is_empty ms || (idx =? len)); [inversion H; auto|].
      inv_bind H. destruct (is_empty a); [inversion H; auto|].
      inv_bind H. apply tok_lt in Ha0. right. split; [exact Ha0|].
      eapply longest_loop_spec; [exact Ha0| |exact H]. apply B_empty. lia.
    Qed.

    Lemma first_matching_spec cs : forall i len terms r c,
      i <= len -> first_matching rec cs i len terms = ROk (Some (r, c)) -> B i len r.
    Proof.
      induction cs as [|c0 cs IH]; intros i len terms r c Hi H; cbn [first_matching] in H; [discriminate|].
      inv_bind H. destruct (has_match a).
      - inversion H; subst. eapply Hrec; eassumption.
      - eapply IH; eassumption.
    Qed.

    Lemma next_match_scan_spec n : forall i len ms terms r c,
      i <= len -> next_match_scan g toks rec n i len ms terms = ROk (Some (r, c)) -> B i len r.
    Proof.
      induction n as [|n IH]; intros i len ms terms r c Hi H; cbn [next_match_scan] in H; [discriminate|].
      destruct (i <? len) eqn:E; [|discriminate]. b2p.
      inv_bind H. inv_bind H. inv_bind H.
      destruct a1 as [[r' c']|].
      - inversion H; subst. eapply first_matching_spec; eassumption.
      - apply IH in H; [|lia]. eapply B_weaken; [|exact H]. lia.
    Qed.

    Lemma next_match_spec len idx ms terms m o :
      idx <= len -> next_match g toks rec len idx ms terms = ROk (m, o) -> B idx len m.
    Proof.
      unfold next_match. intros Hi H.
      destruct (len <=? idx); [inversion H; subst; apply B_empty; exact Hi|].
      inv_bind H. inv_bind H. destruct a0 as [[r c]|]; inversion H; subst.
      - eapply next_match_scan_spec; eassumption.
      - apply B_empty. exact Hi.
    Qed.

    Lemma rb_loop_spec fl : forall len opening ti starts ends pers terms nested mi ch r,
      mr_start opening <= mr_end opening -> mr_end opening <= mi -> mi <= len ->
      rb_loop g toks rec fl len opening ti starts ends pers terms nested mi ch = ROk r ->
      mr_start r = mr_start opening /\ mi <= mr_end r /\ mr_end r <= len.
    Proof.
      induction fl as [|fl IH]; intros len opening ti starts ends pers terms nested mi ch r Ho Hmi Hlen H;
        cbn [rb_loop] in H; [discriminate|].
      inv_bind H. destruct a as [m mt].
      pose proof (next_match_spec _ _ _ _ _ _ Hlen Ha) as [Hm1 [Hm2 Hm3]].
      destruct (negb (has_match m)); [discriminate|].
      destruct mt as [mt|]; [|discriminate].
      destruct (mcontains g ends mt).
      - destruct (mposition g ends mt) as [ci|]; [|discriminate].
        destruct (ci =? ti); [|discriminate].
        destruct (nth_bool pers ti) as [p|]; [|discriminate].
        destruct p; inversion H; subst.
        + destruct (wrap_span (MR (mr_start opening) (mr_end m) None
                                  [(mr_end opening, k_indent g); (mr_start m, k_dedent g)] (ch ++ [m]))
                              (MKind (k_bracketed g))) as [-> ->]. cbn. lia.
        + cbn. lia.
      - destruct (mposition g starts mt) as [ti'|]; [|discriminate].
        inv_bind H. rename a into inner.
        apply IH in Ha0; [|lia|lia|lia]. destruct Ha0 as (Hi1 & Hi2 & Hi3).
        apply IH in H; [|lia|lia|lia]. lia.
    Qed.

    Lemma resolve_bracket_spec fl len opening opener starts ends pers terms nested r :
      mr_start opening <= mr_end opening -> mr_end opening <= len ->
      resolve_bracket g toks rec fl len opening opener starts ends pers terms nested = ROk r ->
      mr_start r = mr_start opening /\ mr_end opening <= mr_end r /\ mr_end r <= len.
    Proof.
      unfold resolve_bracket. intros Ho Hl H.
      destruct (mposition g starts opener); [|discriminate].
      eapply rb_loop_spec in H; [exact H|lia|lia|lia].
    Qed.

    Lemma neb_loop_spec k : forall fl len idx ms starts ends pers terms mi ch m o inner,
      idx <= mi -> mi <= len ->
      neb_loop g toks rec k fl len idx ms starts ends pers terms mi ch = ROk (m, o, inner) -> B idx len m.
    Proof.
      induction k as [|k IH]; intros fl len idx ms starts ends pers terms mi ch m o inner Hi Hl H;
        cbn [neb_loop] in H; [discriminate|].
      inv_bind H. destruct a as [m0 mt].
      pose proof (next_match_spec _ _ _ _ _ _ Hl Ha) as Hm0.
      destruct (negb (has_match m0)); [inversion H; subst; eapply B_weaken; eassumption|].
      destruct mt as [mt|]; [|discriminate].
      destruct (mcontains g ms mt); [inversion H; subst; eapply B_weaken; eassumption|].
      destruct (mcontains g ends mt); [inversion H; subst; apply B_empty; lia|].
      inv_bind H. destruct Hm0 as (Hm1 & Hm2 & Hm3).
      apply resolve_bracket_spec in Ha0; [|lia|lia]. destruct Ha0 as (Hb1 & Hb2 & Hb3).
      eapply IH in H; [exact H|lia|lia].
    Qed.

    Lemma next_ex_bracket_match_spec fl len idx ms terms m o inner :
      idx <= len -> next_ex_bracket_match g toks rec fl len idx ms terms = ROk (m, o, inner) -> B idx len m.
    Proof.
      unfold next_ex_bracket_match. intros Hi H.
      destruct (len <=? idx); [inversion H; subst; apply B_empty; exact Hi|].
      inv_bind H. inv_bind H. eapply neb_loop_spec in H; [exact H|lia|exact Hi].
    Qed.

    Lemma greedy_loop_spec k : forall fl len idx ms terms it nested w ch m,
      idx <= w -> w <= len ->
      greedy_loop g toks rec k fl len idx ms terms it nested w ch = ROk m -> B idx len m.
    Proof.
      induction k as [|k IH]; intros fl len idx ms terms it nested w ch m Hw Hl H;
        cbn [greedy_loop] in H; [discriminate|].
      inv_bind H. destruct a as [[matched mt] inner].
      pose proof (next_ex_bracket_match_spec _ _ _ _ _ _ _ _ Hl Ha) as (Hm1 & Hm2 & Hm3).
      destruct (negb (has_match matched)); [inversion H; subst; unfold B; cbn; lia|].
      destruct mt as [mt|]; [|discriminate].
      inv_bind H. destruct a as [[[raws tys] alpha]|]; [|discriminate].
      inv_bind H. destruct (negb a).
      - eapply IH in H; [exact H|lia|lia].
      - destruct it; [inversion H; subst; unfold B; cbn; lia|].
        inv_bind H. apply skip_back_spec in Ha2. destruct Ha2 as [Hs1 Hs2].
        destruct (idx =? a0); inversion H; subst; unfold B; cbn; lia.
    Qed.
    Lemma greedy_match_spec fl len idx ms terms it nested m :
      idx <= len -> greedy_match g toks rec fl len idx ms terms it nested = ROk m -> B idx len m.
    Proof. intros Hi H. eapply greedy_loop_spec in H; [exact H|lia|exact Hi]. Qed.

    Lemma trim_to_terminator_spec fl len idx ts terms j :
      idx <= len -> trim_to_terminator g toks rec fl len idx ts terms = ROk j -> idx <= j /\ j <= len.
    Proof.
      unfold trim_to_terminator. intros Hi H.
      destruct (len <=? idx); [inversion H; subst; lia|].
      inv_bind H. inv_bind H. destruct a0; [inversion H; subst; lia|].
      inv_bind H. apply greedy_match_spec in Ha1; [|exact Hi]. destruct Ha1 as (H1 & H2 & H3).
      apply skip_back_spec in H. lia.
    Qed.

    (* ---------------------------------------------------------- Sequence *)
    Definition SInv (si len : N) (st : sstate) : Prop :=
      si <= s_matched st /\ s_matched st <= s_max st /\ s_max st <= len.

    Lemma seq_elem_spec fl d len si terms st e r :
      SInv si len st ->
      seq_elem g toks rec fl d len si terms st e = ROk r ->
      match r with Cont st' => SInv si len st' | Ret m => B si len m end.
    Proof.
      unfold seq_elem. intros (I1 & I2 & I3) H.
      inv_bind H. destruct (n_node a);
        try (inversion H; subst; unfold SInv; cbn; lia).
      all: inv_bind H; rename a0 into idx';
        assert (Hidx : s_matched st <= idx' /\ idx' <= s_max st)
          by (destruct (sq_gaps d); [apply skip_fwd_spec in Ha0; lia|inversion Ha0; subst; lia]);
        destruct (s_max st <=? idx') eqn:Emax; b2p;
        [ inv_bind H; destruct a0;
          [inversion H; subst; unfold SInv; lia|];
          destruct (pmode_eqb (sq_mode d) Strict || (s_matched st =? si));
          inversion H; subst; unfold B; cbn; lia
        | inv_bind H; inv_bind H; rename a1 into em;
          assert (Hem : B idx' (s_max st) em) by (eapply Hrec; [lia|eassumption]);
          destruct Hem as (E1 & E2 & E3);
          destruct (negb (has_match em));
          [ inv_bind H; destruct a1; [inversion H; subst; unfold SInv; lia|];
            destruct (pmode_eqb (sq_mode d) Strict); [inversion H; subst; unfold B; cbn; lia|];
            destruct (pmode_eqb (sq_mode d) GreedyOnceStarted && (s_matched st =? si));
            [inversion H; subst; unfold B; cbn; lia|];
            destruct (s_matched st =? si); [inversion H; subst; unfold B; cbn; lia|];
            inv_bind H; inversion H; subst; unfold B; cbn; lia
          | inv_bind H; rename a1 into newmax;
            assert (Hnm : mr_end em <= newmax /\ newmax <= len)
              by (destruct (s_first st && pmode_eqb (sq_mode d) GreedyOnceStarted);
                  [apply trim_to_terminator_spec in Ha3; lia|inversion Ha3; subst; lia]);
            destruct (is_some (mr_matched em)); inversion H; subst; unfold SInv; cbn; lia ] ].
    Qed.

    Lemma seq_loop_spec fl d len si terms es : forall st r,
      SInv si len st ->
      seq_loop g toks rec fl d len si terms st es = ROk r ->
      match r with Cont st' => SInv si len st' | Ret m => B si len m end.
    Proof.
      induction es as [|e es IH]; intros st r Hinv H; cbn [seq_loop] in H.
      - inversion H; subst. exact Hinv.
      - inv_bind H. pose proof (seq_elem_spec _ _ _ _ _ _ _ _ Hinv Ha) as Hs.
        destruct a as [st'|m]; [eapply IH; eassumption|inversion H; subst; exact Hs].
    Qed.

    Lemma match_sequence_spec fl d len idx terms m :
      idx <= len -> match_sequence g toks rec fl d len idx terms = ROk m -> B idx len m.
    Proof.
      unfold match_sequence. intros Hi H.
      inv_bind H. rename a into max0.
      assert (Hmax : idx <= max0 /\ max0 <= len)
        by (destruct (pmode_eqb (sq_mode d) Greedy); [apply trim_to_terminator_spec in Ha; lia|inversion Ha; subst; lia]).
      inv_bind H.
      assert (Hinv : SInv idx len (mkS idx max0 [] [] true [])) by (unfold SInv; cbn; lia).
      pose proof (seq_loop_spec _ _ _ _ _ _ _ _ Hinv Ha0) as Hs.
      destruct a as [st|m']; [|inversion H; subst; exact Hs].
      destruct Hs as (S1 & S2 & S3).
      destruct (negb (pmode_eqb (sq_mode d) Strict) && (s_matched st <? s_max st)).
      - inv_bind H. inv_bind H. apply skip_fwd_spec in Ha1. apply skip_back_spec in Ha2.
        destruct (a <? a0) eqn:E; b2p; inversion H; subst; unfold B; cbn; lia.
      - inversion H; subst. unfold B; cbn; lia.
    Qed.

    Lemma match_bracketed_spec fl self found bs be pers gaps d len idx terms m :
      idx <= len -> match_bracketed g toks rec fl self found bs be pers gaps d len idx terms = ROk m -> B idx len m.
    Proof.
      unfold match_bracketed. intros Hi H.
      destruct (negb found); [discriminate|].
      destruct bs as [sb|]; [|discriminate]. destruct be as [eb|]; [|discriminate].
      inv_bind H. rename a into sm.
      assert (Hsm : B idx len sm) by (eapply Hrec; eassumption). destruct Hsm as (S1 & S2 & S3).
      destruct (negb (has_match sm)); [inversion H; subst; apply B_empty; exact Hi|].
      inv_bind H. rename a into bm.
      apply resolve_bracket_spec in Ha0; [|lia|lia]. destruct Ha0 as (B1 & B2 & B3).
      inv_bind H. inv_bind H. rename a0 into i1.
      assert (Hi1 : mr_end sm <= i1 /\ i1 <= len)
        by (destruct gaps; [apply skip_fwd_spec in Ha1; lia|inversion Ha1; subst; lia]).
      inv_bind H. inv_bind H. inv_bind H.
      destruct (negb (mr_end a2 =? a0) && pmode_eqb (sq_mode d) Strict);
        [inversion H; subst; unfold B, empty_at; cbn; lia|].
      destruct (negb gaps && (mr_end a2 =? mr_end bm - 1)); [discriminate|].
      inversion H; subst. unfold B; cbn. lia.
    Qed.

    Lemma parse_mode_result_spec len cur mx mode idx r :
      B idx mx cur -> mx <= len ->
      parse_mode_result g toks len cur mx mode = ROk r -> B idx len r.
    Proof.
      unfold parse_mode_result. intros Hc Hmx H.
      assert (Hc' : B idx len cur) by (eapply B_len; eassumption).
      destruct (pmode_eqb mode Strict); [inversion H; subst; exact Hc'|].
      destruct (mr_end cur =? mx); [inversion H; subst; exact Hc'|].
      inv_bind H. destruct a; [inversion H; subst; exact Hc'|].
      inv_bind H. inversion H; subst. rename a into t.
      unfold all_noncode in Ha. destruct ((mr_end cur <=? mx) && (mx <=? len)); [|discriminate].
      assert (Ht : t < mx) by (eapply noncode_false_skip; [exact Ha|exact Hmx|exact Ha0]).
      apply skip_fwd_spec in Ha0. destruct Hc as (C1 & C2 & C3).
      apply B_append; [exact Hc'| |cbn; lia].
      unfold unparsable, B. cbn. lia.
    Qed.

    Lemma any_loop_spec k : forall d len idx mx terms nm cs mi wi matched r,
      idx <= mx -> mx <= len -> B idx mx matched -> mi = mr_end matched -> mi <= wi ->
      any_loop g toks rec k d len idx mx terms nm cs mi wi matched = ROk r -> B idx len r.
    Proof.
      induction k as [|k IH]; intros d len idx mx terms nm cs mi wi matched r Hi Hmx Hm Hmi Hwi H;
        cbn [any_loop] in H; [discriminate|].
      destruct (((an_min d <=? nm) && (mx <=? mi)) || opt_le (an_max d) nm);
        [eapply parse_mode_result_spec; eassumption|].
      destruct (mx <=? mi); [inversion H; subst; apply B_empty; lia|].
      inv_bind H. destruct a as [m mo].
      destruct (negb (has_match m)) eqn:Ehm.
      - eapply parse_mode_result_spec; [|exact Hmx|exact H].
        destruct (nm <? an_min d); [apply B_empty; exact Hi|exact Hm].
      - apply negb_false_iff in Ehm.
        destruct mo as [o|]; [|discriminate].
        inv_bind H. destruct (bump a cs) as [cs' cnt].
        destruct (match cnt with Some c => opt_lt (an_max_per d) c | None => false end);
          [eapply parse_mode_result_spec; eassumption|].
        inv_bind H. rename a0 into w'.
        apply longest_match_spec in Ha. destruct Ha as [->|[Hw Hbm]];
          [unfold has_match in Ehm; cbn in Ehm; rewrite N.eqb_refl in Ehm; discriminate|].
        assert (Hm' : B idx mx (append matched m)).
        { apply B_append; [exact Hm|eapply B_weaken; [|exact Hbm]; destruct Hm; lia|destruct Hbm; lia]. }
        eapply IH in H; [exact H|exact Hi|exact Hmx|exact Hm'|reflexivity|].
        destruct (an_gaps d); [apply skip_fwd_spec in Ha1; lia|inversion Ha1; subst; lia].
    Qed.

    Lemma match_anynumberof_spec fl d len idx terms m :
      idx <= len -> match_anynumberof g toks rec fl d len idx terms = ROk m -> B idx len m.
    Proof.
      unfold match_anynumberof. intros Hi H.
      inv_bind H. destruct a; [inversion H; subst; apply B_empty; exact Hi|].
      inv_bind H. inv_bind H. rename a0 into mx.
      assert (Hmx : idx <= mx /\ (mx <= len \/ pmode_eqb (an_mode d) Greedy = false)).
      { destruct (pmode_eqb (an_mode d) Greedy); [apply trim_to_terminator_spec in Ha1; lia|inversion Ha1; subst; lia]. }
      inv_bind H. destruct (len <? mx) eqn:E; [discriminate|]. b2p.
      eapply any_loop_spec in H; [exact H|lia|lia|apply B_empty; lia|reflexivity|cbn; lia].
    Qed.

    (* ---------------------------------------------------------- Delimited *)
    (** the remembered delimiter match is only used while [seeking = false], i.e. right after it
        was matched: then it lies after the working match and before the cursor *)
    Lemma delim_finish_spec tr mn idx len sk dm dl wm r :
      idx <= len -> B idx len wm ->
      (forall x, dm = Some x -> sk = false -> B idx len x /\ mr_end wm <= mr_start x) ->
      delim_finish tr mn idx sk dm dl wm = ROk r -> B idx len r.
    Proof.
      unfold delim_finish. intros Hi Hw Hd H.
      destruct dm as [x|].
      - destruct (tr && negb sk) eqn:E.
        + apply andb_true_iff in E as [_ E]. apply negb_true_iff in E.
          destruct (Hd x eq_refl E) as [Hx Hwx].
          destruct (dl + 1 <? mn); inversion H; subst; [apply B_empty; exact Hi|apply B_append; assumption].
        + destruct (dl <? mn); inversion H; subst; [apply B_empty; exact Hi|exact Hw].
      - destruct (dl <? mn); inversion H; subst; [apply B_empty; exact Hi|exact Hw].
    Qed.

    Lemma delim_loop_spec k : forall d delim tr mn len idx terms tms dl sk w wm dm r,
      idx <= w -> w <= len -> B idx len wm -> mr_end wm <= w ->
      (forall x, dm = Some x -> sk = false -> B idx len x /\ mr_end wm <= mr_start x /\ mr_end x <= w) ->
      delim_loop g toks rec k d delim tr mn len idx terms tms dl sk w wm dm = ROk r -> B idx len r.
    Proof.
      induction k as [|k IH]; intros d delim tr mn len idx terms tms dl sk w wm dm r Hw Hl Hwm Hew Hdm H;
        cbn [delim_loop] in H; [discriminate|].
      assert (Hfin : forall r', delim_finish tr mn idx sk dm dl wm = ROk r' -> B idx len r').
      { intros r' Hf. eapply delim_finish_spec; [| |intros x Hx Hsk; destruct (Hdm x Hx Hsk) as (X1 & X2 & _); split; [exact X1|exact X2]|exact Hf]; [lia|exact Hwm]. }
      inv_bind H. rename a into w'.
      assert (Hw' : w <= w' /\ w' <= len)
        by (destruct (an_gaps d && (idx <? w)); [apply skip_fwd_spec in Ha; lia|inversion Ha; subst; lia]).
      destruct (len <=? w'); [apply Hfin; exact H|].
      inv_bind H. destruct a as [tm tmo]. destruct (has_match tm); [apply Hfin; exact H|].
      inv_bind H. destruct a as [m mo].
      destruct (negb (has_match m)) eqn:Ehm; [apply Hfin; exact H|].
      apply negb_false_iff in Ehm.
      apply longest_match_spec in Ha1. destruct Ha1 as [->|[Hlt Hbm]];
        [unfold has_match in Ehm; cbn in Ehm; rewrite N.eqb_refl in Ehm; discriminate|].
      destruct Hbm as (M1 & M2 & M3).
      destruct sk.
      - (* the match is a delimiter: remember it *)
        eapply IH in H; [exact H|lia|lia|exact Hwm|lia|].
        intros x Hx _. inversion Hx; subst. split; [unfold B; lia|]. split; lia.
      - (* the match is an element *)
        destruct dm as [x|].
        + destruct (Hdm x eq_refl eq_refl) as (X1 & X2 & X3).
          assert (Hwx : B idx len (append wm x)) by (apply B_append; assumption).
          assert (Hex : mr_end (append wm x) <= w) by (apply append_end_le; lia).
          eapply IH in H; [exact H|lia|lia| | |].
          * apply B_append; [exact Hwx|unfold B; lia|lia].
          * apply append_end_le; lia.
          * intros y _ Hy. discriminate.
        + eapply IH in H; [exact H|lia|lia| | |].
          * apply B_append; [exact Hwm|unfold B; lia|lia].
          * apply append_end_le; lia.
          * intros y Hy. discriminate.
    Qed.

    Lemma match_delimited_spec fl d delim tr mn len idx terms m :
      idx <= len -> match_delimited g toks rec fl d delim tr mn len idx terms = ROk m -> B idx len m.
    Proof.
      unfold match_delimited. intros Hi H.
      eapply delim_loop_spec in H; [exact H|lia|exact Hi|apply B_empty; exact Hi|cbn; lia|].
      intros x Hx. discriminate.
    Qed.

    Lemma noncode_scan_spec n : forall len i j, noncode_scan toks n len i = ROk (Some j) -> i <= j /\ j < len.
    Proof.
      induction n as [|n IH]; intros len i j H; cbn [noncode_scan] in H; [discriminate|].
      destruct (i <? len) eqn:E; [|discriminate]. b2p.
      inv_bind H. destruct (p_code a); [inversion H; subst; lia|]. apply IH in H. lia.
    Qed.

    Lemma match_node_body_spec fl n idx len terms m :
      idx <= len -> match_node_body g toks rx rec fl n idx len terms = ROk m -> B idx len m.
    Proof.
      unfold match_node_body. intros Hi H.
      inv_bind H. destruct (n_node a).
      - (* GRef *)
        destruct target as [t|]; [|discriminate].
        inv_bind H. destruct a0; [inversion H; subst; apply B_empty; exact Hi|].
        eapply Hrec; eassumption.
      - eapply match_sequence_spec; eassumption.
      - eapply match_bracketed_spec; eassumption.
      - eapply match_anynumberof_spec; eassumption.
      - eapply match_delimited_spec; eassumption.
      - (* GNodeM *)
        destruct (len <=? idx); [inversion H; subst; apply B_empty; exact Hi|].
        inv_bind H. apply tok_lt in Ha0.
        destruct (p_kind a0 =? kind); [inversion H; subst; unfold B; cbn; lia|].
        inv_bind H. inversion H; subst. apply B_wrap. eapply Hrec; eassumption.
      - inv_bind H. apply tok_lt in Ha0.
        destruct (p_code a0 && (p_upper a0 =? upper)); inversion H; subst; unfold B; cbn; lia.
      - inv_bind H. apply tok_lt in Ha0.
        destruct (p_code a0 && memN (p_upper a0) uppers); inversion H; subst; unfold B; cbn; lia.
      - inv_bind H. apply tok_lt in Ha0.
        destruct (p_kind a0 =? template); inversion H; subst; unfold B; cbn; lia.
      - inv_bind H. apply tok_lt in Ha0.
        destruct (existsb _ rx); inversion H; subst; unfold B; cbn; lia.
      - discriminate.
      - destruct enabled; inversion H; subst; unfold B; cbn; lia.
      - destruct (is_empty terms0 && is_empty terms); [inversion H; subst; unfold B; cbn; lia|].
        eapply greedy_match_spec; eassumption.
      - inversion H; subst. apply B_empty. exact Hi.
      - inv_bind H. destruct a0 as [j|]; [|inversion H; subst; apply B_empty; exact Hi].
        apply noncode_scan_spec in Ha0.
        destruct (idx <? j); inversion H; subst; unfold B; cbn; lia.
      - inv_bind H. apply tok_lt in Ha0.
        destruct (p_kind a0 =? k_bracketed g); inversion H; subst; unfold B; cbn; lia.
    Qed.
  End WithRec.

  Theorem match_node_bounds fuel : forall n idx len terms m,
    idx <= len -> match_node g toks rx fuel n idx len terms = ROk m -> B idx len m.
  Proof.
    induction fuel as [|f IH]; intros n idx len terms m Hi H; cbn [match_node] in H; [discriminate|].
    eapply match_node_body_spec; [|exact Hi|exact H]. exact IH.
  Qed.

  (** the root match handed to [apply] spans a sub-range of the code span it was started on *)
  Theorem parse_root_bounds fuel s e m :
    s <= e -> parse_root g toks rx fuel s e = ROk m -> s <= mr_start m /\ mr_start m <= mr_end m /\ mr_end m <= e.
  Proof.
    unfold parse_root. intros Hse H. destruct (g_root g); [|discriminate].
    exact (match_node_bounds _ _ _ _ _ _ Hse H).
  Qed.
End Bounds.
