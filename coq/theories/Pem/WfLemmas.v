(** Building well-formed match results ([Apply.Model.wf]) step by step: the constructions the
    combinators of [Pem.Model] perform on their accumulators, as lemmas about [wf]. *)
From Coq Require Import Lia.
From Sq Require Import Base.Bytes Apply.Model Apply.Proofs.

Local Open Scope N_scope.

Lemma WFnode_prod n s e ins sp p p' : WFnode n s e None ins sp p -> WFnode n s e None ins sp p'.
Proof. intros [A1 A2 A3 A4 A5 A6 A7 _]. split; auto. Qed.

Lemma wf_node_intro n s e m ins ch :
  (forall c, In c ch -> wf n c = true) ->
  WFnode n s e m ins (spans ch) (existsb produces ch) ->
  wf n (MR s e m ins ch) = true.
Proof. intros H1 H2. apply wf_unfold. cbn [mr_ch mr_start mr_end mr_matched mr_ins]. auto. Qed.

Lemma wf_node_elim n s e m ins ch :
  wf n (MR s e m ins ch) = true ->
  (forall c, In c ch -> wf n c = true) /\ WFnode n s e m ins (spans ch) (existsb produces ch).
Proof. intro H. apply wf_unfold in H. exact H. Qed.

Lemma wf_span n x : wf n x = true -> mr_start x <= mr_end x /\ mr_end x <= n.
Proof. intro H. apply wf_unfold in H as [_ H]. exact (wn_span _ _ _ _ _ _ _ H). Qed.

Lemma wf_nil n s : s <= n -> wf n (MR s s None [] []) = true.
Proof.
  intro H. apply wf_node_intro; [intros c []|]. split; cbn; try tauto; try lia; try (intros q []); try (now left).
Qed.

(** an un-named accumulator may be declared to reach further *)
Lemma wf_extend n s e e' ins ch :
  wf n (MR s e None ins ch) = true -> e <= e' -> e' <= n -> wf n (MR s e' None ins ch) = true.
Proof.
  intros H He Hn. apply wf_node_elim in H as [Hc [[A1 A1'] A2 A3 A4 A5 A6 A7 _]].
  apply wf_node_intro; [exact Hc|]. split; auto.
  - lia.
  - intros c Hin. specialize (A2 c Hin). lia.
  - intros q Hq. specialize (A6 q Hq). lia.
Qed.

(** ... or to end elsewhere, as long as everything it holds stays inside *)
Lemma wf_reend n s e e' ins ch :
  wf n (MR s e None ins ch) = true -> s <= e' -> e' <= n ->
  (forall c, In c ch -> mr_end c <= e') -> (forall q, In q ins -> fst q <= e') ->
  wf n (MR s e' None ins ch) = true.
Proof.
  intros H Hs Hn Hch Hins. apply wf_node_elim in H as [Hc [[A1 A1'] A2 A3 A4 A5 A6 A7 _]].
  apply wf_node_intro; [exact Hc|]. split; auto.
  - intros c Hin. specialize (A2 c Hin). apply in_map_iff in Hin as (c0 & <- & Hc0).
    specialize (Hch c0 Hc0). cbn in *. lia.
  - intros q Hq. specialize (A6 q Hq). specialize (Hins q Hq). lia.
Qed.

(** the general concatenation: an accumulator followed by material that starts at or after its end *)
Lemma wf_cat_gen n s e ins ch s2 e2 ins2 ch2 p2 :
  wf n (MR s e None ins ch) = true ->
  (forall c, In c ch2 -> wf n c = true) ->
  WFnode n s2 e2 None ins2 (spans ch2) p2 -> e <= s2 ->
  wf n (MR s e2 None (ins ++ ins2) (ch ++ ch2)) = true.
Proof.
  intros H Hc2 Hn2 Hle. apply wf_node_elim in H as [Hc Hn].
  apply wf_node_intro.
  - intros c Hin. apply in_app_or in Hin as [Hin|Hin]; auto.
  - unfold spans. rewrite map_app. eapply WFnode_append; [exact Hn|exact Hn2|exact Hle].
Qed.

(** ... a whole match, flattened as [append]/[Sequence] do *)
Lemma wf_cat n s e ins ch x :
  wf n (MR s e None ins ch) = true -> wf n x = true -> e <= mr_start x ->
  wf n (MR s (mr_end x) None (ins ++ flat_ins x) (ch ++ flat_ch x)) = true.
Proof.
  intros H Hx Hle. destruct (flat_facts n x Hx) as [Hc Hn].
  eapply wf_cat_gen; eassumption.
Qed.

(** ... one child, kept as it is (named or not) *)
Lemma wf_add_child n s e ins ch c :
  wf n (MR s e None ins ch) = true -> wf n c = true -> e <= mr_start c ->
  wf n (MR s (mr_end c) None ins (ch ++ [c])) = true.
Proof.
  intros H Hc Hle. destruct (wf_span n c Hc) as [Hs He].
  rewrite <- (app_nil_r ins).
  eapply wf_cat_gen with (s2 := mr_start c) (ins2 := []) (p2 := false); [exact H| | |exact Hle].
  - intros c' [<-|[]]. exact Hc.
  - split; cbn [spans map];
      [ lia | intros c' [<-|[]]; cbn; lia | intros c1 c2 [<-|[]] [<-|[]]; cbn; lia | intros c' q _ []
      | reflexivity | intros q [] | now left | exact I ].
Qed.

(** ... metas at one position at or after the end *)
Lemma wf_add_ins n s e ins ch p ks :
  wf n (MR s e None ins ch) = true -> e <= p -> p <= n -> 0 < n ->
  wf n (MR s p None (ins ++ map (fun k => (p, k)) ks) ch) = true.
Proof.
  intros H Hle Hp Hn. rewrite <- (app_nil_r ch).
  eapply wf_cat_gen with (s2 := p) (ch2 := []) (p2 := false); [exact H| | |exact Hle].
  - intros c [].
  - split; cbn [spans map];
      [ lia | intros c [] | intros c c' [] | intros c q []
      | reflexivity | intros q Hq; apply in_map_iff in Hq as (k & <- & _); cbn; lia | now right | exact I ].
Qed.

(** naming an accumulator that yields at least one segment *)
Lemma wf_name n s e ins ch k :
  wf n (MR s e None ins ch) = true ->
  s <> e \/ ins <> [] \/ existsb produces ch = true ->
  wf n (MR s e (Some (MKind k)) ins ch) = true.
Proof.
  intros H Hp. apply wf_node_elim in H as [Hc [A1 A2 A3 A4 A5 A6 A7 _]].
  apply wf_node_intro; [exact Hc|]. split; auto.
Qed.

Lemma wf_unparsable n a b k : a < b -> b <= n -> wf n (MR a b (Some (MKind k)) [] []) = true.
Proof.
  intros Hab Hb. apply wf_name; [|left; lia].
  apply wf_extend with (e := a); [apply wf_nil; lia|lia|lia].
Qed.

Lemma wf_from_span n a b : a <= b -> b <= n -> wf n (MR a b None [] []) = true.
Proof. intros Hab Hb. apply wf_extend with (e := a); [apply wf_nil; lia|lia|lia]. Qed.

Lemma wf_one_token n i k : i < n -> wf n (MR i (i + 1) (Some (MNewtype k)) [] []) = true.
Proof.
  intro H. apply wf_node_intro; [intros c []|]. split; cbn; try tauto; try lia; try (intros q []); try (now left).
Qed.

(** the accumulator seen as the match the combinators return *)
Lemma wf_children_start n x c : wf n x = true -> In c (mr_ch x) -> mr_start x <= mr_start c /\ mr_end c <= mr_end x.
Proof.
  intros H Hin. apply wf_unfold in H as [_ H].
  pose proof (wn_nest _ _ _ _ _ _ _ H (mr_start c, mr_end c)) as Hn. cbn in Hn.
  assert (In (mr_start c, mr_end c) (spans (mr_ch x))) by (unfold spans; apply in_map_iff; eauto).
  specialize (Hn H0). lia.
Qed.

Lemma flat_ch_start n x c : wf n x = true -> In c (flat_ch x) -> mr_start x <= mr_start c /\ mr_end c <= mr_end x.
Proof.
  intros H Hin. unfold flat_ch in Hin. destruct (is_some (mr_matched x)).
  - destruct Hin as [<-|[]]. destruct (wf_span n x H). lia.
  - eapply wf_children_start; eassumption.
Qed.

(** ... the children of a match without its inserts ([Bracketed] takes the children of an
    un-named content match and drops its metas) *)
Lemma wf_cat_children n s e ins ch x :
  wf n (MR s e None ins ch) = true -> wf n x = true -> e <= mr_start x ->
  wf n (MR s (mr_end x) None ins (ch ++ mr_ch x)) = true.
Proof.
  intros H Hx Hle. destruct x as [sx ex mx ix cx]. apply wf_node_elim in Hx as [Hc [A1 A2 A3 A4 A5 A6 A7 _]].
  cbn [mr_start mr_end mr_ch] in *. rewrite <- (app_nil_r ins).
  eapply wf_cat_gen with (s2 := sx) (p2 := false); [exact H|exact Hc| |exact Hle].
  split; auto.
  - intros c q _ [].
  - intros q [].
Qed.

(** [apply] handles the children that start at one position in vector order, so the vector may be
    permuted as long as no other child starts where the moved one does *)
Lemma wf_move n s e m ins P X c :
  wf n (MR s e m ins (P ++ X ++ [c])) = true ->
  (forall x, In x X -> mr_start x <> mr_start c) ->
  wf n (MR s e m ins (P ++ c :: X)) = true.
Proof.
  intros H Hne. apply wf_node_elim in H as [Hc [A1 A2 A3 A4 A5 A6 A7 A8]].
  assert (Hin : forall (A : Type) (f : mr -> A) z, In z (map f (P ++ c :: X)) <-> In z (map f (P ++ X ++ [c]))).
  { intros A f z. rewrite !map_app. cbn [map]. rewrite !in_app_iff. cbn [In]. tauto. }
  apply wf_node_intro.
  - intros x Hx. apply Hc. specialize (Hin mr (fun y => y) x). rewrite !map_id in Hin. apply Hin. exact Hx.
  - unfold spans in *. split; auto.
    + intros z Hz. apply A2. apply Hin. exact Hz.
    + intros z z' Hz Hz'. apply A3; apply Hin; assumption.
    + intros z q Hz. apply A4. apply Hin. exact Hz.
    + rewrite map_app in A5 |- *. cbn [map]. rewrite map_app in A5. cbn [map] in A5.
      apply chain_ok_app in A5 as (C1 & C2 & C3).
      apply chain_ok_app in C2 as (C4 & _ & _).
      apply chain_ok_app. repeat split; [exact C1| |].
      * apply chain_ok_cons. split; [|exact C4].
        intros c' Hc' Heq. apply in_map_iff in Hc' as (x & <- & Hx). cbn in Heq.
        exfalso. apply (Hne x Hx). symmetry. exact Heq.
      * intros z z' Hz Hz'. apply C3; [exact Hz|]. rewrite in_app_iff. cbn [In] in *. tauto.
    + destruct m as [[k|k]|]; [| |exact I].
      * destruct A8 as [A8|[A8|A8]]; auto. right. right.
        rewrite !existsb_app in A8. cbn [existsb] in A8. rewrite !existsb_app. cbn [existsb].
        destruct (existsb produces P), (existsb produces X), (produces c); cbn in *; auto.
      * destruct A8 as (E1 & E2 & E3). repeat split; auto.
        destruct P; destruct X; cbn in E3; discriminate.
Qed.
