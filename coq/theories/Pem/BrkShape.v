(** Bracket structure of the parser-engine interpreter, part 1: executable definitions.

    A [bracketed] node is built in one place only, [resolve_bracket] with a [persists] flag; its first child is
    the match of the opening matcher, its closing child the match of a matcher that is [==] to the end matcher
    with the same index in the bracket set as the start matcher that is [==] to the opener.  That these are one
    bracket token each, of one pair of the set, is a property of the graph: every start and end matcher of every
    bracket set (the dialect's "bracket_pairs" and the pair of every [Bracketed] node) is a String/MultiString
    parser behind Refs ([str1]), matchers that are [==] parse the same strings into the same kind, and no
    NodeMatcher makes a node of kind [bracketed] out of something else.  [brk_safe_b] decides that (it implies
    [Pem.WfSafe.wf_safe_b]). *)
From Coq Require Import FMapPositive.
From Sq Require Import Base.Bytes Apply.Model Pem.Model Pem.WfSafe.

Local Open Scope N_scope.

Section Shape.
  Variable g : grammar.

  (** [n] is a StringParser / MultiStringParser behind at most [d] Refs without exclude: templates and kind *)
  Fixpoint str1 (d : nat) (n : N) : option (list N * N) :=
    match d with
    | O => None
    | S d' =>
        match get (g_nodes g) n with
        | Some i =>
            match n_node i with
            | GString up k => Some ([up], k)
            | GMulti ups k => Some (ups, k)
            | GRef (Some r) _ _ _ => str1 d' r
            | _ => None
            end
        | None => None
        end
    end.
  Definition str_of (n : N) : option (list N * N) := str1 ref_depth n.

  Definition str_eqb (a b : option (list N * N)) : bool :=
    match a, b with
    | Some (u1, k1), Some (u2, k2) => list_eqb N.eqb u1 u2 && (k1 =? k2)
    | None, None => true
    | _, _ => false
    end.

  (** one bracket set as [resolve_bracket] gets it *)
  Definition set_ok_b (starts ends : list N) : bool :=
    Nat.eqb (length starts) (length ends)
    && forallb (fun y => is_some (str_of y)) (starts ++ ends)
    && forallb (fun y => forallb (fun x => negb (meq g x y) || str_eqb (str_of x) (str_of y)) (starts ++ ends))
               (starts ++ ends).

  Definition node_brk_b (i : ninfo) : bool :=
    match n_node i with
    | GBracketed true (Some sb) (Some eb) _ _ _ => set_ok_b [sb] [eb]
    | GNodeM k _ => negb (k =? k_bracketed g)
    | _ => true
    end.

  Definition brackets_brk_b : bool :=
    match all_some (map (fun b => fst (fst b)) (g_brackets g)),
          all_some (map (fun b => snd (fst b)) (g_brackets g)) with
    | Some starts, Some ends => set_ok_b starts ends
    | _, _ => true            (* [resolve_refs] aborts before the set is used *)
    end.

  Definition brk_safe_b : bool :=
    negb (k_unparsable g =? k_bracketed g)
    && forallb (fun p => node_brk_b (snd p)) (PositiveMap.elements (g_nodes g))
    && brackets_brk_b.

  Definition brk_unsafe_nodes : list positive :=
    map fst (filter (fun p => negb (node_brk_b (snd p))) (PositiveMap.elements (g_nodes g))).
End Shape.
