(** Indent/dedent balance of the parser-engine interpreter, part 2: the theorem.

    For every grammar graph with a consistent net-value table ([Pem.MetaBal.consistent_b]), every token
    stream none of whose tokens carries the kind of a named node with a non-zero net value, every regex
    oracle, fuel, node, start index and terminator context: a match of node [n] without unparsable
    section has [isum] (the sum of [indent_val] over all inserted metas) equal to [tv n] if it
    [has_match], zero otherwise; and the top-level insert list of a match of a [tz] node sums to zero
    unless the match is a named node.  For the root, [tv] is zero: Indent and Dedent balance over
    every parse without unparsable section. *)
From Coq Require Import FMapPositive ZArith Lia.
From Sq Require Import Base.Bytes Apply.Model Pem.Model Pem.Bounds Pem.Wf Pem.LayoutRel Pem.LayoutInv Pem.MetaBal.

Local Open Scope N_scope.

(* ------------------------------------------------------------------ sums *)
Section Sums.
  Variable g : grammar.

  Lemma ksum_app a b : ksum g (a ++ b) = (ksum g a + ksum g b)%Z.
  Proof. induction a as [|x a IH]; cbn; [reflexivity|]. fold (ksum g (a ++ b)) (ksum g a). rewrite IH. lia. Qed.
  Lemma inssum_app a b : inssum g (a ++ b) = (inssum g a + inssum g b)%Z.
  Proof. unfold inssum. rewrite map_app. apply ksum_app. Qed.
  Lemma inssum_nil : inssum g [] = 0%Z.
  Proof. reflexivity. Qed.
  Lemma inssum_at p l : inssum g (map (fun k => (p, k)) l) = ksum g l.
  Proof. unfold inssum. rewrite map_map. cbn. rewrite map_id. reflexivity. Qed.
  Lemma inssum_flush pre post buf : inssum g (flush_metas g pre post buf) = ksum g buf.
  Proof. unfold flush_metas. apply inssum_at. Qed.
  Lemma ksum_one k : ksum g [k] = ival g k.
  Proof. cbn. lia. Qed.

  Lemma chsum_app a b : chsum g (a ++ b) = (chsum g a + chsum g b)%Z.
  Proof. induction a as [|x a IH]; cbn; [reflexivity|]. fold (chsum g (a ++ b)) (chsum g a). rewrite IH. lia. Qed.
  Lemma chsum_one x : chsum g [x] = isum g x.
  Proof. cbn. lia. Qed.
  Lemma isum_eq x : isum g x = (inssum g (mr_ins x) + chsum g (mr_ch x))%Z.
  Proof. destruct x; reflexivity. Qed.
  Lemma isum_MR s e m ins ch : isum g (MR s e m ins ch) = (inssum g ins + chsum g ch)%Z.
  Proof. reflexivity. Qed.

  Lemma isum_flat x : (inssum g (flat_ins x) + chsum g (flat_ch x))%Z = isum g x.
  Proof.
    unfold flat_ins, flat_ch. destruct (is_some (mr_matched x)).
    - rewrite chsum_one. cbn. lia.
    - symmetry. apply isum_eq.
  Qed.

  Lemma clean_MR s e m ins ch :
    clean_b g (MR s e m ins ch)
    = negb (match m with Some (MKind k) => k =? k_unparsable g | _ => false end) && forallb (clean_b g) ch.
  Proof. reflexivity. Qed.
  Lemma clean_unnamed s e ins ch : clean_b g (MR s e None ins ch) = forallb (clean_b g) ch.
  Proof. reflexivity. Qed.
  Lemma clean_children x : clean_b g x = true -> forallb (clean_b g) (mr_ch x) = true.
  Proof. destruct x. rewrite clean_MR. intro H. apply andb_true_iff in H. tauto. Qed.
  Lemma clean_flat x : forallb (clean_b g) (flat_ch x) = clean_b g x.
  Proof.
    unfold flat_ch. destruct x as [s e m ins ch]. cbn [mr_matched mr_ch]. destruct m as [m|]; cbn [is_some].
    - cbn [forallb]. apply andb_true_r.
    - reflexivity.
  Qed.
  Lemma clean_unparsable a b : clean_b g (unparsable g a b) = false.
  Proof. unfold unparsable. rewrite clean_MR, N.eqb_refl. reflexivity. Qed.
  Lemma clean_unparsable_gen s e ins ch : clean_b g (MR s e (Some (MKind (k_unparsable g))) ins ch) = false.
  Proof. rewrite clean_MR, N.eqb_refl. reflexivity. Qed.
  Lemma clean_app_unparsable ch a b : forallb (clean_b g) (ch ++ [unparsable g a b]) = false.
  Proof. rewrite forallb_app. cbn [forallb]. rewrite clean_unparsable. cbn. apply andb_false_r. Qed.

  Lemma isum_empty_at i : isum g (empty_at i) = 0%Z.
  Proof. reflexivity. Qed.
  Lemma isum_from_span a b : isum g (from_span a b) = 0%Z.
  Proof. reflexivity. Qed.
  Lemma isum_one_token i k : isum g (one_token i k) = 0%Z.
  Proof. reflexivity. Qed.

  (** [wrap] and [append] *)
  Lemma isum_wrap x o : isum g (wrap x o) = isum g x.
  Proof. unfold wrap. destruct (mr_is_empty x); [reflexivity|]. rewrite isum_MR. apply isum_flat. Qed.
  Lemma clean_wrap x o : clean_b g (wrap x o) = true -> clean_b g x = true.
  Proof.
    unfold wrap. destruct (mr_is_empty x); [auto|]. rewrite clean_MR. intro H. apply andb_true_iff in H as [_ H].
    rewrite clean_flat in H. exact H.
  Qed.

  Lemma append_cases a b :
    (mr_is_empty a = true /\ append a b = b) \/ (mr_is_empty a = false /\ mr_is_empty b = true /\ append a b = a)
    \/ (mr_is_empty a = false /\ mr_is_empty b = false /\
        append a b = MR (mr_start a) (mr_end b) None (flat_ins a ++ flat_ins b) (flat_ch a ++ flat_ch b)).
  Proof. unfold append. destruct (mr_is_empty a); [auto|]. destruct (mr_is_empty b); auto. Qed.

  Lemma clean_append a b : clean_b g (append a b) = true ->
    (mr_is_empty a = true /\ append a b = b) \/ (mr_is_empty b = true /\ append a b = a)
    \/ (clean_b g a = true /\ clean_b g b = true /\ isum g (append a b) = (isum g a + isum g b)%Z /\
        mr_matched (append a b) = None /\ mr_ins (append a b) = flat_ins a ++ flat_ins b).
  Proof.
    destruct (append_cases a b) as [[H1 H2]|[(H1 & H2 & H3)|(H1 & H2 & H3)]]; [auto|auto|].
    rewrite H3. rewrite clean_unnamed, forallb_app, !clean_flat. intro H. apply andb_true_iff in H as [Ca Cb].
    right. right. repeat split; auto.
    rewrite isum_MR, inssum_app, chsum_app. pose proof (isum_flat a). pose proof (isum_flat b). lia.
  Qed.
End Sums.

(* ------------------------------------------------------------------ the invariant *)
Section Bal.
  Variable g : grammar.
  Variable t : PositiveMap.t attr.
  Variable toks : PositiveMap.t ptok.
  Variable rx : list (N * N).

  Hypothesis Hkinds : kinds_bal_b g = true.
  Hypothesis Hnodes : forall n i, get (g_nodes g) n = Some i ->
    get t n = Some (node_attr g t i) /\ node_side_b g t i = true.
  Hypothesis Hbr : brackets_bal_b g t = true.
  Hypothesis Htok : forall i tk, get toks i = Some tk -> memN (p_kind tk) (risky_kinds g t) = false.

  Notation clean := (clean_b g).
  Notation isum := (isum g).
  Notation chsum := (chsum g).
  Notation inssum := (inssum g).
  Notation ksum := (ksum g).
  Notation tv := (tv t).
  Notation tz := (tz t).

  Definition named (m : mr) : bool := is_some (mr_matched m).
  (** net value [v], or nothing matched *)
  Definition V (v : Z) (m : mr) : Prop := isum m = v \/ (has_match m = false /\ isum m = 0%Z).
  (** the top-level insert list is balanced, or it stays with the node *)
  Definition Zp (m : mr) : Prop := named m = true \/ inssum (mr_ins m) = 0%Z.
  Definition W (z : bool) (v : Z) (m : mr) : Prop := clean m = true -> V v m /\ (z = true -> Zp m).
  Definition Inv (n : N) (m : mr) : Prop := W (tz n) (tv n) m.

  Lemma ival_indent : ival g (k_indent g) = 1%Z.
  Proof.
    unfold kinds_bal_b in Hkinds. apply andb_true_iff in Hkinds as [H1 _]. apply negb_true_iff in H1.
    unfold ival. rewrite H1, N.eqb_refl. reflexivity.
  Qed.
  Lemma ival_dedent : ival g (k_dedent g) = (-1)%Z.
  Proof. unfold ival. rewrite N.eqb_refl. reflexivity. Qed.
  Lemma inssum_bracket a b : inssum [(a, k_indent g); (b, k_dedent g)] = 0%Z.
  Proof. unfold MetaBal.inssum. cbn. rewrite ival_indent, ival_dedent. reflexivity. Qed.

  Lemma V0 m : V 0 m -> isum m = 0%Z.
  Proof. intros [H|[_ H]]; exact H. Qed.
  Lemma V_has v m : V v m -> has_match m = true -> isum m = v.
  Proof. intros [H|[H _]] Hm; [exact H|congruence]. Qed.
  Lemma Zp_flat m : Zp m -> inssum (flat_ins m) = 0%Z.
  Proof. unfold Zp, named, flat_ins. intros [H|H]; [rewrite H; reflexivity|destruct (is_some (mr_matched m)); [reflexivity|exact H]]. Qed.
  Lemma Zp_nomatch m : has_match m = false -> Zp m.
  Proof. intro H. right. apply has_match_false in H as [_ ->]. reflexivity. Qed.

  Lemma W_empty z v i : W z v (empty_at i).
  Proof. intros _. split; [right; split; [apply has_match_empty_at|reflexivity]|intros _; right; reflexivity]. Qed.
  Lemma W_weaken_z z v m : W true v m -> W z v m.
  Proof. intros H C. destruct (H C) as [H1 H2]. split; [exact H1|intros _; apply H2; reflexivity]. Qed.
  Lemma W_unclean z v m : clean m = false -> W z v m.
  Proof. intros H C. congruence. Qed.

  (** [append] of parts of net value zero *)
  Lemma W0_append z a b : W z 0 a -> W z 0 b -> W z 0 (append a b).
  Proof.
    intros Ha Hb C. destruct (clean_append g a b C) as [[_ E]|[[_ E]|(Ca & Cb & Es & En & Ei)]].
    - rewrite E in *. exact (Hb C).
    - rewrite E in *. exact (Ha C).
    - destruct (Ha Ca) as [Va Za], (Hb Cb) as [Vb Zb]. split.
      + left. rewrite Es, (V0 _ Va), (V0 _ Vb). reflexivity.
      + intro Hz. right. rewrite Ei, inssum_app, (Zp_flat _ (Za Hz)), (Zp_flat _ (Zb Hz)). reflexivity.
  Qed.

  Lemma W_wrap z v x k : W z v x -> W true v (wrap x (MKind k)).
  Proof.
    intros Hx C. pose proof (clean_wrap g _ _ C) as Cx. destruct (Hx Cx) as [Vx _].
    unfold wrap in *. destruct (mr_is_empty x) eqn:E.
    - split; [exact Vx|]. intros _. apply Zp_nomatch. unfold mr_is_empty in E. apply negb_true_iff in E. exact E.
    - split; [|intros _; left; reflexivity].
      destruct Vx as [Vx|[Hm _]]; [|unfold mr_is_empty in E; rewrite Hm in E; discriminate].
      left. rewrite isum_MR, isum_flat. exact Vx.
  Qed.

  (* ---------------------------------------------------------------- what the table says *)
  Lemma tab_node n i : get (g_nodes g) n = Some i -> tv n = a_v (node_attr g t i) /\ tz n = a_z (node_attr g t i).
  Proof. intro E. destruct (Hnodes _ _ E) as [H _]. unfold MetaBal.tv, MetaBal.tz. rewrite H. auto. Qed.

  Lemma info_get n i : info g n = ROk i -> get (g_nodes g) n = Some i.
  Proof. unfold info. destruct (get (g_nodes g) n); [|discriminate]. intro H. inversion H; reflexivity. Qed.

  Lemma opt_of_get e o : opt_of g e = ROk o -> exists i, get (g_nodes g) e = Some i /\ n_opt i = Some o.
  Proof.
    unfold opt_of. intro H. inv_bind H. apply info_get in Ha. exists a. split; [exact Ha|].
    destruct (n_opt a); [|discriminate]. inversion H; reflexivity.
  Qed.
  Lemma required_not_opt e : opt_of g e = ROk true -> required g e = false.
  Proof. intro H. apply opt_of_get in H as (i & E & Ho). unfold required. rewrite E, Ho. reflexivity. Qed.

  Lemma forallb_In {A} (f : A -> bool) l x : forallb f l = true -> In x l -> f x = true.
  Proof. intros H Hx. rewrite forallb_forall in H. exact (H x Hx). Qed.

  Lemma prune_aux_sub r tys opts : forall a, prune_aux g r tys opts = ROk a -> incl a opts.
  Proof.
    induction opts as [|o opts IH]; intros a H; cbn [prune_aux] in H; [inversion H; intros x []|].
    inv_bind H. inv_bind H. specialize (IH _ Ha0).
    destruct a0 as [[[raws tys'] al]|].
    - destruct (memN r raws || intersects tys tys'); inversion H; subst.
      + intros x [<-|Hx]; [now left|right; auto].
      + intros x Hx. right. auto.
    - inversion H; subst. intros x [<-|Hx]; [now left|right; auto].
  Qed.
  Lemma prune_sub opts len idx a : prune g toks opts len idx = ROk a -> incl a opts.
  Proof.
    unfold prune. destruct (first_nonws toks len idx) as [[r tys]|].
    - apply prune_aux_sub.
    - intro H. inversion H; subst. apply incl_refl.
  Qed.

  (* ------------------------------------------------------------ with the recursive matcher *)
  Section WithRec.
    Variable rec : N -> N -> N -> list N -> res mr.
    Hypothesis Hrec : forall n i l tm m, rec n i l tm = ROk m -> Inv n m.

    (** a result of one of the options, or nothing *)
    Definition OfOpt (ms : list N) (idx : N) (m : mr) : Prop :=
      m = empty_at idx \/ exists o, In o ms /\ Inv o m.

    Lemma longest_loop_of opts : forall ms idx len terms best bm m o,
      incl opts ms -> OfOpt ms idx best ->
      longest_loop g toks rec opts idx len terms best bm = ROk (m, o) -> OfOpt ms idx m.
    Proof.
      induction opts as [|op opts IH]; intros ms idx len terms best bm m o Hin Hb H; cbn [longest_loop] in H.
      - inversion H; subst. exact Hb.
      - inv_bind H. inv_bind H. rename a0 into r.
        assert (Hr : OfOpt ms idx r).
        { right. exists op. split; [apply Hin; now left|eapply Hrec; eassumption]. }
        assert (Hin' : incl opts ms) by (intros x Hx; apply Hin; now right).
        destruct (has_match r && (mr_end r =? len)); [inversion H; subst; exact Hr|].
        destruct (mlen best <? mlen r).
        + destruct (is_empty opts); [inversion H; subst; exact Hr|].
          destruct (negb (is_empty terms)).
          * inv_bind H. destruct (a0 =? len); [inversion H; subst; exact Hr|].
            inv_bind H. destruct a1; [inversion H; subst; exact Hr|].
            eapply IH in H; [exact H|exact Hin'|exact Hr].
          * eapply IH in H; [exact H|exact Hin'|exact Hr].
        + eapply IH in H; [exact H|exact Hin'|exact Hb].
    Qed.

    Lemma longest_match_of len ms idx terms m o :
      longest_match g toks rec len ms idx terms = ROk (m, o) -> OfOpt ms idx m.
    Proof.
      unfold longest_match. intro H.
      destruct (is_empty ms || (idx =? len)); [inversion H; left; reflexivity|].
      inv_bind H. destruct (is_empty a); [inversion H; left; reflexivity|].
      inv_bind H. eapply longest_loop_of in H; [exact H|eapply prune_sub; eassumption|left; reflexivity].
    Qed.

    (** with a uniform bound on the options *)
    Lemma OfOpt_W ms idx m z v :
      OfOpt ms idx m -> (forall o, In o ms -> tv o = v /\ (z = true -> tz o = true)) -> W z v m.
    Proof.
      intros [->|(o & Ho & Hi)] Hall; [apply W_empty|].
      destruct (Hall o Ho) as [Ev Ez]. intro C. destruct (Hi C) as [H1 H2]. rewrite Ev in H1.
      split; [exact H1|]. intro Hz. apply H2. apply Ez. exact Hz.
    Qed.

    (* ---------------------------------------------------------- brackets *)
    (** every child collected so far *)
    Definition C0 (ch : list mr) : Prop := Forall (fun c => clean c = true -> isum c = 0%Z) ch.
    Lemma C0_chsum ch : C0 ch -> forallb clean ch = true -> chsum ch = 0%Z.
    Proof.
      induction 1 as [|c ch Hc _ IH]; intro H; [reflexivity|].
      cbn [forallb] in H. apply andb_true_iff in H as [H1 H2].
      change (chsum (c :: ch)) with (isum c + chsum ch)%Z. rewrite (Hc H1), (IH H2). reflexivity.
    Qed.
    Lemma C0_app a b : C0 a -> C0 b -> C0 (a ++ b).
    Proof. intros Ha Hb. apply Forall_app. split; assumption. Qed.

    Lemma wrap_bracket s e a b ch o :
      wrap (MR s e None [(a, k_indent g); (b, k_dedent g)] ch) o
      = MR s e (Some o) [(a, k_indent g); (b, k_dedent g)] ch.
    Proof. unfold wrap, mr_is_empty, has_match. cbn. rewrite orb_true_r. reflexivity. Qed.

    Lemma C0_of_parts r : inssum (mr_ins r) = 0%Z -> C0 (mr_ch r) -> clean r = true -> isum r = 0%Z.
    Proof.
      intros Hi Hc C. rewrite isum_eq, Hi, (C0_chsum _ Hc (clean_children g _ C)). reflexivity.
    Qed.

    Lemma rb_loop_bal fl : forall len opening ti starts ends pers terms nested mi ch r,
      (forall y, In y (starts ++ ends) -> tv y = 0%Z) ->
      C0 ch ->
      rb_loop g toks rec fl len opening ti starts ends pers terms nested mi ch = ROk r ->
      inssum (mr_ins r) = 0%Z /\ C0 (mr_ch r).
    Proof.
      induction fl as [|fl IH]; intros len opening ti starts ends pers terms nested mi ch r Hz Hch H;
        cbn [rb_loop] in H; [discriminate|].
      inv_bind H. destruct a as [m mt].
      apply (next_match_sound g toks 1 N.lt_0_1) in Ha.
      destruct (negb (has_match m)); [discriminate|].
      destruct mt as [mt|]; [|discriminate].
      destruct Ha as (j & _ & _ & Hin & Hr & _).
      assert (Hm : clean m = true -> isum m = 0%Z).
      { intro C. destruct (Hrec _ _ _ _ _ Hr C) as [Hv _]. rewrite (Hz _ Hin) in Hv. apply V0. exact Hv. }
      destruct (mcontains g ends mt).
      - destruct (mposition g ends mt) as [ci|]; [|discriminate].
        destruct (ci =? ti); [|discriminate].
        destruct (nth_bool pers ti) as [p|]; [|discriminate].
        assert (Hc : C0 (ch ++ [m])) by (apply C0_app; [exact Hch|constructor; [exact Hm|constructor]]).
        destruct p; inversion H; subst.
        + rewrite wrap_bracket. cbn [mr_ins mr_ch]. split; [apply inssum_bracket|exact Hc].
        + cbn [mr_ins mr_ch]. split; [apply inssum_bracket|exact Hc].
      - destruct (mposition g starts mt) as [ti'|]; [|discriminate].
        inv_bind H. rename a into inner.
        eapply IH in Ha; [|exact Hz|constructor; [exact Hm|constructor]].
        destruct Ha as [I1 I2].
        eapply IH in H; [exact H|exact Hz|].
        destruct nested; [|exact Hch].
        apply C0_app; [exact Hch|]. constructor; [|constructor]. apply C0_of_parts; assumption.
    Qed.

    Lemma resolve_bracket_bal fl len opening opener starts ends pers terms nested r :
      (forall y, In y (starts ++ ends) -> tv y = 0%Z) ->
      (clean opening = true -> isum opening = 0%Z) ->
      resolve_bracket g toks rec fl len opening opener starts ends pers terms nested = ROk r ->
      inssum (mr_ins r) = 0%Z /\ C0 (mr_ch r).
    Proof.
      unfold resolve_bracket. intros Hz Ho H.
      destruct (mposition g starts opener); [|discriminate].
      eapply rb_loop_bal in H; [exact H|exact Hz|]. constructor; [exact Ho|constructor].
    Qed.

    (* ---------------------------------------------------------- next_ex_bracket_match / greedy_match *)
    Lemma neb_loop_bal k : forall fl len idx ms starts ends pers terms mi ch m o inner,
      (forall y, In y (starts ++ ends) -> tv y = 0%Z) ->
      C0 ch ->
      neb_loop g toks rec k fl len idx ms starts ends pers terms mi ch = ROk (m, o, inner) -> C0 inner.
    Proof.
      induction k as [|k IH]; intros fl len idx ms starts ends pers terms mi ch m o inner Hz Hch H;
        cbn [neb_loop] in H; [discriminate|].
      inv_bind H. destruct a as [m0 mt].
      apply (next_match_sound g toks 1 N.lt_0_1) in Ha.
      destruct (negb (has_match m0)); [inversion H; subst; exact Hch|].
      destruct mt as [mt|]; [|discriminate].
      destruct Ha as (j & _ & _ & Hin & Hr & _).
      destruct (mcontains g ms mt) eqn:Ems; [inversion H; subst; exact Hch|].
      destruct (mcontains g ends mt); [inversion H; subst; constructor|].
      inv_bind H. rename a into b.
      assert (Hin' : In mt (starts ++ ends)).
      { apply in_app_or in Hin as [Hin|Hin]; [|exact Hin].
        exfalso. unfold mcontains in Ems. assert (existsb (fun y => meq g y mt) ms = true).
        { apply existsb_exists. exists mt. split; [exact Hin|]. unfold meq. rewrite N.eqb_refl. reflexivity. }
        congruence. }
      apply resolve_bracket_bal in Ha; [|exact Hz|].
      2:{ intro C. destruct (Hrec _ _ _ _ _ Hr C) as [Hv _]. rewrite (Hz _ Hin') in Hv. apply V0. exact Hv. }
      destruct Ha as [B1 B2].
      eapply IH in H; [exact H|exact Hz|].
      apply C0_app; [exact Hch|]. constructor; [|constructor]. apply C0_of_parts; assumption.
    Qed.

    Lemma resolve_refs_in l : forall r, resolve_refs l = ROk r -> forall y, In y r -> In (Some y) l.
    Proof.
      induction l as [|[x|] l IH]; intros r H y Hy; cbn in *; [inversion H; subst; destruct Hy| |discriminate].
      inv_bind H. inversion H; subst. destruct Hy as [<-|Hy]; [now left|right; eapply IH; eauto].
    Qed.

    Lemma bracket_set_zero starts ends :
      resolve_refs (map (fun b => fst (fst b)) (g_brackets g)) = ROk starts ->
      resolve_refs (map (fun b => snd (fst b)) (g_brackets g)) = ROk ends ->
      forall y, In y (starts ++ ends) -> tv y = 0%Z.
    Proof.
      intros Hs He y Hy. unfold brackets_bal_b in Hbr. rewrite forallb_forall in Hbr.
      apply in_app_or in Hy as [Hy|Hy].
      - eapply resolve_refs_in in Hs; [|exact Hy]. apply in_map_iff in Hs as (b & Eb & Hb).
        specialize (Hbr b Hb). apply andb_true_iff in Hbr as [H1 _]. rewrite Eb in H1. cbn in H1.
        apply Z.eqb_eq in H1. exact H1.
      - eapply resolve_refs_in in He; [|exact Hy]. apply in_map_iff in He as (b & Eb & Hb).
        specialize (Hbr b Hb). apply andb_true_iff in Hbr as [_ H1]. rewrite Eb in H1. cbn in H1.
        apply Z.eqb_eq in H1. exact H1.
    Qed.

    Lemma next_ex_bracket_match_bal fl len idx ms terms m o inner :
      next_ex_bracket_match g toks rec fl len idx ms terms = ROk (m, o, inner) -> C0 inner.
    Proof.
      unfold next_ex_bracket_match. intro H.
      destruct (len <=? idx); [inversion H; subst; constructor|].
      inv_bind H. inv_bind H. eapply neb_loop_bal in H; [exact H| |constructor].
      eapply bracket_set_zero; eassumption.
    Qed.

    Lemma greedy_loop_bal k : forall fl len idx ms terms it nested w ch m,
      C0 ch ->
      greedy_loop g toks rec k fl len idx ms terms it nested w ch = ROk m -> W true 0 m.
    Proof.
      induction k as [|k IH]; intros fl len idx ms terms it nested w ch m Hch H;
        cbn [greedy_loop] in H; [discriminate|].
      inv_bind H. destruct a as [[matched mt] inner].
      apply next_ex_bracket_match_bal in Ha.
      assert (Hch' : C0 (if nested then ch ++ inner else ch)) by (destruct nested; [apply C0_app; assumption|exact Hch]).
      assert (Hfin : forall a b, W true 0 (MR a b None [] (if nested then ch ++ inner else ch))).
      { intros a b C. rewrite clean_unnamed in C. split; [left; rewrite isum_MR, (C0_chsum _ Hch' C); reflexivity|].
        intros _. right. reflexivity. }
      destruct (negb (has_match matched)); [inversion H; subst; apply Hfin|].
      destruct mt as [mt|]; [|discriminate].
      inv_bind H. destruct a as [[[raws tys] alpha]|]; [|discriminate].
      inv_bind H. destruct (negb a).
      - eapply IH in H; [exact H|exact Hch'].
      - destruct it; [inversion H; subst; intros _; split; [left; reflexivity|intros _; right; reflexivity]|].
        inv_bind H. destruct (idx =? a0); inversion H; subst; apply Hfin.
    Qed.
    Lemma greedy_match_bal fl len idx ms terms it nested m :
      greedy_match g toks rec fl len idx ms terms it nested = ROk m -> W true 0 m.
    Proof. intro H. eapply greedy_loop_bal in H; [exact H|constructor]. Qed.

    (* ---------------------------------------------------------- Sequence *)
    Definition ev (e : N) : Z := match meta_val g e with Some v => v | None => tv e end.
    Definition ov (e : N) : Z := match meta_val g e with Some v => v | None => 0%Z end.
    Definition ez (e : N) : bool := match meta_val g e with Some _ => true | None => tz e end.
    Definition eok (e : N) : bool :=
      match meta_val g e with Some _ => true | None => (tv e =? 0)%Z || required g e end.
    (** everything the state holds / what will be the Sequence's own insert list *)
    Definition stot (st : sstate) : Z := (inssum (s_ins st) + ksum (s_buf st) + chsum (s_ch st))%Z.
    Definition sown (st : sstate) : Z := (inssum (s_ins st) + ksum (s_buf st))%Z.

    Definition StepOK (si : N) (st : sstate) (dv d_o : Z) (dz : bool) (r : step_r) : Prop :=
      match r with
      | Cont st' => forallb clean (s_ch st') = true ->
          forallb clean (s_ch st) = true /\ stot st' = (stot st + dv)%Z /\ (dz = true -> sown st' = (sown st + d_o)%Z)
      | Ret m => clean m = true -> m = empty_at si
      end.

    Lemma seq_body_bal fl d len si terms st e r :
      eok e = true -> meta_val g e = None ->
      seq_body g toks rec fl d len si terms st e = ROk r -> StepOK si st (tv e) 0 (tz e) r.
    Proof.
      unfold seq_body, eok. intros Hok Hmv H. rewrite Hmv in Hok.
      assert (Hskip : opt_of g e = ROk true -> StepOK si st (tv e) 0 (tz e) (Cont st)).
      { intros Ho C. rewrite (required_not_opt _ Ho), orb_false_r in Hok. apply Z.eqb_eq in Hok.
        rewrite Hok. split; [exact C|]. split; [lia|intros _; lia]. }
      inv_bind H. rename a into idx'.
      destruct (s_max st <=? idx').
      - inv_bind H. destruct a; [inversion H; subst; apply Hskip; exact Ha0|].
        destruct (pmode_eqb (sq_mode d) Strict || (s_matched st =? si)); inversion H; subst; cbn [StepOK].
        + reflexivity.
        + rewrite clean_unparsable_gen. discriminate.
      - inv_bind H. inv_bind H. rename a0 into em.
        pose proof (Hrec _ _ _ _ _ Ha1) as Hem.
        destruct (negb (has_match em)) eqn:Ehm.
        + inv_bind H. destruct a0; [inversion H; subst; apply Hskip; exact Ha2|].
          destruct (pmode_eqb (sq_mode d) Strict); [inversion H; subst; cbn; reflexivity|].
          destruct (pmode_eqb (sq_mode d) GreedyOnceStarted && (s_matched st =? si)); [inversion H; subst; cbn; reflexivity|].
          destruct (s_matched st =? si); [inversion H; subst; cbn [StepOK]; rewrite clean_unparsable; discriminate|].
          inv_bind H. inversion H; subst. cbn [StepOK]. rewrite clean_unnamed, clean_app_unparsable. discriminate.
        + apply negb_false_iff in Ehm. inv_bind H. rename a0 into newmax.
          destruct (is_some (mr_matched em)) eqn:En; inversion H; subst; cbn [StepOK s_ch s_ins s_buf]; intro C;
            rewrite forallb_app in C; apply andb_true_iff in C as [C1 C2].
          * cbn [forallb] in C2. rewrite andb_true_r in C2. destruct (Hem C2) as [Hv _].
            pose proof (V_has _ _ Hv Ehm) as Es.
            split; [exact C1|]. unfold stot, sown. cbn [s_ch s_ins s_buf].
            rewrite inssum_app, inssum_flush, chsum_app, chsum_one. cbn [MetaBal.ksum fold_right]. split; [lia|intros _; lia].
          * assert (Ce : clean em = true).
            { destruct em as [s0 e0 m0 i0 c0]. cbn [mr_matched] in En. destruct m0; [discriminate|]. exact C2. }
            destruct (Hem Ce) as [Hv Hz]. pose proof (V_has _ _ Hv Ehm) as Es. rewrite isum_eq in Es.
            split; [exact C1|]. unfold stot, sown. cbn [s_ch s_ins s_buf].
            rewrite !inssum_app, inssum_flush, chsum_app. cbn [MetaBal.ksum fold_right]. split; [lia|].
            intro Hze. destruct (Hz Hze) as [Hn|Hn]; [unfold named in Hn; congruence|lia].
    Qed.

    Lemma seq_elem_bal fl d len si terms st e r :
      eok e = true ->
      seq_elem g toks rec fl d len si terms st e = ROk r -> StepOK si st (ev e) (ov e) (ez e) r.
    Proof.
      intros Hok H. rewrite seq_elem_unfold in H. inv_bind H. pose proof (info_get _ _ Ha) as Eg.
      assert (Hmv : meta_val g e = match n_node a with
                                   | GMeta k => Some (ival g k)
                                   | GCond k en => Some (if en then ival g k else 0%Z)
                                   | _ => None
                                   end) by (unfold meta_val; rewrite Eg; reflexivity).
      unfold ev, ov, ez.
      destruct (n_node a); rewrite Hmv; try (eapply seq_body_bal; eassumption).
      - inversion H; subst. cbn [StepOK s_ch]. intro C. split; [exact C|].
        unfold stot, sown. cbn [s_ch s_ins s_buf]. rewrite ksum_app, ksum_one. split; [lia|intros _; lia].
      - inversion H; subst. cbn [StepOK s_ch]. intro C. split; [exact C|].
        unfold stot, sown. cbn [s_ch s_ins s_buf]. destruct enabled; [rewrite ksum_app, ksum_one|]; split; try lia; intros _; lia.
    Qed.

    Lemma all_sum_cons e es : all_sum g t (e :: es) = (ev e + all_sum g t es)%Z.
    Proof. reflexivity. Qed.
    Lemma own_sum_cons e es : own_sum g (e :: es) = (ov e + own_sum g es)%Z.
    Proof. reflexivity. Qed.

    Lemma seq_loop_bal fl d len si terms es : forall st r,
      elems_ok g t es = true ->
      seq_loop g toks rec fl d len si terms st es = ROk r ->
      StepOK si st (all_sum g t es) (own_sum g es) (elems_z g t es) r.
    Proof.
      induction es as [|e es IH]; intros st r Hok H; cbn [seq_loop] in H.
      - inversion H; subst. cbn [StepOK]. intro C. split; [exact C|]. cbn. split; [lia|intros _; lia].
      - unfold elems_ok in Hok. cbn [forallb] in Hok. apply andb_true_iff in Hok as [Hok1 Hok2].
        inv_bind H. pose proof (seq_elem_bal _ _ _ _ _ _ _ _ Hok1 Ha) as Hs.
        destruct a as [st'|m]; [|inversion H; subst; exact Hs].
        pose proof (IH _ _ Hok2 H) as Hr. destruct r as [st''|m]; [|exact Hr].
        cbn [StepOK] in *. intro C. destruct (Hr C) as (C' & T' & O'). destruct (Hs C') as (C0' & T0 & O0).
        split; [exact C0'|]. rewrite all_sum_cons, own_sum_cons. split; [lia|].
        intro Hz. unfold elems_z in Hz. cbn [forallb] in Hz. apply andb_true_iff in Hz as [Hz1 Hz2].
        specialize (O' Hz2). specialize (O0 Hz1). lia.
    Qed.

    Lemma match_sequence_bal fl d len idx terms m :
      elems_ok g t (sq_elems d) = true ->
      match_sequence g toks rec fl d len idx terms = ROk m -> clean m = true ->
      mr_matched m = None /\
      (m = empty_at idx \/
       (isum m = all_sum g t (sq_elems d) /\
        (elems_z g t (sq_elems d) = true -> inssum (mr_ins m) = own_sum g (sq_elems d)))).
    Proof.
      unfold match_sequence. intros Hok H C.
      inv_bind H. rename a into max0. inv_bind H.
      pose proof (seq_loop_bal _ _ _ _ _ _ _ _ Hok Ha0) as Hs.
      destruct a as [st|m'].
      - cbn [StepOK s_ch] in Hs.
        assert (Hfin : forall e', clean (MR idx e' None (s_ins st ++ map (fun k => (s_matched st, k)) (s_buf st)) (s_ch st)) = true ->
                  isum (MR idx e' None (s_ins st ++ map (fun k => (s_matched st, k)) (s_buf st)) (s_ch st)) = all_sum g t (sq_elems d) /\
                  (elems_z g t (sq_elems d) = true ->
                   inssum (s_ins st ++ map (fun k => (s_matched st, k)) (s_buf st)) = own_sum g (sq_elems d))).
        { intros e' C'. rewrite clean_unnamed in C'. destruct (Hs C') as (_ & T & O).
          unfold stot, sown in T, O. cbn [s_ins s_buf s_ch] in T, O. cbn [MetaBal.ksum MetaBal.inssum MetaBal.chsum fold_right map] in T, O.
          rewrite isum_MR, inssum_app, inssum_at. split; [lia|]. intro Hz. specialize (O Hz). lia. }
        destruct (negb (pmode_eqb (sq_mode d) Strict) && (s_matched st <? s_max st)).
        + inv_bind H. inv_bind H. destruct (a <? a0).
          * inversion H; subst. rewrite clean_unnamed, clean_app_unparsable in C. discriminate.
          * inversion H; subst. split; [reflexivity|right; apply Hfin; exact C].
        + inversion H; subst. split; [reflexivity|right; apply Hfin; exact C].
      - inversion H; subst. cbn [StepOK] in Hs. rewrite (Hs C). split; [reflexivity|left; reflexivity].
    Qed.

    (* ---------------------------------------------------------- Bracketed *)
    Lemma elems_zero_facts es : elems_zero g t es = true ->
      elems_ok g t es = true /\ elems_z g t es = true /\ all_sum g t es = own_sum g es.
    Proof.
      induction es as [|e es IH]; intro H; [repeat split; reflexivity|].
      unfold elems_zero in H. cbn [forallb] in H. apply andb_true_iff in H as [H1 H2].
      destruct (IH H2) as (I1 & I2 & I3).
      unfold elems_ok, elems_z. cbn [forallb]. fold (elems_ok g t es) (elems_z g t es).
      rewrite I1, I2, all_sum_cons, own_sum_cons, I3. unfold ev, ov.
      destruct (meta_val g e); [repeat split; reflexivity|].
      apply andb_true_iff in H1 as [H1 H1']. rewrite H1, H1'. apply Z.eqb_eq in H1. rewrite H1. repeat split; reflexivity.
    Qed.

    Lemma match_bracketed_bal fl self found bs be pers gaps d len idx terms m :
      otv t bs = 0%Z -> otv t be = 0%Z -> elems_zero g t (sq_elems d) = true ->
      match_bracketed g toks rec fl self found bs be pers gaps d len idx terms = ROk m -> W true 0 m.
    Proof.
      unfold match_bracketed. intros Hbs Hbe Hez H.
      destruct (elems_zero_facts _ Hez) as (Eok & Ezz & Esum).
      destruct (negb found); [discriminate|].
      destruct bs as [sb|]; [|discriminate]. destruct be as [eb|]; [|discriminate]. cbn [otv] in Hbs, Hbe.
      inv_bind H. rename a into sm.
      destruct (negb (has_match sm)); [inversion H; subst; apply W_empty|].
      inv_bind H. rename a into bm.
      apply resolve_bracket_bal in Ha0.
      2:{ intros y [<-|[<-|[]]]; assumption. }
      2:{ intro C. destruct (Hrec _ _ _ _ _ Ha C) as [Hv _]. rewrite Hbs in Hv. apply V0. exact Hv. }
      destruct Ha0 as [B1 B2].
      inv_bind H. inv_bind H. inv_bind H. inv_bind H. inv_bind H. rename a3 into cm.
      destruct (negb (mr_end cm =? a1) && pmode_eqb (sq_mode d) Strict); [inversion H; subst; apply W_empty|].
      destruct (negb gaps && (mr_end cm =? mr_end bm - 1)); [discriminate|].
      inversion H; subst. clear H. intro C. rewrite clean_MR in C. apply andb_true_iff in C as [_ C].
      destruct (is_some (mr_matched cm)) eqn:En.
      - rewrite forallb_app in C. apply andb_true_iff in C as [_ C]. cbn [forallb] in C. rewrite andb_true_r in C.
        destruct (match_sequence_bal _ _ _ _ _ _ Eok Ha4 C) as [Hn _]. rewrite Hn in En. discriminate.
      - rewrite forallb_app in C. apply andb_true_iff in C as [C1 C2].
        assert (Cc : clean cm = true).
        { destruct cm as [s0 e0 m0 i0 c0]. cbn [mr_matched] in En. destruct m0; [discriminate|]. exact C2. }
        destruct (match_sequence_bal _ _ _ _ _ _ Eok Ha4 Cc) as [_ Hs].
        assert (Hc : chsum (mr_ch cm) = 0%Z).
        { destruct Hs as [->|[Hs1 Hs2]]; [reflexivity|]. specialize (Hs2 Ezz). rewrite isum_eq in Hs1. lia. }
        split.
        + left. rewrite isum_MR, chsum_app, B1, (C0_chsum _ B2 C1), Hc. reflexivity.
        + intros _. right. exact B1.
    Qed.

    (* ---------------------------------------------------------- AnyNumberOf *)
    Lemma parse_mode_result_clean len cur mx mode r :
      parse_mode_result g toks len cur mx mode = ROk r -> clean r = true -> r = cur.
    Proof.
      unfold parse_mode_result. intros H C.
      destruct (pmode_eqb mode Strict); [inversion H; reflexivity|].
      destruct (mr_end cur =? mx); [inversion H; reflexivity|].
      inv_bind H. destruct a; [inversion H; reflexivity|].
      inv_bind H. inversion H; subst. clear H.
      destruct (clean_append g _ _ C) as [[_ E]|[[_ E]|(_ & Cu & _)]].
      - rewrite E, clean_unparsable in C. discriminate.
      - exact E.
      - rewrite clean_unparsable in Cu. discriminate.
    Qed.
    Lemma parse_mode_result_W z v len cur mx mode r :
      W z v cur -> parse_mode_result g toks len cur mx mode = ROk r -> W z v r.
    Proof. intros Hc H C. pose proof (parse_mode_result_clean _ _ _ _ _ H C) as E. subst r. exact (Hc C). Qed.

    Lemma append_empty_at i m : append (empty_at i) m = m.
    Proof. unfold append, mr_is_empty. rewrite has_match_empty_at. reflexivity. Qed.

    Lemma any_loop_bal z c k : forall d len idx mx terms nm cs mi wi matched r,
      (forall o, In o (an_elems d) -> tv o = c /\ (z = true -> tz o = true)) ->
      (c = 0%Z \/ at_most_once d = true) ->
      W z c matched -> (c <> 0%Z -> nm = 0 -> matched = empty_at idx) ->
      any_loop g toks rec k d len idx mx terms nm cs mi wi matched = ROk r -> W z c r.
    Proof.
      induction k as [|k IH]; intros d len idx mx terms nm cs mi wi matched r Hall Hc Hm Hz H;
        cbn [any_loop] in H; [discriminate|].
      destruct (((an_min d <=? nm) && (mx <=? mi)) || opt_le (an_max d) nm) eqn:Eexit;
        [eapply parse_mode_result_W; eassumption|].
      destruct (mx <=? mi); [inversion H; subst; apply W_empty|].
      inv_bind H. destruct a as [m mo].
      apply longest_match_of in Ha. pose proof (OfOpt_W _ _ _ _ _ Ha Hall) as Hwm.
      destruct (negb (has_match m)).
      - eapply parse_mode_result_W; [|exact H]. destruct (nm <? an_min d); [apply W_empty|exact Hm].
      - destruct mo as [o|]; [|discriminate].
        inv_bind H. destruct (bump a cs) as [cs' cnt].
        destruct (match cnt with Some c0 => opt_lt (an_max_per d) c0 | None => false end);
          [eapply parse_mode_result_W; [exact Hm|exact H]|].
        inv_bind H.
        eapply IH in H; [exact H|exact Hall|exact Hc| |intros _ E; lia].
        destruct Hc as [->|Hc]; [apply W0_append; assumption|].
        destruct (Z.eq_dec c 0) as [->|Hne]; [apply W0_append; assumption|].
        assert (nm = 0).
        { apply orb_false_iff in Eexit as [_ E]. unfold at_most_once in Hc. unfold opt_le in E.
          destruct (an_max d) as [mm|]; [|discriminate]. b2p. lia. }
        rewrite (Hz Hne H0), append_empty_at. exact Hwm.
    Qed.

    Lemma match_anynumberof_bal z c fl d len idx terms m :
      (forall o, In o (an_elems d) -> tv o = c /\ (z = true -> tz o = true)) ->
      (c = 0%Z \/ at_most_once d = true) ->
      match_anynumberof g toks rec fl d len idx terms = ROk m -> W z c m.
    Proof.
      unfold match_anynumberof. intros Hall Hc H.
      inv_bind H. destruct a; [inversion H; subst; apply W_empty|].
      inv_bind H. inv_bind H. inv_bind H.
      eapply any_loop_bal in H; [exact H|exact Hall|exact Hc|apply W_empty|reflexivity].
    Qed.

    (* ---------------------------------------------------------- Delimited *)
    Lemma delim_finish_bal z tr mn idx sk dm dl wm r :
      W z 0 wm -> (forall x, dm = Some x -> W z 0 x) ->
      delim_finish tr mn idx sk dm dl wm = ROk r -> W z 0 r.
    Proof.
      unfold delim_finish. intros Hw Hd H.
      destruct dm as [x|].
      - destruct (tr && negb sk).
        + destruct (dl + 1 <? mn); inversion H; subst; [apply W_empty|apply W0_append; [exact Hw|apply Hd; reflexivity]].
        + destruct (dl <? mn); inversion H; subst; [apply W_empty|exact Hw].
      - destruct (dl <? mn); inversion H; subst; [apply W_empty|exact Hw].
    Qed.

    Lemma delim_loop_bal z k : forall d delim tr mn len idx terms tms dl sk w wm dm r,
      (forall o, In o (delim :: an_elems d) -> tv o = 0%Z /\ (z = true -> tz o = true)) ->
      W z 0 wm -> (forall x, dm = Some x -> W z 0 x) ->
      delim_loop g toks rec k d delim tr mn len idx terms tms dl sk w wm dm = ROk r -> W z 0 r.
    Proof.
      induction k as [|k IH]; intros d delim tr mn len idx terms tms dl sk w wm dm r Hall Hw Hd H;
        cbn [delim_loop] in H; [discriminate|].
      assert (Hfin : forall r', delim_finish tr mn idx sk dm dl wm = ROk r' -> W z 0 r')
        by (intros r' Hf; eapply delim_finish_bal; eassumption).
      inv_bind H. destruct (len <=? a); [apply Hfin; exact H|].
      inv_bind H. destruct a0 as [tm tmo]. destruct (has_match tm); [apply Hfin; exact H|].
      inv_bind H. destruct a0 as [m mo].
      apply longest_match_of in Ha1.
      assert (Hwm : W z 0 m).
      { eapply OfOpt_W; [exact Ha1|]. intros o Ho. apply Hall.
        destruct sk; [destruct Ho as [<-|[]]; now left|right; exact Ho]. }
      destruct (negb (has_match m)); [apply Hfin; exact H|].
      destruct sk.
      - eapply IH in H; [exact H|exact Hall|exact Hw|]. intros x Hx. inversion Hx; subst. exact Hwm.
      - destruct dm as [x|].
        + eapply IH in H; [exact H|exact Hall| |exact Hd].
          apply W0_append; [apply W0_append; [exact Hw|apply Hd; reflexivity]|exact Hwm].
        + eapply IH in H; [exact H|exact Hall| |exact Hd]. apply W0_append; assumption.
    Qed.

    Lemma match_delimited_bal z fl d delim tr mn len idx terms m :
      (forall o, In o (delim :: an_elems d) -> tv o = 0%Z /\ (z = true -> tz o = true)) ->
      match_delimited g toks rec fl d delim tr mn len idx terms = ROk m -> W z 0 m.
    Proof.
      unfold match_delimited. intros Hall H.
      eapply delim_loop_bal in H; [exact H|exact Hall|apply W_empty|]. intros x Hx. discriminate.
    Qed.

    (* ---------------------------------------------------------- one node *)
    Lemma risky_in n i k gr :
      get (g_nodes g) n = Some i -> n_node i = GNodeM k gr -> tv gr <> 0%Z -> memN k (risky_kinds g t) = true.
    Proof.
      intros E En Hne. unfold memN, risky_kinds. apply existsb_exists. exists k. split; [|apply N.eqb_refl].
      apply in_flat_map. exists (key n, i). split; [apply PositiveMap.elements_correct; exact E|].
      cbn [snd]. rewrite En. destruct (tv gr =? 0)%Z eqn:Ez; [apply Z.eqb_eq in Ez; contradiction|now left].
    Qed.

    Lemma W_one_token i k : W true 0 (one_token i k).
    Proof. intros _. split; [left; reflexivity|intros _; left; reflexivity]. Qed.
    Lemma W_from_span a b : W true 0 (from_span a b).
    Proof. intros _. split; [left; reflexivity|intros _; right; reflexivity]. Qed.

    Lemma match_node_body_bal fl n idx len terms m :
      match_node_body g toks rx rec fl n idx len terms = ROk m -> Inv n m.
    Proof.
      unfold match_node_body. intro H. inv_bind H. pose proof (info_get _ _ Ha) as Eg.
      destruct (tab_node _ _ Eg) as [Ev Ez]. destruct (Hnodes _ _ Eg) as [_ Hside].
      unfold Inv. rewrite Ev, Ez. unfold node_attr, node_side_b in *.
      destruct (n_node a) eqn:En; cbn [a_v a_z].
      - (* GRef *)
        destruct target as [r|]; [|discriminate]. cbn [a_v a_z].
        inv_bind H. destruct a0; [inversion H; subst; apply W_empty|]. eapply Hrec; exact H.
      - (* GSeq *)
        intro C. destruct (match_sequence_bal _ _ _ _ _ _ Hside H C) as [_ [->|[H1 H2]]]; [apply W_empty; exact C|].
        split; [left; exact H1|]. intro Hz. apply andb_true_iff in Hz as [Hz1 Hz2]. apply Z.eqb_eq in Hz1.
        right. rewrite (H2 Hz2). exact Hz1.
      - (* GBracketed *)
        apply andb_true_iff in Hside as [Hs Hs3]. apply andb_true_iff in Hs as [Hs1 Hs2].
        apply Z.eqb_eq in Hs1, Hs2. eapply match_bracketed_bal; [exact Hs1|exact Hs2|exact Hs3|exact H].
      - (* GAny *)
        apply andb_true_iff in Hside as [Hs1 Hs2].
        eapply match_anynumberof_bal; [| |exact H].
        + intros o Ho. split; [apply Z.eqb_eq; exact (forallb_In _ _ _ Hs1 Ho)|]. intro Hz. exact (forallb_In _ _ _ Hz Ho).
        + apply orb_true_iff in Hs2 as [Hs2|Hs2]; [left; apply Z.eqb_eq; exact Hs2|right; exact Hs2].
      - (* GDelim *)
        apply andb_true_iff in Hside as [Hs1 Hs2]. apply Z.eqb_eq in Hs2.
        eapply match_delimited_bal; [|exact H].
        intros o [<-|Ho].
        + split; [exact Hs2|]. intro Hz. apply andb_true_iff in Hz as [_ Hz]. exact Hz.
        + split; [apply Z.eqb_eq; exact (forallb_In _ _ _ Hs1 Ho)|]. intro Hz. apply andb_true_iff in Hz as [Hz _].
          exact (forallb_In _ _ _ Hz Ho).
      - (* GNodeM *)
        destruct (len <=? idx); [inversion H; subst; apply W_empty|].
        inv_bind H. destruct (p_kind a0 =? kind) eqn:Ek.
        + inversion H; subst. apply N.eqb_eq in Ek. subst kind.
          unfold tok in Ha0. destruct (idx <? len); [|discriminate].
          destruct (get toks idx) as [tk|] eqn:Et; [|discriminate]. inversion Ha0; subst a0.
          match type of En with _ = GNodeM _ ?gr =>
            destruct (Z.eq_dec (tv gr) 0) as [E0|Hne]; [rewrite E0; apply W_from_span|];
            pose proof (Htok _ _ Et) as Hk; rewrite (risky_in _ _ _ _ Eg En Hne) in Hk; discriminate Hk
          end.
        + inv_bind H. inversion H; subst. eapply W_wrap. eapply Hrec; exact Ha1.
      - inv_bind H. destruct (p_code a0 && (p_upper a0 =? upper)); inversion H; subst; [apply W_one_token|apply W_empty].
      - inv_bind H. destruct (p_code a0 && memN (p_upper a0) uppers); inversion H; subst; [apply W_one_token|apply W_empty].
      - inv_bind H. destruct (p_kind a0 =? template); inversion H; subst; [apply W_one_token|apply W_empty].
      - inv_bind H. destruct (existsb _ rx); inversion H; subst; [apply W_one_token|apply W_empty].
      - discriminate.
      - (* GCond *)
        destruct enabled; inversion H; subst; [|apply W_empty].
        intros _. split.
        + left. rewrite isum_MR. unfold MetaBal.inssum, MetaBal.chsum. cbn. lia.
        + intro Hz. apply Z.eqb_eq in Hz. right. unfold MetaBal.inssum. cbn. lia.
      - (* GAnything *)
        match type of H with (if ?c then _ else _) = _ => destruct c end; [inversion H; subst; apply W_from_span|].
        eapply greedy_match_bal; exact H.
      - inversion H; subst. apply W_empty.
      - inv_bind H. destruct a0 as [j|]; [|inversion H; subst; apply W_empty].
        destruct (idx <? j); inversion H; subst; [apply W_from_span|apply W_empty].
      - inv_bind H. destruct (p_kind a0 =? k_bracketed g); inversion H; subst; [apply W_from_span|apply W_empty].
    Qed.
  End WithRec.

  Theorem match_node_bal fuel : forall n idx len terms m,
    match_node g toks rx fuel n idx len terms = ROk m -> Inv n m.
  Proof.
    induction fuel as [|f IH]; intros n idx len terms m H; cbn [match_node] in H; [discriminate|].
    eapply match_node_body_bal; [|exact H]. exact IH.
  Qed.
End Bal.

(* ------------------------------------------------------------------ the statements *)
Lemma attr_eqb_eq a b : attr_eqb a b = true -> a = b.
Proof.
  unfold attr_eqb. intro H. apply andb_true_iff in H as [H1 H2]. apply Z.eqb_eq in H1. apply Bool.eqb_prop in H2.
  destruct a, b. cbn in *. subst. reflexivity.
Qed.

(** no token already carries the kind of a named node with a non-zero net value *)
Definition toks_plain (g : grammar) (t : PositiveMap.t attr) (toks : PositiveMap.t ptok) : Prop :=
  forall i tk, get toks i = Some tk -> memN (p_kind tk) (risky_kinds g t) = false.

Section Statements.
  Variable g : grammar.
  Variable t : PositiveMap.t attr.
  Hypothesis Hc : consistent_b g t = true.

  Lemma consistent_kinds : kinds_bal_b g = true.
  Proof.
    unfold consistent_b in Hc. apply andb_true_iff in Hc as [H _]. apply andb_true_iff in H as [H _].
    apply andb_true_iff in H as [H _]. exact H.
  Qed.
  Lemma consistent_brackets : brackets_bal_b g t = true.
  Proof.
    unfold consistent_b in Hc. apply andb_true_iff in Hc as [H _]. apply andb_true_iff in H as [_ H]. exact H.
  Qed.
  Lemma consistent_root : otv t (g_root g) = 0%Z.
  Proof. unfold consistent_b in Hc. apply andb_true_iff in Hc as [_ H]. apply Z.eqb_eq in H. exact H. Qed.
  Lemma consistent_nodes : forall n i, get (g_nodes g) n = Some i ->
    get t n = Some (node_attr g t i) /\ node_side_b g t i = true.
  Proof.
    intros n i E. unfold consistent_b in Hc. apply andb_true_iff in Hc as [H _]. apply andb_true_iff in H as [H _].
    apply andb_true_iff in H as [_ H]. rewrite forallb_forall in H.
    specialize (H (key n, i) (PositiveMap.elements_correct _ _ E)). unfold node_consistent_b in H. cbn [fst snd] in H.
    unfold get. destruct (PositiveMap.find (key n) t) as [a|]; [|discriminate].
    apply andb_true_iff in H as [H1 H2]. apply attr_eqb_eq in H1. subst a. auto.
  Qed.

  (** every match of every node, for every token stream, regex oracle, fuel and context: without
      unparsable section it carries the net value the table gives the node - or matched nothing *)
  Theorem match_node_net_value toks rx fuel n idx len terms m :
    toks_plain g t toks ->
    match_node g toks rx fuel n idx len terms = ROk m -> clean_b g m = true ->
    (isum g m = tv t n \/ (has_match m = false /\ isum g m = 0%Z))
    /\ (tz t n = true -> is_some (mr_matched m) = true \/ inssum g (mr_ins m) = 0%Z).
  Proof.
    intros Ht H C.
    exact (match_node_bal g t toks rx consistent_kinds consistent_nodes consistent_brackets Ht fuel _ _ _ _ _ H C).
  Qed.

  (** the root: Indent and Dedent balance *)
  Theorem parse_root_balanced_tab toks rx fuel s e m :
    toks_plain g t toks ->
    parse_root g toks rx fuel s e = ROk m -> clean_b g m = true -> isum g m = 0%Z.
  Proof.
    intros Ht H C. unfold parse_root in H. pose proof consistent_root as Hr.
    destruct (g_root g) as [r|]; [|discriminate]. cbn [otv] in Hr.
    destruct (match_node_net_value _ _ _ _ _ _ _ _ Ht H C) as [[Hv|[_ Hv]] _]; [rewrite Hv; exact Hr|exact Hv].
  Qed.
End Statements.

(** on a token list *)
Definition plain_tokens_b (g : grammar) (l : list ptok) : bool :=
  forallb (fun tk => negb (memN (p_kind tk) (meta_risky_kinds g))) l.

Lemma plain_tokens_plain g l : plain_tokens_b g l = true -> toks_plain g (meta_tab g) (toks_of_list l).
Proof.
  intros H i tk E. rewrite get_toks_of_list in E. apply nth_error_In in E.
  unfold plain_tokens_b in H. rewrite forallb_forall in H. specialize (H tk E). apply negb_true_iff in H. exact H.
Qed.

Theorem parse_root_meta_balanced g ptoks rx fuel s e m :
  meta_balanced_b g = true -> plain_tokens_b g ptoks = true ->
  parse_root g (toks_of_list ptoks) rx fuel s e = ROk m -> clean_b g m = true -> isum g m = 0%Z.
Proof.
  intros Hb Hp H C. eapply parse_root_balanced_tab; [exact Hb|apply plain_tokens_plain; exact Hp|exact H|exact C].
Qed.
