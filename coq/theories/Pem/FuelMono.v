(** Fuel monotonicity of the parser-engine interpreter: an answer other than [RFuel] does not depend
    on the fuel - more fuel gives the same answer.  (Step 1 of a termination proof; it makes the
    "for every fuel" of the Pem theorems coherent: [ROk]/[RErr]/[RPanic] answers are the engine's.) *)
From Coq Require Import FMapPositive Lia.
From Sq Require Import Base.Bytes Apply.Model Pem.Model.

Definition lef {A} (x y : res A) : Prop := x = RFuel \/ x = y.

Lemma lef_refl {A} (x : res A) : lef x x.
Proof. right. reflexivity. Qed.
Lemma lef_fuel {A} (y : res A) : lef RFuel y.
Proof. left. reflexivity. Qed.
Lemma lef_bind {A C} (x x' : res A) (f f' : A -> res C) :
  lef x x' -> (forall a, lef (f a) (f' a)) -> lef (bind x f) (bind x' f').
Proof.
  intros [-> | ->] Hf; [left; reflexivity|].
  destruct x' as [a| |p|]; cbn; [apply Hf|right; reflexivity|right; reflexivity|left; reflexivity].
Qed.

Ltac mono1 :=
  match goal with
  | |- lef ?x ?x => apply lef_refl
  | |- lef RFuel _ => apply lef_fuel
  | H : _ |- lef _ _ => solve [apply H; auto]
  | |- lef (bind _ _) (bind _ _) => apply lef_bind; [|intros]
  | |- lef (if ?c then _ else _) (if ?c then _ else _) => destruct c
  | |- lef (match ?x with _ => _ end) (match ?x with _ => _ end) => destruct x
  | |- lef (let '(_, _) := ?x in _) (let '(_, _) := ?x in _) => destruct x
  end.
Ltac mono := repeat mono1.

Section Mono.
  Variable g : grammar.
  Variable toks : PositiveMap.t ptok.
  Variable rx : list (N * N).
  Variables rec rec' : N -> N -> N -> list N -> res mr.
  Hypothesis Hrec : forall n i l t, lef (rec n i l t) (rec' n i l t).

  Lemma any_matches_mono ts i len terms : lef (any_matches rec ts i len terms) (any_matches rec' ts i len terms).
  Proof. induction ts as [|t ts IH]; cbn [any_matches]; mono. Qed.
  Lemma first_term_matches_mono ts i len terms :
    lef (first_term_matches rec ts i len terms) (first_term_matches rec' ts i len terms).
  Proof. induction ts as [|t ts IH]; cbn [first_term_matches]; mono. Qed.
  Lemma first_matching_mono cs i len terms : lef (first_matching rec cs i len terms) (first_matching rec' cs i len terms).
  Proof. induction cs as [|c cs IH]; cbn [first_matching]; mono. Qed.

  Lemma longest_loop_mono opts : forall idx len terms best bm,
    lef (longest_loop g toks rec opts idx len terms best bm) (longest_loop g toks rec' opts idx len terms best bm).
  Proof. induction opts as [|o opts IH]; intros; cbn [longest_loop]; pose proof any_matches_mono; mono. Qed.
  Lemma longest_match_mono len ms idx terms :
    lef (longest_match g toks rec len ms idx terms) (longest_match g toks rec' len ms idx terms).
  Proof. unfold longest_match. pose proof longest_loop_mono. mono. Qed.

  Lemma next_match_scan_mono n : forall i len ms terms,
    lef (next_match_scan g toks rec n i len ms terms) (next_match_scan g toks rec' n i len ms terms).
  Proof. induction n as [|n IH]; intros; cbn [next_match_scan]; pose proof first_matching_mono; mono. Qed.
  Lemma next_match_mono len idx ms terms :
    lef (next_match g toks rec len idx ms terms) (next_match g toks rec' len idx ms terms).
  Proof. unfold next_match. pose proof next_match_scan_mono. mono. Qed.

  Lemma rb_loop_mono fl : forall fl' len opening ti starts ends pers terms nested mi ch, (fl <= fl')%nat ->
    lef (rb_loop g toks rec fl len opening ti starts ends pers terms nested mi ch)
        (rb_loop g toks rec' fl' len opening ti starts ends pers terms nested mi ch).
  Proof.
    induction fl as [|fl IH]; intros fl' len opening ti starts ends pers terms nested mi ch Hle; [apply lef_fuel|].
    destruct fl' as [|fl']; [lia|]. cbn [rb_loop]. pose proof next_match_mono.
    assert (IH' : forall len opening ti starts ends pers terms nested mi ch,
               lef (rb_loop g toks rec fl len opening ti starts ends pers terms nested mi ch)
                   (rb_loop g toks rec' fl' len opening ti starts ends pers terms nested mi ch))
      by (intros; apply IH; lia).
    mono.
  Qed.
  Lemma resolve_bracket_mono fl fl' len opening opener starts ends pers terms nested : (fl <= fl')%nat ->
    lef (resolve_bracket g toks rec fl len opening opener starts ends pers terms nested)
        (resolve_bracket g toks rec' fl' len opening opener starts ends pers terms nested).
  Proof. intro Hle. unfold resolve_bracket. pose proof (fun a b c d e f h i j k => rb_loop_mono fl fl' a b c d e f h i j k Hle). mono. Qed.

  Lemma neb_loop_mono k : forall k' fl fl' len idx ms starts ends pers terms mi ch, (k <= k')%nat -> (fl <= fl')%nat ->
    lef (neb_loop g toks rec k fl len idx ms starts ends pers terms mi ch)
        (neb_loop g toks rec' k' fl' len idx ms starts ends pers terms mi ch).
  Proof.
    induction k as [|k IH]; intros k' fl fl' len idx ms starts ends pers terms mi ch Hk Hfl; [apply lef_fuel|].
    destruct k' as [|k']; [lia|]. cbn [neb_loop]. pose proof next_match_mono.
    pose proof (fun a b c d e f h i => resolve_bracket_mono fl fl' a b c d e f h i Hfl).
    assert (IH' : forall len idx ms starts ends pers terms mi ch,
               lef (neb_loop g toks rec k fl len idx ms starts ends pers terms mi ch)
                   (neb_loop g toks rec' k' fl' len idx ms starts ends pers terms mi ch))
      by (intros; apply IH; lia).
    mono.
  Qed.
  Lemma next_ex_bracket_match_mono fl fl' len idx ms terms : (fl <= fl')%nat ->
    lef (next_ex_bracket_match g toks rec fl len idx ms terms) (next_ex_bracket_match g toks rec' fl' len idx ms terms).
  Proof.
    intro Hle. unfold next_ex_bracket_match.
    pose proof (fun a b c d e f h i j => neb_loop_mono fl fl' fl fl' a b c d e f h i j Hle Hle). mono.
  Qed.

  Lemma greedy_loop_mono k : forall k' fl fl' len idx ms terms it nested w ch, (k <= k')%nat -> (fl <= fl')%nat ->
    lef (greedy_loop g toks rec k fl len idx ms terms it nested w ch)
        (greedy_loop g toks rec' k' fl' len idx ms terms it nested w ch).
  Proof.
    induction k as [|k IH]; intros k' fl fl' len idx ms terms it nested w ch Hk Hfl; [apply lef_fuel|].
    destruct k' as [|k']; [lia|]. cbn [greedy_loop].
    pose proof (fun a b c d => next_ex_bracket_match_mono fl fl' a b c d Hfl).
    assert (IH' : forall len idx ms terms it nested w ch,
               lef (greedy_loop g toks rec k fl len idx ms terms it nested w ch)
                   (greedy_loop g toks rec' k' fl' len idx ms terms it nested w ch))
      by (intros; apply IH; lia).
    mono.
  Qed.
  Lemma greedy_match_mono fl fl' len idx ms terms it nested : (fl <= fl')%nat ->
    lef (greedy_match g toks rec fl len idx ms terms it nested) (greedy_match g toks rec' fl' len idx ms terms it nested).
  Proof. intro Hle. unfold greedy_match. apply greedy_loop_mono; exact Hle. Qed.

  Lemma trim_to_terminator_mono fl fl' len idx ts terms : (fl <= fl')%nat ->
    lef (trim_to_terminator g toks rec fl len idx ts terms) (trim_to_terminator g toks rec' fl' len idx ts terms).
  Proof.
    intro Hle. unfold trim_to_terminator. pose proof first_term_matches_mono.
    pose proof (fun a b c d e f => greedy_match_mono fl fl' a b c d e f Hle). mono.
  Qed.

  Lemma seq_elem_mono fl fl' d len si terms st e : (fl <= fl')%nat ->
    lef (seq_elem g toks rec fl d len si terms st e) (seq_elem g toks rec' fl' d len si terms st e).
  Proof.
    intro Hle. unfold seq_elem. pose proof (fun a b c d => trim_to_terminator_mono fl fl' a b c d Hle).
    apply lef_bind; [apply lef_refl|intros ie]. destruct (n_node ie); mono.
  Qed.
  Lemma seq_loop_mono fl fl' d len si terms es : (fl <= fl')%nat -> forall st,
    lef (seq_loop g toks rec fl d len si terms st es) (seq_loop g toks rec' fl' d len si terms st es).
  Proof.
    intro Hle. induction es as [|e es IH]; intros st; cbn [seq_loop]; [apply lef_refl|].
    pose proof (fun st e => seq_elem_mono fl fl' d len si terms st e Hle). mono.
  Qed.
  Lemma match_sequence_mono fl fl' d len idx terms : (fl <= fl')%nat ->
    lef (match_sequence g toks rec fl d len idx terms) (match_sequence g toks rec' fl' d len idx terms).
  Proof.
    intro Hle. unfold match_sequence. pose proof (fun a b c d => trim_to_terminator_mono fl fl' a b c d Hle).
    pose proof (fun d len si terms es st => seq_loop_mono fl fl' d len si terms es Hle st). mono.
  Qed.

  Lemma match_bracketed_mono fl fl' self found bs be pers gaps d len idx terms : (fl <= fl')%nat ->
    lef (match_bracketed g toks rec fl self found bs be pers gaps d len idx terms)
        (match_bracketed g toks rec' fl' self found bs be pers gaps d len idx terms).
  Proof.
    intro Hle. unfold match_bracketed.
    pose proof (fun a b c d e f h i => resolve_bracket_mono fl fl' a b c d e f h i Hle).
    pose proof (fun a b c d => match_sequence_mono fl fl' a b c d Hle). mono.
  Qed.

  Lemma any_loop_mono k : forall k' d len idx mx terms nm cs mi wi m, (k <= k')%nat ->
    lef (any_loop g toks rec k d len idx mx terms nm cs mi wi m) (any_loop g toks rec' k' d len idx mx terms nm cs mi wi m).
  Proof.
    induction k as [|k IH]; intros k' d len idx mx terms nm cs mi wi m Hk; [apply lef_fuel|].
    destruct k' as [|k']; [lia|]. cbn [any_loop]. pose proof longest_match_mono.
    assert (IH' : forall d len idx mx terms nm cs mi wi m,
               lef (any_loop g toks rec k d len idx mx terms nm cs mi wi m) (any_loop g toks rec' k' d len idx mx terms nm cs mi wi m))
      by (intros; apply IH; lia).
    mono.
  Qed.
  Lemma match_anynumberof_mono fl fl' d len idx terms : (fl <= fl')%nat ->
    lef (match_anynumberof g toks rec fl d len idx terms) (match_anynumberof g toks rec' fl' d len idx terms).
  Proof.
    intro Hle. unfold match_anynumberof. pose proof (fun a b c d => trim_to_terminator_mono fl fl' a b c d Hle).
    pose proof (fun a b c d e f h i j k => any_loop_mono fl fl' a b c d e f h i j k Hle). mono.
  Qed.

  Lemma delim_loop_mono k : forall k' d delim tr mn len idx terms tms dl sk w wm dm, (k <= k')%nat ->
    lef (delim_loop g toks rec k d delim tr mn len idx terms tms dl sk w wm dm)
        (delim_loop g toks rec' k' d delim tr mn len idx terms tms dl sk w wm dm).
  Proof.
    induction k as [|k IH]; intros k' d delim tr mn len idx terms tms dl sk w wm dm Hk; [apply lef_fuel|].
    destruct k' as [|k']; [lia|]. cbn [delim_loop]. pose proof longest_match_mono.
    assert (IH' : forall d delim tr mn len idx terms tms dl sk w wm dm,
               lef (delim_loop g toks rec k d delim tr mn len idx terms tms dl sk w wm dm)
                   (delim_loop g toks rec' k' d delim tr mn len idx terms tms dl sk w wm dm))
      by (intros; apply IH; lia).
    mono.
  Qed.
  Lemma match_delimited_mono fl fl' d delim tr mn len idx terms : (fl <= fl')%nat ->
    lef (match_delimited g toks rec fl d delim tr mn len idx terms) (match_delimited g toks rec' fl' d delim tr mn len idx terms).
  Proof. intro Hle. unfold match_delimited. apply delim_loop_mono. exact Hle. Qed.

  Lemma match_node_body_mono fl fl' n idx len terms : (fl <= fl')%nat ->
    lef (match_node_body g toks rx rec fl n idx len terms) (match_node_body g toks rx rec' fl' n idx len terms).
  Proof.
    intro Hle. unfold match_node_body.
    pose proof (fun a b c d => match_sequence_mono fl fl' a b c d Hle).
    pose proof (fun a b c d e f h i j k => match_bracketed_mono fl fl' a b c d e f h i j k Hle).
    pose proof (fun a b c d => match_anynumberof_mono fl fl' a b c d Hle).
    pose proof (fun a b c d e f h => match_delimited_mono fl fl' a b c d e f h Hle).
    pose proof (fun a b c d e f => greedy_match_mono fl fl' a b c d e f Hle).
    apply lef_bind; [apply lef_refl|intros i]. destruct (n_node i); mono.
    (* GRef with an exclude: the [is_ok_and] match on the recursive call *)
    match goal with |- lef (match rec ?a ?b ?c ?d with _ => _ end) _ =>
      destruct (Hrec a b c d) as [E|E]; rewrite E; [apply lef_fuel|]; destruct (rec' a b c d); apply lef_refl end.
  Qed.
End Mono.

Theorem match_node_mono g toks rx fuel : forall fuel' n idx len terms, (fuel <= fuel')%nat ->
  lef (match_node g toks rx fuel n idx len terms) (match_node g toks rx fuel' n idx len terms).
Proof.
  induction fuel as [|f IH]; intros fuel' n idx len terms Hle; [apply lef_fuel|].
  destruct fuel' as [|f']; [lia|]. cbn [match_node].
  apply match_node_body_mono; [|lia]. intros. apply IH. lia.
Qed.

(** an answer of the root parse other than "out of fuel" is the answer for every larger fuel *)
Theorem parse_root_fuel_mono g toks rx fuel fuel' s e r :
  (fuel <= fuel')%nat -> parse_root g toks rx fuel s e = r -> r <> RFuel -> parse_root g toks rx fuel' s e = r.
Proof.
  unfold parse_root. intros Hle H Hr. destruct (g_root g) as [root|]; [|exact H].
  destruct (match_node_mono g toks rx fuel fuel' root s e [] Hle) as [E|E]; congruence.
Qed.
