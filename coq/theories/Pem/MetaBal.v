(** Indent/dedent balance of the parser-engine interpreter, part 1: executable definitions.

    [MatchResult::apply] turns every entry of every [insert_segments] list of a match tree into one
    meta segment (Indent / Implicit / Dedent) of the parse tree.  Where do the entries come from?
      - a [Sequence] buffers its own [MetaSegment] / enabled [Conditional] elements and flushes them into
        its insert list - all of them when (and only when) it runs through all its elements; the insert
        lists of unnamed element matches are appended to its own list;
      - [resolve_bracket] inserts one Indent after the opening and one Dedent before the closing bracket;
      - a [Conditional] matched on its own (not as an element of a Sequence) answers with a one-entry
        insert list;
      - [Bracketed] *drops* the insert list of its content match;
      - everything else ([append], [wrap], the flattening of unnamed children) moves lists around.
    The grammars do not balance node by node: the Indent of a select clause is closed by a Dedent of the
    *statement* that contains the clause.  So the side condition is a little type system: a table gives
    every node [n] its net value [tv n] (the sum of [indent_val] over all inserts of any match of [n]
    without unparsable section that [has_match]) and a flag [tz n] (the top-level insert list of such
    a match sums to zero unless the match is a named node - what makes the drop in [Bracketed]
    harmless), and [consistent_b] checks the table node by node.  [meta_balanced_b] computes the
    table by re-evaluation until it is stable and checks it.  Conditionals are valued under the dumped
    indentation configuration ([GCond _ enabled]). *)
From Coq Require Import FMapPositive ZArith.
From Sq Require Import Base.Bytes Apply.Model Pem.Model.

Local Open Scope N_scope.

Record attr := mkAttr { a_v : Z; a_z : bool }.
Definition attr_eqb (a b : attr) : bool := (a_v a =? a_v b)%Z && Bool.eqb (a_z a) (a_z b).

Section Bal.
  Variable g : grammar.

  (** [SyntaxKind::indent_val]: Indent | Implicit => 1, Dedent => -1, _ => 0 *)
  Definition ival (k : N) : Z :=
    if k =? k_dedent g then (-1)%Z
    else if (k =? k_indent g) || (k =? k_implicit g) then 1%Z else 0%Z.

  Definition ksum (l : list N) : Z := fold_right (fun k a => (ival k + a)%Z) 0%Z l.
  (** one insert list *)
  Definition inssum (l : list (N * N)) : Z := ksum (map snd l).

  (** all insert lists of a match tree: the sum of [indent_val] over the metas [apply] creates *)
  Fixpoint isum (x : mr) : Z :=
    match x with
    | MR _ _ _ ins ch => (inssum ins + fold_right (fun c a => (isum c + a)%Z) 0%Z ch)%Z
    end.
  Definition chsum (ch : list mr) : Z := fold_right (fun c a => (isum c + a)%Z) 0%Z ch.

  (* ---------------------------------------------------------------- the table *)
  Variable t : PositiveMap.t attr.
  Definition tv (n : N) : Z := match get t n with Some a => a_v a | None => 0%Z end.
  Definition tz (n : N) : bool := match get t n with Some a => a_z a | None => false end.
  Definition otv (o : option N) : Z := match o with Some n => tv n | None => 0%Z end.

  (** a Sequence element the loop handles itself: what it adds to the Sequence's own insert list *)
  Definition meta_val (e : N) : option Z :=
    match get (g_nodes g) e with
    | Some i => match n_node i with
                | GMeta k => Some (ival k)
                | GCond k en => Some (if en then ival k else 0%Z)
                | _ => None
                end
    | None => None
    end.
  (** own metas of a Sequence / all its elements *)
  Definition own_sum (es : list N) : Z :=
    fold_right (fun e a => (match meta_val e with Some v => v | None => 0%Z end + a)%Z) 0%Z es.
  Definition all_sum (es : list N) : Z :=
    fold_right (fun e a => (match meta_val e with Some v => v | None => tv e end + a)%Z) 0%Z es.
  (** [is_optional()] of the element is [false] (dumped) *)
  Definition required (e : N) : bool :=
    match get (g_nodes g) e with
    | Some i => match n_opt i with Some false => true | _ => false end
    | None => false
    end.
  (** an element that can be skipped adds nothing *)
  Definition elems_ok (es : list N) : bool :=
    forallb (fun e => match meta_val e with Some _ => true | None => (tv e =? 0)%Z || required e end) es.
  Definition elems_z (es : list N) : bool :=
    forallb (fun e => match meta_val e with Some _ => true | None => tz e end) es.
  Definition elems_zero (es : list N) : bool :=
    forallb (fun e => match meta_val e with Some _ => true | None => (tv e =? 0)%Z && tz e end) es.

  (** [AnyNumberOf]: the common value of the options; a non-zero one needs [max_times <= 1] (OneOf) *)
  Definition any_val (d : any_d) : Z := match an_elems d with e :: _ => tv e | [] => 0%Z end.
  Definition at_most_once (d : any_d) : bool := match an_max d with Some m => m <=? 1 | None => false end.

  (** the attributes of a node from those of the nodes it calls *)
  Definition node_attr (i : ninfo) : attr :=
    match n_node i with
    | GRef (Some r) _ _ _ => mkAttr (tv r) (tz r)
    | GSeq d => mkAttr (all_sum (sq_elems d)) ((own_sum (sq_elems d) =? 0)%Z && elems_z (sq_elems d))
    | GAny d => mkAttr (any_val d) (forallb tz (an_elems d))
    | GDelim d delim _ _ => mkAttr 0 (forallb tz (an_elems d) && tz delim)
    | GNodeM _ gr => mkAttr (tv gr) true
    | GCond k en => let v := if en then ival k else 0%Z in mkAttr v (v =? 0)%Z
    | _ => mkAttr 0 true
    end.
  (** what the rules above rely on *)
  Definition node_side_b (i : ninfo) : bool :=
    match n_node i with
    | GSeq d => elems_ok (sq_elems d)
    | GBracketed _ bs be _ _ d => (otv bs =? 0)%Z && (otv be =? 0)%Z && elems_zero (sq_elems d)
    | GAny d => forallb (fun e => (tv e =? any_val d)%Z) (an_elems d) && ((any_val d =? 0)%Z || at_most_once d)
    | GDelim d delim _ _ => forallb (fun e => (tv e =? 0)%Z) (an_elems d) && (tv delim =? 0)%Z
    | _ => true
    end.

  Definition node_consistent_b (p : positive * ninfo) : bool :=
    match PositiveMap.find (fst p) t with
    | Some a => attr_eqb a (node_attr (snd p)) && node_side_b (snd p)
    | None => false
    end.

  Definition brackets_bal_b : bool :=
    forallb (fun b => (otv (fst (fst b)) =? 0)%Z && (otv (snd (fst b)) =? 0)%Z) (g_brackets g).

  (** the three meta kinds are told apart ([resolve_bracket] inserts [k_indent] and [k_dedent]) *)
  Definition kinds_bal_b : bool := negb (k_indent g =? k_dedent g) && negb (k_implicit g =? k_dedent g).

  Definition consistent_b : bool :=
    kinds_bal_b
    && forallb node_consistent_b (PositiveMap.elements (g_nodes g))
    && brackets_bal_b
    && (otv (g_root g) =? 0)%Z.

  (** the kinds of the named nodes ([NodeMatcher]) with a non-zero net value: a *token* that already
      carries such a kind is taken by the NodeMatcher as it is ([from_span]), without its inserts *)
  Definition risky_kinds : list N :=
    flat_map (fun p => match n_node (snd p) with
                       | GNodeM k gr => if (tv gr =? 0)%Z then [] else [k]
                       | _ => []
                       end) (PositiveMap.elements (g_nodes g)).

  (** diagnosis: the keys (node id + 1) of the nodes that violate it *)
  Definition inconsistent_nodes : list positive :=
    map fst (filter (fun p => negb (node_consistent_b p)) (PositiveMap.elements (g_nodes g))).
  Definition valued_nodes : list (positive * Z) :=
    flat_map (fun p => match PositiveMap.find (fst p) t with
                       | Some a => if (a_v a =? 0)%Z then [] else [(fst p, a_v a)]
                       | None => []
                       end) (PositiveMap.elements (g_nodes g)).
End Bal.

(** the table: start from (0, true) everywhere and re-evaluate every node until nothing changes *)
Definition tab_step (g : grammar) (t : PositiveMap.t attr) : PositiveMap.t attr :=
  PositiveMap.map (node_attr g t) (g_nodes g).
Fixpoint tab_iter (g : grammar) (k : nat) (t : PositiveMap.t attr) : PositiveMap.t attr :=
  match k with
  | O => t
  | S k' => let t' := tab_step g t in if PositiveMap.equal attr_eqb t t' then t else tab_iter g k' t'
  end.
Definition tab_rounds : nat := 200.
Definition meta_tab (g : grammar) : PositiveMap.t attr :=
  tab_iter g tab_rounds (PositiveMap.map (fun _ => mkAttr 0 true) (g_nodes g)).

Definition meta_balanced_b (g : grammar) : bool := consistent_b g (meta_tab g).
Definition meta_risky_kinds (g : grammar) : list N := risky_kinds g (meta_tab g).

(** the graph with every [Conditional] enabled / disabled: what the translator dumps under an indentation
    configuration with all flags set (a [Conditional] is enabled iff every flag it names is set), resp. - for a
    grammar all of whose Conditionals name a flag - with no flag set.  Only [Conditional::is_enabled] reads the
    configuration. *)
Definition set_cond (b : bool) (i : ninfo) : ninfo :=
  match n_node i with
  | GCond k _ => mkInfo (GCond k b) (n_opt i) (n_simple i) (n_ckey i)
  | _ => i
  end.
Definition set_conds (b : bool) (g : grammar) : grammar :=
  mkGrammar (PositiveMap.map (set_cond b) (g_nodes g)) (g_eq g) (g_brackets g) (g_root g)
            (k_ws g) (k_nl g) (k_bracketed g) (k_unparsable g) (k_indent g) (k_dedent g) (k_implicit g) (g_noncode g).
