(** Witnesses for [Pem.NoPanic]:
    - graphs that satisfy [panic_safe_b], parse, and to which the theorem applies (non-vacuity), and
    - why the side conditions are there: for each one a small graph (or token array) that violates
      only it and on which the interpreter - the validated model of the real engine - really ends in
      the corresponding [panic!]/[unwrap]/index site ([vm_compute] witnesses). *)
From Coq Require Import FMapPositive Lia.
From Sq Require Import Base.Bytes Apply.Model Pem.Model Pem.Proofs Pem.WfSafe Pem.WfExamples Pem.NoPanicCert Pem.NoPanic.

Local Open Scope N_scope.

(** a keyword-like matcher: hint = its raw, no types, all raws alphabetic *)
Definition kwinf (nd : node) (raws : list N) : ninfo := mkInfo nd (Some false) (Some (raws, [], true)) (Some 0).
(* texts: "(" = 10, ")" = 11, "a" = 12, "," = 13, "b" = 14, "c" = 15 *)

(** a Greedy Sequence [a a*] terminated by the keyword [c], with a bracket set *)
Definition g_kw : grammar := mkg [
  (0, inf GNonCode []);
  (1, inf (GSeq (mkSeq [2; 3] Greedy true [4])) [12]);
  (2, inf (GString 12 102) [12]);
  (3, mkInfo (GAny (mkAny [2] None [] false None 0 None true Strict)) (Some true) (Some ([12], [], false)) (Some 1));
  (4, kwinf (GString 15 105) [15]);
  (5, inf (GString 10 100) [10]);
  (6, inf (GString 11 101) [11])] [(Some 5, Some 6, false)] 1.

Example ex_kw_safe : panic_safe_b g_kw = true /\ pem_closed_b g_kw = true.
Proof. vm_compute. auto. Qed.

Example ex_kw_parse :
  parse_root g_kw (toks_of_list [pt 12; ws; pt 12; ws; pt 15]) [] 30 0 5
  = ROk (MR 0 3 None [] [MR 0 1 (Some (MNewtype 102)) [] []; MR 2 3 (Some (MNewtype 102)) [] []]).
Proof. vm_compute. reflexivity. Qed.

(** the theorem applied: whatever follows the first token [a], no fuel, regex table or end index makes
    this grammar panic *)
Example ex_kw_never_panics : forall rest rx fuel e p,
  e <= N.of_nat (length (pt 12 :: rest)) ->
  parse_root g_kw (toks_of_list (pt 12 :: rest)) rx fuel 0 e <> RPanic p.
Proof.
  intros rest rx fuel e p He.
  pose proof (proj1 ex_kw_safe) as H1. pose proof (proj2 ex_kw_safe) as H2.
  apply (parse_never_panics g_kw H1 H2 _ _ rx fuel 0 e p (toks_def_of_list _)); [lia|exact He|].
  right. intros t0 Ht0. rewrite WfRoot.toks_of_list_get in Ht0. cbn in Ht0. inversion Ht0; subst.
  split; [reflexivity|left; reflexivity].
Qed.

(** the graph of [Pem.WfExamples] (GreedyOnceStarted Sequence, Bracketed with a Greedy content, Delimited, a meta) *)
Example ex_ok_safe : panic_safe_b g_ok = true /\ pem_closed_b g_ok = true.
Proof. vm_compute. auto. Qed.

(* ------------------------------------------------------------------ why the side conditions *)

(** 1. the first token.  [trim_to_terminator] prunes by [first_non_whitespace] (the whole raw, here 99)
    and finds no terminator at index 0; [next_match] selects by [first_trimmed_raw] (here the keyword
    [c]), the keyword matches at index 0 and the guard of [greedy_match] reads [segments[0 - 1]]. *)
Definition t_split : ptok := mkPtok true false 50 [] 15 15 (Some 99).
Lemma first_token_needed :
  panic_safe_b g_kw = true /\ parse_root g_kw (toks_of_list [t_split]) [] 30 0 1 = RPanic PIndex.
Proof. vm_compute. auto. Qed.

(** ... and a meta in front of everything is skipped by the same guard down to index 0 *)
Definition t_meta : ptok := mkPtok false true 203 [] 0 0 None.
Lemma first_token_meta_needed :
  parse_root g_kw (toks_of_list [t_meta; pt 15]) [] 30 0 2 = RPanic PIndex.
Proof. vm_compute. reflexivity. Qed.

(** 2. a terminator without first-token hint ([simple()] is [None]: here [BracketedSegment] behind a
    [Ref], as in ANSI's [FunctionNameSegment]) under a non-Strict Sequence: [next_match] unwraps it *)
Definition g_nosimple : grammar := mkg [
  (0, inf GNonCode []);
  (1, inf (GSeq (mkSeq [2] Greedy true [4])) [12]);
  (2, inf (GString 12 102) [12]);
  (4, mkInfo (GRef (Some 7) None [] false) (Some false) None (Some 2));
  (7, mkInfo GBracketSeg (Some false) None (Some 3))] [] 1.
Lemma terminator_hint_needed :
  panic_safe_b g_nosimple = false /\ parse_root g_nosimple (toks_of_list [pt 12]) [] 30 0 1 = RPanic PUnwrap.
Proof. vm_compute. auto. Qed.

(** ... but harmless under a Strict one (the terminators of a Strict Sequence are never used) *)
Definition g_nosimple_strict : grammar := mkg [
  (0, inf GNonCode []);
  (1, inf (GSeq (mkSeq [2] Strict true [4])) [12]);
  (2, inf (GString 12 102) [12]);
  (4, mkInfo (GRef (Some 7) None [] false) (Some false) None (Some 2));
  (7, mkInfo GBracketSeg (Some false) None (Some 3))] [] 1.
Example ex_strict_terminator_unused : panic_safe_b g_nosimple_strict = true.
Proof. vm_compute. reflexivity. Qed.

(** ... and the hint is needed far below the node that pushes the terminator: the context terminator
    pushed by the [Ref] 1 reaches the Greedy Sequence 3 through the AnyNumberOf 2 *)
Definition g_flow : grammar := mkg [
  (0, inf GNonCode []);
  (1, inf (GRef (Some 2) None [4] false) [12]);
  (2, mkInfo (GAny (mkAny [3] None [] false None 0 None true Strict)) (Some true) (Some ([12], [], false)) (Some 1));
  (3, inf (GSeq (mkSeq [5] Greedy true [])) [12]);
  (5, inf (GString 12 102) [12]);
  (4, mkInfo (GRef (Some 7) None [] false) (Some false) None (Some 2));
  (7, mkInfo GBracketSeg (Some false) None (Some 3))] [] 1.
Lemma context_terminator_hint_needed :
  panic_safe_b g_flow = false /\ parse_root g_flow (toks_of_list [pt 12]) [] 30 0 1 = RPanic PUnwrap.
Proof. vm_compute. auto. Qed.

(** 3. [Bracketed] with [allow_gaps = false] whose content reaches the closing bracket: [unimplemented!()] *)
Definition g_nogaps : grammar := mkg [
  (0, inf GNonCode []);
  (1, inf (GBracketed true (Some 5) (Some 6) false false (mkSeq [2] Strict true [])) [10]);
  (2, inf (GString 12 102) [12]);
  (5, inf (GString 10 100) [10]);
  (6, inf (GString 11 101) [11])] [(Some 5, Some 6, false)] 1.
Lemma bracketed_gaps_needed :
  panic_safe_b g_nogaps = false
  /\ parse_root g_nogaps (toks_of_list [pt 10; pt 12; pt 11]) [] 30 0 3 = RPanic PUnimpl.
Proof. vm_compute. auto. Qed.

(** 4. an option of [AnyNumberOf] without cache key ([cache_key()] is [unimplemented!()]) *)
Definition g_nockey : grammar := mkg [
  (0, inf GNonCode []);
  (1, inf (GAny (mkAny [2] None [] false None 0 None true Strict)) [12]);
  (2, mkInfo (GString 12 102) (Some false) (Some ([12], [], false)) None)] [] 1.
Lemma cache_key_needed :
  panic_safe_b g_nockey = false /\ parse_root g_nockey (toks_of_list [pt 12]) [] 30 0 1 = RPanic PUnimpl.
Proof. vm_compute. auto. Qed.

(** 5. a [MetaSegment] that is not a direct [Sequence] element (its [match_segments] is [unimplemented!()]) *)
Definition g_meta : grammar := mkg [
  (0, inf GNonCode []);
  (1, inf (GRef (Some 2) None [] false) []);
  (2, inf (GMeta 203) [])] [] 1.
Lemma meta_position_needed :
  panic_safe_b g_meta = false /\ parse_root g_meta (toks_of_list [pt 12]) [] 30 0 1 = RPanic PUnimpl.
Proof. vm_compute. auto. Qed.

(** 6. a root that indexes its first token before looking at the slice length, on the empty span *)
Definition g_leafroot : grammar := mkg [(0, inf GNonCode []); (1, inf (GString 12 102) [12])] [] 1.
Lemma eof_safe_needed :
  panic_safe_b g_leafroot = false /\ parse_root g_leafroot (toks_of_list [pt 12]) [] 30 1 1 = RPanic PIndex.
Proof. vm_compute. auto. Qed.

(** 7. a [Sequence] element whose [is_optional()] panics *)
Definition g_noopt : grammar := mkg [
  (0, inf GNonCode []);
  (1, inf (GSeq (mkSeq [2; 2] Strict true [])) [12]);
  (2, mkInfo (GString 12 102) None (Some ([12], [], false)) (Some 1))] [] 1.
Lemma is_optional_needed :
  panic_safe_b g_noopt = false /\ parse_root g_noopt (toks_of_list [pt 12]) [] 30 0 1 = RPanic PUnimpl.
Proof. vm_compute. auto. Qed.

(* ------------------------------------------------------------------ summaries (pinned in Props/C03.v) *)
(** [start_ok] cannot be dropped from the theorem: a graph that is panic-safe and closed, a defined
    token array, and still the index panic of the keyword guard at index 0 *)
Lemma start_ok_needed :
  exists g toks, panic_safe_b g = true /\ pem_closed_b g = true /\ toks_def toks 1
                 /\ ~ start_ok g toks 0 /\ parse_root g toks [] 30 0 1 = RPanic PIndex.
Proof.
  exists g_kw, (toks_of_list [t_split]).
  split; [exact (proj1 ex_kw_safe)|]. split; [exact (proj2 ex_kw_safe)|].
  split; [exact (toks_def_of_list [t_split])|].
  split; [|exact (proj2 first_token_needed)].
  intros [H|H]; [lia|].
  assert (E0 : get (toks_of_list [t_split]) 0 = Some t_split) by (vm_compute; reflexivity).
  destruct (H t_split E0) as [_ [H1|H1]]; [discriminate|].
  assert (E1 : simple_of g_kw 4 = ROk (Some ([15], [], true))) by (vm_compute; reflexivity).
  specialize (H1 4 [15] true E1 eq_refl). discriminate.
Qed.

(** each clause of [panic_safe_b] excludes a reachable abort of the engine *)
Definition unsafe_witness (g : grammar) (l : list ptok) (s e : N) (p : panic) : Prop :=
  panic_safe_b g = false /\ pem_closed_b g = true /\ s <= e /\ e <= N.of_nat (length l)
  /\ start_ok g (toks_of_list l) s /\ parse_root g (toks_of_list l) [] 30 s e = RPanic p.

Lemma start_ok_pt g u rest : start_ok g (toks_of_list (pt u :: rest)) 0.
Proof.
  right. intros t0 Ht0. rewrite WfRoot.toks_of_list_get in Ht0. cbn in Ht0. inversion Ht0; subst.
  split; [reflexivity|left; reflexivity].
Qed.

Lemma panic_safe_needed :
  (exists g l s e, unsafe_witness g l s e PUnwrap)            (* terminator without first-token hint *)
  /\ (exists g l s e, unsafe_witness g l s e PUnimpl)         (* Bracketed without gaps / missing cache key / meta / is_optional *)
  /\ (exists g l s e, unsafe_witness g l s e PIndex).         (* a leaf entered on the empty span *)
Proof.
  split; [|split].
  - exists g_flow, [pt 12], 0, 1. unfold unsafe_witness.
    split; [exact (proj1 context_terminator_hint_needed)|]. split; [vm_compute; reflexivity|].
    split; [lia|]. split; [cbn; lia|]. split; [apply start_ok_pt|exact (proj2 context_terminator_hint_needed)].
  - exists g_nogaps, [pt 10; pt 12; pt 11], 0, 3. unfold unsafe_witness.
    split; [exact (proj1 bracketed_gaps_needed)|]. split; [vm_compute; reflexivity|].
    split; [lia|]. split; [cbn; lia|]. split; [apply start_ok_pt|exact (proj2 bracketed_gaps_needed)].
  - exists g_leafroot, [pt 12], 1, 1. unfold unsafe_witness.
    split; [exact (proj1 eof_safe_needed)|]. split; [vm_compute; reflexivity|].
    split; [lia|]. split; [cbn; lia|]. split; [left; lia|exact (proj2 eof_safe_needed)].
Qed.
