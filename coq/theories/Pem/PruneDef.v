(** Pruning transparency of the parser-engine interpreter, part 1: definitions.  Executable only.

    - the reference twins of [match_node] / [parse_root], obtained WITHOUT forking [Pem.Model]:
      [match_node_np] is the interpreter itself run on the tokens with [p_fnw] erased ([strip]):
      [first_nonws] is then [None] everywhere, so [prune] is the identity, and no other definition of
      the model reads [p_fnw].  [match_node_ref] additionally instantiates the open-recursion argument
      of [match_node_body] with [hide_err o rec]: a [SQLParseError] of a sub-match ends the run (no
      answer, [RFuel]) instead of being swallowed by [Ref.exclude]'s [is_ok_and].
    - the decidable side condition [hints_sound_b g] on a dumped graph: every first-token hint that
      pruning can act on is *justified* by the hints of the node's children according to the rules of
      [simple()] of its node type.  "Can act on": the options of the prune sites are elements of
      [AnyNumberOf]/[Delimited], delimiters and members of terminator lists; [scope] is a set closed
      under "children that justify a hint" that contains all of them that have a hint.
    - the token premise [toks_ok]. *)
From Coq Require Import FMapPositive MSets.MSetPositive.
From Sq Require Import Base.Bytes Apply.Model Pem.Model.

Module PSet := PositiveSet.

(* ------------------------------------------------------------------ the reference twins *)
Definition strip_tok (t : ptok) : ptok :=
  mkPtok (p_code t) (p_meta t) (p_kind t) (p_types t) (p_upper t) (p_ftr t) None.
Definition strip (toks : PositiveMap.t ptok) : PositiveMap.t ptok := PositiveMap.map strip_tok toks.

(** pruning switched off *)
Definition match_node_np (g : grammar) (toks : PositiveMap.t ptok) := match_node g (strip toks).
Definition parse_root_np (g : grammar) (toks : PositiveMap.t ptok) := parse_root g (strip toks).

(** [SQLParseError] of a sub-match is not an answer *)
Definition hide_err (r : res mr) : res mr := match r with RErr => RFuel | _ => r end.

(** pruning switched off and no [SQLParseError] swallowed on the way *)
Fixpoint match_node_ref (g : grammar) (toks : PositiveMap.t ptok) (rx : list (N * N)) (fuel : nat)
         (n idx len : N) (terms : list N) : res mr :=
  match fuel with
  | O => RFuel
  | S f => match_node_body g (strip toks) rx
             (fun n' i l t => hide_err (match_node_ref g toks rx f n' i l t)) f n idx len terms
  end.
Definition parse_root_ref (g : grammar) (toks : PositiveMap.t ptok) (rx : list (N * N)) (fuel : nat)
           (start_idx end_idx : N) : res mr :=
  match g_root g with
  | None => RPanic PDanglingBracket
  | Some r => match_node_ref g toks rx fuel r start_idx end_idx []
  end.

(* ------------------------------------------------------------------ hints *)
Definition hint : Type := (list N * list N)%type.       (* raws, types *)
Definition subl (a b : list N) : bool := forallb (fun x => memN x b) a.
Definition hsub (a b : hint) : bool := subl (fst a) (fst b) && subl (snd a) (snd b).

Definition opt_list (o : option N) : list N := match o with Some x => [x] | None => [] end.

Section Graph.
  Variable g : grammar.

  Definition gnodes : list (positive * ninfo) := PositiveMap.elements (g_nodes g).

  Definition hint_of (i : ninfo) : option hint :=
    match n_simple i with Some (raws, tys, _) => Some (raws, tys) | None => None end.

  (** all templates of the string parsers of the graph *)
  Definition templates : list N :=
    flat_map (fun p => match n_node (snd p) with GString up _ => [up] | GMulti ups _ => ups | _ => [] end) gnodes.

  (** the matchers node [i] can push into the context or hand to [prune] *)
  Definition node_lists (i : ninfo) : list N :=
    match n_node i with
    | GRef _ _ rterms _ => rterms
    | GSeq d => sq_terms d
    | GBracketed _ _ be _ _ d => opt_list be ++ sq_terms d
    | GAny d => an_elems d ++ an_terms d
    | GDelim d delim _ _ => delim :: g_noncode g :: an_elems d ++ an_terms d
    | _ => []
    end.

  Definition is_meta_node (e : N) : bool :=
    match get (g_nodes g) e with
    | Some i => match n_node i with GMeta _ | GCond _ _ => true | _ => false end
    | None => true
    end.
  Definition opt_flag (e : N) : option bool :=
    match get (g_nodes g) e with Some i => n_opt i | None => None end.

  (** the elements of a [Sequence] that [simple()] looks at: up to the first one that is not optional *)
  Fixpoint seq_prefix (es : list N) : list N :=
    match es with
    | [] => []
    | e :: es' => e :: match opt_flag e with Some true => seq_prefix es' | _ => [] end
    end.
  (** ... and whether it ends in an element that is not optional *)
  Fixpoint seq_closed (es : list N) : bool :=
    match es with
    | [] => false
    | e :: es' => match opt_flag e with Some true => seq_closed es' | _ => true end
    end.

  (** the children whose hints justify the hint of [i] *)
  Definition jkids (i : ninfo) : list N :=
    match n_node i with
    | GRef (Some t) _ _ _ => [t]
    | GNodeM _ gr => [gr]
    | GBracketed _ (Some sb) _ _ _ _ => [sb]
    | GAny d => an_elems d
    | GDelim d _ _ _ => an_elems d
    | GSeq d => seq_prefix (sq_elems d)
    | _ => []
    end.

  Section Scope.
    Variable sc : PSet.t.
    Definition in_sc (n : N) : bool := PSet.mem (key n) sc.

    (** child [c] has a hint inside [h] and is in scope *)
    Definition child_ok (h : hint) (c : N) : bool :=
      match get (g_nodes g) c with
      | Some ic => match hint_of ic with Some hc => hsub hc h && in_sc c | None => false end
      | None => false
      end.

    (** the hint [h] of node [i] is justified - the rules of [simple()] per node type, plus what makes
        "first token outside the hint" really imply "no match" in the engine: a [Sequence] must not be
        [Greedy] (its failed first element is an unparsable match) and, when [GreedyOnceStarted], must not
        consist of optional elements only (the unparsable rest); an [AnyNumberOf] must be [Strict] *)
    Definition just (i : ninfo) (h : hint) : bool :=
      match n_node i with
      | GString up _ => memN up (fst h)
      | GMulti ups _ => subl ups (fst h)
      | GTyped tpl _ => memN tpl (snd h)
      | GRef (Some t) _ _ _ => child_ok h t
      | GRef None _ _ _ => true                        (* aborts: never a match *)
      | GNodeM _ gr => child_ok h gr                   (* the node's own kind: see [risky_kinds] *)
      | GBracketed _ (Some sb) _ _ _ _ => child_ok h sb
      | GBracketed _ None _ _ _ _ => true              (* aborts *)
      | GAny d => pmode_eqb (an_mode d) Strict && forallb (child_ok h) (an_elems d)
      | GDelim d _ _ _ => forallb (child_ok h) (an_elems d)
      | GSeq d =>
          negb (pmode_eqb (sq_mode d) Greedy)
          && (pmode_eqb (sq_mode d) Strict || seq_closed (sq_elems d))
          && forallb (fun e => child_ok h e && negb (is_meta_node e)) (seq_prefix (sq_elems d))
      | _ => false       (* Regex, Meta, Conditional, Anything, Nothing, NonCode, BracketedSegment: not simple *)
      end.

    (** an option / terminator: present in the graph, and in scope when it has a hint *)
    Definition optok (o : N) : bool :=
      match get (g_nodes g) o with
      | Some i => match hint_of i with Some _ => in_sc o | None => true end
      | None => false
      end.

    Definition node_ok (p : positive * ninfo) : bool :=
      forallb optok (node_lists (snd p))
      && (if PSet.mem (fst p) sc then match hint_of (snd p) with Some h => just (snd p) h | None => true end else true).

    Definition hints_ok_b : bool := forallb node_ok gnodes.

    (** kinds of the in-scope [NodeMatcher]s whose hint does not mention the node's own kind:
        [NodeMatcher::match_segments] accepts a token that already carries the node's kind, whatever the
        hint of its grammar says - no code token may carry one of these (notes/C13.md) *)
    Definition risky_kinds : list N :=
      flat_map (fun p => match n_node (snd p), hint_of (snd p) with
                         | GNodeM k _, Some h => if PSet.mem (fst p) sc && negb (memN k (snd h)) then [k] else []
                         | _, _ => []
                         end) gnodes.
  End Scope.

  (* ---------------------------------------------------------------- the least scope *)
  Definition adds (l : list N) (s : PSet.t) : PSet.t := fold_left (fun s t => PSet.add (key t) s) l s.

  Definition sc_step (st : PSet.t * list N) : PSet.t * list N :=
    match snd st with
    | [] => st
    | n :: w =>
        if PSet.mem (key n) (fst st) then (fst st, w)
        else match get (g_nodes g) n with
             | Some i => (PSet.add (key n) (fst st), match hint_of i with Some _ => jkids i ++ w | None => w end)
             | None => (fst st, w)
             end
    end.
  Definition sc_roots : list N :=
    flat_map (fun p => node_lists (snd p)) gnodes.
  Definition compute_scope (steps : positive) : PSet.t :=
    fst (Pos.iter sc_step (PSet.empty, sc_roots) steps).
  Definition default_steps : positive := 400000.

  Definition scope : PSet.t := compute_scope default_steps.
  Definition hints_sound_b : bool := hints_ok_b scope.

  (* ---------------------------------------------------------------- tokens *)
  (** a code token: (T1) if its ASCII-upper-cased raw is a template of a string parser, the raw upper-cased
      the way [prune_options] does it ([to_uppercase]) is the same string; (T2) its class types contain its
      type; (T3) it does not carry the kind of a [NodeMatcher] in scope whose hint lacks that kind *)
  Definition tok_ok_with (tpl risky : list N) (t : ptok) : bool :=
    negb (p_code t)
    || ((negb (memN (p_upper t) tpl) || opt_eqb N.eqb (p_fnw t) (Some (p_upper t)))
        && memN (p_kind t) (p_types t)
        && negb (memN (p_kind t) risky)).
  Definition tok_ok_b (sc : PSet.t) (t : ptok) : bool := tok_ok_with templates (risky_kinds sc) t.
  Definition toks_ok (toks : PositiveMap.t ptok) : Prop :=
    forall i t, get toks i = Some t -> tok_ok_b scope t = true.
  (** on a token list (the two lists are computed once) *)
  Definition toks_ok_b (l : list ptok) : bool :=
    let tpl := templates in let risky := risky_kinds scope in forallb (tok_ok_with tpl risky) l.

  (** the first code token is outside hint [h] (in terms of what the matchers read) *)
  Definition outside (h : hint) (t : ptok) : bool :=
    p_code t
    && negb (memN (p_upper t) (fst h) && memN (p_upper t) templates)
    && negb (intersects (p_types t) (snd h)).
End Graph.
