(** Witnesses for [Pem.MetaBalProofs]:
    - a graph with the shape of the dialects' select statement (the Indent of the clause is closed by a
      Dedent of the statement; a Bracketed whose own conditional metas are dropped) satisfies the side
      condition, parses, and the theorem applies to it;
    - without the side condition the interpreter does build unbalanced parses without unparsable section;
    - without the hypothesis on token kinds too: a token that already carries the kind of the clause node
      is taken as it is, without the clause's Indent. *)
From Coq Require Import FMapPositive ZArith.
From Sq Require Import Base.Bytes Apply.Model Pem.Model Pem.WfSafe Pem.WfExamples Pem.LayoutInv Pem.MetaBal Pem.MetaBalProofs Pem.MetaTree.

Local Open Scope N_scope.

(* texts: "(" = 10, ")" = 11, "a" = 12, "," = 13, "SELECT" = 20; kinds: indent 203, dedent 204, implicit 205 *)
(** statement := clause Dedent [ "(" ImplicitIndent? a Dedent? ")" ];  clause := node 110 (SELECT Indent a {, a}) *)
Definition g_sel : grammar := mkg [
  (0, inf GNonCode []);
  (1, inf (GSeq (mkSeq [2; 3; 10] Strict true [])) [20]);
  (2, inf (GNodeM 110 4) [20]);
  (3, inf (GMeta 204) []);
  (4, inf (GSeq (mkSeq [5; 6; 7] Strict true [])) [20]);
  (5, inf (GString 20 120) [20]);
  (6, inf (GMeta 203) []);
  (7, inf (GDelim (mkAny [8] None [] false None 0 None true Strict) 9 false 0) [12]);
  (8, inf (GString 12 102) [12]);
  (9, inf (GString 13 103) [13]);
  (10, mkInfo (GBracketed true (Some 11) (Some 12) true true (mkSeq [13; 8; 14] Strict true []))
              (Some true) (Some ([10], [], false)) (Some 0));
  (11, inf (GString 10 100) [10]);
  (12, inf (GString 11 101) [11]);
  (13, inf (GCond 205 true) []);
  (14, inf (GCond 204 true) [])] [(Some 11, Some 12, true)] 1.
(** SELECT a, a (a) *)
Definition p_sel := [pt 20; ws; pt 12; pt 13; pt 12; ws; pt 10; pt 12; pt 11].
Definition m_sel : mr :=
  MR 0 9 None [(6, 204)]
     [MR 0 5 (Some (MKind 110)) [(1, 203)]
         [MR 0 1 (Some (MNewtype 120)) [] []; MR 2 3 (Some (MNewtype 102)) [] [];
          MR 3 4 (Some (MNewtype 103)) [] []; MR 4 5 (Some (MNewtype 102)) [] []];
      MR 6 9 (Some (MKind 202)) [(7, 203); (8, 204)]
         [MR 6 7 (Some (MNewtype 100)) [] []; MR 8 9 (Some (MNewtype 101)) [] [];
          MR 7 8 (Some (MNewtype 102)) [] []]].

(** the hypotheses of the theorem hold of a parse that inserts four metas in three different nodes (the
    clause has net value +1, the conditional metas of the bracket's content are dropped) ... *)
Example ex_balanced_parse :
  meta_balanced_b g_sel = true /\ meta_risky_kinds g_sel = [110] /\ plain_tokens_b g_sel p_sel = true /\
  parse_root g_sel (toks_of_list p_sel) [] 30 0 9 = ROk m_sel /\ clean_b g_sel m_sel = true /\
  tv (meta_tab g_sel) 2 = 1%Z.
Proof. vm_compute. repeat split; reflexivity. Qed.

(** ... and the theorem applied to it *)
Example ex_balanced_sum : isum g_sel m_sel = 0%Z.
Proof.
  destruct ex_balanced_parse as (H1 & _ & H3 & H4 & H5 & _).
  exact (parse_root_meta_balanced g_sel p_sel [] 30%nat 0 9 m_sel H1 H3 H4 H5).
Qed.

(** ... and on the File tree [root_parse] builds from it: four metas (Indent, Dedent, Indent, Dedent) *)
Definition ts_sel := tks 0 p_sel.
Example ex_balanced_tree :
  exists t, root_parse ts_sel (GOk m_sel) = Some (POk t) /\ tsum g_sel t = 0%Z /\
            t = Node K_File [Node 110 [Tok 0 120; Meta 203 1; Tok 1 200; Tok 2 102; Tok 3 103; Tok 4 102]; Tok 5 200; Meta 204 6;
                             Node 202 [Tok 6 100; Meta 203 7; Tok 7 102; Meta 204 8; Tok 8 101]].
Proof.
  destruct ex_balanced_parse as (H1 & _ & H3 & H4 & H5 & _).
  eexists. split; [vm_compute; reflexivity|]. split; [|reflexivity].
  eapply (parse_tree_meta_balanced g_sel p_sel [] ts_sel 30%nat m_sel); try eassumption; vm_compute; reflexivity.
Qed.

(** the clause alone as the root: the table is inconsistent (the root's net value is +1) and the parse
    of   SELECT a   has an Indent that nothing closes *)
Definition g_open : grammar := mkg [
  (0, inf GNonCode []);
  (2, inf (GNodeM 110 4) [20]);
  (4, inf (GSeq (mkSeq [5; 6; 7] Strict true [])) [20]);
  (5, inf (GString 20 120) [20]);
  (6, inf (GMeta 203) []);
  (7, inf (GDelim (mkAny [8] None [] false None 0 None true Strict) 9 false 0) [12]);
  (8, inf (GString 12 102) [12]);
  (9, inf (GString 13 103) [13])] [] 2.

Lemma meta_balance_arbitrary_graph_refuted :
  exists g ptoks rx fuel s e m,
    meta_balanced_b g = false /\ plain_tokens_b g ptoks = true /\
    parse_root g (toks_of_list ptoks) rx fuel s e = ROk m /\ clean_b g m = true /\ isum g m = 1%Z.
Proof.
  exists g_open, [pt 20; ws; pt 12], [], 30%nat, 0, 3. eexists.
  split; [vm_compute; reflexivity|]. split; [vm_compute; reflexivity|]. split; [vm_compute; reflexivity|].
  split; vm_compute; reflexivity.
Qed.

(** a token of kind 110 where the clause is expected: [NodeMatcher] answers with the token itself *)
Lemma meta_balance_token_kind_refuted :
  exists g ptoks rx fuel s e m,
    meta_balanced_b g = true /\ plain_tokens_b g ptoks = false /\
    parse_root g (toks_of_list ptoks) rx fuel s e = ROk m /\ clean_b g m = true /\ isum g m = (-1)%Z.
Proof.
  exists g_sel, [mkPtok true false 110 [] 20 20 (Some 20)], [], 30%nat, 0, 1. eexists.
  split; [vm_compute; reflexivity|]. split; [vm_compute; reflexivity|]. split; [vm_compute; reflexivity|].
  split; vm_compute; reflexivity.
Qed.
