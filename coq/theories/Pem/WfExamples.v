(** Witnesses for [Pem.Wf] / [Pem.WfRoot]:
    - why well-formedness fails for arbitrary graphs (two [vm_compute] witnesses, one per assumption
      the engine makes about closing brackets), and
    - a graph that satisfies the side condition, parses, and to which the end-to-end theorem applies. *)
From Coq Require Import FMapPositive.
From Sq Require Import Base.Bytes Apply.Model Apply.Proofs Pem.Model Pem.WfSafe Pem.WfRoot.

Local Open Scope N_scope.

Definition inf (nd : node) (raws : list N) : ninfo := mkInfo nd (Some false) (Some (raws, [], false)) (Some 0).
Definition inft (nd : node) (tys : list N) : ninfo := mkInfo nd (Some false) (Some ([], tys, false)) (Some 0).
Definition mkg (l : list (N * ninfo)) (br : list (option N * option N * bool)) (root : N) : grammar :=
  mkGrammar (nodes_of_list l) [] br (Some root) 200 201 202 0 203 204 205 0.
(** a code token with (interned, upper-cased) text [u]; whitespace; a non-code token of kind 51 *)
Definition pt (u : N) : ptok := mkPtok true false 50 [] u u (Some u).
Definition ws : ptok := mkPtok false false 200 [200] 1 1 None.
Definition xc : ptok := mkPtok false false 51 [51] 2 2 None.
Fixpoint tks (i : N) (l : list ptok) : list Apply.Model.tok :=
  match l with [] => [] | p :: l' => mkTok i (p_kind p) (p_code p) :: tks (i + 1) l' end.
(* texts: "(" = 10, ")" = 11, "a" = 12, "," = 13, "b" = 14, "c" = 15 *)

(** 1. [Bracketed::match_segments] takes the content to end at [bracket_match.span.end - 1]: a closing
    bracket of two tokens ([Sequence(")", ")")]) overlaps the content [a )] that was matched up to
    there; [apply] emits tokens 2 and 3 twice.   Tokens: ( a ) ) *)
Definition g_bad : grammar := mkg [
  (0, inf GNonCode []);
  (1, inf (GBracketed true (Some 2) (Some 3) true true (mkSeq [6] Strict true [])) [10]);
  (2, inf (GString 10 100) [10]);
  (3, inf (GSeq (mkSeq [4;5] Strict false [])) [11]);
  (4, inf (GString 11 101) [11]);
  (5, inf (GString 11 101) [11]);
  (6, inf (GAny (mkAny [7] None [] false None 0 None true Strict)) [12;11]);
  (7, inf (GMulti [12;11] 102) [12;11])] [] 1.
Definition p_bad := [pt 10; pt 12; pt 11; pt 11].

Lemma wf_arbitrary_graph_refuted :
  exists g ptoks rx fuel ts m ch,
    ts = tks 0 ptoks /\ wf_safe_b g = false /\
    parse_root g (toks_of_list ptoks) rx fuel (start_idx ts) (end_idx ts) = ROk m /\
    wf_root ts m = false /\
    root_parse ts (GOk m) = Some (POk (Node K_File ch)) /\ leaves_l ch = [0; 1; 2; 3; 2; 3].
Proof.
  exists g_bad, p_bad, [], 50%nat, (tks 0 p_bad). eexists. eexists.
  split; [reflexivity|]. split; [vm_compute; reflexivity|]. split; [vm_compute; reflexivity|].
  split; [vm_compute; reflexivity|]. split; vm_compute; reflexivity.
Qed.

(** 2. [greedy_match] (behind [Anything]) collects the brackets of the dialect's bracket set as
    children and then trims trailing non-code from its span: a closing bracket that is a non-code
    token is trimmed off the parent while the bracket child keeps it; the named node around it ends
    before its child does and token 2 appears twice.   Tokens: ( a <non-code closer> <ws> c *)
Definition g_bad2 : grammar := mkg [
  (0, inf GNonCode []);
  (1, inf (GSeq (mkSeq [2; 5] Strict true [])) []);
  (2, inf (GNodeM 110 6) []);
  (6, inf (GAnything [5]) []);
  (3, inf (GString 10 100) [10]);
  (4, inft (GTyped 51 101) [51]);
  (5, inf (GString 15 105) [15])] [(Some 3, Some 4, false)] 1.
Definition p_bad2 := [pt 10; pt 12; xc; ws; pt 15].

Lemma wf_greedy_bracket_refuted :
  exists g ptoks rx fuel ts m ch,
    ts = tks 0 ptoks /\ wf_safe_b g = false /\
    parse_root g (toks_of_list ptoks) rx fuel (start_idx ts) (end_idx ts) = ROk m /\
    wf_root ts m = false /\
    root_parse ts (GOk m) = Some (POk (Node K_File ch)) /\ leaves_l ch = [0; 1; 2; 2; 3; 4].
Proof.
  exists g_bad2, p_bad2, [], 50%nat, (tks 0 p_bad2). eexists. eexists.
  split; [reflexivity|]. split; [vm_compute; reflexivity|]. split; [vm_compute; reflexivity|].
  split; [vm_compute; reflexivity|]. split; vm_compute; reflexivity.
Qed.

(** 3. the scenario the notes used to blame - a NodeMatcher around a NodeMatcher around a grammar
    that succeeds with metas only - is well-formed (the inner node "produces") *)
Definition g_zw : grammar := mkg [
  (0, inf GNonCode []);
  (2, inf (GNodeM 110 3) []);
  (3, inf (GNodeM 111 4) []);
  (4, inf (GSeq (mkSeq [6] Strict true [])) []);
  (6, inf (GCond 203 true) [])] [] 2.
Example ex_zero_width_nodes_wf :
  parse_root g_zw (toks_of_list [pt 12]) [] 50 0 1
  = ROk (MR 0 0 (Some (MKind 110)) [] [MR 0 0 (Some (MKind 111)) [(0, 203)] []])
  /\ wf_safe_b g_zw = true
  /\ wf 1 (MR 0 0 (Some (MKind 110)) [] [MR 0 0 (Some (MKind 111)) [(0, 203)] []]) = true.
Proof. vm_compute. auto. Qed.

(** A safe graph that parses:   a ( a , a b ) c   with whitespace around.
    A GreedyOnceStarted Sequence, a Bracketed whose closing bracket is a StringParser behind a Ref,
    a Greedy content Sequence with a meta and a Delimited list; "b" ends up in an unparsable node
    inside the bracket, "c" in one behind it. *)
Definition g_ok : grammar := mkg [
  (0, inf GNonCode []);
  (1, inf (GSeq (mkSeq [2; 8] GreedyOnceStarted true [])) [12]);
  (2, inf (GString 12 102) [12]);
  (3, inf (GString 10 100) [10]);
  (4, inf (GRef (Some 9) None [] false) [11]);
  (5, inf (GDelim (mkAny [2] None [] false None 0 None true Strict) 6 false 0) [12]);
  (6, inf (GString 13 103) [13]);
  (7, inf (GMeta 203) []);
  (8, inf (GBracketed true (Some 3) (Some 4) true true (mkSeq [7; 5] Greedy true [])) [10]);
  (9, inf (GString 11 101) [11])] [(Some 3, Some 4, true)] 1.
Definition p_ok := [ws; pt 12; ws; pt 10; pt 12; pt 13; ws; pt 12; pt 14; pt 11; ws; pt 15; ws].
Definition ts_ok := tks 0 p_ok.
Definition m_ok : mr :=
  MR 1 12 None []
     [MR 1 2 (Some (MNewtype 102)) [] [];
      MR 3 10 (Some (MKind 202)) [(4, 203); (9, 204)]
         [MR 3 4 (Some (MNewtype 100)) [] [];
          MR 9 10 (Some (MNewtype 101)) [] [];
          MR 4 5 (Some (MNewtype 102)) [] [];
          MR 5 6 (Some (MNewtype 103)) [] [];
          MR 7 8 (Some (MNewtype 102)) [] [];
          MR 8 9 (Some (MKind 0)) [] []];
      MR 11 12 (Some (MKind 0)) [] []].

Example ex_safe_parse :
  wf_safe_b g_ok = true /\ map p_code p_ok = map t_code ts_ok /\ ts_ok <> [] /\
  parse_root g_ok (toks_of_list p_ok) [] 30 (start_idx ts_ok) (end_idx ts_ok) = ROk m_ok /\
  has_match m_ok = true /\ wf_root ts_ok m_ok = true.
Proof. vm_compute. repeat split; try reflexivity. discriminate. Qed.

(** ... and the end-to-end theorem applied to it *)
Example ex_safe_keeps_every_token :
  exists ch, root_parse ts_ok (GOk m_ok) = Some (POk (Node K_File ch)) /\ leaves_l ch = map t_id ts_ok.
Proof.
  destruct ex_safe_parse as (H1 & H2 & H3 & H4 & _).
  exact (parse_keeps_every_token g_ok p_ok [] ts_ok H1 H2 30%nat m_ok H3 H4).
Qed.
