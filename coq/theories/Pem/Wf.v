(** Well-formedness of every match result of the parser-engine interpreter.

    For every grammar graph that satisfies the decidable side condition [wf_safe_b]
    ([Pem.WfSafe]), every token stream, regex oracle, fuel, node, start index and context:
    a successful match is well-formed in the sense of [Apply.Model.wf] - children nested in the
    parent span, pairwise non-overlapping, inserts inside the span and outside the children, named
    nodes non-empty, [Newtype] only over one token - which is the hypothesis of
    [Apply.Proofs.apply_leaves] / [root_parse_covers] (C02).  The induction strengthens the one of
    [Pem.Bounds]: beside the span bounds every result carries
      - [wf] itself,
      - "no child starts at the end of the slice" (what makes the children that [Bracketed] appends
        *after* the closing bracket harmless for [apply]'s vector-order rule),
      - "a match starts before the end of a non-empty slice",
      - "started on a code token, a match starts at the start index" (what [root_parse] needs). *)
From Coq Require Import FMapPositive Lia.
From Sq Require Import Base.Bytes Apply.Model Apply.Proofs Pem.Model Pem.Bounds Pem.WfSafe Pem.WfLemmas.

Local Open Scope N_scope.

Lemma has_match_empty_at i : has_match (empty_at i) = false.
Proof. unfold has_match, empty_at. cbn. rewrite N.eqb_refl. reflexivity. Qed.

Lemma has_match_empty_lit i : has_match (MR i i None [] []) = false.
Proof. exact (has_match_empty_at i). Qed.

Lemma has_match_false x : has_match x = false -> mr_start x = mr_end x /\ mr_ins x = [].
Proof.
  unfold has_match. intro H. apply orb_false_iff in H as [H1 H2].
  apply negb_false_iff in H1, H2. apply N.eqb_eq in H1. apply is_empty_true in H2. auto.
Qed.

Lemma is_empty_has_match x : mr_is_empty x = negb (has_match x).
Proof. reflexivity. Qed.

Section Wf.
  Variable g : grammar.
  Variable toks : PositiveMap.t ptok.
  Variable rx : list (N * N).
  Variable n : N.                      (* the length of the token array [apply] will run on *)
  Hypothesis Hn : 0 < n.

  Definition codeat (i : N) : Prop := exists t, get toks i = Some t /\ p_code t = true.

  Lemma tok_get len i t : tok toks len i = ROk t -> i < len /\ get toks i = Some t.
  Proof.
    unfold tok. destruct (i <? len) eqn:E; [|discriminate]. b2p.
    destruct (get toks i); [|discriminate]. intro H. inversion H; subst. auto.
  Qed.

  (* ------------------------------------------------------------ skipping and code tokens *)
  Lemma skip_fwd_aux_code k : forall len a mx j,
    codeat a -> skip_fwd_aux toks k len a mx = ROk j -> j = a.
  Proof.
    destruct k as [|k]; intros len a mx j (t & Ht & Hc) H; cbn [skip_fwd_aux] in H; [inversion H; auto|].
    destruct (a <? mx); [|inversion H; auto].
    inv_bind H. apply tok_get in Ha as [_ Ha]. rewrite Ht in Ha. inversion Ha; subst.
    rewrite Hc in H. inversion H. auto.
  Qed.
  Lemma skip_fwd_code len a mx j : codeat a -> skip_fwd toks len a mx = ROk j -> j = a.
  Proof. apply skip_fwd_aux_code. Qed.

  Lemma skip_fwd_aux_stop k : forall len a mx p j,
    a <= p -> codeat p -> skip_fwd_aux toks k len a mx = ROk j -> j <= p.
  Proof.
    induction k as [|k IH]; intros len a mx p j Hap (t & Ht & Hc) H; cbn [skip_fwd_aux] in H; [inversion H; subst; lia|].
    destruct (a <? mx); [|inversion H; subst; lia].
    inv_bind H. apply tok_get in Ha as [_ Ha].
    destruct (p_code a0) eqn:Ec; [inversion H; subst; lia|].
    assert (a <> p) by (intros ->; rewrite Ht in Ha; inversion Ha; subst; congruence).
    eapply IH in H; [exact H|lia|exists t; auto].
  Qed.
  Lemma skip_fwd_stop len a mx p j : a <= p -> codeat p -> skip_fwd toks len a mx = ROk j -> j <= p.
  Proof. apply skip_fwd_aux_stop. Qed.

  Lemma skip_back_aux_code k : forall len i mn j,
    (N.to_nat (i - mn) < k)%nat -> skip_back_aux toks k len i mn = ROk j -> mn < j -> codeat (j - 1).
  Proof.
    induction k as [|k IH]; intros len i mn j Hk H Hj; [lia|]. cbn [skip_back_aux] in H.
    destruct (mn <? i) eqn:E; b2p; [|inversion H; subst; lia].
    inv_bind H. apply tok_get in Ha as [_ Ha].
    destruct (p_code a) eqn:Ec; [inversion H; subst; exists a; auto|].
    eapply IH in H; [exact H|lia|exact Hj].
  Qed.
  Lemma skip_back_code len i mn j : skip_back toks len i mn = ROk j -> mn < j -> codeat (j - 1).
  Proof. apply skip_back_aux_code. lia. Qed.

  Lemma skip_back_aux_stop k : forall len i mn p j,
    p <= i -> mn < p -> codeat (p - 1) -> skip_back_aux toks k len i mn = ROk j -> p <= j.
  Proof.
    induction k as [|k IH]; intros len i mn p j Hpi Hmp (t & Ht & Hc) H; cbn [skip_back_aux] in H; [inversion H; subst; lia|].
    destruct (mn <? i) eqn:E; b2p; [|inversion H; subst; lia].
    inv_bind H. apply tok_get in Ha as [_ Ha].
    destruct (p_code a) eqn:Ec; [inversion H; subst; lia|].
    assert (i - 1 <> p - 1) by (intros E2; rewrite E2, Ht in Ha; inversion Ha; subst; congruence).
    eapply IH in H; [exact H|lia|exact Hmp|exists t; auto].
  Qed.
  Lemma skip_back_stop len i mn p j :
    p <= i -> mn < p -> codeat (p - 1) -> skip_back toks len i mn = ROk j -> p <= j.
  Proof. apply skip_back_aux_stop. Qed.

  (* ------------------------------------------------------------ one-code-token parsers *)
  Definition Code1 (i l : N) (m : mr) : Prop :=
    m = empty_at i \/ exists k, m = one_token i k /\ codeat i /\ i < l.

  Lemma match_node_code1 d : forall fuel nd i l t m,
    code1_b g d nd = true -> match_node g toks rx fuel nd i l t = ROk m -> Code1 i l m.
  Proof.
    induction d as [|d IH]; intros fuel nd i l t m Hc H; cbn [code1_b] in Hc; [discriminate|].
    destruct fuel as [|f]; cbn [match_node] in H; [discriminate|].
    unfold match_node_body, info in H.
    destruct (get (g_nodes g) nd) as [inf|]; [|discriminate]. cbn [bind] in H.
    destruct (n_node inf); try discriminate.
    - destruct target as [tg|]; [|discriminate].
      inv_bind H. destruct a; [inversion H; subst; left; reflexivity|].
      eapply IH; eassumption.
    - inv_bind H. apply tok_get in Ha as [Hl Hg].
      destruct (p_code a) eqn:Ec; cbn [andb] in H;
        [destruct (p_upper a =? upper)|]; inversion H; subst; try (left; reflexivity).
      right. exists kind. repeat split; auto. exists a. auto.
    - inv_bind H. apply tok_get in Ha as [Hl Hg].
      destruct (p_code a) eqn:Ec; cbn [andb] in H;
        [destruct (memN (p_upper a) uppers)|]; inversion H; subst; try (left; reflexivity).
      right. exists kind. repeat split; auto. exists a. auto.
  Qed.

  (* ------------------------------------------------------------ the invariants *)
  (** of a match returned for [(idx, len)] *)
  Record Q (idx len : N) (m : mr) : Prop := {
    q_wf : wf n m = true;
    q_ch : forall c, In c (mr_ch m) -> mr_start c < len;
    q_lt : idx < len -> has_match m = true -> mr_start m < len;
    q_st : codeat idx -> has_match m = true -> mr_start m = idx }.

  (** of a working match that [append] extends *)
  Record A (idx len : N) (a : mr) : Prop := {
    a_wf : wf n a = true;
    a_ch : forall c, In c (mr_ch a) -> mr_start c < len;
    a_lt : has_match a = true -> mr_start a < len;
    a_st : codeat idx -> mr_start a = idx }.

  Lemma Q_empty idx len : idx <= n -> Q idx len (empty_at idx).
  Proof.
    intro H. split; cbn; try (rewrite has_match_empty_at; discriminate).
    - apply wf_nil. exact H.
    - intros c [].
  Qed.
  Lemma Q_empty_any idx len j : j <= n -> Q idx len (empty_at j).
  Proof.
    intro H. split; cbn; try (rewrite has_match_empty_at; discriminate).
    - apply wf_nil. exact H.
    - intros c [].
  Qed.
  Lemma A_empty idx len : idx <= n -> A idx len (empty_at idx).
  Proof.
    intro H. split; cbn; try (rewrite has_match_empty_at; discriminate); auto.
    - apply wf_nil. exact H.
    - intros c [].
  Qed.
  Lemma A_Q idx len a : A idx len a -> Q idx len a.
  Proof. intros [H1 H2 H3 H4]. split; auto. Qed.

  (** a match whose start is the start index *)
  Lemma Q_at idx len m :
    wf n m = true -> (forall c, In c (mr_ch m) -> mr_start c < len) -> mr_start m = idx -> Q idx len m.
  Proof. intros H1 H2 H3. split; auto. intros. lia. Qed.

  Lemma Q_len idx l1 l2 m : l1 <= l2 -> Q idx l1 m -> idx < l1 \/ has_match m = false -> Q idx l2 m.
  Proof.
    intros Hl [H1 H2 H3 H4] Hor. split; auto.
    - intros c Hc. specialize (H2 c Hc). lia.
    - intros _ Hm. destruct Hor as [Hor|Hor]; [specialize (H3 Hor Hm); lia|congruence].
  Qed.

  Lemma flat_ch_lt idx len x :
    Q idx len x -> idx < len -> has_match x = true -> forall c, In c (flat_ch x) -> mr_start c < len.
  Proof.
    intros [H1 H2 H3 H4] Hi Hm c Hc. unfold flat_ch in Hc. destruct (is_some (mr_matched x)).
    - destruct Hc as [<-|[]]. auto.
    - auto.
  Qed.

  Lemma Q_wrap idx len x k : idx < len -> Q idx len x -> Q idx len (wrap x (MKind k)).
  Proof.
    intros Hi Hq. pose proof Hq as [H1 H2 H3 H4].
    unfold wrap. destruct (mr_is_empty x) eqn:Ee; [exact Hq|].
    rewrite is_empty_has_match in Ee. apply negb_false_iff in Ee.
    split; cbn [mr_ch mr_start].
    - pose proof (wrap_wf n x k H1) as Hw. unfold wrap in Hw.
      rewrite is_empty_has_match, Ee in Hw. exact Hw.
    - apply (flat_ch_lt idx len x Hq Hi Ee).
    - intros _ _. auto.
    - intros Hc _. auto.
  Qed.

  (** [append] on a working match *)
  Lemma flat_ch_lt' len x :
    (forall c, In c (mr_ch x) -> mr_start c < len) -> mr_start x < len ->
    forall c, In c (flat_ch x) -> mr_start c < len.
  Proof.
    intros H1 H2 c Hc. unfold flat_ch in Hc. destruct (is_some (mr_matched x)); [|auto].
    destruct Hc as [<-|[]]. exact H2.
  Qed.

  Lemma A_append idx len a b :
    A idx len a -> wf n b = true -> (forall c, In c (mr_ch b) -> mr_start c < len) ->
    has_match b = true -> mr_start b < len -> mr_end a <= mr_start b ->
    (codeat idx -> mr_is_empty a = true -> mr_start b = idx) ->
    A idx len (append a b).
  Proof.
    intros [A1 A2 A3 A4] Hb Hbc Hbm Hbs Hle Hst.
    unfold append. destruct (mr_is_empty a) eqn:Ea.
    - split; auto.
    - rewrite is_empty_has_match, Hbm. cbn [negb].
      rewrite is_empty_has_match in Ea. apply negb_false_iff in Ea.
      split; cbn [mr_ch mr_start].
      + pose proof (append_wf n a b A1 Hb Hle) as Hw. unfold append in Hw.
        rewrite !is_empty_has_match, Ea, Hbm in Hw. exact Hw.
      + intros c Hc. apply in_app_or in Hc as [Hc|Hc]; [apply (flat_ch_lt' len a); auto|apply (flat_ch_lt' len b); auto].
      + auto.
      + auto.
  Qed.

  Lemma append_end_r a b : has_match b = true -> mr_end (append a b) = mr_end b.
  Proof.
    intro H. unfold append. destruct (mr_is_empty a); [reflexivity|].
    rewrite is_empty_has_match, H. reflexivity.
  Qed.

  Lemma resolve_refs_all_some l : forall r, resolve_refs l = ROk r -> all_some l = Some r.
  Proof.
    induction l as [|[x|] l IH]; intros r H; cbn in *; [inversion H; auto| |discriminate].
    inv_bind H. inversion H; subst. rewrite (IH a Ha). reflexivity.
  Qed.

  (* ------------------------------------------------------------ with the recursive matcher *)
  Section WithRec.
    Variable rec : N -> N -> N -> list N -> res mr.
    Hypothesis HrecB : forall nd i l t m, i <= l -> rec nd i l t = ROk m -> B i l m.
    Hypothesis Hrec : forall nd i l t m, i <= l -> l <= n -> rec nd i l t = ROk m -> Q i l m.
    Hypothesis Hcode : forall nd i l t m,
      code1_b g ref_depth nd = true -> rec nd i l t = ROk m -> Code1 i l m.

    (* ---------------------------------------------------------- longest_match *)
    Lemma longest_loop_Q opts : forall idx len terms best bm m o,
      idx < len -> len <= n -> Q idx len best ->
      longest_loop g toks rec opts idx len terms best bm = ROk (m, o) -> Q idx len m.
    Proof.
      induction opts as [|op opts IH]; intros idx len terms best bm m o Hi Hl Hb H; cbn [longest_loop] in H.
      - inversion H; subst. exact Hb.
      - inv_bind H. inv_bind H. rename a0 into r.
        assert (Hr : Q idx len r) by (eapply Hrec; [|exact Hl|eassumption]; lia).
        destruct (has_match r && (mr_end r =? len)); [inversion H; subst; exact Hr|].
        destruct (mlen best <? mlen r).
        + destruct (is_empty opts); [inversion H; subst; exact Hr|].
          destruct (negb (is_empty terms)).
          * inv_bind H. destruct (a0 =? len); [inversion H; subst; exact Hr|].
            inv_bind H. destruct a1; [inversion H; subst; exact Hr|].
            eapply IH in H; [exact H|exact Hi|exact Hl|exact Hr].
          * eapply IH in H; [exact H|exact Hi|exact Hl|exact Hr].
        + eapply IH in H; [exact H|exact Hi|exact Hl|exact Hb].
    Qed.

    Lemma longest_match_Q len ms idx terms m o :
      idx <= len -> len <= n -> longest_match g toks rec len ms idx terms = ROk (m, o) ->
      Q idx len m /\ (has_match m = true -> idx < len /\ B idx len m).
    Proof.
      intros Hi Hl H. pose proof (longest_match_spec g toks rec HrecB _ _ _ _ _ _ H) as Hs.
      split.
      - unfold longest_match in H.
        destruct (is_empty ms || (idx =? len)); [inversion H; apply Q_empty; lia|].
        inv_bind H. destruct (is_empty a); [inversion H; apply Q_empty; lia|].
        inv_bind H. apply tok_get in Ha0 as [Hlt _].
        eapply longest_loop_Q; [exact Hlt|exact Hl| |exact H]. apply Q_empty. lia.
      - intro Hm. destruct Hs as [->|Hs]; [rewrite has_match_empty_lit in Hm; discriminate|exact Hs].
    Qed.

    (* ---------------------------------------------------------- next_match *)
    Lemma first_matching_sound cs : forall i len terms r c,
      first_matching rec cs i len terms = ROk (Some (r, c)) ->
      In c cs /\ rec c i len terms = ROk r /\ has_match r = true.
    Proof.
      induction cs as [|c0 cs IH]; intros i len terms r c H; cbn [first_matching] in H; [discriminate|].
      inv_bind H. destruct (has_match a) eqn:E.
      - inversion H; subst. repeat split; auto. now left.
      - apply IH in H as (H1 & H2 & H3). repeat split; auto. now right.
    Qed.

    Lemma nm_candidates_sub ms t : forall cs, nm_candidates g ms t = ROk cs -> incl cs ms.
    Proof.
      induction ms as [|m0 ms IH]; intros cs H; cbn [nm_candidates] in H; [inversion H; intros x []|].
      inv_bind H. inv_bind H. specialize (IH _ Ha0).
      destruct a as [[[raws tys] al]|]; [|discriminate].
      destruct (memN (p_ftr t) raws || intersects (p_types t) tys); inversion H; subst.
      - intros x [<-|Hx]; [now left|right; auto].
      - intros x Hx. right. auto.
    Qed.

    Lemma next_match_scan_sound k : forall i len ms terms r c,
      next_match_scan g toks rec k i len ms terms = ROk (Some (r, c)) ->
      exists j, i <= j /\ j < len /\ In c ms /\ rec c j len terms = ROk r /\ has_match r = true.
    Proof.
      induction k as [|k IH]; intros i len ms terms r c H; cbn [next_match_scan] in H; [discriminate|].
      destruct (i <? len) eqn:E; [|discriminate]. b2p.
      inv_bind H. inv_bind H. inv_bind H.
      destruct a1 as [[r' c']|].
      - inversion H; subst. apply first_matching_sound in Ha1 as (H1 & H2 & H3).
        exists i. repeat split; auto; try lia. eapply nm_candidates_sub; eassumption.
      - apply IH in H as (j & J1 & J2 & J3). exists j. repeat split; try tauto; lia.
    Qed.

    Lemma next_match_sound len idx ms terms m o :
      next_match g toks rec len idx ms terms = ROk (m, o) ->
      match o with
      | Some c => exists j, idx <= j /\ j < len /\ In c ms /\ rec c j len terms = ROk m /\ has_match m = true
      | None => m = empty_at idx
      end.
    Proof.
      unfold next_match. intro H.
      destruct (len <=? idx); [inversion H; reflexivity|].
      inv_bind H. inv_bind H. destruct a0 as [[r c]|]; inversion H; subst; [|reflexivity].
      eapply next_match_scan_sound; eassumption.
    Qed.

    (* ---------------------------------------------------------- brackets *)
    Definition bracket_R (so eo i k : N) (ch : list mr) : mr :=
      MR so (i + 1) None [(eo, k_indent g); (i, k_dedent g)] (ch ++ [one_token i k]).
    Definition bracket_res (pb : bool) (so eo i k : N) (ch : list mr) : mr :=
      if pb then wrap (bracket_R so eo i k ch) (MKind (k_bracketed g)) else bracket_R so eo i k ch.

    Lemma bracket_R_wf so eo i k ch :
      wf n (MR so i None [(eo, k_indent g)] ch) = true -> i < n -> wf n (bracket_R so eo i k ch) = true.
    Proof.
      intros H Hi.
      apply (wf_add_ins n so i _ ch i [k_dedent g]) in H; [|lia|lia|exact Hn].
      apply (wf_add_child n so i _ ch (one_token i k)) in H; [exact H|apply wf_one_token; exact Hi|cbn; lia].
    Qed.

    Lemma bracket_res_facts pb so eo i k ch :
      let r := bracket_res pb so eo i k ch in
      mr_start r = so /\ mr_end r = i + 1 /\ mr_ins r = [(eo, k_indent g); (i, k_dedent g)] /\
      mr_ch r = ch ++ [one_token i k] /\
      mr_matched r = (if pb then Some (MKind (k_bracketed g)) else None) /\ has_match r = true.
    Proof.
      assert (E : mr_is_empty (bracket_R so eo i k ch) = false).
      { unfold mr_is_empty, has_match. cbn. rewrite orb_true_r. reflexivity. }
      unfold bracket_res, wrap. rewrite E. destruct pb; cbn; unfold has_match; cbn;
        rewrite orb_true_r; repeat split; reflexivity.
    Qed.

    Lemma bracket_res_wf pb so eo i k ch :
      wf n (MR so i None [(eo, k_indent g)] ch) = true -> i < n -> wf n (bracket_res pb so eo i k ch) = true.
    Proof.
      intros H Hi. unfold bracket_res. destruct pb; [apply wrap_wf|]; apply bracket_R_wf; assumption.
    Qed.

    Lemma opening_inv o :
      wf n o = true -> wf n (MR (mr_start o) (mr_end o) None [(mr_end o, k_indent g)] [o]) = true.
    Proof.
      intro H. destruct (wf_span n o H) as [H1 H2].
      assert (H0 : wf n (MR (mr_start o) (mr_start o) None [] []) = true) by (apply wf_nil; lia).
      apply (wf_add_child n _ _ _ _ o) in H0; [|exact H|lia].
      apply (wf_add_ins n _ _ _ _ (mr_end o) [k_indent g]) in H0; [exact H0|lia|lia|exact Hn].
    Qed.

    Lemma closers_safe_in starts ends y :
      closers_safe_b g starts ends = true -> In y (starts ++ ends) -> mcontains g ends y = true ->
      code1_b g ref_depth y = true.
    Proof.
      unfold closers_safe_b. intros H Hin Hc. rewrite forallb_forall in H. specialize (H y Hin).
      rewrite Hc in H. exact H.
    Qed.

    Lemma rb_loop_wf fl : forall len opening ti starts ends pers terms nested mi ch r,
      len <= n -> closers_safe_b g starts ends = true ->
      wf n (MR (mr_start opening) mi None [(mr_end opening, k_indent g)] ch) = true ->
      mr_start opening <= mr_end opening -> mr_end opening <= mi -> mi <= len ->
      (forall c, In c ch -> mr_start c <= mi) ->
      rb_loop g toks rec fl len opening ti starts ends pers terms nested mi ch = ROk r ->
      exists i k ch' pb,
        wf n (MR (mr_start opening) i None [(mr_end opening, k_indent g)] ch') = true /\
        (forall c, In c ch' -> mr_start c <= i) /\
        (nested = false -> ch' = ch) /\ mi <= i /\ i < len /\ codeat i /\
        r = bracket_res pb (mr_start opening) (mr_end opening) i k ch'.
    Proof.
      induction fl as [|fl IH]; intros len opening ti starts ends pers terms nested mi ch r
        Hl Hsafe Hwf Ho Hmi Hlen Hch H; cbn [rb_loop] in H; [discriminate|].
      inv_bind H. destruct a as [m mt].
      pose proof (next_match_spec g toks rec HrecB _ _ _ _ _ _ Hlen Ha) as (Hm1 & Hm2 & Hm3).
      apply next_match_sound in Ha.
      destruct (negb (has_match m)) eqn:Ehm; [discriminate|]. apply negb_false_iff in Ehm.
      destruct mt as [mt|]; [|discriminate].
      destruct Ha as (j & J1 & J2 & J3 & J4 & J5).
      assert (Hqm : Q j len m) by (eapply Hrec; [|exact Hl|exact J4]; lia).
      destruct (mcontains g ends mt) eqn:Ec.
      - destruct (mposition g ends mt) as [ci|]; [|discriminate].
        destruct (ci =? ti); [|discriminate].
        destruct (nth_bool pers ti) as [p|]; [|discriminate].
        pose proof (closers_safe_in _ _ _ Hsafe J3 Ec) as Hc1.
        destruct (Hcode _ _ _ _ _ Hc1 J4) as [->|(k & -> & Hcj & _)];
          [rewrite has_match_empty_at in Ehm; discriminate|].
        cbn [mr_start mr_end one_token] in *.
        exists j, k, ch, p. repeat split; auto; try lia.
        + eapply wf_extend; [exact Hwf|lia|lia].
        + intros c Hc. specialize (Hch c Hc). lia.
        + unfold bracket_res, bracket_R. destruct p; inversion H; reflexivity.
      - destruct (mposition g starts mt) as [ti'|]; [|discriminate].
        inv_bind H. rename a into inner.
        pose proof (q_wf _ _ _ Hqm) as Hwm.
        eapply IH in Ha; [|exact Hl|exact Hsafe|apply opening_inv; exact Hwm|lia|lia|lia|].
        2:{ intros c [<-|[]]. lia. }
        destruct Ha as (i' & k' & ch'' & pb' & W1 & W2 & W3 & W4 & W5 & W6 & ->).
        destruct (bracket_res_facts pb' (mr_start m) (mr_end m) i' k' ch'') as (F1 & F2 & F3 & F4 & F5 & F6).
        pose proof (bracket_res_wf pb' _ _ _ k' _ W1 ltac:(lia)) as Hwi.
        rewrite F2 in H.
        eapply IH in H; [|exact Hl|exact Hsafe| |exact Ho|lia|lia|].
        + destruct H as (i & k & ch' & pb & X1 & X2 & X3 & X4 & X5 & X6 & X7).
          exists i, k, ch', pb. repeat split; auto; try lia.
          intros ->. apply X3. reflexivity.
        + destruct nested.
          * rewrite <- F2. eapply wf_add_child; [exact Hwf|exact Hwi|rewrite F1; lia].
          * eapply wf_extend; [exact Hwf|lia|lia].
        + destruct nested.
          * intros c Hc. apply in_app_or in Hc as [Hc|[<-|[]]]; [specialize (Hch c Hc); lia|rewrite F1; lia].
          * intros c Hc. specialize (Hch c Hc). lia.
    Qed.

    Lemma resolve_bracket_wf fl len opening opener starts ends pers terms nested r :
      len <= n -> closers_safe_b g starts ends = true -> wf n opening = true ->
      mr_end opening <= len ->
      resolve_bracket g toks rec fl len opening opener starts ends pers terms nested = ROk r ->
      exists i k ch' pb,
        wf n (MR (mr_start opening) i None [(mr_end opening, k_indent g)] ch') = true /\
        (forall c, In c ch' -> mr_start c <= i) /\
        (nested = false -> ch' = [opening]) /\ mr_end opening <= i /\ i < len /\ codeat i /\
        r = bracket_res pb (mr_start opening) (mr_end opening) i k ch'.
    Proof.
      unfold resolve_bracket. intros Hl Hsafe Hw He H.
      destruct (mposition g starts opener); [|discriminate].
      destruct (wf_span n opening Hw) as [H1 H2].
      eapply rb_loop_wf in H; [exact H|exact Hl|exact Hsafe|apply opening_inv; exact Hw|lia|lia|lia|].
      intros c [<-|[]]. lia.
    Qed.

    (* ---------------------------------------------------------- next_ex_bracket_match / greedy_match *)
    (** the bracket children collected so far: an ordered chain inside [base, mi], every bracket
        non-empty and ending with a code token *)
    Definition ChI (base mi len : N) (ch : list mr) : Prop :=
      wf n (MR base mi None [] ch) = true /\
      forall c, In c ch -> mr_start c < len /\ mr_start c < mr_end c /\ codeat (mr_end c - 1).

    Lemma ChI_nil base mi len : base <= mi -> mi <= n -> ChI base mi len [].
    Proof. intros H1 H2. split; [apply wf_from_span; assumption|intros c []]. Qed.

    Lemma ChI_extend base mi mi' len ch : ChI base mi len ch -> mi <= mi' -> mi' <= n -> ChI base mi' len ch.
    Proof. intros [H1 H2] Hle Hn'. split; [eapply wf_extend; eassumption|exact H2]. Qed.

    Lemma ChI_in base mi len ch c : ChI base mi len ch -> In c ch -> base <= mr_start c /\ mr_end c <= mi.
    Proof. intros [H1 _] Hc. exact (wf_children_start n _ c H1 Hc). Qed.

    Lemma ChI_app base w mi len ch inner :
      ChI base w len ch -> ChI w mi len inner -> ChI base mi len (ch ++ inner).
    Proof.
      intros [H1 H2] [H3 H4]. split.
      - apply wf_node_elim in H3 as [Hc3 Hn3].
        change (@nil (N * N)) with (@nil (N * N) ++ []).
        eapply wf_cat_gen; [exact H1|exact Hc3|exact Hn3|lia].
      - intros c Hc. apply in_app_or in Hc as [Hc|Hc]; auto.
    Qed.

    Lemma neb_loop_wf k : forall fl len idx base ms starts ends pers terms mi ch m o inner,
      len <= n -> closers_safe_b g starts ends = true -> base <= mi -> mi <= len -> ChI base mi len ch ->
      neb_loop g toks rec k fl len idx ms starts ends pers terms mi ch = ROk (m, o, inner) ->
      exists mi', base <= mi' /\ mi' <= len /\ ChI base mi' len inner /\ (has_match m = true -> mi' <= mr_start m).
    Proof.
      induction k as [|k IH]; intros fl len idx base ms starts ends pers terms mi ch m o inner
        Hl Hsafe Hb Hmi Hch H; cbn [neb_loop] in H; [discriminate|].
      inv_bind H. destruct a as [m0 mt].
      pose proof (next_match_spec g toks rec HrecB _ _ _ _ _ _ Hmi Ha) as (Hm1 & Hm2 & Hm3).
      apply next_match_sound in Ha.
      destruct (negb (has_match m0)) eqn:Ehm.
      { inversion H; subst. apply negb_true_iff in Ehm. exists mi.
        split; [lia|]. split; [lia|]. split; [exact Hch|]. congruence. }
      apply negb_false_iff in Ehm.
      destruct mt as [mt|]; [|discriminate].
      destruct Ha as (j & J1 & J2 & J3 & J4 & J5).
      destruct (mcontains g ms mt).
      { inversion H; subst. exists mi. split; [lia|]. split; [lia|]. split; [exact Hch|]. intros _. lia. }
      destruct (mcontains g ends mt).
      { inversion H; subst. exists mi. split; [lia|]. split; [lia|]. split; [apply ChI_nil; lia|].
        rewrite has_match_empty_at. discriminate. }
      inv_bind H. rename a into b.
      assert (Hqm : Q j len m0) by (eapply Hrec; [|exact Hl|exact J4]; lia).
      apply resolve_bracket_wf in Ha; [|exact Hl|exact Hsafe|exact (q_wf _ _ _ Hqm)|lia].
      destruct Ha as (i & kk & ch' & pb & W1 & W2 & W3 & W4 & W5 & W6 & ->).
      destruct (bracket_res_facts pb (mr_start m0) (mr_end m0) i kk ch') as (F1 & F2 & F3 & F4 & F5 & F6).
      pose proof (bracket_res_wf pb _ _ _ kk _ W1 ltac:(lia)) as Hwb.
      rewrite F2 in H.
      eapply IH in H; [exact H|exact Hl|exact Hsafe|lia|lia|].
      destruct Hch as [C1 C2]. split.
      - rewrite <- F2. eapply wf_add_child; [exact C1|exact Hwb|rewrite F1; lia].
      - intros c Hc. apply in_app_or in Hc as [Hc|[<-|[]]]; [auto|].
        rewrite F1, F2. replace (i + 1 - 1) with i by lia. repeat split; auto; lia.
    Qed.

    Hypothesis Hbr : brackets_safe_b g = true.

    Lemma next_ex_bracket_match_wf fl len idx ms terms m o inner :
      idx <= len -> len <= n -> next_ex_bracket_match g toks rec fl len idx ms terms = ROk (m, o, inner) ->
      exists mi', idx <= mi' /\ mi' <= len /\ ChI idx mi' len inner /\ (has_match m = true -> mi' <= mr_start m).
    Proof.
      unfold next_ex_bracket_match. intros Hi Hl H.
      destruct (len <=? idx).
      { inversion H; subst. exists idx. split; [lia|]. split; [lia|]. split; [apply ChI_nil; lia|].
        rewrite has_match_empty_at. discriminate. }
      inv_bind H. inv_bind H.
      apply resolve_refs_all_some in Ha, Ha0.
      assert (Hsafe : closers_safe_b g a a0 = true).
      { unfold brackets_safe_b in Hbr. rewrite Ha, Ha0 in Hbr. exact Hbr. }
      eapply neb_loop_wf in H; [exact H|exact Hl|exact Hsafe|lia|exact Hi|].
      apply ChI_nil; lia.
    Qed.

    Lemma greedy_loop_wf k : forall fl len idx ms terms it nested w ch m,
      idx <= w -> w <= len -> len <= n -> ChI idx w len ch ->
      greedy_loop g toks rec k fl len idx ms terms it nested w ch = ROk m -> Q idx len m.
    Proof.
      induction k as [|k IH]; intros fl len idx ms terms it nested w ch m Hw Hl Hln Hch H;
        cbn [greedy_loop] in H; [discriminate|].
      inv_bind H. destruct a as [[matched mt] inner].
      pose proof (next_ex_bracket_match_spec g toks rec HrecB _ _ _ _ _ _ _ _ Hl Ha) as (Hm1 & Hm2 & Hm3).
      apply next_ex_bracket_match_wf in Ha; [|exact Hl|exact Hln].
      destruct Ha as (mi' & M1 & M2 & M3 & M4).
      set (ch2 := if nested then ch ++ inner else ch) in *.
      assert (Hch2 : ChI idx mi' len ch2).
      { unfold ch2. destruct nested; [eapply ChI_app; eassumption|eapply ChI_extend; [exact Hch|lia|lia]]. }
      assert (Hlt : forall c, In c ch2 -> mr_start c < len) by (intros c Hc; apply (proj2 Hch2 c Hc)).
      destruct (negb (has_match matched)) eqn:Ehm.
      { inversion H; subst. apply Q_at; [|exact Hlt|reflexivity].
        eapply wf_extend; [exact (proj1 Hch2)|lia|lia]. }
      apply negb_false_iff in Ehm. specialize (M4 Ehm).
      destruct mt as [mt|]; [|discriminate].
      inv_bind H. destruct a as [[[raws tys] alpha]|]; [|discriminate].
      inv_bind H. destruct (negb a).
      - eapply IH in H; [exact H|lia|lia|exact Hln|].
        eapply ChI_extend; [exact Hch2|lia|lia].
      - destruct it.
        { inversion H; subst. apply Q_at; [|intros c []|reflexivity]. apply wf_from_span; lia. }
        inv_bind H. rename a0 into stop2.
        pose proof (skip_back_spec toks _ _ _ _ Ha1) as [Hs1 Hs2].
        destruct (idx =? stop2) eqn:E; b2p; inversion H; subst.
        + apply Q_at; [|exact Hlt|reflexivity].
          eapply wf_extend; [exact (proj1 Hch2)|lia|lia].
        + apply Q_at; [|exact Hlt|reflexivity].
          eapply wf_reend; [exact (proj1 Hch2)|lia|lia| |intros q []].
          intros c Hc. destruct (proj2 Hch2 c Hc) as (C1 & C2 & C3).
          destruct (ChI_in _ _ _ _ _ Hch2 Hc) as [C4 C5].
          eapply skip_back_stop; [| |exact C3|exact Ha1]; lia.
    Qed.

    Lemma greedy_match_wf fl len idx ms terms it nested m :
      idx <= len -> len <= n -> greedy_match g toks rec fl len idx ms terms it nested = ROk m -> Q idx len m.
    Proof.
      intros Hi Hl H. eapply greedy_loop_wf in H; [exact H|lia|exact Hi|exact Hl|apply ChI_nil; lia].
    Qed.

    (** what [trim_to_terminator] returns is the start index or lies right behind a code token *)
    Lemma trim_to_terminator_code fl len idx ts terms j :
      idx <= len -> trim_to_terminator g toks rec fl len idx ts terms = ROk j ->
      j = idx \/ (idx < j /\ codeat (j - 1)).
    Proof.
      unfold trim_to_terminator. intros Hi H.
      destruct (len <=? idx) eqn:E; b2p; [inversion H; subst; left; lia|].
      inv_bind H. inv_bind H. destruct a0; [inversion H; subst; auto|].
      inv_bind H. apply (greedy_match_spec g toks rec HrecB) in Ha1; [|exact Hi]. destruct Ha1 as (H1 & H2 & H3).
      pose proof (skip_back_spec toks _ _ _ _ H) as [S1 S2].
      destruct (N.eq_dec j idx) as [->|Hne]; [auto|]. right. split; [lia|].
      eapply skip_back_code; [exact H|lia].
    Qed.

    (* ---------------------------------------------------------- Sequence *)
    Lemma pmode_eqb_eq a b : pmode_eqb a b = true <-> a = b.
    Proof. destruct a, b; cbn; split; intro H; try reflexivity; discriminate. Qed.

    (** the part of [seq_elem] that handles an element which is not a meta *)
    Definition seq_body (fl : nat) (d : seq_d) (len start_idx : N) (terms : list N) (st : sstate) (e : N)
      : res step_r :=
      let matched_idx := s_matched st in
      let max_idx := s_max st in
      idx <- (if sq_gaps d then skip_fwd toks len matched_idx max_idx else ROk matched_idx) ;;
      if max_idx <=? idx then
        o <- opt_of g e ;;
        if o then ROk (Cont st)
        else if pmode_eqb (sq_mode d) Strict || (matched_idx =? start_idx) then ROk (Ret (empty_at start_idx))
        else ROk (Ret (MR start_idx matched_idx (Some (MKind (k_unparsable g)))
                          (s_ins st ++ map (fun k => (matched_idx, k)) (s_buf st)) (s_ch st)))
      else
        (if len <? max_idx then RPanic PIndex else ROk tt) ;;;
        em <- rec e idx max_idx terms ;;
        if negb (has_match em) then
          o <- opt_of g e ;;
          if o then ROk (Cont st)
          else if pmode_eqb (sq_mode d) Strict then ROk (Ret (empty_at start_idx))
          else if pmode_eqb (sq_mode d) GreedyOnceStarted && (matched_idx =? start_idx) then ROk (Ret (empty_at start_idx))
          else if matched_idx =? start_idx then ROk (Ret (unparsable g start_idx max_idx))
          else
            u <- skip_fwd toks len matched_idx max_idx ;;
            ROk (Ret (MR start_idx max_idx None (s_ins st) (s_ch st ++ [unparsable g u max_idx])))
        else
          let ins := s_ins st ++ flush_metas g matched_idx idx (s_buf st) in
          let matched_idx' := mr_end em in
          newmax <- (if s_first st && pmode_eqb (sq_mode d) GreedyOnceStarted
                     then trim_to_terminator g toks rec fl len matched_idx' (sq_terms d ++ terms) terms
                     else ROk max_idx) ;;
          let first' := if pmode_eqb (sq_mode d) GreedyOnceStarted then false else s_first st in
          if is_some (mr_matched em)
          then ROk (Cont (mkS matched_idx' newmax ins (s_ch st ++ [em]) first' []))
          else ROk (Cont (mkS matched_idx' newmax (ins ++ mr_ins em) (s_ch st ++ mr_ch em) first' [])).

    Lemma seq_elem_unfold fl d len si terms st e :
      seq_elem g toks rec fl d len si terms st e =
      (ie <- info g e ;;
       match n_node ie with
       | GCond k en => ROk (Cont (mkS (s_matched st) (s_max st) (s_ins st) (s_ch st) (s_first st)
                                      (if en then s_buf st ++ [k] else s_buf st)))
       | GMeta k => ROk (Cont (mkS (s_matched st) (s_max st) (s_ins st) (s_ch st) (s_first st) (s_buf st ++ [k])))
       | _ => seq_body fl d len si terms st e
       end).
    Proof.
      unfold seq_elem, seq_body. destruct (info g e) as [ie| | |]; cbn [bind]; [|reflexivity..].
      destruct (n_node ie); reflexivity.
    Qed.

    Definition mode_T (d : seq_d) (si : N) (st : sstate) : Prop :=
      sq_mode d = Strict \/ (s_max st <= s_matched st \/ codeat (s_max st - 1))
      \/ (sq_mode d = GreedyOnceStarted /\ s_first st = true /\ s_matched st = si).

    Record SI (d : seq_d) (si len : N) (st : sstate) : Prop := {
      si_wf : wf n (MR si (s_matched st) None (s_ins st) (s_ch st)) = true;
      si_ch : forall c, In c (s_ch st) -> mr_start c < len;
      si_b : si <= s_matched st /\ s_matched st <= s_max st /\ s_max st <= len;
      si_t : mode_T d si st }.

    Definition RetOK (si len : N) (m : mr) : Prop :=
      Q si len m /\ (is_some (mr_matched m) = true -> mr_start m < mr_end m).

    Lemma seq_body_wf fl d len si terms st e r :
      len <= n -> SI d si len st -> seq_body fl d len si terms st e = ROk r ->
      match r with Cont st' => SI d si len st' | Ret m => RetOK si len m end.
    Proof.
      unfold seq_body. intros Hl Hsi H. pose proof Hsi as [W C (I1 & I2 & I3) T].
      inv_bind H. rename a into idx'.
      assert (Hidx : s_matched st <= idx' /\ idx' <= s_max st)
        by (destruct (sq_gaps d); [apply skip_fwd_spec in Ha; lia|inversion Ha; subst; lia]).
      destruct (s_max st <=? idx') eqn:Emax; b2p.
      - inv_bind H. destruct a; [inversion H; subst; exact Hsi|].
        destruct (pmode_eqb (sq_mode d) Strict || (s_matched st =? si)) eqn:E1;
          inversion H; subst; [split; [apply Q_empty; lia|cbn; discriminate]|].
        apply orb_false_iff in E1 as [_ E1]. b2p.
        split; [|cbn; lia].
        apply Q_at; [|exact C|reflexivity].
        apply wf_name; [|left; lia].
        apply wf_add_ins with (e := s_matched st); [exact W|lia|lia|exact Hn].
      - inv_bind H. inv_bind H. rename a0 into em.
        assert (Hqe : Q idx' (s_max st) em) by (eapply Hrec; [| |eassumption]; lia).
        assert (Hbe : B idx' (s_max st) em) by (eapply HrecB; [|eassumption]; lia).
        destruct Hbe as (E1 & E2 & E3).
        destruct (negb (has_match em)) eqn:Ehm.
        + inv_bind H. destruct a0; [inversion H; subst; exact Hsi|].
          destruct (pmode_eqb (sq_mode d) Strict) eqn:Es; [inversion H; subst; split; [apply Q_empty; lia|cbn; discriminate]|].
          destruct (pmode_eqb (sq_mode d) GreedyOnceStarted && (s_matched st =? si)) eqn:Eg;
            [inversion H; subst; split; [apply Q_empty; lia|cbn; discriminate]|].
          destruct (s_matched st =? si) eqn:Em; b2p.
          * inversion H; subst. split; [|cbn; lia]. apply Q_at; [|intros c []|reflexivity].
            apply wf_unparsable; lia.
          * inv_bind H. inversion H; subst. rename a0 into u.
            assert (Hu : s_matched st <= u /\ u < s_max st).
            { pose proof (skip_fwd_spec toks _ _ _ _ Ha3) as [U1 U2]. split; [exact U1|].
              destruct T as [T|[[T|T]|(_ & _ & T)]].
              - apply pmode_eqb_eq in T. congruence.
              - lia.
              - assert (u <= s_max st - 1) by (eapply skip_fwd_stop; [|exact T|exact Ha3]; lia). lia.
              - congruence. }
            split; [|cbn; discriminate]. apply Q_at; [| |reflexivity].
            -- exact (wf_add_child n _ _ _ _ (unparsable g u (s_max st)) W
                        ltac:(apply wf_unparsable; lia) ltac:(cbn; lia)).
            -- intros c Hc. apply in_app_or in Hc as [Hc|[<-|[]]]; [auto|cbn; lia].
        + apply negb_false_iff in Ehm.
          inv_bind H. rename a0 into newmax.
          assert (Hnm : mr_end em <= newmax /\ newmax <= len)
            by (destruct (s_first st && pmode_eqb (sq_mode d) GreedyOnceStarted);
                [apply (trim_to_terminator_spec g toks rec HrecB) in Ha2; lia|inversion Ha2; subst; lia]).
          unfold flush_metas in H.
          set (at_ := if existsb (ival_neg g) (s_buf st) then idx' else s_matched st) in *.
          assert (Hat : s_matched st <= at_ /\ at_ <= idx') by (unfold at_; destruct (existsb _ _); lia).
          pose proof (wf_add_ins n _ _ _ _ at_ (s_buf st) W ltac:(lia) ltac:(lia) Hn) as W1.
          pose proof (wf_cat n _ _ _ _ em W1 (q_wf _ _ _ Hqe) ltac:(lia)) as W2.
          assert (Hfl : forall c, In c (s_ch st ++ flat_ch em) -> mr_start c < len).
          { intros c Hc. apply in_app_or in Hc as [Hc|Hc]; [auto|].
            assert (mr_start c < s_max st) by (eapply flat_ch_lt; [exact Hqe| |exact Ehm|exact Hc]; lia). lia. }
          assert (HT : mode_T d si (mkS (mr_end em) newmax [] [] 
                          (if pmode_eqb (sq_mode d) GreedyOnceStarted then false else s_first st) [])).
          { unfold mode_T. cbn [s_max s_matched s_first].
            destruct (s_first st && pmode_eqb (sq_mode d) GreedyOnceStarted) eqn:Ef.
            - apply (trim_to_terminator_code) in Ha2; [|lia].
              right. left. destruct Ha2 as [->|[_ Hc]]; [left; lia|right; exact Hc].
            - inversion Ha2; subst.
              destruct T as [T|[[T|T]|(T1 & T2 & T3)]]; auto.
              + right. left. left. lia.
              + rewrite T2 in Ef. apply pmode_eqb_eq in T1. rewrite T1 in Ef. discriminate. }
          unfold flat_ins, flat_ch in W2, Hfl.
          destruct (is_some (mr_matched em)); inversion H; subst; split; cbn [s_matched s_max s_ins s_ch s_first];
            try (rewrite app_nil_r in W2); auto; lia.
    Qed.

    Lemma seq_elem_wf fl d len si terms st e r :
      len <= n -> SI d si len st -> seq_elem g toks rec fl d len si terms st e = ROk r ->
      match r with Cont st' => SI d si len st' | Ret m => RetOK si len m end.
    Proof.
      intros Hl Hsi H. rewrite seq_elem_unfold in H. inv_bind H.
      destruct (n_node a); try (eapply seq_body_wf; eassumption);
        inversion H; subst; destruct Hsi as [W C I T]; split; auto.
    Qed.

    Lemma seq_loop_wf fl d len si terms es : forall st r,
      len <= n -> SI d si len st -> seq_loop g toks rec fl d len si terms st es = ROk r ->
      match r with Cont st' => SI d si len st' | Ret m => RetOK si len m end.
    Proof.
      induction es as [|e es IH]; intros st r Hl Hsi H; cbn [seq_loop] in H.
      - inversion H; subst. exact Hsi.
      - inv_bind H. pose proof (seq_elem_wf _ _ _ _ _ _ _ _ Hl Hsi Ha) as Hs.
        destruct a as [st'|m]; [eapply IH; eassumption|inversion H; subst; exact Hs].
    Qed.

    Lemma match_sequence_wf fl d len idx terms m :
      idx <= len -> len <= n -> match_sequence g toks rec fl d len idx terms = ROk m ->
      RetOK idx len m.
    Proof.
      unfold match_sequence. intros Hi Hl H.
      inv_bind H. rename a into max0.
      assert (Hmax : idx <= max0 /\ max0 <= len)
        by (destruct (pmode_eqb (sq_mode d) Greedy); [apply (trim_to_terminator_spec g toks rec HrecB) in Ha; lia|inversion Ha; subst; lia]).
      inv_bind H.
      assert (Hsi : SI d idx len (mkS idx max0 [] [] true [])).
      { split; cbn [s_matched s_max s_ins s_ch s_first]; [apply wf_nil; lia|intros c []|lia|].
        unfold mode_T. cbn [s_matched s_max s_first].
        destruct (sq_mode d) eqn:Em; cbn [pmode_eqb] in Ha; auto.
        - apply trim_to_terminator_code in Ha; [|exact Hi].
          right. left. destruct Ha as [->|[_ Hc]]; [left; lia|right; exact Hc]. }
      pose proof (seq_loop_wf _ _ _ _ _ _ _ _ Hl Hsi Ha0) as Hs.
      destruct a as [st|m'].
      2:{ inversion H; subst. exact Hs. }
      destruct Hs as [W C (S1 & S2 & S3) T].
      pose proof (wf_add_ins n _ _ _ _ (s_matched st) (s_buf st) W ltac:(lia) ltac:(lia) Hn) as W1.
      destruct (negb (pmode_eqb (sq_mode d) Strict) && (s_matched st <? s_max st)).
      - inv_bind H. inv_bind H. rename a into i. rename a0 into stop.
        pose proof (skip_fwd_spec toks _ _ _ _ Ha1) as [F1 F2].
        pose proof (skip_back_spec toks _ _ _ _ Ha2) as [K1 K2].
        destruct (i <? stop) eqn:E; b2p; inversion H; subst.
        + split; [|cbn; discriminate]. apply Q_at; [| |reflexivity].
          * exact (wf_add_child n _ _ _ _ (unparsable g i stop) W1
                     ltac:(apply wf_unparsable; lia) ltac:(cbn; lia)).
          * intros c Hc. apply in_app_or in Hc as [Hc|[<-|[]]]; [auto|cbn; lia].
        + split; [|cbn; discriminate]. apply Q_at; auto.
      - inversion H; subst. split; [|cbn; discriminate]. apply Q_at; auto.
    Qed.

    (* ---------------------------------------------------------- Bracketed *)
    Lemma match_bracketed_wf fl self found bs be pers gaps d len idx terms m :
      (forall sb eb, found = true -> bs = Some sb -> be = Some eb -> closers_safe_b g [sb] [eb] = true) ->
      idx <= len -> len <= n ->
      match_bracketed g toks rec fl self found bs be pers gaps d len idx terms = ROk m -> Q idx len m.
    Proof.
      unfold match_bracketed. intros Hsafe Hi Hl H.
      destruct found; cbn [negb] in H; [|discriminate].
      destruct bs as [sb|]; [|discriminate]. destruct be as [eb|]; [|discriminate].
      specialize (Hsafe sb eb eq_refl eq_refl eq_refl).
      inv_bind H. rename a into sm.
      assert (Hqs : Q idx len sm) by (eapply Hrec; eassumption).
      assert (Hbs : B idx len sm) by (eapply HrecB; eassumption). destruct Hbs as (S1 & S2 & S3).
      destruct (negb (has_match sm)) eqn:Ehs; [inversion H; subst; apply Q_empty; lia|].
      apply negb_false_iff in Ehs.
      inv_bind H. rename a into bm.
      apply resolve_bracket_wf in Ha0; [|exact Hl|exact Hsafe|exact (q_wf _ _ _ Hqs)|lia].
      destruct Ha0 as (i & k & ch' & pb & W1 & W2 & W3 & W4 & W5 & W6 & ->).
      specialize (W3 eq_refl). subst ch'.
      destruct (bracket_res_facts pb (mr_start sm) (mr_end sm) i k [sm]) as (F1 & F2 & F3 & F4 & F5 & F6).
      rewrite F1, F2, F3, F4, F5 in H. clear F1 F2 F3 F4 F5 F6.
      inv_bind H. clear Ha0. replace (i + 1 - 1) with i in H by lia.
      inv_bind H. rename a0 into i1.
      assert (Hi1 : mr_end sm <= i1 /\ i1 <= i).
      { destruct gaps; [|inversion Ha0; subst; lia].
        pose proof (skip_fwd_spec toks _ _ _ _ Ha0) as [X1 _]. split; [exact X1|].
        eapply skip_fwd_stop; [|exact W6|exact Ha0]. lia. }
      inv_bind H. rename a0 into e1.
      assert (He1 : i1 <= e1 /\ e1 <= i).
      { destruct gaps; [|inversion Ha1; subst; lia].
        pose proof (skip_back_spec toks _ _ _ _ Ha1) as [X1 X2]. lia. }
      inv_bind H. clear Ha2. inv_bind H. rename a1 into cm.
      assert (Hie : i1 <= e1) by lia.
      pose proof (match_sequence_spec g toks rec HrecB _ _ _ _ _ _ Hie Ha2) as (C1 & C2 & C3).
      apply match_sequence_wf in Ha2; [|lia|lia]. destruct Ha2 as [Hqc Hnamed].
      destruct (negb (mr_end cm =? e1) && pmode_eqb (sq_mode d) Strict);
        [inversion H; subst; apply Q_empty_any; lia|].
      destruct (negb gaps && (mr_end cm =? i)); [discriminate|].
      inversion H; subst. clear H.
      set (mt := if pb then Some (MKind (k_bracketed g)) else None).
      set (X := if is_some (mr_matched cm) then [cm] else mr_ch cm).
      assert (HX : forall x, In x X -> mr_start x < e1).
      { intros x Hx. unfold X in Hx. destruct (is_some (mr_matched cm)) eqn:En.
        - destruct Hx as [<-|[]]. specialize (Hnamed eq_refl). lia.
        - exact (q_ch _ _ _ Hqc x Hx). }
      (* the children in span order: opening, content, closing *)
      pose proof (opening_inv sm (q_wf _ _ _ Hqs)) as V0.
      assert (V1 : exists E, E <= e1 /\ wf n (MR (mr_start sm) E None [(mr_end sm, k_indent g)] ([sm] ++ X)) = true).
      { exists (mr_end cm). split; [exact C3|]. unfold X. destruct (is_some (mr_matched cm)).
        - apply wf_add_child with (e := mr_end sm); [exact V0|exact (q_wf _ _ _ Hqc)|lia].
        - apply wf_cat_children with (e := mr_end sm); [exact V0|exact (q_wf _ _ _ Hqc)|lia]. }
      destruct V1 as (E & HE & V1).
      apply (wf_add_ins n _ _ _ _ i [k_dedent g]) in V1; [|lia|lia|exact Hn].
      apply (wf_add_child n _ _ _ _ (one_token i k)) in V1; [|apply wf_one_token; lia|cbn; lia].
      cbn [mr_end one_token app map] in V1.
      assert (V2 : wf n (MR (mr_start sm) (i + 1) mt [(mr_end sm, k_indent g); (i, k_dedent g)]
                            ([sm] ++ X ++ [one_token i k])) = true).
      { unfold mt. change (sm :: X ++ [one_token i k]) with ([sm] ++ X ++ [one_token i k]) in V1.
        destruct pb; [|exact V1]. apply wf_name; [exact V1|right; left; discriminate]. }
      apply wf_move in V2; [|intros x Hx; specialize (HX x Hx); cbn; lia].
      clear V1. unfold X in V2, HX. clear X.
      destruct (is_some (mr_matched cm)); (split; cbn [mr_ch mr_start];
        [ exact V2
        | intros c [<-|[<-|Hc]]; [lia|cbn; lia|specialize (HX c Hc); lia]
        | intros _ _; lia
        | intros Hc _; exact (q_st _ _ _ Hqs Hc Ehs) ]).
    Qed.

    (* ---------------------------------------------------------- AnyNumberOf *)
    Lemma has_match_unparsable a b : a < b -> has_match (unparsable g a b) = true.
    Proof. intro H. unfold has_match, unparsable. cbn. destruct (N.eqb_spec a b); [lia|reflexivity]. Qed.

    Lemma is_empty_span idx len a : A idx len a -> mr_is_empty a = true -> codeat idx -> mr_end a = idx.
    Proof.
      intros Ha He Hc. rewrite is_empty_has_match in He. apply negb_true_iff in He.
      apply has_match_false in He as [He _]. rewrite <- He. exact (a_st _ _ _ Ha Hc).
    Qed.

    Lemma parse_mode_result_wf len cur mx mode idx r :
      A idx len cur -> B idx mx cur -> mx <= len -> len <= n ->
      parse_mode_result g toks len cur mx mode = ROk r -> Q idx len r.
    Proof.
      unfold parse_mode_result. intros Hc Hb Hmx Hl H.
      destruct (pmode_eqb mode Strict); [inversion H; subst; apply A_Q; exact Hc|].
      destruct (mr_end cur =? mx); [inversion H; subst; apply A_Q; exact Hc|].
      inv_bind H. destruct a; [inversion H; subst; apply A_Q; exact Hc|].
      inv_bind H. inversion H; subst. rename a into t.
      unfold all_noncode in Ha. destruct ((mr_end cur <=? mx) && (mx <=? len)); [|discriminate].
      assert (Ht : t < mx) by (eapply noncode_false_skip; [exact Ha|exact Hmx|exact Ha0]).
      pose proof (skip_fwd_spec toks _ _ _ _ Ha0) as [T1 _].
      apply A_Q. apply A_append; auto.
      - apply wf_unparsable; lia.
      - intros c [].
      - apply has_match_unparsable. exact Ht.
      - cbn. lia.
      - intros Hcd He. cbn. pose proof (is_empty_span _ _ _ Hc He Hcd) as Ee.
        rewrite Ee in Ha0. apply (skip_fwd_code _ _ _ _ Hcd Ha0).
    Qed.

    Lemma any_loop_wf k : forall d len idx mx terms nm cs mi wi matched r,
      idx <= mx -> mx <= len -> len <= n -> A idx len matched -> B idx mx matched ->
      mi = mr_end matched -> mi <= wi ->
      (codeat idx -> mr_is_empty matched = true -> wi = idx) ->
      any_loop g toks rec k d len idx mx terms nm cs mi wi matched = ROk r -> Q idx len r.
    Proof.
      induction k as [|k IH]; intros d len idx mx terms nm cs mi wi matched r Hi Hmx Hl Ha Hb Hmi Hwi Hst H;
        cbn [any_loop] in H; [discriminate|].
      destruct (((an_min d <=? nm) && (mx <=? mi)) || opt_le (an_max d) nm);
        [eapply parse_mode_result_wf; eassumption|].
      destruct (mx <=? mi); [inversion H; subst; apply Q_empty; lia|].
      inv_bind H. destruct a as [m mo].
      destruct (negb (has_match m)) eqn:Ehm.
      - eapply parse_mode_result_wf; [| |exact Hmx|exact Hl|exact H].
        + destruct (nm <? an_min d); [apply A_empty; lia|exact Ha].
        + destruct (nm <? an_min d); [apply B_empty; exact Hi|exact Hb].
      - apply negb_false_iff in Ehm.
        destruct mo as [o|]; [|discriminate].
        inv_bind H. destruct (bump a cs) as [cs' cnt].
        destruct (match cnt with Some c => opt_lt (an_max_per d) c | None => false end);
          [eapply parse_mode_result_wf; eassumption|].
        inv_bind H. rename a0 into w'.
        assert (Hwm : wi <= mx).
        { apply (longest_match_spec g toks rec HrecB) in Ha0. destruct Ha0 as [->|[Hw _]];
            [rewrite has_match_empty_lit in Ehm; discriminate|lia]. }
        apply longest_match_Q in Ha0; [|exact Hwm|lia]. destruct Ha0 as [Hqm Hmm].
        destruct (Hmm Ehm) as [Hw (M1 & M2 & M3)].
        assert (Ha' : A idx len (append matched m)).
        { apply A_append; auto.
          - exact (q_wf _ _ _ Hqm).
          - intros c Hc. pose proof (q_ch _ _ _ Hqm c Hc). lia.
          - pose proof (q_lt _ _ _ Hqm Hw Ehm). lia.
          - lia.
          - intros Hc He. rewrite (Hst Hc He) in *. exact (q_st _ _ _ Hqm Hc Ehm). }
        assert (Hb' : B idx mx (append matched m)).
        { apply B_append; [exact Hb|unfold B; destruct Hb; lia|lia]. }
        eapply IH in H; [exact H|exact Hi|exact Hmx|exact Hl|exact Ha'|exact Hb'|reflexivity| |].
        + destruct (an_gaps d); [apply skip_fwd_spec in Ha2; lia|inversion Ha2; subst; lia].
        + intros Hc He. pose proof (is_empty_span _ _ _ Ha' He Hc) as Ee. rewrite Ee in Ha2.
          destruct (an_gaps d); [exact (skip_fwd_code _ _ _ _ Hc Ha2)|inversion Ha2; reflexivity].
    Qed.

    Lemma match_anynumberof_wf fl d len idx terms m :
      idx <= len -> len <= n -> match_anynumberof g toks rec fl d len idx terms = ROk m -> Q idx len m.
    Proof.
      unfold match_anynumberof. intros Hi Hl H.
      inv_bind H. destruct a; [inversion H; subst; apply Q_empty; lia|].
      inv_bind H. inv_bind H. rename a0 into mx.
      assert (Hmx : idx <= mx /\ (mx <= len \/ pmode_eqb (an_mode d) Greedy = false)).
      { destruct (pmode_eqb (an_mode d) Greedy); [apply (trim_to_terminator_spec g toks rec HrecB) in Ha1; lia|inversion Ha1; subst; lia]. }
      inv_bind H. destruct (len <? mx) eqn:E; [discriminate|]. b2p.
      eapply any_loop_wf in H; [exact H|lia|lia|exact Hl|apply A_empty; lia|apply B_empty; lia|reflexivity|cbn; lia|].
      intros _ _. reflexivity.
    Qed.

    (* ---------------------------------------------------------- Delimited *)
    (** what is known of the remembered delimiter match while it is fresh ([seeking = false]) *)
    Definition DM (idx len w : N) (wm x : mr) : Prop :=
      wf n x = true /\ (forall c, In c (mr_ch x) -> mr_start c < len) /\ has_match x = true /\
      mr_start x < len /\ B idx len x /\ mr_end wm <= mr_start x /\ w = mr_end x /\
      (codeat idx -> mr_is_empty wm = true -> mr_start x = idx).

    Lemma DM_append idx len w wm x :
      A idx len wm -> B idx len wm -> DM idx len w wm x ->
      A idx len (append wm x) /\ B idx len (append wm x) /\ mr_end (append wm x) = w.
    Proof.
      intros Ha Hb (D1 & D2 & D3 & D4 & D5 & D6 & D7 & D8). split; [|split].
      - apply A_append; auto.
      - apply B_append; assumption.
      - rewrite append_end_r; auto.
    Qed.

    Lemma delim_finish_wf tr mn idx len sk dm dl w wm r :
      idx <= len -> len <= n -> A idx len wm -> B idx len wm ->
      (forall x, dm = Some x -> sk = false -> DM idx len w wm x) ->
      delim_finish tr mn idx sk dm dl wm = ROk r -> Q idx len r.
    Proof.
      unfold delim_finish. intros Hi Hl Ha Hb Hd H.
      destruct dm as [x|].
      - destruct (tr && negb sk) eqn:E.
        + apply andb_true_iff in E as [_ E]. apply negb_true_iff in E.
          destruct (DM_append _ _ _ _ _ Ha Hb (Hd x eq_refl E)) as (X1 & _ & _).
          destruct (dl + 1 <? mn); inversion H; subst; [apply Q_empty; lia|apply A_Q; exact X1].
        + destruct (dl <? mn); inversion H; subst; [apply Q_empty; lia|apply A_Q; exact Ha].
      - destruct (dl <? mn); inversion H; subst; [apply Q_empty; lia|apply A_Q; exact Ha].
    Qed.

    Lemma delim_loop_wf k : forall d delim tr mn len idx terms tms dl sk w wm dm r,
      idx <= w -> w <= len -> len <= n -> A idx len wm -> B idx len wm -> mr_end wm <= w ->
      (forall x, dm = Some x -> sk = false -> DM idx len w wm x) ->
      (sk = true -> w = mr_end wm) ->
      (sk = false -> dm = None -> w = idx) ->
      delim_loop g toks rec k d delim tr mn len idx terms tms dl sk w wm dm = ROk r -> Q idx len r.
    Proof.
      induction k as [|k IH]; intros d delim tr mn len idx terms tms dl sk w wm dm r
        Hw Hl Hln Ha Hb Hew Hdm Hsk Hinit H; cbn [delim_loop] in H; [discriminate|].
      assert (Hfin : forall r', delim_finish tr mn idx sk dm dl wm = ROk r' -> Q idx len r').
      { intros r' Hf. eapply delim_finish_wf; [| | | |exact Hdm|exact Hf]; auto; lia. }
      inv_bind H. rename a into w'.
      assert (Hw' : w <= w' /\ w' <= len /\ (w = idx -> w' = idx) /\ (codeat w -> w' = w)).
      { destruct (an_gaps d && (idx <? w)) eqn:E.
        - pose proof (skip_fwd_spec toks _ _ _ _ Ha0) as [X1 X2]. repeat split; try lia.
          + intros ->. apply andb_true_iff in E as [_ E]. b2p. lia.
          + intro Hc. exact (skip_fwd_code _ _ _ _ Hc Ha0).
        - inversion Ha0; subst. repeat split; auto; lia. }
      destruct Hw' as (W1 & W2 & W3 & W4).
      destruct (len <=? w'); [apply Hfin; exact H|].
      inv_bind H. destruct a as [tm tmo]. destruct (has_match tm); [apply Hfin; exact H|].
      inv_bind H. destruct a as [m mo].
      destruct (negb (has_match m)) eqn:Ehm; [apply Hfin; exact H|].
      apply negb_false_iff in Ehm.
      apply longest_match_Q in Ha2; [|exact W2|exact Hln]. destruct Ha2 as [Hqm Hmm].
      destruct (Hmm Ehm) as [Hlt (M1 & M2 & M3)].
      pose proof (q_wf _ _ _ Hqm) as Hwm.
      pose proof (q_ch _ _ _ Hqm) as Hcm.
      pose proof (q_lt _ _ _ Hqm Hlt Ehm) as Hsm.
      destruct sk.
      - (* the match is a delimiter: remember it *)
        specialize (Hsk eq_refl).
        eapply IH in H; [exact H|lia|lia|exact Hln|exact Ha|exact Hb|lia| | |].
        + intros x Hx _. inversion Hx; subst x. unfold DM. repeat split; auto; try lia.
          intros Hc He. pose proof (is_empty_span _ _ _ Ha He Hc) as Ee.
          assert (w = idx) by lia. rewrite (W3 H0) in *. exact (q_st _ _ _ Hqm Hc Ehm).
        + discriminate.
        + intros _ Hx. discriminate.
      - (* the match is an element *)
        destruct dm as [x|].
        + destruct (DM_append _ _ _ _ _ Ha Hb (Hdm x eq_refl eq_refl)) as (X1 & X2 & X3).
          assert (Ha2 : A idx len (append (append wm x) m)).
          { apply A_append; auto; try lia.
            intros Hc He. pose proof (is_empty_span _ _ _ X1 He Hc) as Ee.
            assert (w = idx) by lia. rewrite (W3 H0) in *. exact (q_st _ _ _ Hqm Hc Ehm). }
          assert (Hb2 : B idx len (append (append wm x) m)).
          { apply B_append; [exact X2|unfold B; destruct Hb; lia|lia]. }
          eapply IH in H; [exact H|lia|lia|exact Hln|exact Ha2|exact Hb2| | | |].
          * rewrite append_end_r; auto. lia.
          * intros y _ Hy. discriminate.
          * intros _. rewrite append_end_r; auto.
          * discriminate.
        + specialize (Hinit eq_refl eq_refl). rewrite (W3 Hinit) in *.
          assert (Ha2 : A idx len (append wm m)).
          { apply A_append; auto; try lia.
            intros Hc _. exact (q_st _ _ _ Hqm Hc Ehm). }
          assert (Hb2 : B idx len (append wm m)).
          { apply B_append; [exact Hb|unfold B; destruct Hb; lia|lia]. }
          eapply IH in H; [exact H|lia|lia|exact Hln|exact Ha2|exact Hb2| | | |].
          * rewrite append_end_r; auto. lia.
          * intros y Hy. discriminate.
          * intros _. rewrite append_end_r; auto.
          * discriminate.
    Qed.

    Lemma match_delimited_wf fl d delim tr mn len idx terms m :
      idx <= len -> len <= n -> match_delimited g toks rec fl d delim tr mn len idx terms = ROk m -> Q idx len m.
    Proof.
      unfold match_delimited. intros Hi Hl H.
      eapply delim_loop_wf in H; [exact H|lia|exact Hi|exact Hl|apply A_empty; lia|apply B_empty; exact Hi|cbn; lia| | |].
      - intros x Hx. discriminate.
      - discriminate.
      - reflexivity.
    Qed.

    (* ---------------------------------------------------------- one node *)
    Hypothesis Hnodes : forall nd i, get (g_nodes g) nd = Some i -> node_safe_b g i = true.

    Lemma match_node_body_wf fl nd idx len terms m :
      idx <= len -> len <= n -> match_node_body g toks rx rec fl nd idx len terms = ROk m -> Q idx len m.
    Proof.
      unfold match_node_body, info. intros Hi Hl H.
      destruct (get (g_nodes g) nd) as [inf|] eqn:Eg; [|discriminate]. cbn [bind] in H.
      pose proof (Hnodes _ _ Eg) as Hsafe. unfold node_safe_b in Hsafe.
      destruct (n_node inf).
      - (* GRef *)
        destruct target as [t|]; [|discriminate].
        inv_bind H. destruct a; [inversion H; subst; apply Q_empty; lia|].
        eapply Hrec; eassumption.
      - apply match_sequence_wf in H; [exact (proj1 H)|exact Hi|exact Hl].
      - eapply match_bracketed_wf; [|exact Hi|exact Hl|exact H].
        intros sb eb -> -> ->. exact Hsafe.
      - eapply match_anynumberof_wf; eassumption.
      - eapply match_delimited_wf; eassumption.
      - (* GNodeM *)
        destruct (len <=? idx) eqn:E; b2p; [inversion H; subst; apply Q_empty; lia|].
        inv_bind H. apply tok_get in Ha as [Hlt _].
        destruct (p_kind a =? kind).
        + inversion H; subst. apply Q_at; [apply wf_from_span; lia|intros c []|reflexivity].
        + inv_bind H. inversion H; subst. apply Q_wrap; [lia|]. eapply Hrec; eassumption.
      - inv_bind H. apply tok_get in Ha as [Hlt _].
        destruct (p_code a && (p_upper a =? upper)); inversion H; subst; [|apply Q_empty; lia].
        apply Q_at; [apply wf_one_token; lia|intros c []|reflexivity].
      - inv_bind H. apply tok_get in Ha as [Hlt _].
        destruct (p_code a && memN (p_upper a) uppers); inversion H; subst; [|apply Q_empty; lia].
        apply Q_at; [apply wf_one_token; lia|intros c []|reflexivity].
      - inv_bind H. apply tok_get in Ha as [Hlt _].
        destruct (p_kind a =? template); inversion H; subst; [|apply Q_empty; lia].
        apply Q_at; [apply wf_one_token; lia|intros c []|reflexivity].
      - inv_bind H. apply tok_get in Ha as [Hlt _].
        destruct (existsb _ rx); inversion H; subst; [|apply Q_empty; lia].
        apply Q_at; [apply wf_one_token; lia|intros c []|reflexivity].
      - discriminate.
      - destruct enabled; inversion H; subst; [|apply Q_empty; lia].
        apply Q_at; [|intros c []|reflexivity].
        exact (wf_add_ins n idx idx [] [] idx [kind] ltac:(apply wf_nil; lia) ltac:(lia) ltac:(lia) Hn).
      - destruct (is_empty terms0 && is_empty terms).
        + inversion H; subst. apply Q_at; [apply wf_from_span; lia|intros c []|reflexivity].
        + eapply greedy_match_wf; eassumption.
      - inversion H; subst. apply Q_empty. lia.
      - inv_bind H. destruct a as [j|]; [|inversion H; subst; apply Q_empty; lia].
        apply (noncode_scan_spec toks) in Ha.
        destruct (idx <? j); inversion H; subst; [|apply Q_empty; lia].
        apply Q_at; [apply wf_from_span; lia|intros c []|reflexivity].
      - inv_bind H. apply tok_get in Ha as [Hlt _].
        destruct (p_kind a =? k_bracketed g); inversion H; subst; [|apply Q_empty; lia].
        apply Q_at; [apply wf_from_span; lia|intros c []|reflexivity].
    Qed.
  End WithRec.

  (* ------------------------------------------------------------ tying the knot *)
  Hypothesis Hsafe : wf_safe_b g = true.

  Lemma safe_nodes : forall nd i, get (g_nodes g) nd = Some i -> node_safe_b g i = true.
  Proof.
    intros nd i E. unfold wf_safe_b in Hsafe. apply andb_true_iff in Hsafe as [H _].
    unfold get in E. apply PositiveMap.elements_correct in E.
    rewrite forallb_forall in H. exact (H _ E).
  Qed.
  Lemma safe_brackets : brackets_safe_b g = true.
  Proof. unfold wf_safe_b in Hsafe. apply andb_true_iff in Hsafe as [_ H]. exact H. Qed.

  Theorem match_node_Q fuel : forall nd idx len terms m,
    idx <= len -> len <= n -> match_node g toks rx fuel nd idx len terms = ROk m -> Q idx len m.
  Proof.
    induction fuel as [|f IH]; intros nd idx len terms m Hi Hl H; cbn [match_node] in H; [discriminate|].
    eapply (match_node_body_wf (match_node g toks rx f)); [| | | | |exact Hi|exact Hl|exact H].
    - exact (match_node_bounds g toks rx f).
    - exact IH.
    - intros nd0 i l t m0. apply match_node_code1.
    - exact safe_brackets.
    - exact safe_nodes.
  Qed.
End Wf.
