(** Keyword-case clause of C11 for the parser-engine interpreter.

    The interpreter sees a token only through [ptok]: code/meta flags, kind, class types and three
    interned strings that the translator computes from the token's raw text ([raw.to_ascii_uppercase()],
    [first_trimmed_raw], [first_non_whitespace_segment_raw_upper]).  For ASCII raws all three are
    functions of [upper raw].  Hence re-casing the raws of any tokens (keywords or not) — upper, lower,
    swap — without changing their kinds leaves the whole match result unchanged, for every grammar graph.
    What remains outside this theorem is the lexer's part of the clause (a re-cased keyword lexes to the
    same kind), observed by the C11 check. *)
From Coq Require Import FMapPositive.
From Sq Require Import Base.Bytes Apply.Model Pem.Model Layout.Model Layout.Proofs.

Section CaseInv.
  (** interning of strings and the "first word" function are arbitrary *)
  Variable h : str -> N.
  Variable first_word : str -> str.

  (** a lexed token before abstraction *)
  Record rtok := mkRtok { r_code : bool; r_meta : bool; r_kind : N; r_types : list N; r_raw : str }.

  Definition abs (t : rtok) : ptok :=
    mkPtok (r_code t) (r_meta t) (r_kind t) (r_types t)
           (h (upper (r_raw t)))
           (h (first_word (upper (r_raw t))))
           (if is_empty (r_raw t) then None else Some (h (upper (r_raw t)))).

  (** same token up to the ASCII letter case of its text *)
  Definition same_upto_case (a b : rtok) : Prop :=
    r_code a = r_code b /\ r_meta a = r_meta b /\ r_kind a = r_kind b /\ r_types a = r_types b
    /\ upper (r_raw a) = upper (r_raw b).

  Lemma upper_empty s : is_empty (upper s) = is_empty s.
  Proof. destruct s; reflexivity. Qed.

  Lemma abs_case a b : same_upto_case a b -> abs a = abs b.
  Proof.
    intros (Hc & Hm & Hk & Ht & Hu). unfold abs. rewrite Hc, Hm, Hk, Ht, Hu.
    replace (is_empty (r_raw a)) with (is_empty (r_raw b)); [reflexivity|].
    rewrite <- (upper_empty (r_raw a)), <- (upper_empty (r_raw b)), Hu. reflexivity.
  Qed.

  Theorem parse_case_invariant g rx fuel s e (l1 l2 : list rtok) :
    Forall2 same_upto_case l1 l2 ->
    parse_root g (toks_of_list (map abs l1)) rx fuel s e = parse_root g (toks_of_list (map abs l2)) rx fuel s e.
  Proof.
    intro H. replace (map abs l2) with (map abs l1); [reflexivity|].
    induction H as [|a b l1 l2 Hab _ IH]; [reflexivity|]. cbn. rewrite (abs_case a b Hab), IH. reflexivity.
  Qed.

  (** the three re-casings of the property *)
  Definition recase_tok (f : str -> str) (t : rtok) : rtok :=
    mkRtok (r_code t) (r_meta t) (r_kind t) (r_types t) (f (r_raw t)).

  Lemma recase_same f t : (forall s, upper (f s) = upper s) -> same_upto_case (recase_tok f t) t.
  Proof. intro Hf. unfold same_upto_case, recase_tok. cbn. repeat split; auto. Qed.

  Theorem parse_recase_invariant g rx fuel s e (l : list rtok) (pick : rtok -> bool) (f : str -> str) :
    (f = upper \/ f = lower \/ f = swapcase) ->
    parse_root g (toks_of_list (map abs (map (fun t => if pick t then recase_tok f t else t) l))) rx fuel s e
    = parse_root g (toks_of_list (map abs l)) rx fuel s e.
  Proof.
    intro Hf. apply parse_case_invariant.
    assert (Hu : forall s0, upper (f s0) = upper s0).
    { destruct Hf as [->|[->| ->]]; intro s0; [apply upper_idem|apply upper_lower|apply upper_swapcase]. }
    induction l as [|t l IH]; cbn; constructor; [|exact IH].
    destruct (pick t); [apply recase_same; exact Hu|].
    unfold same_upto_case. repeat split; reflexivity.
  Qed.
End CaseInv.
