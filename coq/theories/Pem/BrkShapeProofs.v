(** Bracket structure of the parser-engine interpreter, part 2: the theorem.

    For every grammar graph with [brk_safe_b g = true], every token stream, regex oracle, fuel, node, start
    index and terminator context: in every successful match, every node of kind [bracketed] - at any depth -
    has as its first child the opening bracket token (one re-tagged code token at the node's start), among
    its other children the closing bracket token (one re-tagged code token at the node's end - 1, behind the
    opening one), and the two are accepted by the start and the end parser of one and the same pair of a
    bracket set of the graph. *)
From Coq Require Import FMapPositive Lia.
From Sq Require Import Base.Bytes Apply.Model Apply.Proofs Pem.Model Pem.Bounds Pem.Wf Pem.WfSafe Pem.BrkShape.

Local Open Scope N_scope.

Section Shape.
  Variable g : grammar.
  Variable toks : PositiveMap.t ptok.
  Variable rx : list (N * N).

  Notation kb := (k_bracketed g).

  (** token [i] is a code token whose upper-cased text is one of [ups] *)
  Definition tok_in (i : N) (ups : list N) : bool :=
    match get toks i with Some tk => p_code tk && memN (p_upper tk) ups | None => false end.

  (** [(sb, eb)] is a bracket pair of the graph: of the dialect's set or of a [Bracketed] node *)
  Definition IsPair (sb eb : N) : Prop :=
    (exists p, In (Some sb, Some eb, p) (g_brackets g)) \/
    (exists n i f p ga d, get (g_nodes g) n = Some i /\ n_node i = GBracketed f (Some sb) (Some eb) p ga d).

  (** the children of a bracketed node spanning [s, e) *)
  Definition Shape (s e : N) (ch : list mr) : Prop :=
    exists ko kc rest sb eb us ue,
      ch = one_token s ko :: rest /\ In (one_token (e - 1) kc) rest /\ s + 1 < e /\
      IsPair sb eb /\ str_of g sb = Some (us, ko) /\ str_of g eb = Some (ue, kc) /\
      tok_in s us = true /\ tok_in (e - 1) ue = true.

  (** every bracketed node of the match tree *)
  Fixpoint Shapes (x : mr) : Prop :=
    match x with
    | MR s e m ins ch =>
        (m = Some (MKind kb) -> Shape s e ch) /\
        (fix all (l : list mr) : Prop := match l with [] => True | c :: l' => Shapes c /\ all l' end) ch
    end.

  Lemma Shapes_MR s e m ins ch :
    Shapes (MR s e m ins ch) <-> ((m = Some (MKind kb) -> Shape s e ch) /\ Forall Shapes ch).
  Proof.
    cbn [Shapes]. split; intros [H1 H2]; (split; [exact H1|]); clear H1.
    - induction ch as [|c ch IH]; [constructor|]. destruct H2 as [Hc H2]. constructor; [exact Hc|exact (IH H2)].
    - induction ch as [|c ch IH]; [exact I|]. inversion H2; subst. split; [assumption|apply IH; assumption].
  Qed.

  Lemma Shapes_unnamed s e ins ch : Forall Shapes ch -> Shapes (MR s e None ins ch).
  Proof. intro H. apply Shapes_MR. split; [discriminate|exact H]. Qed.
  Lemma Shapes_newtype s e k ins ch : Forall Shapes ch -> Shapes (MR s e (Some (MNewtype k)) ins ch).
  Proof. intro H. apply Shapes_MR. split; [discriminate|exact H]. Qed.
  Lemma Shapes_kind s e k ins ch : k <> kb -> Forall Shapes ch -> Shapes (MR s e (Some (MKind k)) ins ch).
  Proof. intros Hk H. apply Shapes_MR. split; [intro E; inversion E; contradiction|exact H]. Qed.
  Lemma Shapes_children x : Shapes x -> Forall Shapes (mr_ch x).
  Proof. destruct x. intro H. apply Shapes_MR in H. exact (proj2 H). Qed.
  Lemma Shapes_flat x : Shapes x -> Forall Shapes (flat_ch x).
  Proof.
    intro H. unfold flat_ch. destruct (is_some (mr_matched x)); [constructor; [exact H|constructor]|apply Shapes_children; exact H].
  Qed.
  Lemma Shapes_empty i : Shapes (empty_at i).
  Proof. apply Shapes_unnamed. constructor. Qed.
  Lemma Shapes_from_span a b : Shapes (from_span a b).
  Proof. apply Shapes_unnamed. constructor. Qed.
  Lemma Shapes_one_token i k : Shapes (one_token i k).
  Proof. apply Shapes_newtype. constructor. Qed.

  Lemma Shapes_wrap x k : k <> kb -> Shapes x -> Shapes (wrap x (MKind k)).
  Proof.
    intros Hk H. unfold wrap. destruct (mr_is_empty x); [exact H|]. apply Shapes_kind; [exact Hk|apply Shapes_flat; exact H].
  Qed.
  Lemma Shapes_append a b : Shapes a -> Shapes b -> Shapes (append a b).
  Proof.
    intros Ha Hb. unfold append. destruct (mr_is_empty a); [exact Hb|]. destruct (mr_is_empty b); [exact Ha|].
    apply Shapes_unnamed. apply Forall_app. split; apply Shapes_flat; assumption.
  Qed.

  Lemma Shape_more s e ch X : Shape s e ch -> Shape s e (ch ++ X).
  Proof.
    intros (ko & kc & rest & sb & eb & us & ue & -> & Hin & H).
    exists ko, kc, (rest ++ X), sb, eb, us, ue. split; [reflexivity|]. split; [apply in_or_app; left; exact Hin|exact H].
  Qed.

  Lemma wrap_bracket' s e a b ch o :
    wrap (MR s e None [(a, k_indent g); (b, k_dedent g)] ch) o
    = MR s e (Some o) [(a, k_indent g); (b, k_dedent g)] ch.
  Proof. unfold wrap, mr_is_empty, has_match. cbn. rewrite orb_true_r. reflexivity. Qed.

  Hypothesis Hunp : k_unparsable g <> kb.
  Lemma Shapes_unparsable a b : Shapes (unparsable g a b).
  Proof. apply Shapes_kind; [exact Hunp|constructor]. Qed.

  (* ------------------------------------------------------------ bracket sets *)
  Record SetOK (starts ends : list N) : Prop := {
    so_pair : forall i sb eb, nth_error starts i = Some sb -> nth_error ends i = Some eb -> IsPair sb eb;
    so_str : forall y, In y (starts ++ ends) -> exists u k, str_of g y = Some (u, k);
    so_eq : forall x y, In x (starts ++ ends) -> In y (starts ++ ends) -> meq g x y = true -> str_of g x = str_of g y }.

  Lemma list_eqb_N_eq' (a b : list N) : list_eqb N.eqb a b = true -> a = b.
  Proof.
    revert b. induction a as [|x a IH]; destruct b as [|y b]; cbn; intro H; try discriminate; [reflexivity|].
    apply andb_true_iff in H as [H1 H2]. apply N.eqb_eq in H1. rewrite (IH _ H2), H1. reflexivity.
  Qed.
  Lemma str_eqb_eq a b : str_eqb a b = true -> a = b.
  Proof.
    destruct a as [[u1 k1]|], b as [[u2 k2]|]; cbn; intro H; try discriminate; [|reflexivity].
    apply andb_true_iff in H as [H1 H2]. apply list_eqb_N_eq' in H1. apply N.eqb_eq in H2. subst. reflexivity.
  Qed.

  Lemma set_ok_SetOK starts ends :
    set_ok_b g starts ends = true ->
    (forall i sb eb, nth_error starts i = Some sb -> nth_error ends i = Some eb -> IsPair sb eb) ->
    SetOK starts ends.
  Proof.
    unfold set_ok_b. intros H Hp. apply andb_true_iff in H as [H H3]. apply andb_true_iff in H as [_ H2].
    rewrite forallb_forall in H2, H3. split; [exact Hp| |].
    - intros y Hy. specialize (H2 y Hy). destruct (str_of g y) as [[u k]|]; [eauto|discriminate].
    - intros x y Hx Hy Hm. specialize (H3 y Hy). rewrite forallb_forall in H3. specialize (H3 x Hx).
      rewrite Hm in H3. cbn in H3. apply str_eqb_eq. exact H3.
  Qed.

  Lemma mposition_spec l : forall x i, mposition g l x = Some i ->
    exists y, nth_error l (N.to_nat i) = Some y /\ meq g y x = true.
  Proof.
    induction l as [|y l IH]; intros x i H; cbn [mposition] in H; [discriminate|].
    destruct (meq g y x) eqn:E.
    - inversion H; subst. exists y. split; [reflexivity|exact E].
    - destruct (mposition g l x) as [j|] eqn:Ej; [|discriminate]. cbn in H. inversion H; subst.
      destruct (IH _ _ Ej) as (z & Hz & Hm). exists z. split; [|exact Hm].
      rewrite N2Nat.inj_succ. cbn. exact Hz.
  Qed.

  Lemma meq_refl x : meq g x x = true.
  Proof. unfold meq. rewrite N.eqb_refl. reflexivity. Qed.
  Lemma mcontains_in l x : In x l -> mcontains g l x = true.
  Proof. intro H. unfold mcontains. apply existsb_exists. exists x. split; [exact H|apply meq_refl]. Qed.

  (* ------------------------------------------------------------ with the recursive matcher *)
  Section WithRec.
    Variable rec : N -> N -> N -> list N -> res mr.
    Hypothesis Hrec : forall n i l tm m, rec n i l tm = ROk m -> Shapes m.
    (** a string parser answers with nothing or with its one token *)
    Hypothesis Hstr : forall nd i l tm m us k, str_of g nd = Some (us, k) -> rec nd i l tm = ROk m ->
      m = empty_at i \/ (m = one_token i k /\ tok_in i us = true).

    Lemma longest_loop_sh opts : forall idx len terms best bm m o,
      Shapes best -> longest_loop g toks rec opts idx len terms best bm = ROk (m, o) -> Shapes m.
    Proof.
      induction opts as [|op opts IH]; intros idx len terms best bm m o Hb H; cbn [longest_loop] in H.
      - inversion H; subst. exact Hb.
      - inv_bind H. inv_bind H. rename a0 into r.
        assert (Hr : Shapes r) by (eapply Hrec; eassumption).
        destruct (has_match r && (mr_end r =? len)); [inversion H; subst; exact Hr|].
        destruct (mlen best <? mlen r).
        + destruct (is_empty opts); [inversion H; subst; exact Hr|].
          destruct (negb (is_empty terms)).
          * inv_bind H. destruct (a0 =? len); [inversion H; subst; exact Hr|].
            inv_bind H. destruct a1; [inversion H; subst; exact Hr|].
            eapply IH in H; [exact H|exact Hr].
          * eapply IH in H; [exact H|exact Hr].
        + eapply IH in H; [exact H|exact Hb].
    Qed.
    Lemma longest_match_sh len ms idx terms m o :
      longest_match g toks rec len ms idx terms = ROk (m, o) -> Shapes m.
    Proof.
      unfold longest_match. intro H.
      destruct (is_empty ms || (idx =? len)); [inversion H; apply Shapes_empty|].
      inv_bind H. destruct (is_empty a); [inversion H; apply Shapes_empty|].
      inv_bind H. eapply longest_loop_sh in H; [exact H|apply Shapes_empty].
    Qed.

    Lemma rb_loop_sh fl : forall len opening ti starts ends pers terms nested mi ch r s ko us sb rest,
      SetOK starts ends ->
      opening = one_token s ko -> nth_error starts (N.to_nat ti) = Some sb ->
      str_of g sb = Some (us, ko) -> tok_in s us = true ->
      ch = opening :: rest -> Forall Shapes rest -> s + 1 <= mi ->
      rb_loop g toks rec fl len opening ti starts ends pers terms nested mi ch = ROk r ->
      Shapes r /\ mi < mr_end r /\ mr_end r <= len.
    Proof.
      induction fl as [|fl IH]; intros len opening ti starts ends pers terms nested mi ch r s ko us sb rest
        Hset Ho Hsb Hus Htk Hch Hrest Hmi H; cbn [rb_loop] in H; [discriminate|].
      inv_bind H. destruct a as [m mt].
      apply (next_match_sound g toks 1 N.lt_0_1) in Ha.
      destruct (negb (has_match m)) eqn:Ehm; [discriminate|]. apply negb_false_iff in Ehm.
      destruct mt as [mt|]; [|discriminate].
      destruct Ha as (j & J1 & J2 & Hin & Hr & _).
      destruct (mcontains g ends mt) eqn:Ec.
      - destruct (mposition g ends mt) as [ci|] eqn:Ep; [|discriminate].
        destruct (ci =? ti) eqn:Eci; [|discriminate]. apply N.eqb_eq in Eci. subst ci.
        destruct (nth_bool pers ti) as [p|]; [|discriminate].
        destruct (mposition_spec _ _ _ Ep) as (eb & Heb & Hme).
        assert (Hebin : In eb (starts ++ ends)) by (apply in_or_app; right; eapply nth_error_In; exact Heb).
        destruct (so_str _ _ Hset _ Hebin) as (ue & kc & Hse).
        pose proof (so_eq _ _ Hset _ _ Hebin Hin Hme) as Heq. rewrite Hse in Heq. symmetry in Heq.
        destruct (Hstr _ _ _ _ _ _ _ Heq Hr) as [->|[-> Htc]]; [rewrite has_match_empty_at in Ehm; discriminate|].
        assert (Hall : Forall Shapes (ch ++ [one_token j kc])).
        { subst ch. apply Forall_app. split; [constructor; [subst opening; apply Shapes_one_token|exact Hrest]|].
          constructor; [apply Shapes_one_token|constructor]. }
        assert (Hshape : Shape s (j + 1) (ch ++ [one_token j kc])).
        { subst ch opening. exists ko, kc, (rest ++ [one_token j kc]), sb, eb, us, ue.
          replace (j + 1 - 1) with j by lia.
          split; [reflexivity|]. split; [apply in_or_app; right; now left|]. split; [lia|].
          split; [eapply so_pair; eassumption|]. auto. }
        cbn [mr_start mr_end one_token] in H.
        assert (Hs : mr_start opening = s) by (subst opening; reflexivity). rewrite Hs in H.
        destruct p; inversion H; subst r; clear H.
        + rewrite wrap_bracket'. cbn [mr_end].
          split; [|lia]. apply Shapes_MR. split; [intros _; exact Hshape|exact Hall].
        + cbn [mr_end]. split; [|lia]. apply Shapes_unnamed. exact Hall.
      - destruct (mposition g starts mt) as [ti'|] eqn:Ep; [|discriminate].
        inv_bind H. rename a into inner.
        destruct (mposition_spec _ _ _ Ep) as (sb' & Hsb' & Hme).
        assert (Hsbin : In sb' (starts ++ ends)) by (apply in_or_app; left; eapply nth_error_In; exact Hsb').
        destruct (so_str _ _ Hset _ Hsbin) as (us' & ko' & Hss).
        pose proof (so_eq _ _ Hset _ _ Hsbin Hin Hme) as Heq. rewrite Hss in Heq. symmetry in Heq.
        destruct (Hstr _ _ _ _ _ _ _ Heq Hr) as [->|[-> Htc]]; [rewrite has_match_empty_at in Ehm; discriminate|].
        cbn [mr_end one_token] in Ha, H.
        eapply (IH _ _ _ _ _ _ _ _ _ _ _ j ko' us' sb' []) in Ha;
          [|exact Hset|reflexivity|exact Hsb'|exact Hss|exact Htc|reflexivity|constructor|lia].
        destruct Ha as (I1 & I2 & I3).
        eapply (IH _ _ _ _ _ _ _ _ _ _ _ s ko us sb (if nested then rest ++ [inner] else rest)) in H;
          [|exact Hset|exact Ho|exact Hsb|exact Hus|exact Htk| | |lia].
        + destruct H as (R1 & R2 & R3). split; [exact R1|lia].
        + subst ch. destruct nested; reflexivity.
        + destruct nested; [apply Forall_app; split; [exact Hrest|constructor; [exact I1|constructor]]|exact Hrest].
    Qed.

    Lemma resolve_bracket_sh fl len opening opener starts ends pers terms nested r j l' tm' :
      SetOK starts ends -> In opener (starts ++ ends) ->
      rec opener j l' tm' = ROk opening -> has_match opening = true ->
      resolve_bracket g toks rec fl len opening opener starts ends pers terms nested = ROk r ->
      Shapes r.
    Proof.
      unfold resolve_bracket. intros Hset Hin Hr Hm H.
      destruct (mposition g starts opener) as [ti|] eqn:Ep; [|discriminate].
      destruct (mposition_spec _ _ _ Ep) as (sb & Hsb & Hme).
      assert (Hsbin : In sb (starts ++ ends)) by (apply in_or_app; left; eapply nth_error_In; exact Hsb).
      destruct (so_str _ _ Hset _ Hsbin) as (us & ko & Hss).
      pose proof (so_eq _ _ Hset _ _ Hsbin Hin Hme) as Heq. rewrite Hss in Heq. symmetry in Heq.
      destruct (Hstr _ _ _ _ _ _ _ Heq Hr) as [->|[-> Htc]]; [rewrite has_match_empty_at in Hm; discriminate|].
      eapply (rb_loop_sh _ _ _ _ _ _ _ _ _ _ _ _ j ko us sb []) in H;
        [exact (proj1 H)|exact Hset|reflexivity|exact Hsb|exact Hss|exact Htc|reflexivity|constructor|cbn; lia].
    Qed.

    Hypothesis Hbrk : forall starts ends,
      resolve_refs (map (fun b => fst (fst b)) (g_brackets g)) = ROk starts ->
      resolve_refs (map (fun b => snd (fst b)) (g_brackets g)) = ROk ends -> SetOK starts ends.

    Lemma neb_loop_sh k : forall fl len idx ms starts ends pers terms mi ch m o inner,
      SetOK starts ends -> Forall Shapes ch ->
      neb_loop g toks rec k fl len idx ms starts ends pers terms mi ch = ROk (m, o, inner) -> Forall Shapes inner.
    Proof.
      induction k as [|k IH]; intros fl len idx ms starts ends pers terms mi ch m o inner Hset Hch H;
        cbn [neb_loop] in H; [discriminate|].
      inv_bind H. destruct a as [m0 mt].
      apply (next_match_sound g toks 1 N.lt_0_1) in Ha.
      destruct (negb (has_match m0)) eqn:Ehm; [inversion H; subst; exact Hch|]. apply negb_false_iff in Ehm.
      destruct mt as [mt|]; [|discriminate].
      destruct Ha as (j & _ & _ & Hin & Hr & _).
      destruct (mcontains g ms mt) eqn:Ems; [inversion H; subst; exact Hch|].
      destruct (mcontains g ends mt); [inversion H; subst; constructor|].
      inv_bind H. rename a into b.
      assert (Hin' : In mt (starts ++ ends)).
      { apply in_app_or in Hin as [Hin|Hin]; [|exact Hin]. rewrite (mcontains_in _ _ Hin) in Ems. discriminate. }
      eapply resolve_bracket_sh in Ha; [|exact Hset|exact Hin'|exact Hr|exact Ehm].
      eapply IH in H; [exact H|exact Hset|]. apply Forall_app. split; [exact Hch|constructor; [exact Ha|constructor]].
    Qed.

    Lemma next_ex_bracket_match_sh fl len idx ms terms m o inner :
      next_ex_bracket_match g toks rec fl len idx ms terms = ROk (m, o, inner) -> Forall Shapes inner.
    Proof.
      unfold next_ex_bracket_match. intro H.
      destruct (len <=? idx); [inversion H; subst; constructor|].
      inv_bind H. inv_bind H. eapply neb_loop_sh in H; [exact H|apply Hbrk; assumption|constructor].
    Qed.

    Lemma greedy_loop_sh k : forall fl len idx ms terms it nested w ch m,
      Forall Shapes ch ->
      greedy_loop g toks rec k fl len idx ms terms it nested w ch = ROk m -> Shapes m.
    Proof.
      induction k as [|k IH]; intros fl len idx ms terms it nested w ch m Hch H;
        cbn [greedy_loop] in H; [discriminate|].
      inv_bind H. destruct a as [[matched mt] inner].
      apply next_ex_bracket_match_sh in Ha.
      assert (Hch' : Forall Shapes (if nested then ch ++ inner else ch))
        by (destruct nested; [apply Forall_app; split; assumption|exact Hch]).
      destruct (negb (has_match matched)); [inversion H; subst; apply Shapes_unnamed; exact Hch'|].
      destruct mt as [mt|]; [|discriminate].
      inv_bind H. destruct a as [[[raws tys] alpha]|]; [|discriminate].
      inv_bind H. destruct (negb a).
      - eapply IH in H; [exact H|exact Hch'].
      - destruct it; [inversion H; subst; apply Shapes_unnamed; constructor|].
        inv_bind H. destruct (idx =? a0); inversion H; subst; apply Shapes_unnamed; exact Hch'.
    Qed.
    Lemma greedy_match_sh fl len idx ms terms it nested m :
      greedy_match g toks rec fl len idx ms terms it nested = ROk m -> Shapes m.
    Proof. intro H. eapply greedy_loop_sh in H; [exact H|constructor]. Qed.

    (* ---------------------------------------------------------- Sequence *)
    Definition StepSh (r : step_r) : Prop :=
      match r with Cont st' => Forall Shapes (s_ch st') | Ret m => Shapes m end.

    Lemma seq_body_sh fl d len si terms st e r :
      Forall Shapes (s_ch st) -> seq_body g toks rec fl d len si terms st e = ROk r -> StepSh r.
    Proof.
      unfold seq_body. intros Hch H.
      inv_bind H. destruct (s_max st <=? a).
      - inv_bind H. destruct a0; [inversion H; subst; exact Hch|].
        destruct (pmode_eqb (sq_mode d) Strict || (s_matched st =? si)); inversion H; subst; cbn [StepSh].
        + apply Shapes_empty.
        + apply Shapes_kind; [exact Hunp|exact Hch].
      - inv_bind H. inv_bind H. rename a1 into em. pose proof (Hrec _ _ _ _ _ Ha1) as Hem.
        destruct (negb (has_match em)).
        + inv_bind H. destruct a1; [inversion H; subst; exact Hch|].
          destruct (pmode_eqb (sq_mode d) Strict); [inversion H; subst; apply Shapes_empty|].
          destruct (pmode_eqb (sq_mode d) GreedyOnceStarted && (s_matched st =? si)); [inversion H; subst; apply Shapes_empty|].
          destruct (s_matched st =? si); [inversion H; subst; apply Shapes_unparsable|].
          inv_bind H. inversion H; subst. cbn [StepSh]. apply Shapes_unnamed. apply Forall_app.
          split; [exact Hch|constructor; [apply Shapes_unparsable|constructor]].
        + inv_bind H. destruct (is_some (mr_matched em)); inversion H; subst; cbn [StepSh s_ch]; apply Forall_app.
          * split; [exact Hch|constructor; [exact Hem|constructor]].
          * split; [exact Hch|apply Shapes_children; exact Hem].
    Qed.

    Lemma seq_elem_sh fl d len si terms st e r :
      Forall Shapes (s_ch st) -> seq_elem g toks rec fl d len si terms st e = ROk r -> StepSh r.
    Proof.
      intros Hch H. rewrite seq_elem_unfold in H. inv_bind H.
      destruct (n_node a); try (eapply seq_body_sh; eassumption); inversion H; subst; exact Hch.
    Qed.

    Lemma seq_loop_sh fl d len si terms es : forall st r,
      Forall Shapes (s_ch st) -> seq_loop g toks rec fl d len si terms st es = ROk r -> StepSh r.
    Proof.
      induction es as [|e es IH]; intros st r Hch H; cbn [seq_loop] in H; [inversion H; subst; exact Hch|].
      inv_bind H. pose proof (seq_elem_sh _ _ _ _ _ _ _ _ Hch Ha) as Hs.
      destruct a as [st'|m]; [eapply IH; eassumption|inversion H; subst; exact Hs].
    Qed.

    Lemma match_sequence_sh fl d len idx terms m :
      match_sequence g toks rec fl d len idx terms = ROk m -> Shapes m.
    Proof.
      unfold match_sequence. intro H. inv_bind H. inv_bind H.
      assert (Hs : StepSh a0) by (eapply seq_loop_sh; [|exact Ha0]; constructor).
      destruct a0 as [st|m']; [|inversion H; subst; exact Hs]. cbn [StepSh] in Hs.
      destruct (negb (pmode_eqb (sq_mode d) Strict) && (s_matched st <? s_max st)).
      - inv_bind H. inv_bind H. destruct (a0 <? a1); inversion H; subst; apply Shapes_unnamed; [|exact Hs].
        apply Forall_app. split; [exact Hs|constructor; [apply Shapes_unparsable|constructor]].
      - inversion H; subst. apply Shapes_unnamed. exact Hs.
    Qed.

    Lemma match_bracketed_sh fl self found sb eb pers gaps d len idx terms m :
      SetOK [sb] [eb] ->
      match_bracketed g toks rec fl self found (Some sb) (Some eb) pers gaps d len idx terms = ROk m -> Shapes m.
    Proof.
      unfold match_bracketed. intros Hset H.
      destruct (negb found); [discriminate|].
      inv_bind H. rename a into sm.
      destruct (negb (has_match sm)) eqn:Ehm; [inversion H; subst; apply Shapes_empty|]. apply negb_false_iff in Ehm.
      inv_bind H. rename a into bm.
      eapply resolve_bracket_sh in Ha0; [|exact Hset|now left|exact Ha|exact Ehm].
      inv_bind H. inv_bind H. inv_bind H. inv_bind H. inv_bind H. rename a3 into cm.
      pose proof (match_sequence_sh _ _ _ _ _ _ Ha5) as Hcm.
      destruct (negb (mr_end cm =? a1) && pmode_eqb (sq_mode d) Strict); [inversion H; subst; apply Shapes_empty|].
      destruct (negb gaps && (mr_end cm =? mr_end bm - 1)); [discriminate|].
      inversion H; subst. clear H.
      destruct bm as [s e mm ii cc]. apply Shapes_MR in Ha0 as [B1 B2]. cbn [mr_start mr_end mr_matched mr_ins mr_ch].
      apply Shapes_MR. split.
      - intro E. destruct (is_some (mr_matched cm)); apply Shape_more; exact (B1 E).
      - destruct (is_some (mr_matched cm)); apply Forall_app; (split; [exact B2|]).
        + constructor; [exact Hcm|constructor].
        + apply Shapes_children. exact Hcm.
    Qed.

    (* ---------------------------------------------------------- AnyNumberOf / Delimited *)
    Lemma parse_mode_result_sh len cur mx mode r :
      Shapes cur -> parse_mode_result g toks len cur mx mode = ROk r -> Shapes r.
    Proof.
      unfold parse_mode_result. intros Hc H.
      destruct (pmode_eqb mode Strict); [inversion H; subst; exact Hc|].
      destruct (mr_end cur =? mx); [inversion H; subst; exact Hc|].
      inv_bind H. destruct a; [inversion H; subst; exact Hc|].
      inv_bind H. inversion H; subst. apply Shapes_append; [exact Hc|apply Shapes_unparsable].
    Qed.

    Lemma any_loop_sh k : forall d len idx mx terms nm cs mi wi matched r,
      Shapes matched -> any_loop g toks rec k d len idx mx terms nm cs mi wi matched = ROk r -> Shapes r.
    Proof.
      induction k as [|k IH]; intros d len idx mx terms nm cs mi wi matched r Hm H; cbn [any_loop] in H; [discriminate|].
      destruct (((an_min d <=? nm) && (mx <=? mi)) || opt_le (an_max d) nm); [eapply parse_mode_result_sh; eassumption|].
      destruct (mx <=? mi); [inversion H; subst; apply Shapes_empty|].
      inv_bind H. destruct a as [m mo]. apply longest_match_sh in Ha.
      destruct (negb (has_match m)).
      - eapply parse_mode_result_sh; [|exact H]. destruct (nm <? an_min d); [apply Shapes_empty|exact Hm].
      - destruct mo as [o|]; [|discriminate].
        inv_bind H. destruct (bump a cs) as [cs' cnt].
        destruct (match cnt with Some c0 => opt_lt (an_max_per d) c0 | None => false end);
          [eapply parse_mode_result_sh; [exact Hm|exact H]|].
        inv_bind H. eapply IH in H; [exact H|]. apply Shapes_append; assumption.
    Qed.

    Lemma match_anynumberof_sh fl d len idx terms m :
      match_anynumberof g toks rec fl d len idx terms = ROk m -> Shapes m.
    Proof.
      unfold match_anynumberof. intro H.
      inv_bind H. destruct a; [inversion H; subst; apply Shapes_empty|].
      inv_bind H. inv_bind H. inv_bind H. eapply any_loop_sh in H; [exact H|apply Shapes_empty].
    Qed.

    Lemma delim_finish_sh tr mn idx sk dm dl wm r :
      Shapes wm -> (forall x, dm = Some x -> Shapes x) -> delim_finish tr mn idx sk dm dl wm = ROk r -> Shapes r.
    Proof.
      unfold delim_finish. intros Hw Hd H.
      destruct dm as [x|].
      - destruct (tr && negb sk).
        + destruct (dl + 1 <? mn); inversion H; subst; [apply Shapes_empty|apply Shapes_append; [exact Hw|apply Hd; reflexivity]].
        + destruct (dl <? mn); inversion H; subst; [apply Shapes_empty|exact Hw].
      - destruct (dl <? mn); inversion H; subst; [apply Shapes_empty|exact Hw].
    Qed.

    Lemma delim_loop_sh k : forall d delim tr mn len idx terms tms dl sk w wm dm r,
      Shapes wm -> (forall x, dm = Some x -> Shapes x) ->
      delim_loop g toks rec k d delim tr mn len idx terms tms dl sk w wm dm = ROk r -> Shapes r.
    Proof.
      induction k as [|k IH]; intros d delim tr mn len idx terms tms dl sk w wm dm r Hw Hd H;
        cbn [delim_loop] in H; [discriminate|].
      assert (Hfin : forall r', delim_finish tr mn idx sk dm dl wm = ROk r' -> Shapes r')
        by (intros r' Hf; eapply delim_finish_sh; eassumption).
      inv_bind H. destruct (len <=? a); [apply Hfin; exact H|].
      inv_bind H. destruct a0 as [tm tmo]. destruct (has_match tm); [apply Hfin; exact H|].
      inv_bind H. destruct a0 as [m mo]. apply longest_match_sh in Ha1.
      destruct (negb (has_match m)); [apply Hfin; exact H|].
      destruct sk.
      - eapply IH in H; [exact H|exact Hw|]. intros x Hx. inversion Hx; subst. exact Ha1.
      - destruct dm as [x|].
        + eapply IH in H; [exact H| |exact Hd].
          apply Shapes_append; [apply Shapes_append; [exact Hw|apply Hd; reflexivity]|exact Ha1].
        + eapply IH in H; [exact H| |exact Hd]. apply Shapes_append; assumption.
    Qed.

    Lemma match_delimited_sh fl d delim tr mn len idx terms m :
      match_delimited g toks rec fl d delim tr mn len idx terms = ROk m -> Shapes m.
    Proof.
      unfold match_delimited. intro H.
      eapply delim_loop_sh in H; [exact H|apply Shapes_empty|]. intros x Hx. discriminate.
    Qed.

    (* ---------------------------------------------------------- one node *)
    Hypothesis Hnodes : forall n i, get (g_nodes g) n = Some i -> node_brk_b g i = true.

    Lemma info_get' n i : info g n = ROk i -> get (g_nodes g) n = Some i.
    Proof. unfold info. destruct (get (g_nodes g) n); [|discriminate]. intro H. inversion H; reflexivity. Qed.

    Lemma match_node_body_sh fl n idx len terms m :
      match_node_body g toks rx rec fl n idx len terms = ROk m -> Shapes m.
    Proof.
      unfold match_node_body. intro H. inv_bind H. pose proof (info_get' _ _ Ha) as Eg.
      pose proof (Hnodes _ _ Eg) as Hside. unfold node_brk_b in Hside.
      destruct (n_node a) eqn:En.
      - destruct target as [r|]; [|discriminate].
        inv_bind H. destruct a0; [inversion H; subst; apply Shapes_empty|]. eapply Hrec; exact H.
      - eapply match_sequence_sh; exact H.
      - (* GBracketed *)
        unfold match_bracketed in H. destruct found; [|discriminate].
        destruct bstart as [sb|]; [|discriminate]. destruct bend as [eb|]; [|discriminate].
        eapply (match_bracketed_sh fl n true); [|exact H].
        apply set_ok_SetOK; [exact Hside|].
        intros i sb' eb' H1 H2. destruct i; [|destruct i; discriminate]. cbn in H1, H2. inversion H1; inversion H2; subst.
        right. eauto 10.
      - eapply match_anynumberof_sh; exact H.
      - eapply match_delimited_sh; exact H.
      - (* GNodeM *)
        destruct (len <=? idx); [inversion H; subst; apply Shapes_empty|].
        inv_bind H. destruct (p_kind a0 =? kind); [inversion H; subst; apply Shapes_from_span|].
        inv_bind H. inversion H; subst. apply Shapes_wrap; [|eapply Hrec; exact Ha1].
        apply negb_true_iff in Hside. apply N.eqb_neq in Hside. exact Hside.
      - inv_bind H. destruct (p_code a0 && (p_upper a0 =? upper)); inversion H; subst; [apply Shapes_one_token|apply Shapes_empty].
      - inv_bind H. destruct (p_code a0 && memN (p_upper a0) uppers); inversion H; subst; [apply Shapes_one_token|apply Shapes_empty].
      - inv_bind H. destruct (p_kind a0 =? template); inversion H; subst; [apply Shapes_one_token|apply Shapes_empty].
      - inv_bind H. destruct (existsb _ rx); inversion H; subst; [apply Shapes_one_token|apply Shapes_empty].
      - discriminate.
      - destruct enabled; inversion H; subst; [apply Shapes_unnamed; constructor|apply Shapes_empty].
      - match type of H with (if ?c then _ else _) = _ => destruct c end; [inversion H; subst; apply Shapes_from_span|].
        eapply greedy_match_sh; exact H.
      - inversion H; subst. apply Shapes_empty.
      - inv_bind H. destruct a0 as [j|]; [|inversion H; subst; apply Shapes_empty].
        destruct (idx <? j); inversion H; subst; [apply Shapes_from_span|apply Shapes_empty].
      - inv_bind H. destruct (p_kind a0 =? k_bracketed g); inversion H; subst; [apply Shapes_from_span|apply Shapes_empty].
    Qed.
  End WithRec.

  (* ------------------------------------------------------------ string parsers *)
  Lemma match_node_str1 d : forall fuel nd i l tm m us k,
    str1 g d nd = Some (us, k) -> match_node g toks rx fuel nd i l tm = ROk m ->
    m = empty_at i \/ (m = one_token i k /\ tok_in i us = true).
  Proof.
    induction d as [|d IH]; intros fuel nd i l tm m us k Hs H; cbn [str1] in Hs; [discriminate|].
    destruct fuel as [|f]; cbn [match_node] in H; [discriminate|].
    unfold match_node_body, info in H.
    destruct (get (g_nodes g) nd) as [inf|]; [|discriminate]. cbn [bind] in H.
    destruct (n_node inf); try discriminate.
    - destruct target as [tg|]; [|discriminate].
      inv_bind H. destruct a; [inversion H; subst; left; reflexivity|].
      eapply IH; eassumption.
    - inversion Hs; subst. inv_bind H. unfold tok in Ha. destruct (i <? l); [|discriminate].
      unfold tok_in. destruct (get toks i) as [tk|]; [|discriminate]. inversion Ha; subst a.
      destruct (p_code tk) eqn:Ec; cbn [andb] in H |- *;
        [destruct (p_upper tk =? upper) eqn:Eu|]; inversion H; subst; try (left; reflexivity).
      right. split; [reflexivity|]. unfold memN. cbn. rewrite Eu. reflexivity.
    - inversion Hs; subst. inv_bind H. unfold tok in Ha. destruct (i <? l); [|discriminate].
      unfold tok_in. destruct (get toks i) as [tk|]; [|discriminate]. inversion Ha; subst a.
      destruct (p_code tk) eqn:Ec; cbn [andb] in H |- *;
        [destruct (memN (p_upper tk) us) eqn:Eu|]; inversion H; subst; try (left; reflexivity).
      right. split; reflexivity.
  Qed.

  (* ------------------------------------------------------------ tying the knot *)
  Hypothesis Hsafe : brk_safe_b g = true.

  Lemma all_some_nth {A} (f : A -> option N) (l : list A) : forall r i x,
    all_some (map f l) = Some r -> nth_error r i = Some x -> exists b, nth_error l i = Some b /\ f b = Some x.
  Proof.
    induction l as [|b l IH]; intros r i x H Hn; cbn in H.
    - inversion H; subst. destruct i; discriminate.
    - destruct (f b) as [y|] eqn:Ef; [|discriminate].
      destruct (all_some (map f l)) as [r'|] eqn:Er; [|discriminate]. cbn in H. inversion H; subst.
      destruct i as [|i]; cbn in Hn.
      + inversion Hn; subst. exists b. auto.
      + destruct (IH _ _ _ eq_refl Hn) as (b' & H1 & H2). exists b'. auto.
  Qed.

  Lemma safe_set starts ends :
    resolve_refs (map (fun b => fst (fst b)) (g_brackets g)) = ROk starts ->
    resolve_refs (map (fun b => snd (fst b)) (g_brackets g)) = ROk ends -> SetOK starts ends.
  Proof.
    intros Hs He. apply resolve_refs_all_some in Hs. apply resolve_refs_all_some in He.
    unfold brk_safe_b in Hsafe. apply andb_true_iff in Hsafe as [_ Hb]. unfold brackets_brk_b in Hb.
    rewrite Hs, He in Hb. apply set_ok_SetOK; [exact Hb|].
    intros i sb eb H1 H2.
    destruct (all_some_nth _ _ _ _ _ Hs H1) as (b1 & B1 & F1). destruct (all_some_nth _ _ _ _ _ He H2) as (b2 & B2 & F2).
    rewrite B1 in B2. inversion B2; subst b2. destruct b1 as [[s0 e0] p0]. cbn in F1, F2. subst.
    left. exists p0. eapply nth_error_In. exact B1.
  Qed.

  Lemma safe_node : forall n i, get (g_nodes g) n = Some i -> node_brk_b g i = true.
  Proof.
    intros n i E. unfold brk_safe_b in Hsafe. apply andb_true_iff in Hsafe as [H _]. apply andb_true_iff in H as [_ H].
    rewrite forallb_forall in H. exact (H (key n, i) (PositiveMap.elements_correct _ _ E)).
  Qed.

  Theorem match_node_shapes fuel : forall n idx len terms m,
    match_node g toks rx fuel n idx len terms = ROk m -> Shapes m.
  Proof.
    induction fuel as [|f IH]; intros n idx len terms m H; cbn [match_node] in H; [discriminate|].
    eapply (match_node_body_sh (match_node g toks rx f)); [exact IH| |exact safe_set|exact safe_node|exact H].
    intros nd i l tm m0 us k. apply match_node_str1.
  Qed.
End Shape.

(* ------------------------------------------------------------------ the statements *)
Lemma brk_safe_unparsable g : brk_safe_b g = true -> k_unparsable g <> k_bracketed g.
Proof.
  unfold brk_safe_b. intro H. apply andb_true_iff in H as [H _]. apply andb_true_iff in H as [H _].
  apply negb_true_iff in H. apply N.eqb_neq in H. exact H.
Qed.

(** every bracketed node of every match of every node *)
Theorem match_node_bracket_shape g toks rx fuel n idx len terms m :
  brk_safe_b g = true -> match_node g toks rx fuel n idx len terms = ROk m -> Shapes g toks m.
Proof. intros Hs H. exact (match_node_shapes g toks rx (brk_safe_unparsable g Hs) Hs fuel _ _ _ _ _ H). Qed.

Theorem parse_root_bracket_shape g toks rx fuel s e m :
  brk_safe_b g = true -> parse_root g toks rx fuel s e = ROk m -> Shapes g toks m.
Proof.
  intros Hs H. unfold parse_root in H. destruct (g_root g); [|discriminate].
  eapply match_node_bracket_shape; eassumption.
Qed.

(** [Shapes] spelled out: any node of the match tree reached through child lists *)
Inductive sub : mr -> mr -> Prop :=
| sub_refl x : sub x x
| sub_child x c y : In c (mr_ch x) -> sub c y -> sub x y.

Lemma Shapes_sub g toks x y : Shapes g toks x -> sub x y -> Shapes g toks y.
Proof.
  intros H S. induction S as [x|x c y Hc _ IH]; [exact H|]. apply IH.
  apply Shapes_children in H. rewrite Forall_forall in H. exact (H c Hc).
Qed.

Theorem bracketed_nodes_shape g toks rx fuel s e m x :
  brk_safe_b g = true -> parse_root g toks rx fuel s e = ROk m -> sub m x ->
  mr_matched x = Some (MKind (k_bracketed g)) -> Shape g toks (mr_start x) (mr_end x) (mr_ch x).
Proof.
  intros Hs H S E. pose proof (Shapes_sub g toks _ _ (parse_root_bracket_shape _ _ _ _ _ _ _ Hs H) S) as Hx.
  destruct x as [s0 e0 m0 i0 c0]. apply Shapes_MR in Hx as [Hx _]. exact (Hx E).
Qed.

(* ------------------------------------------------------------------ the side condition implies [wf_safe_b] *)
Lemma str1_code1 g d : forall n, is_some (str1 g d n) = true -> code1_b g d n = true.
Proof.
  induction d as [|d IH]; intros n H; cbn [str1 code1_b] in *; [discriminate|].
  destruct (get (g_nodes g) n) as [i|]; [|discriminate].
  destruct (n_node i); try discriminate; try reflexivity.
  destruct target as [r|]; [|discriminate]. apply IH. exact H.
Qed.

Lemma set_ok_closers g starts ends : set_ok_b g starts ends = true -> closers_safe_b g starts ends = true.
Proof.
  unfold set_ok_b, closers_safe_b. intro H. apply andb_true_iff in H as [H _]. apply andb_true_iff in H as [_ H].
  rewrite forallb_forall in H. apply forallb_forall. intros y Hy. apply orb_true_iff. right.
  apply str1_code1. exact (H y Hy).
Qed.

Theorem brk_safe_wf_safe g : brk_safe_b g = true -> wf_safe_b g = true.
Proof.
  unfold brk_safe_b, wf_safe_b. intro H. apply andb_true_iff in H as [H Hb]. apply andb_true_iff in H as [_ Hn].
  apply andb_true_iff. split.
  - rewrite forallb_forall in Hn. apply forallb_forall. intros p Hp. specialize (Hn p Hp).
    unfold node_brk_b in Hn. unfold node_safe_b. destruct (n_node (snd p)); try reflexivity.
    destruct found; [|reflexivity]. destruct bstart; [|reflexivity]. destruct bend; [|reflexivity].
    apply set_ok_closers. exact Hn.
  - unfold brackets_brk_b in Hb. unfold brackets_safe_b.
    destruct (all_some (map (fun b => fst (fst b)) (g_brackets g))); [|reflexivity].
    destruct (all_some (map (fun b => snd (fst b)) (g_brackets g))); [|reflexivity].
    apply set_ok_closers. exact Hb.
Qed.
