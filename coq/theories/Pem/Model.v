(** Pem — the parser-combinator engine of crates/lib-core/src/parser as a Gallina interpreter
    over a dumped grammar graph:
      grammar/{sequence,anyof,delimited,base,conditional,noncode}.rs, parsers.rs, node_matcher.rs,
      segments/bracketed.rs, match_algorithms.rs, context.rs ([deeper_match] terminators).
    Executable definitions only.  [segments.len()] of a callee is a parameter [len] (the Rust code
    passes sub-slices [&segments[..max_idx]]); indexing past it is [RPanic].  The parse cache is not
    modelled (the interpreter is the cache-off semantics; C13 compares).  Regex parsers, the
    first-token hints [simple()], [is_optional()], [cache_key()] and [==] on matchers are data
    dumped from the real objects. *)
From Coq Require Import FMapPositive.
From Sq Require Export Base.Bytes Apply.Model.

(* ------------------------------------------------------------------ results *)
(** why the real code would panic *)
Inductive panic :=
| PDangling (node : N)   (* Dialect::ref: "Grammar refers to ... which was not found", at grammar node [node] *)
| PDanglingBracket       (* the same for a start/end reference of the dialect's bracket set *)
| PIndex                 (* index / slice out of range *)
| PUnwrap                (* unwrap() on None, unreachable!, missing bracket type *)
| PUnimpl                (* unimplemented!/todo!/panic! in a trait method *)
| PDump.                 (* the dumped graph mentions a node it does not contain (translator error) *)

Inductive res (A : Type) : Type :=
| ROk (a : A)
| RErr            (* SQLParseError *)
| RPanic (p : panic)
| RFuel.          (* interpreter ran out of fuel: excluded by the theorems' statements *)
Arguments ROk {A} a.
Arguments RErr {A}.
Arguments RPanic {A} p.
Arguments RFuel {A}.

Definition bind {A B} (x : res A) (f : A -> res B) : res B :=
  match x with ROk a => f a | RErr => RErr | RPanic p => RPanic p | RFuel => RFuel end.
Notation "x <- e ;; k" := (bind e (fun x => k)) (at level 61, e at next level, right associativity).
Notation "' p <- e ;; k" := (bind e (fun p => k)) (at level 61, p pattern, e at next level, right associativity).
Notation "e ;;; k" := (bind e (fun _ => k)) (at level 61, right associativity).

(* ------------------------------------------------------------------ grammar data *)
Inductive pmode := Strict | Greedy | GreedyOnceStarted.
Definition pmode_eqb (a b : pmode) : bool :=
  match a, b with Strict, Strict | Greedy, Greedy | GreedyOnceStarted, GreedyOnceStarted => true | _, _ => false end.

Record seq_d := mkSeq { sq_elems : list N; sq_mode : pmode; sq_gaps : bool; sq_terms : list N }.
Record any_d := mkAny {
  an_elems : list N; an_exclude : option N; an_terms : list N; an_reset : bool;
  an_max : option N; an_min : N; an_max_per : option N; an_gaps : bool; an_mode : pmode }.

Inductive node :=
| GRef (target : option N) (exclude : option N) (terms : list N) (reset : bool)
| GSeq (d : seq_d)
| GBracketed (found : bool) (bstart bend : option N) (persists : bool) (gaps : bool) (d : seq_d)
| GAny (d : any_d)
| GDelim (d : any_d) (delim : N) (allow_trailing : bool) (min_delims : N)
| GNodeM (kind : N) (grammar : N)
| GString (upper : N) (kind : N)          (* ASCII-upper-cased template, interned *)
| GMulti (uppers : list N) (kind : N)
| GTyped (template : N) (kind : N)
| GRegex (rid : N) (kind : N)
| GMeta (kind : N)
| GCond (kind : N) (enabled : bool)       (* is_enabled under the parser's indentation config *)
| GAnything (terms : list N)
| GNothing
| GNonCode
| GBracketSeg.

(** per-node data dumped from the real matcher object *)
Record ninfo := mkInfo {
  n_node : node;
  n_opt : option bool;                              (* is_optional(); None = it panics *)
  n_simple : option (list N * list N * bool);       (* simple(): raws, types, "all raws alphabetic" *)
  n_ckey : option N }.                              (* cache_key(); None = unimplemented! *)

Record grammar := mkGrammar {
  g_nodes : PositiveMap.t ninfo;                    (* node id n stored at key n+1 *)
  g_eq : list (N * N);                              (* pairs of distinct nodes that are [==] *)
  g_brackets : list (option N * option N * bool);   (* bracket_sets("bracket_pairs"): start, end refs resolved, persists *)
  g_root : option N;                                (* FileSegment's match_grammar *)
  k_ws : N; k_nl : N; k_bracketed : N; k_unparsable : N; k_indent : N; k_dedent : N; k_implicit : N;
  g_noncode : N }.                                  (* id of a GNonCode node (fresh NonCodeMatcher) *)

Definition key (n : N) : positive := N.succ_pos n.
Definition get {A} (m : PositiveMap.t A) (n : N) : option A := PositiveMap.find (key n) m.

(** a lexed token as the engine sees it *)
Record ptok := mkPtok {
  p_code : bool; p_meta : bool; p_kind : N; p_types : list N;
  p_upper : N;          (* raw.to_ascii_uppercase(), interned *)
  p_ftr : N;            (* first_trimmed_raw(), interned *)
  p_fnw : option N }.   (* first_non_whitespace_segment_raw_upper(), interned *)

Definition memN (x : N) (l : list N) : bool := existsb (N.eqb x) l.
Definition intersects (a b : list N) : bool := existsb (fun x => memN x b) a.

Section Engine.
  Variable g : grammar.
  Variable toks : PositiveMap.t ptok.     (* token i at key i+1 *)
  Variable rx : list (N * N).             (* (regex id, token index) pairs on which the regex parser matches *)

  Definition info (n : N) : res ninfo := match get (g_nodes g) n with Some i => ROk i | None => RPanic PDump end.
  (** [segments[i]] of a slice of length [len] *)
  Definition tok (len i : N) : res ptok :=
    if i <? len then match get toks i with Some t => ROk t | None => RPanic PIndex end else RPanic PIndex.

  (** [a == b] on matchers *)
  Definition meq (a b : N) : bool :=
    (a =? b) || existsb (fun p => ((fst p =? a) && (snd p =? b)) || ((fst p =? b) && (snd p =? a))) (g_eq g).
  Definition mcontains (l : list N) (x : N) : bool := existsb (fun y => meq y x) l.
  Fixpoint mposition (l : list N) (x : N) : option N :=
    match l with
    | [] => None
    | y :: l' => if meq y x then Some 0 else option_map N.succ (mposition l' x)
    end.

  Definition simple_of (n : N) : res (option (list N * list N * bool)) := i <- info n ;; ROk (n_simple i).
  Definition opt_of (n : N) : res bool :=
    i <- info n ;; match n_opt i with Some b => ROk b | None => RPanic PUnimpl end.
  Definition ckey_of (n : N) : res N :=
    i <- info n ;; match n_ckey i with Some k => ROk k | None => RPanic PUnimpl end.

  Definition empty_at (i : N) : mr := MR i i None [] [].
  Definition from_span (a b : N) : mr := MR a b None [] [].
  Definition mlen (x : mr) : N := mr_end x - mr_start x.
  Definition unparsable (a b : N) : mr := MR a b (Some (MKind (k_unparsable g))) [] [].

  (* ---------------------------------------------------------------- context terminators *)
  (** [set_terminators]: the terminators seen by the callee of [deeper_match(clear, push, ..)] *)
  Fixpoint push_dedupe (terms push : list N) : list N :=
    match push with
    | [] => terms
    | t :: push' => if mcontains terms t then push_dedupe terms push' else push_dedupe (terms ++ [t]) push'
    end.
  Definition deeper (clear : bool) (push terms : list N) : list N :=
    if clear && negb (is_empty terms) then push      (* push.to_vec() or Vec::new() *)
    else push_dedupe terms push.

  (* ---------------------------------------------------------------- skipping *)
  Fixpoint skip_fwd_aux (n : nat) (len idx max : N) : res N :=
    match n with
    | O => ROk idx
    | S n' =>
        if idx <? max then
          t <- tok len idx ;;
          if p_code t then ROk idx else skip_fwd_aux n' len (idx + 1) max
        else ROk idx
    end.
  (** [skip_start_index_forward_to_code(segments, start, max)] *)
  Definition skip_fwd (len idx max : N) : res N := skip_fwd_aux (S (N.to_nat (max - idx))) len idx max.

  Fixpoint skip_back_aux (n : nat) (len idx min : N) : res N :=
    match n with
    | O => ROk idx
    | S n' =>
        if min <? idx then
          t <- tok len (idx - 1) ;;
          if p_code t then ROk idx else skip_back_aux n' len (idx - 1) min
        else ROk idx
    end.
  (** [skip_stop_index_backward_to_code(segments, stop, min)] *)
  Definition skip_back (len idx min : N) : res N := skip_back_aux (S (N.to_nat (idx - min))) len idx min.

  (** [segments[a..b].iter().all(|it| !it.is_code())] *)
  Fixpoint all_noncode_aux (n : nat) (len a b : N) : res bool :=
    match n with
    | O => ROk true
    | S n' => if a <? b then t <- tok len a ;; if p_code t then ROk false else all_noncode_aux n' len (a + 1) b
              else ROk true
    end.
  Definition all_noncode (len a b : N) : res bool :=
    if (a <=? b) && (b <=? len) then all_noncode_aux (S (N.to_nat (b - a))) len a b else RPanic PIndex.

  (* ---------------------------------------------------------------- pruning *)
  Fixpoint first_nonws_aux (n : nat) (len i : N) : option (N * list N) :=
    match n with
    | O => None
    | S n' =>
        if i <? len then
          match get toks i with
          | Some t => match p_fnw t with Some r => Some (r, p_types t) | None => first_nonws_aux n' len (i + 1) end
          | None => None
          end
        else None
    end.
  (** [first_non_whitespace(segments, idx)] as it was before repo commit "fix: first-token pruning looks only
      at a code segment standing at the start index ...": the first segment from [idx] on with a non-empty raw -
      whitespace, a newline or a comment included - although a matcher asked there may skip it and start on the
      code behind it (notes/C13.md, finding F1; [Pem/PruneLegacy.v] keeps the witness). *)
  Definition first_nonws_legacy (len i : N) : option (N * list N) := first_nonws_aux (S (N.to_nat (len - i))) len i.
  (** after the fix: only a code segment standing at [idx] itself is compared with the hints; anything else
      keeps all options *)
  Definition first_nonws (len i : N) : option (N * list N) :=
    if i <? len then
      match get toks i with
      | Some t => if p_code t then match p_fnw t with Some r => Some (r, p_types t) | None => None end else None
      | None => None
      end
    else None.

  Fixpoint prune_aux (first_raw : N) (first_types : list N) (opts : list N) : res (list N) :=
    match opts with
    | [] => ROk []
    | o :: opts' =>
        s <- simple_of o ;;
        rest <- prune_aux first_raw first_types opts' ;;
        match s with
        | None => ROk (o :: rest)
        | Some (raws, tys, _) =>
            if memN first_raw raws || intersects first_types tys then ROk (o :: rest) else ROk rest
        end
    end.
  Definition prune (opts : list N) (len idx : N) : res (list N) :=
    match first_nonws len idx with
    | None => ROk opts
    | Some (r, tys) => prune_aux r tys opts
    end.

  (* ================================================================ algorithms, open recursion *)
  (** [rec n idx len terms] = [n.match_segments(&segments[..len], idx, ctx with ctx.terminators = terms)] *)
  Variable rec : N -> N -> N -> list N -> res mr.

  (** does any terminator match at [i]? (the probing loop of [longest_match]) *)
  Fixpoint any_matches (ts : list N) (i len : N) (terms : list N) : res bool :=
    match ts with
    | [] => ROk false
    | t :: ts' => m <- rec t i len terms ;; if has_match m then ROk true else any_matches ts' i len terms
    end.

  Fixpoint longest_loop (opts : list N) (idx len : N) (terms : list N) (best : mr) (bm : option N)
    : res (mr * option N) :=
    match opts with
    | [] => ROk (best, bm)
    | o :: opts' =>
        _k <- ckey_of o ;;
        r <- rec o idx len terms ;;
        if has_match r && (mr_end r =? len) then ROk (r, Some o)
        else if mlen best <? mlen r then
          if is_empty opts' then ROk (r, Some o)
          else if negb (is_empty terms) then
            nc <- skip_fwd len (mr_end r) len ;;
            if nc =? len then ROk (r, Some o)
            else
              stop <- any_matches terms nc len terms ;;
              if stop then ROk (r, Some o) else longest_loop opts' idx len terms r (Some o)
          else longest_loop opts' idx len terms r (Some o)
        else longest_loop opts' idx len terms best bm
    end.

  Definition longest_match (len : N) (matchers : list N) (idx : N) (terms : list N) : res (mr * option N) :=
    if is_empty matchers || (idx =? len) then ROk (empty_at idx, None)
    else
      avail <- prune matchers len idx ;;
      if is_empty avail then ROk (empty_at idx, None)
      else
        _t <- tok len idx ;;      (* segments[idx].get_position_marker() for the cache key *)
        longest_loop avail idx len terms (empty_at idx) None.

  (** candidates of [next_match] at one token, in increasing matcher index *)
  Fixpoint nm_candidates (ms : list N) (t : ptok) : res (list N) :=
    match ms with
    | [] => ROk []
    | m :: ms' =>
        s <- simple_of m ;;
        rest <- nm_candidates ms' t ;;
        match s with
        | None => RPanic PUnwrap                           (* simple().unwrap() *)
        | Some (raws, tys, _) =>
            if memN (p_ftr t) raws || intersects (p_types t) tys then ROk (m :: rest) else ROk rest
        end
    end.
  Fixpoint nm_check_simple (ms : list N) : res unit :=
    match ms with
    | [] => ROk tt
    | m :: ms' => s <- simple_of m ;; match s with None => RPanic PUnwrap | Some _ => nm_check_simple ms' end
    end.
  Fixpoint first_matching (cands : list N) (i len : N) (terms : list N) : res (option (mr * N)) :=
    match cands with
    | [] => ROk None
    | c :: cands' =>
        r <- rec c i len terms ;;
        if has_match r then ROk (Some (r, c)) else first_matching cands' i len terms
    end.
  Fixpoint next_match_scan (n : nat) (i len : N) (ms : list N) (terms : list N) : res (option (mr * N)) :=
    match n with
    | O => ROk None
    | S n' =>
        if i <? len then
          t <- tok len i ;;
          cands <- nm_candidates ms t ;;
          hit <- first_matching cands i len terms ;;
          match hit with
          | Some h => ROk (Some h)
          | None => next_match_scan n' (i + 1) len ms terms
          end
        else ROk None
    end.
  Definition next_match (len idx : N) (ms : list N) (terms : list N) : res (mr * option N) :=
    if len <=? idx then ROk (empty_at idx, None)
    else
      _u <- nm_check_simple ms ;;
      hit <- next_match_scan (S (N.to_nat (len - idx))) idx len ms terms ;;
      match hit with
      | Some (r, m) => ROk (r, Some m)
      | None => ROk (empty_at idx, None)
      end.

  Fixpoint nth_bool (l : list bool) (i : N) : option bool :=
    match l with
    | [] => None
    | b :: l' => if i =? 0 then Some b else nth_bool l' (i - 1)
    end.

  (** [resolve_bracket]: the loop after the opening bracket; [fl] bounds loop iterations and nesting.
      [type_idx] is the position of the opening matcher among [starts]. *)
  Fixpoint rb_loop (fl : nat) (len : N) (opening : mr) (type_idx : N) (starts ends : list N)
           (persists : list bool) (terms : list N) (nested : bool) (matched_idx : N) (children : list mr)
    : res mr :=
    match fl with
    | O => RFuel
    | S fl' =>
        '(m, mt) <- next_match len matched_idx (starts ++ ends) terms ;;
        if negb (has_match m) then RErr
        else match mt with
             | None => RPanic PUnwrap
             | Some mt =>
                 if mcontains ends mt then
                   match mposition ends mt with
                   | None => RPanic PUnwrap
                   | Some closing_idx =>
                       if closing_idx =? type_idx then
                         match nth_bool persists type_idx with
                         | None => RPanic PIndex
                         | Some pers =>
                             let r := MR (mr_start opening) (mr_end m) None
                                         [(mr_end opening, k_indent g); (mr_start m, k_dedent g)]
                                         (children ++ [m]) in
                             if pers then ROk (wrap r (MKind (k_bracketed g))) else ROk r
                         end
                       else RErr
                   end
                 else
                   match mposition starts mt with
                   | None => RPanic PUnwrap
                   | Some ti =>
                       inner <- rb_loop fl' len m ti starts ends persists terms false (mr_end m) [m] ;;
                       rb_loop fl' len opening type_idx starts ends persists terms nested (mr_end inner)
                               (if nested then children ++ [inner] else children)
                   end
             end
    end.
  Definition resolve_bracket (fl : nat) (len : N) (opening : mr) (opener : N) (starts ends : list N)
             (persists : list bool) (terms : list N) (nested : bool) : res mr :=
    match mposition starts opener with
    | None => RPanic PUnwrap
    | Some type_idx => rb_loop fl len opening type_idx starts ends persists terms nested (mr_end opening) [opening]
    end.

  Fixpoint resolve_refs (l : list (option N)) : res (list N) :=
    match l with
    | [] => ROk []
    | Some x :: l' => r <- resolve_refs l' ;; ROk (x :: r)
    | None :: _ => RPanic PDanglingBracket                  (* dialect.ref(..) panics *)
    end.

  (** [next_ex_bracket_match] with the "bracket_pairs" set *)
  Fixpoint neb_loop (k : nat) (fl : nat) (len idx : N) (ms starts ends : list N) (persists : list bool)
           (terms : list N) (matched_idx : N) (children : list mr) : res (mr * option N * list mr) :=
    match k with
    | O => RFuel
    | S k' =>
        '(m, mt) <- next_match len matched_idx (ms ++ starts ++ ends) terms ;;
        if negb (has_match m) then ROk (m, mt, children)
        else match mt with
             | None => RPanic PUnwrap
             | Some mt =>
                 if mcontains ms mt then ROk (m, Some mt, children)
                 else if mcontains ends mt then ROk (empty_at idx, None, [])
                 else
                   b <- resolve_bracket fl len m mt starts ends persists terms true ;;
                   neb_loop k' fl len idx ms starts ends persists terms (mr_end b) (children ++ [b])
             end
    end.
  Definition next_ex_bracket_match (fl : nat) (len idx : N) (ms : list N) (terms : list N)
    : res (mr * option N * list mr) :=
    if len <=? idx then ROk (empty_at idx, None, [])
    else
      starts <- resolve_refs (map (fun b => fst (fst b)) (g_brackets g)) ;;
      ends <- resolve_refs (map (fun b => snd (fst b)) (g_brackets g)) ;;
      neb_loop fl fl len idx ms starts ends (map snd (g_brackets g)) terms idx [].

  (** the keyword-terminator guard of [greedy_match] *)
  Fixpoint allowable_scan (n : nat) (len i : N) (dflt : bool) : res bool :=
    match n with
    | O => ROk dflt
    | S n' =>
        if i =? 0 then RPanic PIndex                         (* segments[idx - 1] with idx = 0 *)
        else
          t <- tok len (i - 1) ;;
          if p_meta t then allowable_scan n' len (i - 1) dflt
          else ROk ((p_kind t =? k_ws g) || (p_kind t =? k_nl g))
    end.

  Fixpoint greedy_loop (k : nat) (fl : nat) (len idx : N) (ms : list N) (terms : list N)
           (include_terminator nested : bool) (working : N) (children : list mr) : res mr :=
    match k with
    | O => RFuel
    | S k' =>
        '(matched, mt, inner) <- next_ex_bracket_match fl len working ms terms ;;
        let children := if nested then children ++ inner else children in
        if negb (has_match matched) then ROk (MR idx len None [] children)
        else match mt with
             | None => RPanic PUnwrap
             | Some mt =>
                 s <- simple_of mt ;;
                 match s with
                 | None => RPanic PUnwrap
                 | Some (_, tys, alpha) =>
                     let start := mr_start matched in
                     let stop := mr_end matched in
                     ok <- (if is_empty tys && alpha then
                              if start <? working then ROk (working =? start)   (* empty reversed range *)
                              else allowable_scan (S (N.to_nat (start - working))) len start (working =? start)
                            else ROk true) ;;
                     if negb ok then greedy_loop k' fl len idx ms terms include_terminator nested stop children
                     else if include_terminator then ROk (MR idx stop None [] [])
                     else
                       stop2 <- skip_back len start idx ;;
                       if idx =? stop2 then ROk (MR idx start None [] children)
                       else ROk (MR idx stop2 None [] children)
                 end
             end
    end.
  Definition greedy_match (fl : nat) (len idx : N) (ms : list N) (terms : list N)
             (include_terminator nested : bool) : res mr :=
    greedy_loop fl fl len idx ms terms include_terminator nested idx [].

  Fixpoint first_term_matches (ts : list N) (idx len : N) (terms : list N) : res bool :=
    match ts with
    | [] => ROk false
    | t :: ts' => m <- rec t idx len terms ;; if has_match m then ROk true else first_term_matches ts' idx len terms
    end.

  (** [trim_to_terminator(segments, idx, terminators, ctx)] *)
  Definition trim_to_terminator (fl : nat) (len idx : N) (ts : list N) (terms : list N) : res N :=
    if len <=? idx then ROk len
    else
      pruned <- prune ts len idx ;;
      hit <- first_term_matches pruned idx len terms ;;
      if hit then ROk idx
      else
        tm <- greedy_match fl len idx ts terms false false ;;
        skip_back len (mr_end tm) idx.

  (* ---------------------------------------------------------------- Sequence *)
  Definition ival_neg (k : N) : bool := k =? k_dedent g.
  Definition flush_metas (pre post : N) (buf : list N) : list (N * N) :=
    let at_ := if existsb ival_neg buf then post else pre in
    map (fun k => (at_, k)) buf.

  Record sstate := mkS { s_matched : N; s_max : N; s_ins : list (N * N); s_ch : list mr;
                         s_first : bool; s_buf : list N }.

  (** outcome of one element: continue with a new state, or return *)
  Inductive step_r := Cont (s : sstate) | Ret (m : mr).

  Definition seq_elem (fl : nat) (d : seq_d) (len start_idx : N) (terms : list N) (st : sstate) (e : N)
    : res step_r :=
    (* a failed sequence answers with the empty match at [start_idx] (repo commit "fix: a failed Sequence
       reports its empty match at its start ..."); before that fix the three failure exits returned
       [empty_at idx], the cursor after the skipped gap - [max_idx] when the tokens had run out, which
       [match_bracketed] below took for a complete Strict content (notes/C02.md, finding F2) *)
    ie <- info e ;;
    match n_node ie with
    | GCond k en => ROk (Cont (mkS (s_matched st) (s_max st) (s_ins st) (s_ch st) (s_first st)
                                   (if en then s_buf st ++ [k] else s_buf st)))
    | GMeta k => ROk (Cont (mkS (s_matched st) (s_max st) (s_ins st) (s_ch st) (s_first st) (s_buf st ++ [k])))
    | _ =>
        let matched_idx := s_matched st in
        let max_idx := s_max st in
        idx <- (if sq_gaps d then skip_fwd len matched_idx max_idx else ROk matched_idx) ;;
        if max_idx <=? idx then
          o <- opt_of e ;;
          if o then ROk (Cont st)
          else if pmode_eqb (sq_mode d) Strict || (matched_idx =? start_idx) then ROk (Ret (empty_at start_idx))
          else ROk (Ret (MR start_idx matched_idx (Some (MKind (k_unparsable g)))
                            (s_ins st ++ map (fun k => (matched_idx, k)) (s_buf st)) (s_ch st)))
        else
          (if len <? max_idx then RPanic PIndex else ROk tt) ;;;
          em <- rec e idx max_idx terms ;;
          if negb (has_match em) then
            o <- opt_of e ;;
            if o then ROk (Cont st)
            else if pmode_eqb (sq_mode d) Strict then ROk (Ret (empty_at start_idx))
            else if pmode_eqb (sq_mode d) GreedyOnceStarted && (matched_idx =? start_idx) then ROk (Ret (empty_at start_idx))
            else if matched_idx =? start_idx then ROk (Ret (unparsable start_idx max_idx))
            else
              u <- skip_fwd len matched_idx max_idx ;;
              ROk (Ret (MR start_idx max_idx None (s_ins st) (s_ch st ++ [unparsable u max_idx])))
          else
            let ins := s_ins st ++ flush_metas matched_idx idx (s_buf st) in
            let matched_idx' := mr_end em in
            newmax <- (if s_first st && pmode_eqb (sq_mode d) GreedyOnceStarted
                       then trim_to_terminator fl len matched_idx' (sq_terms d ++ terms) terms
                       else ROk max_idx) ;;
            let first' := if pmode_eqb (sq_mode d) GreedyOnceStarted then false else s_first st in
            if is_some (mr_matched em)
            then ROk (Cont (mkS matched_idx' newmax ins (s_ch st ++ [em]) first' []))
            else ROk (Cont (mkS matched_idx' newmax (ins ++ mr_ins em) (s_ch st ++ mr_ch em) first' []))
    end.

  Fixpoint seq_loop (fl : nat) (d : seq_d) (len start_idx : N) (terms : list N) (st : sstate) (es : list N)
    : res step_r :=
    match es with
    | [] => ROk (Cont st)
    | e :: es' =>
        r <- seq_elem fl d len start_idx terms st e ;;
        match r with
        | Ret m => ROk (Ret m)
        | Cont st' => seq_loop fl d len start_idx terms st' es'
        end
    end.

  Definition match_sequence (fl : nat) (d : seq_d) (len idx : N) (terms : list N) : res mr :=
    max0 <- (if pmode_eqb (sq_mode d) Greedy
             then trim_to_terminator fl len idx (sq_terms d ++ terms) terms else ROk len) ;;
    r <- seq_loop fl d len idx terms (mkS idx max0 [] [] true []) (sq_elems d) ;;
    match r with
    | Ret m => ROk m
    | Cont st =>
        let matched_idx := s_matched st in
        let max_idx := s_max st in
        let ins := s_ins st ++ map (fun k => (matched_idx, k)) (s_buf st) in
        if negb (pmode_eqb (sq_mode d) Strict) && (matched_idx <? max_idx) then
          i <- skip_fwd len matched_idx max_idx ;;
          stop <- skip_back len max_idx i ;;
          if i <? stop then ROk (MR idx stop None ins (s_ch st ++ [unparsable i stop]))
          else ROk (MR idx matched_idx None ins (s_ch st))
        else ROk (MR idx matched_idx None ins (s_ch st))
    end.

  (* ---------------------------------------------------------------- Bracketed *)
  Definition match_bracketed (fl : nat) (self : N) (found : bool) (bs be : option N) (pers gaps : bool) (d : seq_d)
             (len idx : N) (terms : list N) : res mr :=
    if negb found then RPanic PUnwrap                 (* get_bracket_from_dialect(..).unwrap() *)
    else match bs, be with
         | Some sb, Some eb =>
             sm <- rec sb idx len terms ;;
             if negb (has_match sm) then ROk (empty_at idx)
             else
               bm <- resolve_bracket fl len sm sb [sb] [eb] [pers] terms false ;;
               (if mr_end bm =? 0 then RPanic PIndex else ROk tt) ;;;
               let i0 := mr_end sm in
               let e0 := mr_end bm - 1 in
               i1 <- (if gaps then skip_fwd len i0 len else ROk i0) ;;
               e1 <- (if gaps then skip_back len e0 i1 else ROk e0) ;;
               (if len <? e1 then RPanic PIndex else ROk tt) ;;;
               cm <- match_sequence fl d e1 i1 (deeper true [eb] terms) ;;
               if negb (mr_end cm =? e1) && pmode_eqb (sq_mode d) Strict then ROk (empty_at i1)
               else if negb gaps && (mr_end cm =? mr_end bm - 1) then RPanic PUnimpl   (* unimplemented!() *)
               else
                 let ch := if is_some (mr_matched cm) then mr_ch bm ++ [cm] else mr_ch bm ++ mr_ch cm in
                 ROk (MR (mr_start bm) (mr_end bm) (mr_matched bm) (mr_ins bm) ch)
         | _, _ => RPanic (PDangling self)
         end.

  (* ---------------------------------------------------------------- AnyNumberOf *)
  Definition parse_mode_result (len : N) (cur : mr) (max_idx : N) (mode : pmode) : res mr :=
    if pmode_eqb mode Strict then ROk cur
    else
      let stop := mr_end cur in
      if stop =? max_idx then ROk cur
      else
        nc <- all_noncode len stop max_idx ;;
        if nc then ROk cur
        else
          t <- skip_fwd len stop len ;;
          ROk (append cur (unparsable t max_idx)).

  (** counters keyed by cache key *)
  Fixpoint bump (k : N) (cs : list (N * N)) : list (N * N) * option N :=
    match cs with
    | [] => ([], None)
    | (k', c) :: cs' =>
        if k =? k' then ((k', c + 1) :: cs', Some (c + 1))
        else let '(r, o) := bump k cs' in ((k', c) :: r, o)
    end.
  Fixpoint init_counters (es : list N) : res (list (N * N)) :=
    match es with
    | [] => ROk []
    | e :: es' =>
        k <- ckey_of e ;;
        r <- init_counters es' ;;
        ROk (if existsb (fun p => fst p =? k) r then r else (k, 0) :: r)
    end.

  Definition opt_le (a : option N) (n : N) : bool := match a with Some m => m <=? n | None => false end.
  Definition opt_lt (a : option N) (n : N) : bool := match a with Some m => m <? n | None => false end.

  Fixpoint any_loop (k : nat) (d : any_d) (len idx max_idx : N) (terms : list N)
           (n_matches : N) (counters : list (N * N)) (matched_idx working_idx : N) (matched : mr) : res mr :=
    match k with
    | O => RFuel
    | S k' =>
        if ((an_min d <=? n_matches) && (max_idx <=? matched_idx)) || opt_le (an_max d) n_matches
        then parse_mode_result len matched max_idx (an_mode d)
        else if max_idx <=? matched_idx then ROk (empty_at idx)
        else
          '(m, mo) <- longest_match max_idx (an_elems d) working_idx (deeper (an_reset d) (an_terms d) terms) ;;
          if negb (has_match m) then
            parse_mode_result len (if n_matches <? an_min d then empty_at idx else matched) max_idx (an_mode d)
          else match mo with
               | None => RPanic PUnwrap
               | Some o =>
                   ck <- ckey_of o ;;
                   let '(counters', cnt) := bump ck counters in
                   if match cnt with Some c => opt_lt (an_max_per d) c | None => false end
                   then parse_mode_result len matched max_idx (an_mode d)
                   else
                     let matched' := append matched m in
                     let matched_idx' := mr_end matched' in
                     w <- (if an_gaps d then skip_fwd len matched_idx' len else ROk matched_idx') ;;
                     any_loop k' d len idx max_idx terms (n_matches + 1) counters' matched_idx' w matched'
               end
    end.

  Definition match_anynumberof (fl : nat) (d : any_d) (len idx : N) (terms : list N) : res mr :=
    excluded <- match an_exclude d with
                | Some ex => m <- rec ex idx len terms ;; ROk (has_match m)
                | None => ROk false
                end ;;
    if excluded then ROk (empty_at idx)
    else
      counters <- init_counters (an_elems d) ;;
      max_idx <- (if pmode_eqb (an_mode d) Greedy
                  then trim_to_terminator fl len idx
                         (if an_reset d then an_terms d else an_terms d ++ terms) terms
                  else ROk len) ;;
      (if len <? max_idx then RPanic PIndex else ROk tt) ;;;
      any_loop fl d len idx max_idx terms 0 counters idx idx (empty_at idx).

  (* ---------------------------------------------------------------- Delimited *)
  Definition delim_finish (allow_trailing : bool) (min_delims idx : N) (seeking : bool) (dm : option mr)
             (delims : N) (wm : mr) : res mr :=
    let '(delims, wm) := match dm with
                         | Some x => if allow_trailing && negb seeking then (delims + 1, append wm x) else (delims, wm)
                         | None => (delims, wm)
                         end in
    if delims <? min_delims then ROk (empty_at idx) else ROk wm.

  Fixpoint delim_loop (k : nat) (d : any_d) (delim : N) (allow_trailing : bool) (min_delims : N)
           (len idx : N) (terms term_ms : list N)
           (delims : N) (seeking : bool) (working : N) (wm : mr) (dm : option mr) : res mr :=
    match k with
    | O => RFuel
    | S k' =>
        working <- (if an_gaps d && (idx <? working) then skip_fwd len working len else ROk working) ;;
        if len <=? working then delim_finish allow_trailing min_delims idx seeking dm delims wm
        else
          '(tm, _) <- longest_match len term_ms working terms ;;
          if has_match tm then delim_finish allow_trailing min_delims idx seeking dm delims wm
          else
            '(m, _) <- longest_match len (if seeking then [delim] else an_elems d) working
                                     (deeper false (if seeking then [] else [delim]) terms) ;;
            if negb (has_match m) then delim_finish allow_trailing min_delims idx seeking dm delims wm
            else
              if seeking then
                delim_loop k' d delim allow_trailing min_delims len idx terms term_ms delims false (mr_end m) wm (Some m)
              else
                let '(delims', wm') := match dm with
                                       | Some x => (delims + 1, append wm x)
                                       | None => (delims, wm)
                                       end in
                delim_loop k' d delim allow_trailing min_delims len idx terms term_ms delims' true (mr_end m)
                           (append wm' m) dm
    end.

  Definition match_delimited (fl : nat) (d : any_d) (delim : N) (allow_trailing : bool) (min_delims : N)
             (len idx : N) (terms : list N) : res mr :=
    let term_ms := an_terms d ++ filter (fun t => negb (meq delim t)) terms
                   ++ (if an_gaps d then [] else [g_noncode g]) in
    delim_loop fl d delim allow_trailing min_delims len idx terms term_ms 0 false idx (empty_at idx) None.

  (* ---------------------------------------------------------------- leaves *)
  Definition one_token (idx : N) (kind : N) : mr := MR idx (idx + 1) (Some (MNewtype kind)) [] [].

  Fixpoint noncode_scan (n : nat) (len i : N) : res (option N) :=
    match n with
    | O => ROk None
    | S n' => if i <? len then t <- tok len i ;; if p_code t then ROk (Some i) else noncode_scan n' len (i + 1)
              else ROk None
    end.

  (** one node, given the recursive matcher *)
  Definition match_node_body (fl : nat) (n : N) (idx len : N) (terms : list N) : res mr :=
    i <- info n ;;
    match n_node i with
    | GRef target exclude rterms reset =>
        match target with
        | None => RPanic (PDangling n)                             (* Dialect::ref panics *)
        | Some t =>
            let terms' := deeper reset rterms terms in
            ex <- match exclude with
                  | Some e =>
                      match rec e idx len terms' with
                      | ROk m => ROk (has_match m)
                      | RErr => ROk false                          (* is_ok_and *)
                      | RPanic p => RPanic p
                      | RFuel => RFuel
                      end
                  | None => ROk false
                  end ;;
            if ex then ROk (empty_at idx) else rec t idx len terms'
        end
    | GSeq d => match_sequence fl d len idx terms
    | GBracketed found bs be pers gaps d => match_bracketed fl n found bs be pers gaps d len idx terms
    | GAny d => match_anynumberof fl d len idx terms
    | GDelim d delim tr mn => match_delimited fl d delim tr mn len idx terms
    | GNodeM kind gr =>
        if len <=? idx then ROk (empty_at idx)
        else
          t <- tok len idx ;;
          if p_kind t =? kind then ROk (from_span idx (idx + 1))
          else m <- rec gr idx len terms ;; ROk (wrap m (MKind kind))
    | GString up kind =>
        t <- tok len idx ;;
        if p_code t && (p_upper t =? up) then ROk (one_token idx kind) else ROk (empty_at idx)
    | GMulti ups kind =>
        t <- tok len idx ;;
        if p_code t && memN (p_upper t) ups then ROk (one_token idx kind) else ROk (empty_at idx)
    | GTyped template kind =>
        t <- tok len idx ;;
        if p_kind t =? template then ROk (one_token idx kind) else ROk (empty_at idx)
    | GRegex rid kind =>
        _t <- tok len idx ;;
        if existsb (fun p => (fst p =? rid) && (snd p =? idx)) rx then ROk (one_token idx kind) else ROk (empty_at idx)
    | GMeta _ => RPanic PUnimpl
    | GCond k en => if en then ROk (MR idx idx None [(idx, k)] []) else ROk (empty_at idx)
    | GAnything aterms =>
        if is_empty aterms && is_empty terms then ROk (from_span idx len)
        else greedy_match fl len idx (aterms ++ terms) terms false true
    | GNothing => ROk (empty_at idx)
    | GNonCode =>
        hit <- noncode_scan (S (N.to_nat (len - idx))) len idx ;;
        match hit with
        | Some j => if idx <? j then ROk (from_span idx j) else ROk (empty_at idx)
        | None => ROk (empty_at idx)
        end
    | GBracketSeg =>
        t <- tok len idx ;;
        if p_kind t =? k_bracketed g then ROk (from_span idx (idx + 1)) else ROk (empty_at idx)
    end.
End Engine.

(** tie the knot with fuel *)
Fixpoint match_node (g : grammar) (toks : PositiveMap.t ptok) (rx : list (N * N)) (fuel : nat)
         (n idx len : N) (terms : list N) : res mr :=
  match fuel with
  | O => RFuel
  | S f => match_node_body g toks rx (match_node g toks rx f) f n idx len terms
  end.

(** [FileSegment.match_grammar().match_segments(&segments[..end_idx], start_idx, ctx)] *)
Definition parse_root (g : grammar) (toks : PositiveMap.t ptok) (rx : list (N * N)) (fuel : nat)
           (start_idx end_idx : N) : res mr :=
  match g_root g with
  | None => RPanic PDanglingBracket     (* FileSegment missing from the library *)
  | Some r => match_node g toks rx fuel r start_idx end_idx []
  end.

Definition toks_of_list (l : list ptok) : PositiveMap.t ptok :=
  snd (fold_left (fun '(i, m) t => (N.succ i, PositiveMap.add (key i) t m)) l (0, PositiveMap.empty ptok)).
Definition nodes_of_list (l : list (N * ninfo)) : PositiveMap.t ninfo :=
  fold_left (fun m p => PositiveMap.add (key (fst p)) (snd p) m) l (PositiveMap.empty ninfo).
