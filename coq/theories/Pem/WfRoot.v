(** From the well-formedness of every match of the interpreter ([Pem.Wf]) to C02 on the interpreter:
    whatever a safe grammar graph answers for the code span of a token array, [root_parse] builds a
    File tree whose leaves are exactly all tokens, in order. *)
From Coq Require Import FMapPositive Lia.
From Sq Require Import Base.Bytes Apply.Model Apply.Proofs Pem.Model Pem.Bounds Pem.WfSafe Pem.WfLemmas Pem.Wf.

Local Open Scope N_scope.

(** Every successful match of every node of a safe graph is well-formed w.r.t. any token array
    that is at least as long as the slice. *)
Theorem match_node_wf g toks rx fuel nd idx len terms m n :
  wf_safe_b g = true -> idx <= len -> len <= n -> 0 < n ->
  match_node g toks rx fuel nd idx len terms = ROk m -> wf n m = true.
Proof.
  intros Hs Hi Hl Hn H. exact (q_wf _ _ _ _ _ (match_node_Q g toks rx n Hn Hs fuel _ _ _ _ _ Hi Hl H)).
Qed.

(* ------------------------------------------------------------ the token map *)
Lemma key_inj a b : key a = key b -> a = b.
Proof.
  unfold key. intro H. apply (f_equal N.pos) in H. rewrite !N.succ_pos_spec in H. lia.
Qed.

Lemma toks_fold_get (l : list ptok) : forall i0 (m0 : PositiveMap.t ptok),
  let r := fold_left (fun '(i, m) t => (N.succ i, PositiveMap.add (key i) t m)) l (i0, m0) in
  forall j, get (snd r) j =
            if (i0 <=? j) && (j <? i0 + N.of_nat (length l)) then nth_error l (N.to_nat (j - i0)) else get m0 j.
Proof.
  induction l as [|t l IH]; intros i0 m0 r j; subst r; cbn [fold_left length].
  - destruct (N.leb_spec i0 j), (N.ltb_spec j (i0 + N.of_nat 0)); cbn; try reflexivity. lia.
  - rewrite IH. unfold get.
    destruct (N.leb_spec (N.succ i0) j), (N.ltb_spec j (N.succ i0 + N.of_nat (length l)));
      destruct (N.leb_spec i0 j), (N.ltb_spec j (i0 + N.of_nat (S (length l)))); cbn [andb]; try lia.
    + replace (N.to_nat (j - i0)) with (S (N.to_nat (j - N.succ i0))) by lia. reflexivity.
    + rewrite PositiveMap.gso; [reflexivity|intro E; apply key_inj in E; lia].
    + assert (j = i0) by lia. subst j. rewrite PositiveMap.gss, N.sub_diag. reflexivity.
    + rewrite PositiveMap.gso; [reflexivity|intro E; apply key_inj in E; lia].
Qed.

Lemma toks_of_list_get l j : get (toks_of_list l) j = nth_error l (N.to_nat j).
Proof.
  unfold toks_of_list. rewrite toks_fold_get. rewrite N.sub_0_r, N.add_0_l.
  destruct (N.leb_spec 0 j); [|lia].
  destruct (N.ltb_spec j (N.of_nat (length l))); cbn [andb].
  - reflexivity.
  - unfold get. rewrite PositiveMap.gempty. symmetry. apply nth_error_None. lia.
Qed.

Lemma position_nth {A} (f : A -> bool) l : forall i,
  position f l = Some i -> exists x, nth_error l (N.to_nat i) = Some x /\ f x = true.
Proof.
  induction l as [|y l IH]; intros i H; cbn [position] in H; [discriminate|].
  destruct (f y) eqn:E.
  - inversion H; subst. exists y. auto.
  - destruct (position f l) as [i'|]; [|discriminate]. cbn in H. inversion H; subst.
    destruct (IH i' eq_refl) as (x & Hx & Hf). exists x. split; [|exact Hf].
    rewrite N2Nat.inj_succ. exact Hx.
Qed.

(** the first code token, when the grammar is called at all *)
Lemma start_idx_code ts :
  start_idx ts <> end_idx ts ->
  exists t, nth_error ts (N.to_nat (start_idx ts)) = Some t /\ t_code t = true.
Proof.
  unfold end_idx, start_idx. intro H.
  destruct (position t_code ts) as [i|] eqn:Ep; [exact (position_nth _ _ _ Ep)|].
  exfalso. apply position_none in Ep.
  destruct (rposition_succ t_code ts) as [j|] eqn:Er; [|congruence].
  clear H. revert j Er. induction ts as [|x l IH]; intros j Er; cbn in *; [discriminate|].
  apply orb_false_iff in Ep as [Ex El].
  destruct (rposition_succ t_code l) as [j'|]; [exact (IH El j' eq_refl)|].
  rewrite Ex in Er. discriminate.
Qed.

Section Root.
  Variable g : grammar.
  Variable ptoks : list ptok.
  Variable rx : list (N * N).
  Variable ts : list Apply.Model.tok.
  Hypothesis Hsafe : wf_safe_b g = true.
  (** the engine sees the code flags of the token array *)
  Hypothesis Hcode : map p_code ptoks = map t_code ts.

  Let n := N.of_nat (length ts).
  Let si := start_idx ts.
  Let ei := end_idx ts.

  Lemma codeat_start : si <> ei -> codeat (toks_of_list ptoks) si.
  Proof.
    intro H. destruct (start_idx_code ts H) as (t & Ht & Hc).
    assert (E : nth_error (map t_code ts) (N.to_nat si) = Some true)
      by (unfold si; rewrite (map_nth_error t_code _ _ Ht), Hc; reflexivity).
    rewrite <- Hcode in E. rewrite nth_error_map in E.
    unfold codeat. rewrite toks_of_list_get.
    destruct (nth_error ptoks (N.to_nat si)) as [p|]; [|discriminate]. cbn in E. inversion E.
    exists p. auto.
  Qed.

  (** the root match: well-formed, inside the code span, and starting at the first code token as
      soon as it matched anything *)
  Theorem parse_root_wf fuel m :
    si <> ei -> parse_root g (toks_of_list ptoks) rx fuel si ei = ROk m ->
    wf n m = true /\ si <= mr_start m /\ mr_end m <= ei /\ (has_match m = true -> mr_start m = si).
  Proof.
    intros Hne H. destruct (idx_bounds ts) as [B1 B2]. fold si ei n in B1, B2.
    assert (Hn : 0 < n) by lia.
    pose proof (parse_root_bounds g _ rx fuel si ei m B1 H) as (P1 & P2 & P3).
    unfold parse_root in H. destruct (g_root g) as [r|]; [|discriminate].
    pose proof (match_node_Q g _ rx n Hn Hsafe fuel _ _ _ _ _ B1 B2 H) as [Q1 Q2 Q3 Q4].
    repeat split; auto. intro Hm. apply Q4; [apply codeat_start; exact Hne|exact Hm].
  Qed.

  Theorem parse_root_wf_root fuel m :
    si <> ei -> parse_root g (toks_of_list ptoks) rx fuel si ei = ROk m -> has_match m = true ->
    wf_root ts m = true.
  Proof.
    intros Hne H Hm. destruct (parse_root_wf fuel m Hne H) as (W & _ & E & S).
    unfold wf_root. fold n. rewrite W, (S Hm). fold si ei.
    rewrite N.eqb_refl. cbn. apply N.leb_le. exact E.
  Qed.

  (** a root match that matched nothing is only looked at for its end *)
  Lemma root_parse_nomatch m :
    si <> ei -> wf n m = true -> mr_end m <= ei -> has_match m = false ->
    root_parse ts (GOk m) = root_parse ts (GOk (MR si si None [] [])).
  Proof.
    intros Hne W E Hm. destruct (idx_bounds ts) as [B1 B2]. fold si ei n in B1, B2.
    destruct (wf_span _ _ W) as [S1 S2].
    unfold root_parse, root_parse_gen. fold si ei n.
    destruct (N.eqb_spec si ei); [contradiction|].
    destruct (apply_leaves ts m W) as (r & -> & _).
    destruct (apply_leaves ts (MR si si None [] [])) as (r' & -> & _); [apply wf_nil; fold n; lia|].
    cbn [mr_end].
    rewrite !slice_some by (fold n; lia).
    rewrite Hm. unfold has_match. cbn [mr_start mr_end mr_ins is_empty]. rewrite N.eqb_refl. cbn.
    reflexivity.
  Qed.

  (** C02 on the interpreter *)
  Theorem parse_keeps_every_token fuel m :
    ts <> [] ->
    parse_root g (toks_of_list ptoks) rx fuel si ei = ROk m ->
    exists ch, root_parse ts (GOk m) = Some (POk (Node K_File ch)) /\ leaves_l ch = map t_id ts.
  Proof.
    intros Hts H. destruct (N.eq_dec si ei) as [Heq|Hne].
    - (* no code: the grammar's answer is not used *)
      exists (map tok_tree ts). unfold root_parse, root_parse_gen. fold si ei. rewrite Heq, N.eqb_refl.
      rewrite node_of_some by (apply map_nonempty; exact Hts). split; [reflexivity|apply leaves_tok_trees].
    - destruct (parse_root_wf fuel m Hne H) as (W & S0 & E & S).
      destruct (has_match m) eqn:Hm.
      + apply root_parse_covers; [exact Hts|]. apply (parse_root_wf_root fuel m Hne H Hm).
      + rewrite (root_parse_nomatch m Hne W E Hm). apply root_parse_covers; [exact Hts|].
        destruct (idx_bounds ts) as [B1 B2]. fold si ei n in B1, B2.
        unfold wf_root. fold n si ei. cbn [mr_start mr_end]. rewrite wf_nil by lia.
        rewrite N.eqb_refl. cbn. apply N.leb_le. exact B1.
  Qed.
End Root.
