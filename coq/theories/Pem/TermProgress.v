(** Loop progress of the parser-engine interpreter (ingredient 1 of its termination proof).

    [Pm idx m]: a result that [has_match] ends behind the index the matcher was started at.
      - [longest_match_adv]: every result of [longest_match] satisfies it, whatever the options
        are (the engine's own guard: a candidate replaces the best match only if it is strictly
        longer, a complete match ends at [len > idx]) - hence every successful match of an
        [AnyNumberOf] / [Delimited] node does, and every iteration of their loops advances;
      - [match_node_adv]: every node of a set [tc] accepted by [tc_ok_b] ([Pem.TermCert]) does.
    Partial-correctness statements, proved like the span bounds of [Pem.Bounds] by induction on
    fuel with one lemma per algorithm. *)
From Coq Require Import FMapPositive MSets.MSetPositive Lia.
From Sq Require Import Base.Bytes Apply.Model Pem.Model Pem.Bounds Pem.NoPanicCert Pem.NoPanic Pem.TermCert.

Local Open Scope N_scope.

Definition Pm (idx : N) (m : mr) : Prop := has_match m = true -> idx < mr_end m.

Lemma Pm_empty i j : Pm i (empty_at j).
Proof. intro H. rewrite has_match_empty in H. discriminate. Qed.
Lemma Pm_weaken i j m : i <= j -> Pm j m -> Pm i m.
Proof. intros Hij H Hm. specialize (H Hm). lia. Qed.
Lemma Pm_end i m : i < mr_end m -> Pm i m.
Proof. intros H _. exact H. Qed.

Lemma is_empty_has_match x : mr_is_empty x = false -> has_match x = true.
Proof. unfold mr_is_empty. intro H. apply negb_false_iff in H. exact H. Qed.

Lemma append_end_hm a b : has_match b = true -> mr_end (append a b) = mr_end b.
Proof.
  unfold append, mr_is_empty. intro H. rewrite H. cbn [negb].
  destruct (negb (has_match a)); reflexivity.
Qed.
Lemma Pm_append i a b : Pm i a -> Pm i b -> Pm i (append a b).
Proof.
  unfold append. intros Ha Hb. destruct (mr_is_empty a) eqn:Ea; [exact Hb|].
  destruct (mr_is_empty b) eqn:Eb; [exact Ha|]. intros _. cbn. apply Hb. apply is_empty_has_match. exact Eb.
Qed.
Lemma Pm_wrap i x k : Pm i x -> Pm i (wrap x k).
Proof.
  unfold wrap. intro H. destruct (mr_is_empty x) eqn:E; [exact H|]. intros _. cbn. apply H.
  apply is_empty_has_match. exact E.
Qed.

Lemma info_get g n i : info g n = ROk i -> get (g_nodes g) n = Some i.
Proof. unfold info. destruct (get (g_nodes g) n); intro H; inversion H. reflexivity. Qed.

Section Progress.
  Variable g : grammar.
  Variable toks : PositiveMap.t ptok.
  Variable rx : list (N * N).
  Variable tc : tset.
  Hypothesis Htc : tc_ok_b g tc = true.

  Lemma tc_entry n i : tc_in tc n = true -> get (g_nodes g) n = Some i -> tc_local g tc i = true.
  Proof.
    unfold tc_in, get. intros Hin Hget. unfold tc_ok_b in Htc.
    apply PS.for_all_spec in Htc; [|intros x y ->; reflexivity].
    apply PS.mem_spec in Hin. specialize (Htc _ Hin). cbn beta in Htc. rewrite Hget in Htc. exact Htc.
  Qed.

  (** a [Sequence] element after which the sequence has consumed a token *)
  Definition good (e : N) : bool := elem_called g e && nonopt_b g e && tc_in tc e.

  (* ---------------------------------------------------------------- the body of [seq_elem] *)
  Section SeqBody.
    Variable rec : N -> N -> N -> list N -> res mr.

    (** what [seq_elem] does with an element that is matched (not a meta / conditional) *)
    Definition seq_body (fl : nat) (d : seq_d) (len start_idx : N) (terms : list N) (st : sstate) (e : N)
      : res step_r :=
      let matched_idx := s_matched st in
      let max_idx := s_max st in
      idx <- (if sq_gaps d then skip_fwd toks len matched_idx max_idx else ROk matched_idx) ;;
      if max_idx <=? idx then
        o <- opt_of g e ;;
        if o then ROk (Cont st)
        else if pmode_eqb (sq_mode d) Strict || (matched_idx =? start_idx) then ROk (Ret (empty_at start_idx))
        else ROk (Ret (MR start_idx matched_idx (Some (MKind (k_unparsable g)))
                          (s_ins st ++ map (fun k => (matched_idx, k)) (s_buf st)) (s_ch st)))
      else
        (if len <? max_idx then RPanic PIndex else ROk tt) ;;;
        em <- rec e idx max_idx terms ;;
        if negb (has_match em) then
          o <- opt_of g e ;;
          if o then ROk (Cont st)
          else if pmode_eqb (sq_mode d) Strict then ROk (Ret (empty_at start_idx))
          else if pmode_eqb (sq_mode d) GreedyOnceStarted && (matched_idx =? start_idx) then ROk (Ret (empty_at start_idx))
          else if matched_idx =? start_idx then ROk (Ret (unparsable g start_idx max_idx))
          else
            u <- skip_fwd toks len matched_idx max_idx ;;
            ROk (Ret (MR start_idx max_idx None (s_ins st) (s_ch st ++ [unparsable g u max_idx])))
        else
          let ins := s_ins st ++ flush_metas g matched_idx idx (s_buf st) in
          let matched_idx' := mr_end em in
          newmax <- (if s_first st && pmode_eqb (sq_mode d) GreedyOnceStarted
                     then trim_to_terminator g toks rec fl len matched_idx' (sq_terms d ++ terms) terms
                     else ROk max_idx) ;;
          let first' := if pmode_eqb (sq_mode d) GreedyOnceStarted then false else s_first st in
          if is_some (mr_matched em)
          then ROk (Cont (mkS matched_idx' newmax ins (s_ch st ++ [em]) first' []))
          else ROk (Cont (mkS matched_idx' newmax (ins ++ mr_ins em) (s_ch st ++ mr_ch em) first' [])).

    (** [seq_elem] buffers a meta / conditional and runs [seq_body] on anything else *)
    Lemma seq_elem_cases fl d len si terms st e (Q : res step_r -> Prop) :
      (forall p, Q (RPanic p)) ->
      (forall st', s_matched st' = s_matched st -> s_max st' = s_max st -> elem_called g e = false -> Q (ROk (Cont st'))) ->
      (elem_called g e = true -> Q (seq_body fl d len si terms st e)) ->
      Q (seq_elem g toks rec fl d len si terms st e).
    Proof.
      intros Hp Hm Hb. unfold seq_elem.
      destruct (info g e) as [ie| |p|] eqn:Ei; cbn [bind];
        try (unfold info in Ei; destruct (get (g_nodes g) e); discriminate); [|apply Hp].
      apply info_get in Ei.
      assert (Hc : elem_called g e = match n_node ie with GMeta _ | GCond _ _ => false | _ => true end)
        by (unfold elem_called; rewrite Ei; reflexivity).
      destruct (n_node ie);
        try (apply Hb; exact Hc);
        (apply Hm; [reflexivity|reflexivity|exact Hc]).
    Qed.
  End SeqBody.

  (* ---------------------------------------------------------------- with the recursive matcher *)
  Section WithRec.
    Variable rec : N -> N -> N -> list N -> res mr.
    Hypothesis HrecB : forall n i l t m, i <= l -> rec n i l t = ROk m -> B i l m.
    Hypothesis HrecP : forall n i l t m, i <= l -> tc_in tc n = true -> rec n i l t = ROk m -> Pm i m.

    (* -------------------------------------------------------------- longest_match: the engine's guard *)
    Lemma longest_loop_adv opts : forall idx len terms best bm m o,
      idx < len -> Pm idx best ->
      longest_loop g toks rec opts idx len terms best bm = ROk (m, o) -> Pm idx m.
    Proof.
      induction opts as [|op opts IH]; intros idx len terms best bm m o Hi Hb H; cbn [longest_loop] in H.
      - inversion H; subst. exact Hb.
      - inv_bind H. inv_bind H. rename a0 into r.
        assert (Hr : B idx len r) by (eapply HrecB; [lia|eassumption]).
        destruct (has_match r && (mr_end r =? len)) eqn:E1.
        { inversion H; subst. apply andb_true_iff in E1 as [_ E1]. b2p. apply Pm_end. lia. }
        destruct (mlen best <? mlen r) eqn:E2.
        + assert (Hpr : Pm idx r).
          { unfold mlen in E2. b2p. destruct Hr as (R1 & R2 & R3). apply Pm_end. lia. }
          destruct (is_empty opts); [inversion H; subst; exact Hpr|].
          destruct (negb (is_empty terms)).
          * inv_bind H. destruct (a0 =? len); [inversion H; subst; exact Hpr|].
            inv_bind H. destruct a1; [inversion H; subst; exact Hpr|].
            eapply IH in H; [exact H|exact Hi|exact Hpr].
          * eapply IH in H; [exact H|exact Hi|exact Hpr].
        + eapply IH in H; [exact H|exact Hi|exact Hb].
    Qed.

    (** a match returned by [longest_match] ends behind the start index *)
    Lemma longest_match_adv len ms idx terms m o :
      longest_match g toks rec len ms idx terms = ROk (m, o) -> Pm idx m.
    Proof.
      unfold longest_match. intro H.
      destruct (is_empty ms || (idx =? len)); [inversion H; apply Pm_empty|].
      inv_bind H. destruct (is_empty a); [inversion H; apply Pm_empty|].
      inv_bind H. apply tok_lt in Ha0.
      eapply longest_loop_adv; [exact Ha0| |exact H]. apply Pm_empty.
    Qed.

    (* -------------------------------------------------------------- AnyNumberOf *)
    Lemma parse_mode_result_adv len cur mx mode idx r :
      B idx mx cur -> mx <= len -> Pm idx cur ->
      parse_mode_result g toks len cur mx mode = ROk r -> Pm idx r.
    Proof.
      unfold parse_mode_result. intros Hc Hmx Hp H.
      destruct (pmode_eqb mode Strict); [inversion H; subst; exact Hp|].
      destruct (mr_end cur =? mx); [inversion H; subst; exact Hp|].
      inv_bind H. destruct a; [inversion H; subst; exact Hp|].
      inv_bind H. inversion H; subst. rename a into t.
      unfold all_noncode in Ha. destruct ((mr_end cur <=? mx) && (mx <=? len)); [|discriminate].
      assert (Ht : t < mx) by (eapply noncode_false_skip; [exact Ha|exact Hmx|exact Ha0]).
      apply skip_fwd_spec in Ha0. destruct Hc as (C1 & C2 & C3).
      apply Pm_append; [exact Hp|]. apply Pm_end. cbn. lia.
    Qed.

    Lemma any_loop_adv k : forall d len idx mx terms nm cs mi wi matched r,
      idx <= mx -> mx <= len -> B idx mx matched -> Pm idx matched -> mi = mr_end matched -> mi <= wi ->
      any_loop g toks rec k d len idx mx terms nm cs mi wi matched = ROk r -> Pm idx r.
    Proof.
      induction k as [|k IH]; intros d len idx mx terms nm cs mi wi matched r Hi Hmx Hm Hp Hmi Hwi H;
        cbn [any_loop] in H; [discriminate|].
      destruct (((an_min d <=? nm) && (mx <=? mi)) || opt_le (an_max d) nm);
        [eapply parse_mode_result_adv; eassumption|].
      destruct (mx <=? mi); [inversion H; subst; apply Pm_empty|].
      inv_bind H. destruct a as [m mo].
      destruct (negb (has_match m)) eqn:Ehm.
      - destruct (nm <? an_min d).
        + eapply parse_mode_result_adv; [|exact Hmx| |exact H]; [apply B_empty; exact Hi|apply Pm_empty].
        + eapply parse_mode_result_adv; eassumption.
      - apply negb_false_iff in Ehm.
        destruct mo as [o|]; [|discriminate].
        inv_bind H. destruct (bump a cs) as [cs' cnt].
        destruct (match cnt with Some c => opt_lt (an_max_per d) c | None => false end);
          [eapply parse_mode_result_adv; eassumption|].
        inv_bind H. rename a0 into w'.
        pose proof (longest_match_adv _ _ _ _ _ _ Ha) as Hadv.
        apply (longest_match_spec g toks rec HrecB) in Ha. destruct Ha as [->|[Hw Hbm]];
          [unfold has_match in Ehm; cbn in Ehm; rewrite N.eqb_refl in Ehm; discriminate|].
        assert (Hm' : B idx mx (append matched m)).
        { apply B_append; [exact Hm|eapply B_weaken; [|exact Hbm]; destruct Hm; lia|destruct Hbm; lia]. }
        eapply IH in H; [exact H|exact Hi|exact Hmx|exact Hm'| |reflexivity|].
        + apply Pm_append; [exact Hp|]. eapply Pm_weaken; [|exact Hadv]. destruct Hm. lia.
        + destruct (an_gaps d); [apply skip_fwd_spec in Ha1; lia|inversion Ha1; subst; lia].
    Qed.

    Lemma match_anynumberof_adv fl d len idx terms m :
      idx <= len -> match_anynumberof g toks rec fl d len idx terms = ROk m -> Pm idx m.
    Proof.
      unfold match_anynumberof. intros Hi H.
      inv_bind H. destruct a; [inversion H; subst; apply Pm_empty|].
      inv_bind H. inv_bind H. rename a0 into mx.
      assert (Hmx : idx <= mx /\ (mx <= len \/ pmode_eqb (an_mode d) Greedy = false)).
      { destruct (pmode_eqb (an_mode d) Greedy);
          [apply (trim_to_terminator_spec g toks rec HrecB) in Ha1; lia|inversion Ha1; subst; lia]. }
      inv_bind H. destruct (len <? mx) eqn:E; [discriminate|]. b2p.
      eapply any_loop_adv in H; [exact H|lia|lia|apply B_empty; lia|apply Pm_empty|reflexivity|cbn; lia].
    Qed.

    (* -------------------------------------------------------------- Delimited *)
    Lemma delim_finish_adv tr mn idx sk dm dl wm r :
      Pm idx wm -> (forall x, dm = Some x -> Pm idx x) ->
      delim_finish tr mn idx sk dm dl wm = ROk r -> Pm idx r.
    Proof.
      unfold delim_finish. intros Hw Hd H.
      destruct dm as [x|].
      - destruct (tr && negb sk).
        + destruct (dl + 1 <? mn); inversion H; subst; [apply Pm_empty|apply Pm_append; auto].
        + destruct (dl <? mn); inversion H; subst; [apply Pm_empty|exact Hw].
      - destruct (dl <? mn); inversion H; subst; [apply Pm_empty|exact Hw].
    Qed.

    Lemma delim_loop_adv k : forall d delim tr mn len idx terms tms dl sk w wm dm r,
      idx <= w -> Pm idx wm -> (forall x, dm = Some x -> Pm idx x) ->
      delim_loop g toks rec k d delim tr mn len idx terms tms dl sk w wm dm = ROk r -> Pm idx r.
    Proof.
      induction k as [|k IH]; intros d delim tr mn len idx terms tms dl sk w wm dm r Hw Hwm Hdm H;
        cbn [delim_loop] in H; [discriminate|].
      assert (Hfin : forall r', delim_finish tr mn idx sk dm dl wm = ROk r' -> Pm idx r')
        by (intros r' Hf; eapply delim_finish_adv; eassumption).
      inv_bind H. rename a into w'.
      assert (Hw' : w <= w')
        by (destruct (an_gaps d && (idx <? w)); [apply skip_fwd_spec in Ha; lia|inversion Ha; subst; lia]).
      destruct (len <=? w'); [apply Hfin; exact H|].
      inv_bind H. destruct a as [tm tmo]. destruct (has_match tm); [apply Hfin; exact H|].
      inv_bind H. destruct a as [m mo].
      destruct (negb (has_match m)) eqn:Ehm; [apply Hfin; exact H|].
      apply negb_false_iff in Ehm.
      pose proof (longest_match_adv _ _ _ _ _ _ Ha1) as Hadv.
      assert (Hpm : Pm idx m) by (eapply Pm_weaken; [|exact Hadv]; lia).
      specialize (Hadv Ehm).
      destruct sk.
      - eapply IH in H; [exact H|lia|exact Hwm|]. intros x Hx. inversion Hx; subst. exact Hpm.
      - destruct dm as [x|].
        + eapply IH in H; [exact H|lia| |exact Hdm].
          apply Pm_append; [apply Pm_append; [exact Hwm|apply Hdm; reflexivity]|exact Hpm].
        + eapply IH in H; [exact H|lia| |exact Hdm]. apply Pm_append; assumption.
    Qed.

    Lemma match_delimited_adv fl d delim tr mn len idx terms m :
      match_delimited g toks rec fl d delim tr mn len idx terms = ROk m -> Pm idx m.
    Proof.
      unfold match_delimited. intro H.
      eapply delim_loop_adv in H; [exact H|lia|apply Pm_empty|]. intros x Hx. discriminate.
    Qed.

    (* -------------------------------------------------------------- Bracketed *)
    Lemma match_bracketed_adv fl self found bs be pers gaps d len idx terms m :
      idx <= len -> (forall sb, bs = Some sb -> tc_in tc sb = true) ->
      match_bracketed g toks rec fl self found bs be pers gaps d len idx terms = ROk m -> Pm idx m.
    Proof.
      unfold match_bracketed. intros Hi Htcs H.
      destruct (negb found); [discriminate|].
      destruct bs as [sb|]; [|discriminate]. destruct be as [eb|]; [|discriminate].
      inv_bind H. rename a into sm.
      assert (Hsm : B idx len sm) by (eapply HrecB; eassumption). destruct Hsm as (S1 & S2 & S3).
      pose proof (HrecP _ _ _ _ _ Hi (Htcs sb eq_refl) Ha) as Hps.
      destruct (negb (has_match sm)) eqn:Ehm; [inversion H; subst; apply Pm_empty|].
      apply negb_false_iff in Ehm. specialize (Hps Ehm).
      inv_bind H. rename a into bm.
      apply (resolve_bracket_spec g toks rec HrecB) in Ha0; [|lia|lia]. destruct Ha0 as (B1 & B2 & B3).
      inv_bind H. inv_bind H. inv_bind H. inv_bind H. inv_bind H.
      destruct (negb (mr_end a3 =? a1) && pmode_eqb (sq_mode d) Strict);
        [inversion H; subst; apply Pm_empty|].
      destruct (negb gaps && (mr_end a3 =? mr_end bm - 1)); [discriminate|].
      inversion H; subst. apply Pm_end. cbn. lia.
    Qed.

    (* -------------------------------------------------------------- Sequence *)
    Lemma nonopt_opt_of e o : nonopt_b g e = true -> opt_of g e = ROk o -> o = false.
    Proof.
      unfold nonopt_b, opt_of, info. destruct (get (g_nodes g) e) as [i|]; [|discriminate]. cbn [bind].
      destruct (n_opt i) as [[|]|]; try discriminate. intros _ H. inversion H. reflexivity.
    Qed.

    Lemma seq_body_adv fl d len si terms st e r :
      SInv si len st -> elem_called g e = true ->
      seq_body rec fl d len si terms st e = ROk r ->
      match r with
      | Cont st' => s_matched st <= s_matched st' /\ (good e = true -> si < s_matched st')
      | Ret m => Pm si m
      end.
    Proof.
      unfold seq_body. intros (I1 & I2 & I3) Hcalled H.
      assert (Hgood : good e = true -> nonopt_b g e = true /\ tc_in tc e = true).
      { unfold good. intro Hg. apply andb_true_iff in Hg as [Hg Hg2]. apply andb_true_iff in Hg as [_ Hg1]. auto. }
      inv_bind H. rename a into idx'.
      assert (Hidx : s_matched st <= idx' /\ idx' <= s_max st)
        by (destruct (sq_gaps d); [apply skip_fwd_spec in Ha; lia|inversion Ha; subst; lia]).
      destruct (s_max st <=? idx') eqn:Emax; b2p.
      - inv_bind H. destruct a.
        + inversion H; subst. split; [lia|]. intro Hg. destruct (Hgood Hg) as [Hn _].
          pose proof (nonopt_opt_of _ _ Hn Ha0). discriminate.
        + destruct (pmode_eqb (sq_mode d) Strict || (s_matched st =? si)) eqn:E;
            inversion H; subst; [apply Pm_empty|].
          apply orb_false_iff in E as [_ E]. b2p. apply Pm_end. cbn. lia.
      - inv_bind H. inv_bind H. rename a0 into em.
        assert (Hem : B idx' (s_max st) em) by (eapply HrecB; [lia|eassumption]).
        destruct Hem as (E1 & E2 & E3).
        destruct (negb (has_match em)) eqn:Ehm.
        + inv_bind H. destruct a0.
          * inversion H; subst. split; [lia|]. intro Hg. destruct (Hgood Hg) as [Hn _].
            pose proof (nonopt_opt_of _ _ Hn Ha2). discriminate.
          * destruct (pmode_eqb (sq_mode d) Strict); [inversion H; subst; apply Pm_empty|].
            destruct (pmode_eqb (sq_mode d) GreedyOnceStarted && (s_matched st =? si));
              [inversion H; subst; apply Pm_empty|].
            destruct (s_matched st =? si); [inversion H; subst; apply Pm_end; cbn; lia|].
            inv_bind H. inversion H; subst. apply Pm_end. cbn. lia.
        + apply negb_false_iff in Ehm. inv_bind H. rename a0 into newmax.
          assert (Hres : s_matched st <= mr_end em /\ (good e = true -> si < mr_end em)).
          { split; [lia|]. intro Hg. destruct (Hgood Hg) as [_ Ht].
            assert (Hle : idx' <= s_max st) by lia.
            pose proof (HrecP _ _ _ _ _ Hle Ht Ha1 Ehm). lia. }
          destruct (is_some (mr_matched em)); inversion H; subst; cbn [s_matched]; exact Hres.
    Qed.

    Lemma seq_elem_adv fl d len si terms st e r :
      SInv si len st ->
      seq_elem g toks rec fl d len si terms st e = ROk r ->
      match r with
      | Cont st' => s_matched st <= s_matched st' /\ (good e = true -> si < s_matched st')
      | Ret m => Pm si m
      end.
    Proof.
      intro Hinv. revert r. apply seq_elem_cases.
      - intros p r H. discriminate.
      - intros st' H1 H2 Hc r H. inversion H; subst. split; [lia|].
        unfold good. rewrite Hc. discriminate.
      - intros Hc r H. eapply seq_body_adv; eassumption.
    Qed.

    Lemma seq_loop_adv fl d len si terms es : forall st r,
      SInv si len st -> (si < s_matched st \/ existsb good es = true) ->
      seq_loop g toks rec fl d len si terms st es = ROk r ->
      match r with Cont st' => si < s_matched st' | Ret m => Pm si m end.
    Proof.
      induction es as [|e es IH]; intros st r Hinv Hj H; cbn [seq_loop] in H.
      - inversion H; subst. destruct Hj as [Hj|Hj]; [exact Hj|discriminate].
      - inv_bind H.
        pose proof (seq_elem_spec g toks rec HrecB _ _ _ _ _ _ _ _ Hinv Ha) as Hs.
        pose proof (seq_elem_adv _ _ _ _ _ _ _ _ Hinv Ha) as Hadv.
        destruct a as [st'|m]; [|inversion H; subst; exact Hadv].
        destruct Hadv as [Hmono Hg].
        eapply IH; [exact Hs| |exact H].
        destruct Hj as [Hj|Hj]; [left; lia|].
        cbn [existsb] in Hj. apply orb_true_iff in Hj as [Hj|Hj]; [left; apply Hg; exact Hj|right; exact Hj].
    Qed.

    Lemma match_sequence_adv fl d len idx terms m :
      idx <= len -> existsb good (sq_elems d) = true ->
      match_sequence g toks rec fl d len idx terms = ROk m -> Pm idx m.
    Proof.
      unfold match_sequence. intros Hi Hg H.
      inv_bind H. rename a into max0.
      assert (Hmax : idx <= max0 /\ max0 <= len)
        by (destruct (pmode_eqb (sq_mode d) Greedy);
            [apply (trim_to_terminator_spec g toks rec HrecB) in Ha; lia|inversion Ha; subst; lia]).
      inv_bind H.
      assert (Hinv : SInv idx len (mkS idx max0 [] [] true [])) by (unfold SInv; cbn; lia).
      pose proof (seq_loop_spec g toks rec HrecB _ _ _ _ _ _ _ _ Hinv Ha0) as Hs.
      pose proof (seq_loop_adv _ _ _ _ _ _ _ _ Hinv (or_intror Hg) Ha0) as Hadv.
      destruct a as [st|m']; [|inversion H; subst; exact Hadv].
      destruct Hs as (S1 & S2 & S3).
      destruct (negb (pmode_eqb (sq_mode d) Strict) && (s_matched st <? s_max st)).
      - inv_bind H. inv_bind H. apply skip_fwd_spec in Ha1. apply skip_back_spec in Ha2.
        destruct (a <? a0) eqn:E; b2p; inversion H; subst; apply Pm_end; cbn; lia.
      - inversion H; subst. apply Pm_end. cbn. lia.
    Qed.

    (* -------------------------------------------------------------- one node *)
    Lemma match_node_body_adv fl n idx len terms m :
      idx <= len -> tc_in tc n = true ->
      match_node_body g toks rx rec fl n idx len terms = ROk m -> Pm idx m.
    Proof.
      unfold match_node_body. intros Hi Ht H.
      inv_bind H. pose proof (tc_entry _ _ Ht (info_get _ _ _ Ha)) as Hloc.
      unfold tc_local in Hloc. destruct (n_node a).
      - (* GRef *)
        destruct target as [t|]; [|discriminate].
        inv_bind H. destruct a0; [inversion H; subst; apply Pm_empty|].
        eapply HrecP; eassumption.
      - eapply match_sequence_adv; eassumption.
      - eapply match_bracketed_adv; [exact Hi| |exact H].
        intros sb ->. exact Hloc.
      - eapply match_anynumberof_adv; eassumption.
      - eapply match_delimited_adv; eassumption.
      - (* GNodeM *)
        destruct (len <=? idx); [inversion H; subst; apply Pm_empty|].
        inv_bind H. destruct (p_kind a0 =? kind); [inversion H; subst; apply Pm_end; cbn; lia|].
        inv_bind H. inversion H; subst. apply Pm_wrap. eapply HrecP; eassumption.
      - inv_bind H. destruct (p_code a0 && (p_upper a0 =? upper)); inversion H; subst;
          [apply Pm_end; cbn; lia|apply Pm_empty].
      - inv_bind H. destruct (p_code a0 && memN (p_upper a0) uppers); inversion H; subst;
          [apply Pm_end; cbn; lia|apply Pm_empty].
      - inv_bind H. destruct (p_kind a0 =? template); inversion H; subst;
          [apply Pm_end; cbn; lia|apply Pm_empty].
      - inv_bind H. destruct (existsb _ rx); inversion H; subst; [apply Pm_end; cbn; lia|apply Pm_empty].
      - discriminate.
      - discriminate.
      - discriminate.
      - inversion H; subst. apply Pm_empty.
      - inv_bind H. destruct a0 as [j|]; [|inversion H; subst; apply Pm_empty].
        destruct (idx <? j) eqn:E; inversion H; subst; [b2p; apply Pm_end; cbn; lia|apply Pm_empty].
      - inv_bind H. destruct (p_kind a0 =? k_bracketed g); inversion H; subst;
          [apply Pm_end; cbn; lia|apply Pm_empty].
    Qed.
  End WithRec.

  (** every successful match of a token-consuming node ends behind its start index *)
  Theorem match_node_adv fuel : forall n idx len terms m,
    idx <= len -> tc_in tc n = true -> match_node g toks rx fuel n idx len terms = ROk m -> Pm idx m.
  Proof.
    induction fuel as [|f IH]; intros n idx len terms m Hi Ht H; cbn [match_node] in H; [discriminate|].
    eapply match_node_body_adv; [|exact IH|exact Hi|exact Ht|exact H].
    exact (match_node_bounds g toks rx f).
  Qed.
End Progress.
