(** Layout non-interference of the parser-engine interpreter, part 5: a concrete instance of every
    hypothesis (non-vacuity) and the witness that the one clause of the alignment that is not
    about code tokens - the class of the last token of a gap - cannot be dropped. *)
From Coq Require Import FMapPositive.
From Sq Require Import Base.Bytes Apply.Model Pem.Model Pem.LayoutRel Pem.LayoutSim Pem.LayoutInv.
Local Open Scope N_scope.

(** a small SELECT ... FROM ... grammar: the select clause is GreedyOnceStarted with the keyword
    terminator FROM, its body is a non-empty list of words *)
Definition kwS : N := 100.
Definition kwF : N := 101.
Definition toy_info (nd : node) (s : option (list N * list N * bool)) (k : N) : ninfo := mkInfo nd (Some false) s (Some k).
Definition toy_nodes : list (N * ninfo) := [
  (1, toy_info (GString kwS 10) (Some ([kwS],[],true)) 1);
  (2, toy_info (GString kwF 10) (Some ([kwF],[],true)) 2);
  (3, toy_info (GTyped 20 21) (Some ([],[20],false)) 3);
  (4, toy_info (GSeq (mkSeq [1;5] GreedyOnceStarted true [2])) (Some ([kwS],[],true)) 4);
  (5, toy_info (GAny (mkAny [3] None [] false None 1 None true Strict)) (Some ([],[20],false)) 5);
  (6, toy_info (GSeq (mkSeq [2;3] Strict true [])) (Some ([kwF],[],true)) 6);
  (7, toy_info (GSeq (mkSeq [8;9] Strict true [])) (Some ([kwS],[],true)) 7);
  (8, toy_info (GNodeM 30 4) (Some ([kwS],[],true)) 8);
  (9, toy_info (GNodeM 31 6) (Some ([kwF],[],true)) 9);
  (99, toy_info GNonCode None 99)].
Definition toy : grammar := mkGrammar (nodes_of_list toy_nodes) [] [] (Some 7) 1 2 9 0 5 6 7 99.

Definition tS := mkPtok true false 20 [20] kwS kwS (Some kwS).
Definition tF := mkPtok true false 20 [20] kwF kwF (Some kwF).
Definition tA := mkPtok true false 20 [20] 200 200 (Some 200).
Definition tT := mkPtok true false 20 [20] 201 201 (Some 201).
Definition tW := mkPtok false false 1 [1] 300 301 (Some 300).      (* whitespace *)
Definition tN := mkPtok false false 2 [2] 302 301 (Some 302).      (* newline *)
Definition tC := mkPtok false false 3 [3] 400 401 (Some 400).      (* comment *)

(** [SELECT a FROM t] *)
Definition toy_l : list ptok := [tS; tW; tA; tW; tF; tW; tT].
(** the same with a newline added, a comment inside whitespace, a comment after FROM before whitespace *)
Definition toy_l' : list ptok := [tS; tN; tW; tA; tW; tC; tN; tF; tC; tW; tT].
(** the comment abuts FROM: the last token of the gap before the terminator is no longer whitespace *)
Definition toy_bad : list ptok := [tS; tW; tA; tW; tC; tF; tW; tT].

Definition toy_m : mr :=
  MR 0 7 None [] [MR 0 3 (Some (MKind 30)) [] [MR 0 1 (Some (MNewtype 10)) [] []; MR 2 3 (Some (MNewtype 21)) [] []];
                  MR 4 7 (Some (MKind 31)) [] [MR 4 5 (Some (MNewtype 10)) [] []; MR 6 7 (Some (MNewtype 21)) [] []]].

Example toy_hypotheses :
  gap_safe_b toy = true /\ layout_related_b toy toy_l toy_l' = true
  /\ parse_root toy (toks_of_list toy_l) [] 50 (cstart toy_l) (cend toy_l) = ROk toy_m /\ clean_b toy toy_m = true.
Proof. vm_compute. repeat split. Qed.

(** the instance of the theorem: the perturbed list parses to the same code view *)
Example toy_invariant :
  exists m', parse_root toy (toks_of_list toy_l') [] 50 (cstart toy_l') (cend toy_l') = ROk m'
             /\ clean_b toy m' = true /\ cview toy_l' m' = cview toy_l toy_m.
Proof.
  destruct toy_hypotheses as (H1 & H2 & H3 & H4).
  apply (pem_layout_invariant_lists toy toy_l toy_l' (fun _ _ => false) [] [] 50 toy_m H1 H2); try assumption;
    unfold rx_records; intros; reflexivity.
Qed.

(** the alignment without the clause on the class of the last gap token *)
Definition blk_ok_weak (g : grammar) (b : blk) : Prop :=
  match b with
  | BSig t => True
  | BGap w x w' x' => Forall (okgap g) (w ++ [x]) /\ Forall (okgap g) (w' ++ [x'])
  end.

Definition toy_bad_blocks : list blk :=
  [BSig tS; BGap [] tW [] tW; BSig tA; BGap [] tW [tW] tC; BSig tF; BGap [] tW [] tW; BSig tT].

(** same code tokens, every gap still non-empty, every gap token invisible to the graph - and the
    parse is lost: a comment directly before a keyword terminator is not accepted by the guard of
    [greedy_match] (the interpreter-level form of the recorded finding
    c11:comment-abuts-next-code-token) *)
Theorem layout_last_class_needed :
  exists g bs fuel m,
    gap_safe_b g = true /\ Forall (blk_ok_weak g) bs
    /\ parse_root g (toks_of_list (lleft bs)) [] fuel (cstart (lleft bs)) (cend (lleft bs)) = ROk m
    /\ clean_b g m = true
    /\ forall m', parse_root g (toks_of_list (lright bs)) [] fuel (cstart (lright bs)) (cend (lright bs)) = ROk m' ->
                  cview (lright bs) m' <> cview (lleft bs) m.
Proof.
  exists toy, toy_bad_blocks, 50%nat, toy_m.
  split; [vm_compute; reflexivity|]. split.
  - assert (Hg : forall t, In t [tW; tC] -> okgap toy t)
      by (intros t [<-|[<-|[]]]; split; vm_compute; reflexivity).
    repeat constructor; try (apply Hg; cbn; tauto).
  - split; [vm_compute; reflexivity|]. split; [vm_compute; reflexivity|].
    intros m' H. vm_compute in H. inversion H; subst m'. vm_compute. discriminate.
Qed.

(** What the side condition excludes is really layout-sensitive: a Greedy [AnyNumberOf] used as an
    alternative of a [OneOf] that is tried at the start of a gap (the alternatives start with an
    Indent meta, so they have no first-token hint and are not pruned there).  Its match opens with an
    unparsable section that starts *after* the gap, the other alternative's match starts *at* the
    gap, and [longest_match] compares their lengths: with two gap tokens (whitespace, newline) the
    [Sequence] wins and the text parses cleanly, with one the unparsable section wins.  Only the
    length of a whitespace run differs between the two lists.  The graph is the dump of
      Sequence(StringParser a,
               one_of(AnyNumberOf(Sequence(Indent, StringParser zzz)){terminators [;], Greedy}, Sequence(Indent, StringParser b)),
               AnyNumberOf(StringParser ",", StringParser ";")){allow_gaps = false}
    and the token lists are [a \n b,;] and [a b,;]; crates/lib/tests/layout_witness.rs replays it on the real engine. *)
Definition g2_nodes : list (N * ninfo) := [
  (1, toy_info (GString 100 10) (Some ([100],[],true)) 1);                        (* a *)
  (2, toy_info (GString 101 10) (Some ([101],[],true)) 2);                        (* b *)
  (3, toy_info (GString 102 11) (Some ([102],[],false)) 3);                       (* , *)
  (4, toy_info (GString 103 12) (Some ([103],[],false)) 4);                       (* ; *)
  (5, toy_info (GString 999 10) (Some ([999],[],true)) 5);                        (* zzz: not in the text *)
  (6, mkInfo (GMeta 5) (Some true) None (Some 6));                                (* Indent *)
  (7, toy_info (GSeq (mkSeq [1;10;13] Strict false [])) (Some ([100],[],true)) 7);
  (10, toy_info (GAny (mkAny [11;12] None [] false (Some 1) 1 None true Strict)) None 10);     (* one_of *)
  (11, toy_info (GAny (mkAny [14] None [4] false None 0 None true Greedy)) None 11);          (* Greedy AnyNumberOf *)
  (12, toy_info (GSeq (mkSeq [6;2] Strict true [])) None 12);
  (13, toy_info (GAny (mkAny [3;4] None [] false None 0 None true Strict)) (Some ([102;103],[],false)) 13);
  (14, toy_info (GSeq (mkSeq [6;5] Strict true [])) None 14);
  (99, toy_info GNonCode None 99)].
Definition g2 : grammar := mkGrammar (nodes_of_list g2_nodes) [] [] (Some 7) 1 2 9 0 5 6 7 99.
Definition g2_tok (u : N) : ptok := mkPtok true false 20 [20] u u (Some u).
Definition g2_l : list ptok := [g2_tok 100; tW; tN; g2_tok 101; g2_tok 102; g2_tok 103].
Definition g2_l' : list ptok := [g2_tok 100; tW; g2_tok 101; g2_tok 102; g2_tok 103].

Lemma rx_compat_nil g bs : rx_compat g bs [] [].
Proof. split; [|split]; intros; reflexivity. Qed.

Theorem layout_greedy_option_sensitive :
  exists g l l' fuel m,
    layout_related_b g l l' = true
    /\ parse_root g (toks_of_list l) [] fuel (cstart l) (cend l) = ROk m /\ clean_b g m = true
    /\ (forall m', parse_root g (toks_of_list l') [] fuel (cstart l') (cend l') = ROk m' -> clean_b g m' = false)
    /\ gap_safe_b g = false.
Proof.
  exists g2, g2_l, g2_l', 50%nat.
  eexists. split; [vm_compute; reflexivity|]. split; [vm_compute; reflexivity|]. split; [vm_compute; reflexivity|].
  split; [|vm_compute; reflexivity].
  intros m' H. vm_compute in H. inversion H; subst m'. vm_compute. reflexivity.
Qed.
