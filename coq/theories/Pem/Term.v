(** Termination of the parser-engine interpreter: for every grammar graph with a certificate
    accepted by [term_ok_b] ([Pem.TermCert]; the decidable [term_safe_b] uses the computed one),
    every token map, regex oracle and span [s <= e], the interpreter answers within the explicit
    fuel [fuel_bound g (e - s)] - i.e. the engine returns.

    Measure: (tokens left [len - idx], rank of the node), lexicographic.  One lemma per algorithm
    of [Pem.Model]: given that the recursive matcher answers on every call of smaller measure
    ([HrecT]), the algorithm answers; loop progress comes from [Pem.TermProgress]. *)
From Coq Require Import FMapPositive MSets.MSetPositive Lia.
From Sq Require Import Base.Bytes Apply.Model Pem.Model Pem.Bounds Pem.FuelMono Pem.NoPanicCert Pem.NoPanic Pem.TermCert Pem.TermProgress.

Local Open Scope N_scope.

(** the interpreter answered *)
Definition NF {A} (x : res A) : Prop := x <> RFuel.

Lemma nf_ok {A} (a : A) : NF (ROk a).
Proof. discriminate. Qed.
Lemma nf_err {A} : NF (@RErr A).
Proof. discriminate. Qed.
Lemma nf_panic {A} p : NF (@RPanic A p).
Proof. discriminate. Qed.
Lemma nf_bind {A C} (x : res A) (f : A -> res C) :
  NF x -> (forall a, x = ROk a -> NF (f a)) -> NF (bind x f).
Proof.
  intros Hx Hf. destruct x as [a| |p|]; cbn; [apply Hf; reflexivity|apply nf_err|apply nf_panic|].
  exfalso. apply Hx. reflexivity.
Qed.

Ltac nf1 :=
  match goal with
  | |- NF (ROk _) => apply nf_ok
  | |- NF RErr => apply nf_err
  | |- NF (RPanic _) => apply nf_panic
  | H : _ |- NF _ => solve [apply H; auto]
  | |- NF (bind _ _) => apply nf_bind; [|intros]
  | |- NF (if ?c then _ else _) => destruct c
  | |- NF (match ?x with _ => _ end) => destruct x
  | |- NF (let '(_, _) := ?x in _) => destruct x
  end.
Ltac nf := repeat nf1.

(* ------------------------------------------------------------------ functions without recursion *)
Section Simple.
  Variable g : grammar.
  Variable toks : PositiveMap.t ptok.

  Lemma info_nf n : NF (info g n).
  Proof. unfold info. nf. Qed.
  Lemma tok_nf len i : NF (tok toks len i).
  Proof. unfold tok. nf. Qed.
  Lemma simple_of_nf n : NF (simple_of g n).
  Proof. unfold simple_of. pose proof info_nf. nf. Qed.
  Lemma opt_of_nf n : NF (opt_of g n).
  Proof. unfold opt_of. pose proof info_nf. nf. Qed.
  Lemma ckey_of_nf n : NF (ckey_of g n).
  Proof. unfold ckey_of. pose proof info_nf. nf. Qed.

  Lemma skip_fwd_aux_nf n : forall len idx mx, NF (skip_fwd_aux toks n len idx mx).
  Proof. induction n as [|n IH]; intros; cbn [skip_fwd_aux]; pose proof tok_nf; nf. Qed.
  Lemma skip_fwd_nf len idx mx : NF (skip_fwd toks len idx mx).
  Proof. apply skip_fwd_aux_nf. Qed.
  Lemma skip_back_aux_nf n : forall len idx mn, NF (skip_back_aux toks n len idx mn).
  Proof. induction n as [|n IH]; intros; cbn [skip_back_aux]; pose proof tok_nf; nf. Qed.
  Lemma skip_back_nf len idx mn : NF (skip_back toks len idx mn).
  Proof. apply skip_back_aux_nf. Qed.
  Lemma all_noncode_aux_nf n : forall len a b, NF (all_noncode_aux toks n len a b).
  Proof. induction n as [|n IH]; intros; cbn [all_noncode_aux]; pose proof tok_nf; nf. Qed.
  Lemma all_noncode_nf len a b : NF (all_noncode toks len a b).
  Proof. unfold all_noncode. pose proof all_noncode_aux_nf. nf. Qed.
  Lemma noncode_scan_nf n : forall len i, NF (noncode_scan toks n len i).
  Proof. induction n as [|n IH]; intros; cbn [noncode_scan]; pose proof tok_nf; nf. Qed.
  Lemma allowable_scan_nf n : forall len i dflt, NF (allowable_scan g toks n len i dflt).
  Proof. induction n as [|n IH]; intros; cbn [allowable_scan]; pose proof tok_nf; nf. Qed.

  Lemma prune_aux_nf r tys opts : NF (prune_aux g r tys opts).
  Proof. induction opts as [|o opts IH]; cbn [prune_aux]; pose proof simple_of_nf; nf. Qed.
  Lemma prune_nf opts len idx : NF (prune g toks opts len idx).
  Proof. unfold prune. pose proof prune_aux_nf. nf. Qed.
  Lemma prune_aux_in r tys opts : forall l, prune_aux g r tys opts = ROk l -> forall c, In c l -> In c opts.
  Proof.
    induction opts as [|o opts IH]; intros l H c Hc; cbn [prune_aux] in H; [inversion H; subst; exact Hc|].
    inv_bind H. inv_bind H. destruct a as [[[raws0 tys0] a00]|].
    - destruct (memN r raws0 || intersects tys tys0); inversion H; subst.
      + destruct Hc as [->|Hc]; [left; reflexivity|right; eapply IH; eauto].
      + right. eapply IH; eauto.
    - inversion H; subst. destruct Hc as [->|Hc]; [left; reflexivity|right; eapply IH; eauto].
  Qed.
  Lemma prune_in opts len idx l : prune g toks opts len idx = ROk l -> forall c, In c l -> In c opts.
  Proof.
    unfold prune. destruct (first_nonws toks len idx) as [[r tys]|]; [apply prune_aux_in|].
    intro H. inversion H; subst. auto.
  Qed.

  Lemma nm_check_simple_nf ms : NF (nm_check_simple g ms).
  Proof. induction ms as [|m ms IH]; cbn [nm_check_simple]; pose proof simple_of_nf; nf. Qed.
  Lemma nm_candidates_nf ms t : NF (nm_candidates g ms t).
  Proof. induction ms as [|m ms IH]; cbn [nm_candidates]; pose proof simple_of_nf; nf. Qed.
  Lemma nm_candidates_in ms t : forall l, nm_candidates g ms t = ROk l -> forall c, In c l -> In c ms.
  Proof.
    induction ms as [|m ms IH]; intros l H c Hc; cbn [nm_candidates] in H; [inversion H; subst; exact Hc|].
    inv_bind H. inv_bind H. destruct a as [[[raws0 tys0] a00]|]; [|discriminate].
    destruct (memN (p_ftr t) raws0 || intersects (p_types t) tys0); inversion H; subst.
    - destruct Hc as [->|Hc]; [left; reflexivity|right; eapply IH; eauto].
    - right. eapply IH; eauto.
  Qed.

  Lemma init_counters_nf es : NF (init_counters g es).
  Proof. induction es as [|e es IH]; cbn [init_counters]; pose proof ckey_of_nf; nf. Qed.

  Lemma resolve_refs_nf l : NF (resolve_refs l).
  Proof. induction l as [|[x|] l IH]; cbn [resolve_refs]; nf. Qed.
  Lemma resolve_refs_in l : forall r, resolve_refs l = ROk r -> forall x, In x r -> In (Some x) l.
  Proof.
    induction l as [|[y|] l IH]; intros r H x Hx; cbn [resolve_refs] in H; [inversion H; subst; destruct Hx| |discriminate].
    inv_bind H. inversion H; subst. destruct Hx as [->|Hx]; [left; reflexivity|right; eapply IH; eauto].
  Qed.

  Lemma parse_mode_result_nf len cur mx mode : NF (parse_mode_result g toks len cur mx mode).
  Proof. unfold parse_mode_result. pose proof all_noncode_nf. pose proof skip_fwd_nf. nf. Qed.
  Lemma delim_finish_nf tr mn idx sk dm dl wm : NF (delim_finish tr mn idx sk dm dl wm).
  Proof.
    unfold delim_finish. destruct dm as [x|]; [destruct (tr && negb sk)|];
      match goal with |- NF (if ?c then _ else _) => destruct c end; apply nf_ok.
  Qed.
End Simple.

(* ------------------------------------------------------------------ the certificate *)
Section Term.
  Variable g : grammar.
  Variable toks : PositiveMap.t ptok.
  Variable rx : list (N * N).
  Variable cx : cert.
  Variable tc : tset.
  Variable rk : rmap.
  Hypothesis Hcert : term_ok_b g cx tc rk = true.

  Notation Callable := (Callable cx).
  Notation CallAll := (CallAll cx).
  Definition rank (n : N) : N := rank_of rk n.
  Definition TcAll (ms : list N) : Prop := forall c, In c ms -> tc_in tc c = true.
  Definition KwTc (ms : list N) : Prop := forall c, In c ms -> kwlike_b g c = true -> tc_in tc c = true.

  Lemma tcert_parts :
    tc_ok_b g tc = true /\ forallb (tc_in tc) (brk g) = true
    /\ (forall r, g_root g = Some r -> flows_b cx (r, PS.empty) = true)
    /\ forallb (tentry_ok_b g cx tc rk) (PositiveMap.elements cx) = true.
  Proof.
    unfold term_ok_b in Hcert. apply andb_true_iff in Hcert as [H H4]. apply andb_true_iff in H as [H H3].
    apply andb_true_iff in H as [H1 H2]. repeat split; try assumption.
    intros r Hr. rewrite Hr in H3. exact H3.
  Qed.
  Lemma Htc : tc_ok_b g tc = true.
  Proof. apply tcert_parts. Qed.
  Lemma brk_tc : TcAll (brk g).
  Proof. destruct tcert_parts as (_ & H & _). intros c Hc. eapply forallb_in; eassumption. Qed.

  Lemma tcert_entry n T : PositiveMap.find (key n) cx = Some T ->
    exists i, get (g_nodes g) n = Some i /\ rank n < rank_bound g
              /\ (forall c, In c (si g tc i T) -> rank c < rank n)
              /\ static_ok g tc i T = true
              /\ forall e, In e (edges g i T) -> flows_b cx e = true.
  Proof.
    intro H. destruct tcert_parts as (_ & _ & _ & Hall). rewrite forallb_forall in Hall.
    apply PositiveMap.elements_correct in H. specialize (Hall _ H). unfold tentry_ok_b in Hall. cbn [fst snd] in Hall.
    unfold get. destruct (PositiveMap.find (key n) (g_nodes g)) as [i|]; [|discriminate].
    apply andb_true_iff in Hall as [Hall Hd]. apply andb_true_iff in Hall as [Hall Hc].
    apply andb_true_iff in Hall as [Ha Hb]. rewrite pred_key in Ha, Hb.
    exists i. split; [reflexivity|]. split; [apply N.ltb_lt; exact Ha|]. split.
    - intros c Hin. apply N.ltb_lt. eapply forallb_in in Hb; [exact Hb|exact Hin].
    - split; [exact Hc|]. intros e He. eapply forallb_in; eassumption.
  Qed.

  Lemma callable_rank c t : Callable c t -> rank c < rank_bound g.
  Proof. intros (T & H & _). destruct (tcert_entry _ _ H) as (i & _ & Hr & _). exact Hr. Qed.

  Lemma callall_app a b t : CallAll (a ++ b) t -> CallAll a t /\ CallAll b t.
  Proof. intro H. split; intros c Hc; apply H; apply in_or_app; auto. Qed.

  (* ---------------------------------------------------------------- with the recursive matcher *)
  Section WithRec.
    Variable rec : N -> N -> N -> list N -> res mr.
    Variable fl : nat.
    (** the call being analysed has [R0] tokens left and rank [K0] *)
    Variables R0 K0 : N.
    (** node [c] may be called with [r] tokens left *)
    Definition ok (c : N) (r : N) : Prop := r < R0 \/ (r <= R0 /\ rank c < K0).
    Definition Okl (ms : list N) (r : N) : Prop := forall c, In c ms -> ok c r.

    Hypothesis HrecB : forall n i l t m, i <= l -> rec n i l t = ROk m -> B i l m.
    Hypothesis HrecP : forall n i l t m, i <= l -> tc_in tc n = true -> rec n i l t = ROk m -> Pm i m.
    Hypothesis HrecT : forall c i l t, Callable c t -> i <= l -> ok c (l - i) -> NF (rec c i l t).
    Hypothesis Hfl : R0 + 1 <= N.of_nat fl.

    Lemma ok_mono c r r' : r' <= r -> ok c r -> ok c r'.
    Proof. unfold ok. intros Hle [H|[H1 H2]]; [left; lia|right; split; [lia|exact H2]]. Qed.
    Lemma okl_mono ms r r' : r' <= r -> Okl ms r -> Okl ms r'.
    Proof. intros Hle H c Hc. eapply ok_mono; [exact Hle|apply H; exact Hc]. Qed.
    Lemma okl_lt ms r : r < R0 -> Okl ms r.
    Proof. intros H c _. left. exact H. Qed.
    Lemma okl_app a b r : Okl (a ++ b) r -> Okl a r /\ Okl b r.
    Proof. intro H. split; intros c Hc; apply H; apply in_or_app; auto. Qed.
    Lemma okl_sub a b r : (forall c, In c a -> In c b) -> Okl b r -> Okl a r.
    Proof. intros Hs H c Hc. apply H. apply Hs. exact Hc. Qed.

    Lemma rec_nf c i l t : Callable c t -> i <= l -> ok c (l - i) -> NF (rec c i l t).
    Proof. apply HrecT. Qed.

    Lemma any_matches_nf ts : forall i len terms,
      i <= len -> CallAll ts terms -> Okl ts (len - i) -> NF (any_matches rec ts i len terms).
    Proof.
      induction ts as [|t ts IH]; intros i len terms Hi Hc Ho; cbn [any_matches]; [apply nf_ok|].
      apply nf_bind; [apply rec_nf; [apply Hc|exact Hi|apply Ho]; left; reflexivity|].
      intros m _. destruct (has_match m); [apply nf_ok|].
      apply IH; [exact Hi|intros c Hin; apply Hc; right; exact Hin|intros c Hin; apply Ho; right; exact Hin].
    Qed.
    Lemma first_term_matches_nf ts : forall i len terms,
      i <= len -> CallAll ts terms -> Okl ts (len - i) -> NF (first_term_matches rec ts i len terms).
    Proof.
      induction ts as [|t ts IH]; intros i len terms Hi Hc Ho; cbn [first_term_matches]; [apply nf_ok|].
      apply nf_bind; [apply rec_nf; [apply Hc|exact Hi|apply Ho]; left; reflexivity|].
      intros m _. destruct (has_match m); [apply nf_ok|].
      apply IH; [exact Hi|intros c Hin; apply Hc; right; exact Hin|intros c Hin; apply Ho; right; exact Hin].
    Qed.
    Lemma first_matching_nf ts : forall i len terms,
      i <= len -> CallAll ts terms -> Okl ts (len - i) -> NF (first_matching rec ts i len terms).
    Proof.
      induction ts as [|t ts IH]; intros i len terms Hi Hc Ho; cbn [first_matching]; [apply nf_ok|].
      apply nf_bind; [apply rec_nf; [apply Hc|exact Hi|apply Ho]; left; reflexivity|].
      intros m _. destruct (has_match m); [apply nf_ok|].
      apply IH; [exact Hi|intros c Hin; apply Hc; right; exact Hin|intros c Hin; apply Ho; right; exact Hin].
    Qed.

    (* -------------------------------------------------------------- longest_match *)
    Lemma longest_loop_nf opts : forall idx len terms best bm,
      idx < len -> len - idx <= R0 -> B idx len best ->
      CallAll opts terms -> CallAll terms terms -> Okl opts (len - idx) ->
      NF (longest_loop g toks rec opts idx len terms best bm).
    Proof.
      induction opts as [|o opts IH]; intros idx len terms best bm Hi Hr Hb Hc Ht Ho; cbn [longest_loop]; [apply nf_ok|].
      apply nf_bind; [apply ckey_of_nf|]. intros _k _.
      apply nf_bind; [apply rec_nf; [apply Hc; left; reflexivity|lia|apply Ho; left; reflexivity]|].
      intros r Hrr.
      assert (Hrb : B idx len r) by (eapply HrecB; [|exact Hrr]; lia).
      assert (IH' : forall b' bm', B idx len b' -> NF (longest_loop g toks rec opts idx len terms b' bm')).
      { intros b' bm' Hb'. apply IH; auto; intros c Hin; [apply Hc|apply Ho]; right; exact Hin. }
      destruct (has_match r && (mr_end r =? len)); [apply nf_ok|].
      destruct (mlen best <? mlen r) eqn:E2; [|apply IH'; exact Hb].
      destruct (is_empty opts); [apply nf_ok|].
      destruct (negb (is_empty terms)); [|apply IH'; exact Hrb].
      unfold mlen in E2. b2p. destruct Hrb as (R1 & R2 & R3).
      apply nf_bind; [apply skip_fwd_nf|]. intros nc Hnc.
      apply skip_fwd_spec in Hnc as [N1 N2].
      destruct (nc =? len) eqn:E; [apply nf_ok|]. b2p.
      apply nf_bind; [apply any_matches_nf; [lia|exact Ht|apply okl_lt; lia]|].
      intros stop _. destruct stop; [apply nf_ok|]. apply IH'. unfold B. lia.
    Qed.

    Lemma longest_match_nf len ms idx terms :
      len - idx <= R0 -> CallAll ms terms -> CallAll terms terms -> Okl ms (len - idx) ->
      NF (longest_match g toks rec len ms idx terms).
    Proof.
      intros Hr Hc Ht Ho. unfold longest_match.
      destruct (is_empty ms || (idx =? len)); [apply nf_ok|].
      apply nf_bind; [apply prune_nf|]. intros avail Hav.
      destruct (is_empty avail); [apply nf_ok|].
      apply nf_bind; [apply tok_nf|]. intros t Ht0. apply tok_lt in Ht0.
      pose proof (prune_in _ _ _ _ _ _ Hav) as Hin.
      apply longest_loop_nf; auto.
      - apply B_empty. lia.
      - intros c Hcin. apply Hc. apply Hin. exact Hcin.
      - intros c Hcin. apply Ho. apply Hin. exact Hcin.
    Qed.

    (* -------------------------------------------------------------- next_match *)
    Lemma next_match_scan_nf n : forall i len ms terms,
      i <= len -> CallAll ms terms -> Okl ms (len - i) ->
      NF (next_match_scan g toks rec n i len ms terms).
    Proof.
      induction n as [|n IH]; intros i len ms terms Hi Hc Ho; cbn [next_match_scan]; [apply nf_ok|].
      destruct (i <? len) eqn:E; [|apply nf_ok]. b2p.
      apply nf_bind; [apply tok_nf|]. intros t _.
      apply nf_bind; [apply nm_candidates_nf|]. intros cands Hcd.
      pose proof (nm_candidates_in _ _ _ _ Hcd) as Hin.
      apply nf_bind.
      { apply first_matching_nf; [exact Hi|intros c Hcin; apply Hc; apply Hin; exact Hcin|
                                  intros c Hcin; apply Ho; apply Hin; exact Hcin]. }
      intros hit _. destruct hit; [apply nf_ok|].
      apply IH; [lia|exact Hc|]. eapply okl_mono; [|exact Ho]. lia.
    Qed.
    Lemma next_match_nf len idx ms terms :
      idx <= len -> CallAll ms terms -> Okl ms (len - idx) ->
      NF (next_match g toks rec len idx ms terms).
    Proof.
      intros Hi Hc Ho. unfold next_match. destruct (len <=? idx); [apply nf_ok|].
      apply nf_bind; [apply nm_check_simple_nf|]. intros _u _.
      apply nf_bind; [apply next_match_scan_nf; assumption|].
      intros hit _. destruct hit as [[r m]|]; apply nf_ok.
    Qed.

    (** a hit of [next_match]: a matcher of [ms] matched at some token [j >= idx] *)
    Definition Hit (len idx : N) (ms terms : list N) (m : mr) (c : N) : Prop :=
      exists j, idx <= j /\ j < len /\ In c ms /\ rec c j len terms = ROk m /\ has_match m = true.

    Lemma next_match_scan_hit n : forall i len ms terms r c,
      next_match_scan g toks rec n i len ms terms = ROk (Some (r, c)) -> Hit len i ms terms r c.
    Proof.
      induction n as [|n IH]; intros i len ms terms r c H; cbn [next_match_scan] in H; [discriminate|].
      destruct (i <? len) eqn:E; [|discriminate]. b2p.
      inv_bind H. inv_bind H. inv_bind H. destruct a1 as [[r' c']|].
      - inversion H; subst. apply first_matching_res in Ha1 as (H1 & H2 & H3).
        exists i. repeat split; auto; try lia. eapply nm_candidates_in; eassumption.
      - apply IH in H. destruct H as (j & H1 & H2). exists j. split; [lia|exact H2].
    Qed.
    Lemma next_match_hit len idx ms terms m o :
      next_match g toks rec len idx ms terms = ROk (m, o) ->
      (o = None /\ has_match m = false) \/ exists c, o = Some c /\ Hit len idx ms terms m c.
    Proof.
      intro H. unfold next_match in H.
      destruct (len <=? idx); [inversion H; subst; left; split; [reflexivity|apply has_match_empty]|].
      inv_bind H. inv_bind H. destruct a0 as [[r c]|]; inversion H; subst.
      - right. exists c. split; [reflexivity|]. eapply next_match_scan_hit; eassumption.
      - left. split; [reflexivity|apply has_match_empty].
    Qed.
    Lemma hit_adv len idx ms terms m c : Hit len idx ms terms m c -> tc_in tc c = true -> idx < mr_end m.
    Proof.
      intros (j & H1 & H2 & _ & H3 & H4) Ht.
      assert (Hle : j <= len) by lia. pose proof (HrecP _ _ _ _ _ Hle Ht H3 H4). lia.
    Qed.
    Lemma hit_mono len i j ms terms m c : i <= j -> Hit len j ms terms m c -> Hit len i ms terms m c.
    Proof. intros Hij (k & H1 & H2). exists k. split; [lia|exact H2]. Qed.

    (* -------------------------------------------------------------- resolve_bracket *)
    Lemma rb_loop_nf k : forall len opening ti starts ends pers terms nested mi ch,
      mi <= len -> len - mi <= R0 -> len - mi + 1 <= N.of_nat k ->
      CallAll (starts ++ ends) terms -> Okl (starts ++ ends) (len - mi) -> TcAll starts ->
      mr_start opening <= mr_end opening -> mr_end opening <= mi ->
      NF (rb_loop g toks rec k len opening ti starts ends pers terms nested mi ch).
    Proof.
      induction k as [|k IH]; intros len opening ti starts ends pers terms nested mi ch
        Hmi Hr Hk Hc Ho Ht Ho1 Ho2; [lia|]. cbn [rb_loop].
      apply nf_bind; [apply next_match_nf; auto|]. intros [m mt] Hnm.
      pose proof (next_match_spec g toks rec HrecB _ _ _ _ _ _ Hmi Hnm) as (M1 & M2 & M3).
      apply next_match_hit in Hnm.
      destruct (negb (has_match m)) eqn:Ehm; [apply nf_err|]. apply negb_false_iff in Ehm.
      destruct Hnm as [[_ Hf]|(c & -> & Hhit)]; [congruence|].
      destruct (mcontains g ends c) eqn:Ec.
      - destruct (mposition g ends c) as [ci|]; [|apply nf_panic].
        destruct (ci =? ti); [|apply nf_err].
        destruct (nth_bool pers ti) as [b|]; [|apply nf_panic]. destruct b; apply nf_ok.
      - apply not_mcontains_not_in in Ec.
        assert (Hin : In c starts).
        { destruct Hhit as (j & _ & _ & Hin & _). apply in_app_or in Hin as [Hin|Hin]; [exact Hin|contradiction]. }
        pose proof (hit_adv _ _ _ _ _ _ Hhit (Ht _ Hin)) as Hadv.
        destruct (mposition g starts c) as [ti'|]; [|apply nf_panic].
        apply nf_bind.
        + apply IH; auto; try lia. eapply okl_mono; [|exact Ho]. lia.
        + intros inner Hinner.
          apply (rb_loop_spec g toks rec HrecB) in Hinner; [|lia|lia|lia]. destruct Hinner as (_ & I2 & I3).
          apply IH; auto; try lia. eapply okl_mono; [|exact Ho]. lia.
    Qed.

    Lemma resolve_bracket_nf k len opening opener starts ends pers terms nested :
      mr_end opening <= len -> len - mr_end opening <= R0 -> len - mr_end opening + 1 <= N.of_nat k ->
      CallAll (starts ++ ends) terms -> Okl (starts ++ ends) (len - mr_end opening) -> TcAll starts ->
      mr_start opening <= mr_end opening ->
      NF (resolve_bracket g toks rec k len opening opener starts ends pers terms nested).
    Proof.
      intros. unfold resolve_bracket. destruct (mposition g starts opener); [|apply nf_panic].
      apply rb_loop_nf; auto. lia.
    Qed.

    (* -------------------------------------------------------------- next_ex_bracket_match *)
    Lemma neb_loop_nf k : forall k2 len idx ms starts ends pers terms mi ch,
      mi <= len -> len - mi <= R0 -> len - mi + 1 <= N.of_nat k -> len - mi + 1 <= N.of_nat k2 ->
      CallAll (ms ++ starts ++ ends) terms -> Okl (ms ++ starts ++ ends) (len - mi) -> TcAll starts ->
      NF (neb_loop g toks rec k k2 len idx ms starts ends pers terms mi ch).
    Proof.
      induction k as [|k IH]; intros k2 len idx ms starts ends pers terms mi ch Hmi Hr Hk Hk2 Hc Ho Ht; [lia|].
      cbn [neb_loop].
      apply nf_bind; [apply next_match_nf; auto|]. intros [m mt] Hnm.
      pose proof (next_match_spec g toks rec HrecB _ _ _ _ _ _ Hmi Hnm) as (M1 & M2 & M3).
      apply next_match_hit in Hnm.
      destruct (negb (has_match m)) eqn:Ehm; [apply nf_ok|]. apply negb_false_iff in Ehm.
      destruct Hnm as [[_ Hf]|(c & -> & Hhit)]; [congruence|].
      destruct (mcontains g ms c) eqn:Ems; [apply nf_ok|].
      destruct (mcontains g ends c) eqn:Ec; [apply nf_ok|].
      apply not_mcontains_not_in in Ems, Ec.
      assert (Hin : In c starts).
      { destruct Hhit as (j & _ & _ & Hin & _). apply in_app_or in Hin as [Hin|Hin]; [contradiction|].
        apply in_app_or in Hin as [Hin|Hin]; [exact Hin|contradiction]. }
      pose proof (hit_adv _ _ _ _ _ _ Hhit (Ht _ Hin)) as Hadv.
      destruct (callall_app _ _ _ Hc) as [_ Hc']. destruct (okl_app _ _ _ Ho) as [_ Ho'].
      apply nf_bind.
      - apply resolve_bracket_nf; auto; try lia. eapply okl_mono; [|exact Ho']. lia.
      - intros b Hb. apply (resolve_bracket_spec g toks rec HrecB) in Hb; [|lia|lia]. destruct Hb as (_ & B2 & B3).
        apply IH; auto; try lia. eapply okl_mono; [|exact Ho]. lia.
    Qed.

    Lemma neb_loop_hit k : forall k2 len idx ms starts ends pers terms mi ch m o inner,
      mi <= len ->
      neb_loop g toks rec k k2 len idx ms starts ends pers terms mi ch = ROk (m, o, inner) ->
      has_match m = true -> exists c, o = Some c /\ Hit len mi (ms ++ starts ++ ends) terms m c.
    Proof.
      induction k as [|k IH]; intros k2 len idx ms starts ends pers terms mi ch m o inner Hmi H Hm;
        cbn [neb_loop] in H; [discriminate|].
      inv_bind H. destruct a as [m0 mt].
      pose proof (next_match_spec g toks rec HrecB _ _ _ _ _ _ Hmi Ha) as (M1 & M2 & M3).
      apply next_match_hit in Ha.
      destruct (negb (has_match m0)) eqn:Ehm.
      - inversion H; subst. apply negb_true_iff in Ehm. congruence.
      - apply negb_false_iff in Ehm. destruct Ha as [[_ Hf]|(c & -> & Hhit)]; [congruence|].
        destruct (mcontains g ms c); [inversion H; subst; eauto|].
        destruct (mcontains g ends c); [inversion H; subst; rewrite has_match_empty in Hm; discriminate|].
        inv_bind H. apply (resolve_bracket_spec g toks rec HrecB) in Ha; [|lia|lia]. destruct Ha as (_ & B2 & B3).
        apply IH in H; [|lia|exact Hm]. destruct H as (c' & -> & Hh). exists c'. split; [reflexivity|].
        eapply hit_mono; [|exact Hh]. lia.
    Qed.

    Lemma brk_refs_in (f : option N * option N * bool -> option N) l :
      (forall b, f b = fst (fst b)) \/ (forall b, f b = snd (fst b)) ->
      resolve_refs (map f (g_brackets g)) = ROk l -> forall x, In x l -> In x (brk g).
    Proof.
      intros Hf H x Hx. apply (resolve_refs_in _ _ H) in Hx. apply in_map_iff in Hx as (b & Hb & Hin).
      unfold brk. apply in_flat_map. exists b. split; [exact Hin|].
      destruct Hf as [Hf|Hf]; rewrite Hf in Hb; rewrite Hb; cbn [opt_list]; apply in_or_app;
        [left|right]; left; reflexivity.
    Qed.

    Lemma next_ex_bracket_match_nf k len idx ms terms :
      idx <= len -> len - idx <= R0 -> len - idx + 1 <= N.of_nat k ->
      CallAll (ms ++ brk g) terms -> Okl (ms ++ brk g) (len - idx) ->
      NF (next_ex_bracket_match g toks rec k len idx ms terms).
    Proof.
      intros Hi Hr Hk Hc Ho. unfold next_ex_bracket_match. destruct (len <=? idx); [apply nf_ok|].
      apply nf_bind; [apply resolve_refs_nf|]. intros starts Hs.
      apply nf_bind; [apply resolve_refs_nf|]. intros ends He.
      pose proof (brk_refs_in (fun b => fst (fst b)) _ (or_introl (fun b => eq_refl)) Hs) as Is.
      pose proof (brk_refs_in (fun b => snd (fst b)) _ (or_intror (fun b => eq_refl)) He) as Ie.
      assert (Hsub : forall c, In c (ms ++ starts ++ ends) -> In c (ms ++ brk g)).
      { intros c Hcin. apply in_app_or in Hcin as [Hcin|Hcin]; apply in_or_app; [left; exact Hcin|right].
        apply in_app_or in Hcin as [Hcin|Hcin]; [apply Is|apply Ie]; exact Hcin. }
      apply neb_loop_nf; auto.
      - intros c Hcin. apply Hc. apply Hsub. exact Hcin.
      - eapply okl_sub; [exact Hsub|exact Ho].
      - intros c Hcin. apply brk_tc. apply Is. exact Hcin.
    Qed.

    Lemma next_ex_bracket_match_hit k len idx ms terms m o inner :
      idx <= len ->
      next_ex_bracket_match g toks rec k len idx ms terms = ROk (m, o, inner) -> has_match m = true ->
      exists c, o = Some c /\ Hit len idx (ms ++ brk g) terms m c.
    Proof.
      intros Hi H Hm. unfold next_ex_bracket_match in H.
      destruct (len <=? idx); [inversion H; subst; rewrite has_match_empty in Hm; discriminate|].
      inv_bind H. inv_bind H.
      pose proof (brk_refs_in (fun b => fst (fst b)) _ (or_introl (fun b => eq_refl)) Ha) as Is.
      pose proof (brk_refs_in (fun b => snd (fst b)) _ (or_intror (fun b => eq_refl)) Ha0) as Ie.
      apply neb_loop_hit in H; auto.
      destruct H as (c & -> & (j & H1 & H2 & H4 & H5)). exists c. split; [reflexivity|].
      exists j. repeat split; try apply H5; auto.
      apply in_app_or in H4 as [H4|H4]; apply in_or_app; [left; exact H4|right].
      apply in_app_or in H4 as [H4|H4]; [apply Is|apply Ie]; exact H4.
    Qed.

    (* -------------------------------------------------------------- greedy_match *)
    Lemma greedy_loop_nf k : forall k2 len idx ms terms it nested w ch,
      idx <= w -> w <= len -> len - w <= R0 -> len - w + 1 <= N.of_nat k -> len - w + 1 <= N.of_nat k2 ->
      CallAll (ms ++ brk g) terms -> Okl (ms ++ brk g) (len - w) -> KwTc (ms ++ brk g) ->
      NF (greedy_loop g toks rec k k2 len idx ms terms it nested w ch).
    Proof.
      induction k as [|k IH]; intros k2 len idx ms terms it nested w ch Hw Hwl Hr Hk Hk2 Hc Ho Hkw; [lia|].
      cbn [greedy_loop].
      apply nf_bind; [apply next_ex_bracket_match_nf; auto|]. intros [[matched mt] inner] Hneb.
      pose proof (next_ex_bracket_match_spec g toks rec HrecB _ _ _ _ _ _ _ _ Hwl Hneb) as (M1 & M2 & M3).
      destruct (negb (has_match matched)) eqn:Ehm; [apply nf_ok|]. apply negb_false_iff in Ehm.
      apply next_ex_bracket_match_hit in Hneb; auto. destruct Hneb as (c & -> & Hhit).
      apply nf_bind; [apply simple_of_nf|]. intros s Hsim.
      destruct s as [[[raws tys] a]|]; [|apply nf_panic].
      pose proof (kwlike_of_simple _ _ _ _ _ Hsim) as Hkwl.
      apply nf_bind.
      - destruct (is_empty tys && a); [|apply nf_ok].
        destruct (mr_start matched <? w); [apply nf_ok|]. apply allowable_scan_nf.
      - intros okb Hok. destruct (negb okb) eqn:Eok.
        + apply negb_true_iff in Eok. subst okb.
          assert (Hk' : kwlike_b g c = true).
          { rewrite Hkwl. destruct (is_empty tys && a); [reflexivity|]. discriminate. }
          assert (Hin : In c (ms ++ brk g)) by (destruct Hhit as (j & _ & _ & Hin & _); exact Hin).
          pose proof (hit_adv _ _ _ _ _ _ Hhit (Hkw _ Hin Hk')) as Hadv.
          apply IH; auto; try lia. eapply okl_mono; [|exact Ho]. lia.
        + destruct it; [apply nf_ok|].
          apply nf_bind; [apply skip_back_nf|]. intros stop2 _. destruct (idx =? stop2); apply nf_ok.
    Qed.

    Lemma greedy_match_nf k len idx ms terms it nested :
      idx <= len -> len - idx <= R0 -> len - idx + 1 <= N.of_nat k ->
      CallAll (ms ++ brk g) terms -> Okl (ms ++ brk g) (len - idx) -> KwTc (ms ++ brk g) ->
      NF (greedy_match g toks rec k len idx ms terms it nested).
    Proof. intros. unfold greedy_match. apply greedy_loop_nf; auto. lia. Qed.

    (* -------------------------------------------------------------- trim_to_terminator *)
    (** what a trimming node needs of its terminators [ts] (own and context) with [r] tokens left *)
    Definition TrimS (ts terms : list N) : Prop := CallAll (ts ++ brk g) terms /\ KwTc (ts ++ brk g).

    Lemma trim_to_terminator_nf k len idx ts terms :
      len - idx <= R0 -> len - idx + 1 <= N.of_nat k ->
      TrimS ts terms -> Okl (ts ++ brk g) (len - idx) ->
      NF (trim_to_terminator g toks rec k len idx ts terms).
    Proof.
      intros Hr Hk (Hc & Hkw) Ho. unfold trim_to_terminator.
      destruct (len <=? idx) eqn:E; [apply nf_ok|]. b2p.
      apply nf_bind; [apply prune_nf|]. intros pruned Hpr.
      pose proof (prune_in _ _ _ _ _ _ Hpr) as Hin.
      destruct (callall_app _ _ _ Hc) as [Hc1 _]. destruct (okl_app _ _ _ Ho) as [Ho1 _].
      apply nf_bind.
      { apply first_term_matches_nf; [lia|intros c Hcin; apply Hc1; apply Hin; exact Hcin|
                                      intros c Hcin; apply Ho1; apply Hin; exact Hcin]. }
      intros hit _. destruct hit; [apply nf_ok|].
      apply nf_bind; [apply greedy_match_nf; auto; lia|].
      intros tm _. apply skip_back_nf.
    Qed.

    (* -------------------------------------------------------------- Sequence *)
    (** the static part of what a [Sequence] needs in context [terms] *)
    Definition SeqS (d : seq_d) (terms : list N) : Prop :=
      (forall e, In e (sq_elems d) -> elem_called g e = true -> Callable e terms)
      /\ (sq_mode d = Strict \/ TrimS (sq_terms d ++ terms) terms).
    Definition seq_trim_ms (d : seq_d) (terms : list N) : list N :=
      if pmode_eqb (sq_mode d) Strict then [] else (sq_terms d ++ terms) ++ brk g.

    Lemma seq_body_nf d len si terms st e :
      SInv si len st -> len - si <= R0 ->
      Callable e terms -> (si < s_matched st \/ ok e (len - si)) ->
      (sq_mode d = Strict \/ TrimS (sq_terms d ++ terms) terms) -> Okl (seq_trim_ms d terms) (len - si) ->
      NF (seq_body g toks rec fl d len si terms st e).
    Proof.
      intros (I1 & I2 & I3) Hr Hcall Hok Htr Hot. unfold seq_body.
      apply nf_bind; [destruct (sq_gaps d); [apply skip_fwd_nf|apply nf_ok]|]. intros idx' Hidx'.
      assert (Hidx : s_matched st <= idx' /\ idx' <= s_max st)
        by (destruct (sq_gaps d); [apply skip_fwd_spec in Hidx'; lia|inversion Hidx'; subst; lia]).
      destruct (s_max st <=? idx') eqn:Emax; b2p.
      - apply nf_bind; [apply opt_of_nf|]. intros o _. destruct o; [apply nf_ok|].
        destruct (pmode_eqb (sq_mode d) Strict || (s_matched st =? si)); apply nf_ok.
      - apply nf_bind; [destruct (len <? s_max st); [apply nf_panic|apply nf_ok]|]. intros _u _.
        apply nf_bind.
        { apply rec_nf; [exact Hcall|lia|].
          destruct Hok as [Hok|Hok]; [left; lia|eapply ok_mono; [|exact Hok]; lia]. }
        intros em Hem.
        assert (Hemb : B idx' (s_max st) em) by (eapply HrecB; [|exact Hem]; lia).
        destruct Hemb as (E1 & E2 & E3).
        destruct (negb (has_match em)).
        + apply nf_bind; [apply opt_of_nf|]. intros o _. destruct o; [apply nf_ok|].
          destruct (pmode_eqb (sq_mode d) Strict); [apply nf_ok|].
          destruct (pmode_eqb (sq_mode d) GreedyOnceStarted && (s_matched st =? si)); [apply nf_ok|].
          destruct (s_matched st =? si); [apply nf_ok|].
          apply nf_bind; [apply skip_fwd_nf|intros; apply nf_ok].
        + apply nf_bind.
          * destruct (s_first st && pmode_eqb (sq_mode d) GreedyOnceStarted) eqn:Eg; [|apply nf_ok].
            destruct Htr as [Htr|Htr];
              [rewrite Htr in Eg; cbn in Eg; rewrite andb_false_r in Eg; discriminate|].
            apply trim_to_terminator_nf; [lia|lia|exact Htr|].
            unfold seq_trim_ms in Hot. destruct (pmode_eqb (sq_mode d) Strict) eqn:Es.
            { apply andb_true_iff in Eg as [_ Eg]. destruct (sq_mode d); try discriminate Es; discriminate Eg. }
            eapply okl_mono; [|exact Hot]. lia.
          * intros newmax _. destruct (is_some (mr_matched em)); apply nf_ok.
    Qed.

    Lemma seq_elem_nf d len si terms st e :
      SInv si len st -> len - si <= R0 ->
      (elem_called g e = true -> Callable e terms /\ (si < s_matched st \/ ok e (len - si))) ->
      (sq_mode d = Strict \/ TrimS (sq_terms d ++ terms) terms) -> Okl (seq_trim_ms d terms) (len - si) ->
      NF (seq_elem g toks rec fl d len si terms st e).
    Proof.
      intros Hinv Hr He Htr Hot. apply seq_elem_cases.
      - intro p. apply nf_panic.
      - intros. apply nf_ok.
      - intro Hc. destruct (He Hc) as [H1 H2]. apply seq_body_nf; assumption.
    Qed.

    Lemma seq_prefix_head e es : elem_called g e = true -> In e (seq_prefix g tc (e :: es)).
    Proof. intro H. cbn [seq_prefix]. rewrite H. left. reflexivity. Qed.
    Lemma seq_prefix_tail e es c :
      good g tc e = false -> In c (seq_prefix g tc es) -> In c (seq_prefix g tc (e :: es)).
    Proof.
      unfold good. intros Hg Hc. cbn [seq_prefix]. destruct (elem_called g e); [|exact Hc].
      cbn [andb] in Hg. rewrite Hg. right. exact Hc.
    Qed.

    Lemma seq_loop_nf d len si terms es : forall st,
      SInv si len st -> len - si <= R0 ->
      (forall e, In e es -> elem_called g e = true -> Callable e terms) ->
      (si < s_matched st \/ Okl (seq_prefix g tc es) (len - si)) ->
      (sq_mode d = Strict \/ TrimS (sq_terms d ++ terms) terms) -> Okl (seq_trim_ms d terms) (len - si) ->
      NF (seq_loop g toks rec fl d len si terms st es).
    Proof.
      induction es as [|e es IH]; intros st Hinv Hr Hc Hj Htr Hot; cbn [seq_loop]; [apply nf_ok|].
      apply nf_bind.
      { apply seq_elem_nf; auto. intro Hcl. split; [apply Hc; [left; reflexivity|exact Hcl]|].
        destruct Hj as [Hj|Hj]; [left; exact Hj|right]. apply Hj. apply seq_prefix_head. exact Hcl. }
      intros r Hr'.
      pose proof (seq_elem_spec g toks rec HrecB _ _ _ _ _ _ _ _ Hinv Hr') as Hs.
      pose proof (seq_elem_adv g toks tc rec HrecB HrecP _ _ _ _ _ _ _ _ Hinv Hr') as Hadv.
      destruct r as [st'|m]; [|apply nf_ok]. destruct Hadv as [Hmono Hg].
      apply IH; auto.
      - intros e' He'. apply Hc. right. exact He'.
      - destruct Hj as [Hj|Hj]; [left; lia|].
        destruct (good g tc e) eqn:Eg; [left; apply Hg; reflexivity|].
        right. intros c Hcin. apply Hj. apply seq_prefix_tail; assumption.
    Qed.

    (** on an empty or inverted slice a [Sequence] calls nothing *)
    Lemma seq_loop_deg d len si terms es : forall st,
      s_max st <= s_matched st -> NF (seq_loop g toks rec fl d len si terms st es).
    Proof.
      induction es as [|e es IH]; intros st Hd; cbn [seq_loop]; [apply nf_ok|].
      assert (Hstep : forall r, seq_elem g toks rec fl d len si terms st e = r ->
                NF r /\ forall st', r = ROk (Cont st') -> s_max st' <= s_matched st').
      { apply seq_elem_cases.
        - intros p r <-. split; [apply nf_panic|discriminate].
        - intros st' H1 H2 _ r <-. split; [apply nf_ok|]. intros st'' E. inversion E; subst. lia.
        - intros _ r <-. unfold seq_body.
          destruct (if sq_gaps d then skip_fwd toks len (s_matched st) (s_max st) else ROk (s_matched st))
            as [idx'| |p|] eqn:Ei; cbn [bind]; try (split; [discriminate|discriminate]).
          + assert (Hidx : s_matched st <= idx')
              by (destruct (sq_gaps d); [apply skip_fwd_spec in Ei; lia|inversion Ei; subst; lia]).
            assert (Emax : (s_max st <=? idx') = true) by (apply N.leb_le; lia). rewrite Emax.
            destruct (opt_of g e) as [o| |p|] eqn:Eo; cbn [bind]; try (split; [discriminate|discriminate]).
            * destruct o; [split; [apply nf_ok|intros st' E; inversion E; subst; exact Hd]|].
              destruct (pmode_eqb (sq_mode d) Strict || (s_matched st =? si));
                (split; [apply nf_ok|discriminate]).
            * exfalso. exact (opt_of_nf g e Eo).
          + exfalso. destruct (sq_gaps d); [exact (skip_fwd_nf toks _ _ _ Ei)|discriminate]. }
      destruct (Hstep _ eq_refl) as [Hnf Hcont].
      apply nf_bind; [exact Hnf|]. intros r Hr. destruct r as [st'|m]; [|apply nf_ok].
      apply IH. apply Hcont. exact Hr.
    Qed.

    Lemma match_sequence_tail d len idx (r : res step_r) :
      NF r ->
      NF (r0 <- r ;;
          match r0 with
          | Ret m => ROk m
          | Cont st =>
              let matched_idx := s_matched st in
              let max_idx := s_max st in
              let ins := s_ins st ++ map (fun k => (matched_idx, k)) (s_buf st) in
              if negb (pmode_eqb (sq_mode d) Strict) && (matched_idx <? max_idx) then
                i <- skip_fwd toks len matched_idx max_idx ;;
                stop <- skip_back toks len max_idx i ;;
                if i <? stop then ROk (MR idx stop None ins (s_ch st ++ [unparsable g i stop]))
                else ROk (MR idx matched_idx None ins (s_ch st))
              else ROk (MR idx matched_idx None ins (s_ch st))
          end).
    Proof.
      intro Hr. apply nf_bind; [exact Hr|]. intros r0 _. destruct r0 as [st|m]; [|apply nf_ok].
      cbn zeta. destruct (negb (pmode_eqb (sq_mode d) Strict) && (s_matched st <? s_max st)); [|apply nf_ok].
      apply nf_bind; [apply skip_fwd_nf|]. intros i _.
      apply nf_bind; [apply skip_back_nf|]. intros stop _. destruct (i <? stop); apply nf_ok.
    Qed.

    Lemma match_sequence_nf d len idx terms :
      len - idx <= R0 -> SeqS d terms ->
      Okl (seq_trim_ms d terms ++ seq_prefix g tc (sq_elems d)) (len - idx) ->
      NF (match_sequence g toks rec fl d len idx terms).
    Proof.
      intros Hr (He & Htr) Ho. destruct (okl_app _ _ _ Ho) as [Hot Hop].
      unfold match_sequence.
      apply nf_bind.
      { destruct (pmode_eqb (sq_mode d) Greedy) eqn:Eg; [|apply nf_ok].
        destruct Htr as [Htr|Htr]; [rewrite Htr in Eg; discriminate|].
        apply trim_to_terminator_nf; [lia|lia|exact Htr|].
        unfold seq_trim_ms in Hot. destruct (pmode_eqb (sq_mode d) Strict) eqn:Es; [|exact Hot].
        destruct (sq_mode d); try discriminate Es; discriminate Eg. }
      intros max0 Hmax0. apply match_sequence_tail.
      destruct (N.le_gt_cases idx len) as [Hi|Hi].
      - assert (Hmax : idx <= max0 /\ max0 <= len).
        { destruct (pmode_eqb (sq_mode d) Greedy);
            [apply (trim_to_terminator_spec g toks rec HrecB) in Hmax0; lia|inversion Hmax0; subst; lia]. }
        assert (Hinv : SInv idx len (mkS idx max0 [] [] true [])) by (unfold SInv; cbn; lia).
        apply seq_loop_nf; auto.
      - apply seq_loop_deg. cbn [s_max s_matched].
        destruct (pmode_eqb (sq_mode d) Greedy); [|inversion Hmax0; subst; lia].
        unfold trim_to_terminator in Hmax0. assert (E : (len <=? idx) = true) by (apply N.leb_le; lia).
        rewrite E in Hmax0. inversion Hmax0; subst. lia.
    Qed.

    (* -------------------------------------------------------------- Bracketed *)
    Lemma match_bracketed_nf self found bs be pers gaps d len idx terms :
      idx <= len -> len - idx <= R0 ->
      (found = true -> forall sb eb, bs = Some sb -> be = Some eb ->
         Callable sb terms /\ Callable eb terms /\ ok sb (len - idx) /\ tc_in tc sb = true
         /\ SeqS d (deeper g true [eb] terms)) ->
      NF (match_bracketed g toks rec fl self found bs be pers gaps d len idx terms).
    Proof.
      intros Hi Hr Hbe. unfold match_bracketed.
      destruct found; cbn [negb]; [|apply nf_panic]. specialize (Hbe eq_refl).
      destruct bs as [sb|]; [|apply nf_panic]. destruct be as [eb|]; [|apply nf_panic].
      destruct (Hbe sb eb eq_refl eq_refl) as (Hcs & Hce & Hok & Htcs & Hseq).
      apply nf_bind; [apply rec_nf; assumption|]. intros sm Hsm.
      pose proof (HrecB _ _ _ _ _ Hi Hsm) as (S1 & S2 & S3).
      pose proof (HrecP _ _ _ _ _ Hi Htcs Hsm) as Hadv.
      destruct (negb (has_match sm)) eqn:Ehm; [apply nf_ok|]. apply negb_false_iff in Ehm. specialize (Hadv Ehm).
      apply nf_bind.
      { apply resolve_bracket_nf; auto; try lia.
        - intros c [<-|[<-|[]]]; assumption.
        - apply okl_lt. lia.
        - intros c [<-|[]]. exact Htcs. }
      intros bm Hbm.
      pose proof (resolve_bracket_spec g toks rec HrecB _ _ _ _ _ _ _ _ _ _ S2 S3 Hbm) as (B1 & B2 & B3).
      apply nf_bind; [destruct (mr_end bm =? 0); [apply nf_panic|apply nf_ok]|]. intros _u _.
      apply nf_bind; [destruct gaps; [apply skip_fwd_nf|apply nf_ok]|]. intros i1 Hi1.
      assert (Hi1' : mr_end sm <= i1)
        by (destruct gaps; [apply skip_fwd_spec in Hi1; lia|inversion Hi1; subst; lia]).
      apply nf_bind; [destruct gaps; [apply skip_back_nf|apply nf_ok]|]. intros e1 He1.
      destruct (len <? e1) eqn:El; [apply nf_panic|]. b2p. cbn [bind].
      apply nf_bind.
      { apply match_sequence_nf; [lia|exact Hseq|]. apply okl_lt. lia. }
      intros cm _. destruct (negb (mr_end cm =? e1) && pmode_eqb (sq_mode d) Strict); [apply nf_ok|].
      destruct (negb gaps && (mr_end cm =? mr_end bm - 1)); [apply nf_panic|apply nf_ok].
    Qed.

    (* -------------------------------------------------------------- AnyNumberOf *)
    Definition AnyS (d : any_d) (terms : list N) : Prop :=
      let T' := deeper g (an_reset d) (an_terms d) terms in
      CallAll (an_elems d) T' /\ CallAll T' T'.

    Lemma any_loop_nf k : forall d len idx mx terms nm cs mi wi matched,
      idx <= mx -> mx <= len -> B idx mx matched -> mi = mr_end matched -> mi <= wi ->
      mx - wi <= R0 -> mx - mi + 1 <= N.of_nat k ->
      AnyS d terms -> Okl (an_elems d) (mx - wi) ->
      NF (any_loop g toks rec k d len idx mx terms nm cs mi wi matched).
    Proof.
      induction k as [|k IH]; intros d len idx mx terms nm cs mi wi matched Hi Hmx Hm Hmi Hwi Hr Hk Hs Ho; [lia|].
      cbn [any_loop].
      destruct (((an_min d <=? nm) && (mx <=? mi)) || opt_le (an_max d) nm); [apply parse_mode_result_nf|].
      destruct (mx <=? mi) eqn:Emi; [apply nf_ok|]. b2p.
      pose proof Hs as (Hc & Ht).
      apply nf_bind; [apply longest_match_nf; auto|]. intros [m mo] Hlm.
      destruct (negb (has_match m)) eqn:Ehm; [apply parse_mode_result_nf|]. apply negb_false_iff in Ehm.
      destruct mo as [o|]; [|apply nf_panic].
      apply nf_bind; [apply ckey_of_nf|]. intros ck _.
      destruct (bump ck cs) as [cs' cnt].
      destruct (match cnt with Some c => opt_lt (an_max_per d) c | None => false end); [apply parse_mode_result_nf|].
      pose proof (longest_match_adv g toks rec HrecB _ _ _ _ _ _ Hlm Ehm) as Hadv.
      apply (longest_match_spec g toks rec HrecB) in Hlm. destruct Hlm as [->|[Hw Hbm]];
        [unfold has_match in Ehm; cbn in Ehm; rewrite N.eqb_refl in Ehm; discriminate|].
      assert (Hm' : B idx mx (append matched m)).
      { apply B_append; [exact Hm|eapply B_weaken; [|exact Hbm]; destruct Hm; lia|destruct Hbm; lia]. }
      pose proof (append_end_hm matched m Ehm) as Hend.
      destruct Hm' as (A1 & A2 & A3). destruct Hbm as (M1 & M2 & M3).
      apply nf_bind; [destruct (an_gaps d); [apply skip_fwd_nf|apply nf_ok]|]. intros w' Hw'.
      assert (Hw2 : mr_end (append matched m) <= w')
        by (destruct (an_gaps d); [apply skip_fwd_spec in Hw'; lia|inversion Hw'; subst; lia]).
      apply IH; auto; try (unfold B; lia). apply okl_lt. lia.
    Qed.

    Lemma match_anynumberof_nf d len idx terms :
      idx <= len -> len - idx <= R0 ->
      (forall ex, an_exclude d = Some ex -> Callable ex terms /\ ok ex (len - idx)) ->
      (an_mode d = Greedy ->
       let ts := if an_reset d then an_terms d else an_terms d ++ terms in
       TrimS ts terms /\ Okl (ts ++ brk g) (len - idx)) ->
      AnyS d terms -> Okl (an_elems d) (len - idx) ->
      NF (match_anynumberof g toks rec fl d len idx terms).
    Proof.
      intros Hi Hr Hex Hgr Hs Ho. unfold match_anynumberof.
      apply nf_bind.
      { destruct (an_exclude d) as [ex|]; [|apply nf_ok]. destruct (Hex ex eq_refl) as [H1 H2].
        apply nf_bind; [apply rec_nf; assumption|intros; apply nf_ok]. }
      intros excluded _. destruct excluded; [apply nf_ok|].
      apply nf_bind; [apply init_counters_nf|]. intros cs _.
      apply nf_bind.
      { destruct (pmode_eqb (an_mode d) Greedy) eqn:Eg; [|apply nf_ok].
        assert (Em : an_mode d = Greedy) by (destruct (an_mode d); try discriminate; reflexivity).
        destruct (Hgr Em) as (G1 & G2). apply trim_to_terminator_nf; auto. lia. }
      intros mx Hmxe.
      assert (Hmx : idx <= mx /\ (mx <= len \/ pmode_eqb (an_mode d) Greedy = false)).
      { destruct (pmode_eqb (an_mode d) Greedy);
          [apply (trim_to_terminator_spec g toks rec HrecB) in Hmxe; lia|inversion Hmxe; subst; lia]. }
      destruct (len <? mx) eqn:El; [apply nf_panic|]. b2p. cbn [bind].
      apply any_loop_nf; [lia|lia|apply B_empty; lia|reflexivity|lia|lia|lia|exact Hs|].
      eapply okl_mono; [|exact Ho]. lia.
    Qed.

    (* -------------------------------------------------------------- Delimited *)
    Definition DelimS (d : any_d) (delim : N) (tms terms : list N) : Prop :=
      CallAll tms terms /\ CallAll terms terms
      /\ (let T0 := deeper g false [] terms in CallAll [delim] T0 /\ CallAll T0 T0)
      /\ (let T1 := deeper g false [delim] terms in CallAll (an_elems d) T1 /\ CallAll T1 T1).

    Lemma delim_loop_nf k : forall d delim tr mn len idx terms tms dl sk w wm dm,
      idx <= w -> w <= len -> len - idx <= R0 -> len - w + 1 <= N.of_nat k ->
      DelimS d delim tms terms ->
      (idx < w \/ (sk = false /\ Okl (tms ++ an_elems d) (len - idx))) ->
      NF (delim_loop g toks rec k d delim tr mn len idx terms tms dl sk w wm dm).
    Proof.
      induction k as [|k IH]; intros d delim tr mn len idx terms tms dl sk w wm dm Hw Hl Hr Hk Hs Hj; [lia|].
      cbn [delim_loop].
      apply nf_bind; [destruct (an_gaps d && (idx <? w)); [apply skip_fwd_nf|apply nf_ok]|].
      intros w' Hw'.
      assert (Hw2 : w <= w' /\ w' <= len /\ (idx < w' -> idx < w)).
      { destruct (an_gaps d && (idx <? w)) eqn:Eg.
        - apply andb_true_iff in Eg as [_ Eg]. b2p. apply skip_fwd_spec in Hw'. lia.
        - inversion Hw'; subst. lia. }
      destruct Hw2 as (W1 & W2 & W3).
      destruct (len <=? w') eqn:Elw; [apply delim_finish_nf|]. b2p.
      destruct Hs as (K2 & K3 & (K5 & K6) & (K8 & K9)).
      assert (Hokl : forall ms, (forall c, In c ms -> In c (tms ++ an_elems d)) \/ idx < w -> idx < w \/ sk = false ->
                Okl ms (len - w')).
      { intros ms Hsub Hsk. destruct Hj as [Hj|[Hj1 Hj2]]; [apply okl_lt; lia|].
        destruct Hsub as [Hsub|Hsub]; [|apply okl_lt; lia].
        eapply okl_mono; [|eapply okl_sub; [exact Hsub|exact Hj2]]. lia. }
      apply nf_bind.
      { apply longest_match_nf; auto; [lia|].
        destruct Hj as [Hj|[Hj1 Hj2]]; [apply okl_lt; lia|].
        eapply okl_mono; [|eapply okl_sub; [|exact Hj2]]; [lia|]. intros c Hc. apply in_or_app. left. exact Hc. }
      intros [tm tmo] _. destruct (has_match tm); [apply delim_finish_nf|].
      apply nf_bind.
      { destruct sk.
        - apply longest_match_nf; auto; [lia|]. destruct Hj as [Hj|[Hj1 _]]; [apply okl_lt; lia|discriminate].
        - apply longest_match_nf; auto; [lia|].
          destruct Hj as [Hj|[Hj1 Hj2]]; [apply okl_lt; lia|].
          eapply okl_mono; [|eapply okl_sub; [|exact Hj2]]; [lia|]. intros c Hc. apply in_or_app. right. exact Hc. }
      intros [m mo] Hlm.
      destruct (negb (has_match m)) eqn:Ehm; [apply delim_finish_nf|]. apply negb_false_iff in Ehm.
      pose proof (longest_match_adv g toks rec HrecB _ _ _ _ _ _ Hlm Ehm) as Hadv.
      apply (longest_match_spec g toks rec HrecB) in Hlm. destruct Hlm as [->|[Hlt (M1 & M2 & M3)]];
        [unfold has_match in Ehm; cbn in Ehm; rewrite N.eqb_refl in Ehm; discriminate|].
      assert (Hs' : DelimS d delim tms terms) by (repeat split; assumption).
      destruct sk.
      - apply IH; auto; try lia.
      - destruct dm as [x|]; apply IH; auto; try lia.
    Qed.

    Lemma match_delimited_nf d delim tr mn len idx terms :
      idx <= len -> len - idx <= R0 ->
      let tms := an_terms d ++ filter (fun t => negb (meq g delim t)) terms
                 ++ (if an_gaps d then [] else [g_noncode g]) in
      DelimS d delim tms terms -> Okl (tms ++ an_elems d) (len - idx) ->
      NF (match_delimited g toks rec fl d delim tr mn len idx terms).
    Proof.
      intros Hi Hr tms Hs Ho. unfold match_delimited. apply delim_loop_nf; auto; try lia.
    Qed.

    (* -------------------------------------------------------------- from the certificate to the premises *)
    Lemma nf_is_ok_and (x : res mr) : NF x ->
      NF (match x with ROk m => ROk (has_match m) | RErr => ROk false | RPanic p => RPanic p | RFuel => RFuel end).
    Proof. intro H. destruct x; try discriminate. exfalso. apply H. reflexivity. Qed.

    Lemma trim_in (ms : list N) (useT : bool) (T : tset) (terms : list N) (c : N) :
      Sub terms T -> In c ((ms ++ (if useT then terms else [])) ++ brk g) -> In c (trim_ms g ms useT T).
    Proof.
      intros Hs Hc. unfold trim_ms, greedy_ms. apply in_app_or in Hc as [Hc|Hc]; apply in_or_app; [left|right; exact Hc].
      apply in_app_or in Hc as [Hc|Hc]; apply in_or_app; [left; exact Hc|right].
      destruct useT; [eapply sub_members; eassumption|destruct Hc].
    Qed.

    Lemma trims_of (ms : list N) (useT : bool) (T : tset) (terms : list N) :
      Sub terms T -> forallb (kw_tc g tc) (trim_ms g ms useT T) = true ->
      (forall e, In e (greedy_edges g ms useT T) -> flows_b cx e = true) ->
      TrimS (ms ++ (if useT then terms else [])) terms.
    Proof.
      intros Hs Hkw Hfl'. split.
      - intros c Hc. eapply flows_callable; [|exact Hs]. apply Hfl'. unfold greedy_edges.
        apply (in_map (fun t => (t, T))). eapply trim_in; eassumption.
      - intros c Hc Hk. pose proof (forallb_in _ _ _ Hkw (trim_in _ _ _ _ _ Hs Hc)) as H.
        unfold kw_tc in H. rewrite Hk in H. exact H.
    Qed.

    Lemma seqs_of d T terms :
      Sub terms T ->
      (pmode_eqb (sq_mode d) Strict || forallb (kw_tc g tc) (trim_ms g (sq_terms d) true T)) = true ->
      (forall e, In e (seq_edges g d T) -> flows_b cx e = true) -> SeqS d terms.
    Proof.
      intros Hs Hst Hfl'. split.
      - intros e He Hcl. eapply flows_callable; [|exact Hs]. apply Hfl'. unfold seq_edges. apply in_or_app. left.
        apply (in_map (fun e => (e, T))). apply filter_In. split; assumption.
      - destruct (pmode_eqb (sq_mode d) Strict) eqn:Em.
        + left. destruct (sq_mode d); try discriminate; reflexivity.
        + right. cbn [orb] in Hst. apply (trims_of (sq_terms d) true T terms Hs Hst).
          intros e He. apply Hfl'. unfold seq_edges. rewrite Em. apply in_or_app. right. exact He.
    Qed.

    Lemma seq_okl d T terms r :
      Sub terms T -> Okl (seq_si g tc d T) r -> Okl (seq_trim_ms d terms ++ seq_prefix g tc (sq_elems d)) r.
    Proof.
      intros Hs Ho. eapply okl_sub; [|exact Ho]. intros c Hc. unfold seq_si.
      apply in_app_or in Hc as [Hc|Hc]; apply in_or_app; [left|right; exact Hc].
      unfold seq_trim_ms in Hc. destruct (pmode_eqb (sq_mode d) Strict); [destruct Hc|].
      apply (trim_in (sq_terms d) true T terms); assumption.
    Qed.

    Lemma match_node_body_nf n idx len terms :
      Callable n terms -> idx <= len -> len - idx = R0 -> rank n = K0 ->
      NF (match_node_body g toks rx rec fl n idx len terms).
    Proof.
      intros (T & HT & Hs) Hi HR HK.
      destruct (tcert_entry _ _ HT) as (i & Hget & _ & Hsi & Hstat & Hfl').
      assert (Hedge : forall c S t, In (c, S) (edges g i T) -> Sub t S -> Callable c t)
        by (intros c S t Hin HS; eapply flows_callable; [apply Hfl'; exact Hin|exact HS]).
      assert (Hlow : Okl (si g tc i T) (len - idx)).
      { intros c Hc. right. split; [lia|]. rewrite <- HK. apply Hsi. exact Hc. }
      assert (Hr : len - idx <= R0) by lia.
      unfold match_node_body. rewrite (info_present _ _ _ Hget). cbn [bind].
      unfold static_ok in Hstat. unfold edges in Hedge, Hfl'. unfold si in Hlow.
      destruct (n_node i) eqn:En.
      - (* GRef *)
        destruct target as [t|]; [|apply nf_panic].
        set (T2 := adds terms0 (if reset then PS.empty else T)) in *.
        assert (HS2 : Sub (deeper g reset terms0 terms) T2) by (apply sub_deeper; exact Hs).
        apply nf_bind.
        + destruct exclude as [e|]; [|apply nf_ok]. apply nf_is_ok_and.
          apply rec_nf; [eapply Hedge; [|exact HS2]; right; left; reflexivity|exact Hi|].
          apply Hlow. right. left. reflexivity.
        + intros ex _. destruct ex; [apply nf_ok|].
          apply rec_nf; [eapply Hedge; [|exact HS2]; left; reflexivity|exact Hi|].
          apply Hlow. left. reflexivity.
      - (* GSeq *)
        apply match_sequence_nf; [exact Hr|eapply seqs_of; eassumption|eapply seq_okl; eassumption].
      - (* GBracketed *)
        apply match_bracketed_nf; auto. intros -> sb eb -> ->.
        apply andb_true_iff in Hstat as [Htcs Hstat].
        split; [eapply Hedge; [left; reflexivity|exact Hs]|].
        split; [eapply Hedge; [right; left; reflexivity|exact Hs]|].
        split; [apply Hlow; left; reflexivity|]. split; [exact Htcs|].
        eapply seqs_of; [|exact Hstat|].
        + intros x Hx. apply deeper_in in Hx as [[<-|[]]|[Hx _]]; [|discriminate].
          unfold inT. apply PS.singleton_spec. reflexivity.
        + intros e He. apply Hfl'. right. right. exact He.
      - (* GAny *)
        set (T2 := any_T2 d T) in *.
        assert (HS2 : Sub (deeper g (an_reset d) (an_terms d) terms) T2) by (apply sub_deeper; exact Hs).
        destruct (okl_app _ _ _ Hlow) as [Hlex Hlow2]. destruct (okl_app _ _ _ Hlow2) as [Hltr Hlel].
        apply match_anynumberof_nf; auto.
        + intros ex Hex. rewrite Hex in Hlex. split; [|apply Hlex; left; reflexivity].
          eapply Hedge; [|exact Hs]. apply in_or_app. left. rewrite Hex. left. reflexivity.
        + intros Hm. rewrite Hm in Hstat, Hltr. cbn [pmode_eqb negb orb] in Hstat, Hltr.
          assert (Hgo := trims_of (an_terms d) (negb (an_reset d)) T terms Hs Hstat).
          assert (Hti := fun c => trim_in (an_terms d) (negb (an_reset d)) T terms c Hs).
          cbn zeta. destruct (an_reset d); cbn [negb] in Hgo, Hti; [rewrite app_nil_r in Hgo, Hti|];
            (split; [apply Hgo; intros e He; apply Hfl'; apply in_or_app; right; apply in_or_app; left;
                     rewrite Hm; exact He
                    |eapply okl_sub; [exact Hti|exact Hltr]]).
        + unfold AnyS. cbn zeta. split.
          * intros c Hc. eapply Hedge; [|exact HS2]. apply in_or_app. right. apply in_or_app. right.
            apply (in_map (fun e => (e, T2))). apply in_or_app. left. exact Hc.
          * intros c Hc. eapply Hedge; [|exact HS2]. apply in_or_app. right. apply in_or_app. right.
            apply (in_map (fun e => (e, T2))). apply in_or_app. right. eapply sub_members; eassumption.
      - (* GDelim *)
        set (T2 := PS.add (key delim) T) in *.
        assert (HST2 : Sub terms T2) by (intros x Hx; apply PS.add_spec; right; apply Hs; exact Hx).
        assert (HS0 : forall x, In x (deeper g false [] terms) -> In x terms)
          by (intros x Hx; apply deeper_in in Hx as [[]|[_ Hx]]; exact Hx).
        assert (HS1 : Sub (deeper g false [delim] terms) T2).
        { intros x Hx. apply deeper_in in Hx as [[<-|[]]|[_ Hx]]; [apply PS.add_spec; left; reflexivity|apply HST2; exact Hx]. }
        assert (Hterm : forall x t, In x terms -> Sub t T -> Callable x t).
        { intros x t Hx Ht. eapply Hedge; [|exact Ht]. apply in_or_app. left. apply (in_map (fun e => (e, T))).
          apply in_or_app. right. apply in_or_app. right. exact (sub_members _ _ _ Hs Hx). }
        apply match_delimited_nf; auto.
        + unfold DelimS. cbn zeta. repeat split.
          * intros c Hc. apply in_app_or in Hc as [Hc|Hc].
            -- eapply Hedge; [|exact Hs]. apply in_or_app. left. apply (in_map (fun e => (e, T))). apply in_or_app. left. exact Hc.
            -- apply in_app_or in Hc as [Hc|Hc]; [apply filter_In in Hc as [Hc _]; apply Hterm; assumption|].
               eapply Hedge; [|exact Hs]. apply in_or_app. left. apply (in_map (fun e => (e, T))). apply in_or_app. right.
               apply in_or_app. left. exact Hc.
          * intros c Hc. apply Hterm; assumption.
          * intros c [<-|[]]. eapply Hedge; [apply in_or_app; right; left; reflexivity|].
            intros x Hx. apply HST2. apply HS0. exact Hx.
          * intros c Hc. apply Hterm; [apply HS0; exact Hc|]. intros x Hx. apply Hs. apply HS0. exact Hx.
          * intros c Hc. eapply Hedge; [|exact HS1]. apply in_or_app. right. right.
            apply (in_map (fun e => (e, T2))). apply in_or_app. left. exact Hc.
          * intros c Hc. eapply Hedge; [|exact HS1]. apply in_or_app. right. right.
            apply (in_map (fun e => (e, T2))). apply in_or_app. right. eapply sub_members; [exact HS1|exact Hc].
        + eapply okl_sub; [|exact Hlow]. intros c Hc.
          apply in_app_or in Hc as [Hc|Hc]; [|apply in_or_app; right; apply in_or_app; right; apply in_or_app; right; exact Hc].
          apply in_app_or in Hc as [Hc|Hc]; [apply in_or_app; left; exact Hc|].
          apply in_or_app. right. apply in_app_or in Hc as [Hc|Hc].
          * apply in_or_app. left. apply filter_In in Hc as [Hc _]. eapply sub_members; eassumption.
          * apply in_or_app. right. apply in_or_app. left. exact Hc.
      - (* GNodeM *)
        destruct (len <=? idx); [apply nf_ok|].
        apply nf_bind; [apply tok_nf|]. intros t _.
        destruct (p_kind t =? kind); [apply nf_ok|].
        apply nf_bind; [|intros; apply nf_ok].
        apply rec_nf; [eapply Hedge; [left; reflexivity|exact Hs]|exact Hi|apply Hlow; left; reflexivity].
      - apply nf_bind; [apply tok_nf|]. intros t _. destruct (p_code t && (p_upper t =? upper)); apply nf_ok.
      - apply nf_bind; [apply tok_nf|]. intros t _. destruct (p_code t && memN (p_upper t) uppers); apply nf_ok.
      - apply nf_bind; [apply tok_nf|]. intros t _. destruct (p_kind t =? template); apply nf_ok.
      - apply nf_bind; [apply tok_nf|]. intros t _. destruct (existsb _ rx); apply nf_ok.
      - apply nf_panic.
      - destruct enabled; apply nf_ok.
      - (* GAnything *)
        destruct (is_empty terms0 && is_empty terms) eqn:Ee; [apply nf_ok|].
        destruct (is_empty terms0 && PS.is_empty T) eqn:Et.
        { apply andb_true_iff in Et as [Et1 Et2]. rewrite Et1 in Ee. cbn [andb] in Ee.
          apply PS.is_empty_spec in Et2. destruct terms as [|x terms]; [discriminate|].
          exfalso. apply (Et2 (key x)). apply Hs. left. reflexivity. }
        cbn [orb] in Hstat.
        destruct (trims_of terms0 true T terms Hs Hstat Hfl') as (G1 & G2).
        apply greedy_match_nf; auto; [lia|].
        eapply okl_sub; [|exact Hlow]. intros c Hc. eapply trim_in; eassumption.
      - apply nf_ok.
      - apply nf_bind; [apply noncode_scan_nf|]. intros hit _.
        destruct hit as [j|]; [destruct (idx <? j)|]; apply nf_ok.
      - apply nf_bind; [apply tok_nf|]. intros t _. destruct (p_kind t =? k_bracketed g); apply nf_ok.
    Qed.
  End WithRec.

  (* ---------------------------------------------------------------- tying the knot *)
  (** fuel for a call with [r] tokens left at a node of rank [k], when all ranks are below [W] *)
  Definition fuel_of (W r k : N) : N := (r + 1) * (W + 2) + k.

  Lemma fuel_lt_r W r r' k k' : r' < r -> k' < W -> fuel_of W r' k' + 1 < fuel_of W r k.
  Proof.
    unfold fuel_of. intros Hr Hk.
    assert (H : (r' + 1) * (W + 2) <= r * (W + 2)) by (apply N.mul_le_mono_r; lia).
    rewrite (N.mul_add_distr_r r 1 (W + 2)). lia.
  Qed.
  Lemma fuel_lt_k W r r' k k' : r' <= r -> k' < k -> fuel_of W r' k' < fuel_of W r k.
  Proof.
    unfold fuel_of. intros Hr Hk.
    assert (H : (r' + 1) * (W + 2) <= (r + 1) * (W + 2)) by (apply N.mul_le_mono_r; lia). lia.
  Qed.
  Lemma fuel_ge W r k : 2 * r + 2 <= fuel_of W r k.
  Proof.
    unfold fuel_of. assert (H : (r + 1) * 2 <= (r + 1) * (W + 2)) by (apply N.mul_le_mono_l; lia). lia.
  Qed.

  Theorem match_node_nf fuel : forall n idx len terms,
    Callable n terms -> idx <= len ->
    fuel_of (rank_bound g) (len - idx) (rank n) <= N.of_nat fuel ->
    NF (match_node g toks rx fuel n idx len terms).
  Proof.
    induction fuel as [|f IH]; intros n idx len terms Hc Hi Hf.
    - pose proof (fuel_ge (rank_bound g) (len - idx) (rank n)). cbn in Hf. lia.
    - cbn [match_node].
      pose proof (fuel_ge (rank_bound g) (len - idx) (rank n)) as Hge.
      apply match_node_body_nf with (R0 := len - idx) (K0 := rank n); auto.
      + exact (match_node_bounds g toks rx f).
      + exact (match_node_adv g toks rx tc Htc f).
      + intros c i l t Hct Hil Hok. apply IH; auto.
        pose proof (callable_rank _ _ Hct) as Hrk.
        destruct Hok as [Hok|[Hok1 Hok2]].
        * pose proof (fuel_lt_r (rank_bound g) (len - idx) (l - i) (rank n) (rank c) Hok Hrk). lia.
        * pose proof (fuel_lt_k (rank_bound g) (len - idx) (l - i) (rank n) (rank c) Hok1 Hok2). lia.
      + lia.
  Qed.

  (** enough fuel for a span of [r] tokens *)
  Definition fuel_bound_N (r : N) : N := fuel_of (rank_bound g) r (rank_bound g).

  Theorem parse_root_nf fuel s e :
    s <= e -> fuel_bound_N (e - s) <= N.of_nat fuel -> NF (parse_root g toks rx fuel s e).
  Proof.
    intros Hse Hf. unfold parse_root. destruct (g_root g) as [r|] eqn:Er; [|apply nf_panic].
    destruct tcert_parts as (_ & _ & Hroot & _).
    assert (Hc : Callable r []) by (eapply flows_callable; [apply Hroot; exact Er|intros t []]).
    apply match_node_nf; auto.
    pose proof (callable_rank _ _ Hc) as Hrk. unfold fuel_bound_N, fuel_of in *. lia.
  Qed.
End Term.

(* ------------------------------------------------------------------ the theorems *)
(** the explicit fuel bound: (tokens + 1) * (number of nodes + 3) + number of nodes + 1 *)
Definition fuel_bound (g : grammar) (r : N) : nat := N.to_nat (fuel_bound_N g r).

(** With a certificate, whatever the tokens and the regex oracle: the parse of the root grammar over
    the span [s, e) answers within [fuel_bound g (e - s)]. *)
Theorem parse_terminates_cert g cx tc rk : term_ok_b g cx tc rk = true ->
  forall toks rx s e fuel, s <= e -> (fuel_bound g (e - s) <= fuel)%nat ->
    parse_root g toks rx fuel s e <> RFuel.
Proof.
  intros Hc toks rx s e fuel Hse Hf. apply (parse_root_nf g toks rx cx tc rk Hc fuel s e Hse).
  unfold fuel_bound in Hf. lia.
Qed.

(** the decidable side condition: the computed certificate is accepted *)
Theorem parse_terminates_bound g : term_safe_b g = true ->
  forall toks rx s e fuel, s <= e -> (fuel_bound g (e - s) <= fuel)%nat ->
    parse_root g toks rx fuel s e <> RFuel.
Proof. intro H. exact (parse_terminates_cert g _ _ _ H). Qed.

Theorem parse_terminates g : term_safe_b g = true ->
  forall toks ntoks rx s e, toks_def toks ntoks -> s <= e -> e <= ntoks ->
    exists fuel, parse_root g toks rx fuel s e <> RFuel.
Proof.
  intros H toks ntoks rx s e _ Hse _. exists (fuel_bound g (e - s)).
  apply parse_terminates_bound; auto.
Qed.

(** ... and, with fuel monotonicity, the answer at the bound is the engine's answer: every larger
    fuel gives the same one *)
Theorem parse_answer_stable g : term_safe_b g = true ->
  forall toks rx s e fuel, s <= e -> (fuel_bound g (e - s) <= fuel)%nat ->
    parse_root g toks rx fuel s e = parse_root g toks rx (fuel_bound g (e - s)) s e.
Proof.
  intros H toks rx s e fuel Hse Hf.
  apply (Pem.FuelMono.parse_root_fuel_mono g toks rx (fuel_bound g (e - s)) fuel s e _ Hf eq_refl).
  apply parse_terminates_bound; auto.
Qed.
