(** Witnesses for [Pem.BrkShapeProofs]: a safe graph whose parse has bracketed nodes (one built by
    [Bracketed], one collected by [greedy_match] from the dialect's bracket set, nested) to which the
    theorem applies, and a graph that passes [wf_safe_b] but not [brk_safe_b] - an opening "bracket" of two
    tokens - whose bracketed node does not start with a bracket token. *)
From Coq Require Import FMapPositive.
From Sq Require Import Base.Bytes Apply.Model Pem.Model Pem.WfSafe Pem.WfExamples Pem.BrkShape Pem.BrkShapeProofs.

Local Open Scope N_scope.

(* texts: "(" = 10, ")" = 11, "a" = 12, "," = 13, "[" = 16, "]" = 17, "x" = 18 *)
(** root := a Bracketed( a {, a} )  Anything-until-x  x ; bracket set: ( ) and [ ], both persisting *)
Definition g_brk : grammar := mkg [
  (0, inf GNonCode []);
  (1, inf (GSeq (mkSeq [2; 8; 20; 21] Strict true [])) [12]);
  (2, inf (GString 12 102) [12]);
  (3, inf (GString 10 100) [10]);
  (4, inf (GRef (Some 9) None [] false) [11]);
  (5, inf (GDelim (mkAny [2] None [] false None 0 None true Strict) 6 false 0) [12]);
  (6, inf (GString 13 103) [13]);
  (8, inf (GBracketed true (Some 3) (Some 4) true true (mkSeq [5] Strict true [])) [10]);
  (9, inf (GString 11 101) [11]);
  (14, inf (GString 16 104) [16]);
  (15, inf (GString 17 105) [17]);
  (20, inf (GNodeM 110 22) []);
  (22, inf (GAnything [21]) []);
  (21, inf (GString 18 108) [18])] [(Some 3, Some 4, true); (Some 14, Some 15, true)] 1.
(**  a ( a , a ) [ a ( a ] ) ] x   - the crossed closer "]" inside "(" is a parse error for resolve_bracket, so use
     a well nested body:  a ( a , a ) [ a ( a ) ] x *)
Definition p_brk := [pt 12; pt 10; pt 12; pt 13; pt 12; pt 11; pt 16; pt 12; pt 10; pt 12; pt 11; pt 17; pt 18].
Definition m_brk : mr :=
  MR 0 13 None []
     [MR 0 1 (Some (MNewtype 102)) [] [];
      MR 1 6 (Some (MKind 202)) [(2, 203); (5, 204)]
         [MR 1 2 (Some (MNewtype 100)) [] []; MR 5 6 (Some (MNewtype 101)) [] [];
          MR 2 3 (Some (MNewtype 102)) [] []; MR 3 4 (Some (MNewtype 103)) [] []; MR 4 5 (Some (MNewtype 102)) [] []];
      MR 6 12 (Some (MKind 110)) []
         [MR 6 12 (Some (MKind 202)) [(7, 203); (11, 204)]
             [MR 6 7 (Some (MNewtype 104)) [] [];
              MR 8 11 (Some (MKind 202)) [(9, 203); (10, 204)]
                 [MR 8 9 (Some (MNewtype 100)) [] []; MR 10 11 (Some (MNewtype 101)) [] []];
              MR 11 12 (Some (MNewtype 105)) [] []]];
      MR 12 13 (Some (MNewtype 108)) [] []].

Example ex_brk_parse :
  brk_safe_b g_brk = true /\ parse_root g_brk (toks_of_list p_brk) [] 40 0 13 = ROk m_brk.
Proof. vm_compute. split; reflexivity. Qed.

(** the theorem applied to the inner round bracket inside the square one *)
Example ex_brk_shape :
  Shape g_brk (toks_of_list p_brk) 8 11 [MR 8 9 (Some (MNewtype 100)) [] []; MR 10 11 (Some (MNewtype 101)) [] []].
Proof.
  destruct ex_brk_parse as [H1 H2].
  refine (bracketed_nodes_shape g_brk (toks_of_list p_brk) [] 40%nat 0 13 m_brk
            (MR 8 11 (Some (MKind 202)) [(9, 203); (10, 204)]
                [MR 8 9 (Some (MNewtype 100)) [] []; MR 10 11 (Some (MNewtype 101)) [] []]) H1 H2 _ eq_refl).
  eapply sub_child; [right; right; left; reflexivity|].
  eapply sub_child; [left; reflexivity|].
  eapply sub_child; [right; left; reflexivity|]. apply sub_refl.
Qed.

(** an opening "bracket" that is a Sequence of two tokens: every match is still well-formed ([wf_safe_b] only
    looks at what can close a bracket), but the bracketed node starts with an unnamed two-token match *)
Definition g_two : grammar := mkg [
  (0, inf GNonCode []);
  (1, inf (GBracketed true (Some 3) (Some 4) true true (mkSeq [2] Strict true [])) [10]);
  (2, inf (GString 12 102) [12]);
  (3, inf (GSeq (mkSeq [5; 5] Strict false [])) [10]);
  (4, inf (GString 11 101) [11]);
  (5, inf (GString 10 100) [10])] [] 1.

Lemma bracket_shape_arbitrary_graph_refuted :
  exists g ptoks rx fuel s e m,
    wf_safe_b g = true /\ brk_safe_b g = false /\
    parse_root g (toks_of_list ptoks) rx fuel s e = ROk m /\
    mr_matched m = Some (MKind (k_bracketed g)) /\
    ~ Shape g (toks_of_list ptoks) (mr_start m) (mr_end m) (mr_ch m).
Proof.
  exists g_two, [pt 10; pt 10; pt 12; pt 11], [], 40%nat, 0, 4. eexists.
  split; [vm_compute; reflexivity|]. split; [vm_compute; reflexivity|]. split; [vm_compute; reflexivity|].
  split; [reflexivity|].
  intros (ko & kc & rest & sb & eb & us & ue & E & _). cbn in E. inversion E.
Qed.
