(** The decidable side condition on a grammar graph under which every match result of the
    parser-engine interpreter is well-formed ([Apply.Model.wf]).

    [Bracketed::match_segments] takes the content of a bracket to end at [bracket_match.span.end - 1],
    i.e. it assumes that the closing bracket is exactly one token, and [greedy_match] trims trailing
    non-code from the span *behind* the bracket children it collected, i.e. it assumes that a bracket
    ends with a code token.  Both hold when whatever can close a bracket is a parser that accepts
    exactly one *code* token (a [StringParser] / [MultiStringParser], possibly behind [Ref]s) - and
    the interpreter really produces overlapping or escaping children when they do not
    ([Pem.Wf.wf_arbitrary_graph_refuted]).  Executable definitions only. *)
From Coq Require Import FMapPositive.
From Sq Require Import Base.Bytes Apply.Model Pem.Model.

Section Safe.
  Variable g : grammar.

  (** [n] answers either with the empty match or with one re-tagged code token at [idx];
      [d] bounds the length of the [Ref] chain followed *)
  Fixpoint code1_b (d : nat) (n : N) : bool :=
    match d with
    | O => false
    | S d' =>
        match get (g_nodes g) n with
        | Some i =>
            match n_node i with
            | GString _ _ | GMulti _ _ => true
            | GRef (Some t) _ _ _ => code1_b d' t
            | _ => false
            end
        | None => false
        end
    end.

  Definition ref_depth : nat := 8.

  (** every matcher among the candidates [starts ++ ends] of [resolve_bracket] that the engine
      would take for a closing bracket ([ends.contains(matcher)], which goes through [==]) *)
  Definition closers_safe_b (starts ends : list N) : bool :=
    forallb (fun y => negb (mcontains g ends y) || code1_b ref_depth y) (starts ++ ends).

  Definition node_safe_b (i : ninfo) : bool :=
    match n_node i with
    | GBracketed true (Some sb) (Some eb) _ _ _ => closers_safe_b [sb] [eb]
    | _ => true
    end.

  Fixpoint all_some (l : list (option N)) : option (list N) :=
    match l with
    | [] => Some []
    | Some x :: l' => option_map (cons x) (all_some l')
    | None :: _ => None
    end.

  (** the dialect's "bracket_pairs" set, used by [next_ex_bracket_match] *)
  Definition brackets_safe_b : bool :=
    match all_some (map (fun b => fst (fst b)) (g_brackets g)),
          all_some (map (fun b => snd (fst b)) (g_brackets g)) with
    | Some starts, Some ends => closers_safe_b starts ends
    | _, _ => true            (* [resolve_refs] aborts before the set is used *)
    end.

  Definition wf_safe_b : bool :=
    forallb (fun p => node_safe_b (snd p)) (PositiveMap.elements (g_nodes g)) && brackets_safe_b.
End Safe.
