(** Layout non-interference of the parser-engine interpreter, part 1: definitions and the
    one-run facts about the token-level loops of [Pem.Model].

    Tokens are split in *significant* tokens (code or meta: kept one for one by the perturbation)
    and *gap* tokens (whitespace, newline, comment).  [gap_ok_b g t] is the decidable statement
    that the grammar graph [g] cannot see the gap token [t] except through [p_code], [p_meta] and
    "is it whitespace/newline" ([wsn]): no first-token hint, typed parser or node kind of the graph
    mentions it.  Nothing here forks the interpreter: every lemma is about [Pem.Model]. *)
From Coq Require Import FMapPositive Lia.
From Sq Require Import Base.Bytes Apply.Model Pem.Model Pem.Bounds.

Local Open Scope N_scope.

Definition sigb (t : ptok) : bool := p_code t || p_meta t.
Definition gapb (t : ptok) : bool := negb (sigb t).

Section Graph.
  Variable g : grammar.

  Definition infos : list ninfo := map snd (PositiveMap.elements (g_nodes g)).
  (** what the keyword-terminator guard of [greedy_match] asks of the token before a terminator *)
  Definition wsn (t : ptok) : bool := (p_kind t =? k_ws g) || (p_kind t =? k_nl g).

  Definition hint_free_for (t : ptok) (i : ninfo) : bool :=
    match n_simple i with
    | None => true
    | Some (raws, tys, _) =>
        negb (memN (p_ftr t) raws) && negb (intersects (p_types t) tys)
        && match p_fnw t with Some r => negb (memN r raws) | None => true end
    end.
  Definition kind_free_for (t : ptok) (i : ninfo) : bool :=
    match n_node i with
    | GTyped tpl _ => negb (p_kind t =? tpl)
    | GNodeM k _ => negb (p_kind t =? k)
    | _ => true
    end.
  (** the graph is blind to [t] *)
  Definition gap_ok_b (t : ptok) : bool :=
    is_some (p_fnw t) && negb (p_kind t =? k_bracketed g)
    && forallb (fun i => hint_free_for t i && kind_free_for t i) infos.

  Definition okgap (t : ptok) : Prop := gapb t = true /\ gap_ok_b t = true.

  Lemma infos_in n i : get (g_nodes g) n = Some i -> In i infos.
  Proof.
    unfold get, infos. intro H. apply PositiveMap.elements_correct in H.
    apply in_map_iff. exists (key n, i). split; [reflexivity|exact H].
  Qed.

  Lemma okgap_code t : okgap t -> p_code t = false.
  Proof. intros [H _]. unfold gapb, sigb in H. apply negb_true_iff, orb_false_iff in H. tauto. Qed.
  Lemma okgap_meta t : okgap t -> p_meta t = false.
  Proof. intros [H _]. unfold gapb, sigb in H. apply negb_true_iff, orb_false_iff in H. tauto. Qed.
  Lemma okgap_fnw t : okgap t -> exists r, p_fnw t = Some r.
  Proof.
    intros [_ H]. unfold gap_ok_b in H. apply andb_true_iff in H as [H _]. apply andb_true_iff in H as [H _].
    destruct (p_fnw t); [eauto|discriminate].
  Qed.
  Lemma okgap_bracketed t : okgap t -> (p_kind t =? k_bracketed g) = false.
  Proof.
    intros [_ H]. unfold gap_ok_b in H. apply andb_true_iff in H as [H _]. apply andb_true_iff in H as [_ H].
    apply negb_true_iff in H. exact H.
  Qed.
  Lemma okgap_info t n i : okgap t -> get (g_nodes g) n = Some i ->
    hint_free_for t i = true /\ kind_free_for t i = true.
  Proof.
    intros [_ H] Hn. unfold gap_ok_b in H. apply andb_true_iff in H as [_ H].
    rewrite forallb_forall in H. specialize (H i (infos_in _ _ Hn)). apply andb_true_iff in H. exact H.
  Qed.
End Graph.



(* ------------------------------------------------------------------ which token kinds a graph can see *)
Section Kinds.
  Variable g : grammar.
  (** no typed parser, node kind or first-token hint type of the graph mentions kind [k] *)
  Definition kind_invisible_b (k : N) : bool :=
    negb (k =? k_bracketed g)
    && forallb (fun i =>
                  match n_node i with GTyped tpl _ => negb (k =? tpl) | GNodeM k2 _ => negb (k =? k2) | _ => true end
                  && match n_simple i with Some (_, tys, _) => negb (memN k tys) | None => true end) (infos g).
  (** no first-token hint of the graph mentions the strings of [t] *)
  Definition raws_invisible_b (t : ptok) : bool :=
    forallb (fun i => match n_simple i with
                      | Some (raws, _, _) =>
                          negb (memN (p_ftr t) raws) && match p_fnw t with Some r => negb (memN r raws) | None => true end
                      | None => true
                      end) (infos g).

  Lemma gap_ok_of_kind t :
    kind_invisible_b (p_kind t) = true -> p_types t = [p_kind t] -> raws_invisible_b t = true ->
    is_some (p_fnw t) = true -> gap_ok_b g t = true.
  Proof.
    unfold kind_invisible_b, raws_invisible_b, gap_ok_b. intros Hk Hty Hr Hf.
    apply andb_true_iff in Hk as [Hb Hk]. rewrite Hf, Hb. cbn [andb].
    rewrite forallb_forall in *. intros i Hi. specialize (Hk i Hi). specialize (Hr i Hi).
    apply andb_true_iff in Hk as [Hk1 Hk2].
    unfold hint_free_for, kind_free_for. rewrite Hty.
    destruct (n_simple i) as [[[raws tys] al]|].
    - apply andb_true_iff in Hr as [Hr1 Hr2]. rewrite Hr1, Hr2. cbn [intersects existsb].
      apply negb_true_iff in Hk2. rewrite Hk2. cbn. destruct (n_node i); try reflexivity; exact Hk1.
    - destruct (n_node i); try reflexivity; exact Hk1.
  Qed.
End Kinds.

(** anchored at [idx]: a match starts where it was asked to *)
Definition anchored (idx : N) (m : mr) : Prop := has_match m = true -> mr_start m = idx.

(* ------------------------------------------------------------------ the static side condition *)
Section Static.
  Variable g : grammar.
  (** [U]: nodes whose match may start after the index they were asked at (a Greedy
      [AnyNumberOf]/[Delimited] that opens with an unparsable section, and what merely wraps one) *)
  Variable U : list N.

  Definition anch (n : N) : bool := negb (memN n U).
  Definition all_anch (l : list N) : bool := forallb anch l.

  (** matchers that consume exactly one significant token *)
  Fixpoint onetok_b (f : nat) (n : N) : bool :=
    match get (g_nodes g) n with
    | None => false
    | Some i =>
        match n_node i with
        | GString _ _ | GMulti _ _ | GTyped _ _ | GRegex _ _ => true
        | GRef (Some t) None _ _ => match f with O => false | S f' => onetok_b f' t end
        | _ => false
        end
    end.
  Definition onetok (n : N) : bool := onetok_b 4 n.

  (** options handed to [longest_match] (elements, delimiters, every terminator that can enter the
      context) are anchored; bracket ends are single tokens *)
  Definition node_ok (i : ninfo) : bool :=
    match n_node i with
    | GRef _ _ rterms _ => all_anch rterms
    | GAny d => all_anch (an_elems d) && all_anch (an_terms d)
    | GDelim d delim _ _ => all_anch (an_elems d) && all_anch (an_terms d) && anch delim
    | GBracketed _ (Some sb) (Some eb) _ _ _ => onetok sb && onetok eb && anch eb
    | _ => true
    end.
  (** [U] is closed: an anchored node only passes on matches of anchored nodes *)
  Definition node_closed (n : N) (i : ninfo) : bool :=
    negb (anch n) ||
    match n_node i with
    | GRef (Some t) _ _ _ => anch t
    | GNodeM _ gr => anch gr
    | GBracketed _ (Some sb) _ _ _ _ => anch sb
    | GAny d => pmode_eqb (an_mode d) Strict
    | GDelim d _ _ _ => pmode_eqb (an_mode d) Strict
    | _ => true
    end.
  Definition static_ok_b : bool :=
    forallb (fun p => node_ok (snd p) && node_closed (Pos.pred_N (fst p)) (snd p)) (PositiveMap.elements (g_nodes g))
    && anch (g_noncode g).

  Lemma static_node n i : static_ok_b = true -> get (g_nodes g) n = Some i ->
    node_ok i = true /\ node_closed n i = true.
  Proof.
    unfold static_ok_b. intros H Hn. apply andb_true_iff in H as [H _]. rewrite forallb_forall in H.
    unfold get in Hn. apply PositiveMap.elements_correct in Hn. specialize (H _ Hn). cbn [fst snd] in H.
    unfold key in H. rewrite N.pos_pred_succ in H. apply andb_true_iff in H. exact H.
  Qed.
  Lemma static_noncode : static_ok_b = true -> anch (g_noncode g) = true.
  Proof. unfold static_ok_b. intro H. apply andb_true_iff in H as [_ H]. exact H. Qed.
End Static.

(** the least [U] is computed by iteration; soundness only needs the check [static_ok_b] *)
Definition unanch_step (g : grammar) (U : list N) : list N :=
  U ++ flat_map (fun p => if node_closed U (Pos.pred_N (fst p)) (snd p) then [] else [Pos.pred_N (fst p)])
                (PositiveMap.elements (g_nodes g)).
Fixpoint unanch_iter (g : grammar) (k : nat) (U : list N) : list N :=
  match k with O => U | S k' => unanch_iter g k' (unanch_step g U) end.
Definition compute_U (g : grammar) : list N := unanch_iter g 8 [].
Definition gap_safe_b (g : grammar) : bool := static_ok_b g (compute_U g).

(* ------------------------------------------------------------------ generic helpers *)
Lemma key_inj a b : key a = key b -> a = b.
Proof. unfold key. intro H. apply (f_equal Pos.pred_N) in H. rewrite !N.pos_pred_succ in H. exact H. Qed.

Lemma get_toks_of_list (l : list ptok) (i : N) : get (toks_of_list l) i = nth_error l (N.to_nat i).
Proof.
  unfold toks_of_list.
  assert (H : forall (l : list ptok) (k : N) (m : PositiveMap.t ptok),
             (forall j, k <= j -> get m j = None) ->
             get (snd (fold_left (fun '(i, m) t => (N.succ i, PositiveMap.add (key i) t m)) l (k, m))) i
             = if i <? k then get m i else nth_error l (N.to_nat (i - k))).
  { clear l. induction l as [|t l IH]; intros k m Hm; cbn [fold_left snd].
    - destruct (i <? k) eqn:E; [reflexivity|]. b2p. rewrite Hm by lia. destruct (N.to_nat (i - k)); reflexivity.
    - rewrite IH.
      + unfold get.
        destruct (i <? N.succ k) eqn:E1; destruct (i <? k) eqn:E2; b2p.
        * rewrite PositiveMap.gso; [reflexivity|]. intro Hk. apply key_inj in Hk. lia.
        * assert (i = k) by lia. subst. rewrite PositiveMap.gss. rewrite N.sub_diag. reflexivity.
        * lia.
        * replace (N.to_nat (i - k)) with (S (N.to_nat (i - N.succ k))) by lia. reflexivity.
      + intros j Hj. unfold get. rewrite PositiveMap.gso; [apply Hm; lia|].
        intro Hk. apply key_inj in Hk. lia. }
  rewrite (H l 0 (PositiveMap.empty ptok)) by (intros; unfold get; apply PositiveMap.gempty). destruct (i <? 0) eqn:E; b2p; [lia|].
  rewrite N.sub_0_r. reflexivity.
Qed.

Lemma bind_ok_iff {A C} (x : res A) (f : A -> res C) a : x = ROk a -> bind x f = f a.
Proof. intros ->. reflexivity. Qed.

(* ------------------------------------------------------------------ one run: loop equations *)
Section OneRun.
  Variable g : grammar.
  Variable toks : PositiveMap.t ptok.
  Notation tk := (get toks).

  Lemma tok_some len i t : i < len -> tk i = Some t -> tok toks len i = ROk t.
  Proof. intros H E. unfold tok. apply N.ltb_lt in H. rewrite H, E. reflexivity. Qed.
  Lemma tok_none len i : tk i = None -> tok toks len i = RPanic PIndex.
  Proof. intros E. unfold tok. rewrite E. destruct (i <? len); reflexivity. Qed.
  Lemma tok_oob len i : len <= i -> tok toks len i = RPanic PIndex.
  Proof. intros H. unfold tok. apply N.ltb_ge in H. rewrite H. reflexivity. Qed.

  (** a run of acceptable gap tokens on [p, q) *)
  Definition grun (p q : N) : Prop := p < q /\ forall i, p <= i < q -> exists t, tk i = Some t /\ okgap g t.

  Lemma grun_first p q : grun p q -> exists t, tk p = Some t /\ okgap g t.
  Proof. intros [H1 H2]. apply H2. lia. Qed.
  Lemma grun_last p q : grun p q -> exists t, tk (q - 1) = Some t /\ okgap g t.
  Proof. intros [H1 H2]. apply H2. lia. Qed.
  Lemma grun_tail p q : grun p q -> p + 1 < q -> grun (p + 1) q.
  Proof. intros [H1 H2] H. split; [exact H|]. intros i Hi. apply H2. lia. Qed.
  Lemma grun_init p q : grun p q -> p < q - 1 -> grun p (q - 1).
  Proof. intros [H1 H2] H. split; [exact H|]. intros i Hi. apply H2. lia. Qed.

  (* ---------------------------------------------------------------- skip_fwd *)
  Lemma skip_fwd_eq len idx mx :
    skip_fwd toks len idx mx =
    if idx <? mx then t <- tok toks len idx ;; if p_code t then ROk idx else skip_fwd toks len (idx + 1) mx
    else ROk idx.
  Proof.
    unfold skip_fwd at 1. cbn [skip_fwd_aux]. destruct (idx <? mx) eqn:E; [|reflexivity]. b2p.
    unfold skip_fwd. replace (N.to_nat (mx - idx)) with (S (N.to_nat (mx - (idx + 1)))) by lia. reflexivity.
  Qed.

  Lemma skip_fwd_run len mx : forall k p q, N.to_nat (q - p) = k ->
    grun p q -> q <= mx -> q <= len -> skip_fwd toks len p mx = skip_fwd toks len q mx.
  Proof.
    induction k as [|k IH]; intros p q Hk Hr Hm Hl; [destruct Hr; lia|].
    rewrite skip_fwd_eq. destruct Hr as [Hpq Hall].
    assert (E : (p <? mx) = true) by (apply N.ltb_lt; lia). rewrite E.
    destruct (Hall p) as (t & Ht & Hok); [lia|].
    rewrite (tok_some len p t) by (lia || assumption). cbn [bind]. rewrite (okgap_code g t Hok).
    destruct (N.eq_dec (p + 1) q) as [->|Hne]; [reflexivity|].
    apply IH; [lia| |exact Hm|exact Hl]. split; [lia|]. intros i Hi. apply Hall. lia.
  Qed.

  (* ---------------------------------------------------------------- skip_back *)
  Lemma skip_back_eq len idx mn :
    skip_back toks len idx mn =
    if mn <? idx then t <- tok toks len (idx - 1) ;; if p_code t then ROk idx else skip_back toks len (idx - 1) mn
    else ROk idx.
  Proof.
    unfold skip_back at 1. cbn [skip_back_aux]. destruct (mn <? idx) eqn:E; [|reflexivity]. b2p.
    unfold skip_back. replace (N.to_nat (idx - mn)) with (S (N.to_nat (idx - 1 - mn))) by lia. reflexivity.
  Qed.

  Lemma skip_back_run len mn : forall k p q, N.to_nat (q - p) = k ->
    grun p q -> mn <= p -> q <= len -> skip_back toks len q mn = skip_back toks len p mn.
  Proof.
    induction k as [|k IH]; intros p q Hk Hr Hm Hl; [destruct Hr; lia|].
    rewrite skip_back_eq. destruct Hr as [Hpq Hall].
    assert (E : (mn <? q) = true) by (apply N.ltb_lt; lia). rewrite E.
    destruct (Hall (q - 1)) as (t & Ht & Hok); [lia|].
    rewrite (tok_some len (q - 1) t) by (lia || assumption). cbn [bind]. rewrite (okgap_code g t Hok).
    destruct (N.eq_dec (q - 1) p) as [->|Hne]; [reflexivity|].
    apply IH; [lia| |exact Hm|lia]. split; [lia|]. intros i Hi. apply Hall. lia.
  Qed.

  (* ---------------------------------------------------------------- all_noncode *)
  Definition anc (len a b : N) : res bool := all_noncode_aux toks (S (N.to_nat (b - a))) len a b.
  Lemma anc_eq len a b :
    anc len a b = if a <? b then t <- tok toks len a ;; if p_code t then ROk false else anc len (a + 1) b
                  else ROk true.
  Proof.
    unfold anc at 1. cbn [all_noncode_aux]. destruct (a <? b) eqn:E; [|reflexivity]. b2p.
    unfold anc. replace (N.to_nat (b - a)) with (S (N.to_nat (b - (a + 1)))) by lia. reflexivity.
  Qed.
  Lemma anc_run len b : forall k p q, N.to_nat (q - p) = k ->
    grun p q -> q <= b -> q <= len -> anc len p b = anc len q b.
  Proof.
    induction k as [|k IH]; intros p q Hk Hr Hm Hl; [destruct Hr; lia|].
    rewrite anc_eq. destruct Hr as [Hpq Hall].
    assert (E : (p <? b) = true) by (apply N.ltb_lt; lia). rewrite E.
    destruct (Hall p) as (t & Ht & Hok); [lia|].
    rewrite (tok_some len p t) by (lia || assumption). cbn [bind]. rewrite (okgap_code g t Hok).
    destruct (N.eq_dec (p + 1) q) as [->|Hne]; [reflexivity|].
    apply IH; [lia| |exact Hm|exact Hl]. split; [lia|]. intros i Hi. apply Hall. lia.
  Qed.

  (* ---------------------------------------------------------------- noncode_scan *)
  Definition ncs (len i : N) : res (option N) := noncode_scan toks (S (N.to_nat (len - i))) len i.
  Lemma ncs_eq len i :
    ncs len i = if i <? len then t <- tok toks len i ;; if p_code t then ROk (Some i) else ncs len (i + 1)
                else ROk None.
  Proof.
    unfold ncs at 1. cbn [noncode_scan]. destruct (i <? len) eqn:E; [|reflexivity]. b2p.
    unfold ncs. replace (N.to_nat (len - i)) with (S (N.to_nat (len - (i + 1)))) by lia. reflexivity.
  Qed.
  Lemma ncs_run len : forall k p q, N.to_nat (q - p) = k ->
    grun p q -> q <= len -> ncs len p = ncs len q.
  Proof.
    induction k as [|k IH]; intros p q Hk Hr Hl; [destruct Hr; lia|].
    rewrite ncs_eq. destruct Hr as [Hpq Hall].
    assert (E : (p <? len) = true) by (apply N.ltb_lt; lia). rewrite E.
    destruct (Hall p) as (t & Ht & Hok); [lia|].
    rewrite (tok_some len p t) by (lia || assumption). cbn [bind]. rewrite (okgap_code g t Hok).
    destruct (N.eq_dec (p + 1) q) as [->|Hne]; [reflexivity|].
    apply IH; [lia| |exact Hl]. split; [lia|]. intros i Hi. apply Hall. lia.
  Qed.

  (* ---------------------------------------------------------------- first_nonws / prune *)
  Lemma first_nonws_eq len i :
    first_nonws toks len i =
    if i <? len then
      match tk i with
      | Some t => if p_code t then match p_fnw t with Some r => Some (r, p_types t) | None => None end else None
      | None => None
      end
    else None.
  Proof. reflexivity. Qed.

  (** pruning by a token the graph is blind to keeps exactly the options without a hint *)
  Lemma prune_aux_blind t r : okgap g t -> p_fnw t = Some r ->
    forall t2 r2, okgap g t2 -> p_fnw t2 = Some r2 ->
    forall opts, prune_aux g r (p_types t) opts = prune_aux g r2 (p_types t2) opts.
  Proof.
    intros Hok Hr t2 r2 Hok2 Hr2. induction opts as [|o opts IH]; [reflexivity|].
    cbn [prune_aux]. unfold simple_of, info. destruct (get (g_nodes g) o) as [i|] eqn:Ei; [|reflexivity].
    cbn [bind]. rewrite IH. destruct (prune_aux g r2 (p_types t2) opts) as [rest| | |]; try reflexivity.
    cbn [bind]. destruct (n_simple i) as [[[raws tys] al]|] eqn:Es; [|reflexivity].
    destruct (okgap_info g t o i Hok Ei) as [H1 _]. destruct (okgap_info g t2 o i Hok2 Ei) as [H2 _].
    unfold hint_free_for in H1, H2. rewrite Es in H1, H2. rewrite Hr in H1. rewrite Hr2 in H2.
    repeat (apply andb_true_iff in H1 as [H1 ?]). repeat (apply andb_true_iff in H2 as [H2 ?]).
    repeat match goal with H : negb _ = true |- _ => apply negb_true_iff in H end.
    repeat match goal with H : _ = false |- _ => rewrite H end. reflexivity.
  Qed.

  (* ---------------------------------------------------------------- next_match *)
  Lemma nm_candidates_blind ms t : okgap g t -> nm_check_simple g ms = ROk tt -> nm_candidates g ms t = ROk [].
  Proof.
    intros Hok. induction ms as [|m ms IH]; intro H; [reflexivity|].
    cbn [nm_check_simple nm_candidates] in *. unfold simple_of, info in *.
    destruct (get (g_nodes g) m) as [i|] eqn:Ei; [|discriminate]. cbn [bind] in *.
    destruct (n_simple i) as [[[raws tys] al]|] eqn:Es; [|discriminate].
    rewrite (IH H). cbn [bind].
    destruct (okgap_info g t m i Hok Ei) as [H1 _]. unfold hint_free_for in H1. rewrite Es in H1.
    repeat (apply andb_true_iff in H1 as [H1 ?]).
    repeat match goal with H : negb _ = true |- _ => apply negb_true_iff in H end.
    repeat match goal with H : _ = false |- _ => rewrite H end. reflexivity.
  Qed.

  Section WithRec.
    Variable rec : N -> N -> N -> list N -> res mr.

    Definition nms (len i : N) (ms terms : list N) : res (option (mr * N)) :=
      next_match_scan g toks rec (S (N.to_nat (len - i))) i len ms terms.
    Lemma nms_eq len i ms terms :
      nms len i ms terms =
      if i <? len then
        t <- tok toks len i ;;
        cands <- nm_candidates g ms t ;;
        hit <- first_matching rec cands i len terms ;;
        match hit with Some h => ROk (Some h) | None => nms len (i + 1) ms terms end
      else ROk None.
    Proof.
      unfold nms at 1. cbn [next_match_scan]. destruct (i <? len) eqn:E; [|reflexivity]. b2p.
      unfold nms. replace (N.to_nat (len - i)) with (S (N.to_nat (len - (i + 1)))) by lia. reflexivity.
    Qed.
    Lemma nms_run len ms terms : nm_check_simple g ms = ROk tt -> forall k p q, N.to_nat (q - p) = k ->
      grun p q -> q <= len -> nms len p ms terms = nms len q ms terms.
    Proof.
      intro Hs. induction k as [|k IH]; intros p q Hk Hr Hl; [destruct Hr; lia|].
      rewrite nms_eq. destruct Hr as [Hpq Hall].
      assert (E : (p <? len) = true) by (apply N.ltb_lt; lia). rewrite E.
      destruct (Hall p) as (t & Ht & Hok); [lia|].
      rewrite (tok_some len p t) by (lia || assumption). cbn [bind].
      rewrite (nm_candidates_blind ms t Hok Hs). cbn [bind first_matching].
      destruct (N.eq_dec (p + 1) q) as [->|Hne]; [reflexivity|].
      apply IH; [lia| |exact Hl]. split; [lia|]. intros i Hi. apply Hall. lia.
    Qed.
  End WithRec.

  (* ---------------------------------------------------------------- allowable_scan *)
  Definition asc (len i w : N) (dflt : bool) : res bool :=
    allowable_scan g toks (S (N.to_nat (i - w))) len i dflt.
  Lemma asc_eq len i w dflt :
    asc len i w dflt =
    if i =? 0 then RPanic PIndex
    else t <- tok toks len (i - 1) ;;
         if p_meta t then (if w <? i then asc len (i - 1) w dflt else ROk dflt)
         else ROk ((p_kind t =? k_ws g) || (p_kind t =? k_nl g)).
  Proof.
    unfold asc at 1. cbn [allowable_scan]. destruct (i =? 0) eqn:E0; [reflexivity|]. b2p.
    destruct (tok toks len (i - 1)) as [t| | |]; try reflexivity. cbn [bind].
    destruct (p_meta t); [|reflexivity].
    destruct (w <? i) eqn:E; b2p.
    - unfold asc. replace (N.to_nat (i - w)) with (S (N.to_nat (i - 1 - w))) by lia. reflexivity.
    - replace (N.to_nat (i - w)) with O by lia. reflexivity.
  Qed.
End OneRun.
