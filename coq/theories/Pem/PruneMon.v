(** The token premise [toks_ok] of the pruning-transparency theorem ([Pem.PruneProofs]) on recorded token
    arrays: [toks_ok_b g l = true -> toks_ok g (toks_of_list l)], the theorem in that form, and the two
    monitors the Pem replay (bin/propcfg/cpem.py) evaluates on every recorded real parse:
    [toks_ok_failures] (the premise) and [prune_diff_failures] / [prune_thm_failures] (the conclusion
    observed directly: the reference twin on the recorded tokens against the recorded result of the real,
    pruning parser). *)
From Coq Require Import FMapPositive Lia.
From Sq Require Import Base.Bytes Apply.Model Pem.Model Pem.WfRoot Corr.Pem Pem.PruneDef Pem.PruneProofs.

Local Open Scope N_scope.

Lemma toks_ok_b_sound g l : toks_ok_b g l = true -> toks_ok g (toks_of_list l).
Proof.
  intros H i t Hg. rewrite toks_of_list_get in Hg. apply nth_error_In in Hg.
  unfold toks_ok_b in H. cbv zeta in H. rewrite forallb_forall in H. unfold tok_ok_b. auto.
Qed.

Theorem prune_transparent_mon g : hints_sound_b g = true ->
  forall l rx fuel s e m, toks_ok_b g l = true ->
    parse_root_ref g (toks_of_list l) rx fuel s e = ROk m ->
    parse_root g (toks_of_list l) rx fuel s e = ROk m /\ parse_root_np g (toks_of_list l) rx fuel s e = ROk m.
Proof.
  intros Hg l rx fuel s e m Hl H. split.
  - exact (prune_transparent g Hg _ rx fuel s e m (toks_ok_b_sound g l Hl) H).
  - exact (ref_refines_np g _ rx fuel s e m H).
Qed.

(* ------------------------------------------------------------------ the monitors on recorded Pem cases *)
Definition toks_ok_args (g : grammar) (a : args_t) : bool := let '(l, rx, s, e) := a in toks_ok_b g l.

(** the conclusion, observed against the real parser (which prunes): the reference twin answers [ROk m]
    and the recorded root [MatchResult] of the real parse is something else *)
Definition prune_diff_args (g : grammar) (a : args_t) (exp : res mr) : bool :=
  let '(l, rx, s, e) := a in
  match parse_root_ref g (toks_of_list l) rx pem_fuel s e with
  | ROk m => negb (res_eqb (ROk m) exp)
  | _ => false
  end.

(** per recorded parse: (id, premise holds, reference twin and real parser differ); the graph-wide lists are
    computed once; the reference twin (pruning off: slower than the replay itself) is run on every
    [stride]-th recorded parse *)
Definition prune_mon (g : grammar) (stride : N) (cases : list case_t) : list (N * bool * option bool) :=
  let tpl := templates g in let risky := risky_kinds g (scope g) in
  map (fun c => let '(l, rx, s, e) := snd (fst c) in
                (fst (fst c), forallb (tok_ok_with tpl risky) l,
                 if fst (fst c) mod stride =? 0 then Some (prune_diff_args g (snd (fst c)) (snd c)) else None)) cases.

(** ids of the recorded parses whose tokens do not satisfy the premise (a code token that carries the kind
    of a NodeMatcher in scope: numeric literals, see notes/C13.md) *)
Definition toks_ok_failures (mon : list (N * bool * option bool)) : list N :=
  map (fun r => fst (fst r)) (filter (fun r => negb (snd (fst r))) mon).
(** ids of the recorded parses on which the pruned and the unpruned interpreter differ *)
Definition is_true (o : option bool) : bool := match o with Some true => true | _ => false end.
Definition prune_diff_failures (mon : list (N * bool * option bool)) : list N :=
  map (fun r => fst (fst r)) (filter (fun r => is_true (snd r)) mon).
(** ids of the parses on which the reference twin was run *)
Definition prune_diff_checked (mon : list (N * bool * option bool)) : list N :=
  map (fun r => fst (fst r)) (filter (fun r => match snd r with Some _ => true | None => false end) mon).
(** ... among the parses the theorem speaks about: expected [] (it is a theorem) *)
Definition prune_thm_failures (mon : list (N * bool * option bool)) : list N :=
  map (fun r => fst (fst r)) (filter (fun r => snd (fst r) && is_true (snd r)) mon).

(** all of it as one list for the replay (bin/propcfg/cpem.py decodes): [4 * id + 1] = premise fails,
    [4 * id + 2] = reference twin run, [4 * id + 3] = ... and it differs from the real parser's result *)
Definition prune_mon_codes (g : grammar) (stride : N) (cases : list case_t) : list N :=
  flat_map (fun r : N * bool * option bool =>
                     let id := fst (fst r) in
                     (if snd (fst r) then [] else [4 * id + 1])
                     ++ match snd r with
                        | Some b => (4 * id + 2) :: (if b then [4 * id + 3] else [])
                        | None => []
                        end) (prune_mon g stride cases).

From Sq Require Import Pem.WfExamples Pem.PruneEx.
Example ex_toks_ok_b :
  toks_ok_b g_ex [cm; ct 14; ws] = true /\ toks_ok_b g_kind [ct 14] = false
  /\ prune_diff_args g_kind ([ct 14], [], 0, 1) (parse_root g_kind (toks_of_list [ct 14]) [] pem_fuel 0 1) = true
  /\ prune_diff_args g_ex ([ct 14], [], 0, 1) (parse_root g_ex (toks_of_list [ct 14]) [] pem_fuel 0 1) = false.
Proof. vm_compute. auto. Qed.
