(** The premise [start_ok] of the panic-freedom theorem ([Pem.NoPanic]) as a boolean, so that it can be
    evaluated on recorded token arrays: [start_ok_b g toks s = true -> start_ok g toks s].  The Pem
    replay (bin/propcfg/cpem.py) evaluates [start_ok_failures] on every recorded real parse: the
    blocking monitored hypothesis [H_start_ok]. *)
From Coq Require Import FMapPositive Lia.
From Sq Require Import Base.Bytes Apply.Model Pem.Model Pem.Proofs Pem.NoPanicCert Pem.NoPanic Pem.WfRoot Corr.Pem.

Local Open Scope N_scope.

(** every raw of a keyword-like first-token hint of the graph (no types, all raws alphabetic) *)
Definition kw_raws (g : grammar) : list N :=
  flat_map (fun p => match n_simple (snd p) with
                     | Some (raws, [], true) => raws
                     | _ => []
                     end) (PositiveMap.elements (g_nodes g)).

Definition kw_raw_free_b (g : grammar) (r : N) : bool := negb (memN r (kw_raws g)).

Definition tok0_ok_b (g : grammar) (toks : PositiveMap.t ptok) : bool :=
  match get toks 0 with
  | None => true
  | Some t0 =>
      negb (p_meta t0)
      && (match p_fnw t0 with Some r => r =? p_ftr t0 | None => false end || kw_raw_free_b g (p_ftr t0))
  end.

Definition start_ok_b (g : grammar) (toks : PositiveMap.t ptok) (s : N) : bool := (0 <? s) || tok0_ok_b g toks.

Lemma memN_in x l : memN x l = true <-> In x l.
Proof.
  unfold memN. rewrite existsb_exists. split.
  - intros (y & Hy & E). apply N.eqb_eq in E. subst. exact Hy.
  - intro H. exists x. split; [exact H|apply N.eqb_refl].
Qed.

Lemma kw_raw_free_sound g r : kw_raw_free_b g r = true -> kw_raw_free g r.
Proof.
  unfold kw_raw_free_b, kw_raw_free. intros H c raws a Hs Ha. subst a.
  apply negb_true_iff in H. destruct (memN r raws) eqn:E; [|reflexivity]. exfalso.
  assert (Hin : memN r (kw_raws g) = true); [|congruence].
  apply memN_in. apply memN_in in E. unfold kw_raws. apply in_flat_map.
  unfold simple_of, info, get in Hs.
  destruct (PositiveMap.find (key c) (g_nodes g)) as [i|] eqn:Ei; cbn [bind] in Hs; [|discriminate].
  exists (key c, i). split; [apply PositiveMap.elements_correct; exact Ei|].
  cbn [snd]. inversion Hs as [Hn]. rewrite Hn. exact E.
Qed.

Lemma tok0_ok_sound g toks : tok0_ok_b g toks = true -> tok0_ok g toks.
Proof.
  unfold tok0_ok_b, tok0_ok. intros H t0 Ht. rewrite Ht in H.
  apply andb_true_iff in H as [H1 H2]. apply negb_true_iff in H1. split; [exact H1|].
  apply orb_true_iff in H2 as [H2|H2].
  - left. destruct (p_fnw t0) as [r|]; [|discriminate]. apply N.eqb_eq in H2. subst. reflexivity.
  - right. apply kw_raw_free_sound. exact H2.
Qed.

Theorem start_ok_b_sound g toks s : start_ok_b g toks s = true -> start_ok g toks s.
Proof.
  unfold start_ok_b, start_ok. intro H. apply orb_true_iff in H as [H|H].
  - left. apply N.ltb_lt. exact H.
  - right. apply tok0_ok_sound. exact H.
Qed.

(** the theorem in the form the monitor checks: token lists, the boolean premise *)
Theorem parse_never_panics_mon g : panic_safe_b g = true -> pem_closed_b g = true ->
  forall l rx fuel s e p,
    s <= e -> e <= N.of_nat (length l) -> start_ok_b g (toks_of_list l) s = true ->
    parse_root g (toks_of_list l) rx fuel s e <> RPanic p.
Proof.
  intros H1 H2 l rx fuel s e p Hs He Hb.
  exact (parse_never_panics g H1 H2 _ _ rx fuel s e p (toks_def_of_list l) Hs He (start_ok_b_sound _ _ _ Hb)).
Qed.

Theorem parse_panics_only_dangling_mon g : panic_safe_b g = true ->
  forall l rx fuel s e p,
    s <= e -> e <= N.of_nat (length l) -> start_ok_b g (toks_of_list l) s = true ->
    parse_root g (toks_of_list l) rx fuel s e = RPanic p -> exists n, p = PDangling n /\ dangling_b g n = true.
Proof.
  intros H1 l rx fuel s e p Hs He Hb.
  exact (parse_panics_only_dangling_safe g H1 _ _ rx fuel s e p (toks_def_of_list l) Hs He (start_ok_b_sound _ _ _ Hb)).
Qed.

(* ------------------------------------------------------------------ the monitor on recorded Pem cases *)
(** all premises of [parse_never_panics_mon] that concern the input, on one recorded parse *)
Definition start_ok_args (g : grammar) (a : args_t) : bool :=
  let '(l, rx, s, e) := a in
  (s <=? e) && (e <=? N.of_nat (length l)) && start_ok_b g (toks_of_list l) s.

(** ids of the recorded cases on which they do not hold - expected [] *)
Definition start_ok_failures (g : grammar) (cases : list case_t) : list N :=
  map (fun c => fst (fst c)) (filter (fun c => negb (start_ok_args g (snd (fst c)))) cases).

(** non-vacuity: the boolean accepts an ordinary first code token and rejects the witness of
    [Pem.NoPanicEx.first_token_needed] *)
From Sq Require Import Pem.WfExamples Pem.NoPanicEx.
Example ex_start_ok_b :
  start_ok_b g_kw (toks_of_list [pt 12; ws; pt 15]) 0 = true
  /\ start_ok_b g_kw (toks_of_list [pt 15]) 0 = true         (* a keyword as first token: both views agree *)
  /\ start_ok_b g_kw (toks_of_list [t_split]) 0 = false
  /\ start_ok_b g_kw (toks_of_list [t_meta; pt 15]) 0 = false
  /\ start_ok_b g_kw (toks_of_list [t_meta; pt 15]) 1 = true.
Proof. vm_compute. auto. Qed.
