(** Panic-freedom of the parser-engine interpreter.

    For every grammar graph with a certificate accepted by [cert_ok_b] ([Pem.NoPanicCert]; the
    decidable [panic_safe_b] uses the computed least certificate), every token array defined
    below [ntoks], regex oracle, fuel and start/end indices [s <= e <= ntoks]: the interpreter never
    answers [RPanic p] unless [p = PDangling n] for a node whose reference is missing from the dump
    (the recorded findings of C14) - so on a closed graph it never answers [RPanic] at all.

    One lemma per algorithm of [Pem.Model], by induction on fuel on top of the span bounds of
    [Pem.Bounds]; every [RPanic] site of the interpreter is discharged by a static fact of the
    certificate or by an index bound. *)
From Coq Require Import FMapPositive MSets.MSetPositive Lia SetoidList.
From Sq Require Import Base.Bytes Apply.Model Pem.Model Pem.Proofs Pem.Bounds Pem.WfSafe Pem.Wf Pem.WfRoot Pem.NoPanicCert.

Local Open Scope N_scope.

(** the only abort left: "Grammar refers to ... which was not found" at a grammar node *)
Definition NPr {A} (x : res A) : Prop := forall p, x = RPanic p -> exists n, p = PDangling n.

Lemma np_ok {A} (a : A) : NPr (ROk a).
Proof. intros p H. discriminate. Qed.
Lemma np_err {A} : NPr (@RErr A).
Proof. intros p H. discriminate. Qed.
Lemma np_fuel {A} : NPr (@RFuel A).
Proof. intros p H. discriminate. Qed.
Lemma np_dang {A} n : NPr (@RPanic A (PDangling n)).
Proof. intros p H. inversion H. eauto. Qed.
Lemma np_eq {A} (x : res A) a : x = ROk a -> NPr x.
Proof. intros -> p H. discriminate. Qed.
Lemma np_bind {A C} (x : res A) (f : A -> res C) :
  NPr x -> (forall a, x = ROk a -> NPr (f a)) -> NPr (bind x f).
Proof.
  intros Hx Hf. destruct x as [a| |p|]; cbn.
  - apply Hf. reflexivity.
  - apply np_err.
  - intros q E. inversion E; subst. apply Hx. reflexivity.
  - apply np_fuel.
Qed.
Lemma np_retype {A C} p : NPr (@RPanic A p) -> NPr (@RPanic C p).
Proof. intros H q E. inversion E; subst. apply H. reflexivity. Qed.

Lemma has_match_empty i : has_match (empty_at i) = false.
Proof. unfold has_match, empty_at. cbn. rewrite N.eqb_refl. reflexivity. Qed.

Lemma is_empty_nil {A} (l : list A) : is_empty l = true -> l = [].
Proof. destruct l; [reflexivity|discriminate]. Qed.

(* ------------------------------------------------------------------ lists of matchers *)
Section Lists.
  Variable g : grammar.

  Lemma meq_refl a : meq g a a = true.
  Proof. unfold meq. rewrite N.eqb_refl. reflexivity. Qed.
  Lemma mcontains_in l x : In x l -> mcontains g l x = true.
  Proof.
    unfold mcontains. intro H. apply existsb_exists. exists x. split; [exact H|apply meq_refl].
  Qed.
  Lemma mposition_some l x : mcontains g l x = true -> exists i, mposition g l x = Some i.
  Proof.
    induction l as [|y l IH]; cbn; [discriminate|].
    destruct (meq g y x); cbn; [eauto|]. intro H. destruct (IH H) as [i ->]. cbn. eauto.
  Qed.
  Lemma mposition_lt l : forall x i, mposition g l x = Some i -> i < N.of_nat (length l).
  Proof.
    induction l as [|y l IH]; intros x i; cbn [mposition length]; [discriminate|].
    destruct (meq g y x); [intro H; inversion H; lia|].
    destruct (mposition g l x) as [j|] eqn:E; cbn; [|discriminate].
    intro H. inversion H; subst. specialize (IH _ _ E). lia.
  Qed.
  Lemma nth_bool_some (l : list bool) : forall i, i < N.of_nat (length l) -> exists b, nth_bool l i = Some b.
  Proof.
    induction l as [|b l IH]; intros i Hi; cbn [nth_bool length] in *; [lia|].
    destruct (i =? 0) eqn:E; [eauto|]. apply N.eqb_neq in E. apply IH. lia.
  Qed.

  Lemma push_dedupe_in push : forall terms x, In x (push_dedupe g terms push) -> In x terms \/ In x push.
  Proof.
    induction push as [|t push IH]; intros terms x H; cbn [push_dedupe] in H; [auto|].
    destruct (mcontains g terms t).
    - destruct (IH _ _ H); [auto|right; right; assumption].
    - destruct (IH _ _ H) as [H1|H1]; [|right; right; assumption].
      apply in_app_or in H1 as [H1|[H1|[]]]; [auto|subst; right; left; reflexivity].
  Qed.
  Lemma deeper_in clear push terms x :
    In x (deeper g clear push terms) -> In x push \/ (clear = false /\ In x terms).
  Proof.
    unfold deeper. destruct clear; cbn [andb].
    - destruct terms as [|t terms]; cbn [is_empty negb].
      + intro H. apply push_dedupe_in in H as [[]|H]. auto.
      + auto.
    - intro H. apply push_dedupe_in in H as [H|H]; auto.
  Qed.
End Lists.

(* ------------------------------------------------------------------ token array *)
Section NoPanic.
  Variable g : grammar.
  Variable toks : PositiveMap.t ptok.
  Variable rx : list (N * N).
  Variable ntoks : N.
  Hypothesis TD : forall i, i < ntoks -> exists t, get toks i = Some t.

  Lemma tok_def len i : i < len -> len <= ntoks -> exists t, tok toks len i = ROk t.
  Proof.
    intros Hi Hl. unfold tok. assert (E : (i <? len) = true) by (apply N.ltb_lt; exact Hi). rewrite E.
    destruct (TD i) as [t Ht]; [lia|]. rewrite Ht. eauto.
  Qed.
  Lemma tok_np len i : i < len -> len <= ntoks -> NPr (tok toks len i).
  Proof. intros Hi Hl. destruct (tok_def len i Hi Hl) as [t Ht]. eapply np_eq. exact Ht. Qed.

  Lemma skip_fwd_aux_np n : forall len idx mx, mx <= len -> len <= ntoks -> NPr (skip_fwd_aux toks n len idx mx).
  Proof.
    induction n as [|n IH]; intros len idx mx Hm Hl; cbn [skip_fwd_aux]; [apply np_ok|].
    destruct (idx <? mx) eqn:E; [|apply np_ok]. b2p.
    apply np_bind; [apply tok_np; lia|]. intros t _. destruct (p_code t); [apply np_ok|]. apply IH; assumption.
  Qed.
  Lemma skip_fwd_np len idx mx : mx <= len -> len <= ntoks -> NPr (skip_fwd toks len idx mx).
  Proof. apply skip_fwd_aux_np. Qed.

  Lemma skip_back_aux_np n : forall len idx mn, idx <= len -> len <= ntoks -> NPr (skip_back_aux toks n len idx mn).
  Proof.
    induction n as [|n IH]; intros len idx mn Hm Hl; cbn [skip_back_aux]; [apply np_ok|].
    destruct (mn <? idx) eqn:E; [|apply np_ok]. b2p.
    apply np_bind; [apply tok_np; lia|]. intros t _. destruct (p_code t); [apply np_ok|]. apply IH; lia.
  Qed.
  Lemma skip_back_np len idx mn : idx <= len -> len <= ntoks -> NPr (skip_back toks len idx mn).
  Proof. apply skip_back_aux_np. Qed.

  Lemma all_noncode_aux_np n : forall len a b, b <= len -> len <= ntoks -> NPr (all_noncode_aux toks n len a b).
  Proof.
    induction n as [|n IH]; intros len a b Hb Hl; cbn [all_noncode_aux]; [apply np_ok|].
    destruct (a <? b) eqn:E; [|apply np_ok]. b2p.
    apply np_bind; [apply tok_np; lia|]. intros t _. destruct (p_code t); [apply np_ok|]. apply IH; assumption.
  Qed.
  Lemma all_noncode_np len a b : a <= b -> b <= len -> len <= ntoks -> NPr (all_noncode toks len a b).
  Proof.
    intros Ha Hb Hl. unfold all_noncode.
    assert (E : ((a <=? b) && (b <=? len)) = true)
      by (apply andb_true_iff; split; apply N.leb_le; assumption).
    rewrite E. apply all_noncode_aux_np; assumption.
  Qed.

  Lemma noncode_scan_np n : forall len i, len <= ntoks -> NPr (noncode_scan toks n len i).
  Proof.
    induction n as [|n IH]; intros len i Hl; cbn [noncode_scan]; [apply np_ok|].
    destruct (i <? len) eqn:E; [|apply np_ok]. b2p.
    apply np_bind; [apply tok_np; lia|]. intros t _. destruct (p_code t); [apply np_ok|]. apply IH; assumption.
  Qed.

  (** the keyword-terminator guard never reaches [segments[0 - 1]] when it starts high enough ... *)
  Lemma allowable_scan_np n : forall len i dflt,
    N.of_nat n <= i -> i <= len -> len <= ntoks -> NPr (allowable_scan g toks n len i dflt).
  Proof.
    induction n as [|n IH]; intros len i dflt Hn Hi Hl; cbn [allowable_scan]; [apply np_ok|].
    destruct (i =? 0) eqn:E; b2p; [lia|].
    apply np_bind; [apply tok_np; lia|]. intros t _. destruct (p_meta t); [|apply np_ok]. apply IH; lia.
  Qed.
  (** ... or when the first token of the array is not a meta *)
  Lemma allowable_scan_np0 n : forall len i dflt,
    (forall t0, get toks 0 = Some t0 -> p_meta t0 = false) ->
    0 < i -> i <= len -> len <= ntoks -> NPr (allowable_scan g toks n len i dflt).
  Proof.
    induction n as [|n IH]; intros len i dflt H0 Hn Hi Hl; cbn [allowable_scan]; [apply np_ok|].
    destruct (i =? 0) eqn:E; b2p; [lia|].
    apply np_bind; [apply tok_np; lia|]. intros t Ht. destruct (p_meta t) eqn:Em; [|apply np_ok].
    apply IH; [exact H0| |lia|exact Hl].
    destruct (N.eq_dec (i - 1) 0) as [Ez|Ez]; [|lia].
    apply tok_get in Ht as [_ Ht]. rewrite Ez in Ht. rewrite (H0 _ Ht) in Em. discriminate.
  Qed.

  (* ---------------------------------------------------------------- what the certificate gives *)
  Variable cx : cert.
  Hypothesis Hcert : cert_ok_b g cx = true.

  Definition inT (t : N) (T : tset) : Prop := PS.In (key t) T.
  Definition Sub (terms : list N) (T : tset) : Prop := forall t, In t terms -> inT t T.
  (** node [c] may be invoked with the context terminators [terms] *)
  Definition Callable (c : N) (terms : list N) : Prop :=
    exists Tc, PositiveMap.find (key c) cx = Some Tc /\ Sub terms Tc.
  Definition CallAll (ms terms : list N) : Prop := forall c, In c ms -> Callable c terms.
  Definition SimpleAll (ms : list N) : Prop := forall c, In c ms -> has_simple_b g c = true.
  Definition CkeyAll (ms : list N) : Prop := forall c, In c ms -> has_ckey_b g c = true.

  Lemma key_pred k : key (Pos.pred_N k) = k.
  Proof. unfold key. pose proof (N.succ_pos_spec (Pos.pred_N k)) as H. rewrite N.succ_pos_pred in H. injection H as H. exact H. Qed.
  Lemma pred_key t : Pos.pred_N (key t) = t.
  Proof. apply N.pos_pred_succ. Qed.

  Lemma members_in t T : inT t T -> In t (members T).
  Proof.
    unfold inT, members. intro H. apply PS.elements_spec1 in H. apply InA_alt in H as (y & Hy & Hin).
    assert (Ey : y = key t) by (symmetry; exact Hy). subst y. rewrite <- (pred_key t). apply in_map. exact Hin.
  Qed.
  Lemma adds_in l : forall T t, inT t (adds l T) <-> In t l \/ inT t T.
  Proof.
    unfold adds, inT. induction l as [|x l IH]; intros T t; cbn [fold_left].
    - split; [auto|intros [[]|H]; exact H].
    - rewrite IH. rewrite PS.add_spec. split.
      + intros [H|[H|H]]; [left; right; exact H| |right; exact H].
        left. left. unfold key in H. apply (f_equal Pos.pred_N) in H. rewrite !N.pos_pred_succ in H. auto.
      + intros [[H|H]|H]; [subst; right; left; reflexivity|left; exact H|right; right; exact H].
  Qed.

  Lemma cert_parts :
    brackets_closed_b g = true
    /\ forallb (fun b => has_simple_b g b && negb (kwlike_b g b)) (brk g) = true
    /\ (exists r, g_root g = Some r /\ flows_b cx (r, PS.empty) = true /\ eof_safe_b g ref_depth r = true)
    /\ forallb (entry_ok_b g cx) (PositiveMap.elements cx) = true.
  Proof.
    unfold cert_ok_b in Hcert. apply andb_true_iff in Hcert as [H H4]. apply andb_true_iff in H as [H H3].
    apply andb_true_iff in H as [H1 H2]. repeat split; try assumption.
    destruct (g_root g) as [r|]; [|discriminate]. apply andb_true_iff in H3 as [Ha Hb]. eauto.
  Qed.

  Lemma cert_entry n T : PositiveMap.find (key n) cx = Some T ->
    exists i, get (g_nodes g) n = Some i /\ local_ok g i T = true
              /\ forall e, In e (edges g i T) -> flows_b cx e = true.
  Proof.
    intro H. destruct cert_parts as (_ & _ & _ & Hall). rewrite forallb_forall in Hall.
    apply PositiveMap.elements_correct in H. specialize (Hall _ H). unfold entry_ok_b in Hall. cbn [fst snd] in Hall.
    unfold get. destruct (PositiveMap.find (key n) (g_nodes g)) as [i|]; [|discriminate].
    apply andb_true_iff in Hall as [Ha Hb]. rewrite forallb_forall in Hb. eauto.
  Qed.

  Lemma flows_callable c S terms : flows_b cx (c, S) = true -> Sub terms S -> Callable c terms.
  Proof.
    unfold flows_b. cbn [fst snd]. intros H Hs. destruct (PositiveMap.find (key c) cx) as [Tc|] eqn:E; [|discriminate].
    exists Tc. split; [exact E|]. apply PS.subset_spec in H. intros t Ht. apply H. apply Hs. exact Ht.
  Qed.

  Lemma callable_present c terms : Callable c terms -> exists i, get (g_nodes g) c = Some i.
  Proof. intros (Tc & H & _). destruct (cert_entry _ _ H) as (i & Hi & _). eauto. Qed.

  Lemma callable_weaken c terms terms' : (forall t, In t terms' -> In t terms) -> Callable c terms -> Callable c terms'.
  Proof. intros H (Tc & H1 & H2). exists Tc. split; [exact H1|]. intros t Ht. apply H2. apply H. exact Ht. Qed.

  Lemma info_present c i : get (g_nodes g) c = Some i -> info g c = ROk i.
  Proof. unfold info. intros ->. reflexivity. Qed.

  Lemma simple_of_present c i : get (g_nodes g) c = Some i -> simple_of g c = ROk (n_simple i).
  Proof. unfold simple_of. intro H. rewrite (info_present _ _ H). reflexivity. Qed.
  Lemma has_simple_of c : has_simple_b g c = true -> exists r, simple_of g c = ROk (Some r).
  Proof.
    unfold has_simple_b. destruct (get (g_nodes g) c) as [i|] eqn:E; [|discriminate].
    rewrite (simple_of_present _ _ E). destruct (n_simple i) as [r|]; [eauto|discriminate].
  Qed.
  Lemma has_ckey_of c : has_ckey_b g c = true -> exists k, ckey_of g c = ROk k.
  Proof.
    unfold has_ckey_b, ckey_of. destruct (get (g_nodes g) c) as [i|] eqn:E; [|discriminate].
    rewrite (info_present _ _ E). cbn. destruct (n_ckey i) as [k|]; [eauto|discriminate].
  Qed.

  (** the bracket set *)
  Lemma resolve_refs_brk (f : option N * option N * bool -> option N) :
    (forall b, f b = fst (fst b)) \/ (forall b, f b = snd (fst b)) ->
    exists l, resolve_refs (map f (g_brackets g)) = ROk l
              /\ length l = length (g_brackets g) /\ forall x, In x l -> In x (brk g).
  Proof.
    intro Hf. destruct cert_parts as (Hb & _). unfold brackets_closed_b in Hb.
    apply andb_true_iff in Hb as [Hb _]. rewrite forallb_forall in Hb. unfold brk.
    induction (g_brackets g) as [|b bs IH]; cbn [map resolve_refs length flat_map].
    - exists []. repeat split. intros x [].
    - destruct IH as (l & Hl & Hlen & Hin); [intros x Hx; apply Hb; right; exact Hx|].
      specialize (Hb b (or_introl eq_refl)). apply andb_true_iff in Hb as [H1 H2].
      destruct b as [[s0 e0] p0]. cbn [fst snd] in *.
      destruct s0 as [s0|]; [|discriminate]. destruct e0 as [e0|]; [|discriminate].
      assert (Hfb : exists y, f (Some s0, Some e0, p0) = Some y /\ (y = s0 \/ y = e0)).
      { destruct Hf as [Hf|Hf]; rewrite Hf; cbn; eauto. }
      destruct Hfb as (y & -> & Hy). rewrite Hl. cbn [bind]. exists (y :: l). repeat split.
      + cbn. rewrite Hlen. reflexivity.
      + intros x [Hx|Hx].
        * subst x. cbn [opt_list app]. destruct Hy; subst; [left; reflexivity|right; left; reflexivity].
        * cbn [opt_list app]. right. right. apply Hin. exact Hx.
  Qed.

  Lemma brk_simple b : In b (brk g) -> has_simple_b g b = true /\ kwlike_b g b = false.
  Proof.
    intro H. destruct cert_parts as (_ & Hb & _). rewrite forallb_forall in Hb. specialize (Hb _ H).
    apply andb_true_iff in Hb as [H1 H2]. apply negb_true_iff in H2. auto.
  Qed.

  (* ---------------------------------------------------------------- the first token *)
  (** [greedy_match] indexes [segments[idx - 1]] in its keyword-terminator guard.  At [idx = 0] that
      is out of range; the engine only gets there when a keyword terminator matches at the very
      first token although [trim_to_terminator] has just tried the pruned terminators there, i.e.
      when pruning ([first_non_whitespace]) and [next_match] ([first_trimmed_raw]) disagree on the
      first token.  [tok0_ok]: the first token of the array is not a meta and both views of its raw
      coincide ([first_trimmed_raw] cuts at inner white space: they differ on a quoted first token
      with a blank in it) or its trimmed raw is no keyword hint of the graph.  Only needed when
      parsing starts at index 0. *)
  Definition kw_raw_free (r : N) : Prop :=
    forall c raws a, simple_of g c = ROk (Some (raws, [], a)) -> a = true -> memN r raws = false.
  Definition tok0_ok : Prop :=
    forall t0, get toks 0 = Some t0 ->
      p_meta t0 = false /\ (p_fnw t0 = Some (p_ftr t0) \/ kw_raw_free (p_ftr t0)).
  Definition Tok0 (i : N) : Prop := 0 < i \/ tok0_ok.
  Lemma Tok0_le i j : i <= j -> Tok0 i -> Tok0 j.
  Proof. intros H [H0|H0]; [left; lia|right; exact H0]. Qed.

  (* ---------------------------------------------------------------- with the recursive matcher *)
  Section WithRec.
    Variable rec : N -> N -> N -> list N -> res mr.
    Hypothesis HrecB : forall n i l t m, i <= l -> rec n i l t = ROk m -> B i l m.
    Hypothesis HrecNP : forall n i l t, i < l -> l <= ntoks -> Tok0 i -> Callable n t -> NPr (rec n i l t).
    Hypothesis Hcode : forall nd i l t m,
      code1_b g ref_depth nd = true -> rec nd i l t = ROk m -> Code1 toks i l m.

    Lemma any_matches_np ts : forall i len terms,
      i < len -> len <= ntoks -> Tok0 i -> CallAll ts terms -> NPr (any_matches rec ts i len terms).
    Proof.
      induction ts as [|t ts IH]; intros i len terms Hi Hl H0 Hc; cbn [any_matches]; [apply np_ok|].
      apply np_bind; [apply HrecNP; auto; apply Hc; left; reflexivity|].
      intros m _. destruct (has_match m); [apply np_ok|]. apply IH; auto. intros c Hin. apply Hc. right. exact Hin.
    Qed.
    Lemma first_term_matches_np ts : forall i len terms,
      i < len -> len <= ntoks -> Tok0 i -> CallAll ts terms -> NPr (first_term_matches rec ts i len terms).
    Proof.
      induction ts as [|t ts IH]; intros i len terms Hi Hl H0 Hc; cbn [first_term_matches]; [apply np_ok|].
      apply np_bind; [apply HrecNP; auto; apply Hc; left; reflexivity|].
      intros m _. destruct (has_match m); [apply np_ok|]. apply IH; auto. intros c Hin. apply Hc. right. exact Hin.
    Qed.
    Lemma first_matching_np cs : forall i len terms,
      i < len -> len <= ntoks -> Tok0 i -> CallAll cs terms -> NPr (first_matching rec cs i len terms).
    Proof.
      induction cs as [|t ts IH]; intros i len terms Hi Hl H0 Hc; cbn [first_matching]; [apply np_ok|].
      apply np_bind; [apply HrecNP; auto; apply Hc; left; reflexivity|].
      intros m _. destruct (has_match m); [apply np_ok|]. apply IH; auto. intros c Hin. apply Hc. right. exact Hin.
    Qed.
    (** what a hit of [first_matching] is *)
    Lemma first_matching_res cs : forall i len terms r c,
      first_matching rec cs i len terms = ROk (Some (r, c)) ->
      In c cs /\ rec c i len terms = ROk r /\ has_match r = true.
    Proof.
      induction cs as [|c0 cs IH]; intros i len terms r c H; cbn [first_matching] in H; [discriminate|].
      inv_bind H. destruct (has_match a) eqn:E.
      - inversion H; subst. repeat split; [left; reflexivity|assumption|assumption].
      - apply IH in H as (H1 & H2 & H3). repeat split; [right; assumption|assumption|assumption].
    Qed.
    (** a miss of [first_term_matches] means every terminator answered without a match *)
    Lemma first_term_matches_false ts : forall i len terms c,
      first_term_matches rec ts i len terms = ROk false -> In c ts ->
      exists m, rec c i len terms = ROk m /\ has_match m = false.
    Proof.
      induction ts as [|t ts IH]; intros i len terms c H Hin; cbn [first_term_matches] in H; [destruct Hin|].
      inv_bind H. destruct (has_match a) eqn:E; [discriminate|].
      destruct Hin as [->|Hin]; [eauto|]. eapply IH; eassumption.
    Qed.

    (* -------------------------------------------------------------- pruning *)
    Definition PresentAll (ms : list N) : Prop := forall c, In c ms -> exists i, get (g_nodes g) c = Some i.
    Lemma callall_present ms terms : CallAll ms terms -> PresentAll ms.
    Proof. intros H c Hc. eapply callable_present. apply H. exact Hc. Qed.

    Lemma prune_aux_total r tys opts : PresentAll opts ->
      exists l, prune_aux g r tys opts = ROk l /\ (forall c, In c l -> In c opts)
                /\ (forall c raws tys' a, In c opts -> simple_of g c = ROk (Some (raws, tys', a)) ->
                                        memN r raws = true -> In c l).
    Proof.
      induction opts as [|o opts IH]; intro Hp; cbn [prune_aux].
      - exists []. split; [reflexivity|]. split; [auto|]. intros c raws tys' a [].
      - destruct (Hp o (or_introl eq_refl)) as [io Hio]. rewrite (simple_of_present _ _ Hio). cbn [bind].
        destruct IH as (l & -> & Hin & Hkeep); [intros c Hc; apply Hp; right; exact Hc|]. cbn [bind].
        destruct (n_simple io) as [[[raws0 tys0] a0]|] eqn:Es.
        + destruct (memN r raws0 || intersects tys tys0) eqn:Ek.
          * exists (o :: l). split; [reflexivity|]. split.
            -- intros c [->|Hc]; [left; reflexivity|right; apply Hin; exact Hc].
            -- intros c raws tys' a [->|Hc] Hs Hm; [left; reflexivity|right; eapply Hkeep; eassumption].
          * exists l. split; [reflexivity|]. split.
            -- intros c Hc. right. apply Hin. exact Hc.
            -- intros c raws tys' a [->|Hc] Hs Hm; [|eapply Hkeep; eassumption].
               rewrite (simple_of_present _ _ Hio), Es in Hs. inversion Hs; subst.
               rewrite Hm in Ek. discriminate.
        + exists (o :: l). split; [reflexivity|]. split.
          * intros c [->|Hc]; [left; reflexivity|right; apply Hin; exact Hc].
          * intros c raws tys' a [->|Hc] Hs Hm; [left; reflexivity|right; eapply Hkeep; eassumption].
    Qed.
    Lemma prune_total opts len idx : PresentAll opts ->
      exists l, prune g toks opts len idx = ROk l /\ (forall c, In c l -> In c opts).
    Proof.
      intro Hp. unfold prune. destruct (first_nonws toks len idx) as [[r tys]|].
      - destruct (prune_aux_total r tys opts Hp) as (l & Hl & Hin & _). eauto.
      - exists opts. auto.
    Qed.

    (* -------------------------------------------------------------- longest_match *)
    Lemma longest_loop_np opts : forall idx len terms best bm,
      idx < len -> len <= ntoks -> Tok0 idx -> B idx len best ->
      CkeyAll opts -> CallAll opts terms -> CallAll terms terms ->
      NPr (longest_loop g toks rec opts idx len terms best bm).
    Proof.
      induction opts as [|o opts IH]; intros idx len terms best bm Hi Hl H0 Hb Hk Hc Ht; cbn [longest_loop]; [apply np_ok|].
      destruct (has_ckey_of o (Hk o (or_introl eq_refl))) as [k ->]. cbn [bind].
      apply np_bind; [apply HrecNP; auto; apply Hc; left; reflexivity|]. intros r Hr.
      assert (Hrb : B idx len r) by (eapply HrecB; [|exact Hr]; lia).
      assert (IH' : forall b' bm', B idx len b' -> NPr (longest_loop g toks rec opts idx len terms b' bm')).
      { intros b' bm' Hb'. apply IH; auto; intros c Hin; [apply Hk|apply Hc]; right; exact Hin. }
      destruct (has_match r && (mr_end r =? len)); [apply np_ok|].
      destruct (mlen best <? mlen r); [|apply IH'; exact Hb].
      destruct (is_empty opts); [apply np_ok|].
      destruct (negb (is_empty terms)); [|apply IH'; exact Hrb].
      destruct Hrb as (R1 & R2 & R3).
      apply np_bind; [apply skip_fwd_np; lia|]. intros nc Hnc.
      apply skip_fwd_spec in Hnc as [N1 N2].
      destruct (nc =? len) eqn:E; [apply np_ok|]. b2p.
      apply np_bind; [apply any_matches_np; auto; [lia|eapply Tok0_le; [|exact H0]; lia]|].
      intros stop _. destruct stop; [apply np_ok|]. apply IH'. unfold B. lia.
    Qed.

    Lemma longest_loop_res opts : forall idx len terms best bm m o,
      longest_loop g toks rec opts idx len terms best bm = ROk (m, o) ->
      (m = best /\ o = bm) \/ exists x, o = Some x /\ In x opts.
    Proof.
      induction opts as [|op opts IH]; intros idx len terms best bm m o H; cbn [longest_loop] in H.
      - inversion H; auto.
      - inv_bind H. inv_bind H. rename a0 into r.
        assert (Hdone : ROk (r, Some op) = ROk (m, o) -> (m = best /\ o = bm) \/ exists x, o = Some x /\ In x (op :: opts))
          by (intro E; inversion E; subst; right; exists op; split; [reflexivity|left; reflexivity]).
        assert (Hrec' : forall b' bm', (b' = best /\ bm' = bm) \/ bm' = Some op ->
                  longest_loop g toks rec opts idx len terms b' bm' = ROk (m, o) ->
                  (m = best /\ o = bm) \/ exists x, o = Some x /\ In x (op :: opts)).
        { intros b' bm' Hb' E. apply IH in E. destruct E as [[E1 E2]|(x & E1 & Hx)]; subst.
          - destruct Hb' as [[E1 E2]|E1]; subst; [left; auto|right; exists op; split; [reflexivity|left; reflexivity]].
          - right. exists x. split; [reflexivity|right; exact Hx]. }
        destruct (has_match r && (mr_end r =? len)); [auto|].
        destruct (mlen best <? mlen r); [|eapply Hrec'; [left; auto|exact H]].
        destruct (is_empty opts); [auto|].
        destruct (negb (is_empty terms)); [|eapply Hrec'; [right; reflexivity|exact H]].
        inv_bind H. destruct (a0 =? len); [auto|].
        inv_bind H. destruct a1; [auto|]. eapply Hrec'; [right; reflexivity|exact H].
    Qed.

    Lemma longest_match_np len ms idx terms :
      idx <= len -> len <= ntoks -> Tok0 idx ->
      CkeyAll ms -> CallAll ms terms -> CallAll terms terms ->
      NPr (longest_match g toks rec len ms idx terms).
    Proof.
      intros Hi Hl H0 Hk Hc Ht. unfold longest_match.
      destruct (is_empty ms || (idx =? len)) eqn:E; [apply np_ok|].
      apply orb_false_iff in E as [_ E]. b2p.
      destruct (prune_total ms len idx (callall_present _ _ Hc)) as (avail & -> & Hin). cbn [bind].
      destruct (is_empty avail); [apply np_ok|].
      destruct (tok_def len idx) as [t ->]; [lia|exact Hl|]. cbn [bind].
      apply longest_loop_np; auto; try lia.
      - apply B_empty. lia.
      - intros c Hcin. apply Hk. apply Hin. exact Hcin.
      - intros c Hcin. apply Hc. apply Hin. exact Hcin.
    Qed.

    Lemma longest_match_res len ms idx terms m o :
      longest_match g toks rec len ms idx terms = ROk (m, o) -> has_match m = true ->
      exists x, o = Some x /\ In x ms.
    Proof.
      unfold longest_match. intros H Hm.
      destruct (is_empty ms || (idx =? len)); [inversion H; subst; rewrite has_match_empty in Hm; discriminate|].
      inv_bind H. destruct (is_empty a); [inversion H; subst; rewrite has_match_empty in Hm; discriminate|].
      inv_bind H. apply longest_loop_res in H. destruct H as [[E1 E2]|(x & E1 & Hx)]; subst.
      - rewrite has_match_empty in Hm. discriminate.
      - exists x. split; [reflexivity|].
        unfold prune in Ha. destruct (first_nonws toks len idx) as [[r tys]|]; [|inversion Ha; subst; exact Hx].
        assert (Hgen : forall opts l, prune_aux g r tys opts = ROk l -> forall c, In c l -> In c opts).
        { induction opts as [|o0 opts IH]; intros l Hl c Hc; cbn [prune_aux] in Hl; [inversion Hl; subst; exact Hc|].
          inv_bind Hl. inv_bind Hl.
          destruct a1 as [[[raws0 tys0] a00]|].
          - destruct (memN r raws0 || intersects tys tys0); inversion Hl; subst.
            + destruct Hc as [->|Hc]; [left; reflexivity|right; eapply IH; eauto].
            + right. eapply IH; eauto.
          - inversion Hl; subst. destruct Hc as [->|Hc]; [left; reflexivity|right; eapply IH; eauto]. }
        eapply Hgen; eassumption.
    Qed.

    (* -------------------------------------------------------------- next_match *)
    (** [c] is selected by [next_match] at token [t] *)
    Definition cand (c : N) (t : ptok) : Prop :=
      exists raws tys a, simple_of g c = ROk (Some (raws, tys, a))
                         /\ (memN (p_ftr t) raws || intersects (p_types t) tys) = true.

    Lemma nm_check_simple_ok ms : SimpleAll ms -> nm_check_simple g ms = ROk tt.
    Proof.
      induction ms as [|m ms IH]; intro Hs; cbn [nm_check_simple]; [reflexivity|].
      destruct (has_simple_of m (Hs m (or_introl eq_refl))) as [r ->]. cbn [bind].
      apply IH. intros c Hc. apply Hs. right. exact Hc.
    Qed.
    Lemma nm_candidates_total ms t : SimpleAll ms ->
      exists l, nm_candidates g ms t = ROk l /\ forall c, In c l -> In c ms /\ cand c t.
    Proof.
      induction ms as [|m ms IH]; intro Hs; cbn [nm_candidates].
      - exists []. split; [reflexivity|]. intros c [].
      - destruct (has_simple_of m (Hs m (or_introl eq_refl))) as [[[raws tys] a] Hm]. rewrite Hm. cbn [bind].
        destruct IH as (l & -> & Hl); [intros c Hc; apply Hs; right; exact Hc|]. cbn [bind].
        destruct (memN (p_ftr t) raws || intersects (p_types t) tys) eqn:E.
        + exists (m :: l). split; [reflexivity|]. intros c [->|Hc].
          * split; [left; reflexivity|]. exists raws, tys, a. auto.
          * destruct (Hl c Hc). split; [right; assumption|assumption].
        + exists l. split; [reflexivity|]. intros c Hc. destruct (Hl c Hc). split; [right; assumption|assumption].
    Qed.

    Lemma next_match_scan_np n : forall i len ms terms,
      i <= len -> len <= ntoks -> Tok0 i -> SimpleAll ms -> CallAll ms terms ->
      NPr (next_match_scan g toks rec n i len ms terms).
    Proof.
      induction n as [|n IH]; intros i len ms terms Hi Hl H0 Hs Hc; cbn [next_match_scan]; [apply np_ok|].
      destruct (i <? len) eqn:E; [|apply np_ok]. b2p.
      destruct (tok_def len i E Hl) as [t ->]. cbn [bind].
      destruct (nm_candidates_total ms t Hs) as (l & -> & Hlc). cbn [bind].
      apply np_bind; [apply first_matching_np; auto; intros c Hcin; apply Hc; apply Hlc; exact Hcin|].
      intros hit _. destruct hit; [apply np_ok|]. apply IH; auto; [lia|eapply Tok0_le; [|exact H0]; lia].
    Qed.

    (** a hit of [next_match]: matcher [c] of [ms], selected at token [j >= idx], matched there *)
    Definition Hit (len idx : N) (ms terms : list N) (m : mr) (c : N) : Prop :=
      exists j t, idx <= j /\ j < len /\ get toks j = Some t /\ In c ms /\ cand c t
                  /\ rec c j len terms = ROk m /\ has_match m = true.

    Lemma next_match_scan_res n : forall i len ms terms r c,
      SimpleAll ms -> next_match_scan g toks rec n i len ms terms = ROk (Some (r, c)) -> Hit len i ms terms r c.
    Proof.
      induction n as [|n IH]; intros i len ms terms r c Hs H; cbn [next_match_scan] in H; [discriminate|].
      destruct (i <? len) eqn:E; [|discriminate]. b2p.
      inv_bind H. apply tok_get in Ha as [_ Ht].
      destruct (nm_candidates_total ms a Hs) as (l & Hl & Hlc). rewrite Hl in H. cbn [bind] in H.
      inv_bind H. destruct a0 as [[r' c']|].
      - inversion H; subst. apply first_matching_res in Ha as (H1 & H2 & H3).
        destruct (Hlc _ H1) as [H4 H5]. exists i, a. repeat split; auto. lia.
      - apply IH in H; [|exact Hs]. destruct H as (j & t & H1 & H2 & H3). exists j, t. repeat split; try apply H3; lia.
    Qed.

    Lemma next_match_np len idx ms terms :
      idx <= len -> len <= ntoks -> Tok0 idx -> SimpleAll ms -> CallAll ms terms ->
      NPr (next_match g toks rec len idx ms terms).
    Proof.
      intros Hi Hl H0 Hs Hc. unfold next_match. destruct (len <=? idx); [apply np_ok|].
      rewrite (nm_check_simple_ok ms Hs). cbn [bind].
      apply np_bind; [apply next_match_scan_np; auto|]. intros hit _. destruct hit as [[r m]|]; apply np_ok.
    Qed.
    Lemma next_match_res len idx ms terms m o :
      SimpleAll ms -> next_match g toks rec len idx ms terms = ROk (m, o) ->
      (o = None /\ has_match m = false) \/ exists c, o = Some c /\ Hit len idx ms terms m c.
    Proof.
      intros Hs H. unfold next_match in H.
      destruct (len <=? idx); [inversion H; subst; left; split; [reflexivity|apply has_match_empty]|].
      inv_bind H. inv_bind H. destruct a0 as [[r c]|]; inversion H; subst.
      - right. exists c. split; [reflexivity|]. eapply next_match_scan_res; eassumption.
      - left. split; [reflexivity|apply has_match_empty].
    Qed.

    Lemma hit_B len idx ms terms m c : Hit len idx ms terms m c -> B idx len m.
    Proof.
      intros (j & t & H1 & H2 & _ & _ & _ & H3 & _). eapply B_weaken; [exact H1|]. eapply HrecB; [|exact H3]. lia.
    Qed.
    Lemma hit_mono len i j ms terms m c : i <= j -> Hit len j ms terms m c -> Hit len i ms terms m c.
    Proof. intros Hij (k & t & H1 & H2). exists k, t. split; [lia|exact H2]. Qed.

    (* -------------------------------------------------------------- resolve_bracket *)
    Lemma not_mcontains_not_in l x : mcontains g l x = false -> ~ In x l.
    Proof. intros H Hin. rewrite (mcontains_in g l x Hin) in H. discriminate. Qed.

    Lemma rb_loop_np fl : forall len opening ti starts ends pers terms nested mi ch,
      mi <= len -> len <= ntoks -> Tok0 mi ->
      SimpleAll (starts ++ ends) -> CallAll (starts ++ ends) terms ->
      (length starts <= length pers)%nat -> ti < N.of_nat (length pers) ->
      mr_start opening <= mr_end opening -> mr_end opening <= mi ->
      NPr (rb_loop g toks rec fl len opening ti starts ends pers terms nested mi ch).
    Proof.
      induction fl as [|fl IH]; intros len opening ti starts ends pers terms nested mi ch
        Hmi Hl H0 Hs Hc Hlen Hti Ho1 Ho2; cbn [rb_loop]; [apply np_fuel|].
      apply np_bind; [apply next_match_np; auto|]. intros [m mt] Hnm.
      pose proof (next_match_spec g toks rec HrecB _ _ _ _ _ _ Hmi Hnm) as (M1 & M2 & M3).
      apply next_match_res in Hnm; [|exact Hs].
      destruct (negb (has_match m)) eqn:Ehm; [apply np_err|]. apply negb_false_iff in Ehm.
      destruct Hnm as [[_ Hf]|(c & -> & Hhit)]; [congruence|].
      destruct Hhit as (j & t & _ & _ & _ & Hin & _).
      destruct (mcontains g ends c) eqn:Ec.
      - destruct (mposition_some g _ _ Ec) as [ci ->].
        destruct (ci =? ti); [|apply np_err].
        destruct (nth_bool_some pers ti Hti) as [b ->]. destruct b; apply np_ok.
      - apply not_mcontains_not_in in Ec.
        apply in_app_or in Hin as [Hin|Hin]; [|contradiction].
        destruct (mposition_some g _ _ (mcontains_in g _ _ Hin)) as [ti' Hti']. rewrite Hti'.
        apply mposition_lt in Hti'.
        apply np_bind.
        + apply IH; auto; try lia. eapply Tok0_le; [|exact H0]. lia.
        + intros inner Hinner.
          apply (rb_loop_spec g toks rec HrecB) in Hinner; [|lia|lia|lia]. destruct Hinner as (_ & I2 & I3).
          apply IH; auto; try lia. eapply Tok0_le; [|exact H0]. lia.
    Qed.

    Lemma resolve_bracket_np fl len opening opener starts ends pers terms nested :
      mr_end opening <= len -> len <= ntoks -> Tok0 (mr_end opening) ->
      SimpleAll (starts ++ ends) -> CallAll (starts ++ ends) terms ->
      (length starts <= length pers)%nat -> In opener starts ->
      mr_start opening <= mr_end opening ->
      NPr (resolve_bracket g toks rec fl len opening opener starts ends pers terms nested).
    Proof.
      intros Hmi Hl H0 Hs Hc Hlen Hin Ho. unfold resolve_bracket.
      destruct (mposition_some g _ _ (mcontains_in g _ _ Hin)) as [ti Hti]. rewrite Hti.
      apply mposition_lt in Hti. apply rb_loop_np; auto; lia.
    Qed.

    (* -------------------------------------------------------------- next_ex_bracket_match *)
    Lemma neb_loop_np k : forall fl len idx ms starts ends pers terms mi ch,
      mi <= len -> len <= ntoks -> Tok0 mi ->
      SimpleAll (ms ++ starts ++ ends) -> CallAll (ms ++ starts ++ ends) terms ->
      (length starts <= length pers)%nat ->
      NPr (neb_loop g toks rec k fl len idx ms starts ends pers terms mi ch).
    Proof.
      induction k as [|k IH]; intros fl len idx ms starts ends pers terms mi ch Hmi Hl H0 Hs Hc Hlen;
        cbn [neb_loop]; [apply np_fuel|].
      apply np_bind; [apply next_match_np; auto|]. intros [m mt] Hnm.
      pose proof (next_match_spec g toks rec HrecB _ _ _ _ _ _ Hmi Hnm) as (M1 & M2 & M3).
      apply next_match_res in Hnm; [|exact Hs].
      destruct (negb (has_match m)) eqn:Ehm; [apply np_ok|]. apply negb_false_iff in Ehm.
      destruct Hnm as [[_ Hf]|(c & -> & Hhit)]; [congruence|].
      destruct Hhit as (j & t & _ & _ & _ & Hin & _).
      destruct (mcontains g ms c) eqn:Ems; [apply np_ok|].
      destruct (mcontains g ends c) eqn:Ec; [apply np_ok|].
      apply not_mcontains_not_in in Ems, Ec.
      apply in_app_or in Hin as [Hin|Hin]; [contradiction|].
      apply in_app_or in Hin as [Hin|Hin]; [|contradiction].
      assert (Hs' : SimpleAll (starts ++ ends)) by (intros x Hx; apply Hs; apply in_or_app; right; exact Hx).
      assert (Hc' : CallAll (starts ++ ends) terms) by (intros x Hx; apply Hc; apply in_or_app; right; exact Hx).
      apply np_bind.
      - apply resolve_bracket_np; auto; try lia. eapply Tok0_le; [|exact H0]. lia.
      - intros b Hb. apply (resolve_bracket_spec g toks rec HrecB) in Hb; [|lia|lia]. destruct Hb as (_ & B2 & B3).
        apply IH; auto; try lia. eapply Tok0_le; [|exact H0]. lia.
    Qed.

    Lemma neb_loop_res k : forall fl len idx ms starts ends pers terms mi ch m o inner,
      SimpleAll (ms ++ starts ++ ends) -> mi <= len ->
      neb_loop g toks rec k fl len idx ms starts ends pers terms mi ch = ROk (m, o, inner) ->
      has_match m = true -> exists c, o = Some c /\ Hit len mi (ms ++ starts ++ ends) terms m c.
    Proof.
      induction k as [|k IH]; intros fl len idx ms starts ends pers terms mi ch m o inner Hs Hmi H Hm;
        cbn [neb_loop] in H; [discriminate|].
      inv_bind H. destruct a as [m0 mt].
      pose proof (next_match_spec g toks rec HrecB _ _ _ _ _ _ Hmi Ha) as (M1 & M2 & M3).
      apply next_match_res in Ha; [|exact Hs].
      destruct (negb (has_match m0)) eqn:Ehm.
      - inversion H; subst. apply negb_true_iff in Ehm. congruence.
      - apply negb_false_iff in Ehm. destruct Ha as [[_ Hf]|(c & -> & Hhit)]; [congruence|].
        destruct (mcontains g ms c); [inversion H; subst; eauto|].
        destruct (mcontains g ends c); [inversion H; subst; rewrite has_match_empty in Hm; discriminate|].
        inv_bind H. apply (resolve_bracket_spec g toks rec HrecB) in Ha; [|lia|lia]. destruct Ha as (_ & B2 & B3).
        apply IH in H; auto. destruct H as (c' & -> & Hh). exists c'. split; [reflexivity|].
        eapply hit_mono; [|exact Hh]. lia.
    Qed.

    Lemma next_ex_bracket_match_np fl len idx ms terms :
      idx <= len -> len <= ntoks -> Tok0 idx ->
      SimpleAll ms -> CallAll ms terms -> CallAll (brk g) terms ->
      NPr (next_ex_bracket_match g toks rec fl len idx ms terms).
    Proof.
      intros Hi Hl H0 Hs Hc Hb. unfold next_ex_bracket_match. destruct (len <=? idx); [apply np_ok|].
      destruct (resolve_refs_brk (fun b => fst (fst b)) (or_introl (fun b => eq_refl))) as (starts & -> & Ls & Is).
      destruct (resolve_refs_brk (fun b => snd (fst b)) (or_intror (fun b => eq_refl))) as (ends & -> & Le & Ie).
      cbn [bind]. apply neb_loop_np; auto.
      - intros c Hcin. apply in_app_or in Hcin as [Hcin|Hcin]; [apply Hs; exact Hcin|].
        apply in_app_or in Hcin as [Hcin|Hcin]; apply brk_simple; [apply Is|apply Ie]; exact Hcin.
      - intros c Hcin. apply in_app_or in Hcin as [Hcin|Hcin]; [apply Hc; exact Hcin|].
        apply in_app_or in Hcin as [Hcin|Hcin]; apply Hb; [apply Is|apply Ie]; exact Hcin.
      - rewrite map_length, Ls. lia.
    Qed.

    Lemma next_ex_bracket_match_res fl len idx ms terms m o inner :
      SimpleAll ms -> idx <= len ->
      next_ex_bracket_match g toks rec fl len idx ms terms = ROk (m, o, inner) -> has_match m = true ->
      exists c, o = Some c /\ Hit len idx (ms ++ brk g) terms m c.
    Proof.
      intros Hs Hi H Hm. unfold next_ex_bracket_match in H.
      destruct (len <=? idx); [inversion H; subst; rewrite has_match_empty in Hm; discriminate|].
      destruct (resolve_refs_brk (fun b => fst (fst b)) (or_introl (fun b => eq_refl))) as (starts & E1 & Ls & Is).
      destruct (resolve_refs_brk (fun b => snd (fst b)) (or_intror (fun b => eq_refl))) as (ends & E2 & Le & Ie).
      rewrite E1, E2 in H. cbn [bind] in H.
      apply neb_loop_res in H; auto.
      - destruct H as (c & -> & (j & t & H1 & H2 & H3 & H4 & H5)). exists c. split; [reflexivity|].
        exists j, t. repeat split; try apply H5; auto.
        apply in_app_or in H4 as [H4|H4]; apply in_or_app; [left; exact H4|right].
        apply in_app_or in H4 as [H4|H4]; [apply Is|apply Ie]; exact H4.
      - intros c Hcin. apply in_app_or in Hcin as [Hcin|Hcin]; [apply Hs; exact Hcin|].
        apply in_app_or in Hcin as [Hcin|Hcin]; apply brk_simple; [apply Is|apply Ie]; exact Hcin.
    Qed.

    (* -------------------------------------------------------------- greedy_match *)
    Definition NoKw (ms : list N) : Prop := forall c, In c ms -> kwlike_b g c = false.
    (** no keyword-like matcher of [ms] selected at the first token matches there *)
    Definition FirstGuard (len : N) (ms terms : list N) : Prop :=
      forall c t0 m, In c ms -> get toks 0 = Some t0 -> cand c t0 -> kwlike_b g c = true ->
                     rec c 0 len terms = ROk m -> has_match m = false.
    Definition ScanSafe (w len : N) (ms terms : list N) : Prop :=
      0 < w \/ NoKw ms \/ (tok0_ok /\ FirstGuard len ms terms).

    Lemma kwlike_of_simple c raws tys a :
      simple_of g c = ROk (Some (raws, tys, a)) -> kwlike_b g c = is_empty tys && a.
    Proof.
      unfold simple_of, info, kwlike_b. destruct (get (g_nodes g) c) as [i|]; cbn [bind]; [|discriminate].
      intro H. inversion H as [H1]. rewrite H1. reflexivity.
    Qed.

    (** the matcher of a hit at the first token cannot be keyword-like *)
    Lemma scan_start_pos w len ms terms m c :
      ScanSafe w len ms terms -> Hit len w (ms ++ brk g) terms m c -> kwlike_b g c = true -> w = 0 ->
      0 < mr_start m.
    Proof.
      intros Hss (j & t & H1 & H2 & H3 & H4 & H5 & H6 & H7) Hk Hw.
      destruct (N.eq_dec (mr_start m) 0) as [E|E]; [|lia]. exfalso.
      assert (Hj : j = 0) by (pose proof (HrecB _ _ _ _ _ (N.lt_le_incl _ _ H2) H6) as (J1 & _); lia). subst j.
      apply in_app_or in H4 as [H4|H4]; [|destruct (brk_simple _ H4); congruence].
      destruct Hss as [Hss|[Hss|[_ Hss]]]; [lia|rewrite (Hss _ H4) in Hk; discriminate|].
      rewrite (Hss _ _ _ H4 H3 H5 Hk H6) in H7. discriminate.
    Qed.

    Lemma greedy_loop_np k : forall fl len idx ms terms it nested w ch,
      idx <= w -> w <= len -> len <= ntoks -> Tok0 w ->
      SimpleAll ms -> CallAll ms terms -> CallAll (brk g) terms -> ScanSafe w len ms terms ->
      NPr (greedy_loop g toks rec k fl len idx ms terms it nested w ch).
    Proof.
      induction k as [|k IH]; intros fl len idx ms terms it nested w ch Hw Hwl Hl H0 Hs Hc Hb Hss;
        cbn [greedy_loop]; [apply np_fuel|].
      apply np_bind; [apply next_ex_bracket_match_np; auto|]. intros [[matched mt] inner] Hneb.
      pose proof (next_ex_bracket_match_spec g toks rec HrecB _ _ _ _ _ _ _ _ Hwl Hneb) as (M1 & M2 & M3).
      destruct (negb (has_match matched)) eqn:Ehm; [apply np_ok|]. apply negb_false_iff in Ehm.
      apply next_ex_bracket_match_res in Hneb; auto. destruct Hneb as (c & -> & Hhit).
      pose proof Hhit as (j & t & H1 & H2 & H3 & H4 & (raws & tys & a & Hsim & Hcd) & H6 & H7).
      rewrite Hsim. cbn [bind].
      pose proof (kwlike_of_simple _ _ _ _ Hsim) as Hkw.
      assert (Hpos : kwlike_b g c = true -> w = 0 -> 0 < mr_start matched)
        by (intros; eapply scan_start_pos; eassumption).
      apply np_bind.
      - destruct (is_empty tys && a) eqn:Ek; [|apply np_ok].
        destruct (mr_start matched <? w) eqn:Elt; [apply np_ok|]. b2p.
        destruct (N.eq_dec w 0) as [Ew|Ew].
        + specialize (Hpos Hkw Ew).
          destruct H0 as [H0|H0]; [lia|].
          apply allowable_scan_np0; auto; try lia. intros t0 Ht0. apply (H0 t0 Ht0).
        + apply allowable_scan_np; try lia.
      - intros ok Hok. destruct (negb ok) eqn:Eok.
        + apply negb_true_iff in Eok. subst ok.
          assert (Hk' : kwlike_b g c = true).
          { rewrite Hkw. destruct (is_empty tys && a); [reflexivity|]. discriminate. }
          apply IH; auto; try lia.
          * eapply Tok0_le; [|exact H0]. lia.
          * destruct (N.eq_dec w 0) as [Ew|Ew]; [specialize (Hpos Hk' Ew)|]; left; lia.
        + destruct it; [apply np_ok|].
          apply np_bind; [apply skip_back_np; lia|]. intros stop2 _. destruct (idx =? stop2); apply np_ok.
    Qed.

    Lemma greedy_match_np fl len idx ms terms it nested :
      idx <= len -> len <= ntoks -> Tok0 idx ->
      SimpleAll ms -> CallAll ms terms -> CallAll (brk g) terms -> ScanSafe idx len ms terms ->
      NPr (greedy_match g toks rec fl len idx ms terms it nested).
    Proof. intros. unfold greedy_match. apply greedy_loop_np; auto. lia. Qed.

    (* -------------------------------------------------------------- trim_to_terminator *)
    Lemma intersects_nil a : intersects a [] = false.
    Proof. unfold intersects. induction a as [|x a IH]; cbn; [reflexivity|exact IH]. Qed.

    Lemma first_nonws_0 len t0 : 0 < len -> get toks 0 = Some t0 -> p_code t0 = true -> p_fnw t0 = Some (p_ftr t0) ->
      first_nonws toks len 0 = Some (p_ftr t0, p_types t0).
    Proof.
      intros Hl Ht Hc Hf. unfold first_nonws.
      assert (E : (0 <? len) = true) by (apply N.ltb_lt; exact Hl). rewrite E, Ht, Hc, Hf. reflexivity.
    Qed.
    (** a first token that is not code is not pruned against *)
    Lemma first_nonws_0_nc len t0 : get toks 0 = Some t0 -> p_code t0 = false -> first_nonws toks len 0 = None.
    Proof. intros Ht Hc. unfold first_nonws. rewrite Ht, Hc. destruct (0 <? len); reflexivity. Qed.

    Lemma trim_to_terminator_np fl len idx ts terms :
      idx <= len -> len <= ntoks -> Tok0 idx ->
      SimpleAll ts -> CallAll ts terms -> CallAll (brk g) terms ->
      NPr (trim_to_terminator g toks rec fl len idx ts terms).
    Proof.
      intros Hi Hl H0 Hs Hc Hb. unfold trim_to_terminator.
      destruct (len <=? idx) eqn:E; [apply np_ok|]. b2p.
      pose proof (callall_present _ _ Hc) as Hp.
      destruct (prune_total ts len idx Hp) as (pruned & Hpr & Hin). rewrite Hpr. cbn [bind].
      apply np_bind.
      { apply first_term_matches_np; auto. intros c Hcin. apply Hc. apply Hin. exact Hcin. }
      intros hit Hhit. destruct hit; [apply np_ok|].
      apply np_bind.
      - apply greedy_match_np; auto; try lia.
        destruct H0 as [H0|H0]; [left; exact H0|].
        destruct (N.eq_dec idx 0) as [Ez|Ez]; [|left; lia]. subst idx.
        right. right. split; [exact H0|].
        intros c t0 m Hcin Ht0 (raws & tys & a & Hsim & Hcd) Hk Hm.
        rewrite (kwlike_of_simple _ _ _ _ Hsim) in Hk. apply andb_true_iff in Hk as [Hk Ha].
        apply is_empty_nil in Hk. subst tys. rewrite intersects_nil, orb_false_r in Hcd.
        destruct (H0 t0 Ht0) as [_ [Hf|Hf]]; [|rewrite (Hf _ _ _ Hsim Ha) in Hcd; discriminate].
        unfold prune in Hpr. destruct (p_code t0) eqn:Ec0.
        * rewrite (first_nonws_0 len t0 E Ht0 Ec0 Hf) in Hpr.
          destruct (prune_aux_total (p_ftr t0) (p_types t0) ts Hp) as (l & Hl' & _ & Hkeep).
          rewrite Hl' in Hpr. inversion Hpr; subst l.
          destruct (first_term_matches_false _ _ _ _ c Hhit (Hkeep _ _ _ _ Hcin Hsim Hcd)) as (m' & Hm' & Hf').
          rewrite Hm in Hm'. inversion Hm'; subst. exact Hf'.
        * rewrite (first_nonws_0_nc len t0 Ht0 Ec0) in Hpr. inversion Hpr; subst pruned.
          destruct (first_term_matches_false _ _ _ _ c Hhit Hcin) as (m' & Hm' & Hf').
          rewrite Hm in Hm'. inversion Hm'; subst. exact Hf'.
      - intros tm Htm. apply (greedy_match_spec g toks rec HrecB) in Htm; [|lia].
        destruct Htm as (_ & _ & T3). apply skip_back_np; lia.
    Qed.

    (* -------------------------------------------------------------- Sequence *)
    Definition ElemOK (terms : list N) (e : N) : Prop :=
      exists ie, get (g_nodes g) e = Some ie /\
                 match n_node ie with
                 | GMeta _ | GCond _ _ => True
                 | _ => Callable e terms /\ exists b, n_opt ie = Some b
                 end.
    Definition TrimOK (ts terms : list N) : Prop :=
      SimpleAll (ts ++ terms) /\ CallAll (ts ++ terms) terms /\ CallAll (brk g) terms.
    Definition SeqOK (d : seq_d) (terms : list N) : Prop :=
      (forall e, In e (sq_elems d) -> ElemOK terms e)
      /\ (sq_mode d = Strict \/ TrimOK (sq_terms d) terms).

    Lemma opt_of_some e ie b : get (g_nodes g) e = Some ie -> n_opt ie = Some b -> opt_of g e = ROk b.
    Proof. intros H1 H2. unfold opt_of. rewrite (info_present _ _ H1). cbn [bind]. rewrite H2. reflexivity. Qed.

    Lemma trim_np_of fl len idx ts terms :
      idx <= len -> len <= ntoks -> Tok0 idx -> TrimOK ts terms ->
      NPr (trim_to_terminator g toks rec fl len idx (ts ++ terms) terms).
    Proof. intros Hi Hl H0 (H1 & H2 & H3). apply trim_to_terminator_np; auto. Qed.

    Lemma seq_elem_np fl d len si terms st e :
      SInv si len st -> len <= ntoks -> Tok0 si -> ElemOK terms e ->
      (sq_mode d = Strict \/ TrimOK (sq_terms d) terms) ->
      NPr (seq_elem g toks rec fl d len si terms st e).
    Proof.
      intros (I1 & I2 & I3) Hl H0 (ie & Hie & He) Htr. unfold seq_elem.
      rewrite (info_present _ _ Hie). cbn [bind].
      destruct (n_node ie) eqn:En; try apply np_ok.
      all: destruct He as (Hcall & b & Hb);
        pose proof (opt_of_some _ _ _ Hie Hb) as Hopt;
        (apply np_bind; [destruct (sq_gaps d); [apply skip_fwd_np; lia|apply np_ok]|]);
        intros idx' Hidx';
        assert (Hidx : s_matched st <= idx' /\ idx' <= s_max st)
          by (destruct (sq_gaps d); [apply skip_fwd_spec in Hidx'; lia|inversion Hidx'; subst; lia]);
        destruct (s_max st <=? idx') eqn:Emax; b2p;
        [ rewrite Hopt; cbn [bind]; destruct b; [apply np_ok|];
          destruct (pmode_eqb (sq_mode d) Strict || (s_matched st =? si)); apply np_ok
        | assert (El : (len <? s_max st) = false) by (apply N.ltb_ge; lia); rewrite El; cbn [bind];
          apply np_bind;
          [ apply HrecNP; [lia|lia|eapply Tok0_le; [|exact H0]; lia|exact Hcall]
          | intros em Hem;
            assert (Hemb : B idx' (s_max st) em) by (eapply HrecB; [|exact Hem]; lia);
            destruct Hemb as (E1 & E2 & E3);
            destruct (negb (has_match em));
            [ rewrite Hopt; cbn [bind]; destruct b; [apply np_ok|];
              destruct (pmode_eqb (sq_mode d) Strict); [apply np_ok|];
              destruct (pmode_eqb (sq_mode d) GreedyOnceStarted && (s_matched st =? si)); [apply np_ok|];
              destruct (s_matched st =? si); [apply np_ok|];
              apply np_bind; [apply skip_fwd_np; lia|intros; apply np_ok]
            | apply np_bind;
              [ destruct (s_first st && pmode_eqb (sq_mode d) GreedyOnceStarted) eqn:Eg; [|apply np_ok];
                destruct Htr as [Htr|Htr];
                [ rewrite Htr in Eg; cbn in Eg; rewrite andb_false_r in Eg; discriminate
                | apply trim_np_of; [lia|exact Hl|eapply Tok0_le; [|exact H0]; lia|exact Htr] ]
              | intros newmax _; destruct (is_some (mr_matched em)); apply np_ok ] ] ] ].
    Qed.

    Lemma seq_loop_np fl d len si terms es : forall st,
      SInv si len st -> len <= ntoks -> Tok0 si -> (forall e, In e es -> ElemOK terms e) ->
      (sq_mode d = Strict \/ TrimOK (sq_terms d) terms) ->
      NPr (seq_loop g toks rec fl d len si terms st es).
    Proof.
      induction es as [|e es IH]; intros st Hinv Hl H0 He Htr; cbn [seq_loop]; [apply np_ok|].
      apply np_bind; [apply seq_elem_np; auto; apply He; left; reflexivity|].
      intros r Hr. pose proof (seq_elem_spec g toks rec HrecB _ _ _ _ _ _ _ _ Hinv Hr) as Hs.
      destruct r as [st'|m]; [|apply np_ok]. apply IH; auto. intros e' He'. apply He. right. exact He'.
    Qed.

    Lemma match_sequence_np fl d len idx terms :
      idx <= len -> len <= ntoks -> Tok0 idx -> SeqOK d terms ->
      NPr (match_sequence g toks rec fl d len idx terms).
    Proof.
      intros Hi Hl H0 (He & Htr). unfold match_sequence.
      apply np_bind.
      { destruct (pmode_eqb (sq_mode d) Greedy) eqn:Eg; [|apply np_ok].
        destruct Htr as [Htr|Htr]; [rewrite Htr in Eg; discriminate|]. apply trim_np_of; auto. }
      intros max0 Hmax0.
      assert (Hmax : idx <= max0 /\ max0 <= len).
      { destruct (pmode_eqb (sq_mode d) Greedy);
          [apply (trim_to_terminator_spec g toks rec HrecB) in Hmax0; lia|inversion Hmax0; subst; lia]. }
      assert (Hinv : SInv idx len (mkS idx max0 [] [] true [])) by (unfold SInv; cbn; lia).
      apply np_bind; [apply seq_loop_np; auto|].
      intros r Hr. pose proof (seq_loop_spec g toks rec HrecB _ _ _ _ _ _ _ _ Hinv Hr) as Hs.
      destruct r as [st|m]; [|apply np_ok]. destruct Hs as (S1 & S2 & S3).
      destruct (negb (pmode_eqb (sq_mode d) Strict) && (s_matched st <? s_max st)); [|apply np_ok].
      apply np_bind; [apply skip_fwd_np; lia|]. intros i _.
      apply np_bind; [apply skip_back_np; lia|]. intros stop _. destruct (i <? stop); apply np_ok.
    Qed.

    (* -------------------------------------------------------------- Bracketed *)
    (** with one-code-token closers, a resolved bracket ends right after a code token *)
    Lemma rb_loop_closer fl : forall len opening ti starts ends pers terms nested mi ch r,
      closers_safe_b g starts ends = true -> SimpleAll (starts ++ ends) ->
      mr_start opening <= mr_end opening -> mr_end opening <= mi -> mi <= len ->
      rb_loop g toks rec fl len opening ti starts ends pers terms nested mi ch = ROk r ->
      exists j, mr_end r = j + 1 /\ codeat toks j /\ mi <= j /\ j < len.
    Proof.
      induction fl as [|fl IH]; intros len opening ti starts ends pers terms nested mi ch r Hcs Hs Ho Hmi Hlen H;
        cbn [rb_loop] in H; [discriminate|].
      inv_bind H. destruct a as [m mt].
      pose proof (next_match_spec g toks rec HrecB _ _ _ _ _ _ Hlen Ha) as (Hm1 & Hm2 & Hm3).
      apply next_match_res in Ha; [|exact Hs].
      destruct (negb (has_match m)) eqn:Ehm; [discriminate|]. apply negb_false_iff in Ehm.
      destruct Ha as [[_ Hf]|(c & -> & (j & t & H1 & H2 & H3 & H4 & H5 & H6 & H7))]; [congruence|].
      destruct (mcontains g ends c) eqn:Ec.
      - destruct (mposition g ends c) as [ci|]; [|discriminate].
        destruct (ci =? ti); [|discriminate].
        destruct (nth_bool pers ti) as [p|]; [|discriminate].
        pose proof (closers_safe_in g starts ends c Hcs H4 Ec) as Hc1.
        destruct (Hcode _ _ _ _ _ Hc1 H6) as [->|(k & -> & Hcj & Hjl)];
          [rewrite has_match_empty in H7; discriminate|].
        exists j. destruct p; inversion H; subst.
        + match goal with |- mr_end (wrap ?x ?y) = _ /\ _ => destruct (wrap_span x y) as [_ ->] end.
          cbn. repeat split; auto; lia.
        + cbn. repeat split; auto; lia.
      - destruct (mposition g starts c) as [ti'|]; [|discriminate].
        inv_bind H. rename a into inner.
        apply (rb_loop_spec g toks rec HrecB) in Ha; [|lia|lia|lia]. destruct Ha as (_ & I2 & I3).
        apply IH in H; auto; try lia. destruct H as (j' & J1 & J2 & J3 & J4). exists j'. repeat split; auto; lia.
    Qed.

    Lemma match_bracketed_np fl self found bs be pers gaps d len idx terms :
      idx <= len -> len <= ntoks -> Tok0 idx ->
      found = true -> gaps = true ->
      (forall sb eb, bs = Some sb -> be = Some eb ->
         NPr (rec sb idx len terms) /\ SimpleAll [sb; eb] /\ CallAll [sb; eb] terms
         /\ closers_safe_b g [sb] [eb] = true /\ SeqOK d (deeper g true [eb] terms)) ->
      NPr (match_bracketed g toks rec fl self found bs be pers gaps d len idx terms).
    Proof.
      intros Hi Hl H0 -> -> Hbe. unfold match_bracketed. cbn [negb].
      destruct bs as [sb|]; [|apply np_dang]. destruct be as [eb|]; [|apply np_dang].
      destruct (Hbe sb eb eq_refl eq_refl) as (Hsb & Hs & Hc & Hcs & Hseq).
      apply np_bind; [exact Hsb|]. intros sm Hsm.
      pose proof (HrecB _ _ _ _ _ Hi Hsm) as (S1 & S2 & S3).
      destruct (negb (has_match sm)); [apply np_ok|].
      apply np_bind.
      { apply resolve_bracket_np; auto; try lia.
        - eapply Tok0_le; [|exact H0]. lia.
        - left. reflexivity. }
      intros bm Hbm.
      pose proof (resolve_bracket_spec g toks rec HrecB _ _ _ _ _ _ _ _ _ _ S2 S3 Hbm) as (B1 & B2 & B3).
      unfold resolve_bracket in Hbm. destruct (mposition g [sb] sb) as [ti|]; [|discriminate].
      apply rb_loop_closer in Hbm; auto; try lia. destruct Hbm as (j & J1 & J2 & J3 & J4).
      assert (E0 : (mr_end bm =? 0) = false) by (apply N.eqb_neq; lia). rewrite E0. cbn [bind].
      replace (mr_end bm - 1) with j by lia.
      apply np_bind; [apply skip_fwd_np; lia|]. intros i1 Hi1. cbn [bind].
      pose proof (skip_fwd_stop toks 1 ltac:(lia) _ _ _ _ _ J3 J2 Hi1) as Hi1j.
      apply skip_fwd_spec in Hi1 as [F1 F2].
      apply np_bind; [apply skip_back_np; lia|]. intros e1 He1.
      apply skip_back_spec in He1 as [K1 K2]. specialize (K2 Hi1j).
      assert (El : (len <? e1) = false) by (apply N.ltb_ge; lia). rewrite El. cbn [bind].
      apply np_bind.
      { apply match_sequence_np; auto; try lia. eapply Tok0_le; [|exact H0]. lia. }
      intros cm _. destruct (negb (mr_end cm =? e1) && pmode_eqb (sq_mode d) Strict); [apply np_ok|].
      cbn [negb andb]. apply np_ok.
    Qed.

    (* -------------------------------------------------------------- AnyNumberOf *)
    Lemma parse_mode_result_np len cur mx mode idx :
      B idx mx cur -> mx <= len -> len <= ntoks -> NPr (parse_mode_result g toks len cur mx mode).
    Proof.
      intros (C1 & C2 & C3) Hmx Hl. unfold parse_mode_result.
      destruct (pmode_eqb mode Strict); [apply np_ok|].
      destruct (mr_end cur =? mx); [apply np_ok|].
      apply np_bind; [apply all_noncode_np; lia|]. intros nc _. destruct nc; [apply np_ok|].
      apply np_bind; [apply skip_fwd_np; lia|]. intros t _. apply np_ok.
    Qed.

    (** the slice end chosen by [trim_to_terminator] is the end of the slice or follows a code token;
        the cursor after skipped gaps never passes a code token.  Together they keep the cursor
        inside the sub-slice [..max_idx] that [AnyNumberOf] hands to [longest_match]. *)
    Definition MX (idx mx len : N) : Prop := mx = len \/ (idx < mx -> codeat toks (mx - 1)).
    Definition WI (mi wi len : N) : Prop :=
      mi <= wi /\ wi <= len /\ forall p, mi <= p -> codeat toks p -> wi <= p.

    Lemma trim_to_terminator_mx fl len idx ts terms j :
      idx <= len -> trim_to_terminator g toks rec fl len idx ts terms = ROk j -> MX idx j len.
    Proof.
      unfold trim_to_terminator, MX. intros Hi H.
      destruct (len <=? idx); [inversion H; auto|].
      inv_bind H. inv_bind H. destruct a0; [inversion H; subst; right; lia|].
      inv_bind H. right. intro Hlt. eapply (skip_back_code toks 1); [lia|exact H|exact Hlt].
    Qed.

    Definition AnyOK (d : any_d) (terms : list N) : Prop :=
      let T' := deeper g (an_reset d) (an_terms d) terms in
      CkeyAll (an_elems d) /\ CallAll (an_elems d) T' /\ CallAll T' T'.

    Lemma any_loop_np k : forall d len idx mx terms nm cs mi wi matched,
      idx <= mx -> mx <= len -> len <= ntoks -> Tok0 idx ->
      B idx mx matched -> mi = mr_end matched -> WI mi wi len -> MX idx mx len -> AnyOK d terms ->
      NPr (any_loop g toks rec k d len idx mx terms nm cs mi wi matched).
    Proof.
      induction k as [|k IH]; intros d len idx mx terms nm cs mi wi matched Hi Hmx Hl H0 Hm Hmi Hwi Hmxp Hok;
        cbn [any_loop]; [apply np_fuel|].
      destruct (((an_min d <=? nm) && (mx <=? mi)) || opt_le (an_max d) nm);
        [eapply parse_mode_result_np; eassumption|].
      destruct (mx <=? mi) eqn:Emi; [apply np_ok|]. b2p.
      destruct Hwi as (W1 & W2 & W3). pose proof Hm as (M1 & M2 & M3).
      assert (Hwmx : wi <= mx).
      { destruct Hmxp as [->|Hc]; [exact W2|]. assert (wi <= mx - 1); [|lia]. apply W3; [lia|]. apply Hc. lia. }
      destruct Hok as (Hk & Hc & Ht).
      apply np_bind.
      { apply longest_match_np; auto; try lia. eapply Tok0_le; [|exact H0]. lia. }
      intros [m mo] Hlm.
      destruct (negb (has_match m)) eqn:Ehm.
      { eapply parse_mode_result_np; [|exact Hmx|exact Hl].
        destruct (nm <? an_min d); [apply B_empty; exact Hi|exact Hm]. }
      apply negb_false_iff in Ehm.
      destruct (longest_match_res _ _ _ _ _ _ Hlm Ehm) as (o & -> & Ho).
      destruct (has_ckey_of o (Hk o Ho)) as [ck ->]. cbn [bind].
      destruct (bump ck cs) as [cs' cnt].
      destruct (match cnt with Some c => opt_lt (an_max_per d) c | None => false end);
        [eapply parse_mode_result_np; eassumption|].
      apply (longest_match_spec g toks rec HrecB) in Hlm. destruct Hlm as [->|[Hw Hbm]];
        [rewrite has_match_empty_lit in Ehm; discriminate|].
      assert (Hm' : B idx mx (append matched m)).
      { apply B_append; [exact Hm|eapply B_weaken; [|exact Hbm]; lia|destruct Hbm; lia]. }
      destruct Hm' as (A1 & A2 & A3).
      apply np_bind; [destruct (an_gaps d); [apply skip_fwd_np; lia|apply np_ok]|].
      intros w' Hw'.
      apply IH; auto; try (unfold B; lia); [|repeat split; auto].
      unfold WI. destruct (an_gaps d).
      - pose proof (skip_fwd_spec _ _ _ _ _ Hw') as (F1 & F2). repeat split; try lia.
        intros p Hp Hcp. eapply (skip_fwd_stop toks 1); [lia|exact Hp|exact Hcp|exact Hw'].
      - inversion Hw'; subst. repeat split; try lia; try (intros; assumption).
    Qed.

    Lemma init_counters_total es : CkeyAll es -> exists cs, init_counters g es = ROk cs.
    Proof.
      induction es as [|e es IH]; intro Hk; cbn [init_counters]; [eauto|].
      destruct (has_ckey_of e (Hk e (or_introl eq_refl))) as [k ->]. cbn [bind].
      destruct IH as [cs ->]; [intros c Hc; apply Hk; right; exact Hc|]. cbn [bind]. eauto.
    Qed.

    Lemma match_anynumberof_np fl d len idx terms :
      idx <= len -> len <= ntoks -> Tok0 idx ->
      (forall ex, an_exclude d = Some ex -> NPr (rec ex idx len terms)) ->
      (an_mode d = Greedy ->
       let ts := if an_reset d then an_terms d else an_terms d ++ terms in
       SimpleAll ts /\ CallAll ts terms /\ CallAll (brk g) terms) ->
      AnyOK d terms ->
      NPr (match_anynumberof g toks rec fl d len idx terms).
    Proof.
      intros Hi Hl H0 Hex Hgr Hok. unfold match_anynumberof.
      apply np_bind.
      { destruct (an_exclude d) as [ex|]; [|apply np_ok].
        apply np_bind; [apply Hex; reflexivity|intros; apply np_ok]. }
      intros excluded _. destruct excluded; [apply np_ok|].
      destruct (init_counters_total (an_elems d) (proj1 Hok)) as [cs ->]. cbn [bind].
      apply np_bind.
      { destruct (pmode_eqb (an_mode d) Greedy) eqn:Eg; [|apply np_ok].
        assert (Em : an_mode d = Greedy) by (destruct (an_mode d); try discriminate; reflexivity).
        destruct (Hgr Em) as (G1 & G2 & G3). apply trim_to_terminator_np; auto. }
      intros mx Hmxe.
      assert (Hmx : idx <= mx /\ mx <= len /\ MX idx mx len).
      { destruct (pmode_eqb (an_mode d) Greedy).
        - pose proof (trim_to_terminator_mx _ _ _ _ _ _ Hi Hmxe).
          apply (trim_to_terminator_spec g toks rec HrecB) in Hmxe; [|exact Hi]. repeat split; try lia. assumption.
        - inversion Hmxe; subst. repeat split; try lia. left. reflexivity. }
      destruct Hmx as (X1 & X2 & X3).
      assert (El : (len <? mx) = false) by (apply N.ltb_ge; lia). rewrite El. cbn [bind].
      apply any_loop_np; auto.
      - apply B_empty. lia.
      - unfold WI. cbn. repeat split; try lia; try (intros; assumption).
    Qed.

    (* -------------------------------------------------------------- Delimited *)
    Definition DelimOK (d : any_d) (delim : N) (tms terms : list N) : Prop :=
      CkeyAll tms /\ CallAll tms terms /\ CallAll terms terms
      /\ (let T0 := deeper g false [] terms in
          CkeyAll [delim] /\ CallAll [delim] T0 /\ CallAll T0 T0)
      /\ (let T1 := deeper g false [delim] terms in
          CkeyAll (an_elems d) /\ CallAll (an_elems d) T1 /\ CallAll T1 T1).

    Lemma delim_loop_np k : forall d delim tr mn len idx terms tms dl sk w wm dm,
      idx <= w -> w <= len -> len <= ntoks -> Tok0 idx -> DelimOK d delim tms terms ->
      NPr (delim_loop g toks rec k d delim tr mn len idx terms tms dl sk w wm dm).
    Proof.
      induction k as [|k IH]; intros d delim tr mn len idx terms tms dl sk w wm dm Hw Hl Hn H0 Hok;
        cbn [delim_loop]; [apply np_fuel|].
      assert (Hfin : forall sk' dm' dl' wm', NPr (delim_finish tr mn idx sk' dm' dl' wm')).
      { intros. unfold delim_finish. destruct dm' as [x|]; [destruct (tr && negb sk')|];
          match goal with |- NPr (if ?c then _ else _) => destruct c end; apply np_ok. }
      apply np_bind; [destruct (an_gaps d && (idx <? w)); [apply skip_fwd_np; lia|apply np_ok]|].
      intros w' Hw'.
      assert (Hw2 : w <= w' /\ w' <= len)
        by (destruct (an_gaps d && (idx <? w)); [apply skip_fwd_spec in Hw'; lia|inversion Hw'; subst; lia]).
      destruct (len <=? w'); [apply Hfin|].
      destruct Hok as (K1 & K2 & K3 & (K4 & K5 & K6) & (K7 & K8 & K9)).
      assert (H0' : Tok0 w') by (eapply Tok0_le; [|exact H0]; lia).
      apply np_bind; [apply longest_match_np; auto; lia|]. intros [tm tmo] _.
      destruct (has_match tm); [apply Hfin|].
      apply np_bind.
      { destruct sk; apply longest_match_np; auto; lia. }
      intros [m mo] Hlm.
      destruct (negb (has_match m)) eqn:Ehm; [apply Hfin|]. apply negb_false_iff in Ehm.
      apply (longest_match_spec g toks rec HrecB) in Hlm. destruct Hlm as [->|[Hlt (M1 & M2 & M3)]];
        [rewrite has_match_empty_lit in Ehm; discriminate|].
      assert (Hok' : DelimOK d delim tms terms) by (repeat split; assumption).
      destruct sk.
      - apply IH; auto; lia.
      - destruct dm as [x|]; apply IH; auto; lia.
    Qed.

    Lemma match_delimited_np fl d delim tr mn len idx terms :
      idx <= len -> len <= ntoks -> Tok0 idx ->
      DelimOK d delim (an_terms d ++ filter (fun t => negb (meq g delim t)) terms
                       ++ (if an_gaps d then [] else [g_noncode g])) terms ->
      NPr (match_delimited g toks rec fl d delim tr mn len idx terms).
    Proof. intros. unfold match_delimited. apply delim_loop_np; auto. lia. Qed.

    (* -------------------------------------------------------------- from the certificate to the premises *)
    Lemma sub_deeper clear push terms T :
      Sub terms T -> Sub (deeper g clear push terms) (adds push (if clear then PS.empty else T)).
    Proof.
      intros Hs x Hx. apply deeper_in in Hx. apply adds_in. destruct Hx as [Hx|[-> Hx]]; [left; exact Hx|].
      right. apply Hs. exact Hx.
    Qed.
    Lemma sub_members terms T x : Sub terms T -> In x terms -> In x (members T).
    Proof. intros Hs Hx. apply members_in. apply Hs. exact Hx. Qed.

    Lemma forallb_in {A} (f : A -> bool) l x : forallb f l = true -> In x l -> f x = true.
    Proof. intro H. rewrite forallb_forall in H. apply H. Qed.

    Lemma greedy_ok_of ms useT T terms :
      Sub terms T -> forallb (has_simple_b g) (greedy_ms ms useT T) = true ->
      (forall e, In e (greedy_edges g ms useT T) -> flows_b cx e = true) ->
      let ts := ms ++ (if useT then terms else []) in
      SimpleAll ts /\ CallAll ts terms /\ CallAll (brk g) terms.
    Proof.
      intros Hs Hsim Hfl ts.
      assert (Hin : forall x, In x ts -> In x (greedy_ms ms useT T)).
      { intros x Hx. unfold ts in Hx. unfold greedy_ms. apply in_app_or in Hx as [Hx|Hx]; apply in_or_app; [left; exact Hx|right].
        destruct useT; [eapply sub_members; eassumption|destruct Hx]. }
      split; [|split].
      - intros c Hc. eapply forallb_in; [exact Hsim|]. apply Hin. exact Hc.
      - intros c Hc. eapply flows_callable; [|exact Hs]. apply Hfl. unfold greedy_edges.
        apply (in_map (fun t => (t, T))). apply in_or_app. left. apply Hin. exact Hc.
      - intros c Hc. eapply flows_callable; [|exact Hs]. apply Hfl. unfold greedy_edges.
        apply (in_map (fun t => (t, T))). apply in_or_app. right. exact Hc.
    Qed.

    Lemma seq_ok_of d T terms :
      Sub terms T -> seq_local g d T = true ->
      (forall e, In e (seq_edges g d T) -> flows_b cx e = true) -> SeqOK d terms.
    Proof.
      intros Hs Hloc Hfl. unfold seq_local in Hloc. apply andb_true_iff in Hloc as [Hel Htr]. split.
      - intros e He. pose proof (forallb_in _ _ _ Hel He) as Hok. unfold elem_ok in Hok.
        destruct (get (g_nodes g) e) as [ie|] eqn:Eie; [|discriminate]. exists ie. split; [exact Eie|].
        assert (Hcall : elem_called g e = true -> Callable e terms).
        { intro Hcl. eapply flows_callable; [|exact Hs]. apply Hfl. unfold seq_edges. apply in_or_app. left.
          apply (in_map (fun e => (e, T))). apply filter_In. split; assumption. }
        unfold elem_called in Hcall. rewrite Eie in Hcall.
        destruct (n_node ie); try exact I;
          (split; [apply Hcall; reflexivity|destruct (n_opt ie) as [b|]; [eauto|discriminate]]).
      - destruct (pmode_eqb (sq_mode d) Strict) eqn:Em.
        + left. destruct (sq_mode d); try discriminate; reflexivity.
        + right. cbn [orb] in Htr.
          apply (greedy_ok_of (sq_terms d) true T terms Hs Htr).
          intros e He. apply Hfl. unfold seq_edges. rewrite Em. apply in_or_app. right. exact He.
    Qed.

    Lemma np_is_ok_and (x : res mr) : NPr x ->
      NPr (match x with ROk m => ROk (has_match m) | RErr => ROk false | RPanic p => RPanic p | RFuel => RFuel end).
    Proof. intro H. destruct x; try apply np_ok; [|apply np_fuel]. eapply np_retype. exact H. Qed.

    Definition pass_children (i : ninfo) : list N :=
      match n_node i with
      | GRef (Some t) ex _ _ => t :: opt_list ex
      | GAny d => opt_list (an_exclude d)
      | GBracketed _ (Some sb) (Some _) _ _ _ => [sb]
      | _ => []
      end.
    Definition leaf_kind (i : ninfo) : bool :=
      match n_node i with
      | GString _ _ | GMulti _ _ | GTyped _ _ | GRegex _ _ | GBracketSeg => true
      | _ => false
      end.

    Lemma match_node_body_gen fl n idx len terms i :
      idx <= len -> len <= ntoks -> Tok0 idx -> Callable n terms -> get (g_nodes g) n = Some i ->
      (forall c t, In c (pass_children i) -> Callable c t -> NPr (rec c idx len t)) ->
      (leaf_kind i = true -> idx < len) ->
      NPr (match_node_body g toks rx rec fl n idx len terms).
    Proof.
      intros Hi Hl H0 (T & HT & Hs) Hget Hpass Hleaf.
      destruct (cert_entry _ _ HT) as (i' & Hget' & Hloc & Hfl). rewrite Hget in Hget'. inversion Hget'; subst i'.
      assert (Hedge : forall c S t, In (c, S) (edges g i T) -> Sub t S -> Callable c t)
        by (intros c S t Hin HS; eapply flows_callable; [apply Hfl; exact Hin|exact HS]).
      unfold match_node_body. rewrite (info_present _ _ Hget). cbn [bind].
      unfold local_ok in Hloc. unfold edges in Hedge, Hfl. unfold pass_children in Hpass. unfold leaf_kind in Hleaf.
      destruct (n_node i) eqn:En.
      - (* GRef *)
        destruct target as [t|]; [|apply np_dang].
        set (T2 := adds terms0 (if reset then PS.empty else T)) in *.
        assert (HS2 : Sub (deeper g reset terms0 terms) T2) by (apply sub_deeper; exact Hs).
        apply np_bind.
        + destruct exclude as [e|]; [|apply np_ok]. apply np_is_ok_and.
          apply Hpass; [right; left; reflexivity|]. eapply Hedge; [|exact HS2]. right. left. reflexivity.
        + intros ex _. destruct ex; [apply np_ok|].
          apply Hpass; [left; reflexivity|]. eapply Hedge; [|exact HS2]. left. reflexivity.
      - (* GSeq *)
        apply match_sequence_np; auto. eapply seq_ok_of; eauto.
      - (* GBracketed *)
        apply andb_true_iff in Hloc as [Hfg Hloc]. apply andb_true_iff in Hfg as [Hf Hg]. subst found gaps.
        apply match_bracketed_np; auto. intros sb eb -> ->.
        apply andb_true_iff in Hloc as [Hloc Hsl]. apply andb_true_iff in Hloc as [Hloc Hcs].
        apply andb_true_iff in Hloc as [Hsb Heb].
        assert (Hcsb : Callable sb terms) by (eapply Hedge; [left; reflexivity|exact Hs]).
        assert (Hceb : Callable eb terms) by (eapply Hedge; [right; left; reflexivity|exact Hs]).
        split; [apply Hpass; [left; reflexivity|exact Hcsb]|].
        split; [intros c [<-|[<-|[]]]; assumption|].
        split; [intros c [<-|[<-|[]]]; assumption|].
        split; [exact Hcs|].
        eapply seq_ok_of; [|exact Hsl|].
        + intros x Hx. apply deeper_in in Hx as [[<-|[]]|[Hx _]]; [|discriminate].
          unfold inT. apply PS.singleton_spec. reflexivity.
        + intros e He. apply Hfl. right. right. exact He.
      - (* GAny *)
        apply andb_true_iff in Hloc as [Hck Hgr]. rewrite forallb_forall in Hck.
        set (T2 := any_T2 d T) in *.
        assert (HS2 : Sub (deeper g (an_reset d) (an_terms d) terms) T2) by (apply sub_deeper; exact Hs).
        apply match_anynumberof_np; auto.
        + intros ex Hex. apply Hpass; [rewrite Hex; left; reflexivity|].
          eapply Hedge; [|exact Hs]. apply in_or_app. left. rewrite Hex. left. reflexivity.
        + intros Hm. rewrite Hm in Hgr. cbn [pmode_eqb negb orb] in Hgr.
          assert (Hgo := greedy_ok_of (an_terms d) (negb (an_reset d)) T terms Hs Hgr).
          cbn zeta in Hgo. destruct (an_reset d); cbn [negb] in Hgo; [rewrite app_nil_r in Hgo|];
            apply Hgo; intros e He; apply Hfl; apply in_or_app; right; apply in_or_app; left;
            rewrite Hm; exact He.
        + unfold AnyOK. cbn zeta. split; [intros c Hc; apply Hck; exact Hc|]. split.
          * intros c Hc. eapply Hedge; [|exact HS2]. apply in_or_app. right. apply in_or_app. right.
            apply (in_map (fun e => (e, T2))). apply in_or_app. left. exact Hc.
          * intros c Hc. eapply Hedge; [|exact HS2]. apply in_or_app. right. apply in_or_app. right.
            apply (in_map (fun e => (e, T2))). apply in_or_app. right. eapply sub_members; eassumption.
      - (* GDelim *)
        rewrite forallb_forall in Hloc.
        set (T2 := PS.add (key delim) T) in *.
        assert (HST2 : Sub terms T2) by (intros x Hx; apply PS.add_spec; right; apply Hs; exact Hx).
        assert (HS0 : forall x, In x (deeper g false [] terms) -> In x terms)
          by (intros x Hx; apply deeper_in in Hx as [[]|[_ Hx]]; exact Hx).
        assert (HS1 : Sub (deeper g false [delim] terms) T2).
        { intros x Hx. apply deeper_in in Hx as [[<-|[]]|[_ Hx]]; [apply PS.add_spec; left; reflexivity|apply HST2; exact Hx]. }
        assert (Hterm : forall x t, In x terms -> Sub t T -> Callable x t).
        { intros x t Hx Ht. eapply Hedge; [|exact Ht]. apply in_or_app. left. apply (in_map (fun e => (e, T))).
          apply in_or_app. right. apply in_or_app. right. exact (sub_members _ _ _ Hs Hx). }
        apply match_delimited_np; auto. unfold DelimOK. cbn zeta. repeat split.
        + intros c Hc. apply Hloc. apply in_app_or in Hc as [Hc|Hc]; apply in_or_app; [left; exact Hc|right].
          apply in_app_or in Hc as [Hc|Hc]; apply in_or_app; [right; apply in_or_app; left|left; exact Hc].
          apply filter_In in Hc as [Hc _]. eapply sub_members; eassumption.
        + intros c Hc. apply in_app_or in Hc as [Hc|Hc].
          * eapply Hedge; [|exact Hs]. apply in_or_app. left. apply (in_map (fun e => (e, T))). apply in_or_app. left. exact Hc.
          * apply in_app_or in Hc as [Hc|Hc]; [apply filter_In in Hc as [Hc _]; apply Hterm; assumption|].
            eapply Hedge; [|exact Hs]. apply in_or_app. left. apply (in_map (fun e => (e, T))). apply in_or_app. right.
            apply in_or_app. left. exact Hc.
        + intros c Hc. apply Hterm; assumption.
        + intros c [<-|[]]. apply Hloc. apply in_or_app. right. apply in_or_app. right. apply in_or_app. right. left. reflexivity.
        + intros c [<-|[]]. eapply Hedge; [apply in_or_app; right; left; reflexivity|].
          intros x Hx. apply HST2. apply HS0. exact Hx.
        + intros c Hc. apply Hterm; [apply HS0; exact Hc|]. intros x Hx. apply Hs. apply HS0. exact Hx.
        + intros c Hc. apply Hloc. apply in_or_app. right. apply in_or_app. right. apply in_or_app. right. right. exact Hc.
        + intros c Hc. eapply Hedge; [|exact HS1]. apply in_or_app. right. right.
          apply (in_map (fun e => (e, T2))). apply in_or_app. left. exact Hc.
        + intros c Hc. eapply Hedge; [|exact HS1]. apply in_or_app. right. right.
          apply (in_map (fun e => (e, T2))). apply in_or_app. right. eapply sub_members; [exact HS1|exact Hc].
      - (* GNodeM *)
        destruct (len <=? idx) eqn:E; [apply np_ok|]. b2p.
        destruct (tok_def len idx E Hl) as [t ->]. cbn [bind].
        destruct (p_kind t =? kind); [apply np_ok|].
        apply np_bind; [|intros; apply np_ok].
        apply HrecNP; auto. eapply Hedge; [left; reflexivity|exact Hs].
      - destruct (tok_def len idx (Hleaf eq_refl) Hl) as [t ->]. cbn [bind].
        destruct (p_code t && (p_upper t =? upper)); apply np_ok.
      - destruct (tok_def len idx (Hleaf eq_refl) Hl) as [t ->]. cbn [bind].
        destruct (p_code t && memN (p_upper t) uppers); apply np_ok.
      - destruct (tok_def len idx (Hleaf eq_refl) Hl) as [t ->]. cbn [bind].
        destruct (p_kind t =? template); apply np_ok.
      - destruct (tok_def len idx (Hleaf eq_refl) Hl) as [t ->]. cbn [bind].
        destruct (existsb _ rx); apply np_ok.
      - discriminate.
      - destruct enabled; apply np_ok.
      - (* GAnything *)
        destruct (is_empty terms0 && is_empty terms) eqn:Ee; [apply np_ok|].
        destruct (is_empty terms0 && PS.is_empty T) eqn:Et.
        { apply andb_true_iff in Et as [Et1 Et2]. rewrite Et1 in Ee. cbn [andb] in Ee.
          apply PS.is_empty_spec in Et2. destruct terms as [|x terms]; [discriminate|].
          exfalso. apply (Et2 (key x)). apply Hs. left. reflexivity. }
        cbn [orb] in Hloc. apply andb_true_iff in Hloc as [Hsim Hnk].
        destruct (greedy_ok_of terms0 true T terms Hs Hsim Hfl) as (G1 & G2 & G3).
        apply greedy_match_np; auto.
        right. left. intros c Hc. rewrite forallb_forall in Hnk. apply negb_true_iff. apply Hnk.
        unfold greedy_ms. apply in_app_or in Hc as [Hc|Hc]; apply in_or_app; [left; exact Hc|right].
        eapply sub_members; eassumption.
      - apply np_ok.
      - apply np_bind; [apply noncode_scan_np; exact Hl|]. intros hit _.
        destruct hit as [j|]; [destruct (idx <? j)|]; apply np_ok.
      - destruct (tok_def len idx (Hleaf eq_refl) Hl) as [t ->]. cbn [bind].
        destruct (p_kind t =? k_bracketed g); apply np_ok.
    Qed.
  End WithRec.

  (* ---------------------------------------------------------------- tying the knot *)
  Theorem match_node_np fuel : forall n idx len terms,
    idx < len -> len <= ntoks -> Tok0 idx -> Callable n terms ->
    NPr (match_node g toks rx fuel n idx len terms).
  Proof.
    induction fuel as [|f IH]; intros n idx len terms Hi Hl H0 Hc; cbn [match_node]; [apply np_fuel|].
    destruct (callable_present _ _ Hc) as [i Hget].
    apply match_node_body_gen with (i := i); auto; try lia;
      [exact (match_node_bounds g toks rx f)|intros nd j l t m H1 H2; eapply match_node_code1; eassumption].
  Qed.

  (** at the end of the slice: only the nodes that [eof_safe_b] follows are entered with [idx = len] *)
  Theorem match_node_np_eof d : forall fuel n len terms,
    eof_safe_b g d n = true -> len <= ntoks -> Tok0 len -> Callable n terms ->
    NPr (match_node g toks rx fuel n len len terms).
  Proof.
    induction d as [|d IH]; intros fuel n len terms He Hl H0 Hc; [discriminate|].
    destruct fuel as [|f]; cbn [match_node]; [apply np_fuel|].
    cbn [eof_safe_b] in He. destruct (get (g_nodes g) n) as [i|] eqn:Hget; [|discriminate].
    apply match_node_body_gen with (i := i); auto.
    - exact (match_node_bounds g toks rx f).
    - intros c j l t Hj Hlt Ht Hct. apply match_node_np; assumption.
    - intros nd j l t m H1 H2. eapply match_node_code1; eassumption.
    - lia.
    - intros c t Hin Hct. apply IH; auto. unfold pass_children in Hin.
      destruct (n_node i); try destruct Hin.
      + destruct target as [tg|]; [|destruct Hin]. apply andb_true_iff in He as [He1 He2].
        destruct Hin as [<-|Hin]; [exact He1|]. destruct exclude as [ex|]; [|destruct Hin].
        destruct Hin as [<-|[]]. exact He2.
      + destruct bstart as [sb|]; [|destruct Hin]. destruct bend as [eb|]; [|destruct Hin].
        destruct Hin as [<-|[]]. exact He.
      + destruct (an_exclude d0) as [ex|]; [|destruct Hin]. destruct Hin as [<-|[]]. exact He.
    - unfold leaf_kind. intro Hk. destruct (n_node i); discriminate.
  Qed.

  Theorem parse_root_np fuel s e :
    s <= e -> e <= ntoks -> Tok0 s -> NPr (parse_root g toks rx fuel s e).
  Proof.
    intros Hse He H0. unfold parse_root.
    destruct cert_parts as (_ & _ & (r & -> & Hfl & Heof) & _).
    assert (Hc : Callable r []) by (eapply flows_callable; [exact Hfl|intros t []]).
    destruct (N.eq_dec s e) as [->|Hne].
    - eapply match_node_np_eof; eassumption.
    - apply match_node_np; auto. lia.
  Qed.
End NoPanic.

(* ------------------------------------------------------------------ the theorems *)
(** every index below [ntoks] holds a token *)
Definition toks_def (toks : PositiveMap.t ptok) (ntoks : N) : Prop :=
  forall i, i < ntoks -> exists t, get toks i = Some t.

(** parsing starts behind the first token, or the first token is not a meta and pruning and
    [next_match] see the same raw of it (see [tok0_ok]) *)
Definition start_ok (g : grammar) (toks : PositiveMap.t ptok) (s : N) : Prop := 0 < s \/ tok0_ok g toks.

(** With a certificate, whatever the tokens, the regex oracle and the fuel: the only abort left is
    the recorded "Grammar refers to ... which was not found" at a node whose reference is missing. *)
Theorem parse_panics_only_dangling g cx : cert_ok_b g cx = true ->
  forall toks ntoks rx fuel s e p,
    toks_def toks ntoks -> s <= e -> e <= ntoks -> start_ok g toks s ->
    parse_root g toks rx fuel s e = RPanic p -> exists n, p = PDangling n /\ dangling_b g n = true.
Proof.
  intros Hc toks ntoks rx fuel s e p Htd Hse He H0 H.
  destruct (parse_root_np g toks rx ntoks Htd cx Hc fuel s e Hse He H0 p H) as [n ->].
  exists n. split; [reflexivity|]. eapply pem_dangling_sound. exact H.
Qed.

(** ... and on a closed graph none at all. *)
Theorem parse_never_panics_cert g cx : cert_ok_b g cx = true -> pem_closed_b g = true ->
  forall toks ntoks rx fuel s e p,
    toks_def toks ntoks -> s <= e -> e <= ntoks -> start_ok g toks s ->
    parse_root g toks rx fuel s e <> RPanic p.
Proof.
  intros Hc Hcl toks ntoks rx fuel s e p Htd Hse He H0 H.
  destruct (parse_panics_only_dangling g cx Hc toks ntoks rx fuel s e p Htd Hse He H0 H) as (n & _ & Hd).
  rewrite (pem_closed_no_dangling g Hcl n) in Hd. discriminate.
Qed.

(** the decidable side condition: the computed least certificate is accepted *)
Theorem parse_never_panics g : panic_safe_b g = true -> pem_closed_b g = true ->
  forall toks ntoks rx fuel s e p,
    toks_def toks ntoks -> s <= e -> e <= ntoks -> start_ok g toks s ->
    parse_root g toks rx fuel s e <> RPanic p.
Proof. intro H. exact (parse_never_panics_cert g _ H). Qed.

Theorem parse_panics_only_dangling_safe g : panic_safe_b g = true ->
  forall toks ntoks rx fuel s e p,
    toks_def toks ntoks -> s <= e -> e <= ntoks -> start_ok g toks s ->
    parse_root g toks rx fuel s e = RPanic p -> exists n, p = PDangling n /\ dangling_b g n = true.
Proof. intro H. exact (parse_panics_only_dangling g _ H). Qed.

(** token lists *)
Lemma toks_def_of_list (l : list ptok) : toks_def (toks_of_list l) (N.of_nat (length l)).
Proof.
  intros i Hi. rewrite Pem.WfRoot.toks_of_list_get.
  destruct (nth_error l (N.to_nat i)) as [t|] eqn:E; [eauto|].
  apply nth_error_None in E. lia.
Qed.

(** the generated list of dangling nodes of a dialect ([pem_dangling_exact]) names every dangling node *)
Lemma dangling_listed g ids :
  forallb (fun p => Bool.eqb (node_dangling (snd p)) (memN (Pos.pred_N (fst p)) ids))
          (PositiveMap.elements (g_nodes g)) = true ->
  forall n, dangling_b g n = true -> memN n ids = true.
Proof.
  intros H n Hd. unfold dangling_b, get in Hd.
  destruct (PositiveMap.find (key n) (g_nodes g)) as [i|] eqn:E; [|discriminate].
  apply PositiveMap.elements_correct in E. rewrite forallb_forall in H. specialize (H _ E). cbn [fst snd] in H.
  rewrite Hd in H. unfold key in H. rewrite N.pos_pred_succ in H.
  destruct (memN n ids); [reflexivity|discriminate].
Qed.
