(** Executable model of the patch pipeline that turns the linter's final tree into the
    fixed source text:
      [ErasedSegment::iter_patches]            crates/lib-core/src/parser/segments/base.rs
      [TemplatedFileInner::is_source_slice_literal]   crates/lib-core/src/templaters/base.rs
      [LintedFile::generate_source_patches], [slice_source_file_using_patches],
      [build_up_fixed_source_string], [fix_string]    crates/lib/src/core/linter/linted_file.rs
    Definitions only; proofs are in Proofs.v.
    Text is [list N] (bytes); offsets are [N] (byte offsets, as in the Rust code). *)
From Sq Require Export Base.Bytes.

Definition len (s : str) : N := N.of_nat (length s).
(** [&s[a..b]] (total here: clamped; the Rust code panics when out of range) *)
Definition sub (s : str) (a b : N) : str :=
  firstn (N.to_nat (b - a)) (skipn (N.to_nat a) s).

(** * Patches ([FixPatch]: only [source_slice] and [fixed_raw] are ever read) *)
Record patch := mkPatch { p_s : N; p_e : N; p_raw : str }.
Definition slice := (N * N)%type.
Definition p_slice (p : patch) : slice := (p_s p, p_e p).
Definition slice_eqb (a b : slice) : bool := (fst a =? fst b) && (snd a =? snd b).

(** [generate_source_patches]: keep the first patch of every [dedupe_tuple] = (source slice,
    fixed_raw), then a stable sort by [source_slice.start]. *)
Definition pkey := (slice * str)%type.
Definition p_key (p : patch) : pkey := (p_slice p, p_raw p).
Definition key_eqb (a b : pkey) : bool := slice_eqb (fst a) (fst b) && str_eqb (snd a) (snd b).
Definition mem_key (x : pkey) (l : list pkey) : bool := existsb (key_eqb x) l.
Fixpoint dedupe (seen : list pkey) (ps : list patch) : list patch :=
  match ps with
  | [] => []
  | p :: ps' =>
      if mem_key (p_key p) seen then dedupe seen ps'
      else p :: dedupe (p_key p :: seen) ps'
  end.
Fixpoint insert_by_start (p : patch) (l : list patch) : list patch :=
  match l with
  | [] => [p]
  | q :: l' => if p_s p <=? p_s q then p :: l else q :: insert_by_start p l'
  end.
Fixpoint sort_by_start (ps : list patch) : list patch :=
  match ps with
  | [] => []
  | p :: ps' => insert_by_start p (sort_by_start ps')
  end.
Definition generate_source_patches (ps : list patch) : list patch :=
  sort_by_start (dedupe [] ps).

(** [slice_source_file_using_patches]; [so] = the source-only slices as (start, end).
    [pop_so] is the inner [while] loop. *)
Fixpoint pop_so (so : list slice) (pstart idx : N) : list slice * list slice * N :=
  match so with
  | (a, b) :: so' =>
      if a <? pstart then
        let pre := if idx <? b then [(idx, a)] else [] in
        let '(em, rest, idx') := pop_so so' pstart b in
        (pre ++ (a, b) :: em, rest, idx')
      else ([], so, idx)
  | [] => ([], [], idx)
  end.
Fixpoint slice_loop (ps : list patch) (so : list slice) (idx n : N) : list slice :=
  match ps with
  | [] => if idx <? n then [(idx, n)] else []
  | p :: ps' =>
      let '(em, so1, idx1) := pop_so so (p_s p) idx in
      let so2 := match so1 with
                 | s :: r => if slice_eqb (p_slice p) s then r else so1
                 | [] => so1
                 end in
      let gap := if idx1 <? p_s p then [(idx1, p_s p)] else [] in
      if p_s p <? idx1 then em ++ gap ++ slice_loop ps' so2 idx1 n
      else em ++ gap ++ p_slice p :: slice_loop ps' so2 (p_e p) n
  end.

(** [build_up_fixed_source_string]: a region is patched by the first patch AFTER THE LAST ONE
    USED whose source slice equals the region. *)
Fixpoint find_from (r : slice) (ps : list patch) : option (patch * list patch) :=
  match ps with
  | [] => None
  | p :: ps' => if slice_eqb (p_slice p) r then Some (p, ps') else find_from r ps'
  end.
Fixpoint build (regions : list slice) (ps : list patch) (src : str) : str :=
  match regions with
  | [] => []
  | r :: rs =>
      match find_from r ps with
      | Some (p, rest) => p_raw p ++ build rs rest src
      | None => sub src (fst r) (snd r) ++ build rs ps src
      end
  end.

Definition fix_string_so (src : str) (so : list slice) (ps : list patch) : str :=
  let f := generate_source_patches ps in
  build (slice_loop f so 0 (len src)) f src.
(** the raw and placeholder templaters never produce source-only slices *)
Definition fix_string (src : str) (ps : list patch) : str := fix_string_so src [] ps.

(** * The specification of [fix_string] *)
Fixpoint drop_overlap (idx : N) (ps : list patch) : list patch :=
  match ps with
  | [] => []
  | p :: ps' => if p_s p <? idx then drop_overlap idx ps' else p :: drop_overlap (p_e p) ps'
  end.
Definition normalise (ps : list patch) : list patch := drop_overlap 0 (generate_source_patches ps).
Fixpoint splice (src : str) (idx : N) (ps : list patch) : str :=
  match ps with
  | [] => sub src idx (len src)
  | p :: ps' => sub src idx (p_s p) ++ p_raw p ++ splice src (p_e p) ps'
  end.

(** sorted by start with non-overlapping, well-formed ranges (no statement about duplicates) *)
Fixpoint chain (idx : N) (ps : list patch) : Prop :=
  match ps with
  | [] => True
  | p :: ps' => idx <= p_s p /\ p_s p <= p_e p /\ chain (p_e p) ps'
  end.
Definition sorted_chain (ps : list patch) : Prop := chain 0 ps.

(** * Trees *)
Record pos := mkPos { s0 : N; s1 : N; t0 : N; t1 : N }.   (* source_slice, templated_slice *)
(** [strip] = the syntax kind is EndOfFile | Indent | Dedent | Implicit *)
Inductive seg :=
| Leaf (strip : bool) (r : str) (p : pos)
| Node (strip : bool) (p : pos) (sfx : list patch) (cs : list seg).

Definition seg_pos (s : seg) : pos := match s with Leaf _ _ p => p | Node _ p _ _ => p end.
Definition seg_strip (s : seg) : bool := match s with Leaf b _ _ => b | Node b _ _ _ => b end.
Fixpoint raw (s : seg) : str :=
  match s with Leaf _ r _ => r | Node _ _ _ cs => flat_map raw cs end.
(** [get_raw_segments()[0]]: first segment without children in pre-order *)
Fixpoint first_leaf_pos (s : seg) : pos :=
  match s with
  | Leaf _ _ p => p
  | Node _ p _ [] => p
  | Node _ _ _ (c :: _) => first_leaf_pos c
  end.
(** [PositionMarker::is_point]: both slices are empty; Rust's [Range::is_empty] is [!(start < end)],
    so an inverted range (positions of inserted segments after an edit that moved code backwards) counts. *)
Definition is_point (p : pos) : bool := (s1 p <=? s0 p) && (t1 p <=? t0 p).

(** [TemplatedFile]: source, templated text, raw slices as (source_idx, slice_type == "literal") *)
Record tfile := mkTf { src : str; tpl : str; rawsl : list (N * bool) }.

Fixpoint lit_loop (rs : list (N * bool)) (a b : N) (acc : bool) : bool :=
  match rs with
  | [] => acc
  | (i, l) :: rs' =>
      if i <=? a then lit_loop rs' a b l
      else if b <=? i then acc
      else if negb l then lit_loop rs' a b false
      else lit_loop rs' a b acc
  end.
Definition is_literal (rs : list (N * bool)) (a b : N) : bool :=
  match rs with
  | [] => true
  | _ => if a =? b then true else lit_loop rs a b true
  end.

Fixpoint take_while {A} (f : A -> bool) (l : list A) : list A :=
  match l with
  | x :: l' => if f x then x :: take_while f l' else []
  | [] => []
  end.
(** number of children left after the trailing EndOfFile/Indent/Dedent/Implicit are cut *)
Definition n_keep (cs : list seg) : nat := (length cs - length (take_while seg_strip (rev cs)))%nat.

(** [iter_patches]. The gap test is a comparison, [templated_slice.start > templated_idx] (a child that
    starts before the running index - code moved backwards by a rule - is "no gap"; before the repair
    this was a [usize] subtraction that panicked with overflow checks and wrapped without); the tail
    test is [templated_slice.end != templated_idx], and an inverted tail range is read as the empty
    string ([get(range)]; the two strings are not part of [patch]). *)
Fixpoint iter_patches (tf : tfile) (s : seg) : list patch :=
  match s with
  | Leaf _ r p =>
      if str_eqb r (sub (tpl tf) (t0 p) (t1 p)) then []
      else if is_literal (rawsl tf) (s0 p) (s1 p) then [mkPatch (s0 p) (s1 p) r]
      else []
  | Node _ p sfx cs =>
      let r := flat_map raw cs in
      if str_eqb r (sub (tpl tf) (t0 p) (t1 p)) then sfx
      else if is_literal (rawsl tf) (s0 p) (s1 p) then sfx ++ [mkPatch (s0 p) (s1 p) r]
      else
        match cs with
        | [] => []
        | _ =>
          (fix loop (l : list seg) (k : nat) (sidx tidx : N) (buf : str) {struct l} : list patch :=
             match l with
             | c :: l' =>
                 match k with
                 | S k' =>
                     let cp := seg_pos c in
                     if negb (is_empty (raw c)) && is_point cp then
                       loop l' k' sidx tidx (buf ++ raw c)
                     else
                       let fp := first_leaf_pos c in
                       let gap := if (tidx <? t0 cp) || negb (is_empty buf)
                                  then [mkPatch sidx (s0 fp) buf] else [] in
                       gap ++ iter_patches tf c ++ loop l' k' (s1 cp) (t1 cp) []
                 | O =>
                     if negb (t1 p =? tidx) || negb (is_empty buf)
                     then [mkPatch sidx (s1 p) buf] else []
                 end
             | [] =>
                 if negb (t1 p =? tidx) || negb (is_empty buf)
                 then [mkPatch sidx (s1 p) buf] else []
             end) cs (n_keep cs) (s0 p) (t0 p) []
        end
  end.

(** What [Linter::lint_parsed] + [LintedFile::fix_string] write for a final tree. *)
Definition fixed_text (tf : tfile) (t : seg) : str := fix_string (src tf) (iter_patches tf t).
