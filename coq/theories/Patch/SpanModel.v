(** C04, conflict side: [TemplatedFileInner::raw_slices_spanning_source_slice]
    (crates/lib-core/src/templaters/base.rs) - the raw slices a source range touches. It is what
    [LintFix::has_template_conflicts] (through [fix_slices]) looks at to decide whether a fix edits
    templated code. Executable definitions only; the index pair [(raw_slice_idx, slice_span)] of the
    Rust loops is represented by the list suffix it points at. *)
From Sq Require Import Base.Bytes.

(** a raw slice: (source_idx, byte length of its raw text, slice_type == "templated") *)
Definition rsl := (N * N * bool)%type.
Definition r_idx (x : rsl) : N := fst (fst x).
Definition r_len (x : rsl) : N := snd (fst x).
Definition r_tpl (x : rsl) : bool := snd x.

(** first loop: [while idx + 1 < len && raw_sliced[idx + 1].source_idx <= start { idx += 1 }] *)
Fixpoint skip_to (l : list rsl) (a : N) : list rsl :=
  match l with
  | x :: l' =>
      match l' with
      | y :: _ => if r_idx y <=? a then skip_to l' a else l
      | [] => l
      end
  | [] => []
  end.

(** second loop (after the slice the first loop stopped at, which is always returned):
    [while idx + span < len && raw_sliced[idx + span].source_idx < end { span += 1 }] *)
Fixpoint take_span (l : list rsl) (b : N) : list rsl :=
  match l with
  | y :: l' => if r_idx y <? b then y :: take_span l' b else []
  | [] => []
  end.

(** [None] = the [unwrap] of [raw_sliced.last()] panics (no raw slice at all). *)
Definition spanning (l : list rsl) (a b : N) : option (list rsl) :=
  match rev l with
  | [] => None
  | z :: _ =>
      if r_idx z + r_len z <=? a then Some []
      else match skip_to l a with
           | x :: l' => Some (x :: take_span l' b)
           | [] => Some []
           end
  end.

(** the verdict of [has_template_conflicts] for deletions / replacements over these slices *)
Definition any_templated (r : list rsl) : bool := existsb r_tpl r.

(** raw slices as the templaters build them: contiguous from [i] (zero-length slices allowed) *)
Fixpoint tiles (l : list rsl) (i : N) : Prop :=
  match l with
  | [] => True
  | x :: l' => r_idx x = i /\ tiles l' (i + r_len x)
  end.
