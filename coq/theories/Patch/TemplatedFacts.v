(** C04, templated clause: what [aligned] means for the placeholders' own source text - an aligned patch
    never reaches into the source range of a templated slice (it ends at or before its start, or starts at or
    after its end), and its templated image never reaches into the rendering.  So under [tree_ok] no patch of
    the final tree touches a placeholder: the conflict filter (C04_conflict_verdict) did its job. *)
From Sq Require Import Base.Bytes Patch.Model Patch.Proofs Patch.TemplatedModel Patch.TemplatedWeave Patch.TemplatedTree.
From Sq Require Templ.Model Templ.ProcProofs.
Arguments N.add : simpl never.
Arguments N.sub : simpl never.
Arguments N.eqb : simpl never.
Arguments N.ltb : simpl never.
Arguments N.leb : simpl never.

(** two members of a tiling slice list: the same position in the list, or one wholly before the other
    (in both texts) *)
Lemma tl_order : forall sr tp sl ps pt a b, tl sr tp sl ps pt -> In a sl -> In b sl ->
  a = b \/ (TM.s1 a <= TM.s0 b /\ TM.t1 a <= TM.t0 b) \/ (TM.s1 b <= TM.s0 a /\ TM.t1 b <= TM.t0 a).
Proof.
  intros sr tp. induction sl as [|x sl IH]; intros ps pt a b H Ha Hb; [destruct Ha|].
  pose proof H as H0. cbn [tl] in H0. destruct H0 as (_ & _ & _ & _ & _ & _ & _ & _ & H9).
  destruct Ha as [<-|Ha]; destruct Hb as [<-|Hb].
  - left. reflexivity.
  - right. left. destruct (tl_In _ _ _ _ _ _ H9 Hb) as (A & B & _). split; assumption.
  - right. right. destruct (tl_In _ _ _ _ _ _ H9 Ha) as (A & B & _). split; assumption.
  - eapply IH; eauto.
Qed.

Lemma tl_lit : forall sr tp sl ps pt s, tl sr tp sl ps pt -> In s sl -> TM.ty s = TM.SLit ->
  TM.s1 s - TM.s0 s = TM.t1 s - TM.t0 s /\ TM.t0 s <= TM.t1 s /\ TM.s0 s <= TM.s1 s.
Proof.
  intros sr tp. induction sl as [|x sl IH]; intros ps pt s Ht Hs L; [destruct Hs|].
  cbn [tl] in Ht. destruct Ht as (_ & _ & H3 & _ & H5 & _ & _ & H8 & H9).
  destruct Hs as [<-|Hs]; [destruct (H8 L); auto | eapply IH; eauto].
Qed.

Theorem aligned_untouched : forall sr tp sl d k,
  tl sr tp sl 0 0 -> aligned 0 0 sl d = true -> In k sl -> TM.ty k = TM.STempl ->
  (db d <= TM.s0 k \/ TM.s1 k <= da d) /\ (dv d <= TM.t0 k \/ TM.t1 k <= du d).
Proof.
  intros sr tp sl d k Ht Ha Hk Tk. apply aligned_al in Ha.
  destruct (tl_In _ _ _ _ _ _ Ht Hk) as (K1 & K2 & K3 & K4 & _).
  destruct Ha as [[s [Hs Hi]] | (Z1 & Z2 & [[A B] | [s [Hs [A B]]]])].
  - destruct Hi as (L & I1 & I2 & I3 & I4 & I5).
    pose proof (tl_lit _ _ _ _ _ _ Ht Hs L) as EL.
    destruct EL as (EL & E1 & E2).
    destruct (tl_order _ _ _ _ _ s k Ht Hs Hk) as [->|[[O1 O2]|[O1 O2]]]; [congruence| |]; split; lia.
  - split; lia.
  - destruct (tl_In _ _ _ _ _ _ Ht Hs) as (S1 & S2 & S3 & S4 & _).
    destruct (tl_order _ _ _ _ _ s k Ht Hs Hk) as [->|[[O1 O2]|[O1 O2]]]; split; lia.
Qed.

(** Under [tree_ok] no patch of the final tree touches a placeholder's source text. *)
Corollary tree_ok_untouched : forall tf sl t p k,
  TP.tiling (src tf) (tpl tf) sl 0 0 -> tree_ok tf sl t = true ->
  In p (iter_patches tf t) -> In k sl -> TM.ty k = TM.STempl ->
  p_e p <= TM.s0 k \/ TM.s1 k <= p_s p.
Proof.
  intros tf sl t p k Ht Hok Hp Hk Tk. unfold tree_ok in Hok.
  destruct (dpatches tf t) as [ds|] eqn:Ed; [|discriminate].
  repeat (apply andb_true_iff in Hok; destruct Hok as [Hok ?]).
  rewrite <- (dpatches_erase _ _ _ Ed) in Hp. apply in_map_iff in Hp. destruct Hp as [d [<- Hd]].
  rewrite forallb_forall in H. specialize (H d Hd).
  destruct (aligned_untouched _ _ _ _ _ (tiling_tl _ _ _ _ _ Ht) H Hk Tk) as [A _]. exact A.
Qed.

(** * The untemplated clause is an instance *)
Lemma one_patch_ok : forall n r,
  sdb 0 (map spatch [mkD 0 n 0 n r]) && forallb (aligned 0 0 [TM.mk_ts TM.SLit 0 n 0 n]) [mkD 0 n 0 n r] = true.
Proof.
  intros n r. unfold aligned, in_slice, is_lit, mem_key.
  cbn [map spatch sdb forallb existsb TM.ty TM.stype_eqb TM.s0 TM.s1 TM.t0 TM.t1
       da db du dv dr p_s p_e p_key andb orb negb].
  replace (0 <=? 0) with true by reflexivity.
  replace (0 <=? n) with true by (symmetry; apply N.leb_le; lia).
  replace (n <=? n) with true by (symmetry; apply N.leb_le; lia).
  replace (0 =? 0 + (0 - 0)) with true by reflexivity.
  replace (n =? 0 + (n - 0)) with true by (symmetry; apply N.eqb_eq; lia).
  reflexivity.
Qed.

Theorem tree_ok_untemplated : forall tf t,
  untemplated tf -> spans_file tf t -> root_sfx t = [] ->
  tree_ok tf [TM.mk_ts TM.SLit 0 (len (src tf)) 0 (len (src tf))] t = true.
Proof.
  intros tf t [Ht Hr] Hsp Hsfx. unfold spans_file in Hsp. unfold tree_ok. rewrite Hsp. cbn [t0 t1]. rewrite Ht, !N.eqb_refl. cbn [andb].
  assert (Hle : (0 <=? len (src tf)) = true) by (apply N.leb_le; lia).
  destruct t as [b r p | b p sfx cs]; cbn [seg_pos root_sfx] in *; subst p; try subst sfx.
  - cbn [dpatches t0 t1 s0 s1]. rewrite Hle. cbn [negb]. rewrite Ht, Hr.
    destruct (str_eqb r (sub (src tf) 0 (len (src tf)))); [reflexivity|].
    rewrite is_literal_untemplated. apply one_patch_ok.
  - rewrite dpatches_node. cbn [t0 t1 s0 s1 is_empty]. rewrite Hle. cbn [negb orb]. rewrite Ht, Hr.
    destruct (str_eqb (flat_map raw cs) (sub (src tf) 0 (len (src tf)))); [reflexivity|].
    rewrite is_literal_untemplated. apply one_patch_ok.
Qed.

(** [C04_untemplated] again, now as a corollary of the templated theorem (no placeholder: one literal piece) *)
Corollary untemplated_from_templated : forall tf t,
  untemplated tf -> spans_file tf t -> root_sfx t = [] -> fixed_text tf t = raw t.
Proof.
  intros tf t Hu Hsp Hsfx.
  destruct (templated_fixed_text_b tf [TM.mk_ts TM.SLit 0 (len (src tf)) 0 (len (src tf))] t) as [lits [Hl [Hx Hy]]].
  - destruct Hu as [Ht Hr]. cbn [tilingb TM.s0 TM.s1 TM.t0 TM.t1 is_lit is_templ TM.ty TM.stype_eqb negb orb andb].
    rewrite Ht. rewrite !N.eqb_refl, N.leb_refl.
    replace (0 <=? len (src tf)) with true by (symmetry; apply N.leb_le; lia).
    cbn [andb]. replace (str_eqb (sub (src tf) 0 (len (src tf))) (sub (src tf) 0 (len (src tf)))) with true
      by (symmetry; apply str_eqb_eq; reflexivity).
    reflexivity.
  - apply tree_ok_untemplated; assumption.
  - unfold render, phs, rds in *. cbn [filter is_templ TM.ty TM.stype_eqb map length] in *.
    destruct lits as [|l [|l2 lits]]; try discriminate. cbn [weave] in *. congruence.
Qed.
