(** Proofs about the patch pipeline model (Model.v). *)
From Coq Require Import Permutation.
From Sq Require Import Patch.Model.
Arguments N.add : simpl never.
Arguments N.sub : simpl never.
Arguments N.eqb : simpl never.
Arguments N.ltb : simpl never.
Arguments N.leb : simpl never.

(** * Basics *)
Lemma str_eqb_eq : forall a b, str_eqb a b = true <-> a = b.
Proof.
  induction a as [|x a IH]; destruct b as [|y b]; cbn [str_eqb]; split; intro H;
    try reflexivity; try discriminate.
  - apply andb_true_iff in H. destruct H as [H1 H2]. apply N.eqb_eq in H1. apply IH in H2. congruence.
  - inversion H; subst. apply andb_true_iff. split; [apply N.eqb_refl | apply IH; reflexivity].
Qed.

Lemma slice_eqb_eq : forall a b, slice_eqb a b = true <-> a = b.
Proof.
  intros [a1 a2] [b1 b2]. unfold slice_eqb. cbn [fst snd]. rewrite andb_true_iff, !N.eqb_eq.
  split; [intros [? ?]; congruence | intro H; inversion H; auto].
Qed.
Lemma slice_eqb_refl : forall a, slice_eqb a a = true.
Proof. intro a. apply slice_eqb_eq. reflexivity. Qed.
Lemma slice_eqb_neq : forall a b, slice_eqb a b = false <-> a <> b.
Proof.
  intros a b. split.
  - intros H E. apply slice_eqb_eq in E. congruence.
  - intro H. destruct (slice_eqb a b) eqn:E; [apply slice_eqb_eq in E; contradiction | reflexivity].
Qed.

Lemma key_eqb_eq : forall a b, key_eqb a b = true <-> a = b.
Proof.
  intros [a1 a2] [b1 b2]. unfold key_eqb. cbn [fst snd]. rewrite andb_true_iff, slice_eqb_eq, str_eqb_eq.
  split; [intros [? ?]; congruence | intro H; inversion H; auto].
Qed.
Lemma mem_key_In : forall x l, mem_key x l = true <-> In x l.
Proof.
  intros x l. unfold mem_key. rewrite existsb_exists. split.
  - intros [y [Hy E]]. apply key_eqb_eq in E. subst. exact Hy.
  - intro H. exists x. split; [exact H | apply key_eqb_eq; reflexivity].
Qed.

(** * [sub] *)
Lemma firstn_firstn_skipn : forall {A} (n m : nat) (l : list A),
  firstn n l ++ firstn m (skipn n l) = firstn (n + m) l.
Proof.
  induction n as [|n IH]; intros m l; cbn [firstn skipn plus app].
  - reflexivity.
  - destruct l as [|x l]; cbn [firstn skipn app].
    + rewrite firstn_nil. reflexivity.
    + rewrite IH. reflexivity.
Qed.
Lemma skipn_skipn_add : forall {A} (n m : nat) (l : list A), skipn m (skipn n l) = skipn (n + m) l.
Proof.
  induction n as [|n IH]; intros m l; cbn [skipn plus].
  - reflexivity.
  - destruct l as [|x l]; cbn [skipn]; [apply skipn_nil | apply IH].
Qed.

Lemma sub_app : forall s a b c, a <= b -> b <= c -> sub s a b ++ sub s b c = sub s a c.
Proof.
  intros s a b c Hab Hbc. unfold sub.
  replace (N.to_nat b) with (N.to_nat a + N.to_nat (b - a))%nat by lia.
  rewrite <- skipn_skipn_add. rewrite firstn_firstn_skipn. f_equal. lia.
Qed.
Lemma sub_nil : forall s a b, b <= a -> sub s a b = [].
Proof. intros s a b H. unfold sub. replace (b - a) with 0 by lia. reflexivity. Qed.
Lemma sub_full : forall s, sub s 0 (len s) = s.
Proof.
  intro s. unfold sub, len. cbn [N.to_nat skipn]. rewrite N.sub_0_r, Nnat.Nat2N.id. apply firstn_all.
Qed.

(** * sort *)
Lemma insert_perm : forall p l, Permutation (insert_by_start p l) (p :: l).
Proof.
  intros p l. induction l as [|q l IH]; cbn [insert_by_start].
  - apply Permutation_refl.
  - destruct (p_s p <=? p_s q); [apply Permutation_refl|].
    eapply Permutation_trans; [apply perm_skip; exact IH | apply perm_swap].
Qed.
Lemma sort_perm : forall ps, Permutation (sort_by_start ps) ps.
Proof.
  induction ps as [|p ps IH]; cbn [sort_by_start]; [constructor|].
  eapply Permutation_trans; [apply insert_perm | apply perm_skip; exact IH].
Qed.

Fixpoint ssorted (l : list patch) : Prop :=
  match l with
  | [] => True
  | p :: l' => (forall q, In q l' -> p_s p <= p_s q) /\ ssorted l'
  end.
Lemma insert_sorted : forall p l, ssorted l -> ssorted (insert_by_start p l).
Proof.
  intros p l. induction l as [|q l IH]; intro Hs; cbn [insert_by_start].
  - cbn. split; [intros ? []|exact I].
  - destruct Hs as [Hq Hl]. destruct (p_s p <=? p_s q) eqn:E.
    + apply N.leb_le in E. cbn [ssorted]. split; [|split; assumption].
      intros r [Hr|Hr]; [subst; exact E | specialize (Hq r Hr); lia].
    + apply N.leb_gt in E. cbn [ssorted]. split; [|apply IH; exact Hl].
      intros r Hr. apply (Permutation_in _ (insert_perm p l)) in Hr.
      destruct Hr as [Hr|Hr]; [subst; lia | apply Hq; exact Hr].
Qed.
Lemma sort_sorted : forall ps, ssorted (sort_by_start ps).
Proof. induction ps as [|p ps IH]; cbn [sort_by_start]; [exact I | apply insert_sorted; exact IH]. Qed.

Lemma find_from_none : forall ps r,
  (forall q, In q ps -> p_slice q <> r) -> find_from r ps = None.
Proof.
  induction ps as [|q ps IH]; intros r H; cbn [find_from]; [reflexivity|].
  destruct (slice_eqb (p_slice q) r) eqn:E.
  - apply slice_eqb_eq in E. exfalso. apply (H q); [left; reflexivity | exact E].
  - apply IH. intros q' Hq'. apply H. right. exact Hq'.
Qed.
Lemma find_from_skip : forall skipped p rest,
  (forall q, In q skipped -> p_slice q <> p_slice p) ->
  find_from (p_slice p) (skipped ++ p :: rest) = Some (p, rest).
Proof.
  induction skipped as [|q sk IH]; intros p rest H; cbn [app find_from].
  - rewrite slice_eqb_refl. reflexivity.
  - destruct (slice_eqb (p_slice q) (p_slice p)) eqn:E.
    + apply slice_eqb_eq in E. exfalso. apply (H q); [left; reflexivity | exact E].
    + apply IH. intros q' Hq'. apply H. right. exact Hq'.
Qed.

(** * The slicing loop followed by the build loop is [splice] of the non-overlapping patches *)
Lemma slice_loop_nil_so : forall p ps idx n,
  slice_loop (p :: ps) [] idx n =
  (if idx <? p_s p then [(idx, p_s p)] else []) ++
  (if p_s p <? idx then slice_loop ps [] idx n else p_slice p :: slice_loop ps [] (p_e p) n).
Proof. intros. cbn [slice_loop pop_so app]. destruct (p_s p <? idx); reflexivity. Qed.

Lemma build_loop : forall src rest skipped idx,
  ssorted rest -> (forall q, In q skipped -> p_s q < idx) ->
  build (slice_loop rest [] idx (len src)) (skipped ++ rest) src = splice src idx (drop_overlap idx rest).
Proof.
  intros src. induction rest as [|p rest IH]; intros skipped idx Hs Hsk.
  - rewrite app_nil_r. cbn [slice_loop drop_overlap splice].
    destruct (idx <? len src) eqn:E.
    + apply N.ltb_lt in E. cbn [build]. rewrite find_from_none.
      * cbn [fst snd]. apply app_nil_r.
      * intros q Hq Heq. unfold p_slice in Heq. inversion Heq. specialize (Hsk q Hq). lia.
    + apply N.ltb_ge in E. rewrite sub_nil by exact E. reflexivity.
  - destruct Hs as [Hhead Hs]. rewrite slice_loop_nil_so. cbn [drop_overlap].
    assert (Hnone : idx < p_s p -> find_from (idx, p_s p) (skipped ++ p :: rest) = None).
    { intro E. apply find_from_none. intros q Hq Heq. unfold p_slice in Heq. inversion Heq.
      apply in_app_or in Hq. destruct Hq as [Hq|[Hq|Hq]].
      - specialize (Hsk q Hq). lia.
      - subst q. lia.
      - specialize (Hhead q Hq). lia. }
    destruct (p_s p <? idx) eqn:E.
    + (* overlapping patch: skipped *)
      apply N.ltb_lt in E. replace (idx <? p_s p) with false by (symmetry; apply N.ltb_ge; lia).
      cbn [app]. replace (skipped ++ p :: rest) with ((skipped ++ [p]) ++ rest) by (rewrite <- app_assoc; reflexivity).
      apply IH; [exact Hs|]. intros q Hq. apply in_app_or in Hq.
      destruct Hq as [Hq|[Hq|[]]]; [apply Hsk; exact Hq | subst q; exact E].
    + apply N.ltb_ge in E. cbn [splice].
      assert (Hfind : find_from (p_slice p) (skipped ++ p :: rest) = Some (p, rest)).
      { apply find_from_skip. intros q Hq Heq. unfold p_slice in Heq. inversion Heq. specialize (Hsk q Hq). lia. }
      destruct (idx <? p_s p) eqn:G.
      * apply N.ltb_lt in G. cbn [app build]. rewrite (Hnone G). cbn [fst snd]. f_equal.
        rewrite Hfind. f_equal. apply (IH [] (p_e p) Hs). intros ? [].
      * apply N.ltb_ge in G. rewrite sub_nil by exact G. cbn [app build]. rewrite Hfind. f_equal.
        apply (IH [] (p_e p) Hs). intros ? [].
Qed.

Definition wf_ranges (ps : list patch) : Prop := forall p, In p ps -> p_s p <= p_e p.

Theorem fix_string_spec : forall src ps, fix_string src ps = splice src 0 (normalise ps).
Proof.
  intros src ps. unfold fix_string, fix_string_so, normalise.
  apply (build_loop src (generate_source_patches ps) [] 0).
  - apply sort_sorted.
  - intros ? [].
Qed.

(** * Sorted, disjoint, duplicate-free patch lists are applied as they are *)
Fixpoint sd (idx : N) (ps : list patch) : Prop :=
  match ps with
  | [] => True
  | p :: ps' => idx <= p_s p /\ p_s p <= p_e p /\ (forall q, In q ps' -> p_key q <> p_key p) /\ sd (p_e p) ps'
  end.
Definition sorted_disjoint (ps : list patch) : Prop := sd 0 ps.

Lemma sd_lower : forall ps idx, sd idx ps -> forall q, In q ps -> idx <= p_s q /\ p_s q <= p_e q.
Proof.
  induction ps as [|p ps IH]; intros idx H q Hq; [destruct Hq|].
  destruct H as [H1 [H2 [_ H4]]]. destruct Hq as [Hq|Hq]; [subst; split; assumption|].
  destruct (IH _ H4 q Hq). split; lia.
Qed.
Lemma sd_weaken : forall ps i j, j <= i -> sd i ps -> sd j ps.
Proof. destruct ps as [|p ps]; intros i j Hji H; [exact I|]. destruct H as [H1 H2]. split; [lia|exact H2]. Qed.

Lemma dedupe_id : forall ps idx seen, sd idx ps ->
  (forall q, In q ps -> ~ In (p_key q) seen) -> dedupe seen ps = ps.
Proof.
  induction ps as [|p ps IH]; intros idx seen H Hseen; [reflexivity|].
  cbn [dedupe]. destruct (mem_key (p_key p) seen) eqn:E.
  - apply mem_key_In in E. exfalso. apply (Hseen p); [left; reflexivity | exact E].
  - destruct H as [_ [_ [Hnd Hsd]]]. f_equal. apply (IH (p_e p)); [exact Hsd|].
    intros q Hq [Hin|Hin].
    + apply (Hnd q Hq). symmetry. exact Hin.
    + apply (Hseen q); [right; exact Hq | exact Hin].
Qed.
Lemma sort_id : forall ps, ssorted ps -> sort_by_start ps = ps.
Proof.
  induction ps as [|p ps IH]; intro H; [reflexivity|]. destruct H as [Hh Hs].
  cbn [sort_by_start]. rewrite IH by exact Hs. destruct ps as [|q ps]; [reflexivity|].
  cbn [insert_by_start]. specialize (Hh q (or_introl eq_refl)). apply N.leb_le in Hh. rewrite Hh. reflexivity.
Qed.
Lemma sd_ssorted : forall ps idx, sd idx ps -> ssorted ps.
Proof.
  induction ps as [|p ps IH]; intros idx H; [exact I|]. destruct H as [H1 [H2 [_ H4]]].
  split; [|apply (IH _ H4)]. intros q Hq. destruct (sd_lower _ _ H4 q Hq). lia.
Qed.
Lemma drop_overlap_id : forall ps idx, sd idx ps -> drop_overlap idx ps = ps.
Proof.
  induction ps as [|p ps IH]; intros idx H; [reflexivity|]. destruct H as [H1 [H2 [_ H4]]].
  cbn [drop_overlap]. apply N.ltb_ge in H1. rewrite H1. f_equal. apply IH. exact H4.
Qed.

Theorem normalise_id : forall ps, sorted_disjoint ps -> normalise ps = ps.
Proof.
  intros ps H. unfold normalise, generate_source_patches.
  rewrite (dedupe_id ps 0 [] H) by (intros ? ? []).
  rewrite sort_id by (apply (sd_ssorted _ _ H)). apply drop_overlap_id. exact H.
Qed.

Lemma sd_wf : forall ps idx, sd idx ps -> wf_ranges ps.
Proof. intros ps idx H p Hp. apply (sd_lower _ _ H p Hp). Qed.

Corollary fix_string_sorted : forall src ps, sorted_disjoint ps -> fix_string src ps = splice src 0 ps.
Proof.
  intros src ps H. rewrite fix_string_spec. rewrite normalise_id by exact H. reflexivity.
Qed.

(** * Source text outside every patch survives (placeholders are untouched) *)
Lemma splice_keeps : forall src ps idx a b,
  sd idx ps -> idx <= a -> a <= b -> b <= len src ->
  (forall p, In p ps -> p_e p <= a \/ b <= p_s p) ->
  exists pre post, splice src idx ps = pre ++ sub src a b ++ post.
Proof.
  intros src. induction ps as [|p ps IH]; intros idx a b Hsd Hia Hab Hb Hdis; cbn [splice].
  - exists (sub src idx a), (sub src b (len src)).
    rewrite (sub_app src a b (len src)) by assumption. rewrite sub_app by lia. reflexivity.
  - destruct Hsd as [H1 [H2 [_ H4]]]. destruct (Hdis p (or_introl eq_refl)) as [Hd|Hd].
    + destruct (IH (p_e p) a b H4 Hd Hab Hb) as [pre [post E]].
      { intros q Hq. apply Hdis. right. exact Hq. }
      exists (sub src idx (p_s p) ++ p_raw p ++ pre), post. rewrite E. rewrite <- !app_assoc. reflexivity.
    + exists (sub src idx a), (sub src b (p_s p) ++ p_raw p ++ splice src (p_e p) ps).
      rewrite <- (sub_app src idx a (p_s p)) by lia.
      rewrite <- (sub_app src a b (p_s p)) by lia.
      rewrite <- !app_assoc. reflexivity.
Qed.

(** * Trees: what [iter_patches] yields at a literal root, and the end-to-end statements *)
Definition root_sfx (s : seg) : list patch := match s with Leaf _ _ _ => [] | Node _ _ sfx _ => sfx end.
Definition unchanged (tf : tfile) (t : seg) : bool :=
  str_eqb (raw t) (sub (tpl tf) (t0 (seg_pos t)) (t1 (seg_pos t))).

Lemma iter_patches_unchanged : forall tf t, unchanged tf t = true -> iter_patches tf t = root_sfx t.
Proof.
  intros tf t H. unfold unchanged in H. destruct t as [b r p | b p sfx cs]; cbn [iter_patches raw seg_pos root_sfx] in *.
  - rewrite H. reflexivity.
  - rewrite H. reflexivity.
Qed.

Lemma iter_patches_literal : forall tf t,
  unchanged tf t = false ->
  is_literal (rawsl tf) (s0 (seg_pos t)) (s1 (seg_pos t)) = true ->
  iter_patches tf t = root_sfx t ++ [mkPatch (s0 (seg_pos t)) (s1 (seg_pos t)) (raw t)].
Proof.
  intros tf t H L. unfold unchanged in H. destruct t as [b r p | b p sfx cs]; cbn [iter_patches raw seg_pos root_sfx] in *.
  - rewrite H, L. reflexivity.
  - rewrite H, L. reflexivity.
Qed.

Definition untemplated (tf : tfile) : Prop := tpl tf = src tf /\ rawsl tf = [(0, true)].
Definition spans_file (tf : tfile) (t : seg) : Prop :=
  seg_pos t = mkPos 0 (len (src tf)) 0 (len (src tf)).

Lemma is_literal_untemplated : forall a b, is_literal [(0, true)] a b = true.
Proof.
  intros a b. unfold is_literal. destruct (a =? b); [reflexivity|]. cbn [lit_loop].
  replace (0 <=? a) with true by (symmetry; apply N.leb_le; lia). reflexivity.
Qed.

Lemma fix_string_nil : forall s, fix_string s [] = s.
Proof.
  intro s. rewrite fix_string_spec. cbn. apply sub_full.
Qed.

Lemma fix_string_whole : forall s r, fix_string s [mkPatch 0 (len s) r] = r.
Proof.
  intros s r. rewrite fix_string_sorted.
  - cbn [splice p_s p_e p_raw]. rewrite !sub_nil by lia. rewrite app_nil_r. reflexivity.
  - unfold sorted_disjoint. cbn [sd p_s p_e]. split; [lia|]. split; [lia|]. split; [intros ? []|exact I].
Qed.

(** Without templating the text that [fix] writes is the text of the final tree. *)
Theorem fixed_text_untemplated : forall tf t,
  untemplated tf -> spans_file tf t -> root_sfx t = [] ->
  fixed_text tf t = raw t.
Proof.
  intros tf t [Ht Hr] Hsp Hsfx. unfold fixed_text.
  destruct (unchanged tf t) eqn:U.
  - rewrite iter_patches_unchanged by exact U. rewrite Hsfx, fix_string_nil.
    unfold unchanged in U. apply str_eqb_eq in U. rewrite U, Hsp, Ht. cbn [t0 t1]. symmetry. apply sub_full.
  - rewrite iter_patches_literal; [| exact U | rewrite Hr; apply is_literal_untemplated].
    rewrite Hsfx, Hsp. cbn [app s0 s1]. apply fix_string_whole.
Qed.

(** A tree that still reads as the templated text it was parsed from produces no patch:
    the file is written back byte-identical (templated or not). *)
Theorem fixed_text_unchanged : forall tf t,
  unchanged tf t = true -> root_sfx t = [] -> fixed_text tf t = src tf.
Proof.
  intros tf t U Hsfx. unfold fixed_text. rewrite iter_patches_unchanged by exact U.
  rewrite Hsfx. apply fix_string_nil.
Qed.

(** With templating: when the patches of the final tree are sorted and disjoint, every source
    range that no patch touches (every placeholder the conflict filter protected) is in the
    fixed text, between the fixed text of what precedes and what follows it. *)
Theorem fixed_text_keeps : forall tf t a b,
  sorted_disjoint (iter_patches tf t) -> a <= b -> b <= len (src tf) ->
  (forall p, In p (iter_patches tf t) -> p_e p <= a \/ b <= p_s p) ->
  exists pre post, fixed_text tf t = pre ++ sub (src tf) a b ++ post.
Proof.
  intros tf t a b Hsd Hab Hb Hdis. unfold fixed_text. rewrite fix_string_sorted by exact Hsd.
  apply splice_keeps; try assumption. lia.
Qed.



(** * Non-vacuity *)
Ltac sd_tac := unfold sorted_disjoint; cbn [sd p_s p_e];
  repeat match goal with
  | |- _ /\ _ => split
  | |- True => exact I
  | |- _ <= _ => lia
  | |- forall q, In q _ -> _ =>
      let q := fresh "q" in let H := fresh "H" in intros q H; cbn [In] in H;
      repeat (destruct H as [H|H]; [subst q; cbv; congruence|]); destruct H
  end.
Definition ex_src : str := [115;101;108;32;49;10].            (* "sel 1\n" *)
Definition ex_tf : tfile := mkTf ex_src ex_src [(0, true)].
Definition ex_tree : seg :=
  Node false (mkPos 0 6 0 6) []
    [Leaf false [83;69;76] (mkPos 0 3 0 3); Leaf false [32] (mkPos 3 4 3 4);
     Leaf false [49] (mkPos 4 5 4 5); Leaf false [10] (mkPos 5 6 5 6); Leaf true [] (mkPos 6 6 6 6)].
Example ex_untemplated : untemplated ex_tf /\ spans_file ex_tf ex_tree /\ root_sfx ex_tree = [] /\
  unchanged ex_tf ex_tree = false /\ fixed_text ex_tf ex_tree = [83;69;76;32;49;10].
Proof. repeat split. Qed.

Definition ex_ps : list patch := [mkPatch 4 5 [55]; mkPatch 0 3 [83]; mkPatch 4 5 [56]; mkPatch 2 4 [57]].
Example ex_spec : normalise ex_ps = [mkPatch 0 3 [83]; mkPatch 4 5 [55]] /\
  fix_string ex_src ex_ps = [83;32;55;10].
Proof.
  split; reflexivity.
Qed.
(* two different insertions at one source position are both applied, in order *)
Example ex_two_insertions : sorted_disjoint [mkPatch 1 1 [65]; mkPatch 1 1 [66]] /\
  fix_string [97; 98] [mkPatch 1 1 [65]; mkPatch 1 1 [66]] = [97; 65; 66; 98].
Proof. split; [sd_tac | reflexivity]. Qed.
Example ex_sorted : sorted_disjoint [mkPatch 0 3 [83]; mkPatch 3 3 [32]; mkPatch 4 5 [55]].
Proof. sd_tac. Qed.

(* "a :x\n" rendered "a 12\n": the placeholder [2,4) is not touched by the patch of the first token *)
Definition ex_tf2 : tfile := mkTf [97;32;58;120;10] [97;32;49;50;10] [(0, true); (2, false); (4, true)].
Definition ex_tree2 : seg :=
  Node false (mkPos 0 5 0 5) []
    [Leaf false [65] (mkPos 0 1 0 1); Leaf false [32] (mkPos 1 2 1 2);
     Leaf false [49;50] (mkPos 2 4 2 4); Leaf false [10] (mkPos 4 5 4 5); Leaf true [] (mkPos 5 5 5 5)].
Example ex_keeps : iter_patches ex_tf2 ex_tree2 = [mkPatch 0 1 [65]] /\
  sorted_disjoint (iter_patches ex_tf2 ex_tree2) /\
  fixed_text ex_tf2 ex_tree2 = [65;32;58;120;10].
Proof.
  split; [reflexivity|]. split; [|reflexivity].
  change (iter_patches ex_tf2 ex_tree2) with [mkPatch 0 1 [65]]. sd_tac.
Qed.
