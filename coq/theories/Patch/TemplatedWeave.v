(** C04, templated clause, slice side: a list of patches that is sorted in the source AND in the
    templated text and whose members are each aligned with one literal slice (or are insertions at a
    slice border) rewrites both texts in step: the patched source and the patched templated text are
    the same literal pieces woven around the placeholders' source texts / their renderings. *)
From Sq Require Import Base.Bytes Patch.Model Patch.Proofs Patch.TemplatedModel.
From Sq Require Templ.Model Templ.ProcProofs.
Module TP := Sq.Templ.ProcProofs.
Arguments N.add : simpl never.
Arguments N.sub : simpl never.
Arguments N.eqb : simpl never.
Arguments N.ltb : simpl never.
Arguments N.leb : simpl never.

(** * [sub] of [sub] *)
Lemma sub_sub : forall (s : str) a b x y, a <= x -> x <= y -> y <= b ->
  sub (sub s a b) (x - a) (y - a) = sub s x y.
Proof.
  intros s a b x y Hax Hxy Hyb. unfold sub.
  rewrite skipn_firstn_comm, firstn_firstn, skipn_skipn_add.
  replace (N.to_nat a + N.to_nat (x - a))%nat with (N.to_nat x) by lia.
  f_equal. lia.
Qed.

(** * Tiling with this file's [sub]/[len] (convertible with [Templ.ProcProofs.tiling]) *)
Fixpoint tl (sr tp : str) (sl : list TM.tslice) (ps pt : N) : Prop :=
  match sl with
  | [] => ps = len sr /\ pt = len tp
  | s :: sl' =>
      TM.s0 s = ps /\ TM.t0 s = pt /\ TM.s0 s <= TM.s1 s /\ TM.s1 s <= len sr /\
      TM.t0 s <= TM.t1 s /\ TM.t1 s <= len tp /\
      (TM.ty s = TM.SLit \/ TM.ty s = TM.STempl) /\
      (TM.ty s = TM.SLit -> sub sr (TM.s0 s) (TM.s1 s) = sub tp (TM.t0 s) (TM.t1 s) /\
                            TM.s1 s - TM.s0 s = TM.t1 s - TM.t0 s) /\
      tl sr tp sl' (TM.s1 s) (TM.t1 s)
  end.

Lemma tiling_tl : forall sr tp sl ps pt, TP.tiling sr tp sl ps pt -> tl sr tp sl ps pt.
Proof.
  intros sr tp. induction sl as [|s sl IH]; intros ps pt H.
  - exact H.
  - cbn [TP.tiling] in H. destruct H as (H1 & H2 & H3 & H4 & H5 & H6 & H7 & H8 & H9).
    cbn [tl]. repeat split; try assumption; try (apply H8; assumption); try (apply IH; exact H9).
Qed.

Lemma stype_eqb_eq : forall a b, TM.stype_eqb a b = true <-> a = b.
Proof. intros [] []; cbn; split; intro H; try reflexivity; try discriminate. Qed.

Lemma tilingb_tl : forall sr tp sl ps pt, tilingb sr tp sl ps pt = true -> tl sr tp sl ps pt.
Proof.
  intros sr tp. induction sl as [|s sl IH]; intros ps pt H; cbn [tilingb tl] in *.
  - apply andb_true_iff in H. destruct H as [H1 H2]. apply N.eqb_eq in H1, H2. auto.
  - repeat (apply andb_true_iff in H; destruct H as [H ?]).
    repeat match goal with
           | X : (_ =? _) = true |- _ => apply N.eqb_eq in X
           | X : (_ <=? _) = true |- _ => apply N.leb_le in X
           end.
    assert (HT : TM.ty s = TM.SLit \/ TM.ty s = TM.STempl).
    { unfold is_lit, is_templ in H2. apply orb_true_iff in H2. destruct H2 as [E|E]; apply stype_eqb_eq in E; auto. }
    assert (HL : TM.ty s = TM.SLit -> sub sr (TM.s0 s) (TM.s1 s) = sub tp (TM.t0 s) (TM.t1 s) /\
                                      TM.s1 s - TM.s0 s = TM.t1 s - TM.t0 s).
    { intro L. unfold is_lit in H1. rewrite L in H1. cbn [TM.stype_eqb negb orb] in H1.
      apply andb_true_iff in H1. destruct H1 as [E1 E2]. apply str_eqb_eq in E1. apply N.eqb_eq in E2. auto. }
    repeat (split; [assumption|]). apply IH. assumption.
Qed.

Lemma tl_In : forall sr tp sl ps pt k, tl sr tp sl ps pt -> In k sl ->
  ps <= TM.s0 k /\ pt <= TM.t0 k /\ TM.s0 k <= TM.s1 k /\ TM.t0 k <= TM.t1 k /\
  TM.s1 k <= len sr /\ TM.t1 k <= len tp.
Proof.
  intros sr tp. induction sl as [|s sl IH]; intros ps pt k H Hin; [destruct Hin|].
  cbn [tl] in H. destruct H as (H1 & H2 & H3 & H4 & H5 & H6 & _ & _ & H9).
  destruct Hin as [->|Hin]; [lia|].
  specialize (IH _ _ _ H9 Hin). lia.
Qed.

Lemma tl_bounds : forall sr tp sl ps pt, tl sr tp sl ps pt -> ps <= len sr /\ pt <= len tp.
Proof.
  intros sr tp. induction sl as [|s sl IH]; intros ps pt H; cbn [tl] in H.
  - lia.
  - destruct H as (H1 & H2 & H3 & H4 & H5 & H6 & _). lia.
Qed.

(** text of a literal slice, piecewise *)
Lemma lit_sub : forall sr tp a b u v x y,
  sub sr a b = sub tp u v -> b - a = v - u -> u <= v -> a <= x -> x <= y -> y <= b ->
  sub sr x y = sub tp (u + (x - a)) (u + (y - a)).
Proof.
  intros sr tp a b u v x y E L Huv Hax Hxy Hyb.
  rewrite <- (sub_sub sr a b x y) by assumption. rewrite E.
  rewrite <- (sub_sub tp u v (u + (x - a)) (u + (y - a))) by lia.
  f_equal; lia.
Qed.

(** * Patch lists sorted in both texts *)
Fixpoint dchain (a u : N) (ds : list dpatch) : Prop :=
  match ds with
  | [] => True
  | d :: ds' => a <= da d /\ da d <= db d /\ u <= du d /\ du d <= dv d /\ dchain (db d) (dv d) ds'
  end.

Lemma dchain_lower : forall ds a u d, dchain a u ds -> In d ds -> a <= da d /\ u <= du d.
Proof.
  induction ds as [|e ds IH]; intros a u d H Hin; [destruct Hin|].
  cbn [dchain] in H. destruct H as (H1 & H2 & H3 & H4 & H5).
  destruct Hin as [->|Hin]; [lia|]. specialize (IH _ _ _ H5 Hin). lia.
Qed.

Definition first_ge (a u : N) (ds : list dpatch) : Prop :=
  match ds with [] => True | d :: _ => a <= da d /\ u <= du d end.

Lemma dchain_raise : forall ds a u a' u', dchain a u ds -> first_ge a' u' ds -> dchain a' u' ds.
Proof.
  destruct ds as [|d ds]; intros a u a' u' H F; [exact I|].
  cbn [dchain first_ge] in *. destruct H as (H1 & H2 & H3 & H4 & H5). destruct F. repeat split; assumption.
Qed.

(** * Alignment as a proposition *)
Definition ins (s : TM.tslice) (d : dpatch) : Prop :=
  TM.ty s = TM.SLit /\ TM.s0 s <= da d /\ da d <= db d /\ db d <= TM.s1 s /\
  du d = TM.t0 s + (da d - TM.s0 s) /\ dv d = TM.t0 s + (db d - TM.s0 s).
Definition al (ps pt : N) (sl : list TM.tslice) (d : dpatch) : Prop :=
  (exists s, In s sl /\ ins s d) \/
  (da d = db d /\ du d = dv d /\
   ((da d = ps /\ du d = pt) \/ exists s, In s sl /\ da d = TM.s1 s /\ du d = TM.t1 s)).

Lemma in_slice_ins : forall s d, in_slice s d = true -> ins s d.
Proof.
  intros s d H. unfold in_slice in H.
  repeat (apply andb_true_iff in H; destruct H as [H ?]).
  repeat match goal with
         | X : (_ =? _) = true |- _ => apply N.eqb_eq in X
         | X : (_ <=? _) = true |- _ => apply N.leb_le in X
         end.
  unfold is_lit in H. apply stype_eqb_eq in H. unfold ins. repeat split; assumption.
Qed.

Lemma aligned_al : forall ps pt sl d, aligned ps pt sl d = true -> al ps pt sl d.
Proof.
  intros ps pt sl d H. unfold aligned in H. apply orb_true_iff in H. destruct H as [H|H].
  - left. apply existsb_exists in H. destruct H as [s [Hin Hs]]. exists s. split; [exact Hin | apply in_slice_ins; exact Hs].
  - right. apply andb_true_iff in H. destruct H as [H H3]. apply andb_true_iff in H. destruct H as [H1 H2].
    apply N.eqb_eq in H1, H2. split; [exact H1|]. split; [exact H2|].
    apply orb_true_iff in H3. destruct H3 as [H3|H3].
    + left. apply andb_true_iff in H3. destruct H3 as [A B]. apply N.eqb_eq in A, B. auto.
    + right. apply existsb_exists in H3. destruct H3 as [s [Hin Hs]]. exists s. split; [exact Hin|].
      unfold at_end in Hs. apply andb_true_iff in Hs. destruct Hs as [A B]. apply N.eqb_eq in A, B. auto.
Qed.

(** * The target: literal pieces woven around the placeholders *)
Section Weave.
  Variables sr tp : str.

  Definition ph (s : TM.tslice) : str := sub sr (TM.s0 s) (TM.s1 s).
  Definition rd (s : TM.tslice) : str := sub tp (TM.t0 s) (TM.t1 s).

  (** [rebuilt sl x y]: [x] is the source stretch covered by [sl] with its literal text replaced (the
      placeholders kept), [y] the templated stretch with the same literal text (the renderings kept) *)
  Inductive rebuilt : list TM.tslice -> str -> str -> Prop :=
  | rb_nil : forall l, rebuilt [] l l
  | rb_lit : forall s sl l x y, TM.ty s = TM.SLit -> rebuilt sl x y -> rebuilt (s :: sl) (l ++ x) (l ++ y)
  | rb_tpl : forall s sl l x y, TM.ty s = TM.STempl -> rebuilt sl x y ->
             rebuilt (s :: sl) (l ++ ph s ++ x) (l ++ rd s ++ y).

  Lemma rebuilt_pre : forall sl l x y, rebuilt sl x y -> rebuilt sl (l ++ x) (l ++ y).
  Proof.
    intros sl l x y H. destruct H as [l0 | s sl l0 x y L H | s sl l0 x y L H].
    - constructor.
    - rewrite !app_assoc. apply rb_lit; assumption.
    - rewrite !(app_assoc l l0). apply rb_tpl; assumption.
  Qed.

  Lemma rebuilt_rehead : forall s s' sl l x y,
    TM.ty s' = TM.SLit -> TM.ty s = TM.SLit -> rebuilt (s' :: sl) x y -> rebuilt (s :: sl) (l ++ x) (l ++ y).
  Proof.
    intros s s' sl l x y L' L H. inversion H; subst.
    - rewrite !app_assoc. apply rb_lit; assumption.
    - congruence.
  Qed.

  Lemma rebuilt_weave : forall sl x y, rebuilt sl x y ->
    exists lits, length lits = S (length (filter is_templ sl)) /\
      x = weave lits (map ph (filter is_templ sl)) /\ y = weave lits (map rd (filter is_templ sl)).
  Proof.
    intros sl x y H. induction H as [l | s sl l x y L H IH | s sl l x y L H IH].
    - exists [l]. cbn. rewrite app_nil_r. auto.
    - destruct IH as [lits [Hl [Hx Hy]]].
      assert (F : is_templ s = false) by (unfold is_templ; rewrite L; reflexivity).
      cbn [filter]. rewrite F.
      destruct lits as [|l0 lits]; [discriminate|].
      exists ((l ++ l0) :: lits). split; [exact Hl|]. subst x y. cbn [weave]. rewrite <- !app_assoc. auto.
    - destruct IH as [lits [Hl [Hx Hy]]].
      assert (F : is_templ s = true) by (unfold is_templ; rewrite L; reflexivity).
      cbn [filter]. rewrite F.
      exists (l :: lits). cbn [length map weave]. subst x y. auto.
  Qed.

  (** * Moving the start of a spliced stretch *)
  Lemma splice_skip : forall txt ps idx j,
    idx <= j -> match ps with [] => j <= len txt | p :: _ => j <= p_s p end ->
    splice txt idx ps = sub txt idx j ++ splice txt j ps.
  Proof.
    intros txt ps idx j Hij H. destruct ps as [|p ps]; cbn [splice].
    - rewrite sub_app by assumption. reflexivity.
    - rewrite (app_assoc (sub txt idx j)). rewrite sub_app by assumption. reflexivity.
  Qed.

  (** * Leaving the head slice behind *)
  Lemma al_advance : forall s sl ps pt d,
    tl sr tp (s :: sl) ps pt -> al ps pt (s :: sl) d ->
    TM.s1 s <= da d -> TM.t1 s <= du d -> al (TM.s1 s) (TM.t1 s) sl d.
  Proof.
    intros s sl ps pt d Ht Ha Hs Hu. cbn [tl] in Ht.
    destruct Ht as (H1 & H2 & H3 & H4 & H5 & H6 & H7 & H8 & H9).
    destruct Ha as [[k [Hin Hk]] | (Z1 & Z2 & [[A B] | [k [Hin [A B]]]])].
    - destruct Hin as [<-|Hin].
      + destruct Hk as (L & K1 & K2 & K3 & K4 & K5). destruct (H8 L) as [_ EL].
        right. split; [lia|]. split; [lia|]. left. lia.
      + left. exists k. auto.
    - right. split; [exact Z1|]. split; [exact Z2|]. left. lia.
    - right. split; [exact Z1|]. split; [exact Z2|]. destruct Hin as [<-|Hin].
      + left. auto.
      + right. exists k. auto.
  Qed.

  Lemma advance : forall s sl ps pt ds,
    tl sr tp (s :: sl) ps pt -> dchain ps pt ds -> Forall (al ps pt (s :: sl)) ds ->
    first_ge (TM.s1 s) (TM.t1 s) ds ->
    dchain (TM.s1 s) (TM.t1 s) ds /\ Forall (al (TM.s1 s) (TM.t1 s) sl) ds /\
    splice sr ps (map spatch ds) = sub sr ps (TM.s1 s) ++ splice sr (TM.s1 s) (map spatch ds) /\
    splice tp pt (map tpatch ds) = sub tp pt (TM.t1 s) ++ splice tp (TM.t1 s) (map tpatch ds).
  Proof.
    intros s sl ps pt ds Ht Hc Ha Hf.
    assert (Hc' : dchain (TM.s1 s) (TM.t1 s) ds) by (eapply dchain_raise; eauto).
    split; [exact Hc'|]. split.
    - apply Forall_forall. intros d Hd. rewrite Forall_forall in Ha.
      destruct (dchain_lower _ _ _ _ Hc' Hd). eapply al_advance; eauto.
    - pose proof Ht as Ht'. cbn [tl] in Ht'. destruct Ht' as (H1 & H2 & H3 & H4 & H5 & H6 & _).
      split; apply splice_skip; try lia.
      + destruct ds as [|d ds]; cbn [map first_ge] in *; [lia | cbn; lia].
      + destruct ds as [|d ds]; cbn [map first_ge] in *; [lia | cbn; lia].
  Qed.

  Lemma wrap : forall s sl ps pt x y,
    tl sr tp (s :: sl) ps pt -> rebuilt sl x y ->
    rebuilt (s :: sl) (sub sr ps (TM.s1 s) ++ x) (sub tp pt (TM.t1 s) ++ y).
  Proof.
    intros s sl ps pt x y Ht H. cbn [tl] in Ht.
    destruct Ht as (H1 & H2 & H3 & H4 & H5 & H6 & H7 & H8 & H9). subst ps pt.
    destruct H7 as [L|L].
    - destruct (H8 L) as [E _]. rewrite E. apply rb_lit; assumption.
    - apply (rb_tpl s sl [] x y L H).
  Qed.

  (** shortening a literal head slice to start at [(b, v)] *)
  Lemma tl_shorten : forall s sl ps pt b v,
    tl sr tp (s :: sl) ps pt -> TM.ty s = TM.SLit ->
    TM.s0 s <= b -> b <= TM.s1 s -> v = TM.t0 s + (b - TM.s0 s) ->
    tl sr tp (TM.mk_ts TM.SLit b (TM.s1 s) v (TM.t1 s) :: sl) b v.
  Proof.
    intros s sl ps pt b v Ht L Hb1 Hb2 Hv. cbn [tl] in Ht.
    destruct Ht as (H1 & H2 & H3 & H4 & H5 & H6 & H7 & H8 & H9).
    destruct (H8 L) as [E EL].
    cbn [tl TM.s0 TM.s1 TM.t0 TM.t1 TM.ty]. repeat split; try lia; auto.
    - rewrite (lit_sub sr tp (TM.s0 s) (TM.s1 s) (TM.t0 s) (TM.t1 s) b (TM.s1 s)) by (assumption || lia).
      f_equal; lia.
  Qed.

  (** * The lemma *)
  Lemma weave_main : forall sl ps pt ds,
    tl sr tp sl ps pt -> dchain ps pt ds -> Forall (al ps pt sl) ds ->
    rebuilt sl (splice sr ps (map spatch ds)) (splice tp pt (map tpatch ds)).
  Proof.
    induction sl as [|s sl IH].
    - intros ps pt ds Ht Hc Ha. cbn [tl] in Ht. destruct Ht as [-> ->].
      assert (E : splice sr (len sr) (map spatch ds) = splice tp (len tp) (map tpatch ds)).
      { induction ds as [|d ds IHd]; cbn [map splice].
        - rewrite !sub_nil by lia. reflexivity.
        - inversion Ha as [|? ? Hd Ha']; subst.
          destruct Hd as [[k [[] _]] | (Z1 & Z2 & [[A B] | [k [[] _]]])].
          cbn [spatch tpatch p_s p_e p_raw]. cbn [dchain] in Hc. destruct Hc as (_ & _ & _ & _ & Hc).
          rewrite !sub_nil by lia. cbn [app]. f_equal.
          rewrite <- Z1, <- Z2, A, B. apply IHd; [exact Ha'|]. rewrite <- Z1, <- Z2, A, B in Hc. exact Hc. }
      rewrite E. constructor.
    - intros ps pt ds. revert s ps pt.
      induction ds as [|d ds IHd]; intros s ps pt Ht Hc Ha.
      + destruct (advance s sl ps pt [] Ht Hc Ha I) as (Hc' & Ha' & E1 & E2).
        rewrite E1, E2. eapply wrap; [exact Ht|]. apply IH; [|exact Hc'|exact Ha'].
        cbn [tl] in Ht. apply Ht.
      + inversion Ha as [|? ? Hd Ha']; subst.
        pose proof Ht as Ht0. cbn [tl] in Ht0. destruct Ht0 as (H1 & H2 & H3 & H4 & H5 & H6 & H7 & H8 & H9).
        pose proof Hc as Hc0. cbn [dchain] in Hc0. destruct Hc0 as (C1 & C2 & C3 & C4 & C5).
        assert (ADV : TM.s1 s <= da d -> TM.t1 s <= du d ->
                      rebuilt (s :: sl) (splice sr ps (map spatch (d :: ds))) (splice tp pt (map tpatch (d :: ds)))).
        { intros G1 G2. destruct (advance s sl ps pt (d :: ds) Ht Hc Ha (conj G1 G2)) as (Hc' & Hal' & E1 & E2).
          rewrite E1, E2. eapply wrap; [exact Ht|]. apply IH; [exact H9|exact Hc'|exact Hal']. }
        destruct Hd as [[k [Hin Hk]] | (Z1 & Z2 & [[A B] | [k [Hin [A B]]]])].
        * destruct Hin as [<-|Hin].
          -- (* the patch lies in the (literal) head slice *)
             destruct Hk as (L & K1 & K2 & K3 & K4 & K5). destruct (H8 L) as [E EL].
             cbn [map splice spatch tpatch p_s p_e p_raw].
             assert (Hpre : sub sr ps (da d) = sub tp pt (du d)).
             { subst ps pt. rewrite (lit_sub sr tp (TM.s0 s) (TM.s1 s) (TM.t0 s) (TM.t1 s) (TM.s0 s) (da d)) by (assumption || lia).
               f_equal; lia. }
             rewrite Hpre. rewrite !app_assoc.
             apply (rebuilt_rehead s (TM.mk_ts TM.SLit (db d) (TM.s1 s) (dv d) (TM.t1 s))); [reflexivity|exact L|].
             apply IHd.
             ++ eapply tl_shorten; eauto; lia.
             ++ exact C5.
             ++ apply Forall_forall. intros q Hq. rewrite Forall_forall in Ha'. specialize (Ha' q Hq).
                destruct (dchain_lower _ _ _ _ C5 Hq) as [Q1 Q2].
                destruct Ha' as [[k [Hin Hk]] | (Y1 & Y2 & [[A B] | [k [Hin [A B]]]])].
                ** destruct Hin as [<-|Hin].
                   --- left. eexists. split; [left; reflexivity|].
                       destruct Hk as (_ & J1 & J2 & J3 & J4 & J5).
                       unfold ins. cbn [TM.s0 TM.s1 TM.t0 TM.t1 TM.ty]. repeat split; try lia.
                   --- left. exists k. split; [right; exact Hin|exact Hk].
                ** right. split; [exact Y1|]. split; [exact Y2|]. left. lia.
                ** right. split; [exact Y1|]. split; [exact Y2|]. destruct Hin as [<-|Hin].
                   --- right. eexists. split; [left; reflexivity|]. cbn [TM.s1 TM.t1]. auto.
                   --- right. exists k. split; [right; exact Hin|auto].
          -- (* the patch lies in a later slice *)
             destruct (tl_In _ _ _ _ _ k H9 Hin) as (T1 & T2 & _).
             destruct Hk as (_ & K1 & _ & _ & K4 & _). apply ADV; lia.
        * (* an insertion right at the start *)
          cbn [map splice spatch tpatch p_s p_e p_raw].
          rewrite !sub_nil by lia. cbn [app].
          apply rebuilt_pre. rewrite <- Z1, <- Z2, A, B.
          apply IHd; [exact Ht| |exact Ha']. rewrite <- Z1, <- Z2, A, B in C5. exact C5.
        * (* an insertion at the end of some slice *)
          destruct Hin as [<-|Hin].
          -- apply ADV; lia.
          -- destruct (tl_In _ _ _ _ _ k H9 Hin) as (T1 & T2 & T3 & T4 & _). apply ADV; lia.
  Qed.
End Weave.

(** The slice-side theorem. *)
Theorem weave_patches : forall sr tp sl ds,
  tl sr tp sl 0 0 -> dchain 0 0 ds -> Forall (al 0 0 sl) ds ->
  exists lits, length lits = S (length (filter is_templ sl)) /\
    splice sr 0 (map spatch ds) = weave lits (map (ph sr) (filter is_templ sl)) /\
    splice tp 0 (map tpatch ds) = weave lits (map (rd tp) (filter is_templ sl)).
Proof.
  intros sr tp sl ds Ht Hc Ha. apply rebuilt_weave. apply weave_main; assumption.
Qed.
