(** C04, conflict side: every raw slice that a source range really overlaps is among the slices
    [raw_slices_spanning_source_slice] returns - so a deletion / replacement whose source range
    reaches into a placeholder is always seen as a template conflict. *)
From Sq Require Import Base.Bytes Patch.SpanModel.

Lemma tiles_ge : forall l i x, tiles l i -> In x l -> i <= r_idx x.
Proof.
  induction l as [|y l IH]; cbn [tiles In]; intros i x Ht Hin; [contradiction|].
  destruct Ht as [Hy Ht]. destruct Hin as [->|Hin]; [lia|].
  specialize (IH _ _ Ht Hin). lia.
Qed.

Lemma tiles_end_le_last : forall l0 z i x,
  tiles (l0 ++ [z]) i -> In x (l0 ++ [z]) -> r_idx x + r_len x <= r_idx z + r_len z.
Proof.
  induction l0 as [|y l0 IH]; cbn [app tiles In]; intros z i x Ht Hin.
  - destruct Hin as [->|[]]. lia.
  - destruct Ht as [Hy Ht]. destruct Hin as [->|Hin].
    + assert (Hz : In z (l0 ++ [z])) by (apply in_or_app; right; left; reflexivity).
      pose proof (tiles_ge _ _ _ Ht Hz). lia.
    + eapply IH; eauto.
Qed.

Lemma take_span_complete : forall l i b x,
  tiles l i -> In x l -> r_idx x < b -> In x (take_span l b).
Proof.
  induction l as [|y l IH]; cbn [tiles In take_span]; intros i b x Ht Hin Hb; [contradiction|].
  destruct Ht as [Hy Ht].
  destruct (r_idx y <? b) eqn:E.
  - destruct Hin as [->|Hin]; [left; reflexivity|right; eapply IH; eauto].
  - apply N.ltb_ge in E. destruct Hin as [->|Hin]; [lia|].
    pose proof (tiles_ge _ _ _ Ht Hin). lia.
Qed.

Lemma take_span_sub : forall l b x, In x (take_span l b) -> In x l /\ r_idx x < b.
Proof.
  induction l as [|y l IH]; cbn [take_span In]; intros b x H; [contradiction|].
  destruct (r_idx y <? b) eqn:E; [|contradiction].
  apply N.ltb_lt in E. destruct H as [->|H]; [split; [left; reflexivity|exact E]|].
  destruct (IH _ _ H). split; [right; assumption|assumption].
Qed.

Lemma skip_to_complete : forall l i a b x,
  tiles l i -> In x l -> r_idx x < b -> a < r_idx x + r_len x ->
  match skip_to l a with
  | x0 :: l' => In x (x0 :: take_span l' b)
  | [] => False
  end.
Proof.
  induction l as [|x0 l IH]; intros i a b x Ht Hin Hb Ha; [contradiction|].
  cbn [skip_to]. destruct l as [|y l''].
  - destruct Hin as [->|[]]. left; reflexivity.
  - cbn [tiles] in Ht. destruct Ht as [Hx0 [Hy Ht]].
    destruct (r_idx y <=? a) eqn:E.
    + apply N.leb_le in E. destruct Hin as [->|Hin]; [lia|].
      apply (IH (i + r_len x0) a b x); [cbn [tiles]; split; assumption|assumption|assumption|assumption].
    + destruct Hin as [->|Hin]; [left; reflexivity|].
      right. apply (take_span_complete (y :: l'') (i + r_len x0)); [cbn [tiles]; split; assumption|assumption|assumption].
Qed.

Lemma skip_to_sub : forall l a x, In x (skip_to l a) -> In x l.
Proof.
  induction l as [|x0 l IH]; intros a x H; [exact H|].
  cbn [skip_to] in H. destruct l as [|y l'']; [exact H|].
  destruct (r_idx y <=? a); [right; apply (IH a x H)|exact H].
Qed.

(** Completeness: a raw slice of a tiling list that overlaps the source range [a, b) is returned. *)
Theorem spanning_complete : forall l a b r x,
  tiles l 0 -> spanning l a b = Some r ->
  In x l -> r_idx x < b -> a < r_idx x + r_len x -> In x r.
Proof.
  intros l a b r x Ht Hs Hin Hb Ha. unfold spanning in Hs.
  destruct (rev l) as [|z rl] eqn:Er; [discriminate|].
  assert (El : l = rev rl ++ [z]) by (rewrite <- (rev_involutive l), Er; reflexivity).
  destruct (r_idx z + r_len z <=? a) eqn:E.
  - apply N.leb_le in E. rewrite El in Ht, Hin.
    pose proof (tiles_end_le_last _ _ _ _ Ht Hin). lia.
  - pose proof (skip_to_complete l 0 a b x Ht Hin Hb Ha) as H.
    destruct (skip_to l a) as [|x0 l']; [contradiction|].
    injection Hs as <-. exact H.
Qed.

(** Nothing foreign is returned, and every returned slice but the first starts before [b]. *)
Theorem spanning_sub : forall l a b r x, spanning l a b = Some r -> In x r -> In x l.
Proof.
  intros l a b r x Hs Hin. unfold spanning in Hs.
  destruct (rev l) as [|z rl]; [discriminate|].
  destruct (r_idx z + r_len z <=? a); [injection Hs as <-; contradiction|].
  destruct (skip_to l a) as [|x0 l'] eqn:Es; injection Hs as <-; [contradiction|].
  destruct Hin as [->|Hin].
  - apply (skip_to_sub l a). rewrite Es. left; reflexivity.
  - apply (skip_to_sub l a). rewrite Es. right. apply (take_span_sub _ _ _ Hin).
Qed.

(** The verdict: a deletion / replacement whose source range overlaps a templated raw slice is a
    template conflict ([any] over the returned slices). *)
Theorem conflict_complete : forall l a b r x,
  tiles l 0 -> spanning l a b = Some r ->
  In x l -> r_tpl x = true -> r_idx x < b -> a < r_idx x + r_len x -> any_templated r = true.
Proof.
  intros l a b r x Ht Hs Hin Hx Hb Ha. unfold any_templated.
  apply existsb_exists. exists x. split; [eapply spanning_complete; eauto|exact Hx].
Qed.

(** total on non-empty slice lists *)
Theorem spanning_total : forall l a b, l <> [] -> exists r, spanning l a b = Some r.
Proof.
  intros l a b Hl. unfold spanning.
  destruct (rev l) as [|z rl] eqn:Er.
  - exfalso. apply Hl. rewrite <- (rev_involutive l), Er. reflexivity.
  - destruct (r_idx z + r_len z <=? a); [eauto|]. destruct (skip_to l a); eauto.
Qed.

(** Non-vacuity: "SELECT a FROM users AS :al" - literal 0..23, placeholder 23..26 (the last raw
    slice); the alias expression "AS :al" is source 20..26. *)
Example ex_tiles : tiles [((0, 23), false); ((23, 3), true)] 0.
Proof. cbn. repeat split. Qed.
Example ex_span : spanning [((0, 23), false); ((23, 3), true)] 20 26 = Some [((0, 23), false); ((23, 3), true)].
Proof. vm_compute. reflexivity. Qed.
Example ex_conflict : any_templated [((0, 23), false); ((23, 3), true)] = true.
Proof. reflexivity. Qed.
